(* CapFulfill.v — preservation of the invariant by the steps of ClientPromise.Fulfill
   (variant fixed = true). *)
From Coq Require Import ZArith List Bool Arith Lia.
From CV Require Import Cap.Cap Cap.CapInv Cap.CapLemmas Cap.CapStep.
Import ListNotations.
Open Scope Z_scope.

Lemma flight_facts : forall g t th p n c cur, Inv g -> nth_error (threads g) t = Some th ->
  t_pc th = FWalk p n c cur ->
  exists hp, get_hook g p = Some hp /\ h_mu hp = Some t /\ h_refs hp = 0 /\ tokens g p = n /\
             0 < n /\ forwarded p hp = true /\ path1 g p cur /\ borrow_ok g c (Some cur).
Proof. intros. apply (inv_flight g (invF g H)). exists th; auto. Qed.

Lemma step_FWalk_hop : forall g t th p n c cur hk r g',
  Inv g -> nth_error (threads g) t = Some th -> t_pc th = FWalk p n c cur ->
  get_hook g cur = Some hk -> forwarded cur hk = true -> h_rh hk = Some r ->
  step true g t = Some g' -> misuse g' = false -> Inv g'.
Proof.
  intros g t th p n c cur hk r g' I Hth Hpc Hx Hf Hr Hs Hm. unfold step in Hs. rewrite Hth, Hpc, Hx in Hs.
  destruct (h_mu hk) eqn:Hmu; [discriminate|]. rewrite Hf, Hr in Hs. inversion Hs; subst g'; clear Hs.
  destruct (flight_facts g t th p n c cur I Hth Hpc) as (hp & A1 & A2 & A3 & A4 & A5 & A6 & A7 & A8).
  set (F := fun th0 : thread => mkThread (t_prog th0) (FWalk p n c r) (t_res th0)).
  set (g' := set_pc t (FWalk p n c r) g) in *.
  assert (Ht : threads g' = upd t F (threads g)) by reflexivity.
  assert (L : links_le g g') by (apply links_le_same_hooks; reflexivity).
  assert (Hfw : fwd g cur r) by (exists hk; auto).
  destruct I as [I0 IH IC IF]. constructor; auto.
  - apply (LH g g' t th F Hth Ht []).
    + exact IH.
    + unfold g'. cbn. lia.
    + intros h _. unfold wclose, wcall, F. cbn [t_pc]. rewrite Hpc. repeat split; reflexivity.
    + intros h n0 c0 cur0 _ E. rewrite Hpc in E. inversion E; subst. do 3 eexists; reflexivity.
    + intros h hk' [].
    + intros h [].
  - apply (LC g g' t th F Hth Ht []).
    + exact IC.
    + intros k c0 cur0 E. rewrite Hpc in E. discriminate.
    + intros i cl [].
    + intros i cl A. exists cl. auto.
    + intros i cl' A. left. exists cl'. auto.
    + intros i cl' A. eapply client_ok_mono; eauto. apply (inv_client g IC _ _ A).
    + intros k c0 cur0 E. discriminate.
    + intros i cl' t' [].
    + intros i cl' [].
    + intros k c0 cur9 cl' E. discriminate.
  - apply (LF g g' t th F Hth Ht []).
    + exact IF.
    + exact L.
    + intros h _. auto.
    + intros h hk2 [].
    + intros ci rh Hb B. eapply borrow_ok_frame; eauto.
    + intros p0 n0 c0 cur0 E. inversion E; subst p0 n0 c0 cur0. clear E.
      exists hp. repeat split; auto.
      * eapply path1_mono; [exact L|]. eapply path1_right; eauto.
      * eapply (borrow_ok_frame g g'); [exact L| |].
        { intros ci cl _ B. exists cl. auto. }
        destruct c as [ci|]; [|simpl in A8; discriminate].
        destruct A8 as (cl & B1 & B2 & B3). exists cl. repeat split; auto.
        destruct (c_tgt cl) as [T|] eqn:ET; simpl in *.
        -- eapply reach_step_inv; eauto. intros ->.
           eapply (no_tokens_tgt g T ci cl); eauto. eapply fwd_free_no_tokens; eauto.
        -- eapply to_nil_step; eauto.
    + intros p0 rh c0 E. discriminate.
Qed.

(* the end of the transfer walk: p's clients are re-accounted at q (the hook the walk stopped
   at, or nil), p's mutex is released and the thread goes on to shut p down *)
Lemma fwalk_finish : forall g g' t th p n c cur hk hk' hp q,
  Inv g -> nth_error (threads g) t = Some th -> t_pc th = FWalk p n c cur ->
  get_hook g cur = Some hk -> h_mu hk = None ->
  get_hook g p = Some hp -> h_mu hp = Some t -> h_refs hp = 0 -> tokens g p = n -> 0 < n ->
  forwarded p hp = true ->
  threads g' = upd t (fun th0 => mkThread (t_prog th0) (WaitDone p) (t_res th0)) (threads g) ->
  hooks g' = upd p (fun _ => hk_mu None hp) (upd cur (fun _ => hk') (hooks g)) ->
  clients g' = map (rt1 p q) (clients g) -> misuse g' = false ->
  q <> Some p ->
  hk' = hk_refs (h_refs hk + (if oeqb q (Some cur) then n else 0)) hk ->
  (oeqb q (Some cur) = true -> forwarded cur hk = false /\ 1 <= h_refs hk) ->
  (forall h, q = Some h -> h = cur) ->
  (forall y, reach g y p -> tgt_ok g q y) ->
  Inv g'.
Proof.
  intros g g' t th p n c cur hk hk' hp q I Hth Hpc Hx Hmu Hp Hpmu Hpr Hpt Hn Hpf Ht Hh Hcl Hm Hq Ehk Hlive Hqc Hreach.
  set (F := fun th0 : thread => mkThread (t_prog th0) (WaitDone p) (t_res th0)) in *.
  assert (Hne : cur <> p) by (intros ->; congruence).
  assert (Hghp : get_hook g' p = Some (hk_mu None hp)).
  { unfold get_hook. rewrite Hh, nth_error_upd_eq, nth_error_upd_neq; auto. unfold get_hook in Hp. rewrite Hp. auto. }
  assert (Hghc : get_hook g' cur = Some hk').
  { unfold get_hook. rewrite Hh, nth_error_upd_neq, nth_error_upd_eq; auto. unfold get_hook in Hx. rewrite Hx. auto. }
  assert (Hgh : forall h, h <> p -> h <> cur -> get_hook g' h = get_hook g h).
  { intros. unfold get_hook. rewrite Hh, nth_error_upd_neq, nth_error_upd_neq; auto. }
  assert (Hfc : forwarded cur hk' = forwarded cur hk) by (rewrite Ehk; reflexivity).
  assert (Hrc : h_rh hk' = h_rh hk) by (rewrite Ehk; reflexivity).
  assert (L : links_le g g').
  { intros a ha A B. destruct (Nat.eq_dec a p) as [->|N1].
    - exists (hk_mu None hp). assert (ha = hp) by congruence. subst. auto.
    - destruct (Nat.eq_dec a cur) as [->|N2].
      + exists hk'. assert (ha = hk) by congruence. subst. rewrite Hfc. auto.
      + exists ha. rewrite Hgh; auto. }
  assert (L' : links_le g' g).
  { intros a ha A B. destruct (Nat.eq_dec a p) as [->|N1].
    - exists hp. rewrite Hghp in A. inversion A; subst. auto.
    - destruct (Nat.eq_dec a cur) as [->|N2].
      + exists hk. rewrite Hghc in A. inversion A; subst. rewrite Hfc in B. auto.
      + exists ha. rewrite Hgh in A; auto. }
  assert (Hreach' : forall y, reach g' y p -> tgt_ok g' q y).
  { intros y R. eapply tgt_ok_mono; [exact L|]. apply Hreach. eapply reach_mono; eauto. }
  assert (Htok : forall h, tokens g' h = if Nat.eqb h p then 0
                 else tokens g h + (if oeqb q (Some h) then n else 0)).
  { intros. rewrite (tokens_retarget g g' p q h Hcl Hq), Hpt. auto. }
  assert (Hgc : forall i, get_client g' i = option_map (rt1 p q) (get_client g i)).
  { intros. apply get_client_map; auto. }
  destruct I as [I0 IH IC IF].
  constructor; auto.
  - apply (LH g g' t th F Hth Ht [p; cur]).
    + exact IH.
    + rewrite Hh, !length_upd. auto.
    + intros h Hn0. assert (h <> p) by (intros ->; apply Hn0; left; auto).
      assert (h <> cur) by (intros ->; apply Hn0; right; left; auto).
      split. apply Hgh; auto. split.
      * rewrite Htok, (proj2 (Nat.eqb_neq h p)); auto.
        destruct (oeqb q (Some h)) eqn:E. apply oeqb_true in E. apply Hqc in E. congruence. lia.
      * unfold wclose, wcall, F. cbn [t_pc]. rewrite Hpc.
        rewrite (proj2 (Nat.eqb_neq p h)); auto.
    + intros h n0 c0 cur0 Hn0 E. rewrite Hpc in E. inversion E; subst. exfalso. apply Hn0. left; auto.
    + intros h hk2 Hin Hg2. destruct Hin as [<-|[<-|[]]].
      * rewrite Hghp in Hg2. inversion Hg2; subst hk2; clear Hg2.
        destruct (inv_hook g IH p hp Hp) as [O1 O2 O3 O4 O5 O6 O7].
        constructor; cbn [h_refs h_calls h_done h_shut h_mu hk_mu].
        -- intros _. rewrite Htok, Nat.eqb_refl. auto.
        -- discriminate.
        -- rewrite O3, (callers_upd g g' t F th p Ht Hth). unfold wcall, F. cbn [t_pc]. rewrite Hpc. lia.
        -- auto.
        -- rewrite (closers_upd g g' t F th p Ht Hth). unfold wclose, F. cbn [t_pc].
           rewrite Hpc, Nat.eqb_refl. lia.
        -- auto.
        -- auto.
      * rewrite Hghc in Hg2. inversion Hg2; subst hk2; clear Hg2.
        destruct (inv_hook g IH cur hk Hx) as [O1 O2 O3 O4 O5 O6 O7].
        assert (Hw1 : wclose cur (F th) = 0).
        { unfold wclose, F. cbn [t_pc]. rewrite (proj2 (Nat.eqb_neq p cur)); auto. }
        assert (Hw2 : wclose cur th = 0).
        { unfold wclose. rewrite Hpc. rewrite (proj2 (Nat.eqb_neq p cur)); auto. }
        assert (Hd : h_refs hk' = h_refs hk + (if oeqb q (Some cur) then n else 0)) by (rewrite Ehk; reflexivity).
        constructor; rewrite ?Hd.
        -- intros _. rewrite Htok, (proj2 (Nat.eqb_neq cur p)); auto. rewrite (O1 Hmu). lia.
        -- rewrite Ehk. cbn. rewrite Hmu. discriminate.
        -- rewrite Ehk. cbn [h_calls hk_refs]. rewrite O3, (callers_upd g g' t F th cur Ht Hth).
           unfold wcall, F. cbn [t_pc]. rewrite Hpc. lia.
        -- rewrite Ehk. cbn [h_done h_calls h_refs hk_refs]. rewrite O4.
           destruct (oeqb q (Some cur)) eqn:E.
           ++ destruct (Hlive eq_refl) as (_ & R1).
              destruct (h_refs hk =? 0) eqn:E1; destruct (h_refs hk + n =? 0) eqn:E2; auto; lia.
           ++ replace (h_refs hk + 0) with (h_refs hk) by lia. auto.
        -- rewrite Ehk. cbn [h_shut hk_refs]. rewrite (closers_upd g g' t F th cur Ht Hth), Hw1, Hw2.
           destruct (oeqb q (Some cur)) eqn:E.
           ++ destruct (Hlive eq_refl) as (_ & R1).
              destruct (h_refs hk =? 0) eqn:E1; destruct (h_refs hk + n =? 0) eqn:E2; lia.
           ++ replace (h_refs hk + 0) with (h_refs hk) by lia. lia.
        -- rewrite Ehk. cbn. auto.
        -- rewrite Hfc. intros Hf. destruct (oeqb q (Some cur)) eqn:E.
           ++ destruct (Hlive eq_refl) as (Hnf & _). congruence.
           ++ rewrite (O7 Hf). lia.
    + intros h [<-|[<-|[]]]; rewrite Hh, !length_upd; eapply nth_error_some_lt; eauto.
  - apply (LC g g' t th F Hth Ht []).
    + exact IC.
    + intros k c0 cur0 E. rewrite Hpc in E. discriminate.
    + intros i cl [].
    + intros i cl A. exists (rt1 p q cl). rewrite Hgc, A. split; auto. intros _. apply rt1_fields.
    + intros i cl' A. rewrite Hgc in A. destruct (get_client g i) eqn:E; simpl in A; [|discriminate]. eauto.
    + intros i cl' A. rewrite Hgc in A. destruct (get_client g i) as [cl|] eqn:E; simpl in A; [|discriminate].
      inversion A; subst cl'. eapply client_ok_retarget; eauto. apply (inv_client g IC _ _ E).
    + intros k c0 cur0 E. discriminate.
    + intros i cl' t' [].
    + intros i cl' [].
    + intros k c0 cur9 cl' E. discriminate.
  - apply (LF g g' t th F Hth Ht [p; cur]).
    + exact IF.
    + exact L.
    + intros h Hn0. assert (h <> p) by (intros ->; apply Hn0; left; auto).
      assert (h <> cur) by (intros ->; apply Hn0; right; left; auto).
      split. apply Hgh; auto.
      rewrite Htok, (proj2 (Nat.eqb_neq h p)); auto.
      destruct (oeqb q (Some h)) eqn:E. apply oeqb_true in E. apply Hqc in E. congruence. lia.
    + intros h hk2 [<-|[<-|[]]] A.
      * right. congruence.
      * left. congruence.
    + intros ci rh Hb B. eapply borrow_ok_retarget; eauto.
    + intros p0 n0 c0 cur0 E. discriminate.
    + intros p0 rh c0 E. discriminate.
Qed.

Lemma step_FWalk_nil : forall g t th p n c cur hk g',
  Inv g -> nth_error (threads g) t = Some th -> t_pc th = FWalk p n c cur ->
  get_hook g cur = Some hk -> forwarded cur hk = true -> h_rh hk = None ->
  step true g t = Some g' -> misuse g' = false -> Inv g'.
Proof.
  intros g t th p n c cur hk g' I Hth Hpc Hx Hf Hr Hs Hm. unfold step in Hs. rewrite Hth, Hpc, Hx in Hs.
  destruct (h_mu hk) eqn:Hmu; [discriminate|]. rewrite Hf, Hr in Hs. inversion Hs; subst g'; clear Hs.
  destruct (flight_facts g t th p n c cur I Hth Hpc) as (hp & A1 & A2 & A3 & A4 & A5 & A6 & A7 & A8).
  apply path1_reach in A7.
  eapply (fwalk_finish g _ t th p n c cur hk hk hp None I Hth Hpc Hx Hmu A1 A2 A3 A4 A5 A6).
  - reflexivity.
  - cbn. unfold get_hook in Hx, A1. rewrite (upd_id _ _ _ _ Hx). rewrite (upd_const _ _ _ _ _ A1). reflexivity.
  - reflexivity.
  - exact Hm.
  - discriminate.
  - cbn. destruct hk; cbn. rewrite Z.add_0_r. reflexivity.
  - cbn. discriminate.
  - intros h E. discriminate.
  - intros y R. simpl. exists cur, hk. repeat split; auto. eapply reach_trans; eauto.
Qed.

Lemma step_FWalk_end : forall g t th p n c cur hk g',
  Inv g -> nth_error (threads g) t = Some th -> t_pc th = FWalk p n c cur ->
  get_hook g cur = Some hk -> forwarded cur hk = false ->
  step true g t = Some g' -> misuse g' = false -> Inv g'.
Proof.
  intros g t th p n c cur hk g' I Hth Hpc Hx Hf Hs Hm. unfold step in Hs. rewrite Hth, Hpc, Hx in Hs.
  destruct (h_mu hk) eqn:Hmu; [discriminate|]. rewrite Hf in Hs. inversion Hs; subst g'; clear Hs.
  destruct (flight_facts g t th p n c cur I Hth Hpc) as (hp & A1 & A2 & A3 & A4 & A5 & A6 & A7 & A8).
  apply path1_reach in A7.
  assert (Hne : cur <> p) by (intros ->; congruence).
  (* the borrowed client keeps the target alive *)
  assert (R1 : 1 <= h_refs hk).
  { destruct c as [ci|]; [|simpl in A8; discriminate].
    destruct A8 as (cl & B1 & B2 & B3).
    assert (c_tgt cl = Some cur).
    { destruct (c_tgt cl) as [T|]; simpl in B3.
      - f_equal. eapply reach_noout; eauto. intros b. eapply no_fwd_of_hook; eauto.
      - exfalso. eapply to_nil_noout; eauto. }
    destruct (inv_hook g (invH g I) cur hk Hx) as [O1 _ _ _ _ _ _]. rewrite (O1 Hmu).
    eapply tokens_ge_1; eauto. }
  eapply (fwalk_finish g _ t th p n c cur hk (hk_refs (h_refs hk + n) hk) hp (Some cur) I Hth Hpc Hx Hmu A1 A2 A3 A4 A5 A6).
  - reflexivity.
  - cbn. unfold get_hook in Hx, A1.
    rewrite (upd_const _ _ _ (hk_refs (h_refs hk + n)) _ Hx).
    assert (E : nth_error (upd cur (fun _ : hook => hk_refs (h_refs hk + n) hk) (hooks g)) p = Some hp).
    { rewrite nth_error_upd_neq; auto. }
    rewrite (upd_const _ _ _ (hk_mu None) _ E). reflexivity.
  - reflexivity.
  - exact Hm.
  - intros E. inversion E. congruence.
  - rewrite oeqb_refl. reflexivity.
  - intros _. auto.
  - intros h E. inversion E; auto.
  - intros y R. simpl. eapply reach_trans; eauto.
Qed.

(* ---------------------------------------------------------------- Fulfill marks the promise *)
Section FMARK.
Variables (g g' : config) (t : nat) (th : thread) (p : nat) (rh c : option nat) (hk hk' : hook) (pnew : pc).
Variable F : thread -> thread.
Hypothesis HF : forall th0, t_pc (F th0) = pnew.
Hypothesis I : Inv g.
Hypothesis Hth : nth_error (threads g) t = Some th.
Hypothesis Hpc : t_pc th = FMark p rh c.
Hypothesis Hp : get_hook g p = Some hk.
Hypothesis Hmu : h_mu hk = None.
Hypothesis Hres : h_resolved hk = false.
Hypothesis Ht : threads g' = upd t F (threads g).
Hypothesis Hh : hooks g' = upd p (fun _ => hk') (hooks g).
Hypothesis Hm : misuse g' = false.
Hypothesis E1 : h_refs hk' = 0.
Hypothesis E2 : h_resolved hk' = true.
Hypothesis E3 : h_rh hk' = rh.
Hypothesis E4 : h_calls hk' = h_calls hk.
Hypothesis E5 : h_shut hk' = h_shut hk.
Hypothesis E6 : h_done hk' = (h_calls hk =? 0).

Lemma fm_notfwd : forwarded p hk = false.
Proof. unfold forwarded. rewrite Hres. auto. Qed.

Lemma fm_links : links_le g g'.
Proof.
  intros a ha A B. rewrite (get_hook_upd g g' p _ a Hh). destruct (Nat.eqb p a) eqn:E.
  - apply Nat.eqb_eq in E; subst a. assert (ha = hk) by congruence. subst. rewrite fm_notfwd in B. discriminate.
  - exists ha. auto.
Qed.

Lemma fm_gh : forall h, h <> p -> get_hook g' h = get_hook g h.
Proof.
  intros h Hne. rewrite (get_hook_upd g g' p _ h Hh). destruct (Nat.eqb p h) eqn:E; auto.
  apply Nat.eqb_eq in E. congruence.
Qed.

Lemma fm_ghp : get_hook g' p = Some hk'.
Proof. rewrite (get_hook_upd g g' p _ p Hh), Nat.eqb_refl, Hp. auto. Qed.

Lemma fm_acct : h_refs hk = tokens g p.
Proof. destruct (inv_hook g (invH g I) p hk Hp) as [O1 _ _ _ _ _ _]. auto. Qed.

(* the hook group, given the token/weight bookkeeping of the three modes *)
Lemma fm_H :
  (forall h, h <> p -> tokens g' h = tokens g h) ->
  (forall h, h <> p -> wclose h (F th) = 0) -> (forall h, wcall h (F th) = 0) ->
  (h_mu hk' = None -> tokens g' p = 0) ->
  (forall t', h_mu hk' = Some t' -> exists n c cur, pc_of g' t' (FWalk p n c cur)) ->
  wclose p (F th) = (if h_refs hk =? 0 then 0 else 1) ->
  InvH g'.
Proof.
  intros Htok Hwc Hwk Hacct Hmu' Hclo.
  assert (W0 : forall h, wclose h th = 0 /\ wcall h th = 0).
  { intros. unfold wclose, wcall. rewrite Hpc. auto. }
  apply (LH g g' t th F Hth Ht [p]).
  - apply (invH g I).
  - rewrite Hh, length_upd. auto.
  - intros h Hn0. assert (h <> p) by (intros ->; apply Hn0; left; auto).
    destruct (W0 h) as (W1 & W2). rewrite W1, W2, Hwc, Hwk; auto. repeat split; auto. apply fm_gh; auto.
  - intros h n0 c0 cur0 _ E. rewrite Hpc in E. discriminate.
  - intros h hk2 [<-|[]] Hg2. rewrite fm_ghp in Hg2. inversion Hg2; subst hk2; clear Hg2.
    destruct (inv_hook g (invH g I) p hk Hp) as [O1 O2 O3 O4 O5 O6 O7].
    destruct (W0 p) as (W1 & W2).
    constructor.
    + intros A. rewrite E1, (Hacct A). auto.
    + exact Hmu'.
    + rewrite E4, O3, (callers_upd g g' t F th p Ht Hth), W2, Hwk. lia.
    + rewrite E6, E1, E4. reflexivity.
    + rewrite (closers_upd g g' t F th p Ht Hth), W1, Hclo, E5, E1. change (0 =? 0) with true. cbv iota.
      destruct (h_refs hk =? 0); lia.
    + rewrite E5. auto.
    + intros _. auto.
  - intros h [<-|[]]. rewrite Hh, length_upd. eapply nth_error_some_lt; eauto.
Qed.

End FMARK.

Lemma fm_C_same : forall g g' t th F,
  Inv g -> nth_error (threads g) t = Some th -> threads g' = upd t F (threads g) ->
  links_le g g' -> clients g' = clients g ->
  (forall k c0 cur, t_pc th <> CWalk k c0 cur) -> (forall k c0 cur, t_pc (F th) <> CWalk k c0 cur) ->
  InvC g'.
Proof.
  intros g g' t th F I Hth Ht L Hcl H1 H2.
  assert (Hgc : forall i, get_client g' i = get_client g i) by (intros; unfold get_client; rewrite Hcl; auto).
  apply (LC g g' t th F Hth Ht []).
  - apply (invC g I).
  - intros k c0 cur E. exfalso. exact (H1 _ _ _ E).
  - intros i cl [].
  - intros i cl A. exists cl. rewrite Hgc. auto.
  - intros i cl' A. left. exists cl'. rewrite <- Hgc. auto.
  - intros i cl' A. rewrite Hgc in A. eapply client_ok_mono; eauto. apply (inv_client g (invC g I) _ _ A).
  - intros k c0 cur E. exfalso. exact (H2 _ _ _ E).
  - intros i cl' t' [].
  - intros i cl' [].
  - intros k c0 cur9 cl' E. exfalso. exact (H2 _ _ _ E).
Qed.

Lemma neqb_false : forall a b : nat, a <> b -> Nat.eqb a b = false.
Proof. intros. apply Nat.eqb_neq. auto. Qed.

Lemma step_FMark_unresolved : forall g t th p rh c hk g',
  Inv g -> nth_error (threads g) t = Some th -> t_pc th = FMark p rh c ->
  get_hook g p = Some hk -> h_resolved hk = false ->
  step true g t = Some g' -> misuse g' = false -> Inv g'.
Proof.
  intros g t th p rh c hk g' I Hth Hpc Hp Hres Hs Hm. unfold step in Hs. rewrite Hth, Hpc, Hp in Hs.
  destruct (h_mu hk) eqn:Hmu; [discriminate|]. rewrite Hres in Hs.
  destruct (resolves_to_cycle g rh p) eqn:Ecyc.
  { exfalso. inversion Hs; subst g'. rewrite fmark_body_misuse in Hm. discriminate. reflexivity. }
  unfold fmark_body in Hs. cbv zeta in Hs.
  pose proof (fm_acct g p hk I Hp Hmu) as Hacct.
  assert (Htok0 : 0 <= tokens g p) by (apply sumf_nonneg; apply wtok_nonneg).
  destruct (inv_hook g (invH g I) p hk Hp) as [O1 O2 O3 O4 O5 O6 O7].
  pose proof (inv_fmark g (invF g I) t p rh c (ex_intro _ th (conj Hth Hpc))) as Hbor.
  set (hk1 := hk_refs 0 (hk_resolve rh hk)) in *.
  assert (NC : forall k c0 cur, t_pc th <> CWalk k c0 cur) by (intros; rewrite Hpc; discriminate).
  destruct (h_refs hk =? 0) eqn:En.
  - (* no references left: nothing to transfer, nothing to shut down *)
    cbv iota in Hs. inversion Hs; subst g'; clear Hs.
    set (g' := finish t ROk (uh p (fun _ => hk1) g)) in *.
    set (F := fun th0 : thread => mkThread (t_prog th0) Idle (ROk :: t_res th0)).
    assert (Ht : threads g' = upd t F (threads g)) by reflexivity.
    assert (Hh : hooks g' = upd p (fun _ => hk1) (hooks g)) by reflexivity.
    assert (L : links_le g g') by (eapply (fm_links g g' th p rh c hk hk1); eauto).
    constructor; auto.
    + eapply (fm_H g g' t th p rh c hk hk1 F I Hth Hpc Hp Ht Hh); try reflexivity.
      * unfold hk1; cbn. rewrite O4. reflexivity.
      * intros _. apply Z.eqb_eq in En. change (tokens g' p) with (tokens g p). lia.
      * unfold hk1; cbn. rewrite Hmu. discriminate.
      * rewrite En. reflexivity.
    + eapply (fm_C_same g g' t th F I Hth Ht L); auto. intros; discriminate.
    + apply (LF g g' t th F Hth Ht [p]).
      * apply (invF g I).
      * exact L.
      * intros h Hn0. assert (h <> p) by (intros ->; apply Hn0; left; auto). split; auto.
        apply (fm_gh g g' p hk1 Hh); auto.
      * intros h hk2 [<-|[]] A. left. congruence.
      * intros ci rh0 Hb B. eapply (borrow_ok_frame g g'); [exact L | intros ci0 cl _ A; exists cl; auto | exact B].
      * intros p0 n0 c0 cur0 E. discriminate.
      * intros p0 rh0 c0 E. discriminate.
  - assert (Hn : 0 < h_refs hk) by (apply Z.eqb_neq in En; lia).
    assert (Hd : h_done hk = false) by (rewrite O4; reflexivity).
    set (hk2 := if h_calls hk =? 0 then hk_done true hk1 else hk1).
    assert (Hcl2 : (if h_calls hk1 =? 0 then close_done hk1 else Some hk1) = Some hk2).
    { unfold hk2, close_done. cbn [h_calls h_done hk1 hk_refs hk_resolve]. rewrite Hd.
      destruct (h_calls hk =? 0); reflexivity. }
    cbv iota in Hs. rewrite Hcl2 in Hs. cbv iota in Hs.
    assert (D2 : h_done hk2 = (h_calls hk =? 0)).
    { unfold hk2. destruct (h_calls hk =? 0); cbn; auto. }
    assert (R2 : h_refs hk2 = 0) by (unfold hk2; destruct (h_calls hk =? 0); reflexivity).
    assert (S2 : h_shut hk2 = h_shut hk) by (unfold hk2; destruct (h_calls hk =? 0); reflexivity).
    assert (C2 : h_calls hk2 = h_calls hk) by (unfold hk2; destruct (h_calls hk =? 0); reflexivity).
    assert (M2 : h_mu hk2 = None) by (unfold hk2; destruct (h_calls hk =? 0); cbn; auto).
    assert (V2 : h_resolved hk2 = true) by (unfold hk2; destruct (h_calls hk =? 0); reflexivity).
    assert (H2 : h_rh hk2 = rh) by (unfold hk2; destruct (h_calls hk =? 0); reflexivity).
    clearbody hk2.
    destruct rh as [r|].
    + destruct (Nat.eqb r p) eqn:Erp.
      { cbv iota in Hs. inversion Hs; subst g'. cbn in Hm. discriminate. }
      apply Nat.eqb_neq in Erp.
      cbv iota in Hs. inversion Hs; subst g'; clear Hs.
      set (hk3 := hk_mu (Some t) hk2) in *.
      set (g' := set_pc t (FWalk p (h_refs hk) c r) (uh p (fun _ => hk3) g)) in *.
      set (F := fun th0 : thread => mkThread (t_prog th0) (FWalk p (h_refs hk) c r) (t_res th0)).
      assert (Ht : threads g' = upd t F (threads g)) by reflexivity.
      assert (Hh : hooks g' = upd p (fun _ => hk3) (hooks g)) by reflexivity.
      assert (L : links_le g g') by (eapply (fm_links g g' th p (Some r) c hk hk3); eauto).
      assert (Hme : pc_of g' t (FWalk p (h_refs hk) c r)) by (apply (pcs_me' g g' t th F Hth Ht)).
      assert (Hfw3 : forwarded p hk3 = true).
      { unfold forwarded, hk3. cbn. rewrite V2, H2. simpl. rewrite (neqb_false r p Erp). reflexivity. }
      constructor; auto.
      * eapply (fm_H g g' t th p (Some r) c hk hk3 F I Hth Hpc Hp Ht Hh); auto.
        -- intros h Hne. unfold wclose, F. cbn [t_pc]. rewrite (neqb_false p h); auto.
        -- unfold hk3. cbn. discriminate.
        -- unfold hk3. cbn. intros t' E. inversion E; subst t'. eauto.
        -- unfold wclose, F. cbn [t_pc]. rewrite Nat.eqb_refl, En. reflexivity.
      * eapply (fm_C_same g g' t th F I Hth Ht L); auto. intros; discriminate.
      * apply (LF g g' t th F Hth Ht [p]).
        -- apply (invF g I).
        -- exact L.
        -- intros h Hn0. assert (h <> p) by (intros ->; apply Hn0; left; auto). split; auto.
           apply (fm_gh g g' p hk3 Hh); auto.
        -- intros h hk4 [<-|[]] A. left. congruence.
        -- intros ci rh0 Hb B. eapply (borrow_ok_frame g g'); [exact L | intros ci0 cl _ A; exists cl; auto | exact B].
        -- intros p0 n0 c0 cur0 E. inversion E; subst p0 n0 c0 cur0; clear E.
           exists hk3. split. apply (fm_ghp g g' p hk hk3 Hp Hh).
           split. reflexivity. split. exact R2. split. symmetry; exact Hacct. split. exact Hn.
           split. exact Hfw3. split.
           { exists r. split; [|constructor]. exists hk3. split. apply (fm_ghp g g' p hk hk3 Hp Hh). auto. }
           eapply (borrow_ok_frame g g'); [exact L | intros ci0 cl _ A; exists cl; auto | exact Hbor].
        -- intros p0 rh0 c0 E. discriminate.
    + (* resolved to nil: the references are dropped *)
      cbv iota in Hs. inversion Hs; subst g'; clear Hs.
      set (g' := set_pc t (WaitDone p) (retarget p None (uh p (fun _ => hk2) g))) in *.
      set (F := fun th0 : thread => mkThread (t_prog th0) (WaitDone p) (t_res th0)).
      assert (Ht : threads g' = upd t F (threads g)) by reflexivity.
      assert (Hh : hooks g' = upd p (fun _ => hk2) (hooks g)) by reflexivity.
      assert (Hcl : clients g' = map (rt1 p None) (clients g)) by reflexivity.
      assert (L : links_le g g') by (eapply (fm_links g g' th p None c hk hk2); eauto).
      assert (Hq : None <> Some p) by discriminate.
      assert (Htok : forall h, tokens g' h = if Nat.eqb h p then 0 else tokens g h).
      { intros. rewrite (tokens_retarget g g' p None h Hcl Hq). destruct (Nat.eqb h p); auto. simpl. lia. }
      assert (Hfw2 : forwarded p hk2 = true).
      { unfold forwarded. rewrite V2, H2. reflexivity. }
      assert (Hnil : forall y, reach g' y p -> tgt_ok g' None y).
      { intros y R. simpl. exists p, hk2. split; auto. split. apply (fm_ghp g g' p hk hk2 Hp Hh). auto. }
      assert (Hgc : forall i, get_client g' i = option_map (rt1 p None) (get_client g i)).
      { intros. apply get_client_map; auto. }
      constructor; auto.
      * eapply (fm_H g g' t th p None c hk hk2 F I Hth Hpc Hp Ht Hh); auto.
        -- intros h Hne. rewrite Htok, (neqb_false h p); auto.
        -- intros h Hne. unfold wclose, F. cbn [t_pc]. rewrite (neqb_false p h); auto.
        -- intros _. rewrite Htok, Nat.eqb_refl. auto.
        -- rewrite M2. discriminate.
        -- unfold wclose, F. cbn [t_pc]. rewrite Nat.eqb_refl, En. reflexivity.
      * apply (LC g g' t th F Hth Ht []).
        -- apply (invC g I).
        -- intros k c0 cur E. exfalso. exact (NC _ _ _ E).
        -- intros i cl [].
        -- intros i cl A. exists (rt1 p None cl). rewrite Hgc, A. split; auto. intros _. apply rt1_fields.
        -- intros i cl' A. rewrite Hgc in A. destruct (get_client g i) eqn:E; simpl in A; [|discriminate]. eauto.
        -- intros i cl' A. rewrite Hgc in A. destruct (get_client g i) as [cl|] eqn:E; simpl in A; [|discriminate].
           inversion A; subst cl'. eapply client_ok_retarget; eauto. apply (inv_client g (invC g I) _ _ E).
        -- intros k c0 cur E. discriminate.
        -- intros i cl' t' [].
        -- intros i cl' [].
        -- intros k c0 cur9 cl' E. discriminate.
      * apply (LF g g' t th F Hth Ht [p]).
        -- apply (invF g I).
        -- exact L.
        -- intros h Hn0. assert (h <> p) by (intros ->; apply Hn0; left; auto). split.
           apply (fm_gh g g' p hk2 Hh); auto. rewrite Htok, (neqb_false h p); auto.
        -- intros h hk4 [<-|[]] A. left. congruence.
        -- intros ci rh0 Hb B. eapply borrow_ok_retarget; eauto.
        -- intros p0 n0 c0 cur0 E. discriminate.
        -- intros p0 rh0 c0 E. discriminate.
Qed.
