(* CapInv.v — the invariant of the interleaving model (variant [fixed = true]) and the
   statements of the C10 theorems.  Proofs are in CapProofs.v. *)
From Coq Require Import ZArith List Bool Arith Lia.
From CV Require Import Cap.Cap.
Import ListNotations.
Open Scope Z_scope.

Fixpoint sumf {A} (f : A -> Z) (l : list A) : Z :=
  match l with [] => 0 | x :: r => f x + sumf f r end.

(* ---- resolution graph *)
Definition fwd (g : config) (a b : nat) : Prop :=
  exists hk, get_hook g a = Some hk /\ forwarded a hk = true /\ h_rh hk = Some b.

Inductive reach (g : config) : nat -> nat -> Prop :=
| reach_refl0 : forall a, reach g a a
| reach_left : forall a m b, fwd g a m -> reach g m b -> reach g a b.

(* the chain from a ends in a hook resolved to nil *)
Definition to_nil (g : config) (a : nat) : Prop :=
  exists y hk, reach g a y /\ get_hook g y = Some hk /\ forwarded y hk = true /\ h_rh hk = None.

(* a non-empty path: p forwards to r, and cur is reachable from r *)
Definition path1 (g : config) (p cur : nat) : Prop := exists r, fwd g p r /\ reach g r cur.

(* ---- counting *)
Definition wtok (h : nat) (c : client) : Z := if oeqb (c_tgt c) (Some h) then 1 else 0.
(* number of live client references accounted at hook h *)
Definition tokens (g : config) (h : nat) : Z := sumf (wtok h) (clients g).

Definition wclose (h : nat) (th : thread) : Z :=
  match t_pc th with
  | WaitDone x => if Nat.eqb x h then 1 else 0
  | FWalk x _ _ _ => if Nat.eqb x h then 1 else 0
  | _ => 0
  end.
(* threads committed to shutting h down *)
Definition closers (g : config) (h : nat) : Z := sumf (wclose h) (threads g).

Definition wcall (h : nat) (th : thread) : Z :=
  match t_pc th with
  | InCall x _ => if Nat.eqb x h then 1 else 0
  | CallFin x _ => if Nat.eqb x h then 1 else 0
  | _ => 0
  end.
(* calls through h in progress *)
Definition callers (g : config) (h : nat) : Z := sumf (wcall h) (threads g).

(* ---- invariant *)
Definition tgt_ok (g : config) (T : option nat) (x : nat) : Prop :=
  match T with Some T => reach g x T | None => to_nil g x end.

Definition client_ok (g : config) (cl : client) : Prop :=
  match c_h cl with None => c_tgt cl = None | Some x => tgt_ok g (c_tgt cl) x end.

Definition borrow_ok (g : config) (c : option nat) (rh : option nat) : Prop :=
  match c with
  | None => rh = None
  | Some ci => exists cl, get_client g ci = Some cl /\ c_released cl = false /\
                 match rh with Some x => tgt_ok g (c_tgt cl) x | None => c_tgt cl = None end
  end.

Definition pc_of (g : config) (t : nat) (p : pc) : Prop :=
  exists th, nth_error (threads g) t = Some th /\ t_pc th = p.

(* the clauses about one hook *)
Record hook_ok (g : config) (h : nat) (hk : hook) : Prop := {
  (* a hook whose mutex is free accounts exactly for the clients that resolve to it *)
  hk_acct : h_mu hk = None -> h_refs hk = tokens g h;
  (* hook mutexes are held across steps only by a Fulfill in its transfer walk *)
  hk_mu_ : forall t, h_mu hk = Some t -> exists n c cur, pc_of g t (FWalk h n c cur);
  hk_calls_ : h_calls hk = callers g h;
  hk_done_ : h_done hk = ((h_refs hk =? 0) && (h_calls hk =? 0));
  hk_close : closers g h + h_shut hk = (if h_refs hk =? 0 then 1 else 0);
  hk_shut0 : 0 <= h_shut hk;
  hk_fwd : forwarded h hk = true -> h_refs hk = 0
}.

Record InvH (g : config) : Prop := {
  inv_range : forall h, (length (hooks g) <= h)%nat ->
      tokens g h = 0 /\ closers g h = 0 /\ callers g h = 0;
  inv_hook : forall h hk, get_hook g h = Some hk -> hook_ok g h hk
}.

Record InvC (g : config) : Prop := {
  inv_client : forall c cl, get_client g c = Some cl -> client_ok g cl;
  inv_cwalk : forall t k c cur, pc_of g t (CWalk k c cur) ->
      exists cl, get_client g c = Some cl /\ c_h cl = Some cur /\ c_mu cl = Some t /\
                 (k = KRelease -> c_released cl = true);
  inv_cmu : forall c cl t, get_client g c = Some cl -> c_mu cl = Some t ->
      exists k cur, pc_of g t (CWalk k c cur);
  (* a released client whose mutex is free has no hook any more (Release has completed) *)
  inv_rel : forall c cl, get_client g c = Some cl -> c_released cl = true -> c_mu cl = None ->
      c_h cl = None;
  (* only Release walks a released client *)
  inv_nrel : forall t k c cur cl, pc_of g t (CWalk k c cur) -> get_client g c = Some cl ->
      k <> KRelease -> c_released cl = false
}.

Record InvF (g : config) : Prop := {
  (* a Fulfill in its transfer walk holds the promise hook's mutex and carries its references *)
  inv_flight : forall t p n c cur, pc_of g t (FWalk p n c cur) ->
      exists hk, get_hook g p = Some hk /\ h_mu hk = Some t /\ h_refs hk = 0 /\ tokens g p = n /\
                 0 < n /\ forwarded p hk = true /\ path1 g p cur /\ borrow_ok g c (Some cur);
  inv_fmark : forall t p rh c, pc_of g t (FMark p rh c) -> borrow_ok g c rh
}.

Record Inv (g : config) : Prop := {
  inv_nomis : misuse g = false;
  invH : InvH g;
  invC : InvC g;
  invF : InvF g
}.

(* ---- statements *)

(* shutdown_once: in every reachable configuration (any schedule, any programs) every hook has
   been shut down at most once; it has been shut down or a thread is committed to shutting it
   down (and blocked only on calls still in progress) exactly when its reference count is 0;
   and when all threads are finished, shut = 1 iff refs = 0. *)
Definition shutdown_once_stmt : Prop :=
  forall progs g, reachable true (init progs) g -> misuse g = false ->
  forall h hk, get_hook g h = Some hk ->
    0 <= h_shut hk <= 1 /\
    closers g h + h_shut hk = (if h_refs hk =? 0 then 1 else 0) /\
    ((forall th, In th (threads g) -> unfinished th = false) ->
       h_shut hk = (if h_refs hk =? 0 then 1 else 0)).

(* shutdown_after_last: at the step that runs Shutdown (pc WaitDone h), the hook has no
   reference, no call in progress, and no live client resolves to it. *)
Definition shutdown_after_last_stmt : Prop :=
  forall progs g t h g', reachable true (init progs) g -> misuse g = false ->
  pc_of g t (WaitDone h) -> step true g t = Some g' ->
  exists hk, get_hook g h = Some hk /\ h_refs hk = 0 /\ h_calls hk = 0 /\ tokens g h = 0 /\
             callers g h = 0 /\ h_shut hk = 0.

(* refs_transfer: reference counts are exact.  Every hook whose mutex is free has
   refs = number of live clients resolving to it (so after Fulfill the promised hook's clients
   are counted at the target), and during the transfer the promised hook is locked, has
   refs = 0, and the walking thread carries exactly the references of its clients. *)
Definition refs_transfer_stmt : Prop :=
  forall progs g, reachable true (init progs) g -> misuse g = false ->
  (forall h hk, get_hook g h = Some hk -> h_mu hk = None -> h_refs hk = tokens g h) /\
  (forall t p n c cur, pc_of g t (FWalk p n c cur) ->
      exists hk, get_hook g p = Some hk /\ h_mu hk = Some t /\ h_refs hk = 0 /\ tokens g p = n) /\
  (forall c cl, get_client g c = Some cl -> client_ok g cl).

(* the transfer step itself *)
Definition refs_transfer_step_stmt : Prop :=
  forall g t p n c cur hk g', pc_of g t (FWalk p n c cur) ->
  get_hook g cur = Some hk -> h_mu hk = None -> forwarded cur hk = false -> cur <> p ->
  step true g t = Some g' ->
  exists hk', get_hook g' cur = Some hk' /\ h_refs hk' = h_refs hk + n /\
              tokens g' cur = tokens g cur + tokens g p /\ tokens g' p = 0.

(* no_stuck (deadlock freedom): a reachable configuration with an unfinished thread has an
   enabled step.  (The step of a thread inside a call-out is the application returning.) *)
Definition no_stuck_stmt : Prop :=
  forall progs g, reachable true (init progs) g -> misuse g = false ->
  (exists th, In th (threads g) /\ unfinished th = true) ->
  exists t g', step true g t = Some g'.

(* every id a thread is about to dereference exists (a well-formedness property of reachable
   configurations: ids come from slot tables, c_h, resolvedHook, which only ever hold ids of
   allocated objects) *)
Definition ids_ok (g : config) : Prop :=
  forall t th, nth_error (threads g) t = Some th ->
  match t_pc th with
  | CLock _ c | FLock _ c => c < length (clients g)
  | CWalk _ _ cur | WWalk _ _ cur | FWalk _ _ _ cur => cur < length (hooks g)
  | InCall h _ | CallFin h _ | WaitDone h => h < length (hooks g)
  | FMark p _ _ => p < length (hooks g)
  | Idle => True
  end%nat.

(* An earlier, weaker form (CapProofs.no_stuck_partial); the full [no_stuck_stmt] is proved in
   CapLive.v.  As [no_stuck_stmt], for
   configurations that are well-formed in the sense of [ids_ok] and in which no Fulfill is
   inside its transfer walk (the only place where a hook mutex is held across steps).
   Missing for the full statement: (1) [ids_ok] as an invariant of [reachable], (2) the
   acyclicity argument for chains of concurrent Fulfill walks waiting for each other
   (needs the model to flag resolution cycles longer than one as misuse). *)
Definition no_stuck_partial_stmt : Prop :=
  forall progs g, reachable true (init progs) g -> misuse g = false -> ids_ok g ->
  (forall t p n c cur, ~ pc_of g t (FWalk p n c cur)) ->
  (exists th, In th (threads g) /\ unfinished th = true) ->
  exists t g', step true g t = Some g'.
