(* CapTerm.v — termination: no contract-respecting execution of the model is infinite.
   Measure (lexicographic): (A) operations not yet started, (B) promises not yet resolved,
   (C) sum over the threads of stage * D + rank of the hook a walking thread is about to lock,
   where rank is a ranking of the acyclic resolution graph and D exceeds every rank. *)
From Coq Require Import ZArith List Bool Arith Lia Wf_nat.
From CV Require Import Cap.Cap Cap.CapInv Cap.CapLemmas Cap.CapStep Cap.CapWf Cap.CapLinks Cap.CapProofs Cap.CapLive.
Import ListNotations.
Open Scope nat_scope.

Fixpoint sumn {A} (f : A -> nat) (l : list A) : nat :=
  match l with [] => 0 | x :: r => f x + sumn f r end.

Lemma sumn_upd : forall A (f : A -> nat) (l : list A) n k x,
  nth_error l n = Some x -> sumn f (upd n k l) + f x = sumn f l + f (k x).
Proof.
  induction l as [|a l IH]; intros [|n] k x H; simpl in *; try discriminate.
  - inversion H; subst. lia.
  - pose proof (IH _ k _ H). lia.
Qed.

Definition stage (p : pc) : nat :=
  match p with
  | Idle => 0
  | WaitDone _ => 1
  | CallFin _ _ => 2
  | InCall _ _ => 3
  | CWalk (KSame1 _) _ _ => 6
  | CWalk _ _ _ => 4
  | CLock (KSame1 _) _ => 7
  | CLock _ _ => 5
  | WWalk _ _ _ => 4
  | FLock _ _ => 7
  | FMark _ _ _ => 6
  | FWalk _ _ _ _ => 4
  end.

Definition wcur (p : pc) : option nat :=
  match p with
  | CWalk _ _ cur | WWalk _ _ cur | FWalk _ _ _ cur => Some cur
  | _ => None
  end.

(* ---------------------------------------------------------------- shape of steps *)
Ltac own_tac :=
  eexists; split; [reflexivity|]; split; [reflexivity|];
  split; [rewrite ?length_upd, ?map_length; reflexivity|];
  cbn [t_pc stage wcur];
  first [ left; split; [cbn [stage]; lia | olt_tac]
        | right; split; [reflexivity|]; do 2 eexists; split; [reflexivity|]; split; [reflexivity|];
          eexists; split; [eassumption|]; split; assumption ].

(* a step that neither starts an operation nor marks an unresolved promise: the thread moves to
   a lower stage, or hops one edge down the resolution graph within the same stage *)
Lemma step_own_decr : forall fixed g t g' th,
  WF g -> step fixed g t = Some g' -> nth_error (threads g) t = Some th -> t_pc th <> Idle ->
  (forall p rh c hk, t_pc th = FMark p rh c -> get_hook g p = Some hk -> h_resolved hk = true) ->
  exists F, threads g' = upd t F (threads g) /\ t_prog (F th) = t_prog th /\
    length (hooks g') = length (hooks g) /\
    ((stage (t_pc (F th)) < stage (t_pc th) /\ olt (wcur (t_pc (F th))) (length (hooks g))) \/
     (stage (t_pc (F th)) = stage (t_pc th) /\
      exists x y, wcur (t_pc th) = Some x /\ wcur (t_pc (F th)) = Some y /\ fwd g x y)).
Proof.
  intros fixed g t g' th W Hs Hth Hni Hnf. unfold step in Hs. rewrite Hth in Hs.
  leaves_core Hs.
  all: try congruence.
  all: try solve [exfalso;
    match goal with
    | Hg : get_hook _ ?p = Some ?hk, Hr : h_resolved ?hk = false |- _ =>
        rewrite (Hnf _ _ _ hk eq_refl Hg) in Hr; discriminate
    end].
  all: saturate W.
  all: solve [own_tac].
Qed.

(* starting an operation consumes it from the thread's program *)
Lemma step_idle_shape : forall fixed g t g' th,
  step fixed g t = Some g' -> nth_error (threads g) t = Some th -> t_pc th = Idle ->
  exists F o, threads g' = upd t F (threads g) /\ t_prog th = o :: t_prog (F th).
Proof.
  intros fixed g t g' th Hs Hth Hpc. unfold step in Hs. rewrite Hth, Hpc in Hs.
  destruct (t_prog th) as [|o rest] eqn:Hprog; [discriminate|]. inversion Hs; subst g'; clear Hs.
  unfold begin_op, same_second. destr_goal; norm_cfg; rewrite upd_upd; do 2 eexists; split; reflexivity.
Qed.

(* marking an unresolved promise: the thread keeps its program *)
Lemma step_fmark_shape : forall fixed g t g' th p rh c hk,
  step fixed g t = Some g' -> nth_error (threads g) t = Some th -> t_pc th = FMark p rh c ->
  get_hook g p = Some hk -> h_resolved hk = false ->
  exists F, threads g' = upd t F (threads g) /\ t_prog (F th) = t_prog th.
Proof.
  intros fixed g t g' th p rh c hk Hs Hth Hpc Hp Hr. unfold step in Hs.
  rewrite Hth, Hpc, Hp in Hs. destruct (h_mu hk); [discriminate|]. rewrite Hr in Hs.
  inversion Hs; subst g'; clear Hs.
  unfold fmark_body, close_done. destr_goal; norm_cfg; eexists; split; reflexivity.
Qed.

(* ---------------------------------------------------------------- the measure *)
Definition mA (g : config) : nat := sumn (fun th => length (t_prog th)) (threads g).
Definition mB (g : config) : nat := sumn (fun hk => if h_resolved hk then 0 else 1) (hooks g).
Definition term (D : nat) (rank : nat -> nat) (p : pc) : nat :=
  stage p * D + match wcur p with Some x => rank x | None => 0 end.
Definition mC (D : nat) (rank : nat -> nat) (g : config) : nat :=
  sumn (fun th => term D rank (t_pc th)) (threads g).

Fixpoint maxrank (rank : nat -> nat) (n : nat) : nat :=
  match n with O => 0 | S m => Nat.max (rank m) (maxrank rank m) end.

Lemma maxrank_bound : forall rank n x, x < n -> rank x <= maxrank rank n.
Proof.
  induction n; intros x H. lia. simpl. destruct (Nat.eq_dec x n) as [->|]. lia.
  assert (x < n) by lia. specialize (IHn x H0). lia.
Qed.

Lemma nth_error_ext : forall A (l l' : list A), (forall n, nth_error l n = nth_error l' n) -> l = l'.
Proof.
  induction l as [|a l IH]; intros [|b l'] H; auto.
  - specialize (H 0). discriminate.
  - specialize (H 0). discriminate.
  - pose proof (H 0) as H0. simpl in H0. inversion H0; subst. f_equal. apply IH. intros n. apply (H (S n)).
Qed.

Lemma mB_plain : forall g g', links_same g g' -> length (hooks g') = length (hooks g) -> mB g' = mB g.
Proof.
  intros g g' L Hl. unfold mB.
  assert (E : map link (hooks g') = map link (hooks g)).
  { apply nth_error_ext. intros n. rewrite !nth_error_map. destruct (L n) as [E|(N & hk' & A & _)]; auto.
    unfold get_hook in *. apply nth_error_some_lt in A. apply nth_error_None in N. lia. }
  assert (G : forall hs, sumn (fun hk => if h_resolved hk then 0 else 1) hs =
                         sumn (fun l : bool * option nat => if fst l then 0 else 1) (map link hs)).
  { induction hs; simpl; auto. }
  rewrite !G, E. reflexivity.
Qed.

Lemma mB_fmark : forall g g' p hk hk',
  (forall a, a <> p -> get_hook g' a = get_hook g a) -> get_hook g p = Some hk -> h_resolved hk = false ->
  get_hook g' p = Some hk' -> h_resolved hk' = true -> length (hooks g') = length (hooks g) ->
  mB g' < mB g.
Proof.
  intros g g' p hk hk' Hoth Hp Hr Hp' Hr' Hl.
  assert (E : hooks g' = upd p (fun _ => hk') (hooks g)).
  { apply nth_error_ext. intros n. rewrite nth_error_upd. destruct (Nat.eqb p n) eqn:En.
    - apply Nat.eqb_eq in En; subst n. unfold get_hook in *. rewrite Hp', Hp. reflexivity.
    - apply Nat.eqb_neq in En. apply (Hoth n). auto. }
  unfold mB. rewrite E.
  pose proof (sumn_upd _ (fun hk => if h_resolved hk then 0 else 1) (hooks g) p (fun _ => hk') hk Hp) as S.
  cbv beta in S. rewrite Hr, Hr' in S. lia.
Qed.

(* ---------------------------------------------------------------- well-foundedness *)
Definition Rstep (g' g : config) : Prop := exists t, step true g t = Some g' /\ misuse g' = false.

Lemma term_bound : forall D rank p n, 0 < D -> (forall x, x < n -> rank x < D) -> olt (wcur p) n ->
  term D rank p < (stage p + 1) * D.
Proof.
  intros D rank p n H0 HD Ho. unfold term. destruct (wcur p) as [x|]; simpl in Ho.
  - specialize (HD x Ho). lia.
  - lia.
Qed.

Lemma pc_eq_idle_dec : forall p : pc, {p = Idle} + {p <> Idle}.
Proof. destruct p; try (right; discriminate). left; reflexivity. Qed.

Lemma mA_upd : forall g g' t F th, threads g' = upd t F (threads g) -> nth_error (threads g) t = Some th ->
  mA g' + length (t_prog th) = mA g + length (t_prog (F th)).
Proof. intros. unfold mA. rewrite H. apply (sumn_upd _ (fun th => length (t_prog th)) _ _ F th H0). Qed.

Lemma mC_upd : forall D rank g g' t F th, threads g' = upd t F (threads g) -> nth_error (threads g) t = Some th ->
  mC D rank g' + term D rank (t_pc th) = mC D rank g + term D rank (t_pc (F th)).
Proof. intros. unfold mC. rewrite H. apply (sumn_upd _ (fun th => term D rank (t_pc th)) _ _ F th H0). Qed.

Lemma step_measure : forall g t g' rank D,
  WF g -> ranked g rank -> 0 < D -> (forall x, x < length (hooks g) -> rank x < D) ->
  step true g t = Some g' -> misuse g' = false ->
  mA g' < mA g \/
  (mA g' = mA g /\ mB g' < mB g) \/
  (mA g' = mA g /\ mB g' = mB g /\ ranked g' rank /\ length (hooks g') = length (hooks g) /\
   mC D rank g' < mC D rank g).
Proof.
  intros g t g' rank D W R HD0 HD Hs Hm.
  destruct (nth_error (threads g) t) as [th|] eqn:Hth; [|unfold step in Hs; rewrite Hth in Hs; discriminate].
  destruct (pc_eq_idle_dec (t_pc th)) as [Hi|Hni].
  - left. destruct (step_idle_shape true g t g' th Hs Hth Hi) as (F & o & Ht & Hp).
    pose proof (mA_upd g g' t F th Ht Hth). rewrite Hp in H. simpl in H. lia.
  - assert (Plain : (forall p rh c hk, t_pc th = FMark p rh c -> get_hook g p = Some hk -> h_resolved hk = true) ->
             mA g' = mA g /\ mB g' = mB g /\ ranked g' rank /\ length (hooks g') = length (hooks g) /\
             mC D rank g' < mC D rank g).
    { intros Hnf. destruct (step_own_decr true g t g' th W Hs Hth Hni Hnf) as (F & Ht & Hp & Hl & Hdec).
      pose proof (step_links_plain true g t g' th Hs Hth Hnf) as L.
      split. { pose proof (mA_upd g g' t F th Ht Hth). rewrite Hp in H. lia. }
      split. { apply mB_plain; auto. }
      split. { intros a b Fw. apply R. apply (links_same_fwd g g' a b L). auto. }
      split; auto.
      pose proof (mC_upd D rank g g' t F th Ht Hth) as E.
      assert (term D rank (t_pc (F th)) < term D rank (t_pc th)); [|lia].
      destruct Hdec as [(Hst & Ho)|(Hst & x & y & Hx & Hy & Fw)].
      - pose proof (term_bound D rank (t_pc (F th)) (length (hooks g)) HD0 HD Ho) as B.
        assert ((stage (t_pc (F th)) + 1) * D <= stage (t_pc th) * D) by (apply Nat.mul_le_mono_r; lia).
        unfold term at 2. lia.
      - unfold term. rewrite Hst, Hx, Hy. pose proof (R _ _ Fw). lia. }
    destruct (t_pc th) eqn:Hpc; try (right; right; apply Plain; intros; discriminate).
    destruct (get_hook g p) as [hk|] eqn:Hp.
    2: { right; right. apply Plain. intros p0 rh0 c0 hk0 E A. inversion E; subst. congruence. }
    destruct (h_resolved hk) eqn:Hr.
    { right; right. apply Plain. intros p0 rh0 c0 hk0 E A. inversion E; subst. congruence. }
    right; left.
    destruct (step_fmark_shape true g t g' th p rh c hk Hs Hth Hpc Hp Hr) as (F & Ht & Hprog).
    destruct (step_links_fmark true g t g' th p rh c hk Hs Hth Hpc Hp Hr) as (Hoth & (hk' & Hp' & Hr' & _) & _ & Hl).
    split. { pose proof (mA_upd g g' t F th Ht Hth). rewrite Hprog in H. lia. }
    eapply mB_fmark; eauto.
Qed.

Lemma acc_lex : forall a b c g rank D,
  Inv g -> WF g -> ranked g rank -> 0 < D -> (forall x, x < length (hooks g) -> rank x < D) ->
  mA g = a -> mB g = b -> mC D rank g = c -> Acc Rstep g.
Proof.
  intros a. induction a as [a IHa] using lt_wf_ind.
  intros b. induction b as [b IHb] using lt_wf_ind.
  intros c. induction c as [c IHc] using lt_wf_ind.
  intros g rank D I W R HD0 HD Ea Eb Ec. constructor. intros g' (t & Hs & Hm).
  pose proof (step_preserves_inv g t g' I Hs Hm) as I'.
  pose proof (wf_step true g t g' W Hs) as W'.
  assert (Hrk : exists rank' D', ranked g' rank' /\ 0 < D' /\ (forall x, x < length (hooks g') -> rank' x < D')).
  { destruct (acyc_step g t g' (ex_intro _ rank R) Hs Hm) as (rank' & R').
    exists rank', (S (maxrank rank' (length (hooks g')))). split; auto. split. lia.
    intros x Hx. pose proof (maxrank_bound rank' _ x Hx). lia. }
  destruct (step_measure g t g' rank D W R HD0 HD Hs Hm) as [Ha|[(Ha & Hb)|(Ha & Hb & R' & Hl & Hc)]].
  - destruct Hrk as (rank' & D' & R' & HD0' & HD').
    eapply (IHa (mA g')); eauto. lia.
  - destruct Hrk as (rank' & D' & R' & HD0' & HD').
    eapply (IHb (mB g')); eauto. lia. lia.
  - eapply (IHc (mC D rank g')); eauto. lia. rewrite Hl. auto. lia. lia.
Qed.

(* terminates: from every reachable configuration of a contract-respecting execution, every
   continuation (any schedule, call-out returns included) that stays contract-respecting is
   finite: the step relation is well-founded there.  In particular every API call's own
   steps terminate: its hand-over-hand walks follow the finite, acyclic resolution graph. *)
Definition terminates_stmt : Prop :=
  forall progs g, reachable true (init progs) g -> misuse g = false -> Acc Rstep g.

Theorem terminates : terminates_stmt.
Proof.
  intros progs g R Hm.
  destruct (reachable_acyc progs g R Hm) as (rank & Rk).
  eapply (acc_lex _ _ _ g rank (S (maxrank rank (length (hooks g))))); eauto.
  - eapply reachable_inv; eauto.
  - eapply reachable_wf; eauto.
  - lia.
  - intros x Hx. pose proof (maxrank_bound rank _ x Hx). lia.
Qed.

(* the measure of one thread's own steps, stated on its own: a step of thread t that neither
   starts an operation nor marks a promise strictly decreases t's term and leaves the terms of
   all other threads, the ranking and D unchanged *)
Definition own_steps_decrease_stmt : Prop :=
  forall g t g' th rank D, WF g -> ranked g rank -> 0 < D ->
  (forall x, x < length (hooks g) -> rank x < D) ->
  step true g t = Some g' -> nth_error (threads g) t = Some th -> t_pc th <> Idle ->
  (forall p rh c hk, t_pc th = FMark p rh c -> get_hook g p = Some hk -> h_resolved hk = true) ->
  exists th', nth_error (threads g') t = Some th' /\
    term D rank (t_pc th') < term D rank (t_pc th) /\
    (forall u, u <> t -> nth_error (threads g') u = nth_error (threads g) u) /\
    ranked g' rank /\ length (hooks g') = length (hooks g).

Theorem own_steps_decrease : own_steps_decrease_stmt.
Proof.
  intros g t g' th rank D W R HD0 HD Hs Hth Hni Hnf.
  destruct (step_own_decr true g t g' th W Hs Hth Hni Hnf) as (F & Ht & Hp & Hl & Hdec).
  pose proof (step_links_plain true g t g' th Hs Hth Hnf) as L.
  exists (F th). split. { rewrite Ht, nth_error_upd_eq, Hth. reflexivity. }
  split.
  { destruct Hdec as [(Hst & Ho)|(Hst & x & y & Hx & Hy & Fw)].
    - pose proof (term_bound D rank (t_pc (F th)) (length (hooks g)) HD0 HD Ho) as B.
      assert ((stage (t_pc (F th)) + 1) * D <= stage (t_pc th) * D) by (apply Nat.mul_le_mono_r; lia).
      unfold term at 2. lia.
    - unfold term. rewrite Hst, Hx, Hy. pose proof (R _ _ Fw). lia. }
  split. { intros u Hu. rewrite Ht. apply nth_error_upd_neq. auto. }
  split; auto. intros a b Fw. apply R. apply (links_same_fwd g g' a b L). auto.
Qed.
