(* CapCases.v — preservation of the invariant, one lemma per program counter. *)
From Coq Require Import ZArith List Bool Arith Lia.
From CV Require Import Cap.Cap Cap.CapInv Cap.CapLemmas Cap.CapStep.
Import ListNotations.
Open Scope Z_scope.

Ltac thread_only I Hth Hpc Hm :=
  eapply (inv_thread_only _ _ _ _ _ I Hth);
  [ cbn; rewrite ?upd_upd; reflexivity
  | reflexivity | reflexivity | exact Hm
  | intros; unfold wclose; cbn; rewrite Hpc; reflexivity
  | intros; unfold wcall; cbn; rewrite Hpc; reflexivity
  | intros; rewrite Hpc; discriminate
  | intros; cbn; discriminate
  | intros; rewrite Hpc; discriminate
  | intros; cbn; discriminate
  | cbn; intros ? ? ? E; inversion E; subst; clear E ].

Lemma step_InCall : forall g t th h abn g',
  Inv g -> nth_error (threads g) t = Some th -> t_pc th = InCall h abn ->
  step true g t = Some g' -> misuse g' = false -> Inv g'.
Proof.
  intros g t th h abn g' I Hth Hpc Hs Hm. unfold step in Hs. rewrite Hth, Hpc in Hs.
  inversion Hs; subst g'; clear Hs.
  thread_only I Hth Hpc Hm.
Qed.

Lemma step_Idle_plain : forall g t th o rest g',
  Inv g -> nth_error (threads g) t = Some th -> t_pc th = Idle -> t_prog th = o :: rest ->
  (forall d, o <> ONew d) -> (forall d p, o <> ONewPromise d p) ->
  step true g t = Some g' -> misuse g' = false -> Inv g'.
Proof.
  intros g t th o rest g' I Hth Hpc Hprog Hn1 Hn2 Hs Hm. unfold step in Hs.
  rewrite Hth, Hpc, Hprog in Hs. inversion Hs; subst g'; clear Hs.
  destruct o; unfold begin_op, same_second in *; cbn [cslots wslots pslots weaks set_threads] in *.
  - exfalso. eapply Hn1; eauto.
  - exfalso. eapply Hn2; eauto.
  - destruct (lookup src (cslots g)); thread_only I Hth Hpc Hm.
  - destruct (lookup src (cslots g)); thread_only I Hth Hpc Hm.
  - destruct (lookup src (cslots g)); thread_only I Hth Hpc Hm.
  - destruct (lookup w (wslots g)) as [wi|]; [|thread_only I Hth Hpc Hm].
    destruct (nth_error (weaks g) wi) as [[hh|]|]; thread_only I Hth Hpc Hm.
  - destruct (lookup src (cslots g)); thread_only I Hth Hpc Hm.
  - destruct (lookup p (pslots g)); [|thread_only I Hth Hpc Hm].
    destruct (lookup src (cslots g)); thread_only I Hth Hpc Hm.
    simpl. reflexivity.
  - destruct (lookup src (cslots g)); thread_only I Hth Hpc Hm.
  - destruct (lookup a (cslots g)); [thread_only I Hth Hpc Hm|].
    destruct (lookup b (cslots g)); thread_only I Hth Hpc Hm.
  - destruct (lookup src (cslots g)); thread_only I Hth Hpc Hm.
Qed.

Lemma step_FLock : forall g t th p c g',
  Inv g -> nth_error (threads g) t = Some th -> t_pc th = FLock p c ->
  step true g t = Some g' -> misuse g' = false -> Inv g'.
Proof.
  intros g t th p c g' I Hth Hpc Hs Hm. unfold step in Hs. rewrite Hth, Hpc in Hs.
  destruct (get_client g c) as [cl|] eqn:Hc; [|discriminate].
  destruct (c_mu cl); [discriminate|].
  destruct (c_released cl) eqn:Hr; inversion Hs; subst g'; clear Hs.
  - thread_only I Hth Hpc Hm.
  - thread_only I Hth Hpc Hm.
    simpl. exists cl. repeat split; auto.
    pose proof (inv_client g (invC g I) _ _ Hc) as O. unfold client_ok in O.
    destruct (c_h cl); auto.
Qed.

Lemma step_WWalk_plain : forall g t th dst w cur hk g',
  Inv g -> nth_error (threads g) t = Some th -> t_pc th = WWalk dst w cur ->
  get_hook g cur = Some hk -> (forwarded cur hk = true \/ h_refs hk = 0) ->
  step true g t = Some g' -> misuse g' = false -> Inv g'.
Proof.
  intros g t th dst w cur hk g' I Hth Hpc Hg Hcase Hs Hm. unfold step in Hs. rewrite Hth, Hpc, Hg in Hs.
  destruct (h_mu hk); [discriminate|].
  destruct (forwarded cur hk) eqn:Hf.
  - destruct (h_rh hk); inversion Hs; subst g'; clear Hs; thread_only I Hth Hpc Hm.
  - destruct Hcase as [X|X]; [discriminate|]. cbn [hooks set_weaks] in Hs.
    rewrite X in Hs. simpl in Hs. inversion Hs; subst g'; clear Hs. thread_only I Hth Hpc Hm.
Qed.

Lemma step_FMark_resolved : forall g t th p rh c hk g',
  Inv g -> nth_error (threads g) t = Some th -> t_pc th = FMark p rh c ->
  get_hook g p = Some hk -> h_resolved hk = true ->
  step true g t = Some g' -> misuse g' = false -> Inv g'.
Proof.
  intros g t th p rh c hk g' I Hth Hpc Hg Hr Hs Hm. unfold step in Hs. rewrite Hth, Hpc, Hg in Hs.
  destruct (h_mu hk); [discriminate|]. rewrite Hr in Hs. inversion Hs; subst g'; clear Hs.
  thread_only I Hth Hpc Hm.
Qed.

Ltac hsimp := cbn [h_refs h_calls h_resolved h_rh h_done h_shut h_mu hk_refs hk_calls hk_done hk_shut hk_mu
  hk_resolve t_pc t_prog t_res c_h c_released c_mu c_tgt cl_h cl_mu cl_tgt cl_released].

Ltac side := cbn in *; try (intros; discriminate); try reflexivity; try assumption; try lia; auto.

Lemma cwalk_client : forall g t th k c cur, Inv g -> nth_error (threads g) t = Some th ->
  t_pc th = CWalk k c cur ->
  exists cl, get_client g c = Some cl /\ c_h cl = Some cur /\ c_mu cl = Some t /\
             (k = KRelease -> c_released cl = true).
Proof. intros. apply (inv_cwalk g (invC g H)). exists th. auto. Qed.

Lemma walker_not_released : forall g t th k c cur cl, Inv g -> nth_error (threads g) t = Some th ->
  t_pc th = CWalk k c cur -> get_client g c = Some cl -> k <> KRelease -> c_released cl = false.
Proof. intros. eapply (inv_nrel g (invC g H) t k c cur cl); eauto. exists th; auto. Qed.

Lemma free_hooked_not_released : forall g c cl h, Inv g -> get_client g c = Some cl -> c_mu cl = None ->
  c_h cl = Some h -> c_released cl = false.
Proof.
  intros g c cl h I Hc Hm Hh. destruct (c_released cl) eqn:E; auto.
  rewrite (inv_rel g (invC g I) c cl Hc E Hm) in Hh. discriminate.
Qed.

Lemma step_CWalk_hop : forall g t th k c cur hk r g',
  Inv g -> nth_error (threads g) t = Some th -> t_pc th = CWalk k c cur ->
  get_hook g cur = Some hk -> forwarded cur hk = true -> h_rh hk = Some r ->
  step true g t = Some g' -> misuse g' = false -> Inv g'.
Proof.
  intros g t th k c cur hk r g' I Hth Hpc Hx Hf Hr Hs Hm. unfold step in Hs. rewrite Hth, Hpc, Hx in Hs.
  destruct (h_mu hk) eqn:Hmu; [discriminate|]. rewrite Hf, Hr in Hs. inversion Hs; subst g'; clear Hs.
  destruct (cwalk_client g t th k c cur I Hth Hpc) as (cl & Hc & Hch & Hcm & Hrel).
  eapply (G1 g _ t th _ cur hk hk c cl (cl_h (Some r) cl) I Hth); try solve [side | intros; rewrite Hpc; discriminate].
  - cbn. symmetry. apply upd_id. exact Hx.
  - cbn. apply upd_const. exact Hc.
  - (* client_ok *)
    unfold client_ok. cbn. pose proof (inv_client g (invC g I) _ _ Hc) as O. unfold client_ok in O.
    rewrite Hch in O.
    assert (Hfw : fwd g cur r) by (exists hk; auto).
    destruct (c_tgt cl) as [T|] eqn:ET; simpl in *.
    + eapply reach_step_inv; eauto. intros ->. eapply (tgt_at_forwarded g c cl T hk I); eauto.
    + eapply to_nil_step; eauto.
  - intros k0 c0 cur0 E. rewrite Hpc in E. inversion E; auto.
  - cbn. intros k0 c0 cur0 E. inversion E; subst. auto.
  - cbn. intros t' E. rewrite Hcm in E. inversion E; subst. eauto.
  - cbn. intros _ E. rewrite Hcm in E. discriminate.
  - cbn. intros k0 c0 cur0 E Hk. injection E as <- <- <-. eapply (walker_not_released g t th k c cur cl); eauto.
  - intros h Hne. unfold wclose, wcall. cbn. rewrite Hpc. auto.
  - unfold wtok. cbn. lia.
  - unfold wcall. cbn. rewrite Hpc. lia.
  - destruct (inv_hook g (invH g I) cur hk Hx). auto.
  - unfold wclose. cbn. rewrite Hpc. lia.
Qed.

Lemma eqb_neq_false : forall x h : nat, h <> x -> Nat.eqb x h = false.
Proof. intros. apply Nat.eqb_neq. auto. Qed.

Ltac g1_side Hpc Hx Hc :=
  try solve [side | intros; rewrite Hpc; discriminate];
  try solve [cbn; intros; congruence];
  try match goal with
  | |- hooks _ = upd _ _ _ => cbn; first [ symmetry; apply upd_id; exact Hx | rewrite (upd_const _ _ _ _ _ Hx); reflexivity ]
  | |- clients _ = upd _ _ _ => cbn; rewrite ?upd_upd; rewrite (upd_const _ _ _ _ _ Hc); reflexivity
  | |- forall k0 c0 cur0, t_pc _ = CWalk k0 c0 cur0 -> c0 = _ =>
      let E := fresh "E" in intros ? ? ? E; rewrite Hpc in E; inversion E; auto
  | |- forall h, h <> _ -> wclose h _ = wclose h _ /\ wcall h _ = wcall h _ =>
      let Hne := fresh "Hne" in intros ? Hne; unfold wclose, wcall; cbn; rewrite ?Hpc;
      rewrite ?(eqb_neq_false _ _ Hne); auto
  end.

Lemma step_CWalk_nil : forall g t th k c cur hk g',
  Inv g -> nth_error (threads g) t = Some th -> t_pc th = CWalk k c cur ->
  get_hook g cur = Some hk -> forwarded cur hk = true -> h_rh hk = None ->
  step true g t = Some g' -> misuse g' = false -> Inv g'.
Proof.
  intros g t th k c cur hk g' I Hth Hpc Hx Hf Hr Hs Hm. unfold step in Hs. rewrite Hth, Hpc, Hx in Hs.
  destruct (h_mu hk) eqn:Hmu; [discriminate|]. rewrite Hf, Hr in Hs. inversion Hs; subst g'; clear Hs.
  destruct (cwalk_client g t th k c cur I Hth Hpc) as (cl & Hc & Hch & Hcm & Hrel).
  assert (Htg : c_tgt cl = None).
  { pose proof (inv_client g (invC g I) _ _ Hc) as O. unfold client_ok in O. rewrite Hch in O.
    destruct (c_tgt cl) as [T|] eqn:ET; auto. simpl in O. exfalso.
    assert (T = cur). { eapply reach_noout; eauto. intros b. eapply no_fwd_of_hook; eauto. }
    subst T. eapply (tgt_at_forwarded g c cl cur hk I); eauto. }
  assert (Hdone : h_done hk = (h_refs hk =? 0) && (h_calls hk =? 0))
    by (destruct (inv_hook g (invH g I) cur hk Hx); auto).
  unfold cwalk_nil in Hm |- *.
  destruct k as [dst| |recv abn| |wdst|c2|h1|]; unfold same_second in Hm |- *; try destruct c2 as [c2|];
  eapply (G1 g _ t th _ cur hk hk c cl (cl_mu None (cl_h None cl)) I Hth); g1_side Hpc Hx Hc;
  try (unfold client_ok; cbn; exact Htg);
  try (unfold wtok; cbn; lia);
  try (unfold wcall; cbn; rewrite Hpc; lia);
  try (unfold wclose; cbn; rewrite Hpc; lia).
Qed.

(* facts at the end of a Client method's walk: the hook is alive *)
Lemma cwalk_end_facts : forall g t th k c cur hk, Inv g -> nth_error (threads g) t = Some th ->
  t_pc th = CWalk k c cur -> get_hook g cur = Some hk -> h_mu hk = None -> forwarded cur hk = false ->
  exists cl, get_client g c = Some cl /\ c_h cl = Some cur /\ c_mu cl = Some t /\
             (k = KRelease -> c_released cl = true) /\ c_tgt cl = Some cur /\ 1 <= h_refs hk /\
             h_done hk = false /\ h_refs hk = tokens g cur /\ h_calls hk = callers g cur /\
             closers g cur + h_shut hk = 0 /\ 0 <= h_shut hk /\ 0 <= h_calls hk.
Proof.
  intros g t th k c cur hk I Hth Hpc Hx Hmu Hf.
  destruct (cwalk_client g t th k c cur I Hth Hpc) as (cl & Hc & Hch & Hcm & Hrel).
  pose proof (tgt_at_terminal g c cl cur hk (invC g I) Hc Hch Hx Hf) as Ht.
  destruct (inv_hook g (invH g I) cur hk Hx) as [O1 O2 O3 O4 O5 O6 O7].
  pose proof (tokens_ge_1 g cur c cl Hc Ht) as T1. pose proof (O1 Hmu) as R.
  assert (0 <= callers g cur) by (apply sumf_nonneg; apply wcall_nonneg).
  exists cl. repeat split; auto; try lia.
  - rewrite O4. destruct (h_refs hk =? 0) eqn:E; auto. lia.
  - destruct (h_refs hk =? 0) eqn:E; lia.
Qed.

Lemma step_CWalk_end_simple : forall g t th k c cur hk g',
  Inv g -> nth_error (threads g) t = Some th -> t_pc th = CWalk k c cur ->
  get_hook g cur = Some hk -> forwarded cur hk = false ->
  (k = KValid \/ (exists d, k = KWeakRef d) \/ (exists c2, k = KSame1 c2) \/ (exists h1, k = KSame2 h1)) ->
  step true g t = Some g' -> misuse g' = false -> Inv g'.
Proof.
  intros g t th k c cur hk g' I Hth Hpc Hx Hf Hk Hs Hm. unfold step in Hs. rewrite Hth, Hpc, Hx in Hs.
  destruct (h_mu hk) eqn:Hmu; [discriminate|]. rewrite Hf in Hs. inversion Hs; subst g'; clear Hs.
  destruct (cwalk_end_facts g t th k c cur hk I Hth Hpc Hx Hmu Hf)
    as (cl & Hc & Hch & Hcm & Hrel & Htg & R1 & Hd & Racc & Rcal & Rclo & Rs & Rc0).
  assert (Hok : client_ok g (cl_mu None cl)) by (apply (inv_client g (invC g I) _ _ Hc)).
  assert (Hnr : c_released cl = false).
  { eapply (walker_not_released g t th k c cur cl I Hth Hpc Hc).
    destruct Hk as [->|[(d & ->)|[(c2 & ->)|(h1 & ->)]]]; discriminate. }
  assert (Hdone : h_done hk = (h_refs hk =? 0) && (h_calls hk =? 0))
    by (destruct (inv_hook g (invH g I) cur hk Hx); auto).
  unfold cwalk_end in Hm |- *.
  destruct Hk as [->|[(d & ->)|[(c2 & ->)|(h1 & ->)]]]; unfold same_second in Hm |- *; try destruct c2 as [c2|];
  eapply (G1 g _ t th _ cur hk hk c cl (cl_mu None cl) I Hth); g1_side Hpc Hx Hc;
  try (unfold wtok; cbn; lia);
  try (unfold wcall; cbn; rewrite Hpc; lia);
  try (unfold wclose; cbn; rewrite Hpc; lia).
Qed.

Lemma step_CWalk_end_call : forall g t th recv abn c cur hk g',
  Inv g -> nth_error (threads g) t = Some th -> t_pc th = CWalk (KCall recv abn) c cur ->
  get_hook g cur = Some hk -> forwarded cur hk = false ->
  step true g t = Some g' -> misuse g' = false -> Inv g'.
Proof.
  intros g t th recv abn c cur hk g' I Hth Hpc Hx Hf Hs Hm. unfold step in Hs. rewrite Hth, Hpc, Hx in Hs.
  destruct (h_mu hk) eqn:Hmu; [discriminate|]. rewrite Hf in Hs. inversion Hs; subst g'; clear Hs.
  destruct (cwalk_end_facts g t th _ c cur hk I Hth Hpc Hx Hmu Hf)
    as (cl & Hc & Hch & Hcm & Hrel & Htg & R1 & Hd & Racc & Rcal & Rclo & Rs & Rc0).
  assert (Hok : client_ok g (cl_mu None cl)) by (apply (inv_client g (invC g I) _ _ Hc)).
  assert (Hnr : c_released cl = false) by (eapply (walker_not_released g t th _ c cur cl I Hth Hpc Hc); discriminate).
  unfold cwalk_end in Hm |- *.
  eapply (G1 g _ t th _ cur hk (hk_calls (h_calls hk + 1) hk) c cl (cl_mu None cl) I Hth); g1_side Hpc Hx Hc.
  - unfold wtok; cbn; lia.
  - unfold wcall; cbn; rewrite Hpc, Nat.eqb_refl. lia.
  - cbn. rewrite Hd. destruct (h_refs hk =? 0) eqn:E; auto. lia.
  - unfold wclose; cbn; rewrite Hpc. lia.
Qed.

Lemma step_CWalk_end_release : forall g t th c cur hk g',
  Inv g -> nth_error (threads g) t = Some th -> t_pc th = CWalk KRelease c cur ->
  get_hook g cur = Some hk -> forwarded cur hk = false ->
  step true g t = Some g' -> misuse g' = false -> Inv g'.
Proof.
  intros g t th c cur hk g' I Hth Hpc Hx Hf Hs Hm. unfold step in Hs. rewrite Hth, Hpc, Hx in Hs.
  destruct (h_mu hk) eqn:Hmu; [discriminate|]. rewrite Hf in Hs. inversion Hs; subst g'; clear Hs.
  destruct (cwalk_end_facts g t th _ c cur hk I Hth Hpc Hx Hmu Hf)
    as (cl & Hc & Hch & Hcm & Hrel & Htg & R1 & Hd & Racc & Rcal & Rclo & Rs & Rc0).
  specialize (Hrel eq_refl).
  set (cl' := cl_mu None (cl_tgt None (cl_h None cl))).
  assert (Hok : client_ok g cl') by (unfold client_ok; reflexivity).
  assert (Hw0 : wtok cur cl' - wtok cur cl = -1).
  { unfold wtok, cl'. cbn. rewrite Htg, oeqb_refl. lia. }
  unfold cwalk_end in Hm |- *.
  destruct (0 <? h_refs hk - 1) eqn:E1.
  - apply Z.ltb_lt in E1.
    eapply (G1 g _ t th _ cur hk (hk_refs (h_refs hk - 1) hk) c cl cl' I Hth); g1_side Hpc Hx Hc; try solve [right; auto]; try solve [cbn; lia].
    all: try solve [unfold wcall; cbn; rewrite Hpc; lia].
    all: try solve [cbn; rewrite Hd; destruct (h_refs hk - 1 =? 0) eqn:E; auto; lia].
    all: try solve [unfold wclose; cbn; rewrite Hpc; cbn;
      destruct (h_refs hk - 1 =? 0) eqn:E; destruct (h_refs hk =? 0) eqn:E'; lia].
  - apply Z.ltb_ge in E1. assert (Er : h_refs hk = 1) by lia.
    destruct (h_calls hk =? 0) eqn:E2.
    + unfold close_done in Hm |- *. cbn [h_done hk_refs] in Hm |- *. rewrite Hd in Hm |- *.
      eapply (G1 g _ t th _ cur hk (hk_done true (hk_refs (h_refs hk - 1) hk)) c cl cl' I Hth); g1_side Hpc Hx Hc; try solve [right; auto]; try solve [cbn; lia].
      all: try solve [unfold wcall; cbn; rewrite Hpc; lia].
      all: try solve [cbn; rewrite Er, E2; reflexivity].
      all: try solve [unfold wclose; hsimp; rewrite Hpc, Nat.eqb_refl; hsimp; rewrite Er; change (1 - 1 =? 0) with true; change (1 =? 0) with false; hsimp; lia].
    + eapply (G1 g _ t th _ cur hk (hk_refs (h_refs hk - 1) hk) c cl cl' I Hth); g1_side Hpc Hx Hc; try solve [right; auto]; try solve [cbn; lia].
      all: try solve [unfold wcall; cbn; rewrite Hpc; lia].
      all: try solve [cbn; rewrite Hd, Er, E2; reflexivity].
      all: try solve [unfold wclose; hsimp; rewrite Hpc, Nat.eqb_refl; hsimp; rewrite Er; change (1 - 1 =? 0) with true; change (1 =? 0) with false; hsimp; lia].
Qed.

Ltac g1h_side Hpc Hx :=
  try solve [side | intros; rewrite Hpc; discriminate];
  try match goal with
  | |- hooks _ = upd _ _ _ => cbn; first [ reflexivity | symmetry; apply upd_id; exact Hx | rewrite (upd_const _ _ _ _ _ Hx); reflexivity ]
  | |- forall h, h <> _ -> wclose h _ = wclose h _ /\ wcall h _ = wcall h _ =>
      let Hne := fresh "Hne" in intros ? Hne; unfold wclose, wcall; cbn [t_pc]; rewrite ?Hpc;
      rewrite ?(eqb_neq_false _ _ Hne); auto
  end.

Lemma step_CallFin : forall g t th h rr g',
  Inv g -> nth_error (threads g) t = Some th -> t_pc th = CallFin h rr ->
  step true g t = Some g' -> misuse g' = false -> Inv g'.
Proof.
  intros g t th h rr g' I Hth Hpc Hs Hm. unfold step in Hs. rewrite Hth, Hpc in Hs.
  destruct (get_hook g h) as [hk|] eqn:Hx; [|discriminate].
  destruct (h_mu hk) eqn:Hmu; [discriminate|].
  destruct (inv_hook g (invH g I) h hk Hx) as [O1 O2 O3 O4 O5 O6 O7].
  assert (C1 : 1 <= h_calls hk).
  { rewrite O3. unfold callers. pose proof (sumf_one _ (wcall h) (threads g) t th (wcall_nonneg h) Hth) as S.
    unfold wcall in S at 1. rewrite Hpc, Nat.eqb_refl in S. lia. }
  assert (Hd : h_done hk = false).
  { rewrite O4. destruct (h_calls hk =? 0) eqn:E. lia. apply andb_false_r. }
  cbn [h_refs h_calls hk_calls] in Hs.
  destruct ((h_refs hk =? 0) && (h_calls hk - 1 =? 0)) eqn:E.
  - unfold close_done in Hs. cbn [h_done hk_calls] in Hs. rewrite Hd in Hs.
    inversion Hs; subst g'; clear Hs.
    eapply (G1h g _ t th _ h hk (hk_done true (hk_calls (h_calls hk - 1) hk)) I Hth); g1h_side Hpc Hx.
    all: try solve [unfold wcall; hsimp; rewrite Hpc, Nat.eqb_refl; lia].
    all: try solve [hsimp; rewrite E; reflexivity].
    all: try solve [unfold wclose; hsimp; rewrite Hpc; lia].
  - inversion Hs; subst g'; clear Hs.
    eapply (G1h g _ t th _ h hk (hk_calls (h_calls hk - 1) hk) I Hth); g1h_side Hpc Hx.
    all: try solve [unfold wcall; hsimp; rewrite Hpc, Nat.eqb_refl; lia].
    all: try solve [hsimp; rewrite E, Hd; reflexivity].
    all: try solve [unfold wclose; hsimp; rewrite Hpc; lia].
Qed.

Lemma step_WaitDone : forall g t th h g',
  Inv g -> nth_error (threads g) t = Some th -> t_pc th = WaitDone h ->
  step true g t = Some g' -> misuse g' = false -> Inv g'.
Proof.
  intros g t th h g' I Hth Hpc Hs Hm. unfold step in Hs. rewrite Hth, Hpc in Hs.
  destruct (get_hook g h) as [hk|] eqn:Hx; [|discriminate].
  destruct (h_done hk) eqn:Hd; [|discriminate]. inversion Hs; subst g'; clear Hs.
  assert (Hmu : h_mu hk = None) by (eapply (waitdone_free g t h hk I); eauto; exists th; auto).
  destruct (inv_hook g (invH g I) h hk Hx) as [O1 O2 O3 O4 O5 O6 O7].
  eapply (G1h g _ t th _ h hk (hk_shut (h_shut hk + 1) hk) I Hth); g1h_side Hpc Hx.
  all: try solve [unfold wcall; hsimp; rewrite Hpc; lia].
  all: try solve [unfold wclose; hsimp; rewrite Hpc, Nat.eqb_refl; lia].
Qed.

Ltac g0_walk I Hth Hpc Hc cl' :=
  eapply (G0 _ _ _ _ _ _ _ cl' I Hth);
  [ reflexivity | reflexivity | exact Hc
  | cbn; rewrite (upd_const _ _ _ _ _ Hc); reflexivity
  | side | side | side | side | side
  | intros; rewrite Hpc; discriminate
  | intros; rewrite Hpc; discriminate
  | intros; cbn; discriminate
  | intros; cbn; discriminate
  | cbn; intros ? ? ? E; inversion E; subst; clear E; repeat split; auto; try discriminate
  | cbn; intros ? E; inversion E; subst; clear E; split; eauto
  | cbn; intros ? E; discriminate E
  | cbn; intros ? ? ? E Hk; inversion E; subst;
    first [ congruence | assumption | eapply (free_hooked_not_released _ _ _ _ I Hc); eauto ]
  | intros; unfold wclose, wcall; cbn [t_pc]; rewrite Hpc; auto ].

Lemma step_CLock : forall g t th k c g',
  Inv g -> nth_error (threads g) t = Some th -> t_pc th = CLock k c ->
  step true g t = Some g' -> misuse g' = false -> Inv g'.
Proof.
  intros g t th k c g' I Hth Hpc Hs Hm. unfold step in Hs. rewrite Hth, Hpc in Hs.
  destruct (get_client g c) as [cl|] eqn:Hc; [|discriminate].
  destruct (c_mu cl) eqn:Hcmu; [discriminate|]. inversion Hs; subst g'; clear Hs.
  unfold clock_step in Hm |- *.
  destruct k as [dst| |recv abn| |wdst|c2|h1|].
  8: { destruct (c_h cl) as [h|] eqn:Hh; [|thread_only I Hth Hpc Hm].
       g0_walk I Hth Hpc Hc (cl_mu (Some t) cl). }
  - destruct (c_released cl) eqn:Hr; [thread_only I Hth Hpc Hm|].
    destruct (c_h cl) as [h|] eqn:Hh; [|thread_only I Hth Hpc Hm].
    g0_walk I Hth Hpc Hc (cl_mu (Some t) cl).
  - destruct (c_released cl) eqn:Hr; [thread_only I Hth Hpc Hm|].
    destruct (c_h cl) as [h|] eqn:Hh; [|thread_only I Hth Hpc Hm].
    destruct (borrowed g c) eqn:Hb; [cbn in Hm; discriminate|].
    g0_walk I Hth Hpc Hc (cl_released true (cl_mu (Some t) cl)).
  - destruct (c_h cl) as [h|] eqn:Hh; [|thread_only I Hth Hpc Hm].
    g0_walk I Hth Hpc Hc (cl_mu (Some t) cl).
  - destruct (c_h cl) as [h|] eqn:Hh; [|thread_only I Hth Hpc Hm].
    g0_walk I Hth Hpc Hc (cl_mu (Some t) cl).
  - destruct (c_h cl) as [h|] eqn:Hh; [|thread_only I Hth Hpc Hm].
    g0_walk I Hth Hpc Hc (cl_mu (Some t) cl).
  - destruct (c_h cl) as [h|] eqn:Hh.
    + g0_walk I Hth Hpc Hc (cl_mu (Some t) cl).
    + destruct (c_released cl); [thread_only I Hth Hpc Hm|].
      unfold same_second in Hm |- *. destruct c2; thread_only I Hth Hpc Hm.
  - destruct (c_h cl) as [h|] eqn:Hh.
    + g0_walk I Hth Hpc Hc (cl_mu (Some t) cl).
    + destruct (c_released cl); thread_only I Hth Hpc Hm.
Qed.

Lemma step_Idle_new : forall g t th o rest g',
  Inv g -> nth_error (threads g) t = Some th -> t_pc th = Idle -> t_prog th = o :: rest ->
  ((exists d, o = ONew d) \/ (exists d p, o = ONewPromise d p)) ->
  step true g t = Some g' -> misuse g' = false -> Inv g'.
Proof.
  intros g t th o rest g' I Hth Hpc Hprog Ho Hs Hm. unfold step in Hs.
  rewrite Hth, Hpc, Hprog in Hs. inversion Hs; subst g'; clear Hs.
  destruct Ho as [(d & ->)|(d & p & ->)]; unfold begin_op in *; cbn [hooks clients set_threads] in *.
  - set (gA := set_clients (clients g ++ [new_client (length (hooks g))])
                 (set_hooks (hooks g ++ [mkHook 1 0 true (Some (length (hooks g))) false 0 None]) g)).
    assert (IA : Inv gA).
    { eapply (alloc_hook g gA true (Some (length (hooks g))) I); try reflexivity. right; auto.
      cbn. apply (inv_nomis g I). }
    assert (HthA : nth_error (threads gA) t = Some th) by exact Hth.
    thread_only IA HthA Hpc Hm.
  - set (gA := set_clients (clients g ++ [new_client (length (hooks g))])
                 (set_hooks (hooks g ++ [mkHook 1 0 false None false 0 None]) g)).
    assert (IA : Inv gA).
    { eapply (alloc_hook g gA false None I); try reflexivity. left; auto.
      cbn. apply (inv_nomis g I). }
    assert (HthA : nth_error (threads gA) t = Some th) by exact Hth.
    thread_only IA HthA Hpc Hm.
Qed.

Lemma step_WWalk_ok : forall g t th dst w cur hk g',
  Inv g -> nth_error (threads g) t = Some th -> t_pc th = WWalk dst w cur ->
  get_hook g cur = Some hk -> forwarded cur hk = false -> h_refs hk <> 0 ->
  step true g t = Some g' -> misuse g' = false -> Inv g'.
Proof.
  intros g t th dst w cur hk g' I Hth Hpc Hx Hf Hr Hs Hm. unfold step in Hs. rewrite Hth, Hpc, Hx in Hs.
  destruct (h_mu hk) eqn:Hmu; [discriminate|]. rewrite Hf in Hs.
  cbn [hooks set_weaks clients] in Hs.
  destruct (h_refs hk =? 0) eqn:E; [lia|]. inversion Hs; subst g'; clear Hs.
  set (gA := set_clients (clients g ++ [new_client cur]) (uh cur (fun _ => hk_refs (h_refs hk + 1) hk) g)).
  assert (R1 : 1 <= h_refs hk).
  { destruct (inv_hook g (invH g I) cur hk Hx) as [O1 _ _ _ _ _ _]. rewrite (O1 Hmu) in *.
    assert (0 <= tokens g cur) by (apply sumf_nonneg; apply wtok_nonneg). lia. }
  assert (IA : Inv gA).
  { eapply (alloc_client g gA cur hk I Hx Hmu R1); try reflexivity. cbn. apply (inv_nomis g I). }
  assert (HthA : nth_error (threads gA) t = Some th) by exact Hth.
  eapply (inv_thread_only gA _ t th _ IA HthA).
  - cbn; rewrite ?upd_upd; reflexivity.
  - cbn. rewrite (upd_const _ _ _ _ _ Hx). reflexivity.
  - reflexivity.
  - exact Hm.
  - intros; unfold wclose; cbn; rewrite Hpc; reflexivity.
  - intros; unfold wcall; cbn; rewrite Hpc; reflexivity.
  - intros; rewrite Hpc; discriminate.
  - intros; cbn; discriminate.
  - intros; rewrite Hpc; discriminate.
  - intros; cbn; discriminate.
  - cbn; intros ? ? ? E0; inversion E0.
Qed.

Lemma step_CWalk_end_addref : forall g t th dst c cur hk g',
  Inv g -> nth_error (threads g) t = Some th -> t_pc th = CWalk (KAddRef dst) c cur ->
  get_hook g cur = Some hk -> forwarded cur hk = false ->
  step true g t = Some g' -> misuse g' = false -> Inv g'.
Proof.
  intros g t th dst c cur hk g' I Hth Hpc Hx Hf Hs Hm. unfold step in Hs. rewrite Hth, Hpc, Hx in Hs.
  destruct (h_mu hk) eqn:Hmu; [discriminate|]. rewrite Hf in Hs. inversion Hs; subst g'; clear Hs.
  destruct (cwalk_end_facts g t th _ c cur hk I Hth Hpc Hx Hmu Hf)
    as (cl & Hc & Hch & Hcm & Hrel & Htg & R1 & Hd & Racc & Rcal & Rclo & Rs & Rc0).
  set (hkA := hk_refs (h_refs hk + 1) hk).
  set (gA := set_clients (clients g ++ [new_client cur]) (uh cur (fun _ => hkA) g)).
  assert (IA : Inv gA).
  { eapply (alloc_client g gA cur hk I Hx Hmu R1); try reflexivity. cbn. apply (inv_nomis g I). }
  assert (HthA : nth_error (threads gA) t = Some th) by exact Hth.
  assert (HxA : get_hook gA cur = Some hkA).
  { unfold get_hook, gA. cbn. rewrite nth_error_upd_eq. unfold get_hook in Hx. rewrite Hx. auto. }
  assert (Hlt : (c < length (clients g))%nat) by (eapply nth_error_some_lt; eauto).
  assert (HcA : get_client gA c = Some cl).
  { unfold get_client, gA. cbn. rewrite nth_error_app1; auto. }
  assert (Hok : client_ok gA (cl_mu None cl)) by (apply (inv_client gA (invC gA IA) _ _ HcA)).
  assert (HdA : h_done hkA = (h_refs hkA =? 0) && (h_calls hkA =? 0))
    by (destruct (inv_hook gA (invH gA IA) cur hkA HxA); auto).
  assert (Hnr : c_released cl = false) by (eapply (walker_not_released g t th _ c cur cl I Hth Hpc Hc); discriminate).
  unfold cwalk_end in Hm |- *.
  eapply (G1 gA _ t th _ cur hkA hkA c cl (cl_mu None cl) IA HthA); g1_side Hpc HxA HcA.
  all: try solve [unfold wtok; cbn; lia].
  all: try solve [unfold wcall; cbn [t_pc]; rewrite Hpc; lia].
  all: try solve [unfold wclose; cbn [t_pc]; rewrite Hpc; lia].
  - cbn. rewrite upd_upd. unfold get_hook in Hx.
    rewrite (upd_const _ _ _ (hk_refs (h_refs hk + 1)) _ Hx). reflexivity.
  - cbn. rewrite (upd_app_l _ _ _ _ _ Hlt). rewrite (upd_const _ _ _ _ _ Hc). reflexivity.
Qed.

Lemma step_CWalk_end_state : forall g t th c cur hk g',
  Inv g -> nth_error (threads g) t = Some th -> t_pc th = CWalk KState c cur ->
  get_hook g cur = Some hk -> forwarded cur hk = false ->
  step true g t = Some g' -> misuse g' = false -> Inv g'.
Proof.
  intros g t th c cur hk g' I Hth Hpc Hx Hf Hs Hm. unfold step in Hs. rewrite Hth, Hpc, Hx in Hs.
  destruct (h_mu hk) eqn:Hmu; [discriminate|]. rewrite Hf in Hs. inversion Hs; subst g'; clear Hs.
  destruct (cwalk_end_facts g t th _ c cur hk I Hth Hpc Hx Hmu Hf)
    as (cl & Hc & Hch & Hcm & Hrel & Htg & R1 & Hd & Racc & Rcal & Rclo & Rs & Rc0).
  assert (Hok : client_ok g (cl_mu None cl)) by (apply (inv_client g (invC g I) _ _ Hc)).
  assert (Hnr : c_released cl = false) by (eapply (walker_not_released g t th _ c cur cl I Hth Hpc Hc); discriminate).
  unfold cwalk_end in Hm |- *.
  eapply (G1 g _ t th _ cur hk (hk_calls (h_calls hk + 1) hk) c cl (cl_mu None cl) I Hth); g1_side Hpc Hx Hc.
  - unfold wtok; cbn; lia.
  - unfold wcall; cbn; rewrite Hpc, Nat.eqb_refl. lia.
  - cbn. rewrite Hd. destruct (h_refs hk =? 0) eqn:E; auto. lia.
  - unfold wclose; cbn; rewrite Hpc. lia.
Qed.
