(* Cap.v — executable small-step model of capability.go (Client, clientHook, ClientPromise,
   WeakClient) for property C10.

   STATE.  hooks  = the clientHook objects  {refs, calls, resolved, resolvedHook, done, mu}
                    plus the number of times the wrapped ClientHook.Shutdown ran (h_shut);
           clients = the Client objects {h, released, mu};  weaks = the WeakClient objects;
           slot tables = the harness' variables holding *Client / *WeakClient / *ClientPromise;
           threads = one entry per goroutine: remaining ops, program counter, results.

   ATOMIC SECTIONS.  One [step] of a thread = one mutex acquisition (enabled only when the
   mutex is free) followed by the code up to (not including) the next acquisition or channel
   wait.  This is the usual reduction: everything in such a section after the acquisition
   touches only thread-local data and data protected by mutexes the thread holds, and Unlock
   never blocks.  [resolveHook]'s walk is NOT coarsened: it unlocks the current hook before it
   locks the next one, and each hop is its own step (pc [CWalk]/[WWalk]/[FWalk]).
   Two small coarsenings, both unobservable:
     * in Client methods the Go code assigns [c.h = resolveHook(c.h)] once, after the walk; the
       model updates c.h at every hop.  c.mu is held during the whole walk and every reader
       of c.h takes c.mu, so no other thread can see the difference;
     * [isResolved()] + the read of [resolvedHook] are one read: [resolved] is monotone and
       [resolvedHook] is written once, before [resolved] is closed, under h.mu.
   One read is placed earlier than in the code: startCall evaluates [savedHook.isResolved()]
   after [c.h.mu.Unlock()], the model reads [h_resolved] inside the locked section.  The value
   only feeds Client.State's IsPromise (the [RBool] result of [OState]); a Fulfill of that
   hook that slips between the Unlock and the read makes the code report "resolved" where the
   model says "promise".  No theorem depends on that result, no other state depends on the
   read, and the harness has no pause point there (both run in one step), so the correspondence
   is unaffected; State's IsPromise under that race is outside what is proved.
   [<-h.done; h.Shutdown()] is the pc [WaitDone]: enabled once done is closed.
   A call-out (ClientHook.Send/Recv) is the pc [InCall]: its [step] is the application
   returning from the call-out (always enabled; it is the environment's move).

   VARIANTS.  [fixed = true] is ClientPromise.Fulfill as repaired in repo commit "fix: Fulfill
   keeps the promise hook locked while it transfers its references": the promise hook's mutex
   stays locked while the walk to the target runs.  [fixed = false] is the code as found:
   [resolveHook(cp.h)] unlocks cp.h before the target is locked, so the references are "in
   flight" with no lock held (see Cap/CapRefuted.v for the double-shutdown witness).

   GHOST.  [c_tgt] (the hook whose refs currently accounts for this client) is proof-only
   state: no control decision of [step] reads it.  [h_mu]/[c_mu] store the owner thread id;
   sync.Mutex has no owner, the model only tests them for [None].
   [misuse] is set when the caller breaks the contract of the API: Release(c) while a
   Fulfill(_, c) call is still running (the argument must stay valid during the call), or a
   promise fulfilled with a client that (transitively) resolves to that promise itself. *)
From Coq Require Import ZArith List Bool Arith Lia.
Import ListNotations.
Open Scope Z_scope.

Definition oeqb (a b : option nat) : bool :=
  match a, b with
  | Some x, Some y => Nat.eqb x y
  | None, None => true
  | _, _ => false
  end.

Fixpoint upd {A} (n : nat) (f : A -> A) (l : list A) : list A :=
  match l with
  | [] => []
  | x :: r => match n with O => f x :: r | S m => x :: upd m f r end
  end.

Fixpoint lookup (k : nat) (l : list (nat * nat)) : option nat :=
  match l with
  | [] => None
  | (a, b) :: r => if Nat.eqb a k then Some b else lookup k r
  end.

(* ---------------------------------------------------------------- objects *)
Record hook := mkHook {
  h_refs : Z; h_calls : Z; h_resolved : bool; h_rh : option nat;
  h_done : bool; h_shut : Z; h_mu : option nat }.

Record client := mkClient {
  c_h : option nat; c_released : bool; c_mu : option nat; c_tgt : option nat }.

Inductive res := ROk | RNil | RDead | RErr | RPanic | RSent | RBool (b : bool).

Inductive event := EvSend (h : nat) | EvRecv (h : nat) | EvShutdown (h : nat).

(* operations; arguments are slot numbers of the harness' variable tables *)
Inductive op :=
| ONew (dst : nat)                       (* NewClient -> client slot *)
| ONewPromise (dst p : nat)              (* NewPromisedClient -> client slot, promise slot *)
| OAddRef (src dst : nat)
| ORelease (src : nat)
| OWeakRef (src wdst : nat)
| OWeakAdd (w dst : nat)
| OCall (src : nat) (recv abn : bool)    (* SendCall / RecvCall; abn: the hook's Send/Recv ends
                                            abnormally (panic / Goexit, recovered by the caller) *)
| OFulfill (p src : nat)                 (* src slot empty = Fulfill(nil) *)
| OIsValid (src : nat)
| OIsSame (a b : nat)
| OState (src : nat).                    (* Client.State *)

(* what a Client method does once it holds c.mu (and, at the end of the walk, c.h.mu) *)
Inductive kont :=
| KAddRef (dst : nat) | KRelease | KCall (recv abn : bool) | KValid | KWeakRef (wdst : nat)
| KSame1 (c2 : option nat) | KSame2 (h1 : option nat) | KState.

Inductive pc :=
| Idle
| CLock (k : kont) (c : nat)                 (* about to Lock c.mu *)
| CWalk (k : kont) (c cur : nat)             (* holds c.mu, about to Lock cur.mu *)
| WWalk (dst w cur : nat)                    (* WeakClient.AddRef, about to Lock cur.mu *)
| InCall (h : nat) (abn : bool)              (* inside ClientHook.Send/Recv; abn: it will end by panic *)
| CallFin (h : nat) (r : res)                (* finish(): about to Lock h.mu; r = the op's result *)
| WaitDone (h : nat)                         (* <-h.done; h.Shutdown() *)
| FLock (p : nat) (c : nat)                  (* Fulfill: about to Lock c.mu *)
| FMark (p : nat) (rh : option nat) (c : option nat)   (* Fulfill: about to Lock cp.h.mu *)
| FWalk (p : nat) (n : Z) (c : option nat) (cur : nat). (* Fulfill: transfer walk, about to Lock cur.mu;
                                                   holds p.mu iff the variant is [fixed] *)

Record thread := mkThread { t_prog : list op; t_pc : pc; t_res : list res }.

Record config := mkConfig {
  hooks : list hook; clients : list client; weaks : list (option nat);
  cslots : list (nat * nat); wslots : list (nat * nat); pslots : list (nat * nat);
  threads : list thread; events : list event; misuse : bool }.

(* ---------------------------------------------------------------- setters *)
Definition hk_refs v h := mkHook v (h_calls h) (h_resolved h) (h_rh h) (h_done h) (h_shut h) (h_mu h).
Definition hk_calls v h := mkHook (h_refs h) v (h_resolved h) (h_rh h) (h_done h) (h_shut h) (h_mu h).
Definition hk_resolve r h := mkHook (h_refs h) (h_calls h) true r (h_done h) (h_shut h) (h_mu h).
Definition hk_done v h := mkHook (h_refs h) (h_calls h) (h_resolved h) (h_rh h) v (h_shut h) (h_mu h).
Definition hk_shut v h := mkHook (h_refs h) (h_calls h) (h_resolved h) (h_rh h) (h_done h) v (h_mu h).
Definition hk_mu v h := mkHook (h_refs h) (h_calls h) (h_resolved h) (h_rh h) (h_done h) (h_shut h) v.

Definition cl_h v c := mkClient v (c_released c) (c_mu c) (c_tgt c).
Definition cl_released v c := mkClient (c_h c) v (c_mu c) (c_tgt c).
Definition cl_mu v c := mkClient (c_h c) (c_released c) v (c_tgt c).
Definition cl_tgt v c := mkClient (c_h c) (c_released c) (c_mu c) v.

Definition set_hooks v g := mkConfig v (clients g) (weaks g) (cslots g) (wslots g) (pslots g) (threads g) (events g) (misuse g).
Definition set_clients v g := mkConfig (hooks g) v (weaks g) (cslots g) (wslots g) (pslots g) (threads g) (events g) (misuse g).
Definition set_weaks v g := mkConfig (hooks g) (clients g) v (cslots g) (wslots g) (pslots g) (threads g) (events g) (misuse g).
Definition set_cslots v g := mkConfig (hooks g) (clients g) (weaks g) v (wslots g) (pslots g) (threads g) (events g) (misuse g).
Definition set_wslots v g := mkConfig (hooks g) (clients g) (weaks g) (cslots g) v (pslots g) (threads g) (events g) (misuse g).
Definition set_pslots v g := mkConfig (hooks g) (clients g) (weaks g) (cslots g) (wslots g) v (threads g) (events g) (misuse g).
Definition set_threads v g := mkConfig (hooks g) (clients g) (weaks g) (cslots g) (wslots g) (pslots g) v (events g) (misuse g).
Definition set_events v g := mkConfig (hooks g) (clients g) (weaks g) (cslots g) (wslots g) (pslots g) (threads g) v (misuse g).
Definition set_misuse v g := mkConfig (hooks g) (clients g) (weaks g) (cslots g) (wslots g) (pslots g) (threads g) (events g) v.

Definition uh (h : nat) (f : hook -> hook) (g : config) := set_hooks (upd h f (hooks g)) g.
Definition uc (c : nat) (f : client -> client) (g : config) := set_clients (upd c f (clients g)) g.
Definition emit (e : event) (g : config) := set_events (e :: events g) g.

Definition set_pc (t : nat) (p : pc) (g : config) :=
  set_threads (upd t (fun th => mkThread (t_prog th) p (t_res th)) (threads g)) g.
(* the current op is complete with result r *)
Definition finish (t : nat) (r : res) (g : config) :=
  set_threads (upd t (fun th => mkThread (t_prog th) Idle (r :: t_res th)) (threads g)) g.

Definition get_hook (g : config) (h : nat) := nth_error (hooks g) h.
Definition get_client (g : config) (c : nat) := nth_error (clients g) c.

Definition new_client (h : nat) : client := mkClient (Some h) false None (Some h).

(* h is a forwarding hook: resolved to something other than itself *)
Definition forwarded (self : nat) (hk : hook) : bool :=
  h_resolved hk && negb (oeqb (h_rh hk) (Some self)).

(* close(h.done): closing a closed channel panics (result: the op ends with RPanic and the
   mutexes held at that point stay locked) *)
Definition close_done (hk : hook) : option hook :=
  if h_done hk then None else Some (hk_done true hk).

(* ghost: every client accounted at hook p is now accounted at q *)
Definition retarget (p : nat) (q : option nat) (g : config) :=
  set_clients (map (fun c => if oeqb (c_tgt c) (Some p) then cl_tgt q c else c) (clients g)) g.

(* Release(c) while some Fulfill(_, c) is between its read of c.h and its end *)
Definition borrows (c : nat) (p : pc) : bool :=
  match p with
  | FMark _ _ (Some c') => Nat.eqb c c'
  | FWalk _ _ (Some c') _ => Nat.eqb c c'
  | _ => false
  end.
Definition borrowed (g : config) (c : nat) : bool :=
  existsb (fun th => borrows c (t_pc th)) (threads g).

(* ---------------------------------------------------------------- IsSame plumbing *)
Definition same_second (t : nat) (h1 : option nat) (c2 : option nat) (g : config) : config :=
  match c2 with
  | None => finish t (RBool (oeqb h1 None)) g
  | Some c => set_pc t (CLock (KSame2 h1) c) g
  end.

(* ---------------------------------------------------------------- begin an op *)
Definition begin_op (t : nat) (o : op) (g : config) : config :=
  match o with
  | ONew dst =>
      let h := length (hooks g) in
      let c := length (clients g) in
      finish t ROk
        (set_cslots ((dst, c) :: cslots g)
        (set_clients (clients g ++ [new_client h])
        (set_hooks (hooks g ++ [mkHook 1 0 true (Some h) false 0 None]) g)))
  | ONewPromise dst p =>
      let h := length (hooks g) in
      let c := length (clients g) in
      finish t ROk
        (set_pslots ((p, h) :: pslots g)
        (set_cslots ((dst, c) :: cslots g)
        (set_clients (clients g ++ [new_client h])
        (set_hooks (hooks g ++ [mkHook 1 0 false None false 0 None]) g))))
  | OAddRef src dst =>
      match lookup src (cslots g) with
      | None => finish t RNil g
      | Some c => set_pc t (CLock (KAddRef dst) c) g
      end
  | ORelease src =>
      match lookup src (cslots g) with
      | None => finish t ROk g
      | Some c => set_pc t (CLock KRelease c) g
      end
  | OWeakRef src wdst =>
      match lookup src (cslots g) with
      | None => finish t RNil g
      | Some c => set_pc t (CLock (KWeakRef wdst) c) g
      end
  | OWeakAdd w dst =>
      match lookup w (wslots g) with
      | None => finish t RNil g
      | Some wi =>
          match nth_error (weaks g) wi with
          | Some (Some h) => set_pc t (WWalk dst wi h) g
          | _ => finish t RNil g
          end
      end
  | OCall src recv abn =>
      match lookup src (cslots g) with
      | None => finish t RErr g
      | Some c => set_pc t (CLock (KCall recv abn) c) g
      end
  | OFulfill p src =>
      match lookup p (pslots g) with
      | None => finish t RNil g      (* no such promise variable: the harness never does this *)
      | Some ph =>
          match lookup src (cslots g) with
          | None => set_pc t (FMark ph None None) g
          | Some c => set_pc t (FLock ph c) g
          end
      end
  | OIsValid src =>
      match lookup src (cslots g) with
      | None => finish t (RBool false) g
      | Some c => set_pc t (CLock KValid c) g
      end
  | OIsSame a b =>
      match lookup a (cslots g) with
      | None => same_second t None (lookup b (cslots g)) g
      | Some c => set_pc t (CLock (KSame1 (lookup b (cslots g))) c) g
      end
  | OState src =>
      match lookup src (cslots g) with
      | None => finish t RNil g
      | Some c => set_pc t (CLock KState c) g
      end
  end.

(* ---------------------------------------------------------------- Client methods *)
(* c.mu has just been acquired by t; cl is the client's state *)
Definition clock_step (t : nat) (k : kont) (c : nat) (cl : client) (g : config) : config :=
  let walk h := set_pc t (CWalk k c h) (uc c (cl_mu (Some t)) g) in
  match k with
  | KAddRef _ =>
      if c_released cl then finish t RPanic g
      else match c_h cl with None => finish t RNil g | Some h => walk h end
  | KRelease =>
      if c_released cl then finish t ROk g
      else match c_h cl with
           | None => finish t ROk g
           | Some h =>
               let g1 := if borrowed g c then set_misuse true g else g in
               set_pc t (CWalk k c h) (uc c (fun x => cl_released true (cl_mu (Some t) x)) g1)
           end
  | KCall _ _ =>
      match c_h cl with None => finish t RErr g | Some h => walk h end
  | KValid =>
      match c_h cl with None => finish t (RBool false) g | Some h => walk h end
  | KWeakRef _ =>
      match c_h cl with
      | None => finish t (if c_released cl then RPanic else RNil) g
      | Some h => walk h
      end
  | KSame1 c2 =>
      match c_h cl with
      | None => if c_released cl then finish t RPanic g else same_second t None c2 g
      | Some h => walk h
      end
  | KSame2 h1 =>
      match c_h cl with
      | None => if c_released cl then finish t RPanic g else finish t (RBool (oeqb h1 None)) g
      | Some h => walk h
      end
  | KState =>
      match c_h cl with None => finish t RNil g | Some h => walk h end
  end.

(* the walk reached nil: c.h = nil, c.mu unlocked (deferred Unlock / explicit) *)
Definition cwalk_nil (t : nat) (k : kont) (c : nat) (g : config) : config :=
  let g := uc c (fun x => cl_mu None (cl_h None x)) g in
  match k with
  | KAddRef _ => finish t RNil g
  | KRelease => finish t ROk g
  | KCall _ _ => finish t RErr g
  | KValid => finish t (RBool false) g
  | KWeakRef _ => finish t RNil g
  | KSame1 c2 => same_second t None c2 g
  | KSame2 h1 => finish t (RBool (oeqb h1 None)) g
  | KState => finish t RNil g
  end.

(* the walk stopped at hook cur (its mutex has just been acquired; hk is its state) *)
Definition cwalk_end (t : nat) (k : kont) (c cur : nat) (hk : hook) (g : config) : config :=
  let unlock_c := uc c (cl_mu None) in
  match k with
  | KAddRef dst =>
      let d := length (clients g) in
      let g1 := unlock_c (uh cur (hk_refs (h_refs hk + 1)) g) in
      finish t ROk (set_cslots ((dst, d) :: cslots g1) (set_clients (clients g1 ++ [new_client cur]) g1))
  | KRelease =>
      let g := uc c (fun x => cl_tgt None (cl_h None x)) g in
      let r := h_refs hk - 1 in
      if 0 <? r then finish t ROk (unlock_c (uh cur (hk_refs r) g))
      else if h_calls hk =? 0 then
        match close_done (hk_refs r hk) with
        | None => finish t RPanic (uh cur (fun _ => hk_mu (Some t) (hk_refs r hk)) g)  (* both mutexes stay locked *)
        | Some hk' => set_pc t (WaitDone cur) (unlock_c (uh cur (fun _ => hk') g))
        end
      else set_pc t (WaitDone cur) (unlock_c (uh cur (hk_refs r) g))
  | KCall recv abn =>
      set_pc t (InCall cur abn)
        (emit (if recv then EvRecv cur else EvSend cur)
        (unlock_c (uh cur (hk_calls (h_calls hk + 1)) g)))
  | KValid => finish t (RBool true) (unlock_c g)
  | KWeakRef wdst =>
      let w := length (weaks g) in
      finish t ROk (set_wslots ((wdst, w) :: wslots g) (set_weaks (weaks g ++ [Some cur]) (unlock_c g)))
  | KSame1 c2 => same_second t (Some cur) c2 (unlock_c g)
  | KSame2 h1 => finish t (RBool (oeqb h1 (Some cur))) (unlock_c g)
  | KState =>
      (* State(): startCall brackets the read of Brand(); no Send/Recv; IsPromise = !resolved *)
      set_pc t (CallFin cur (RBool (negb (h_resolved hk))))
        (unlock_c (uh cur (hk_calls (h_calls hk + 1)) g))
  end.

(* ---------------------------------------------------------------- Fulfill: marking the promise *)
(* Does the resolution chain starting at x lead to p?  (Running out of fuel counts as "yes":
   the check is only used to flag caller errors, and it may err on the side of flagging.) *)
Fixpoint chain_hits (hs : list hook) (fuel : nat) (x p : nat) : bool :=
  if Nat.eqb x p then true else
  match fuel with
  | O => true
  | S f =>
      match nth_error hs x with
      | Some hk => if forwarded x hk then
                     match h_rh hk with Some y => chain_hits hs f y p | None => false end
                   else false
      | None => false
      end
  end.

(* Fulfill(p, c) with c's hook rh already (transitively) resolved to p: the promise would be
   resolved into a cycle.  The Go code would then spin or block forever in resolveHook; it is a
   caller error ("all future calls ... will be sent to c" has no meaning), flagged as misuse. *)
Definition resolves_to_cycle (g : config) (rh : option nat) (p : nat) : bool :=
  match rh with
  | Some r => chain_hits (hooks g) (length (hooks g)) r p
  | None => false
  end.

(* cp.h.mu has been acquired by t, the promise is unresolved; hk is its state *)
Definition fmark_body (fixed : bool) (t p : nat) (rh c : option nat) (hk : hook) (g : config) : config :=
  let n := h_refs hk in
  let hk1 := hk_refs 0 (hk_resolve rh hk) in
  if n =? 0 then finish t ROk (uh p (fun _ => hk1) g)
  else
    let closed := if h_calls hk1 =? 0 then close_done hk1 else Some hk1 in
    match closed with
    | None => finish t RPanic (uh p (fun _ => hk_mu (Some t) hk1) g)
    | Some hk2 =>
        match rh with
        | None => set_pc t (WaitDone p) (retarget p None (uh p (fun _ => hk2) g))
        | Some r =>
            if Nat.eqb r p then
              (* the promise is resolved to itself: the references stay where they
                 are and the hook is shut down nevertheless (caller error) *)
              set_pc t (WaitDone p) (set_misuse true (uh p (fun _ => hk_refs n hk2) g))
            else if fixed then
              set_pc t (FWalk p n c r) (uh p (fun _ => hk_mu (Some t) hk2) g)
            else
              set_pc t (FWalk p n c r) (uh p (fun _ => hk2) g)
        end
    end.

(* ---------------------------------------------------------------- one step *)
Definition step (fixed : bool) (g : config) (t : nat) : option config :=
  match nth_error (threads g) t with
  | None => None
  | Some th =>
    match t_pc th with
    | Idle =>
        match t_prog th with
        | [] => None
        | o :: rest =>
            Some (begin_op t o
                    (set_threads (upd t (fun x => mkThread rest Idle (t_res x)) (threads g)) g))
        end
    | CLock k c =>
        match get_client g c with
        | None => None
        | Some cl =>
            match c_mu cl with
            | Some _ => None
            | None => Some (clock_step t k c cl g)
            end
        end
    | CWalk k c cur =>
        match get_hook g cur with
        | None => None
        | Some hk =>
            match h_mu hk with
            | Some _ => None
            | None =>
                if forwarded cur hk then
                  match h_rh hk with
                  | None => Some (cwalk_nil t k c g)
                  | Some r => Some (set_pc t (CWalk k c r) (uc c (cl_h (Some r)) g))
                  end
                else Some (cwalk_end t k c cur hk g)
            end
        end
    | WWalk dst w cur =>
        match get_hook g cur with
        | None => None
        | Some hk =>
            match h_mu hk with
            | Some _ => None
            | None =>
                if forwarded cur hk then
                  match h_rh hk with
                  | None => Some (finish t RNil (set_weaks (upd w (fun _ => None) (weaks g)) g))
                  | Some r => Some (set_pc t (WWalk dst w r) g)
                  end
                else
                  let g := set_weaks (upd w (fun _ => Some cur) (weaks g)) g in
                  if h_refs hk =? 0 then Some (finish t RDead g)
                  else
                    let d := length (clients g) in
                    Some (finish t ROk
                      (set_cslots ((dst, d) :: cslots g)
                      (set_clients (clients g ++ [new_client cur])
                      (uh cur (hk_refs (h_refs hk + 1)) g))))
            end
        end
    (* the call-out ends: by return, or by a panic / Goexit unwinding through SendCall/RecvCall;
       in both cases the deferred finish() runs next *)
    | InCall h abn => Some (set_pc t (CallFin h (if abn then RPanic else RSent)) g)
    | CallFin h rr =>
        match get_hook g h with
        | None => None
        | Some hk =>
            match h_mu hk with
            | Some _ => None
            | None =>
                let hk1 := hk_calls (h_calls hk - 1) hk in
                if (h_refs hk1 =? 0) && (h_calls hk1 =? 0) then
                  match close_done hk1 with
                  | None => Some (finish t RPanic (uh h (fun _ => hk_mu (Some t) hk1) g))
                  | Some hk2 => Some (finish t rr (uh h (fun _ => hk2) g))
                  end
                else Some (finish t rr (uh h (fun _ => hk1) g))
            end
        end
    | WaitDone h =>
        match get_hook g h with
        | None => None
        | Some hk =>
            if h_done hk then
              Some (finish t ROk (emit (EvShutdown h) (uh h (hk_shut (h_shut hk + 1)) g)))
            else None
        end
    | FLock p c =>
        match get_client g c with
        | None => None
        | Some cl =>
            match c_mu cl with
            | Some _ => None
            | None =>
                if c_released cl then Some (finish t RPanic g)
                else Some (set_pc t (FMark p (c_h cl) (Some c)) g)
            end
        end
    | FMark p rh c =>
        match get_hook g p with
        | None => None
        | Some hk =>
            match h_mu hk with
            | Some _ => None
            | None =>
                if h_resolved hk then Some (finish t RPanic g)
                else
                  Some (fmark_body fixed t p rh c hk
                          (if resolves_to_cycle g rh p then set_misuse true g else g))
            end
        end
    | FWalk p n c cur =>
        match get_hook g cur with
        | None => None
        | Some hk =>
            match h_mu hk with
            | Some _ => None
            | None =>
                let unlock_p g := if fixed then uh p (hk_mu None) g else g in
                if forwarded cur hk then
                  match h_rh hk with
                  | None => Some (set_pc t (WaitDone p) (unlock_p (retarget p None g)))
                  | Some r => Some (set_pc t (FWalk p n c r) g)
                  end
                else
                  Some (set_pc t (WaitDone p)
                          (unlock_p (retarget p (Some cur) (uh cur (hk_refs (h_refs hk + n)) g))))
            end
        end
    end
  end.

(* ---------------------------------------------------------------- a third variant (seeded mutation) *)
(* "Early unlock": Fulfill locks the first hook of the target chain while still holding cp.h.mu,
   then releases cp.h.mu at once and walks on with resolveHook (which unlocks each hook before
   it locks the next).  Same as [step true] except in Fulfill's transfer walk: the step that
   acquires a hook also releases cp.h.mu if this thread still holds it, and the end of the walk
   does not touch cp.h.mu.  Refuted in Cap/CapRefuted.v (the target of a chain of two promises
   is shut down while referenced). *)
Definition unlock_if_mine (p t : nat) (g : config) : config :=
  match get_hook g p with
  | Some hk => if oeqb (h_mu hk) (Some t) then uh p (hk_mu None) g else g
  | None => g
  end.

Definition step_early (g : config) (t : nat) : option config :=
  match nth_error (threads g) t with
  | Some th =>
      match t_pc th with
      | FWalk p _ _ _ =>
          match step false g t with          (* enabled iff the hook to be locked is free *)
          | None => None
          | Some _ => step false (unlock_if_mine p t g) t
          end
      | _ => step true g t
      end
  | None => None
  end.

(* runs and reachability for an arbitrary step function *)
Fixpoint run_with (stp : config -> nat -> option config) (g : config) (sched : list nat) : option config :=
  match sched with
  | [] => Some g
  | t :: r => match stp g t with None => None | Some g' => run_with stp g' r end
  end.

Inductive reachable_with (stp : config -> nat -> option config) (g0 : config) : config -> Prop :=
| reachw_refl : reachable_with stp g0 g0
| reachw_step : forall g t g', reachable_with stp g0 g -> stp g t = Some g' -> reachable_with stp g0 g'.

(* ---------------------------------------------------------------- runs *)
Definition init (progs : list (list op)) : config :=
  mkConfig [] [] [] [] [] [] (map (fun p => mkThread p Idle []) progs) [] false.

(* reachable under ANY schedule: reflexive-transitive closure over any choice of thread *)
Inductive reachable (fixed : bool) (g0 : config) : config -> Prop :=
| reach_refl : reachable fixed g0 g0
| reach_step : forall g t g', reachable fixed g0 g -> step fixed g t = Some g' -> reachable fixed g0 g'.

(* executable scheduler used by the correspondence: follow the given schedule; stop with the
   position of the first entry whose thread has no enabled step *)
Fixpoint run (fixed : bool) (g : config) (sched : list nat) (k : nat) : config * option nat :=
  match sched with
  | [] => (g, None)
  | t :: r => match step fixed g t with
              | None => (g, Some k)
              | Some g' => run fixed g' r (S k)
              end
  end.

Definition enabled (fixed : bool) (g : config) (t : nat) : bool :=
  match step fixed g t with Some _ => true | None => false end.

Definition unfinished (th : thread) : bool :=
  match t_pc th, t_prog th with Idle, [] => false | _, _ => true end.

Definition in_callout (th : thread) : bool :=
  match t_pc th with InCall _ _ => true | _ => false end.

(* sequential execution: one thread, each op run to completion (fuel = bound on the number
   of sections; running out of fuel or getting stuck is reported as None) *)
Fixpoint run_seq (fixed : bool) (fuel : nat) (g : config) : option config :=
  match fuel with
  | O => None
  | S f =>
      match nth_error (threads g) 0 with
      | None => None
      | Some th =>
          if unfinished th then
            match step fixed g 0%nat with
            | None => None
            | Some g' => run_seq fixed f g'
            end
          else Some g
      end
  end.
