(* CapWf.v — well-formedness of ids (every id stored in a pc, a slot table, a client, a hook or
   a weak ref denotes an allocated object) is an invariant of every execution; no other
   invariant is needed for it.  Proved by case analysis over all leaves of [step]. *)
From Coq Require Import ZArith List Bool Arith Lia.
From CV Require Import Cap.Cap Cap.CapInv Cap.CapLemmas Cap.CapStep.
Import ListNotations.
Open Scope nat_scope.

Definition olt (o : option nat) (n : nat) : Prop := match o with Some x => x < n | None => True end.

Definition kont_wf (nc : nat) (k : kont) : Prop :=
  match k with KSame1 c2 => olt c2 nc | _ => True end.

Definition pc_wf (nh nc : nat) (p : pc) : Prop :=
  match p with
  | Idle => True
  | CLock k c => c < nc /\ kont_wf nc k
  | CWalk k c cur => cur < nh /\ kont_wf nc k
  | WWalk _ _ cur => cur < nh
  | InCall h _ | CallFin h _ | WaitDone h => h < nh
  | FLock p c => c < nc /\ p < nh
  | FMark p rh c => p < nh /\ olt rh nh
  | FWalk p _ _ cur => cur < nh /\ p < nh
  end.

Record WF (g : config) : Prop := {
  wf_threads : Forall (fun th => pc_wf (length (hooks g)) (length (clients g)) (t_pc th)) (threads g);
  wf_cslots : Forall (fun sc : nat * nat => snd sc < length (clients g)) (cslots g);
  wf_pslots : Forall (fun sp : nat * nat => snd sp < length (hooks g)) (pslots g);
  wf_weaks : Forall (fun w => olt w (length (hooks g))) (weaks g);
  wf_clients : Forall (fun cl => olt (c_h cl) (length (hooks g))) (clients g);
  wf_hooks : Forall (fun hk => olt (h_rh hk) (length (hooks g))) (hooks g)
}.

Lemma olt_mono : forall o n n', n <= n' -> olt o n -> olt o n'.
Proof. intros [x|] n n' H; simpl; auto. lia. Qed.

Lemma pc_wf_mono : forall nh nc nh' nc' p, nh <= nh' -> nc <= nc' -> pc_wf nh nc p -> pc_wf nh' nc' p.
Proof.
  intros nh nc nh' nc' p H1 H2. destruct p; simpl; intros; repeat split; try tauto; try lia;
  try (destruct H as (A & B); first [lia | destruct k; simpl in *; auto; eapply olt_mono; eauto | eapply olt_mono; eauto]).
Qed.

Lemma Forall_upd' : forall A (P : A -> Prop) l n f,
  Forall P l -> (forall x, nth_error l n = Some x -> P (f x)) -> Forall P (upd n f l).
Proof.
  induction l as [|a l IH]; intros [|n] f H Hf; simpl; auto; inversion H; subst; constructor; auto.
Qed.

Lemma Forall_nth : forall A (P : A -> Prop) l n x, Forall P l -> nth_error l n = Some x -> P x.
Proof. intros. rewrite Forall_forall in H. apply H. eapply nth_error_In; eauto. Qed.

Lemma lookup_Forall : forall (P : nat * nat -> Prop) l k v, Forall P l -> lookup k l = Some v -> exists k', P (k', v).
Proof.
  induction l as [|[a b] l IH]; intros k v H E; simpl in E. discriminate.
  inversion H; subst. destruct (Nat.eqb a k). inversion E; subst. eauto. eauto.
Qed.

Lemma init_wf : forall progs, WF (init progs).
Proof.
  intros. constructor; cbn; auto.
  apply Forall_forall. intros th Hin. apply in_map_iff in Hin. destruct Hin as (p & <- & _). simpl. auto.
Qed.

Lemma Forall_upd_pres : forall A (P : A -> Prop) l n f,
  Forall P l -> (forall x, P x -> P (f x)) -> Forall P (upd n f l).
Proof.
  induction l as [|a l IH]; intros [|n] f H Hf; simpl; auto; inversion H; subst; constructor; auto.
Qed.

Ltac destr_in H := repeat match type of H with context[match ?x with _ => _ end] => destruct x eqn:? ; try discriminate end.
Ltac destr_goal := repeat match goal with |- context[match ?x with _ => _ end] => destruct x eqn:? end.
Ltac norm_cfg :=
  cbn [threads cslots pslots wslots weaks clients hooks events misuse
       set_threads set_cslots set_pslots set_wslots set_weaks set_clients set_hooks set_events set_misuse
       set_pc finish uh uc emit retarget get_hook get_client] in *.
Ltac inv_some :=
  repeat match goal with
  | H : ?L = Some _ |- _ => match L with context[match ?x with _ => _ end] => destruct x eqn:?; try discriminate end
  | H : Some _ = Some _ |- _ => inversion H; subst; clear H
  end.
Ltac leaves Hs :=
  unfold step in Hs; destr_in Hs; inversion Hs; subst; clear Hs;
  unfold begin_op, clock_step, cwalk_nil, cwalk_end, same_second, fmark_body, close_done in *; destr_goal;
  inv_some; norm_cfg; fold get_hook get_client in *.

Ltac have H T := lazymatch goal with | _ : T |- _ => fail | _ => assert T as H end.

Ltac olt_tac :=
  cbn in *; intros; subst;
  repeat match goal with
  | H : _ /\ _ |- _ => destruct H
  | H : olt (Some _) _ |- _ => simpl in H
  end;
  repeat split; auto; try lia;
  try match goal with
  | H : olt ?o ?n |- olt ?o ?n' => apply (olt_mono o n n'); [lia | exact H]
  | |- olt None _ => exact I
  | |- olt (Some _) _ => simpl; lia
  end.

Section WFSTEP.
Variable g : config.
Hypothesis W : WF g.

Lemma sat_thread : forall t th, nth_error (threads g) t = Some th ->
  pc_wf (length (hooks g)) (length (clients g)) (t_pc th).
Proof. intros. eapply (Forall_nth _ _ _ _ _ (wf_threads g W) H). Qed.
Lemma sat_hook : forall x hk, get_hook g x = Some hk -> olt (h_rh hk) (length (hooks g)) /\ x < length (hooks g).
Proof. intros. split. eapply (Forall_nth _ _ _ _ _ (wf_hooks g W) H). eapply nth_error_some_lt; eauto. Qed.
Lemma sat_client : forall x cl, get_client g x = Some cl -> olt (c_h cl) (length (hooks g)) /\ x < length (clients g).
Proof. intros. split. eapply (Forall_nth _ _ _ _ _ (wf_clients g W) H). eapply nth_error_some_lt; eauto. Qed.
Lemma sat_cslot : forall s c, lookup s (cslots g) = Some c -> c < length (clients g).
Proof. intros. destruct (lookup_Forall _ _ _ _ (wf_cslots g W) H) as (k & A). exact A. Qed.
Lemma sat_pslot : forall s c, lookup s (pslots g) = Some c -> c < length (hooks g).
Proof. intros. destruct (lookup_Forall _ _ _ _ (wf_pslots g W) H) as (k & A). exact A. Qed.
Lemma sat_weak : forall i w, nth_error (weaks g) i = Some w -> olt w (length (hooks g)).
Proof. intros. eapply (Forall_nth _ _ _ _ _ (wf_weaks g W) H). Qed.
End WFSTEP.

Ltac saturate W :=
  repeat match goal with
  | H : nth_error (threads ?g) ?t = Some ?th |- _ =>
      let T := constr:(pc_wf (length (hooks g)) (length (clients g)) (t_pc th)) in
      let N := fresh "S" in have N T; [exact (sat_thread g W t th H)|]
  | H : get_hook ?g ?x = Some ?hk |- _ =>
      let T := constr:(olt (h_rh hk) (length (hooks g)) /\ x < length (hooks g)) in
      let N := fresh "S" in have N T; [exact (sat_hook g W x hk H)|]
  | H : get_client ?g ?x = Some ?cl |- _ =>
      let T := constr:(olt (c_h cl) (length (hooks g)) /\ x < length (clients g)) in
      let N := fresh "S" in have N T; [exact (sat_client g W x cl H)|]
  | H : lookup ?s (cslots ?g) = Some ?c |- _ =>
      let T := constr:(c < length (clients g)) in
      let N := fresh "S" in have N T; [exact (sat_cslot g W s c H)|]
  | H : lookup ?s (pslots ?g) = Some ?c |- _ =>
      let T := constr:(c < length (hooks g)) in
      let N := fresh "S" in have N T; [exact (sat_pslot g W s c H)|]
  | H : nth_error (weaks ?g) ?i = Some ?w |- _ =>
      let T := constr:(olt w (length (hooks g))) in
      let N := fresh "S" in have N T; [exact (sat_weak g W i w H)|]
  end;
  repeat match goal with
  | E : t_pc ?th = _, S : context[t_pc ?th] |- _ => rewrite E in S
  | E : c_h ?cl = _, S : context[c_h ?cl] |- _ => rewrite E in S
  | E : h_rh ?hk = _, S : context[h_rh ?hk] |- _ => rewrite E in S
  end.

Ltac fa W :=
  lazymatch goal with
  | |- Forall _ (upd ?n _ (upd ?n _ _)) => rewrite upd_upd; fa W
  | |- Forall _ (upd _ _ _) => apply Forall_upd_pres; [fa W | try solve [olt_tac]]
  | |- Forall _ (_ ++ _) => apply Forall_app; split; fa W
  | |- Forall _ (_ :: _) => constructor; [try solve [olt_tac] | fa W]
  | |- Forall _ [] => constructor
  | |- Forall _ (map _ _) =>
      rewrite Forall_map; eapply Forall_impl; [|exact (wf_clients _ W)];
      let a := fresh "a" in let Ha := fresh "Ha" in
      intros a Ha; cbv beta; destruct (oeqb (c_tgt a) _); cbn [c_h cl_tgt];
      (eapply olt_mono; [|exact Ha]; lia)
  | |- Forall _ _ =>
      first [ eapply Forall_impl; [|exact (wf_threads _ W)]; cbn beta; intros ? ?Hx;
              eapply pc_wf_mono; [| |exact Hx]; lia
            | eapply Forall_impl; [|exact (wf_cslots _ W)]; cbn beta; intros; lia
            | eapply Forall_impl; [|exact (wf_pslots _ W)]; cbn beta; intros; lia
            | eapply Forall_impl; [|exact (wf_weaks _ W)]; cbn beta; intros ? ?Hx; eapply olt_mono; [|exact Hx]; lia
            | eapply Forall_impl; [|exact (wf_clients _ W)]; cbn beta; intros ? ?Hx;
              unfold rt1; try match goal with |- context[if ?b then _ else _] => destruct b end; cbn;
              eapply olt_mono; [|exact Hx]; lia
            | eapply Forall_impl; [|exact (wf_hooks _ W)]; cbn beta; intros ? ?Hx; eapply olt_mono; [|exact Hx]; lia ]
  end.

Lemma wf_step : forall fixed g t g', WF g -> step fixed g t = Some g' -> WF g'.
Proof.
  intros fixed g t g' W Hs. leaves Hs.
  all: try match goal with |- context[KSame1 (lookup ?b ?l)] => destruct (lookup b l) eqn:? end.
  all: saturate W.
  all: constructor; cbn [threads cslots pslots wslots weaks clients hooks events misuse
         set_threads set_cslots set_pslots set_wslots set_weaks set_clients set_hooks set_events set_misuse
         set_pc finish uh uc emit retarget];
       rewrite ?app_length, ?length_upd, ?map_length; cbn [length].
  all: solve [fa W].
Qed.

Theorem reachable_wf : forall fixed progs g, reachable fixed (init progs) g -> WF g.
Proof. induction 1. apply init_wf. eapply wf_step; eauto. Qed.
