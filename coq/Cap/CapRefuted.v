(* CapRefuted.v — the code as found (variant fixed = false): ClientPromise.Fulfill released the
   promise hook's mutex before it locked the target, so the references were "in flight" with no
   lock held.  Witness (found by the correspondence run on the unrepaired code, minimised):
     setup    : h0 = NewClient, c0;  P = NewPromisedClient, c1
     thread 1 : Fulfill(P, c0)        thread 2 : c1.Release()
   schedule: Fulfill marks P resolved and unlocks it; Release(c1) walks through P to h0,
   decrements h0.refs 1 -> 0 and shuts h0 down; then Fulfill adds P's reference to h0.
   h0 has been shut down although c0 still refers to it (refs = 1, shut = 1).
   The same programs under the repaired variant cannot take this schedule. *)
From Coq Require Import ZArith List Bool Arith Lia.
From CV Require Import Cap.Cap Cap.CapInv.
Import ListNotations.
Open Scope Z_scope.

Lemma run_reachable : forall fixed sched g k g', run fixed g sched k = (g', None) -> reachable fixed g g'.
Proof.
  intros fixed sched. induction sched as [|t r IH]; intros g k g' H; simpl in H.
  - inversion H; subst. constructor.
  - destruct (step fixed g t) as [g1|] eqn:E; [|discriminate].
    specialize (IH g1 (S k) g' H).
    clear H. induction IH.
    + eapply reach_step; [constructor|exact E].
    + eapply reach_step; eauto.
Qed.

Definition refuted_progs : list (list op) :=
  [ [ONew 0; ONewPromise 1 0]; [OFulfill 0 0]; [ORelease 1] ]%nat.
Definition refuted_sched : list nat := [0;0;1;1;2;2;1;2;2;2;1;1]%nat.

Definition shut_with_refs (g : config) : bool :=
  existsb (fun hk => (0 <? h_refs hk) && (1 <=? h_shut hk)) (hooks g).

(* shutdown_after_last / shutdown_once do NOT hold for the code as found *)
Example prefix_refuted :
  exists g, reachable false (init refuted_progs) g /\ misuse g = false /\
            (forall th, In th (threads g) -> unfinished th = false) /\
            exists hk, get_hook g 0%nat = Some hk /\ h_refs hk = 1 /\ h_shut hk = 1.
Proof.
  eexists. split.
  { eapply run_reachable with (sched := refuted_sched) (k := 0%nat). vm_compute. reflexivity. }
  split. reflexivity. split.
  - intros th Hin. simpl in Hin. repeat destruct Hin as [<-|Hin]; try reflexivity. contradiction.
  - eexists. split. reflexivity. split; reflexivity.
Qed.

(* the repaired variant refuses that schedule: after Fulfill has marked P, Release(c1) cannot
   lock P until the transfer is complete *)
Example fixed_blocks_schedule :
  snd (run true (init refuted_progs) refuted_sched 0) = Some 7%nat.
Proof. vm_compute. reflexivity. Qed.

(* non-vacuity of the theorems for the repaired variant: the same programs, run to completion,
   end with h0 alive (c0's reference; c1's was transferred and then released) and P shut down
   exactly once *)
Definition fixed_sched : list nat := [0;0;1;1;1;1;1;2;2;2;2]%nat.
Example fixed_outcome :
  exists g, run true (init refuted_progs) fixed_sched 0 = (g, None) /\ misuse g = false /\
            map (fun hk => (h_refs hk, h_shut hk)) (hooks g) = [(1, 0); (0, 1)].
Proof. eexists. split. vm_compute. reflexivity. split; reflexivity. Qed.

(* ---------------------------------------------------------------- the "early unlock" variant *)
(* Seeded mutation C10-r2-1: Fulfill releases cp.h.mu right after it has locked the first hook
   of the target chain.  If that hook is an already resolved promise hook (the client passed
   to Fulfill has a stale c.h), resolveHook unlocks it before it locks the real target, so for
   a moment no mutex on the path is held while the references are in flight.  Witness (found
   by the exhaustive racing-point enumeration of the harness on the mutated code):
     setup    : h0,ct = NewClient; PB,cb = NewPromisedClient; PA,ca = NewPromisedClient;
                PB.Fulfill(ct); ct.Release()        (cb.h is stale: PB -> h0, h0.refs = 1)
     thread 1 : PA.Fulfill(cb)        thread 2 : ca.Release()
   ca.Release walks PA -> PB -> h0 inside the window and takes h0.refs to 0: h0 is shut down
   although cb still refers to it. *)
Lemma run_with_reachable : forall stp sched g g', run_with stp g sched = Some g' -> reachable_with stp g g'.
Proof.
  intros stp sched. induction sched as [|t r IH]; intros g g' H; simpl in H.
  - inversion H; subst. constructor.
  - destruct (stp g t) as [g1|] eqn:E; [|discriminate].
    specialize (IH g1 g' H). clear H. induction IH.
    + eapply reachw_step; [constructor|exact E].
    + eapply reachw_step; eauto.
Qed.

Definition early_progs : list (list op) :=
  [ [ONew 0; ONewPromise 1 0; ONewPromise 2 1; OFulfill 0 0; ORelease 0]; [OFulfill 1 1]; [ORelease 2] ]%nat.
Definition early_sched : list nat := [0;0;0;0;0;0;0;0;0;0;0;1;1;1;2;2;1;2;2;2;2;1;1]%nat.

Example early_unlock_refuted :
  exists g, reachable_with step_early (init early_progs) g /\ misuse g = false /\
            (forall th, In th (threads g) -> unfinished th = false) /\
            exists hk, get_hook g 0%nat = Some hk /\ h_refs hk = 1 /\ h_shut hk = 1.
Proof.
  eexists. split.
  { eapply run_with_reachable with (sched := early_sched). vm_compute. reflexivity. }
  split. reflexivity. split.
  - intros th Hin. simpl in Hin. repeat destruct Hin as [<-|Hin]; try reflexivity. contradiction.
  - eexists. split. reflexivity. split; reflexivity.
Qed.

(* the repaired variant refuses that schedule (ca.Release cannot get through PA) *)
Example fixed_blocks_early_schedule :
  snd (run true (init early_progs) early_sched 0) = Some 17%nat.
Proof. vm_compute. reflexivity. Qed.
