(* C09 / Transport — model of the outbound byte stream of rpc/transport.go.

   Modelled code (same checks, same order):
     ctxWriteCloser.Write      n, err := wc.write(b); if 0 < n < len(b) { err = partialWriteError{err} }
     capnp.Encoder.Encode      one Write per buffer (header, then each segment; net.Buffers.WriteTo
                               over a plain io.Writer), stops at the first error and returns
                               errorf("encode: %v", err) -- the dynamic type of err is lost
     streamCodec.Encode        (after the fix) counts the bytes written during this Encode and
                               returns partialWriteError when an error leaves part of a frame on the wire
     transport.NewMessage      fails when the sticky transport.err is set
     send closure              ctx.Err() check, transport.err check, Encode, classification of the
                               error, sticky transport.err
   The environment decides the outcome of every Write call ([wout], any function of the call index).
   Not modelled: deadlines (SetWriteDeadline path of ctxWriteCloser.write), the packed encoder.

   Three variants of the classification are kept:
     VFound   the code as found: the type assertion is applied to the error wrapped by
              Encoder.Encode, so it never succeeds (F18)
     VUnwrap  a hypothetical repair that only makes the assertion see through the wrapping:
              still wrong, a frame can be torn at a buffer boundary by an error with n = 0
     VFixed   the repair that was applied: any failed Encode that has put bytes on the wire
              breaks the stream. *)
From Coq Require Import List ZArith Bool Arith Lia.
Import ListNotations.

Definition frame := list (list Z).          (* the buffers of one message, one Write call each *)
Definition frame_bytes (f : frame) : list Z := concat f.

(* outcome of one Write call, chosen by the environment *)
Inductive wout :=
| WOk                 (* everything written, nil error *)
| WErr (n : nat)      (* non-nil error after n bytes (n is clipped to the buffer length) *)
| WCtx.               (* the write context is already done: (0, ctx.Err()) without touching the stream *)

Inductive werr := ENone | EPlain | EPartial.

Record tstate := mkT { wire : list Z; nw : nat; broken : bool }.

Definition t_init : tstate := mkT [] 0 false.

(* ctxWriteCloser.Write *)
Definition ctxw_write (o : wout) (b : list Z) : nat * werr :=
  match o with
  | WOk => (length b, ENone)
  | WCtx => (0, EPlain)
  | WErr n =>
      let n' := Nat.min n (length b) in
      (n', if (0 <? n') && (n' <? length b) then EPartial else EPlain)
  end.

(* Encoder.Encode's write loop; [written] = bytes put on the wire by this Encode so far *)
Fixpoint encode_bufs (orc : nat -> wout) (bufs : frame) (st : tstate) (written : nat)
  : tstate * nat * werr :=
  match bufs with
  | [] => (st, written, ENone)
  | b :: rest =>
      let '(n, e) := ctxw_write (orc (nw st)) b in
      let st' := mkT (wire st ++ firstn n b) (S (nw st)) (broken st) in
      match e with
      | ENone => encode_bufs orc rest st' (written + n)
      | _ => (st', written + n, e)
      end
  end.

Inductive variant := VFound | VUnwrap | VFixed.

(* does the send closure set the sticky transport.err? *)
Definition sets_broken (v : variant) (written : nat) (e : werr) : bool :=
  match v with
  | VFound => false
  | VUnwrap => match e with EPartial => true | _ => false end
  | VFixed => match e with ENone => false | _ => 0 <? written end
  end.

Inductive sres := SOk | SErr | SNmErr.

(* one NewMessage + send of frame f; ctxdone: the send context is done when send is called *)
Definition send1 (v : variant) (orc : nat -> wout) (ctxdone : bool) (f : frame) (st : tstate)
  : tstate * sres :=
  if broken st then (st, SNmErr)
  else if ctxdone then (st, SErr)
  else
    let '(st', w, e) := encode_bufs orc f st 0 in
    match e with
    | ENone => (st', SOk)
    | _ => (mkT (wire st') (nw st') (sets_broken v w e), SErr)
    end.

Definition op := (bool * frame)%type.

Fixpoint run_from (v : variant) (orc : nat -> wout) (st : tstate) (ops : list op)
  : tstate * list sres :=
  match ops with
  | [] => (st, [])
  | (c, f) :: rest =>
      let '(st1, r) := send1 v orc c f st in
      let '(st2, rs) := run_from v orc st1 rest in
      (st2, r :: rs)
  end.

Definition run (v : variant) (orc : nat -> wout) (ops : list op) := run_from v orc t_init ops.

(* oracle from a finite fault table (write index, outcome); every other write succeeds *)
Fixpoint orc_of (tbl : list (nat * wout)) (i : nat) : wout :=
  match tbl with
  | [] => WOk
  | (j, o) :: rest => if Nat.eqb i j then o else orc_of rest i
  end.

(* what the correspondence run compares *)
Definition run_tbl (v : variant) (tbl : list (nat * wout)) (ops : list op) : list Z * list sres :=
  let '(st, rs) := run v (orc_of tbl) ops in (wire st, rs).

(* ---- specification side -------------------------------------------------- *)
Inductive subseq {A} : list A -> list A -> Prop :=
| sub_nil : forall l, subseq [] l
| sub_take : forall x l1 l2, subseq l1 l2 -> subseq (x :: l1) (x :: l2)
| sub_skip : forall x l1 l2, subseq l1 l2 -> subseq l1 (x :: l2).

Definition is_prefix {A} (p l : list A) : Prop := exists s, l = p ++ s.

(* the wire holds whole frames (a subsequence of what was sent, in order) followed by at most
   one torn frame, and a torn frame is there only if the stream is marked broken *)
Definition well_framed (fs : list frame) (st : tstate) : Prop :=
  exists done tail,
    wire st = concat (map frame_bytes done) ++ tail /\
    subseq done fs /\
    (broken st = false -> tail = []) /\
    (tail <> [] -> exists f, In f fs /\ is_prefix tail (frame_bytes f)).
