(* Proofs about the byte-level write-path model (Transport/CtxWrite.v). *)
From Coq Require Import List ZArith Bool Arith Lia.
From CV Require Import Transport.Transport Transport.TransportProofs Transport.CtxWrite.
Import ListNotations.

Lemma firstn_add_skipn {A} : forall n m (l : list A),
  firstn n l ++ firstn m (skipn n l) = firstn (n + m) l.
Proof.
  induction n as [|n IH]; intros m l; cbn.
  - reflexivity.
  - destruct l as [|x l]; cbn.
    + now rewrite firstn_nil.
    + now rewrite IH.
Qed.

Lemma so_acc_le o len : so_acc o len <= len.
Proof. destruct o; cbn; lia. Qed.

Lemma so_acc_ok o len : so_kind o = ROk -> so_acc o len = len.
Proof. destruct o; cbn; intros H; try discriminate; reflexivity. Qed.

(* one call on the stream: k bytes of b accepted, one entry in the call log *)
Lemma stream_write_spec orc st b st' k r :
  stream_write orc st b = (st', k, r) ->
  w_wire st' = w_wire st ++ firstn k b /\ k <= length b /\ w_broken st' = w_broken st /\
  w_log st' = length b :: w_log st /\ (r = ROk -> k = length b).
Proof.
  unfold stream_write. intros H. inversion H; subst; clear H. cbn.
  repeat split; auto using so_acc_le. intros Hk. now apply so_acc_ok.
Qed.

(* ctxWriteCloser.write: THE COUNT RETURNED IS THE NUMBER OF BYTES THE STREAM ACCEPTED (first
   Write and grace-period Write together), and those bytes are the first n bytes of b *)
Lemma cw_write_count g orc cf st cs b st' cs' n r :
  cw_write WCode g orc cf st cs b = (st', cs', n, r) ->
  w_wire st' = w_wire st ++ firstn n b /\ n <= length b /\ w_broken st' = w_broken st /\
  (r = ROk -> n = length b) /\
  (exists l, w_log st' = l ++ w_log st) /\
  (c_done cs = true -> st' = st /\ n = 0).
Proof.
  unfold cw_write. destruct (c_done cs) eqn:Hd.
  - intros H. inversion H; subst; clear H. rewrite app_nil_r.
    repeat split; auto; try lia; try discriminate. now exists [].
  - destruct (stream_write orc st b) as [[st1 n1] r1] eqn:H1.
    pose proof (stream_write_spec _ _ _ _ _ _ H1) as (Hw1 & Hle1 & Hb1 & Hl1 & Hok1).
    destruct (c_dl g && c_pwt g && (0 <? n1) && is_tmo r1) eqn:Hg.
    + destruct (stream_write orc st1 (skipn n1 b)) as [[st2 n2] r2] eqn:H2.
      pose proof (stream_write_spec _ _ _ _ _ _ H2) as (Hw2 & Hle2 & Hb2 & Hl2 & Hok2).
      intros H. inversion H; subst; clear H.
      rewrite skipn_length in Hle2, Hok2, Hl2.
      repeat split; try (exfalso; discriminate).
      * rewrite Hw2, Hw1, <- app_assoc. f_equal. apply firstn_add_skipn.
      * lia.
      * congruence.
      * intros Hr. specialize (Hok2 Hr). lia.
      * exists [length b - n1; length b]. rewrite Hl2, Hl1. reflexivity.
    + intros H. inversion H; subst; clear H. repeat split; auto; try (exfalso; discriminate).
      exists [length b]. now rewrite Hl1.
Qed.

(* ctxWriteCloser.Write *)
Lemma cw_Write_spec g orc cf st cs b st' cs' n e :
  cw_Write WCode g orc cf st cs b = (st', cs', n, e) ->
  w_wire st' = w_wire st ++ firstn n b /\ n <= length b /\ w_broken st' = w_broken st /\
  (e = ENone -> n = length b) /\ (exists l, w_log st' = l ++ w_log st).
Proof.
  unfold cw_Write. destruct (cw_write WCode g orc cf st cs b) as [[[st1 cs1] n1] r1] eqn:H1.
  pose proof (cw_write_count _ _ _ _ _ _ _ _ _ _ H1) as (Hw & Hle & Hb & Hok & Hl & _).
  intros H. inversion H; subst; clear H. repeat split; auto.
  destruct ((0 <? n) && (n <? length b)); [discriminate|].
  destruct r1; try discriminate. intros _. now apply Hok.
Qed.

(* streamCodec.Encode: [written] IS THE NUMBER OF BYTES OF THIS FRAME THE STREAM ACCEPTED, and
   they are a prefix of the frame's bytes *)
Lemma cw_encode_count g orc cf : forall bufs st cs w st' w' e,
  cw_encode WCode g orc cf bufs st cs w = (st', w', e) ->
  exists p, w_wire st' = w_wire st ++ p /\ is_prefix p (concat bufs) /\ w' = w + length p /\
            w_broken st' = w_broken st /\ (e = ENone -> p = concat bufs) /\
            (exists l, w_log st' = l ++ w_log st).
Proof.
  induction bufs as [|b rest IH]; intros st cs w st' w' e H; cbn [cw_encode] in H.
  - inversion H; subst. exists []. rewrite app_nil_r.
    repeat split; auto using is_prefix_nil; try lia. now exists [].
  - destruct (cw_Write WCode g orc cf st cs b) as [[[st1 cs1] n] e1] eqn:Hw.
    pose proof (cw_Write_spec _ _ _ _ _ _ _ _ _ _ Hw) as (Hwire & Hle & Hb & Hok & (l1 & Hl1)).
    assert (Hfail : e1 <> ENone -> (st1, w + n, e1) = (st', w', e) ->
      exists p, w_wire st' = w_wire st ++ p /\ is_prefix p (concat (b :: rest)) /\ w' = w + length p /\
            w_broken st' = w_broken st /\ (e = ENone -> p = concat (b :: rest)) /\
            (exists l, w_log st' = l ++ w_log st)).
    { intros Hne E. inversion E; subst; clear E. exists (firstn n b). cbn [concat].
      repeat split; auto.
      - apply is_prefix_app_r, firstn_is_prefix.
      - rewrite firstn_length. lia.
      - intros E; congruence.
      - now exists l1. }
    destruct e1; [| apply Hfail; [discriminate | exact H] | apply Hfail; [discriminate | exact H]].
    specialize (Hok eq_refl). subst n. rewrite firstn_all in Hwire.
    apply IH in H. destruct H as (p & Hwire' & Hp & Hw' & Hb' & Hok' & (l2 & Hl2)).
    exists (b ++ p). cbn [concat]. repeat split.
    + rewrite Hwire', Hwire, app_assoc. reflexivity.
    + now apply is_prefix_app.
    + rewrite app_length. lia.
    + congruence.
    + intros He. now rewrite (Hok' He).
    + exists (l2 ++ l1). rewrite Hl2, Hl1, app_assoc. reflexivity.
Qed.

Lemma is_prefix_length {A} (p l : list A) : is_prefix p l -> length p <= length l.
Proof. intros [s ->]. rewrite app_length. lia. Qed.

Lemma is_prefix_full {A} (p l : list A) : is_prefix p l -> length p = length l -> p = l.
Proof.
  intros [s ->] H. rewrite app_length in H. assert (length s = 0) by lia.
  destruct s; [now rewrite app_nil_r | discriminate].
Qed.

(* one NewMessage + send on a healthy stream: p = the bytes of this frame the stream accepted.
   TORN <-> STICKY ERROR, precisely:
     - torn p f -> transport.err is set;
     - transport.err is set <-> the send failed and the stream accepted at least one byte of the frame;
     - hence transport.err set and not torn happens only when the WHOLE frame was accepted and the
       last stream call nevertheless reported an error (the peer has a complete frame; stopping
       is still the safe decision) *)
Lemma cw_send_spec g orc o st st' r :
  w_broken st = false -> cw_send WCode g orc o st = (st', r) ->
  exists p, w_wire st' = w_wire st ++ p /\ is_prefix p (frame_bytes (wop_frame o)) /\
    (r = SOk \/ r = SErr) /\
    (r = SOk -> p = frame_bytes (wop_frame o) /\ w_broken st' = false) /\
    (w_broken st' = true <-> (r = SErr /\ 0 < length p)) /\
    (torn p (wop_frame o) -> w_broken st' = true) /\
    (w_broken st' = true -> torn p (wop_frame o) \/ (p = frame_bytes (wop_frame o) /\ r = SErr)).
Proof.
  intros Hb H. destruct o as [[c0 cf] f]. unfold cw_send in H. rewrite Hb in H.
  unfold wop_frame, snd, torn.
  destruct c0.
  - inversion H; subst; clear H. exists []. rewrite app_nil_r.
    split; [reflexivity|]. split; [apply is_prefix_nil|]. split; [now right|].
    split; [discriminate|].
    split; [split; [congruence | intros [_ Hp]; cbn in Hp; lia]|].
    split; [intros [Hp _]; cbn in Hp; lia | congruence].
  - destruct (cw_encode WCode g orc cf f st (mkC false 0) 0) as [[st1 w] e] eqn:He.
    apply cw_encode_count in He. destruct He as (p & Hwire & Hp & Hw & Hbr & Hok & _).
    cbn in Hw. subst w.
    pose proof (is_prefix_length _ _ Hp) as Hlen.
    assert (Hfail : e <> ENone -> (mkW (w_wire st1) (w_log st1) (0 <? length p), SErr) = (st', r) ->
      exists p, w_wire st' = w_wire st ++ p /\ is_prefix p (frame_bytes f) /\
        (r = SOk \/ r = SErr) /\
        (r = SOk -> p = frame_bytes f /\ w_broken st' = false) /\
        (w_broken st' = true <-> (r = SErr /\ 0 < length p)) /\
        (0 < length p /\ length p < length (frame_bytes f) -> w_broken st' = true) /\
        (w_broken st' = true -> (0 < length p /\ length p < length (frame_bytes f)) \/
                                (p = frame_bytes f /\ r = SErr))).
    { intros Hne E. inversion E; subst; clear E. exists p. cbn [w_wire w_broken].
      split; [exact Hwire|]. split; [exact Hp|]. split; [now right|]. split; [discriminate|].
      split; [split; [intros Hx; split; [reflexivity | now apply Nat.ltb_lt]
                     | intros [_ Hpos]; now apply Nat.ltb_lt] |].
      split; [intros [Hpos _]; now apply Nat.ltb_lt|].
      intros Hpos. apply Nat.ltb_lt in Hpos.
      destruct (Nat.eq_dec (length p) (length (frame_bytes f))) as [E|E].
      + right. split; auto. now apply is_prefix_full.
      + left. unfold frame_bytes in *. lia. }
    destruct e; [| apply Hfail; [discriminate | exact H] | apply Hfail; [discriminate | exact H]].
    inversion H; subst; clear H. specialize (Hok eq_refl). subst p.
    exists (frame_bytes f).
    split; [exact Hwire|]. split; [apply is_prefix_refl|]. split; [now left|].
    split; [intros _; split; [reflexivity | congruence]|].
    split; [split; [intros Hx; congruence | intros [Hx _]; discriminate]|].
    split; [intros [_ Hlt]; unfold frame_bytes in *; lia | intros Hx; congruence].
Qed.

(* once the sticky error is set: every later NewMessage fails, NO Write call is made on the
   stream (the call log, hence every byte handed over, is unchanged) and the wire is unchanged
   -- for either variant *)
Lemma cw_broken_sticky v g orc : forall ops st,
  w_broken st = true -> cw_run_from v g orc st ops = (st, map (fun _ => SNmErr) ops).
Proof.
  induction ops as [|[[c0 cf] f] rest IH]; intros st Hb; cbn; auto.
  rewrite Hb. rewrite (IH st Hb). reflexivity.
Qed.

Lemma cw_run_from_wf g orc : forall ops st done0 st' rs,
  w_broken st = false -> w_wire st = concat (map frame_bytes done0) ->
  cw_run_from WCode g orc st ops = (st', rs) ->
  exists done tail,
    w_wire st' = concat (map frame_bytes (done0 ++ done)) ++ tail /\
    subseq done (map wop_frame ops) /\
    (w_broken st' = false -> tail = []) /\
    (tail <> [] -> exists f, In f (map wop_frame ops) /\ is_prefix tail (frame_bytes f)).
Proof.
  induction ops as [|o rest IH]; intros st done0 st' rs Hb Hw H; cbn [cw_run_from] in H.
  - inversion H; subst. exists [], []. rewrite !app_nil_r. repeat split; auto.
    + constructor.
    + congruence.
  - destruct (cw_send WCode g orc o st) as [st1 r] eqn:Hs.
    destruct (cw_run_from WCode g orc st1 rest) as [st2 rs2] eqn:Hr.
    inversion H; subst; clear H.
    destruct (cw_send_spec _ _ _ _ _ _ Hb Hs) as (p & Hw1 & Hp & Hr01 & Hok & Hbr & _ & _).
    destruct (w_broken st1) eqn:Hb1.
    + (* torn (or failed after the last byte): nothing follows *)
      rewrite (cw_broken_sticky _ _ _ _ _ Hb1) in Hr. inversion Hr; subst; clear Hr.
      destruct (proj1 Hbr eq_refl) as [_ Hpos].
      exists [], p. rewrite app_nil_r. cbn [map]. repeat split; auto.
      * now rewrite Hw1, Hw.
      * constructor.
      * congruence.
      * intros _. exists (wop_frame o). split; [now left | exact Hp].
    + destruct Hr01 as [-> | ->].
      * destruct (Hok eq_refl) as [-> _].
        assert (Hw1' : w_wire st1 = concat (map frame_bytes (done0 ++ [wop_frame o]))).
        { rewrite Hw1, Hw, map_app, concat_app. cbn. now rewrite app_nil_r. }
        destruct (IH _ _ _ _ Hb1 Hw1' Hr) as (done & tail & Hwire & Hsub & Htl & Hpre).
        exists (wop_frame o :: done), tail. cbn [map]. repeat split; auto.
        -- rewrite Hwire. rewrite <- app_assoc. reflexivity.
        -- now constructor.
        -- intros Hn. destruct (Hpre Hn) as (f & Hin & Hf). exists f. split; auto. now right.
      * (* failed without a byte of this frame on the wire *)
        assert (Hp0 : p = []).
        { destruct p; auto. exfalso.
          assert (Hx : false = true) by (apply Hbr; split; auto; cbn; lia). discriminate. }
        subst p. rewrite app_nil_r in Hw1.
        assert (Hw1' : w_wire st1 = concat (map frame_bytes done0)) by congruence.
        destruct (IH _ _ _ _ Hb1 Hw1' Hr) as (done & tail & Hwire & Hsub & Htl & Hpre).
        exists done, tail. cbn [map]. repeat split; auto.
        -- now constructor.
        -- intros Hn. destruct (Hpre Hn) as (f & Hin & Hf). exists f. split; auto. now right.
Qed.

(* THE theorem at byte granularity: for every configuration (deadline support or not, grace
   period or not), every stream oracle, every context oracle and every message sequence, the
   bytes the stream accepted are whole frames (a subsequence of the frames sent, in order) plus
   at most one torn frame, a torn frame is there only with the sticky error set, and once it is
   set every later NewMessage fails and no Write call at all is made on the stream *)
Theorem torn_write_stops_stream_bytes : forall g orc ops st rs,
  cw_run WCode g orc ops = (st, rs) ->
  w_well_framed (map wop_frame ops) st /\
  (w_broken st = true ->
     forall more, cw_run_from WCode g orc st more = (st, map (fun _ => SNmErr) more)).
Proof.
  intros g orc ops st rs H. split.
  - unfold cw_run in H.
    destruct (cw_run_from_wf g orc ops w_init [] st rs eq_refl eq_refl H)
      as (done & tail & Hw & Hs & Ht & Hp).
    exists done, tail. repeat split; auto.
  - intros Hb more. now apply cw_broken_sticky.
Qed.

Lemma cw_run_from_app v g orc : forall a s b sa ra, cw_run_from v g orc s a = (sa, ra) ->
  cw_run_from v g orc s (a ++ b) =
  (fst (cw_run_from v g orc sa b), ra ++ snd (cw_run_from v g orc sa b)).
Proof.
  induction a as [|o a IH]; intros s b sa ra Ha; cbn [cw_run_from app] in *.
  - inversion Ha; subst. now destruct (cw_run_from v g orc sa b).
  - destruct (cw_send v g orc o s) as [s1 r1].
    destruct (cw_run_from v g orc s1 a) as [s2 r2] eqn:E. inversion Ha; subst.
    rewrite (IH _ b _ _ E). reflexivity.
Qed.

(* explicit form: a send that leaves the frame torn -- the stream accepted 0 < |p| < |frame|
   bytes, WHEREVER the tear is: inside the first buffer (the 8-byte header) with or without
   progress in the grace period, at a buffer boundary, inside a later buffer -- fails, and after
   it the stream sees nothing: same wire, same call log (not a single further Write call), every
   later operation returns the NewMessage error *)
Theorem after_torn_frame_nothing_handed : forall g orc ops1 o ops2 st1 rs1 st2 r,
  cw_run WCode g orc ops1 = (st1, rs1) -> w_broken st1 = false ->
  cw_send WCode g orc o st1 = (st2, r) ->
  (exists p, w_wire st2 = w_wire st1 ++ p /\ torn p (wop_frame o)) ->
  cw_run WCode g orc (ops1 ++ o :: ops2) = (st2, rs1 ++ SErr :: map (fun _ => SNmErr) ops2) /\
  w_broken st2 = true.
Proof.
  intros g orc ops1 o ops2 st1 rs1 st2 r H1 Hb Hs (p & Hwp & Ht).
  destruct (cw_send_spec _ _ _ _ _ _ Hb Hs) as (p' & Hw' & _ & _ & _ & Hbr & Htorn & _).
  assert (p' = p) by (rewrite Hw' in Hwp; now apply app_inv_head in Hwp). subst p'.
  specialize (Htorn Ht). destruct (proj1 Hbr Htorn) as [-> _].
  split; auto. unfold cw_run in *.
  rewrite (cw_run_from_app _ _ _ _ _ _ _ _ H1). cbn [cw_run_from]. rewrite Hs.
  rewrite (cw_broken_sticky _ _ _ _ _ Htorn). reflexivity.
Qed.

(* ---- non-vacuity ----------------------------------------------------------- *)
Local Open Scope Z_scope.
Definition hdr1 : list Z := [0;0;0;0;2;0;0;0].
Definition fA : frame := [hdr1; [1;2;3;4;5;6;7;8;9;10;11;12;13;14;15;16]].
Definition fB : frame := [hdr1; [21;22;23;24;25;26;27;28;29;30;31;32;33;34;35;36]].

(* the seeded scenario on the code as it is: 3 header bytes, context deadline, grace period
   elapses with no progress: (3, timeout) -> sticky error, nothing follows *)
Example torn_in_header_example :
  cw_run_tbl WCode true true [(0%nat, SoTmo 3); (1%nat, SoTmo 0)] [(MDeadline, fA); (MLive, fB)]
  = ([0;0;0], [8%nat; 5%nat], true, [SErr; SNmErr]).
Proof. vm_compute. reflexivity. Qed.

(* partial progress in the grace period *)
Example torn_in_header_progress_example :
  cw_run_tbl WCode true true [(0%nat, SoTmo 3); (1%nat, SoTmo 2)] [(MDeadline, fA); (MLive, fB)]
  = ([0;0;0;0;2], [8%nat; 5%nat], true, [SErr; SNmErr]).
Proof. vm_compute. reflexivity. Qed.

(* the grace period completes the header, but the context is done: the segment is never
   written, the frame is torn at the buffer boundary *)
Example grace_completes_header_only_example :
  cw_run_tbl WCode true true [(0%nat, SoTmo 3)] [(MCancelAt 0, fA); (MLive, fB)]
  = (hdr1, [8%nat; 5%nat], true, [SErr; SNmErr]).
Proof. vm_compute. reflexivity. Qed.

(* a time-out of the stream's own with a live context: the grace period saves the frame *)
Example grace_saves_frame_example :
  cw_run_tbl WCode true true [(0%nat, SoTmo 3)] [(MLive, fA); (MLive, fB)]
  = (frame_bytes fA ++ frame_bytes fB, [8%nat; 5%nat; 16%nat; 8%nat; 16%nat], false, [SOk; SOk]).
Proof. vm_compute. reflexivity. Qed.

Example after_torn_hyps_satisfiable :
  exists g orc ops1 o st1 rs1 st2 r,
    cw_run WCode g orc ops1 = (st1, rs1) /\ w_broken st1 = false /\
    cw_send WCode g orc o st1 = (st2, r) /\
    (exists p, w_wire st2 = w_wire st1 ++ p /\ torn p (wop_frame o)).
Proof.
  exists (mkCfg true true), (worc_of [(2%nat, SoTmo 3); (3%nat, SoTmo 0)]),
    [wop_of (MLive, fB)], (wop_of (MDeadline, fA)).
  eexists. eexists. eexists. eexists.
  split; [vm_compute; reflexivity|]. split; [reflexivity|].
  split; [vm_compute; reflexivity|].
  exists [0;0;0]. split; [reflexivity|]. unfold torn. cbn. lia.
Qed.

(* ---- the seeded change C09-r5-2 is refuted ---------------------------------- *)
(* the count is no longer the number of accepted bytes ... *)
Example cw_write_count_seeded_refuted :
  exists g orc cf st cs b st' cs' n r,
    cw_write WSeeded g orc cf st cs b = (st', cs', n, r) /\
    w_wire st' <> w_wire st ++ firstn n b.
Proof.
  exists (mkCfg true true), (worc_of [(0%nat, SoTmo 3); (1%nat, SoTmo 0)]), (cf_of MDeadline),
    w_init, (mkC false 0), hdr1.
  eexists. eexists. eexists. eexists. split; [vm_compute; reflexivity|].
  vm_compute. discriminate.
Qed.

(* ... so 3 of 8 header bytes are on the wire, no sticky error, and the next frame follows *)
Example seeded_sends_after_torn_header :
  cw_run_tbl WSeeded true true [(0%nat, SoTmo 3); (1%nat, SoTmo 0)] [(MDeadline, fA); (MLive, fB)]
  = ([0;0;0] ++ frame_bytes fB, [8%nat; 5%nat; 8%nat; 16%nat], false, [SErr; SOk]).
Proof. vm_compute. reflexivity. Qed.

Example after_torn_frame_nothing_handed_seeded_refuted :
  ~ (forall g orc ops1 o ops2 st1 rs1 st2 r,
      cw_run WSeeded g orc ops1 = (st1, rs1) -> w_broken st1 = false ->
      cw_send WSeeded g orc o st1 = (st2, r) ->
      (exists p, w_wire st2 = w_wire st1 ++ p /\ torn p (wop_frame o)) ->
      cw_run WSeeded g orc (ops1 ++ o :: ops2) = (st2, rs1 ++ SErr :: map (fun _ => SNmErr) ops2) /\
      w_broken st2 = true).
Proof.
  intros H.
  specialize (H (mkCfg true true) (worc_of [(0%nat, SoTmo 3); (1%nat, SoTmo 0)]) []
                (wop_of (MDeadline, fA)) [wop_of (MLive, fB)] w_init []
                (mkW [0;0;0] [5%nat; 8%nat] false) SErr eq_refl eq_refl).
  assert (Hs : cw_send WSeeded (mkCfg true true) (worc_of [(0%nat, SoTmo 3); (1%nat, SoTmo 0)])
                 (wop_of (MDeadline, fA)) w_init = (mkW [0;0;0] [5%nat; 8%nat] false, SErr))
    by (vm_compute; reflexivity).
  specialize (H Hs).
  destruct H as [_ Hb].
  - exists [0;0;0]. split; [reflexivity|]. unfold torn. cbn. lia.
  - discriminate.
Qed.
