(* Proofs about the transport model: after a torn write the stream stops (VFixed); the code as
   found (VFound) and the naive repair (VUnwrap) are refuted by concrete fault schedules. *)
From Coq Require Import List ZArith Bool Arith Lia.
From CV Require Import Transport.Transport.
Import ListNotations.

Lemma is_prefix_nil {A} (l : list A) : is_prefix [] l.
Proof. exists l. reflexivity. Qed.

Lemma is_prefix_refl {A} (l : list A) : is_prefix l l.
Proof. exists []. now rewrite app_nil_r. Qed.

Lemma is_prefix_app {A} (a p l : list A) : is_prefix p l -> is_prefix (a ++ p) (a ++ l).
Proof. intros [s ->]. exists s. now rewrite app_assoc. Qed.

Lemma is_prefix_app_r {A} (p l m : list A) : is_prefix p l -> is_prefix p (l ++ m).
Proof. intros [s ->]. exists (s ++ m). now rewrite app_assoc. Qed.

Lemma firstn_is_prefix {A} n (l : list A) : is_prefix (firstn n l) l.
Proof. exists (skipn n l). symmetry. apply firstn_skipn. Qed.

Lemma ctxw_write_le o b n e : ctxw_write o b = (n, e) -> n <= length b.
Proof.
  destruct o; unfold ctxw_write; cbv zeta; intros H; inversion H; subst; try lia.
Qed.

Lemma ctxw_write_ok o b n : ctxw_write o b = (n, ENone) -> n = length b.
Proof.
  destruct o; unfold ctxw_write; cbv zeta; intros H.
  - now inversion H.
  - destruct ((0 <? Nat.min n0 (length b)) && (Nat.min n0 (length b) <? length b)); discriminate.
  - discriminate.
Qed.

Lemma ctxw_write_partial o b n : ctxw_write o b = (n, EPartial) -> 0 < n.
Proof.
  destruct o; unfold ctxw_write; cbv zeta; intros H; try discriminate.
  destruct (0 <? Nat.min n0 (length b)) eqn:E; cbn [andb] in H.
  - apply Nat.ltb_lt in E.
    destruct (Nat.min n0 (length b) <? length b); inversion H; subst; exact E.
  - discriminate.
Qed.

(* what one Encode does to the wire *)
Lemma encode_bufs_spec orc : forall bufs st w st' w' e,
  encode_bufs orc bufs st w = (st', w', e) ->
  exists p, wire st' = wire st ++ p /\ is_prefix p (concat bufs) /\ w' = w + length p /\
            broken st' = broken st /\ (e = ENone -> p = concat bufs) /\
            (e = EPartial -> 0 < length p).
Proof.
  induction bufs as [|b rest IH]; intros st w st' w' e H; cbn in H.
  - inversion H; subst. exists []. rewrite app_nil_r. repeat split; auto using is_prefix_nil; try lia.
    discriminate.
  - destruct (ctxw_write (orc (nw st)) b) as [n e1] eqn:Hw.
    pose proof (ctxw_write_le _ _ _ _ Hw) as Hle.
    destruct e1.
    + apply ctxw_write_ok in Hw. subst n. rewrite firstn_all in H.
      apply IH in H. destruct H as (p & Hwire & Hp & Hw' & Hb & Hok & Hpart). cbn in *.
      exists (b ++ p). rewrite Hwire, app_assoc. repeat split; auto.
      * now apply is_prefix_app.
      * rewrite app_length. lia.
      * intros ->. now rewrite Hok.
      * intros He. specialize (Hpart He). rewrite app_length. lia.
    + inversion H; subst; clear H. cbn. exists (firstn n b). repeat split; auto.
      * apply is_prefix_app_r, firstn_is_prefix.
      * rewrite firstn_length. lia.
      * discriminate.
      * discriminate.
    + inversion H; subst; clear H. cbn. exists (firstn n b). repeat split; auto.
      * apply is_prefix_app_r, firstn_is_prefix.
      * rewrite firstn_length. lia.
      * discriminate.
      * intros _. apply ctxw_write_partial in Hw. rewrite firstn_length. lia.
Qed.

(* one NewMessage+send on a healthy stream (fixed code) *)
Lemma send1_fixed_spec orc c f st st' r :
  broken st = false -> send1 VFixed orc c f st = (st', r) ->
  (r = SOk /\ wire st' = wire st ++ frame_bytes f /\ broken st' = false) \/
  (r = SErr /\ exists p, wire st' = wire st ++ p /\ is_prefix p (frame_bytes f) /\
               (p = [] -> broken st' = false) /\ (p <> [] -> broken st' = true)).
Proof.
  intros Hb H. unfold send1 in H. rewrite Hb in H.
  destruct c.
  - inversion H; subst. right. split; auto. exists []. rewrite app_nil_r.
    repeat split; auto using is_prefix_nil; congruence.
  - destruct (encode_bufs orc f st 0) as [[st1 w] e] eqn:He.
    apply encode_bufs_spec in He. destruct He as (p & Hwire & Hp & Hw & Hbr & Hok & _).
    destruct e.
    + inversion H; subst. left. specialize (Hok eq_refl). subst p. repeat split; auto.
      congruence.
    + inversion H; subst; clear H. right. split; auto. exists p. cbn. repeat split; auto.
      * intros ->. reflexivity.
      * intros Hne. destruct p; [congruence|]. reflexivity.
    + inversion H; subst; clear H. right. split; auto. exists p. cbn. repeat split; auto.
      * intros ->. reflexivity.
      * intros Hne. destruct p; [congruence|]. reflexivity.
Qed.

(* a short write (0 < n < len) always breaks the stream, in the fixed code *)
Lemma short_write_sets_broken orc f st st1 w :
  broken st = false -> encode_bufs orc f st 0 = (st1, w, EPartial) ->
  broken (fst (send1 VFixed orc false f st)) = true.
Proof.
  intros Hb He. unfold send1. rewrite Hb, He. cbn [fst broken sets_broken].
  apply encode_bufs_spec in He. destruct He as (p & _ & _ & Hw & _ & _ & Hpart).
  specialize (Hpart eq_refl). apply Nat.ltb_lt. lia.
Qed.

(* once broken, every later NewMessage fails and nothing reaches the wire (any variant) *)
Lemma broken_sticky v orc : forall ops st,
  broken st = true -> run_from v orc st ops = (st, map (fun _ => SNmErr) ops).
Proof.
  induction ops as [|[c f] rest IH]; intros st Hb; cbn; auto.
  unfold send1. rewrite Hb. rewrite (IH st Hb). reflexivity.
Qed.

Lemma subseq_refl_nil {A} (l : list A) : subseq [] l.
Proof. constructor. Qed.

Lemma run_from_fixed_wf orc : forall ops st done0 st' rs,
  broken st = false -> wire st = concat (map frame_bytes done0) ->
  run_from VFixed orc st ops = (st', rs) ->
  exists done tail,
    wire st' = concat (map frame_bytes (done0 ++ done)) ++ tail /\
    subseq done (map snd ops) /\
    (broken st' = false -> tail = []) /\
    (tail <> [] -> exists f, In f (map snd ops) /\ is_prefix tail (frame_bytes f)).
Proof.
  induction ops as [|[c f] rest IH]; intros st done0 st' rs Hb Hw H; cbn in H.
  - inversion H; subst. exists [], []. rewrite !app_nil_r. repeat split; auto.
    + constructor.
    + congruence.
  - destruct (send1 VFixed orc c f st) as [st1 r] eqn:Hs.
    destruct (run_from VFixed orc st1 rest) as [st2 rs2] eqn:Hr.
    inversion H; subst; clear H.
    destruct (send1_fixed_spec _ _ _ _ _ _ Hb Hs) as [(-> & Hw1 & Hb1) | (-> & p & Hw1 & Hp & Hnil & Hne)].
    + assert (Hw1' : wire st1 = concat (map frame_bytes (done0 ++ [f]))).
      { rewrite Hw1, Hw, map_app, concat_app. cbn. now rewrite app_nil_r. }
      destruct (IH _ _ _ _ Hb1 Hw1' Hr) as (done & tail & Hwire & Hsub & Htl & Hpre).
      exists (f :: done), tail. repeat split; auto.
      * rewrite Hwire. rewrite <- app_assoc. reflexivity.
      * cbn. now constructor.
      * intros Hn. destruct (Hpre Hn) as (g & Hin & Hg). exists g. split; auto. now right.
    + destruct p as [|x p].
      * rewrite app_nil_r in Hw1. specialize (Hnil eq_refl).
        assert (Hw1' : wire st1 = concat (map frame_bytes done0)) by congruence.
        destruct (IH _ _ _ _ Hnil Hw1' Hr) as (done & tail & Hwire & Hsub & Htl & Hpre).
        exists done, tail. repeat split; auto.
        -- cbn. now constructor.
        -- intros Hn. destruct (Hpre Hn) as (g & Hin & Hg). exists g. split; auto. now right.
      * assert (Hb1 : broken st1 = true) by (apply Hne; discriminate).
        rewrite (broken_sticky _ _ _ _ Hb1) in Hr. inversion Hr; subst; clear Hr.
        exists [], (x :: p). rewrite app_nil_r. repeat split; auto.
        -- now rewrite Hw1, Hw.
        -- constructor.
        -- congruence.
        -- intros _. exists f. split; [now left | exact Hp].
Qed.

(* THE theorem: for every message sequence and every fault schedule the wire of the fixed code
   is whole frames plus at most one torn frame, and once a frame is torn (stream broken) every
   later NewMessage/send fails without writing a byte. *)
Theorem torn_write_stops_stream_fixed : forall orc ops st rs,
  run VFixed orc ops = (st, rs) ->
  well_framed (map snd ops) st /\
  (broken st = true -> forall more, run_from VFixed orc st more = (st, map (fun _ => SNmErr) more)).
Proof.
  intros orc ops st rs H. split.
  - unfold run in H.
    destruct (run_from_fixed_wf orc ops t_init [] st rs eq_refl eq_refl H)
      as (done & tail & Hw & Hs & Ht & Hp).
    exists done, tail. repeat split; auto.
  - intros Hb more. now apply broken_sticky.
Qed.

Lemma run_from_app v orc : forall a s b sa ra, run_from v orc s a = (sa, ra) ->
  run_from v orc s (a ++ b) =
  (fst (run_from v orc sa b), ra ++ snd (run_from v orc sa b)).
Proof.
  induction a as [|[c g] a IH]; intros s b sa ra Ha; cbn in *.
  - inversion Ha; subst. now destruct (run_from v orc sa b).
  - destruct (send1 v orc c g s) as [s1 r1].
    destruct (run_from v orc s1 a) as [s2 r2] eqn:E. inversion Ha; subst.
    rewrite (IH _ b _ _ E). reflexivity.
Qed.

(* a short write is followed by no byte at all: explicit form for one torn write *)
Theorem after_short_write_nothing_written : forall orc ops1 f ops2 st1 rs1 st1' w,
  run VFixed orc ops1 = (st1, rs1) -> broken st1 = false ->
  encode_bufs orc f st1 0 = (st1', w, EPartial) ->
  forall st rs, run VFixed orc (ops1 ++ (false, f) :: ops2) = (st, rs) ->
  wire st = wire st1' /\ rs = rs1 ++ SErr :: map (fun _ => SNmErr) ops2.
Proof.
  intros orc ops1 f ops2 st1 rs1 st1' w H1 Hb He st rs H.
  unfold run in *.
  rewrite (run_from_app _ _ _ _ _ _ _ H1) in H.
  pose proof (encode_bufs_spec _ _ _ _ _ _ _ He) as (p & _ & _ & Hw & _ & _ & Hpart).
  specialize (Hpart eq_refl).
  assert (Hbr : sets_broken VFixed w EPartial = true) by (cbn [sets_broken]; apply Nat.ltb_lt; lia).
  assert (Hs : send1 VFixed orc false f st1 = (mkT (wire st1') (nw st1') true, SErr)).
  { unfold send1. rewrite Hb, He, Hbr. reflexivity. }
  cbn [run_from] in H. rewrite Hs in H.
  rewrite (broken_sticky VFixed orc ops2 (mkT (wire st1') (nw st1') true) eq_refl) in H.
  cbn [fst snd wire] in H. inversion H; subst. split; reflexivity.
Qed.

Local Open Scope Z_scope.
(* non-vacuity *)
Example torn_example :
  run_tbl VFixed [(1%nat, WErr 2)] [(false, [[0;0]; [1;2;3;4]]); (false, [[0;0]; [5;6;7;8]])]
  = ([0;0;1;2], [SErr; SNmErr]).
Proof. vm_compute. reflexivity. Qed.

(* ---- refutations of the pre-fix variants ---------------------------------- *)
Definition f1 : frame := [[1;2;3;4]].
Definition f2 : frame := [[5;6;7;8]].

Lemma subseq_two_cases (f1 f2 : frame) (d : list frame) : subseq d [f1; f2] ->
  d = [] \/ d = [f1] \/ d = [f2] \/ d = [f1; f2].
Proof.
  intros H. inversion H as [ | x l1 l2 H2 | x l1 l2 H2]; subst; auto;
    inversion H2 as [ | y m1 m2 H3 | y m1 m2 H3]; subst; auto 6;
    inversion H3; subst; auto 6.
Qed.

(* F18: the code as found never marks the stream broken, so a second message follows the
   torn one and the peer parses garbage *)
Example torn_write_stops_stream_found_refuted :
  exists orc ops st rs, run VFound orc ops = (st, rs) /\ ~ well_framed (map snd ops) st.
Proof.
  exists (orc_of [(0%nat, WErr 2)]), [(false, f1); (false, f2)].
  eexists. eexists. split; [vm_compute; reflexivity|].
  intros (done & tail & Hw & Hs & Ht & _). cbn in *.
  specialize (Ht eq_refl). subst tail. rewrite app_nil_r in Hw.
  destruct (subseq_two_cases _ _ _ Hs) as [->|[->|[->| ->]]]; vm_compute in Hw; discriminate.
Qed.

Example found_sends_after_torn_write :
  run_tbl VFound [(0%nat, WErr 2)] [(false, f1); (false, f2)] = ([1;2;5;6;7;8], [SErr; SOk]).
Proof. vm_compute. reflexivity. Qed.

(* making the assertion see through the wrapping is not enough: an error with n = 0 on the
   segment write leaves a bare header on the wire and the stream goes on *)
Example torn_write_stops_stream_unwrap_refuted :
  exists orc ops st rs, run VUnwrap orc ops = (st, rs) /\ ~ well_framed (map snd ops) st.
Proof.
  exists (orc_of [(1%nat, WErr 0)]), [(false, [[9;9]; [1;2;3;4]]); (false, [[9;9]; [5;6;7;8]])].
  eexists. eexists. split; [vm_compute; reflexivity|].
  intros (done & tail & Hw & Hs & Ht & _). cbn in *.
  specialize (Ht eq_refl). subst tail. rewrite app_nil_r in Hw.
  destruct (subseq_two_cases _ _ _ Hs) as [->|[->|[->| ->]]]; vm_compute in Hw; discriminate.
Qed.
