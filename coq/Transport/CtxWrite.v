(* C09 / Transport -- byte-level model of rpc/transport.go's write path over a stream ORACLE.

   Modelled code (same checks, same order):
     ctxWriteCloser.write   early cancel check (ctx.Done -> (0, ctx.Err()) without touching the stream);
                            no SetWriteDeadline support -> plain Write;
                            first Write of b under the context's deadline (n, err);
                            if partialWriteTimeout <= 0 || n == 0 || !isTimeout(err) -> (n, err);
                            grace period: second Write of b[n:] under partialWriteTimeout (nn, err2);
                            return (n + nn, err2)
     ctxWriteCloser.Write   n, err := write(b); written += n; 0 < n < len(b) -> partialWriteError
     Encoder.Encode         net.Buffers.WriteTo over a plain io.Writer: one Write per buffer
                            (header, then each segment), stops at the first error
     streamCodec.Encode     written = 0; err != nil && written > 0 -> partialWriteError
     transport.NewMessage / send closure   sticky transport.err, ctx.Err() check

   The STREAM is an oracle: the outcome of the i-th Write call on the underlying stream (counted
   over the whole life of the transport, grace-period calls included) is any of
     SoOk        every byte handed over is accepted, nil error     (io.Writer contract: a nil error
                                                                    means everything was written)
     SoTmo k     min k len bytes are accepted, then a timeout error (net.Error with Timeout())
     SoFail k    min k len bytes are accepted, then any other error
   The CONTEXT is an oracle too: [ctxfun] says, for every stream call of a send (index inside the
   send, its outcome, grace-period call or not), whether the send context is done once that call
   has returned; being done is monotone.  Nothing ties the two oracles together, so every real
   combination (deadline expiry = timeout of the first Write, cancellation by another goroutine
   during any call, a stream with time-outs of its own, ...) is an instance.

   Variants:
     WCode    the code as it is
     WSeeded  seeded change C09-r5-2: on the error path of the grace-period Write the bytes
              accepted by the first Write are dropped from the count (return nn, err). *)
From Coq Require Import List ZArith Bool Arith Lia.
From CV Require Import Transport.Transport.
Import ListNotations.

Inductive sout := SoOk | SoTmo (k : nat) | SoFail (k : nat).
Inductive rkind := ROk | RTmo | RFail | RCtx.

Definition so_kind (o : sout) : rkind :=
  match o with SoOk => ROk | SoTmo _ => RTmo | SoFail _ => RFail end.
Definition so_acc (o : sout) (len : nat) : nat :=
  match o with SoOk => len | SoTmo k => Nat.min k len | SoFail k => Nat.min k len end.
Definition is_tmo (r : rkind) : bool := match r with RTmo => true | _ => false end.

(* w_wire: every byte the stream accepted, in order; w_log: the length of the slice handed to
   every Write call made on the stream, newest first; w_broken: the sticky transport.err *)
Record wst := mkW { w_wire : list Z; w_log : list nat; w_broken : bool }.
Definition w_init : wst := mkW [] [] false.
Definition w_calls (st : wst) : nat := length (w_log st).

(* one Write call on the underlying stream *)
Definition stream_write (orc : nat -> sout) (st : wst) (b : list Z) : wst * nat * rkind :=
  let o := orc (w_calls st) in
  let k := so_acc o (length b) in
  (mkW (w_wire st ++ firstn k b) (length b :: w_log st) (w_broken st), k, so_kind o).

(* c_dl: the stream has a working SetWriteDeadline; c_pwt: partialWriteTimeout > 0 *)
Record wcfg := mkCfg { c_dl : bool; c_pwt : bool }.
Inductive wvariant := WCode | WSeeded.

Definition ctxfun := nat -> sout -> bool -> bool.
Record cst := mkC { c_done : bool; c_idx : nat }.
Definition c_step (cf : ctxfun) (cs : cst) (o : sout) (grace : bool) : cst :=
  mkC (c_done cs || cf (c_idx cs) o grace) (S (c_idx cs)).

(* ctxWriteCloser.write *)
Definition cw_write (v : wvariant) (g : wcfg) (orc : nat -> sout) (cf : ctxfun)
  (st : wst) (cs : cst) (b : list Z) : wst * cst * nat * rkind :=
  if c_done cs then (st, cs, 0, RCtx)
  else
    let o1 := orc (w_calls st) in
    let '(st1, n, r) := stream_write orc st b in
    let cs1 := c_step cf cs o1 false in
    if c_dl g && c_pwt g && (0 <? n) && is_tmo r then
      let o2 := orc (w_calls st1) in
      let '(st2, nn, r2) := stream_write orc st1 (skipn n b) in
      let cs2 := c_step cf cs1 o2 true in
      (st2, cs2,
       match v with
       | WCode => n + nn
       | WSeeded => match r2 with ROk => n + nn | _ => nn end
       end, r2)
    else (st1, cs1, n, r).

(* ctxWriteCloser.Write *)
Definition cw_Write (v : wvariant) (g : wcfg) (orc : nat -> sout) (cf : ctxfun)
  (st : wst) (cs : cst) (b : list Z) : wst * cst * nat * werr :=
  let '(st', cs', n, r) := cw_write v g orc cf st cs b in
  (st', cs', n,
   if (0 <? n) && (n <? length b) then EPartial
   else match r with ROk => ENone | _ => EPlain end).

(* Encoder.Encode's write loop with ctxWriteCloser.written *)
Fixpoint cw_encode (v : wvariant) (g : wcfg) (orc : nat -> sout) (cf : ctxfun)
  (bufs : frame) (st : wst) (cs : cst) (written : nat) : wst * nat * werr :=
  match bufs with
  | [] => (st, written, ENone)
  | b :: rest =>
      let '(st', cs', n, e) := cw_Write v g orc cf st cs b in
      match e with
      | ENone => cw_encode v g orc cf rest st' cs' (written + n)
      | _ => (st', written + n, e)
      end
  end.

(* one message: (context already done when send is called, context oracle, buffers) *)
Definition wop := (bool * ctxfun * frame)%type.
Definition wop_frame (o : wop) : frame := snd o.

(* NewMessage + send closure (streamCodec.Encode's decision inlined: a failed Encode with
   written > 0 is a partialWriteError, which sets the sticky transport.err) *)
Definition cw_send (v : wvariant) (g : wcfg) (orc : nat -> sout) (o : wop) (st : wst)
  : wst * sres :=
  let '(c0, cf, f) := o in
  if w_broken st then (st, SNmErr)
  else if c0 then (st, SErr)
  else
    let '(st', w, e) := cw_encode v g orc cf f st (mkC false 0) 0 in
    match e with
    | ENone => (st', SOk)
    | _ => (mkW (w_wire st') (w_log st') (0 <? w), SErr)
    end.

Fixpoint cw_run_from (v : wvariant) (g : wcfg) (orc : nat -> sout) (st : wst) (ops : list wop)
  : wst * list sres :=
  match ops with
  | [] => (st, [])
  | o :: rest =>
      let '(st1, r) := cw_send v g orc o st in
      let '(st2, rs) := cw_run_from v g orc st1 rest in
      (st2, r :: rs)
  end.

Definition cw_run (v : wvariant) (g : wcfg) (orc : nat -> sout) (ops : list wop) :=
  cw_run_from v g orc w_init ops.

(* ---- what the correspondence run uses ------------------------------------- *)
Fixpoint worc_of (tbl : list (nat * sout)) (i : nat) : sout :=
  match tbl with
  | [] => SoOk
  | (j, o) :: rest => if Nat.eqb i j then o else worc_of rest i
  end.

(* the context behaviours the harness can produce:
     MLive        never done
     MDone        done before send
     MCancelAt j  another goroutine cancels it while the j-th stream call of the send is in progress
     MDeadline    it has a deadline that only elapses while the stream blocks: done as soon as a
                  stream call of this send has timed out *)
Inductive wmode := MLive | MDone | MCancelAt (j : nat) | MDeadline.

Definition cf_of (m : wmode) : ctxfun := fun c o _ =>
  match m with
  | MCancelAt j => Nat.eqb c j
  | MDeadline => is_tmo (so_kind o)
  | _ => false
  end.

Definition wop_of (mf : wmode * frame) : wop :=
  (match fst mf with MDone => true | _ => false end, cf_of (fst mf), snd mf).

Definition cw_run_tbl (v : wvariant) (dl pwt : bool) (tbl : list (nat * sout))
  (mops : list (wmode * frame)) : list Z * list nat * bool * list sres :=
  let '(st, rs) := cw_run v (mkCfg dl pwt) (worc_of tbl) (map wop_of mops) in
  (w_wire st, rev (w_log st), w_broken st, rs).

(* ---- specification side ---------------------------------------------------- *)
(* p = the bytes of frame f the stream accepted; the frame is torn when the stream took some
   but not all of it (all buffers of the frame counted) *)
Definition torn (p : list Z) (f : frame) : Prop :=
  0 < length p /\ length p < length (frame_bytes f).

Definition w_well_framed (fs : list frame) (st : wst) : Prop :=
  exists done tail,
    w_wire st = concat (map frame_bytes done) ++ tail /\
    subseq done fs /\
    (w_broken st = false -> tail = []) /\
    (tail <> [] -> exists f, In f fs /\ is_prefix tail (frame_bytes f)).
