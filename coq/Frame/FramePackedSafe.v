(* For coq/Core/EndToEnd.v (not edited): [pdecode_n_then_read_safe] extended to packed input that
   does NOT unpack.  The only facts needed are in Frame/FramePackedFull.v:
     - [pdecode_n_any_packed]: for ANY bytes_ok packed input P and every oracle, NewPackedDecoder's
       outcomes equal, up to and including the first one that is not a message, those of the plain
       Decoder over the reader  mkReader [fst (unpack_partial P)] (verdict (snd (unpack_partial P)));
     - [unpack_partial_bytes_ok]: everything packed.Reader.Read hands out is bytes (first conjunct
       of pdecode_n_any_packed),
   after which EndToEnd's own [decode_then_read_safe] (which holds for any final reader error)
   gives msg_ok and read_safe of every message decoded before the point of corruption. *)
From CV Require Import Core.SafetyProofs.
From CV Require Import Core.LimitProofs.
From CV Require Import Core.EndToEnd.
From CV Require Frame.Frame.
From CV Require Frame.FramePacked.
From CV Require Frame.FrameSim.
From CV Require Frame.FramePackedThms.
From CV Require Frame.FramePackedFull.
From CV Require Packed.Packed.
From CV Require Packed.ReadCallProofs2.
From CV Require Core.BuilderFacts.
From Coq Require Import Lia.
Module RP2 := CV.Packed.ReadCallProofs2.
Module FS := CV.Frame.FrameSim.
Module FT := CV.Frame.FramePackedThms.
Module FF := CV.Frame.FramePackedFull.

Theorem pdecode_n_then_read_safe_any P orc hc bc ru mx c fx n k :
  bytes_ok P -> (0 <= mx < FR.two64)%Z -> repaired c fx -> (k < n)%nat ->
  let U := fst (RP2.unpack_partial P) in
  let fin := RP2.verdict (snd (RP2.unpack_partial P)) in
  let outs_plain := snd (FR.decode_n (FR.mkD (FR.mkReader [U] fin) hc bc ru mx) n) in
  let outs_packed := snd (FP.pdecode_n (FR.mkD (FP.p_init orc P) hc bc ru mx) n) in
  FS.all_msgs (firstn k outs_plain) = true ->
  let o := nth k outs_packed (FR.DEof, []) in
  nth k outs_packed (FR.DEof, []) = nth k outs_plain (FR.DEof, []) /\
  fst o <> FR.DPanic /\ forall segs, fst o = FR.DMsg segs -> msg_ok segs /\ read_safe c fx segs.
Proof.
  intros HP Hmx Hr Hk U fin outs_plain outs_packed Hall o.
  destruct (FF.pdecode_n_any_packed P orc hc bc ru mx n k HP Hk) as [HbU H2].
  fold U fin outs_plain outs_packed in HbU, H2. specialize (H2 Hall).
  assert (En : nth k outs_packed (FR.DEof, []) = nth k outs_plain (FR.DEof, [])).
  { rewrite <- (CV.Core.BuilderFacts.nth_firstn_lt k (S k) outs_packed (FR.DEof, [])) by lia.
    rewrite <- (CV.Core.BuilderFacts.nth_firstn_lt k (S k) outs_plain (FR.DEof, [])) by lia. now rewrite H2. }
  split; [exact En|]. subst o. rewrite En.
  destruct (FR.decode_n (FR.mkD (FR.mkReader [U] fin) hc bc ru mx) n) as [st' outs] eqn:Ed.
  pose proof Ed as Ed'. unfold FR.decode_n in Ed'.
  assert (HbC : bytes_ok (concat [U])) by (cbn [concat]; now rewrite app_nil_r).
  pose proof (decode_then_read_safe [U] fin hc bc ru mx (repeat FR.OpDecode n) c fx st' outs HbC Hmx Hr Ed') as F.
  assert (Ln : length outs = n).
  { pose proof (FT.gdecode_n_length FR.read_full n (FR.mkD (FR.mkReader [U] fin) hc bc ru mx)) as L.
    rewrite <- FT.decode_n_gdecode_n, Ed in L. exact L. }
  cbn [snd] in outs_plain. subst outs_plain.
  rewrite Forall_forall in F. apply F. apply nth_In. lia.
Qed.
