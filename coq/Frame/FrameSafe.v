(* Proofs about the framing model, part 2: ARBITRARY header bytes.  totalSize and demuxArena
   agree on every header, never panic when the header has the length streamHeaderSize says,
   the sums do not wrap, the segments returned are consecutive slices of the data;
   Unmarshal never panics and allocates at most 6 bytes per input byte. *)
From CV Require Import Frame.Frame.
From CV Require Import Frame.FrameProofs.
From Coq Require Import ZifyBool ZifyNat.
Ltac Zify.zify_post_hook ::= Z.div_mod_to_equations.
Open Scope Z_scope.

Lemma firstn_add {A} : forall a b (l : list A),
  firstn (a + b) l = firstn a l ++ firstn b (skipn a l).
Proof.
  induction a as [|a IH]; intros b l; [reflexivity|].
  destruct l as [|x l]; [now rewrite !firstn_nil|].
  cbn [Nat.add firstn skipn app]. now rewrite IH.
Qed.

Lemma uint32_at_ok hb off : off + 4 <= len hb -> exists v, uint32_at hb off = Ok v.
Proof. intros H. unfold uint32_at. destruct (off + 4 <=? len hb) eqn:E; [eauto|lia]. Qed.

Lemma segment_size_cases hb i : 0 <= i -> 4 + 4 * i + 4 <= len hb ->
  (exists x, segment_size hb i = Ok x /\ 0 <= x <= max_segment_size) \/ segment_size hb i = Err ESegOverflow.
Proof.
  intros Hi Hl. pose proof (seg_index_le i Hi).
  destruct (uint32_at_ok hb (seg_index i) ltac:(lia)) as [v Hv].
  unfold segment_size. rewrite Hv. cbn [bind].
  destruct (word_times (to_int32 v)) eqn:E; [left|right; reflexivity].
  eexists; split; [reflexivity|]. now apply word_times_bound in E.
Qed.

Lemma total_size_loop_no_panic : forall n hb i sum, 0 <= i -> i + Z.of_nat n <= two32 ->
  4 + 4 * (i + Z.of_nat n) <= len hb -> total_size_loop n hb i sum <> Panic.
Proof.
  induction n as [|n IH]; intros hb i sum Hi Hn Hl; cbn [total_size_loop]; [discriminate|].
  rewrite wrap32_small by (unfold two32 in *; lia).
  destruct (segment_size_cases hb i Hi ltac:(lia)) as [[x [Hx _]]|Hx]; rewrite Hx; cbn [bind]; [|discriminate].
  apply IH; lia.
Qed.

Lemma segment_size_aligned hb i x : segment_size hb i = Ok x -> x mod 8 = 0.
Proof.
  unfold segment_size, bind. destruct (uint32_at hb (seg_index i)); try discriminate.
  destruct (word_times (to_int32 a)) eqn:E; [|discriminate].
  intros H. assert (z = x) by congruence. subst. apply word_times_bound in E. lia.
Qed.

(* totalSize and demuxArena walk the same table: when the total fits into the data, the
   demultiplexer cannot slice out of range, returns n segments, and their concatenation is
   the first [total] bytes of the data; the sum never wraps *)
Lemma loops_agree : forall n hb i sum t data,
  0 <= i -> 0 <= sum -> i + Z.of_nat n <= two32 ->
  sum + Z.of_nat n * two32 <= two64 ->
  total_size_loop n hb i sum = Ok t ->
  sum <= t /\ t <= sum + Z.of_nat n * max_segment_size /\
  (t - sum <= len data ->
   exists segs, demux_loop n hb i data = Ok segs /\ length segs = n /\
                concat segs = firstn (Z.to_nat (t - sum)) data /\ segs_ok segs).
Proof.
  induction n as [|n IH]; intros hb i sum t data Hi Hs Hn Hb H; cbn [total_size_loop demux_loop] in *.
  - assert (t = sum) by congruence. subst. split; [lia|]. split; [lia|]. intros _.
    exists []. rewrite Z.sub_diag. repeat split. constructor.
  - rewrite wrap32_small in * by (unfold two32 in *; lia).
    destruct (segment_size hb i) as [x| |] eqn:Ex; cbn [bind] in *; try discriminate.
    pose proof (segment_size_bound _ _ _ Ex) as Hx.
    pose proof (segment_size_aligned _ _ _ Ex) as Ha.
    rewrite wrap64_small in H by (unfold max_segment_size, two32, two64 in *; lia).
    destruct (IH hb (i + 1) (sum + x) t (skipn (Z.to_nat x) data)) as [H1 [H2 H3]];
      try assumption; try (unfold max_segment_size, two32, two64 in *; lia).
    split; [lia|]. split; [unfold max_segment_size, two32 in *; lia|]. intros Hd.
    destruct (len data <? x) eqn:E; [lia|].
    destruct H3 as [segs [Hd1 [Hd2 [Hd3 Hd4]]]].
    { rewrite len_skipn by lia. lia. }
    rewrite Hd1. cbn [bind]. eexists; split; [reflexivity|].
    split; [cbn [length]; lia|]. split.
    + cbn [concat]. rewrite Hd3.
      replace (Z.to_nat (t - sum)) with (Z.to_nat x + Z.to_nat (t - (sum + x)))%nat by lia.
      now rewrite firstn_add.
    + constructor; [|assumption]. split; rewrite len_firstn by lia; lia.
Qed.

Lemma le32_get_firstn n l : (4 <= n)%nat -> (4 <= length l)%nat -> le32_get (firstn n l) = le32_get l.
Proof.
  intros Hn Hl. rewrite <- (firstn_skipn n l) at 2. symmetry. apply le32_get_app4.
  rewrite firstn_length. lia.
Qed.

Lemma bytes_ok_firstn n l : bytes_ok l -> bytes_ok (firstn n l).
Proof. intros H. rewrite <- (firstn_skipn n l) in H. now apply bytes_ok_app in H. Qed.

(* the only error of the loop is the overflow of a size word *)
Lemma total_size_loop_err : forall n hb i s e, total_size_loop n hb i s = Err e -> e = ESegOverflow.
Proof.
  induction n as [|n IH]; intros hb i s e; cbn [total_size_loop]; [discriminate|].
  unfold segment_size at 1, uint32_at. destruct (_ <=? _); cbn [bind]; try discriminate.
  destruct (word_times _); cbn [bind]; [apply IH|congruence].
Qed.

(* a header of exactly the size the count word calls for *)
Definition header_sized (hb : list Z) : Prop :=
  bytes_ok hb /\ 8 <= len hb /\ len hb = stream_header_size (le32_get hb).

Lemma header_total_demux hb : header_sized hb ->
  let m := le32_get hb in
  (exists t, total_size hb = Ok t /\ 0 <= t <= (m + 1) * max_segment_size /\
     forall data, t <= len data ->
       exists segs, demux_arena hb data = Ok segs /\ len segs = m + 1 /\
                    concat segs = firstn (Z.to_nat t) data /\ segs_ok segs)
  \/ total_size hb = Err ESegOverflow.
Proof.
  intros [Hb [H8 Hl]] m. pose proof (le32_get_range hb Hb) as Hm. fold m in Hm, Hl.
  pose proof (stream_header_size_bounds m Hm) as HB.
  unfold total_size, demux_arena, max_segment, uint32_at.
  destruct (0 + 4 <=? len hb) eqn:E; [|lia]. cbn [Z.to_nat skipn bind]. fold m.
  destruct (total_size_loop (Z.to_nat (m + 1)) hb 0 0) as [t| |] eqn:Et.
  - left. exists t.
    destruct (loops_agree (Z.to_nat (m + 1)) hb 0 0 t [] ltac:(lia) ltac:(lia) ltac:(unfold two32 in *; lia)
                ltac:(unfold two32, two64 in *; lia) Et) as [H1 [H2 _]].
    split; [reflexivity|]. split; [lia|]. intros data Hd.
    destruct (loops_agree (Z.to_nat (m + 1)) hb 0 0 t data ltac:(lia) ltac:(lia) ltac:(unfold two32 in *; lia)
                ltac:(unfold two32, two64 in *; lia) Et) as [_ [_ H3]].
    destruct H3 as [segs [Hd1 [Hd2 [Hd3 Hd4]]]]; [lia|].
    exists segs. rewrite Z.sub_0_r in Hd3. repeat split; try assumption. unfold len. lia.
  - right. f_equal. now apply total_size_loop_err in Et.
  - exfalso. revert Et. apply total_size_loop_no_panic; lia.
Qed.

(* ------------------------------------------------------------ Unmarshal on arbitrary bytes *)

Lemma unmarshal_cases data : bytes_ok data ->
  (exists e, unmarshal data = Err e) \/
  (exists segs k, unmarshal data = Ok segs /\ len segs = le32_get data + 1 /\
     4 * (len segs + 1) <= len data /\ segs_ok segs /\
     concat segs = firstn k (skipn (Z.to_nat (stream_header_size (le32_get data))) data)).
Proof.
  intros Hb. unfold unmarshal. unfold word_size.
  destruct (len data =? 0) eqn:E0; [left; eauto|].
  destruct (len data <? 8) eqn:E1; [left; eauto|].
  pose proof (le32_get_range data Hb) as Hm. set (m := le32_get data) in *.
  pose proof (stream_header_size_bounds m Hm) as HB.
  destruct (len data <? stream_header_size m) eqn:E2; [left; eauto|].
  set (hb := firstn (Z.to_nat (stream_header_size m)) data).
  assert (Hhb : header_sized hb).
  { assert (Hl : len hb = stream_header_size m) by (apply len_firstn; lia).
    assert (Hg : le32_get hb = m).
    { apply le32_get_firstn; unfold len in *; lia. }
    split; [now apply bytes_ok_firstn|]. rewrite Hg. split; lia. }
  assert (Hg : le32_get hb = m) by (apply le32_get_firstn; unfold len in *; lia).
  destruct (header_total_demux hb Hhb) as [[t [Ht [Hr Hd]]]|He]; rewrite ?Ht, ?He; cbn [bind]; [|left; eauto].
  destruct (t >? len _) eqn:E3; [left; eauto|].
  destruct (Hd (skipn (Z.to_nat (stream_header_size m)) data) ltac:(lia)) as [segs [H1 [H2 [H3 H4]]]].
  right. exists segs, (Z.to_nat t). rewrite Hg in H2. repeat split; try assumption. lia.
Qed.

Theorem unmarshal_safe data : bytes_ok data -> unmarshal data <> Panic.
Proof.
  intros Hb. destruct (unmarshal_cases data Hb) as [[e H]|[segs [k [H _]]]]; rewrite H; discriminate.
Qed.

(* memory allocated by Unmarshal: 24 bytes per segment, and a header declaring n segments is
   at least 4(n+1) bytes long *)
Theorem unmarshal_alloc_linear data : bytes_ok data ->
  0 <= unmarshal_alloc data <= 6 * len data.
Proof.
  intros Hb. unfold unmarshal_alloc, slice_header_bytes. pose proof (len_nonneg data).
  destruct (unmarshal_cases data Hb) as [[e H1]|[segs [k [H1 [H2 [H3 _]]]]]]; rewrite H1; [lia|].
  pose proof (len_nonneg segs). lia.
Qed.

(* the bound is reached up to the constant: 2 segments in 16 bytes *)
Example unmarshal_alloc_example :
  unmarshal_alloc ([1; 0; 0; 0; 0; 0; 0; 0; 0; 0; 0; 0; 0; 0; 0; 0]) = 48.
Proof. vm_compute. reflexivity. Qed.
