(* Proofs about the framing model, part 3: io.ReadFull over arbitrary chunkings, Decoder.Decode
   on encoded streams (round trip, cuts) and on arbitrary bytes (allocation bound). *)
From CV Require Import Frame.Frame.
From CV Require Import Frame.FrameProofs.
From CV Require Import Frame.FrameSafe.
From Coq Require Import ZifyBool ZifyNat.
Ltac Zify.zify_post_hook ::= Z.div_mod_to_equations.
Open Scope Z_scope.

(* ------------------------------------------------------------ io.ReadFull *)

(* what ReadFull does, as a function of the concatenated stream only *)
Definition read_full_flat (s : list Z) (fin : rerr) (need : Z) (got : bool)
  : rf_out * list Z * rerr :=
  if need <=? 0 then (RFok [], s, fin)
  else if need <=? len s then (RFok (firstn (Z.to_nat need) s), skipn (Z.to_nat need) s, fin)
  else ((if got || (0 <? len s) then RFerr else match fin with EOF => RFeof | UnexpectedEOF => RFerr end),
        [], EOF).

Definition flat (x : rf_out * reader) : rf_out * list Z * rerr :=
  (fst x, concat (r_chunks (snd x)), r_final (snd x)).

Lemma skipn_add_app {A} : forall (c s : list A) k, skipn (length c + k) (c ++ s) = skipn k s.
Proof. induction c as [|x c IH]; intros s k; [reflexivity|]. cbn [length Nat.add app skipn]. apply IH. Qed.

Lemma read_full_loop_nonpos cs fin need got : need <= 0 ->
  read_full_loop cs fin need got = (RFok [], mkReader cs fin).
Proof. intros H. destruct cs; cbn [read_full_loop]; destruct (need <=? 0) eqn:E; try lia; reflexivity. Qed.

(* chunk independence: the outcome of ReadFull, the bytes left in the reader and its final
   error depend only on the concatenation of the chunks *)
Lemma read_full_loop_flat : forall cs fin need got,
  flat (read_full_loop cs fin need got) = read_full_flat (concat cs) fin need got.
Proof.
  induction cs as [|c cs IH]; intros fin need got.
  - unfold read_full_flat, flat. cbn [read_full_loop concat].
    destruct (need <=? 0) eqn:E0; [reflexivity|]. change (len (@nil Z)) with 0.
    destruct (need <=? 0) eqn:E1; [lia|]. cbn [fst snd r_chunks r_final concat].
    rewrite orb_false_r. destruct got, fin; reflexivity.
  - cbn [read_full_loop concat]. unfold read_full_flat.
    destruct (need <=? 0) eqn:E0; [reflexivity|].
    rewrite len_app. pose proof (len_nonneg c). pose proof (len_nonneg (concat cs)).
    destruct (len c <=? need) eqn:Ec.
    + specialize (IH fin (need - len c) (got || negb (len c =? 0))).
      destruct (read_full_loop cs fin (need - len c) (got || negb (len c =? 0))) as [o r] eqn:Er.
      unfold flat, read_full_flat in IH. cbn [fst snd] in IH. unfold flat. cbn [fst snd].
      destruct (need - len c <=? 0) eqn:E1.
      * (* exactly the chunk *)
        injection IH as -> Hc Hf. rewrite Hc, Hf.
        destruct (need <=? len c + len (concat cs)) eqn:E2; [|lia].
        assert (need = len c) by lia. subst need. rewrite app_nil_r.
        now rewrite firstn_app_len, skipn_app_len.
      * destruct (need - len c <=? len (concat cs)) eqn:E2.
        -- injection IH as -> Hc Hf. rewrite Hc, Hf.
           destruct (need <=? len c + len (concat cs)) eqn:E3; [|lia].
           replace (Z.to_nat need) with (length c + Z.to_nat (need - len c))%nat by (unfold len in *; lia).
           now rewrite firstn_app_2, skipn_add_app.
        -- injection IH as -> Hc Hf. rewrite Hc, Hf.
           destruct (need <=? len c + len (concat cs)) eqn:E3; [lia|].
           f_equal. f_equal.
           destruct got; cbn [orb]; [reflexivity|].
           destruct (len c =? 0) eqn:E4; cbn [negb orb].
           ++ replace (0 <? len c + len (concat cs)) with (0 <? len (concat cs)) by lia.
              destruct (0 <? len (concat cs)), fin; reflexivity.
           ++ replace (0 <? len c + len (concat cs)) with true by lia. reflexivity.
    + unfold flat. cbn [fst snd r_chunks r_final concat].
      destruct (need <=? len c + len (concat cs)) eqn:E3; [|lia].
      rewrite firstn_app. replace (Z.to_nat need - length c)%nat with 0%nat by (unfold len in *; lia).
      cbn [firstn]. rewrite app_nil_r.
      rewrite skipn_app. replace (Z.to_nat need - length c)%nat with 0%nat by (unfold len in *; lia).
      reflexivity.
Qed.

Lemma read_full_flat_eq r need :
  flat (read_full r need) = read_full_flat (concat (r_chunks r)) (r_final r) need false.
Proof. unfold read_full. apply read_full_loop_flat. Qed.

(* enough bytes: success, exactly the next [need] bytes, the rest stays *)
Lemma read_full_enough r need : 0 <= need <= len (concat (r_chunks r)) ->
  exists cs', read_full r need = (RFok (firstn (Z.to_nat need) (concat (r_chunks r))), mkReader cs' (r_final r)) /\
              concat cs' = skipn (Z.to_nat need) (concat (r_chunks r)).
Proof.
  intros H. pose proof (read_full_flat_eq r need) as E. unfold read_full_flat in E.
  destruct (read_full r need) as [o [cs' f']]. unfold flat in E. cbn [fst snd r_chunks r_final] in E.
  destruct (need <=? 0) eqn:E0.
  - assert (need = 0) by lia. subst need. injection E as -> Hc Hf. subst f'.
    exists cs'. split; [reflexivity|]. exact Hc.
  - destruct (need <=? len (concat (r_chunks r))) eqn:E1; [|lia].
    injection E as -> Hc Hf. subst f'. exists cs'. split; [reflexivity|exact Hc].
Qed.

(* not enough bytes: failure; clean EOF only if nothing at all was left *)
Lemma read_full_short r need : len (concat (r_chunks r)) < need ->
  exists o cs', read_full r need = (o, mkReader cs' EOF) /\ concat cs' = [] /\
    (forall b, o <> RFok b) /\
    (0 < len (concat (r_chunks r)) -> o = RFerr) /\
    (len (concat (r_chunks r)) = 0 -> r_final r = EOF -> o = RFeof).
Proof.
  intros H. pose proof (read_full_flat_eq r need) as E. unfold read_full_flat in E.
  pose proof (len_nonneg (concat (r_chunks r))).
  destruct (read_full r need) as [o [cs' f']]. unfold flat in E. cbn [fst snd r_chunks r_final] in E.
  destruct (need <=? 0) eqn:E0; [lia|].
  destruct (need <=? len (concat (r_chunks r))) eqn:E1; [lia|].
  injection E as Ho Hc Hf. subst f'. exists o, cs'. split; [reflexivity|]. split; [exact Hc|]. subst o.
  cbn [orb]. split; [|split].
  - intros b. destruct (0 <? _); [discriminate|]. destruct (r_final r); discriminate.
  - intros Hp. destruct (0 <? _) eqn:E2; [reflexivity|lia].
  - intros Hz Hf. destruct (0 <? _) eqn:E2; [lia|]. now rewrite Hf.
Qed.

(* inversion: a successful ReadFull returned the next [need] bytes *)
Lemma read_full_ok_inv r need b r' : 0 <= need -> read_full r need = (RFok b, r') ->
  need <= len (concat (r_chunks r)) /\ b = firstn (Z.to_nat need) (concat (r_chunks r)) /\ len b = need /\
  concat (r_chunks r') = skipn (Z.to_nat need) (concat (r_chunks r)) /\ r_final r' = r_final r.
Proof.
  intros Hn E. destruct (Z_le_gt_dec need (len (concat (r_chunks r)))) as [Hl|Hl].
  - destruct (read_full_enough r need ltac:(lia)) as [cs' [E' Hc]]. rewrite E' in E.
    injection E as <- <-. cbn [r_chunks r_final]. repeat split; try assumption.
    apply len_firstn. lia.
  - destruct (read_full_short r need ltac:(lia)) as [o [cs' [E' [_ [Hno _]]]]]. rewrite E' in E.
    injection E as -> _. now destruct (Hno b).
Qed.

(* ------------------------------------------------------------ Decode on a framed message *)

Definition max_ok (mx : Z) : Prop := mx = 0 \/ 8 <= mx < two64.

(* a message the decoder is configured to accept: 1..512 segments (513 in the code as found, which compared
   maxSeg > 512), whole-word segments, framed size within MaxMessageSize *)
Definition frame_ok (mx : Z) (m : list (list Z)) : Prop :=
  1 <= len m <= max_stream_segments /\ segs_ok m /\ len (frame m) <= eff_max mx.

Lemma eff_max_range mx : max_ok mx -> 8 <= eff_max mx < two64.
Proof. unfold max_ok, eff_max, default_decode_limit, two64. intros [->|H]; [cbn; lia|]. destruct (mx =? 0) eqn:E; lia. Qed.

Lemma frame_ok_facts mx m : max_ok mx -> frame_ok mx m ->
  count_ok m /\ 1 <= len m < two32 /\ 8 <= len (frame_header m) /\
  len (frame_header m) = stream_header_size (len m - 1) /\
  len (frame_header m) + sum_len m <= eff_max mx /\ 0 <= sum_len m /\
  sum_len m <= 513 * max_segment_size.
Proof.
  intros Hmx [Hc [Hs Hl]]. unfold max_stream_segments in Hc.
  assert (H32 : 1 <= len m < two32) by (unfold two32; lia).
  pose proof (frame_nonempty m H32). pose proof (frame_header_len m H32).
  pose proof (sum_len_nonneg m). pose proof (sum_len_bound m Hs).
  unfold frame in Hl. rewrite len_app, sum_len_concat in Hl.
  assert (Hcnt : count_ok m) by (unfold count_ok; lia).
  assert (HsB : sum_len m <= 513 * max_segment_size) by (unfold max_segment_size, two32 in *; nia).
  repeat (split; [assumption || lia|]). assumption.
Qed.

Lemma frame_header_small mx m : max_ok mx -> frame_ok mx m -> len (frame_header m) <= 2064.
Proof.
  intros Hmx Hok. destruct (frame_ok_facts mx m Hmx Hok) as [_ [H32 [_ [HH _]]]].
  destruct Hok as [Hc _]. unfold max_stream_segments in Hc.
  pose proof (stream_header_size_bounds (len m - 1) ltac:(lia)). lia.
Qed.

Lemma skipn_add {A} : forall a b (l : list A), skipn (a + b) l = skipn b (skipn a l).
Proof.
  induction a as [|a IH]; intros b l; [reflexivity|].
  destruct l as [|x l]; [now rewrite !skipn_nil|]. cbn [Nat.add skipn]. apply IH.
Qed.

Lemma app_eq_len {A} : forall (a b c d : list A), a ++ b = c ++ d -> length a = length c -> a = c.
Proof.
  induction a as [|x a IH]; intros b c d H Hl; destruct c as [|y c]; cbn [length] in Hl; try lia; [reflexivity|].
  cbn [app] in H. injection H as -> H. f_equal. eapply IH; [eassumption|lia].
Qed.

Lemma singleton_concat (m : list (list Z)) : len m = 1 -> [concat m] = m.
Proof.
  destruct m as [|s [|t r]]; unfold len; cbn [length]; try lia. intros _. cbn [concat]. now rewrite app_nil_r.
Qed.

Lemma decode_body_ok m cs fin hc bc ru mx rest log :
  max_ok mx -> frame_ok mx m -> concat cs = concat m ++ rest ->
  exists cs' bc' log',
    decode_body (mkD (mkReader cs fin) hc bc ru mx) (eff_max mx) (len m - 1) (frame_header m) log
    = (mkD (mkReader cs' fin) hc bc' ru mx, DMsg m, log') /\ concat cs' = rest.
Proof.
  intros Hmx Hok Hcs. destruct (frame_ok_facts mx m Hmx Hok) as [Hc [H32 [H8 [HH [HL [Hs0 HsB]]]]]].
  pose proof (eff_max_range mx Hmx) as Hr. destruct Hok as [_ [Hsegs _]].
  unfold decode_body, gdecode_body. rewrite total_size_frame_header by assumption.
  rewrite wrap64_small by lia.
  destruct ((sum_len m >? eff_max mx - len (frame_header m)) || (sum_len m >? max_int)) eqn:E;
    [unfold max_int, max_segment_size, two32 in *; lia|].
  assert (Hen : 0 <= sum_len m <= len (concat (r_chunks (mkReader cs fin)))).
  { cbn [r_chunks]. rewrite Hcs, len_app, sum_len_concat. pose proof (len_nonneg rest). lia. }
  assert (Hbuf : firstn (Z.to_nat (sum_len m)) (concat cs) = concat m).
  { rewrite Hcs, <- sum_len_concat. apply firstn_app_len. }
  assert (Hrest : skipn (Z.to_nat (sum_len m)) (concat cs) = rest).
  { rewrite Hcs, <- sum_len_concat. apply skipn_app_len. }
  assert (Hdm : demux_arena (frame_header m) (concat m) = Ok m).
  { rewrite <- (app_nil_r (concat m)). now apply demux_arena_frame_header. }
  cbn [d_reuse d_rd d_hdrcap d_bufcap d_max]. destruct ru; cbn [negb].
  - unfold resize. destruct (bc <? sum_len m) eqn:Eb.
    + cbn [d_rd]. destruct (read_full_enough _ _ Hen) as [cs' [Er Hc']]. cbn [r_chunks r_final] in *.
      rewrite Er, Hbuf. unfold with_rd. cbn [d_rd d_hdrcap d_bufcap d_reuse d_max].
      destruct (len m - 1 =? 0) eqn:E1.
      * rewrite singleton_concat by lia. do 3 eexists. split; [reflexivity|]. now rewrite Hc'.
      * rewrite Hdm. do 3 eexists. split; [reflexivity|]. now rewrite Hc'.
    + cbn [d_rd]. destruct (read_full_enough _ _ Hen) as [cs' [Er Hc']]. cbn [r_chunks r_final] in *.
      rewrite Er, Hbuf. unfold with_rd. cbn [d_rd d_hdrcap d_bufcap d_reuse d_max].
      destruct (len m - 1 =? 0) eqn:E1.
      * rewrite singleton_concat by lia. do 3 eexists. split; [reflexivity|]. now rewrite Hc'.
      * rewrite Hdm. do 3 eexists. split; [reflexivity|]. now rewrite Hc'.
  - destruct (read_full_enough _ _ Hen) as [cs' [Er Hc']]. cbn [r_chunks r_final] in *.
    rewrite Er, Hbuf, Hdm. unfold with_rd. cbn [d_rd d_hdrcap d_bufcap d_reuse d_max].
    do 3 eexists. split; [reflexivity|]. now rewrite Hc'.
Qed.

(* the data section is cut short: "decode: read segments: ..." *)
Lemma decode_body_short m cs fin hc bc ru mx log :
  max_ok mx -> frame_ok mx m -> len (concat cs) < sum_len m ->
  exists st' log',
    decode_body (mkD (mkReader cs fin) hc bc ru mx) (eff_max mx) (len m - 1) (frame_header m) log
    = (st', DErr EReadSegs, log') /\ concat (r_chunks (d_rd st')) = [] /\ r_final (d_rd st') = EOF.
Proof.
  intros Hmx Hok Hcs. destruct (frame_ok_facts mx m Hmx Hok) as [Hc [H32 [H8 [HH [HL [Hs0 HsB]]]]]].
  pose proof (eff_max_range mx Hmx) as Hr. destruct Hok as [_ [Hsegs _]].
  unfold decode_body, gdecode_body. rewrite total_size_frame_header by assumption.
  rewrite wrap64_small by lia.
  destruct ((sum_len m >? eff_max mx - len (frame_header m)) || (sum_len m >? max_int)) eqn:E;
    [unfold max_int, max_segment_size, two32 in *; lia|].
  assert (Hsh : len (concat (r_chunks (mkReader cs fin))) < sum_len m) by (cbn [r_chunks]; lia).
  destruct (read_full_short _ _ Hsh) as [o [cs' [Er [Hc' [Hno _]]]]].
  cbn [d_reuse d_rd d_hdrcap d_bufcap d_max]. destruct ru; cbn [negb].
  - unfold resize. destruct (bc <? sum_len m) eqn:Eb; cbn [d_rd]; rewrite Er;
      (destruct o; [now destruct (Hno b)| |]); do 2 eexists; (split; [reflexivity|]); cbn; auto.
  - rewrite Er. destruct o; [now destruct (Hno b)| |]; do 2 eexists; (split; [reflexivity|]); cbn; auto.
Qed.

Lemma stream_header_size_0 : stream_header_size 0 = 8.
Proof. reflexivity. Qed.

(* the first word of a stream that starts with (a prefix, at least 8 bytes long, of) frame m *)
Lemma first_word_count m s tail : 1 <= len m < two32 -> 8 <= len s -> frame m = s ++ tail ->
  le32_get (firstn (Z.to_nat word_size) s) = len m - 1.
Proof.
  intros H32 H8 Hf. unfold word_size.
  rewrite le32_get_firstn by (unfold len in *; lia).
  rewrite <- (le32_get_app4 s tail) by (unfold len in *; lia).
  rewrite <- Hf. unfold frame. now apply max_segment_frame_header.
Qed.

(* header complete: Decode reaches its second half with the reader positioned after the header *)
Lemma decode1_to_body m cs fin hc bc ru mx tail :
  max_ok mx -> frame_ok mx m ->
  len (frame_header m) <= len (concat cs) -> frame m = firstn (Z.to_nat (len (frame_header m))) (concat cs) ++ tail ->
  exists cs1 hc' log0,
    decode1 (mkD (mkReader cs fin) hc bc ru mx) =
    decode_body (mkD (mkReader cs1 fin) hc' bc ru mx) (eff_max mx) (len m - 1) (frame_header m) log0
    /\ concat cs1 = skipn (Z.to_nat (len (frame_header m))) (concat cs).
Proof.
  intros Hmx Hok Hlen Hpre. destruct (frame_ok_facts mx m Hmx Hok) as [Hc [H32 [H8 [HH [HL [Hs0 HsB]]]]]].
  pose proof (eff_max_range mx Hmx) as Hr. pose proof (frame_header_small mx m Hmx Hok) as Hsm.
  set (s := concat cs) in *. set (H := len (frame_header m)) in *.
  assert (Hhdr : firstn (Z.to_nat H) s = frame_header m).
  { unfold frame in Hpre.
    assert (Hl : length (firstn (Z.to_nat H) s) = length (frame_header m)).
    { rewrite firstn_length. unfold H, len in *. lia. }
    symmetry. exact (app_eq_len _ _ _ _ Hpre (eq_sym Hl)). }
  unfold decode1, decode1_gen, gdecode1_gen. cbn [d_max d_rd].
  replace (negb (mx =? 0) && (mx <? word_size)) with false
    by (unfold max_ok, word_size in *; destruct (mx =? 0) eqn:E; cbn; lia).
  change (if mx =? 0 then default_decode_limit else mx) with (eff_max mx).
  destruct (read_full_enough (mkReader cs fin) word_size ltac:(cbn [r_chunks]; unfold word_size; fold s; lia))
    as [cs1 [Er Hc1]]. cbn [r_chunks r_final] in *. fold s in Er, Hc1. rewrite Er.
  unfold with_rd. cbn [d_rd d_hdrcap d_bufcap d_reuse d_max].
  assert (Hw : le32_get (firstn (Z.to_nat word_size) s) = len m - 1).
  { rewrite <- (firstn_skipn (Z.to_nat H) s) at 1.
    unfold word_size. rewrite firstn_app.
    replace (Z.to_nat 8 - length (firstn (Z.to_nat H) s))%nat with 0%nat
      by (rewrite firstn_length; unfold H, len in *; lia).
    cbn [firstn]. rewrite app_nil_r, Hhdr.
    rewrite le32_get_firstn by (unfold H, len in *; lia).
    rewrite <- (app_nil_r (frame_header m)). now apply max_segment_frame_header. }
  rewrite Hw.
  destruct (len m - 1 + 1 >? seg_count_limit true) eqn:E1; [destruct Hok; unfold seg_count_limit, max_stream_segments in *; lia|].
  destruct (len m - 1 =? 0) eqn:E2.
  - (* one segment: the first word is the whole header *)
    assert (H8eq : Z.to_nat H = Z.to_nat word_size).
    { rewrite HH. replace (len m - 1) with 0 by lia. reflexivity. }
    exists cs1, hc, []. rewrite H8eq in Hhdr. rewrite H8eq, Hhdr.
    split; [reflexivity|]. exact Hc1.
  - rewrite <- HH. fold H.
    destruct ((H >? eff_max mx) || (H >? max_int)) eqn:E3; [unfold max_int, two64 in *; lia|].
    assert (Hen : 0 <= H - word_size <= len (concat (r_chunks (mkReader cs1 fin)))).
    { cbn [r_chunks]. rewrite Hc1, len_skipn by (unfold word_size; lia). unfold word_size. lia. }
    unfold resize. destruct (hc <? H) eqn:Eh; cbn [d_rd d_hdrcap d_bufcap d_reuse d_max];
      destruct (read_full_enough _ _ Hen) as [cs2 [Er2 Hc2]]; cbn [r_chunks r_final] in *; rewrite Er2;
      rewrite Hc1, <- firstn_add;
      replace (Z.to_nat word_size + Z.to_nat (H - word_size))%nat with (Z.to_nat H) by (unfold word_size; lia);
      rewrite Hhdr; unfold with_rd; cbn [d_rd d_hdrcap d_bufcap d_reuse d_max];
      do 3 eexists; (split; [reflexivity|]);
      rewrite Hc2, Hc1, <- skipn_add; f_equal; unfold word_size; lia.
Qed.

(* one whole frame at the head of the stream: Decode returns exactly that message and leaves
   the rest of the stream; holds for every chunking, with and without reuse, for every
   buffer capacity left over from earlier calls *)
Lemma decode1_frame m cs fin hc bc ru mx rest :
  max_ok mx -> frame_ok mx m -> concat cs = frame m ++ rest ->
  exists cs' hc' bc' log,
    decode1 (mkD (mkReader cs fin) hc bc ru mx) = (mkD (mkReader cs' fin) hc' bc' ru mx, DMsg m, log)
    /\ concat cs' = rest.
Proof.
  intros Hmx Hok Hcs. destruct (frame_ok_facts mx m Hmx Hok) as [Hc [H32 [H8 [HH [HL [Hs0 HsB]]]]]].
  assert (Hs : concat cs = frame_header m ++ concat m ++ rest) by (rewrite Hcs; unfold frame; now rewrite <- app_assoc).
  destruct (decode1_to_body m cs fin hc bc ru mx (concat m) Hmx Hok) as [cs1 [hc' [log0 [E Hc1]]]].
  - rewrite Hs, len_app. pose proof (len_nonneg (concat m ++ rest)). lia.
  - rewrite Hs, firstn_app_len. reflexivity.
  - rewrite E. rewrite Hs, skipn_app_len in Hc1.
    destruct (decode_body_ok m cs1 fin hc' bc ru mx rest log0 Hmx Hok Hc1) as [cs' [bc' [log' [E' Hc']]]].
    rewrite E'. now exists cs', hc', bc', log'.
Qed.

(* the stream ends inside a frame: an error, never a message and never a clean EOF *)
Lemma decode1_cut m q tail cs fin hc bc ru mx :
  max_ok mx -> frame_ok mx m -> frame m = q ++ tail -> q <> [] -> tail <> [] -> concat cs = q ->
  exists st' e log,
    decode1 (mkD (mkReader cs fin) hc bc ru mx) = (st', DErr e, log) /\ (e = EReadHeader \/ e = EReadSegs)
    /\ concat (r_chunks (d_rd st')) = [] /\ r_final (d_rd st') = EOF.
Proof.
  intros Hmx Hok Hf Hq Ht Hcs. destruct (frame_ok_facts mx m Hmx Hok) as [Hc [H32 [H8 [HH [HL [Hs0 HsB]]]]]].
  pose proof (eff_max_range mx Hmx) as Hr. pose proof (frame_header_small mx m Hmx Hok) as Hsm.
  assert (Hql : 0 < len q) by (destruct q; [congruence|rewrite len_cons; pose proof (len_nonneg q); lia]).
  assert (Htl : 0 < len tail) by (destruct tail; [congruence|rewrite len_cons; pose proof (len_nonneg tail); lia]).
  assert (Hfl : len q + len tail = len (frame_header m) + sum_len m).
  { rewrite <- len_app, <- Hf. unfold frame. now rewrite len_app, sum_len_concat. }
  set (H := len (frame_header m)) in *.
  destruct (Z_lt_ge_dec (len q) H) as [Hsh|Hlong].
  - (* cut inside the header *)
    unfold decode1, decode1_gen, gdecode1_gen. cbn [d_max d_rd].
    replace (negb (mx =? 0) && (mx <? word_size)) with false
      by (unfold max_ok, word_size in *; destruct (mx =? 0) eqn:E; cbn; lia).
    change (if mx =? 0 then default_decode_limit else mx) with (eff_max mx).
    destruct (Z_lt_ge_dec (len q) 8) as [H7|H8'].
    + destruct (read_full_short (mkReader cs fin) word_size ltac:(cbn [r_chunks]; rewrite Hcs; unfold word_size; lia))
        as [o [cs' [Er [Hc' [_ [Herr _]]]]]].
      cbn [r_chunks] in Herr. rewrite Hcs in Herr. rewrite (Herr Hql) in Er. rewrite Er.
      do 3 eexists. split; [reflexivity|]. split; [now left|]. cbn. auto.
    + destruct (read_full_enough (mkReader cs fin) word_size ltac:(cbn [r_chunks]; rewrite Hcs; unfold word_size; lia))
        as [cs1 [Er Hc1]]. cbn [r_chunks r_final] in *. rewrite Er, Hcs.
      unfold with_rd. cbn [d_rd d_hdrcap d_bufcap d_reuse d_max].
      rewrite (first_word_count m q tail H32 ltac:(lia) Hf).
      destruct (len m - 1 + 1 >? seg_count_limit true) eqn:E1; [destruct Hok; unfold seg_count_limit, max_stream_segments in *; lia|].
      destruct (len m - 1 =? 0) eqn:E2.
      { exfalso. assert (H = 8) by (rewrite HH; replace (len m - 1) with 0 by lia; reflexivity). lia. }
      rewrite <- HH. fold H.
      destruct ((H >? eff_max mx) || (H >? max_int)) eqn:E3; [unfold max_int, two64 in *; lia|].
      assert (Hsh2 : forall c, len (concat (r_chunks (mkReader cs1 c))) < H - word_size).
      { intros c. cbn [r_chunks]. rewrite Hc1, Hcs, len_skipn by (unfold word_size; lia). unfold word_size. lia. }
      unfold resize. destruct (hc <? H) eqn:Eh; cbn [d_rd d_hdrcap d_bufcap d_reuse d_max];
        destruct (read_full_short _ _ (Hsh2 fin)) as [o [cs' [Er2 [Hc' [Hno _]]]]]; rewrite Er2;
        (destruct o; [now destruct (Hno b)| |]); do 3 eexists; (split; [reflexivity|]);
        (split; [now left|]); cbn; auto.
  - (* header complete, cut inside the data *)
    assert (Hpre : firstn (Z.to_nat H) (concat cs) ++ (skipn (Z.to_nat H) q ++ tail) = frame m).
    { rewrite Hcs, app_assoc, firstn_skipn. now symmetry. }
    destruct (decode1_to_body m cs fin hc bc ru mx (skipn (Z.to_nat H) q ++ tail) Hmx Hok) as [cs1 [hc' [log0 [E Hc1]]]].
    + fold H. rewrite Hcs. lia.
    + fold H. now symmetry.
    + rewrite E. fold H in Hc1. rewrite Hcs in Hc1.
      destruct (decode_body_short m cs1 fin hc' bc ru mx log0 Hmx Hok) as [st' [log' [E' [Hc' Hf']]]].
      { rewrite Hc1, len_skipn by lia. lia. }
      rewrite E'. do 3 eexists. split; [reflexivity|]. split; [now right|]. auto.
Qed.

(* nothing left: io.EOF *)
Lemma decode1_eof cs hc bc ru mx : max_ok mx -> concat cs = [] ->
  exists cs', decode1 (mkD (mkReader cs EOF) hc bc ru mx) = (mkD (mkReader cs' EOF) hc bc ru mx, DEof, [])
              /\ concat cs' = [].
Proof.
  intros Hmx Hcs. unfold decode1, decode1_gen, gdecode1_gen. cbn [d_max d_rd].
  replace (negb (mx =? 0) && (mx <? word_size)) with false
    by (unfold max_ok, word_size in *; destruct (mx =? 0) eqn:E; cbn; lia).
  destruct (read_full_short (mkReader cs EOF) word_size ltac:(cbn [r_chunks]; rewrite Hcs; unfold word_size; cbn; lia))
    as [o [cs' [Er [Hc' [_ [_ Heof]]]]]].
  cbn [r_chunks r_final] in Heof. rewrite Hcs in Heof. rewrite (Heof eq_refl eq_refl) in Er. rewrite Er.
  exists cs'. split; [reflexivity|assumption].
Qed.
