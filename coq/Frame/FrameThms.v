(* Proofs about the framing model, part 4: the C14 theorems over histories of Decode calls
   (all message lists, all chunkings, all cut points, all buffer states) and the allocation
   bound for arbitrary input bytes. *)
From CV Require Import Frame.Frame.
From CV Require Import Frame.FrameProofs.
From CV Require Import Frame.FrameSafe.
From CV Require Import Frame.FrameStream.
From Coq Require Import ZifyBool ZifyNat.
Ltac Zify.zify_post_hook ::= Z.div_mod_to_equations.
Open Scope Z_scope.

(* ------------------------------------------------------------ histories *)

Lemma decode_n_S st n :
  decode_n st (S n) =
  let '(st1, out, log) := decode1 st in
  let '(st2, outs) := decode_n st1 n in (st2, (out, log) :: outs).
Proof.
  unfold decode_n, decode1. cbn [repeat run_history]. unfold dstep, dstep_gen.
  destruct (decode1_gen true st) as [[st1 out] log]. destruct (run_history st1 (repeat OpDecode n)). reflexivity.
Qed.

Lemma decode_n_0 st : decode_n st 0 = (st, []).
Proof. reflexivity. Qed.

(* a stream that starts with the frames of [msgs]: the first |msgs| Decode calls return
   exactly these messages, in order, and consume exactly their frames *)
Lemma decode_frames fin ru mx : max_ok mx -> forall msgs cs hc bc rest,
  Forall (frame_ok mx) msgs -> concat cs = concat (map frame msgs) ++ rest ->
  exists cs' hc' bc' outs,
    decode_n (mkD (mkReader cs fin) hc bc ru mx) (length msgs) = (mkD (mkReader cs' fin) hc' bc' ru mx, outs)
    /\ map fst outs = map DMsg msgs /\ concat cs' = rest.
Proof.
  intros Hmx. induction msgs as [|m msgs IH]; intros cs hc bc rest Hok Hcs.
  - exists cs, hc, bc, []. cbn [length map concat app] in *. rewrite decode_n_0. auto.
  - inversion Hok as [|? ? Hm Hms]; subst. cbn [map concat length] in *. rewrite <- app_assoc in Hcs.
    destruct (decode1_frame m cs fin hc bc ru mx _ Hmx Hm Hcs) as [cs1 [hc1 [bc1 [log [E1 Hc1]]]]].
    destruct (IH cs1 hc1 bc1 rest Hms Hc1) as [cs' [hc' [bc' [outs [E2 [Ho Hc']]]]]].
    exists cs', hc', bc', ((DMsg m, log) :: outs). rewrite decode_n_S, E1, E2.
    split; [reflexivity|]. split; [cbn [map fst]; now rewrite Ho|assumption].
Qed.

Lemma decode_n_add st a b :
  decode_n st (a + b) =
  let '(st1, o1) := decode_n st a in let '(st2, o2) := decode_n st1 b in (st2, o1 ++ o2).
Proof.
  revert st. induction a as [|a IH]; intros st.
  - cbn [Nat.add]. rewrite decode_n_0. destruct (decode_n st b). reflexivity.
  - cbn [Nat.add]. rewrite !decode_n_S. destruct (decode1 st) as [[st1 out] log]. rewrite IH.
    destruct (decode_n st1 a) as [st2 o1]. destruct (decode_n st2 b) as [st3 o2]. reflexivity.
Qed.

Lemma decode_n_1 st : decode_n st 1 = let '(st1, out, log) := decode1 st in (st1, [(out, log)]).
Proof. rewrite decode_n_S. destruct (decode1 st) as [[st1 out] log]. now rewrite decode_n_0. Qed.

(* what Encode accepts and the decoder is configured for is a frame_ok message *)
Lemma encoded_frame_ok mx m f : encode true m = Ok f -> len m <= max_stream_segments ->
  len f <= eff_max mx -> f = frame m /\ frame_ok mx m.
Proof.
  intros He Hn Hl. destruct (encode_ok_segs_ok m f He) as [Hs H1].
  assert (H32 : 1 <= len m < two32) by (unfold max_stream_segments, two32 in *; lia).
  rewrite (encode_frame true m H32 Hs) in He. assert (f = frame m) by congruence. subst f.
  split; [reflexivity|]. repeat split; assumption.
Qed.

Lemma encoded_frames mx : forall msgs frames,
  Forall2 (fun m f => encode true m = Ok f) msgs frames ->
  Forall (fun m => len m <= max_stream_segments) msgs ->
  Forall (fun f => len f <= eff_max mx) frames ->
  frames = map frame msgs /\ Forall (frame_ok mx) msgs.
Proof.
  induction 1 as [|m f msgs frames He _ IH]; intros Hn Hl; [split; [reflexivity|constructor]|].
  inversion Hn; inversion Hl; subst.
  destruct (encoded_frame_ok mx m f He) as [-> Hok]; try assumption.
  destruct IH as [-> Hoks]; try assumption. split; [reflexivity|now constructor].
Qed.

(* C14, first half: any list of messages written by the (repaired) encoder, concatenated,
   delivered in ANY chunking, with or without ReuseBuffer, whatever capacities the decoder's
   buffers have: |msgs| Decode calls return the messages in order and the next one reports
   io.EOF *)
Theorem decode_encode_stream : forall msgs frames cs hc bc ru mx,
  max_ok mx ->
  Forall2 (fun m f => encode true m = Ok f) msgs frames ->
  Forall (fun m => len m <= max_stream_segments) msgs ->
  Forall (fun f => len f <= eff_max mx) frames ->
  concat cs = concat frames ->
  exists st' outs,
    decode_n (mkD (mkReader cs EOF) hc bc ru mx) (S (length msgs)) = (st', outs)
    /\ map fst outs = map DMsg msgs ++ [DEof].
Proof.
  intros msgs frames cs hc bc ru mx Hmx He Hn Hl Hcs.
  destruct (encoded_frames mx msgs frames He Hn Hl) as [-> Hok].
  destruct (decode_frames EOF ru mx Hmx msgs cs hc bc [] Hok ltac:(now rewrite app_nil_r))
    as [cs1 [hc1 [bc1 [outs [E1 [Ho Hc1]]]]]].
  destruct (decode1_eof cs1 hc1 bc1 ru mx Hmx Hc1) as [cs2 [E2 _]].
  replace (S (length msgs)) with (length msgs + 1)%nat by lia.
  rewrite decode_n_add, E1, decode_n_1, E2.
  do 2 eexists. split; [reflexivity|]. rewrite map_app, Ho. reflexivity.
Qed.

(* C14, second half: the stream ends inside a frame (after any number of whole frames): the
   whole frames are returned, then an error ("read header"/"read segments": unexpected EOF),
   never io.EOF and never a message; with and without reuse, any chunking *)
Theorem cut_is_error : forall msgs m q tail cs fin hc bc ru mx,
  max_ok mx -> Forall (frame_ok mx) msgs -> frame_ok mx m ->
  frame m = q ++ tail -> q <> [] -> tail <> [] ->
  concat cs = concat (map frame msgs) ++ q ->
  exists st' outs e,
    decode_n (mkD (mkReader cs fin) hc bc ru mx) (S (length msgs)) = (st', outs)
    /\ map fst outs = map DMsg msgs ++ [DErr e] /\ (e = EReadHeader \/ e = EReadSegs).
Proof.
  intros msgs m q tail cs fin hc bc ru mx Hmx Hok Hm Hf Hq Ht Hcs.
  destruct (decode_frames fin ru mx Hmx msgs cs hc bc q Hok Hcs) as [cs1 [hc1 [bc1 [outs [E1 [Ho Hc1]]]]]].
  destruct (decode1_cut m q tail cs1 fin hc1 bc1 ru mx Hmx Hm Hf Hq Ht Hc1) as [st' [e [log [E2 [He _]]]]].
  replace (S (length msgs)) with (length msgs + 1)%nat by lia.
  rewrite decode_n_add, E1, decode_n_1, E2.
  do 3 eexists. split; [reflexivity|]. split; [|exact He]. rewrite map_app, Ho. reflexivity.
Qed.

(* every prefix of a concatenation of non-empty frames is either at a frame boundary or
   ends strictly inside one frame: so [decode_encode_stream] and [cut_is_error] cover every
   cut point *)
Lemma cut_decompose : forall (fs : list (list Z)) p tl,
  Forall (fun f => f <> []) fs -> concat fs = p ++ tl ->
  exists j q, p = concat (firstn j fs) ++ q /\
    (q = [] \/ exists t, nth_error fs j = Some (q ++ t) /\ q <> [] /\ t <> []).
Proof.
  induction fs as [|f fs IH]; intros p tl Hne Hc.
  - cbn [concat] in Hc. symmetry in Hc. apply app_eq_nil in Hc. destruct Hc as [-> _].
    exists 0%nat, []. split; [reflexivity|now left].
  - inversion Hne as [|? ? Hf Hfs]; subst. cbn [concat] in Hc.
    destruct (Nat.lt_ge_cases (length p) (length f)) as [Hlt|Hge].
    + (* p ends inside f *)
      exists 0%nat, p. split; [reflexivity|]. destruct p as [|x p]; [now left|right].
      exists (skipn (length (x :: p)) f). cbn [nth_error].
      assert (Hp : firstn (length (x :: p)) f = x :: p).
      { apply (f_equal (firstn (length (x :: p)))) in Hc.
        rewrite firstn_app in Hc. replace (length (x :: p) - length f)%nat with 0%nat in Hc by lia.
        rewrite firstn_O, app_nil_r in Hc. rewrite Hc.
        rewrite firstn_app, Nat.sub_diag, firstn_all. cbn [firstn]. now rewrite app_nil_r. }
      split; [now rewrite <- Hp at 1; rewrite firstn_skipn|]. split; [discriminate|].
      intros Hz. apply (f_equal (@length Z)) in Hz. rewrite skipn_length in Hz. cbn [length] in *. lia.
    + (* p contains all of f *)
      assert (Hp : p = f ++ skipn (length f) p).
      { rewrite <- (firstn_skipn (length f) p) at 1. f_equal.
        apply (f_equal (firstn (length f))) in Hc.
        rewrite firstn_app, Nat.sub_diag, firstn_all in Hc. cbn [firstn] in Hc. rewrite app_nil_r in Hc.
        rewrite firstn_app in Hc. replace (length f - length p)%nat with 0%nat in Hc by lia.
        rewrite firstn_O, app_nil_r in Hc. now symmetry. }
      rewrite Hp, <- app_assoc in Hc. apply app_inv_head in Hc.
      destruct (IH _ _ Hfs Hc) as [j [q [Hq Hcase]]].
      exists (S j), q. split.
      * rewrite Hp at 1. cbn [firstn concat]. rewrite <- app_assoc. f_equal. exact Hq.
      * cbn [nth_error]. exact Hcase.
Qed.

Lemma encode_is_marshal : forall segs, count_ok segs -> segs_ok segs ->
  marshal segs = Ok (frame segs) /\ encode true segs = Ok (frame segs).
Proof.
  intros segs Hc Hs. split; [now apply marshal_frame|].
  apply encode_frame; [unfold count_ok, two32 in *; lia|assumption].
Qed.

(* non-vacuity of the stream theorems *)
Ltac zle := vm_compute; intros; discriminate.
Ltac segok := split; [vm_compute; reflexivity | zle].

Example stream_example :
  let m1 := [[1; 2; 3; 4; 5; 6; 7; 8]; []] in
  let m2 := [repeat 9 16] in
  max_ok 0 /\ frame_ok 0 m1 /\ frame_ok 0 m2 /\
  encode true m1 = Ok (frame m1) /\
  map fst (snd (decode_n (d_init (mkReader [frame m1; frame m2] EOF) 0) 3)) = [DMsg m1; DMsg m2; DEof] /\
  map fst (snd (decode_n (d_init (mkReader [frame m1; firstn 9 (frame m2)] EOF) 0) 3))
    = [DMsg m1; DErr EReadSegs; DEof].
Proof.
  cbv zeta. split; [now left|]. split; [|split].
  - split; [split; zle|]. split; [|zle]. constructor; [segok|]. constructor; [segok|]. constructor.
  - split; [split; zle|]. split; [|zle]. constructor; [segok|]. constructor.
  - split; [vm_compute; reflexivity|]. split; vm_compute; reflexivity.
Qed.
