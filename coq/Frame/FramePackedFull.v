(* Composition of C13 with C14, part 5: ANY packed input.  With the total denotation DP of the
   C13 reader (coq/Packed/ReadCallProofs2.v: what the reader hands out, and whether it then ends
   cleanly) NewPackedDecoder over a packed string P behaves, up to and including the first outcome
   that is not a message, exactly like the plain Decoder over the stream fst (unpack_partial P)
   that ends with io.EOF if P unpacks and with io.ErrUnexpectedEOF otherwise. *)
From CV Require Import Packed.PackedProofs.
From CV Require Import Packed.ReaderProofs.
From CV Require Import Packed.ReadCallProofs.
From CV Require Import Packed.ReadCallProofs2.
From CV Require Import Frame.Frame.
From CV Require Import Frame.FramePacked.
From CV Require Import Frame.FrameProofs.
From CV Require Import Frame.FrameSafe.
From CV Require Import Frame.FrameStream.
From CV Require Import Frame.FrameThms.
From CV Require Import Frame.FrameSim.
From CV Require Import Frame.FramePackedProofs.
From CV Require Import Frame.FramePackedThms.
From Coq Require Import ZifyBool ZifyNat.
Ltac Zify.zify_post_hook ::= Z.div_mod_to_equations.
Open Scope Z_scope.

(* the reader will still hand out [s] and then end cleanly ([ok]) or with ErrUnexpectedEOF *)
Definition pvalidP (p : preader) (s : list Z) (ok : bool) : Prop :=
  p_stuck p = false /\ bvalid (p_b p) /\ bytes_ok (p_inp p) /\ DP (p_b p) (p_inp p) = (s, ok).

Lemma pread_full_loop_specP : forall fuel orc k b inp need got s ok,
  bvalid b -> bytes_ok inp -> DP b inp = (s, ok) -> (need < fuel)%nat ->
  if (need <=? length s)%nat
  then fst (pread_full_loop fuel orc k b inp need got) = RFok (firstn need s) /\
       pvalidP (snd (pread_full_loop fuel orc k b inp need got)) (skipn need s) ok
  else fst (pread_full_loop fuel orc k b inp need got)
       = (if got || (0 <? length s)%nat then RFerr else if ok then RFeof else RFerr).
Proof.
  induction fuel as [|fuel IH]; intros orc k b inp need got s ok Hv Hb HD Hf; [lia|].
  destruct need as [|need'].
  { cbn [pread_full_loop fst snd Nat.leb firstn skipn]. split; [reflexivity|].
    unfold pvalidP; cbn [p_stuck p_b p_inp]. auto. }
  cbn [pread_full_loop]. remember (S need') as need eqn:Hneed.
  destruct (read_call true orc k b inp need) as [[[[k' b'] inp'] g] oe] eqn:Ec.
  pose proof (read_call_len _ _ _ _ _ _ _ _ _ _ _ Ec) as Hlen.
  pose proof Ec as Ec'. pose proof Ec as Ec2.
  apply read_call_spec in Ec; [|assumption|assumption|lia].
  apply read_call_specP in Ec2; [|assumption|assumption|lia].
  destruct oe as [e|].
  - apply read_call_len_err in Ec'. destruct Ec2 as (ok' & HD' & ->). rewrite HD in HD'.
    assert (s = g) by congruence. assert (ok' = ok) by congruence. subst s ok'.
    destruct (need <=? length g)%nat eqn:En; [lia|]. cbn [fst snd].
    destruct got; [destruct ok; reflexivity|]. destruct g; destruct ok; reflexivity.
  - destruct Ec as (Hg & Hv' & Hb' & _).
    destruct (DP b' inp') as [s' ok'] eqn:Es'. rewrite HD in Ec2. unfold pmap in Ec2. cbn [fst snd] in Ec2.
    assert (s = g ++ s') by congruence. assert (ok' = ok) by congruence. subst s ok'.
    assert (Hgl : (1 <= length g)%nat) by (destruct g; [congruence|cbn [length]; lia]).
    rewrite app_length.
    destruct (need <=? length g)%nat eqn:En.
    + assert (need = length g) by lia. cbn [fst snd].
      destruct (need <=? length g + length s')%nat eqn:E2; [|lia].
      subst need. rewrite H, firstn_app, Nat.sub_diag, firstn_all, skipn_app, Nat.sub_diag, skipn_all.
      cbn [firstn skipn app]. rewrite app_nil_r. split; [reflexivity|].
      unfold pvalidP; cbn [p_stuck p_b p_inp]. auto.
    + specialize (IH orc k' b' inp' (need - length g)%nat (got || negb (length g =? 0)%nat) s' ok
                     Hv' Hb' Es' ltac:(lia)).
      destruct (pread_full_loop fuel orc k' b' inp' (need - length g) (got || negb (length g =? 0)%nat))
        as [o p'] eqn:El. cbn [fst snd] in *.
      destruct (need <=? length g + length s')%nat eqn:E2.
      * destruct (need - length g <=? length s')%nat eqn:E3; [|lia].
        destruct IH as [-> I4]. split.
        -- f_equal. replace need with (length g + (need - length g))%nat at 2 by lia.
           now rewrite firstn_app_2.
        -- replace need with (length g + (need - length g))%nat by lia.
           now rewrite skipn_add_app.
      * destruct (need - length g <=? length s')%nat eqn:E3; [lia|]. rewrite IH.
        destruct got; [reflexivity|]. destruct g; [cbn [length] in Hgl; lia|reflexivity].
Qed.

(* packed.Reader next to a plain reader that holds what it will hand out and ends the same way *)
Definition psimP (p : preader) (r : reader) : Prop :=
  exists ok, pvalidP p (concat (r_chunks r)) ok /\ r_final r = verdict ok.

Lemma psimP_rf : forall p r n, psimP p r ->
  fst (pread_full p n) = fst (read_full r n) /\
  (forall b, fst (pread_full p n) = RFok b -> psimP (snd (pread_full p n)) (snd (read_full r n))).
Proof.
  intros p r n [ok [[Hst [Hv [Hb HD]]] Hf]]. set (s := concat (r_chunks r)) in *.
  pose proof (read_full_flat_eq r n) as F. unfold flat, read_full_flat in F. rewrite Hf in F. fold s in F.
  unfold pread_full. rewrite Hst.
  pose proof (pread_full_loop_specP (S (Z.to_nat n)) (p_orc p) (p_k p) (p_b p) (p_inp p) (Z.to_nat n) false s ok
                Hv Hb HD ltac:(lia)) as S3.
  destruct (pread_full_loop (S (Z.to_nat n)) (p_orc p) (p_k p) (p_b p) (p_inp p) (Z.to_nat n) false) as [o p'].
  destruct (read_full r n) as [o2 r2]. cbn [fst snd] in *.
  destruct (n <=? 0) eqn:E0.
  - replace (Z.to_nat n) with 0%nat in * by lia. cbn [Nat.leb firstn skipn] in S3.
    destruct S3 as [-> Hp]. injection F as -> F2 F3. split; [reflexivity|].
    intros _ _. exists ok. rewrite F2. split; assumption.
  - destruct (n <=? len s) eqn:E1.
    + destruct (Z.to_nat n <=? length s)%nat eqn:E2; [|unfold len in *; lia].
      destruct S3 as [-> Hp]. injection F as -> F2 F3. split; [reflexivity|].
      intros _ _. exists ok. rewrite F2. split; assumption.
    + destruct (Z.to_nat n <=? length s)%nat eqn:E2; [unfold len in *; lia|].
      injection F as -> F2 F3. cbn [orb] in *. split.
      * rewrite S3. replace (0 <? length s)%nat with (0 <? len s) by (unfold len; lia).
        destruct (0 <? len s); [reflexivity|]. destruct ok; reflexivity.
      * intros b Hb'. rewrite S3 in Hb'. destruct (0 <? length s)%nat; [discriminate|]. destruct ok; discriminate.
Qed.

(* a fresh packed.Reader over ANY packed bytes *)
Lemma st_simP_init orc P hc bc ru mx : bytes_ok P ->
  st_sim preader reader psimP (mkD (p_init orc P) hc bc ru mx)
         (mkD (mkReader [fst (unpack_partial P)] (verdict (snd (unpack_partial P)))) hc bc ru mx).
Proof.
  intros Hb. split; [|repeat split]. exists (snd (unpack_partial P)). split; [|reflexivity].
  unfold pvalidP, p_init. cbn [p_stuck p_b p_inp d_rd r_chunks concat]. rewrite app_nil_r.
  split; [reflexivity|]. split; [exact bvalid_init|]. split; [assumption|].
  rewrite DP_init. now destruct (unpack_partial P).
Qed.

Lemma unpack_partial_bytes_ok P : bytes_ok P -> bytes_ok (fst (unpack_partial P)).
Proof.
  intros Hb.
  pose proof (read_calls_partial (fun _ => (false, false)) (fun _ => 0%nat) P Hb _ (le_n _)) as H.
  exact (read_calls_init_bytes_ok true _ _ P _ _ _ Hb H).
Qed.

(* NewPackedDecoder on any packed bytes = the plain Decoder on what the reader hands out, up to
   and including the first outcome that is not a message *)
Theorem pdecode_n_any_packed : forall P orc hc bc ru mx n k, bytes_ok P -> (k < n)%nat ->
  let U := fst (unpack_partial P) in
  let fin := verdict (snd (unpack_partial P)) in
  let outs_plain := snd (decode_n (mkD (mkReader [U] fin) hc bc ru mx) n) in
  let outs_packed := snd (pdecode_n (mkD (p_init orc P) hc bc ru mx) n) in
  bytes_ok U /\
  (all_msgs (firstn k outs_plain) = true -> firstn (S k) outs_packed = firstn (S k) outs_plain).
Proof.
  intros P orc hc bc ru mx n k Hb Hk. cbv zeta. split; [now apply unpack_partial_bytes_ok|].
  pose proof (gdecode_n_sim preader reader pread_full read_full psimP psimP_rf n _ _
                (st_simP_init orc P hc bc ru mx Hb)) as [_ H2].
  cbv zeta in H2. rewrite <- decode_n_gdecode_n in H2. exact (H2 k Hk).
Qed.

(* transfer of a plain history (messages, then one more outcome) to the packed decoder *)
Lemma packed_transfer_any orc P hc bc ru mx ms last st2 outs2 : bytes_ok P ->
  decode_n (mkD (mkReader [fst (unpack_partial P)] (verdict (snd (unpack_partial P)))) hc bc ru mx)
           (S (length ms)) = (st2, outs2) ->
  map fst outs2 = map DMsg ms ++ [last] ->
  exists st1, pdecode_n (mkD (p_init orc P) hc bc ru mx) (S (length ms)) = (st1, outs2).
Proof.
  intros Hb Hd Hm.
  destruct (pdecode_n_any_packed P orc hc bc ru mx (S (length ms)) (length ms) Hb ltac:(lia)) as [_ H2].
  rewrite Hd in H2. cbn [snd] in H2. specialize (H2 (all_msgs_prefix ms outs2 [last] Hm)).
  pose proof (gdecode_n_length pread_full (S (length ms)) (mkD (p_init orc P) hc bc ru mx)) as L1.
  assert (L2 : length outs2 = S (length ms)).
  { apply (f_equal (@length dout)) in Hm. rewrite map_length, app_length, map_length in Hm. cbn in Hm. lia. }
  unfold pdecode_n in *.
  destruct (gdecode_n pread_full (mkD (p_init orc P) hc bc ru mx) (S (length ms))) as [st1 outs1].
  cbn [snd] in *. exists st1. f_equal.
  rewrite (firstn_all2 outs1) in H2 by lia. rewrite (firstn_all2 outs2) in H2 by lia. exact H2.
Qed.

(* the stream ended (nothing left) by an error instead of io.EOF: "decode: read header" *)
Lemma decode1_end_error cs hc bc ru mx : max_ok mx -> concat cs = [] ->
  exists st', decode1 (mkD (mkReader cs UnexpectedEOF) hc bc ru mx) = (st', DErr EReadHeader, []).
Proof.
  intros Hmx Hcs. unfold decode1, decode1_gen, gdecode1_gen. cbn [d_max d_rd].
  replace (negb (mx =? 0) && (mx <? word_size)) with false
    by (unfold max_ok, word_size in *; destruct (mx =? 0) eqn:E; cbn; lia).
  pose proof (read_full_flat_eq (mkReader cs UnexpectedEOF) word_size) as F.
  unfold flat, read_full_flat in F. cbn [r_chunks r_final] in F. rewrite Hcs in F.
  destruct (read_full (mkReader cs UnexpectedEOF) word_size) as [o r'] eqn:Er. cbn [fst snd] in F.
  replace (word_size <=? 0) with false in F by reflexivity.
  replace (word_size <=? len (@nil Z)) with false in F by reflexivity.
  replace (0 <? len (@nil Z)) with false in F by reflexivity. cbn [orb] in F.
  injection F as -> _ _. eexists. reflexivity.
Qed.

(* C14 + C13, any packed input.  What packed.Reader hands out for P (for every oracle) is
   fst (unpack_partial P); if that is the frames of [msgs] followed by [q], where
     - q is a non-empty strict prefix of a further frame (the stream ends inside a frame), or
     - q is empty but P does not unpack (the stream was cut inside a packed item right at a frame
       boundary of what had been handed out),
   then NewPackedDecoder returns exactly [msgs], in order, and then an error; never io.EOF. *)
Theorem packed_cut_inside_item : forall msgs P q orc hc bc ru mx,
  max_ok mx -> Forall (frame_ok mx) msgs -> bytes_ok P ->
  fst (unpack_partial P) = concat (map frame msgs) ++ q ->
  ((exists m tail, frame_ok mx m /\ frame m = q ++ tail /\ q <> [] /\ tail <> []) \/
   (q = [] /\ snd (unpack_partial P) = false)) ->
  exists st' outs e,
    pdecode_n (mkD (p_init orc P) hc bc ru mx) (S (length msgs)) = (st', outs)
    /\ map fst outs = map DMsg msgs ++ [DErr e] /\ (e = EReadHeader \/ e = EReadSegs).
Proof.
  intros msgs P q orc hc bc ru mx Hmx Hok Hb HU Hcase.
  set (fin := verdict (snd (unpack_partial P))).
  assert (Hplain : exists st2 outs2 e,
             decode_n (mkD (mkReader [fst (unpack_partial P)] fin) hc bc ru mx) (S (length msgs)) = (st2, outs2)
             /\ map fst outs2 = map DMsg msgs ++ [DErr e] /\ (e = EReadHeader \/ e = EReadSegs)).
  { destruct Hcase as [[m [tail [Hm [Hf [Hq Ht]]]]]|[Hq Hno]].
    - apply (cut_is_error msgs m q tail _ fin hc bc ru mx Hmx Hok Hm Hf Hq Ht).
      cbn [concat]. now rewrite app_nil_r.
    - subst q. rewrite app_nil_r in HU.
      destruct (decode_frames fin ru mx Hmx msgs [fst (unpack_partial P)] hc bc [] Hok
                  ltac:(cbn [concat]; rewrite !app_nil_r; exact HU)) as [cs1 [hc1 [bc1 [outs [E1 [Ho Hc1]]]]]].
      unfold fin in *. rewrite Hno in *. cbn [verdict] in *.
      destruct (decode1_end_error cs1 hc1 bc1 ru mx Hmx Hc1) as [st' E2].
      replace (S (length msgs)) with (length msgs + 1)%nat by lia.
      rewrite decode_n_add, E1, decode_n_1, E2. do 3 eexists. split; [reflexivity|].
      split; [rewrite map_app, Ho; reflexivity|now left]. }
  destruct Hplain as [st2 [outs2 [e [Hd [Hm He]]]]].
  destruct (packed_transfer_any orc P hc bc ru mx msgs (DErr e) st2 outs2 Hb Hd Hm) as [st1 E].
  exists st1, outs2, e. repeat split; assumption.
Qed.

(* non-vacuity: the packed form of a two-message stream cut inside the literal run of the second
   message: the first message comes back, then an error *)
Example packed_cut_inside_item_example :
  let m1 := [[1; 0; 0; 0; 0; 0; 0; 2]] in
  let m2 := [[1; 2; 3; 4; 5; 6; 7; 8; 9; 10; 11; 12; 13; 14; 15; 16]] in
  match encode_packed_stream [m1; m2] with
  | Ok p =>
    let cutp := firstn (length p - 3) p in
    snd (unpack_partial cutp) = false /\
    map fst (snd (pdecode_n (d_init (p_init (fun k => (Nat.even k, Nat.odd k)) cutp) 0) 3))
    = [DMsg m1; DErr EReadSegs; DEof]
  | _ => False
  end.
Proof. vm_compute. split; reflexivity. Qed.

(* ------------------------------------------------------------ a packed stream cut anywhere *)

(* what the reader hands out for a prefix of a packed string is a prefix of what the one-shot
   decoder returns for the whole string (for THE continuation at hand, not just for some) *)
Lemma unpack_partial_of_prefix : forall n src rest U, (length src <= n)%nat ->
  unpack_s true (src ++ rest) = Some U -> exists more, U = fst (unpack_partial src) ++ more.
Proof.
  induction n as [|n IH]; intros src rest U Hn H.
  { destruct src; [|cbn [length] in Hn; lia]. exists U. reflexivity. }
  destruct src as [|tag s]; [exists U; reflexivity|].
  cbn [length] in Hn. change ((tag :: s) ++ rest) with (tag :: (s ++ rest)) in H.
  rewrite unpack_s_cons in H. rewrite unpack_partial_cons.
  destruct (take_bits 8 tag s) as [[w s1]|] eqn:E; [|exists U; reflexivity].
  rewrite (FramePackedProofs.take_bits_app _ _ _ _ _ rest E) in H.
  apply take_bits_length in E. destruct E as (_ & El & _).
  destruct (tag =? 0).
  { destruct s1 as [|c s2].
    - cbn [app] in H. destruct rest as [|c r2]; [discriminate|].
      destruct (unpack_s true r2) as [o|]; [|discriminate]. cbn [option_map] in H.
      apply Some_inj_sim in H. subst U. cbn [fst]. eexists. reflexivity.
    - cbn [app length] in *. destruct (unpack_s true (s2 ++ rest)) as [o|] eqn:E2; [|discriminate].
      cbn [option_map] in H. apply Some_inj_sim in H. subst U.
      destruct (IH s2 rest o ltac:(lia) E2) as [more ->]. unfold pmap. cbn [fst].
      exists more. now rewrite <- !app_assoc. }
  destruct (tag =? 255).
  { destruct s1 as [|c s2].
    - cbn [app] in H. destruct rest as [|c r2]; [discriminate|]. cbv zeta in H.
      destruct (true && (length r2 <? 8 * Z.to_nat c)%nat); [discriminate|].
      destruct (unpack_s true (skipn (8 * Z.to_nat c) r2)) as [o|]; [|discriminate]. cbn [option_map] in H.
      apply Some_inj_sim in H. subst U. cbn [fst]. eexists. reflexivity.
    - cbn [app length] in *. cbv zeta in *. cbn [andb] in H.
      destruct (length (s2 ++ rest) <? 8 * Z.to_nat c)%nat eqn:Ek2; [discriminate|].
      destruct (unpack_s true (skipn (8 * Z.to_nat c) (s2 ++ rest))) as [o|] eqn:E2; [|discriminate].
      cbn [option_map] in H. apply Some_inj_sim in H. subst U.
      destruct (length s2 <? 8 * Z.to_nat c)%nat eqn:Ek.
      + (* the literal run is cut: whole words present so far *)
        cbn [fst]. rewrite firstn_app.
        replace (firstn (8 * Z.to_nat c) s2) with s2 by (symmetry; apply firstn_all2; lia).
        exists (skipn (8 * (length s2 / 8)) s2 ++ firstn (8 * Z.to_nat c - length s2) rest ++
                zeros (8 * Z.to_nat c - length (s2 ++ rest)) ++ o).
        rewrite <- !app_assoc. f_equal. rewrite (app_assoc (firstn (8 * (length s2 / 8)) s2)), firstn_skipn.
        reflexivity.
      + rewrite firstn_app, skipn_app in *.
        replace (8 * Z.to_nat c - length s2)%nat with 0%nat in * by lia.
        cbn [firstn skipn] in *. rewrite app_nil_r.
        replace (8 * Z.to_nat c - length (s2 ++ rest))%nat with 0%nat by (rewrite app_length; lia).
        cbn [zeros repeat app].
        destruct (IH (skipn (8 * Z.to_nat c) s2) rest o ltac:(rewrite skipn_length; lia) E2) as [more ->].
        unfold pmap. cbn [fst]. exists more. now rewrite <- !app_assoc. }
  destruct (unpack_s true (s1 ++ rest)) as [o|] eqn:E1; [|discriminate]. cbn [option_map] in H.
  apply Some_inj_sim in H. subst U. destruct (IH s1 rest o ltac:(lia) E1) as [more ->].
  unfold pmap. cbn [fst]. exists more. now rewrite <- app_assoc.
Qed.

Lemma frame_ne m : 1 <= len m < two32 -> frame m <> [].
Proof.
  intros H E. pose proof (frame_nonempty m H) as H8. unfold frame in E.
  destruct (frame_header m); [cbn in H8; lia|discriminate].
Qed.

(* the packed stream of a message list, cut ANYWHERE: what the reader hands out is the frames of
   the first j messages followed by q, where q is empty or a strict prefix of frame j+1 *)
Theorem packed_stream_cut_shape : forall mx all Pfull P rest,
  max_ok mx -> Forall (pmsg_ok mx) all -> encode_packed_stream all = Ok Pfull -> Pfull = P ++ rest ->
  bytes_ok P /\
  exists j q, fst (unpack_partial P) = concat (map frame (firstn j all)) ++ q /\
    (q = [] \/ exists m t, nth_error all j = Some m /\ frame m = q ++ t /\ q <> [] /\ t <> []).
Proof.
  intros mx all Pfull P rest Hmx Hok He HP.
  destruct (pmsg_ok_enc mx all Hmx Hok) as [Henc Hfr].
  destruct (FramePackedProofs.encode_packed_stream_ok all Henc) as [P' [He' [Hb Hu]]].
  assert (P' = Pfull) by congruence. subst P'. subst Pfull.
  apply bytes_ok_app in Hb. destruct Hb as [HbP _]. split; [assumption|].
  specialize (Hu []). rewrite app_nil_r in Hu. change (unpack []) with (Some (@nil Z)) in Hu.
  cbn [option_map] in Hu. rewrite app_nil_r in Hu.
  destruct (unpack_partial_of_prefix (length P) P rest _ (le_n _) Hu) as [more Hmore].
  assert (Hne : Forall (fun f => f <> []) (map frame all)).
  { apply Forall_map. revert Henc. apply Forall_impl. intros m [H32 _]. now apply frame_ne. }
  destruct (cut_decompose (map frame all) (fst (unpack_partial P)) more Hne Hmore) as [j [q [Hq Hcase]]].
  exists j, q. rewrite firstn_map in Hq. split; [exact Hq|].
  destruct Hcase as [->|[t [Hn [Hq1 Ht]]]]; [now left|right].
  rewrite nth_error_map in Hn. destruct (nth_error all j) as [m|] eqn:Em; [|discriminate].
  cbn [option_map] in Hn. apply Some_inj_sim in Hn. exists m, t. auto.
Qed.

(* ... and if the cut is inside a packed item (the one-shot decoder rejects the prefix), or the
   handed-out bytes end inside a frame: NewPackedDecoder returns the first j messages, then an
   error, never io.EOF; for every oracle *)
Theorem packed_stream_cut_is_error : forall mx all Pfull P rest orc hc bc ru,
  max_ok mx -> Forall (pmsg_ok mx) all -> encode_packed_stream all = Ok Pfull -> Pfull = P ++ rest ->
  forall j q, fst (unpack_partial P) = concat (map frame (firstn j all)) ++ q ->
  (q = [] \/ exists m t, nth_error all j = Some m /\ frame m = q ++ t /\ q <> [] /\ t <> []) ->
  (q <> [] \/ snd (unpack_partial P) = false) ->
  exists st' outs e,
    pdecode_n (mkD (p_init orc P) hc bc ru mx) (S (length (firstn j all))) = (st', outs)
    /\ map fst outs = map DMsg (firstn j all) ++ [DErr e] /\ (e = EReadHeader \/ e = EReadSegs).
Proof.
  intros mx all Pfull P rest orc hc bc ru Hmx Hok He HP j q HU Hshape Hbad.
  destruct (packed_stream_cut_shape mx all Pfull P rest Hmx Hok He HP) as [HbP _].
  destruct (pmsg_ok_enc mx all Hmx Hok) as [_ Hfr].
  apply (packed_cut_inside_item (firstn j all) P q orc hc bc ru mx Hmx); try assumption.
  - now apply FramePackedProofs.Forall_firstn.
  - destruct Hshape as [->|[m [t [Hn [Hf [Hq Ht]]]]]].
    + right. split; [reflexivity|]. destruct Hbad as [Hc|Hc]; [congruence|assumption].
    + left. exists m, t. split; [|auto].
      rewrite Forall_forall in Hfr. apply Hfr. eapply nth_error_In. eassumption.
Qed.
