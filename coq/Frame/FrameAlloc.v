(* Proofs about the framing model, part 5: for ARBITRARY input bytes and any decoder state,
   one Decode requests at most MaxMessageSize bytes of buffers, accepts at most 512 segments,
   and never panics. *)
From CV Require Import Frame.Frame.
From CV Require Import Frame.FrameProofs.
From CV Require Import Frame.FrameSafe.
From CV Require Import Frame.FrameStream.
From Coq Require Import ZifyBool ZifyNat.
Ltac Zify.zify_post_hook ::= Z.div_mod_to_equations.
Open Scope Z_scope.

Lemma alloc_bytes_app a b : alloc_bytes (a ++ b) = alloc_bytes a + alloc_bytes b.
Proof. induction a as [|x a IH]; [reflexivity|]. destruct x; cbn [app alloc_bytes]; lia. Qed.

Lemma alloc_table_app a b : alloc_table (a ++ b) = alloc_table a + alloc_table b.
Proof. induction a as [|x a IH]; [reflexivity|]. destruct x; cbn [app alloc_table]; lia. Qed.

Lemma bytes_ok_skipn n l : bytes_ok l -> bytes_ok (skipn n l).
Proof. intros H. rewrite <- (firstn_skipn n l) in H. now apply bytes_ok_app in H. Qed.

(* whatever ReadFull does, the bytes it returns and leaves are bytes of the stream *)
Lemma read_full_bytes_ok r need o r' : bytes_ok (concat (r_chunks r)) -> read_full r need = (o, r') ->
  bytes_ok (concat (r_chunks r')) /\ (forall b, o = RFok b -> bytes_ok b).
Proof.
  intros Hb E. pose proof (read_full_flat_eq r need) as F. rewrite E in F. unfold flat, read_full_flat in F.
  cbn [fst snd] in F.
  destruct (need <=? 0).
  - injection F as -> -> _. split; [assumption|]. intros b [= <-]. constructor.
  - destruct (need <=? len (concat (r_chunks r))).
    + injection F as -> -> _. split; [now apply bytes_ok_skipn|]. intros b [= <-]. now apply bytes_ok_firstn.
    + injection F as -> -> _. split; [constructor|]. intros b Hb'. cbn [orb] in Hb'.
      destruct (0 <? _); [discriminate|]. destruct (r_final r); discriminate.
Qed.

Lemma sum_len_of_concat segs b : concat segs = b -> sum_len segs = len b.
Proof. intros <-. symmetry. apply sum_len_concat. Qed.

Lemma decode_body_bound cs fin hc bc ru mx maxSize hb log st' out log' :
  header_sized hb -> le32_get hb <= max_stream_segments -> bytes_ok (concat cs) ->
  len hb <= maxSize < two64 ->
  decode_body (mkD (mkReader cs fin) hc bc ru mx) maxSize (le32_get hb) hb log = (st', out, log') ->
  alloc_bytes log <= alloc_bytes log' <= alloc_bytes log + (maxSize - len hb) /\
  alloc_table log <= alloc_table log' <= alloc_table log + (le32_get hb + 1) /\
  out <> DPanic /\
  (forall segs, out = DMsg segs ->
     len segs = le32_get hb + 1 /\ segs_ok segs /\ sum_len segs <= maxSize - len hb) /\
  bytes_ok (concat (r_chunks (d_rd st'))) /\ d_max st' = mx.
Proof.
  intros Hh Hm Hb Hsz E. pose proof Hh as [Hhb [H8 Hl]].
  pose proof (le32_get_range hb Hhb) as Hg. unfold decode_body, gdecode_body in E.
  destruct (header_total_demux hb Hh) as [[t [Ht [Hr Hd]]]|He].
  2:{ rewrite He in E. injection E as <- <- <-. cbn [d_rd r_chunks d_max].
      repeat split; try lia; try discriminate; try assumption. }
  rewrite Ht in E. rewrite wrap64_small in E by lia.
  destruct ((t >? maxSize - len hb) || (t >? max_int)) eqn:Ec.
  { injection E as <- <- <-. cbn [d_rd r_chunks d_max]. repeat split; try lia; try discriminate; try assumption. }
  cbn [d_reuse d_rd d_hdrcap d_bufcap d_max] in E.
  (* facts about a successful read of the data *)
  assert (Hread : forall b r', read_full (mkReader cs fin) t = (RFok b, r') ->
            len b = t /\ bytes_ok (concat (r_chunks r')) /\
            exists segs, demux_arena hb b = Ok segs /\ len segs = le32_get hb + 1 /\ segs_ok segs /\
                         sum_len segs = t /\ concat segs = b).
  { intros b r' Er. destruct (read_full_ok_inv (mkReader cs fin) t b r' ltac:(lia) Er) as [_ [_ [Hlb _]]].
    destruct (read_full_bytes_ok (mkReader cs fin) t _ _ Hb Er) as [Hb' _].
    destruct (Hd b ltac:(lia)) as [segs [Hd1 [Hd2 [Hd3 Hd4]]]].
    split; [assumption|]. split; [assumption|]. exists segs.
    rewrite <- Hlb in Hd3. unfold len in Hd3. rewrite Nat2Z.id, firstn_all in Hd3.
    repeat split; try assumption. rewrite (sum_len_of_concat _ _ Hd3). assumption. }
  assert (Hfail : forall o r', read_full (mkReader cs fin) t = (o, r') -> bytes_ok (concat (r_chunks r'))).
  { intros o r' Er. now destruct (read_full_bytes_ok (mkReader cs fin) t _ _ Hb Er). }
  destruct ru; cbn [negb] in E.
  - (* ReuseBuffer *)
    unfold resize in E.
    destruct (bc <? t) eqn:Ecap; cbn [d_rd] in E;
      destruct (read_full (mkReader cs fin) t) as [o r'] eqn:Er;
      (destruct o as [b| |];
       [ destruct (Hread b r' eq_refl) as [Hlb [Hb' [segs [Hd1 [Hd2 [Hd3 [Hd4 Hd5]]]]]]];
         destruct (le32_get hb =? 0) eqn:E0;
         [ injection E as <- <- <-
         | rewrite Hd1 in E; injection E as <- <- <- ]
       | pose proof (Hfail _ _ eq_refl); injection E as <- <- <-
       | pose proof (Hfail _ _ eq_refl); injection E as <- <- <- ]);
      rewrite ?alloc_bytes_app, ?alloc_table_app; cbn [alloc_bytes alloc_table with_rd d_rd d_max r_chunks];
      (split; [lia|]); (split; [lia|]); (split; [discriminate|]); (split; [|split; [assumption|reflexivity]]);
      intros s [= <-]; try (split; [assumption|split; [assumption|lia]]).
    (* single segment handed out as the whole buffer *)
    all: assert (Hs1 : segs = [b])
           by (destruct segs as [|x [|y r]]; unfold len in Hd2; cbn [length] in Hd2; try lia;
               cbn [concat] in Hd5; rewrite app_nil_r in Hd5; now subst).
    all: subst segs; split; [unfold len; cbn [length]; lia|split; [assumption|lia]].
  - destruct (read_full (mkReader cs fin) t) as [o r'] eqn:Er.
    destruct o as [b| |].
    + destruct (Hread b r' eq_refl) as [Hlb [Hb' [segs [Hd1 [Hd2 [Hd3 [Hd4 Hd5]]]]]]].
      rewrite Hd1 in E. injection E as <- <- <-.
      rewrite ?alloc_bytes_app, ?alloc_table_app; cbn [alloc_bytes alloc_table with_rd d_rd d_max r_chunks].
      (split; [lia|]); (split; [lia|]); (split; [discriminate|]); (split; [|split; [assumption|reflexivity]]).
      intros s [= <-]. split; [assumption|split; [assumption|lia]].
    + pose proof (Hfail _ _ eq_refl). injection E as <- <- <-.
      rewrite ?alloc_bytes_app, ?alloc_table_app; cbn [alloc_bytes alloc_table with_rd d_rd d_max r_chunks].
      (split; [lia|]); (split; [lia|]); (split; [discriminate|]); (split; [|split; [assumption|reflexivity]]).
      intros s [=].
    + pose proof (Hfail _ _ eq_refl). injection E as <- <- <-.
      rewrite ?alloc_bytes_app, ?alloc_table_app; cbn [alloc_bytes alloc_table with_rd d_rd d_max r_chunks].
      (split; [lia|]); (split; [lia|]); (split; [discriminate|]); (split; [|split; [assumption|reflexivity]]).
      intros s [=].
Qed.

Lemma eff_max_nonneg mx : 0 <= mx -> 0 <= eff_max mx.
Proof. unfold eff_max, default_decode_limit. destruct (mx =? 0); lia. Qed.

(* C14, allocation half.  For ALL input bytes, all chunkings, any decoder state (buffer
   capacities, reuse flag) and any MaxMessageSize: the byte buffers requested by one Decode
   (header + data) sum to at most the effective limit; the segment table has at most 512
   entries (= maxStreamSegments; the repaired code rejects maxSeg >= 512, the code as found accepted
   513, see accepts_513_refuted); Decode does not panic; a returned message has 1..512 whole-word
   segments and its framed size is within the limit. *)
Theorem alloc_bound cs fin hc bc ru mx st' out log :
  bytes_ok (concat cs) -> 0 <= mx < two64 ->
  decode1 (mkD (mkReader cs fin) hc bc ru mx) = (st', out, log) ->
  0 <= alloc_bytes log <= eff_max mx /\
  0 <= alloc_table log <= max_stream_segments /\
  out <> DPanic /\
  (forall segs, out = DMsg segs ->
     1 <= len segs <= max_stream_segments /\ segs_ok segs /\
     stream_header_size (len segs - 1) + sum_len segs <= eff_max mx) /\
  bytes_ok (concat (r_chunks (d_rd st'))) /\ d_max st' = mx.
Proof.
  intros Hb Hmx E. pose proof (eff_max_nonneg mx ltac:(lia)) as He0.
  unfold decode1, decode1_gen, gdecode1_gen in E; change (@gdecode_body reader read_full) with decode_body in E. cbn [d_max d_rd] in E.
  destruct (negb (mx =? 0) && (mx <? word_size)) eqn:Ecfg.
  { injection E as <- <- <-. cbn [alloc_bytes alloc_table d_rd r_chunks d_max]. unfold max_stream_segments.
    repeat split; try lia; try discriminate; assumption. }
  change (if mx =? 0 then default_decode_limit else mx) with (eff_max mx) in E.
  assert (Heff : 8 <= eff_max mx < two64).
  { unfold eff_max, default_decode_limit, word_size, two64 in *. destruct (mx =? 0) eqn:E0; cbn in Ecfg; lia. }
  destruct (read_full (mkReader cs fin) word_size) as [o r1] eqn:Er1.
  destruct (read_full_bytes_ok (mkReader cs fin) word_size o r1 Hb Er1) as [Hb1 Hbw].
  destruct r1 as [cs1 f1]. cbn [r_chunks] in Hb1.
  destruct o as [w| |].
  2,3: injection E as <- <- <-; cbn [alloc_bytes alloc_table with_rd d_rd r_chunks d_max]; unfold max_stream_segments;
       repeat split; try lia; try discriminate; assumption.
  destruct (read_full_ok_inv (mkReader cs fin) word_size w _ ltac:(unfold word_size; lia) Er1) as [_ [_ [Hlw _]]].
  specialize (Hbw w eq_refl). unfold word_size in Hlw.
  pose proof (le32_get_range w Hbw) as Hm.
  unfold with_rd in E. cbn [d_rd d_hdrcap d_bufcap d_reuse d_max] in E.
  destruct (le32_get w + 1 >? seg_count_limit true) eqn:Emax; unfold seg_count_limit in Emax.
  { injection E as <- <- <-. cbn [alloc_bytes alloc_table d_rd r_chunks d_max]. unfold max_stream_segments.
    repeat split; try lia; try discriminate; assumption. }
  destruct (le32_get w =? 0) eqn:E0.
  - (* single segment: the first word is the header *)
    assert (Hh : header_sized w).
    { split; [assumption|]. split; [lia|]. replace (le32_get w) with 0 by lia. rewrite stream_header_size_0. lia. }
    destruct (decode_body_bound cs1 f1 hc bc ru mx (eff_max mx) w [] st' out log Hh ltac:(lia) Hb1 ltac:(lia) E)
      as [B1 [B2 [B3 [B4 [B5 B6]]]]].
    cbn [alloc_bytes alloc_table] in B1, B2. unfold max_stream_segments in *.
    repeat split; try lia; try assumption.
    all: destruct (B4 segs H) as [S1 [S2 S3]]; try assumption; try lia.
    rewrite S1. replace (le32_get w + 1 - 1) with 0 by lia. rewrite stream_header_size_0. lia.
  - pose proof (stream_header_size_bounds (le32_get w) Hm) as HB.
    destruct ((stream_header_size (le32_get w) >? eff_max mx) || (stream_header_size (le32_get w) >? max_int)) eqn:Ehs.
    { injection E as <- <- <-. cbn [alloc_bytes alloc_table d_rd r_chunks d_max]. unfold max_stream_segments.
      repeat split; try lia; try discriminate; assumption. }
    unfold resize in E.
    destruct (hc <? stream_header_size (le32_get w)) eqn:Ecap; cbn [d_rd d_hdrcap d_bufcap d_reuse d_max] in E.
    all: destruct (read_full (mkReader cs1 f1) (stream_header_size (le32_get w) - word_size)) as [o2 r2] eqn:Er2.
    all: destruct (read_full_bytes_ok (mkReader cs1 f1) _ o2 r2 Hb1 Er2) as [Hb2 Hbr].
    all: destruct r2 as [cs2 f2]; cbn [r_chunks] in Hb2.
    all: destruct o2 as [rest| |].
    2,3,5,6: injection E as <- <- <-; cbn [alloc_bytes alloc_table with_rd d_rd r_chunks d_max]; unfold max_stream_segments;
       repeat split; try lia; try discriminate; assumption.
    all: destruct (read_full_ok_inv (mkReader cs1 f1) (stream_header_size (le32_get w) - word_size) rest _ ltac:(unfold word_size; lia) Er2) as [_ [_ [Hlr _]]].
    all: specialize (Hbr rest eq_refl); unfold word_size in Hlr.
    all: assert (Hget : le32_get (w ++ rest) = le32_get w) by (apply le32_get_app4; unfold len in *; lia).
    all: assert (Hh : header_sized (w ++ rest))
           by (split; [now apply bytes_ok_app|]; rewrite Hget, len_app; split; lia).
    all: assert (Hm2 : le32_get (w ++ rest) <= max_stream_segments) by (rewrite Hget; lia).
    all: assert (Hsz : len (w ++ rest) <= eff_max mx < two64) by (rewrite len_app; lia).
    all: unfold with_rd in E; cbn [d_rd d_hdrcap d_bufcap d_reuse d_max] in E; rewrite <- Hget in E.
    all: lazymatch type of E with decode_body _ _ _ _ ?l0 = _ =>
           destruct (decode_body_bound cs2 f2 _ bc ru mx (eff_max mx) (w ++ rest) l0 st' out log Hh Hm2 Hb2 Hsz E)
             as [B1 [B2 [B3 [B4 [B5 B6]]]]]
         end.
    all: cbn [alloc_bytes alloc_table] in B1, B2; rewrite Hget, len_app in *; unfold max_stream_segments in *.
    all: repeat split; try lia; try assumption.
    all: destruct (B4 segs H) as [S1 [S2 S3]]; try assumption; try lia.
    all: rewrite S1; replace (le32_get w + 1 - 1) with (le32_get w) by lia; lia.
Qed.

(* the limit is reached: an 8-byte header makes the decoder request a buffer of
   MaxMessageSize - 8 bytes before any data has been seen *)
Example alloc_bound_tight :
  let '(_, out, log) := decode1 (d_init (mkReader [[0; 0; 0; 0; 127; 0; 0; 0]] EOF) 1024) in
  out = DErr EReadSegs /\ alloc_bytes log = 1016.
Proof. vm_compute. split; reflexivity. Qed.

(* O1 / F22: the segment-count check as found (maxSeg > 512) admitted 513 segments, one more
   than maxStreamSegments = 512; the repaired check (maxSeg >= 512) accepts 512 and refuses 513 *)
Example accepts_513_refuted :
  let hdr512 := le32 511 ++ zeros (4 * 512 + 4) in
  let hdr513 := le32 512 ++ zeros (4 * 513) in
  (exists segs, snd (fst (decode1_gen false (d_init (mkReader [hdr513] EOF) 0))) = DMsg segs /\ len segs = 513) /\
  snd (fst (decode1 (d_init (mkReader [hdr513] EOF) 0))) = DErr ETooManySegs /\
  (exists segs, snd (fst (decode1 (d_init (mkReader [hdr512] EOF) 0))) = DMsg segs /\ len segs = 512).
Proof.
  cbv zeta. split; [|split].
  - eexists. split; vm_compute; reflexivity.
  - vm_compute. reflexivity.
  - eexists. split; vm_compute; reflexivity.
Qed.

(* the same over whole histories of Decode / ReuseBuffer calls (any order, any number), from
   any initial state: every single Decode stays within the bound, none panics *)
Definition st_ok (st : dstate) : Prop :=
  bytes_ok (concat (r_chunks (d_rd st))) /\ 0 <= d_max st < two64.

Theorem alloc_bound_history : forall ops st st' outs,
  (forall m, ~ In (OpSetMax m) ops) -> st_ok st -> run_history st ops = (st', outs) ->
  Forall (fun ol => 0 <= alloc_bytes (snd ol) <= eff_max (d_max st) /\
                    alloc_table (snd ol) <= max_stream_segments /\ fst ol <> DPanic /\
                    forall segs, fst ol = DMsg segs -> len segs <= max_stream_segments) outs.
Proof.
  induction ops as [|o ops IH]; intros st st' outs Hno [Hb Hmx] E; cbn [run_history] in E.
  - injection E as <- <-. constructor.
  - destruct (dstep st o) as [st1 r] eqn:Es. destruct (run_history st1 ops) as [st2 outs2] eqn:Er.
    injection E as <- <-.
    assert (Hno' : forall m, ~ In (OpSetMax m) ops) by (intros m Hin; apply (Hno m); now right).
    unfold dstep, dstep_gen in Es. destruct o.
    + change (decode1_gen true st) with (decode1 st) in Es. destruct (decode1 st) as [[st1' out] log] eqn:Ed. injection Es as <- <-.
      destruct st as [[cs fin] hc bc ru mx]. cbn [d_rd r_chunks d_max] in *.
      destruct (alloc_bound cs fin hc bc ru mx st1' out log Hb Hmx Ed) as [A1 [A2 [A3 [A4 [A5 A6]]]]].
      constructor.
      * cbn [fst snd]. split; [lia|]. split; [lia|]. split; [assumption|].
        intros segs Hs. destruct (A4 segs Hs). lia.
      * rewrite <- A6. apply (IH st1' st2 outs2 Hno'); [|assumption]. split; [assumption|]. now rewrite A6.
    + injection Es as <- <-.
      exact (IH (mkD (d_rd st) (d_hdrcap st) (d_bufcap st) true (d_max st)) st2 outs2 Hno' (conj Hb Hmx) Er).
    + exfalso. apply (Hno m). now left.
Qed.
