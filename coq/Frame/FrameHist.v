(* Decode / ReuseBuffer / MaxMessageSize histories for ANY reader (Frame.v's [run_history] is the
   instance for the plain chunked reader), and the history with its ReuseBuffer calls erased.
   Definitions only; the theorems are in FrameReuseEq.v. *)
From CV Require Export Frame.Frame.
From CV Require Export Frame.FramePacked.
From CV Require Export Frame.FrameReaders.
Open Scope Z_scope.

Definition gdstep {R} (rf : R -> Z -> rf_out * R) (fixed : bool) (st : gstate R) (o : dop)
  : gstate R * option (dout * list alloc) :=
  match o with
  | OpDecode => let '(st', out, log) := gdecode1_gen rf fixed st in (st', Some (out, log))
  | OpReuse => (mkD (d_rd st) (d_hdrcap st) (d_bufcap st) true (d_max st), None)
  | OpSetMax m => (mkD (d_rd st) (d_hdrcap st) (d_bufcap st) (d_reuse st) (wrap64 m), None)
  end.

Fixpoint grun_history {R} (rf : R -> Z -> rf_out * R) (st : gstate R) (ops : list dop)
  : gstate R * list (dout * list alloc) :=
  match ops with
  | [] => (st, [])
  | o :: r =>
    let '(st1, out) := gdstep rf true st o in
    let '(st2, outs) := grun_history rf st1 r in
    (st2, match out with Some x => x :: outs | None => outs end)
  end.

(* the same history without its ReuseBuffer() calls *)
Definition is_reuse (o : dop) : bool := match o with OpReuse => true | _ => false end.
Definition erase_reuse (ops : list dop) : list dop := filter (fun o => negb (is_reuse o)) ops.

(* what the caller sees of a history: the outcome of every Decode (message contents included),
   not the allocation log *)
Definition outcomes (x : list (dout * list alloc)) : list dout := map fst x.

(* the only thing the theorems ask of a ReadFull: a successful call for [need] bytes returns
   [need] bytes *)
Definition rf_exact {R} (rf : R -> Z -> rf_out * R) : Prop :=
  forall r need b r', 0 <= need -> rf r need = (RFok b, r') -> len b = need.

(* two decoder states that hold the same reader and the same MaxMessageSize; the reuse flag and
   the capacities of d.hdrbuf / d.buf are unconstrained *)
Definition same_view {R} (s1 s2 : gstate R) : Prop := d_rd s1 = d_rd s2 /\ d_max s1 = d_max s2.
