(* Composition of C13 with C14, part 2: io.ReadFull over packed.Reader.Read behaves, on a
   packed string that the one-shot decoder accepts, exactly like io.ReadFull over the
   unpacked stream; a generic simulation lemma for the Decoder then transfers every result
   about the plain Decoder to NewPackedDecoder. *)
From CV Require Import Packed.PackedProofs.
From CV Require Import Packed.ReaderProofs.
From CV Require Import Packed.ReadCallProofs.
From CV Require Import Frame.Frame.
From CV Require Import Frame.FramePacked.
From CV Require Import Frame.FrameProofs.
From CV Require Import Frame.FrameSafe.
From CV Require Import Frame.FrameStream.
From Coq Require Import ZifyBool ZifyNat.
Ltac Zify.zify_post_hook ::= Z.div_mod_to_equations.
Open Scope Z_scope.

(* ------------------------------------------------------------ Read returns at most len(p) bytes *)

Lemma Some_inj_sim {A} (a b : A) : Some a = Some b -> a = b.
Proof. congruence. Qed.

Lemma fast_bits_length : forall n tag src i, length (fst (fast_bits n tag src i)) = n.
Proof.
  induction n as [|n IH]; intros tag src i; cbn [fast_bits]; [reflexivity|].
  specialize (IH (tag / 2) src (if Z.odd tag then S i else i)).
  destruct (fast_bits n (tag / 2) src (if Z.odd tag then S i else i)) as [w i'].
  cbn [fst length] in *. now rewrite IH.
Qed.

Lemma read_word_len strict fast st inp st' inp' w :
  read_word strict fast st inp = (st', inp', RWord w) -> (length w <= 8)%nat.
Proof.
  unfold read_word. destruct (r_err st); [discriminate|].
  destruct (0 <? r_zeroes st).
  { intros H. assert (w = zeros 8) by congruence. subst. cbn. lia. }
  destruct (0 <? r_literal st).
  { destruct (8 <=? length inp)%nat.
    - intros H. assert (w = firstn 8 inp) by congruence. subst. rewrite firstn_length. lia.
    - destruct inp; discriminate. }
  destruct inp as [|tag s]; [discriminate|].
  set (r := if fast && (8 <=? length s)%nat
            then (let '(w0, i) := fast_bits 8 tag s 0 in Some (w0, skipn i s))
            else take_bits 8 tag s).
  assert (Hr : forall w0 s1, r = Some (w0, s1) -> length w0 = 8%nat).
  { unfold r. intros w0 s1. destruct (fast && (8 <=? length s)%nat).
    - pose proof (fast_bits_length 8 tag s 0) as L. destruct (fast_bits 8 tag s 0) as [w1 i].
      cbn [fst] in L. intros H. congruence.
    - intros H. now apply take_bits_length in H. }
  destruct r as [[w0 s1]|]; [|discriminate]. specialize (Hr w0 s1 eq_refl).
  destruct (tag =? 0); [destruct s1; intros H; assert (w = w0) by congruence; subst; lia|].
  destruct (tag =? 255); [destruct s1; intros H; assert (w = w0) by congruence; subst; lia|].
  intros H. assert (w = w0) by congruence. subst. lia.
Qed.

Lemma read_loop_len : forall fuel strict orc k st inp want got k' st' inp' got' oe,
  read_loop strict fuel orc k st inp want got = (k', st', inp', got', oe) ->
  (length got' <= length got + want)%nat.
Proof.
  induction fuel as [|fuel IH]; intros strict orc k st inp want got k' st' inp' got' oe H;
    cbn [read_loop] in H.
  - assert (got' = got) by congruence. subst. lia.
  - destruct (want =? 0)%nat; [assert (got' = got) by congruence; subst; lia|].
    destruct (snd (orc k) && negb (length got =? 0)%nat); [assert (got' = got) by congruence; subst; lia|].
    destruct (read_word strict (fst (orc k)) (b_r st) inp) as [[r' i'] [w|e]] eqn:Ew.
    + apply read_word_len in Ew.
      destruct (8 <=? want)%nat eqn:E8.
      * apply IH in H. rewrite app_length in H. lia.
      * assert (got' = got ++ firstn want w) by congruence. subst.
        rewrite app_length, firstn_length. lia.
    + assert (got' = got) by congruence. subst. lia.
Qed.

Lemma read_call_len strict orc k st inp n k' st' inp' got oe :
  read_call strict orc k st inp n = (k', st', inp', got, oe) -> (length got <= n)%nat.
Proof.
  unfold read_call. intros H. apply read_loop_len in H. rewrite firstn_length in *. lia.
Qed.

(* an error is only reported when the buffer could not be filled *)
Lemma read_loop_len_err : forall fuel strict orc k st inp want got k' st' inp' got' e,
  read_loop strict fuel orc k st inp want got = (k', st', inp', got', Some e) ->
  (length got' < length got + want)%nat.
Proof.
  induction fuel as [|fuel IH]; intros strict orc k st inp want got k' st' inp' got' e H;
    cbn [read_loop] in H; [discriminate|].
  destruct (want =? 0)%nat eqn:E0; [discriminate|].
  destruct (snd (orc k) && negb (length got =? 0)%nat); [discriminate|].
  destruct (read_word strict (fst (orc k)) (b_r st) inp) as [[r' i'] [w|e']] eqn:Ew.
  - apply read_word_len in Ew.
    destruct (8 <=? want)%nat eqn:E8; [|discriminate].
    apply IH in H. rewrite app_length in H. lia.
  - assert (got' = got) by congruence. subst. lia.
Qed.

Lemma read_call_len_err strict orc k st inp n k' st' inp' got e :
  read_call strict orc k st inp n = (k', st', inp', got, Some e) -> (length got < n)%nat.
Proof.
  unfold read_call. intros H. apply read_loop_len_err in H. rewrite firstn_length in *. lia.
Qed.

(* ------------------------------------------------------------ ReadFull over packed.Reader *)

(* the reader is in a state whose remaining unpacked output is [s] *)
Definition pvalid (p : preader) (s : list Z) : Prop :=
  p_stuck p = false /\ bvalid (p_b p) /\ bytes_ok (p_inp p) /\ D (p_b p) (p_inp p) = Some s.

Lemma pread_full_loop_spec : forall fuel orc k b inp need got s,
  bvalid b -> bytes_ok inp -> D b inp = Some s -> (need < fuel)%nat ->
  p_stuck (snd (pread_full_loop fuel orc k b inp need got)) = false /\
  p_orc (snd (pread_full_loop fuel orc k b inp need got)) = orc /\
  if (need <=? length s)%nat
  then fst (pread_full_loop fuel orc k b inp need got) = RFok (firstn need s) /\
       pvalid (snd (pread_full_loop fuel orc k b inp need got)) (skipn need s)
  else fst (pread_full_loop fuel orc k b inp need got)
       = (if got || (0 <? length s)%nat then RFerr else RFeof).
Proof.
  induction fuel as [|fuel IH]; intros orc k b inp need got s Hv Hb HD Hf; [lia|].
  destruct need as [|need'].
  { cbn [pread_full_loop fst snd p_stuck p_orc]. split; [reflexivity|]. split; [reflexivity|].
    cbn [Nat.leb firstn skipn]. split; [reflexivity|].
    unfold pvalid; cbn [p_stuck p_b p_inp]. split; [reflexivity|]. split; [exact Hv|]. split; [exact Hb|exact HD]. }
  cbn [pread_full_loop]. remember (S need') as need eqn:Hneed.
  destruct (read_call true orc k b inp need) as [[[[k' b'] inp'] g] oe] eqn:Ec.
  pose proof (read_call_len _ _ _ _ _ _ _ _ _ _ _ Ec) as Hlen.
  pose proof Ec as Ec'. apply read_call_spec in Ec; [|assumption|assumption|lia].
  destruct oe as [e|].
  - (* the reader reported its end: everything that was left is in g, and g is short *)
    apply read_call_len_err in Ec'. rewrite HD in Ec. destruct Ec as [-> ->].
    destruct (need <=? length g)%nat eqn:En; [lia|]. cbn [fst snd p_stuck p_orc].
    split; [reflexivity|]. split; [reflexivity|].
    destruct got; [reflexivity|]. destruct g; reflexivity.
  - destruct Ec as (Hg & Hv' & Hb' & HD' & _).
    rewrite HD in HD'. destruct (D b' inp') as [s'|] eqn:Es'; [|discriminate].
    cbn [option_map] in HD'. apply Some_inj_sim in HD'. subst s.
    assert (Hgl : (1 <= length g)%nat) by (destruct g; [congruence|cbn [length]; lia]).
    rewrite app_length.
    destruct (need <=? length g)%nat eqn:En.
    + assert (need = length g) by lia. cbn [fst snd p_stuck p_orc].
      split; [reflexivity|]. split; [reflexivity|].
      destruct (need <=? length g + length s')%nat eqn:E2; [|lia].
      subst need. rewrite H, firstn_app, Nat.sub_diag, firstn_all, skipn_app, Nat.sub_diag, skipn_all.
      cbn [firstn skipn app]. rewrite app_nil_r. split; [reflexivity|].
      unfold pvalid; cbn [p_stuck p_b p_inp]. split; [reflexivity|]. split; [exact Hv'|]. split; [exact Hb'|exact Es'].
    + specialize (IH orc k' b' inp' (need - length g)%nat (got || negb (length g =? 0)%nat) s'
                     Hv' Hb' Es' ltac:(lia)).
      destruct (pread_full_loop fuel orc k' b' inp' (need - length g) (got || negb (length g =? 0)%nat))
        as [o p'] eqn:El. cbn [fst snd] in *.
      destruct IH as [I1 [I2 I3]]. split; [assumption|]. split; [assumption|].
      destruct (need <=? length g + length s')%nat eqn:E2.
      * destruct (need - length g <=? length s')%nat eqn:E3; [|lia].
        destruct I3 as [-> I4]. split.
        -- f_equal. replace need with (length g + (need - length g))%nat at 2 by lia.
           now rewrite firstn_app_2.
        -- replace need with (length g + (need - length g))%nat by lia.
           now rewrite skipn_add_app.
      * destruct (need - length g <=? length s')%nat eqn:E3; [lia|]. rewrite I3.
        destruct got; [reflexivity|]. destruct g; [cbn [length] in Hgl; lia|reflexivity].
Qed.

(* ------------------------------------------------------------ the two readers, side by side *)

(* packed.Reader over a packed string that unpacks to what the plain reader still holds *)
Definition psim (p : preader) (r : reader) : Prop :=
  pvalid p (concat (r_chunks r)) /\ r_final r = EOF.

Lemma pread_full_sim p r n : psim p r ->
  fst (pread_full p n) = fst (read_full r n) /\
  (forall b, fst (pread_full p n) = RFok b -> psim (snd (pread_full p n)) (snd (read_full r n))) /\
  p_orc (snd (pread_full p n)) = p_orc p.
Proof.
  intros [[Hst [Hv [Hb HD]]] Hf]. set (s := concat (r_chunks r)) in *.
  pose proof (read_full_flat_eq r n) as F. unfold flat, read_full_flat in F. rewrite Hf in F. fold s in F.
  unfold pread_full. rewrite Hst.
  pose proof (pread_full_loop_spec (S (Z.to_nat n)) (p_orc p) (p_k p) (p_b p) (p_inp p) (Z.to_nat n) false s
                Hv Hb HD ltac:(lia)) as [S1 [S2 S3]].
  destruct (pread_full_loop (S (Z.to_nat n)) (p_orc p) (p_k p) (p_b p) (p_inp p) (Z.to_nat n) false) as [o p'].
  destruct (read_full r n) as [o2 r2]. cbn [fst snd] in *.
  destruct (n <=? 0) eqn:E0.
  - replace (Z.to_nat n) with 0%nat in * by lia. cbn [Nat.leb firstn skipn] in S3.
    destruct S3 as [-> Hp]. injection F as -> F2 F3. split; [reflexivity|]. split; [|assumption].
    intros _ _. split; [now rewrite F2|assumption].
  - destruct (n <=? len s) eqn:E1.
    + destruct (Z.to_nat n <=? length s)%nat eqn:E2; [|unfold len in *; lia].
      destruct S3 as [-> Hp]. injection F as -> F2 F3. split; [reflexivity|]. split; [|assumption].
      intros _ _. split; [now rewrite F2|assumption].
    + destruct (Z.to_nat n <=? length s)%nat eqn:E2; [unfold len in *; lia|].
      injection F as -> F2 F3. cbn [orb] in *. split.
      * rewrite S3. replace (0 <? length s)%nat with (0 <? len s) by (unfold len; lia). reflexivity.
      * split; [|assumption]. intros b Hb'. rewrite S3 in Hb'. destruct (0 <? length s)%nat; discriminate.
Qed.

(* ------------------------------------------------------------ generic simulation of the Decoder *)

Section Sim.
  Variables R1 R2 : Type.
  Variable rf1 : R1 -> Z -> rf_out * R1.
  Variable rf2 : R2 -> Z -> rf_out * R2.
  Variable sim : R1 -> R2 -> Prop.
  (* the two ReadFull implementations agree on related readers; the readers stay related as
     long as the reads succeed *)
  Hypothesis Hrf : forall r1 r2 n, sim r1 r2 ->
    fst (rf1 r1 n) = fst (rf2 r2 n) /\
    (forall b, fst (rf1 r1 n) = RFok b -> sim (snd (rf1 r1 n)) (snd (rf2 r2 n))).

  Definition caps_eq (s1 : gstate R1) (s2 : gstate R2) : Prop :=
    d_hdrcap s1 = d_hdrcap s2 /\ d_bufcap s1 = d_bufcap s2 /\ d_reuse s1 = d_reuse s2 /\ d_max s1 = d_max s2.
  Definition st_sim (s1 : gstate R1) (s2 : gstate R2) : Prop :=
    sim (d_rd s1) (d_rd s2) /\ caps_eq s1 s2.

  (* same outcome, same allocation log, same buffer state; after a message the readers are
     still related *)
  Definition res_sim (x1 : gstate R1 * dout * list alloc) (x2 : gstate R2 * dout * list alloc) : Prop :=
    snd (fst x1) = snd (fst x2) /\ snd x1 = snd x2 /\ caps_eq (fst (fst x1)) (fst (fst x2)) /\
    (forall m, snd (fst x1) = DMsg m -> sim (d_rd (fst (fst x1))) (d_rd (fst (fst x2)))).

  Tactic Notation "rd" constr(r1) constr(r2) constr(n) constr(Hs) ident(o) ident(r1') ident(r2') ident(Hn) :=
    let Ho := fresh "Ho" in let o2 := fresh "o2" in
    destruct (Hrf r1 r2 n Hs) as [Ho Hn];
    destruct (rf1 r1 n) as [o r1']; destruct (rf2 r2 n) as [o2 r2'];
    cbn [fst snd] in Ho, Hn; subst o2.

  Ltac fin_err := unfold res_sim, caps_eq, with_rd; cbn [fst snd d_rd d_hdrcap d_bufcap d_reuse d_max];
                  repeat split; intros ? [=].

  Lemma gdecode_body_sim s1 s2 maxSize maxSeg hb log : st_sim s1 s2 ->
    res_sim (gdecode_body rf1 s1 maxSize maxSeg hb log) (gdecode_body rf2 s2 maxSize maxSeg hb log).
  Proof.
    destruct s1 as [r1 hc1 bc1 ru1 mx1], s2 as [r2 hc2 bc2 ru2 mx2].
    intros [Hs [E1 [E2 [E3 E4]]]]. cbn [d_rd d_hdrcap d_bufcap d_reuse d_max] in *. subst.
    unfold gdecode_body. cbn [d_rd d_hdrcap d_bufcap d_reuse d_max].
    destruct (total_size hb) as [total| |]; [|fin_err|fin_err].
    destruct ((total >? wrap64 (maxSize - len hb)) || (total >? max_int)); [fin_err|].
    destruct ru2; cbn [negb].
    - unfold resize. destruct (bc2 <? total); cbn [d_rd];
        (rd r1 r2 total Hs o r1' r2' Hn; destruct o as [buf| |]; [|fin_err|fin_err]);
        specialize (Hn buf eq_refl);
        (destruct (maxSeg =? 0); [|destruct (demux_arena hb buf); [|fin_err|fin_err]]);
        unfold res_sim, caps_eq, with_rd; cbn [fst snd d_rd d_hdrcap d_bufcap d_reuse d_max];
        repeat split; intros; assumption.
    - rd r1 r2 total Hs o r1' r2' Hn. destruct o as [buf| |]; [|fin_err|fin_err].
      specialize (Hn buf eq_refl). destruct (demux_arena hb buf); [|fin_err|fin_err].
      unfold res_sim, caps_eq, with_rd; cbn [fst snd d_rd d_hdrcap d_bufcap d_reuse d_max].
      repeat split; intros; assumption.
  Qed.

  Lemma gdecode1_sim fixed s1 s2 : st_sim s1 s2 ->
    res_sim (gdecode1_gen rf1 fixed s1) (gdecode1_gen rf2 fixed s2).
  Proof.
    destruct s1 as [r1 hc1 bc1 ru1 mx1], s2 as [r2 hc2 bc2 ru2 mx2].
    intros [Hs [E1 [E2 [E3 E4]]]]. cbn [d_rd d_hdrcap d_bufcap d_reuse d_max] in *. subst.
    unfold gdecode1_gen. cbn [d_rd d_hdrcap d_bufcap d_reuse d_max].
    destruct (negb (mx2 =? 0) && (mx2 <? word_size)); [fin_err|].
    rd r1 r2 word_size Hs o r1' r2' Hn. destruct o as [w| |]; [|fin_err|fin_err].
    specialize (Hn w eq_refl). unfold with_rd. cbn [d_rd d_hdrcap d_bufcap d_reuse d_max].
    destruct (le32_get w + 1 >? seg_count_limit fixed); [fin_err|].
    destruct (le32_get w =? 0).
    { apply gdecode_body_sim. split; [assumption|]. repeat split. }
    destruct ((stream_header_size (le32_get w) >? (if mx2 =? 0 then default_decode_limit else mx2))
              || (stream_header_size (le32_get w) >? max_int)); [fin_err|].
    unfold resize. destruct (hc2 <? stream_header_size (le32_get w)); cbn [d_rd d_hdrcap d_bufcap d_reuse d_max];
      (rd r1' r2' (stream_header_size (le32_get w) - word_size) Hn o r1'' r2'' Hn2;
       destruct o as [rest| |]; [|fin_err|fin_err]);
      specialize (Hn2 rest eq_refl); apply gdecode_body_sim; (split; [assumption|]); repeat split.
  Qed.

  (* n Decode calls: as long as messages come out, the two decoders return the same messages
     with the same allocation logs; the first outcome that is not a message is the same too *)
  Fixpoint all_msgs (outs : list (dout * list alloc)) : bool :=
    match outs with
    | [] => true
    | (DMsg _, _) :: r => all_msgs r
    | _ => false
    end.

  Lemma gdecode_n_sim : forall n s1 s2, st_sim s1 s2 ->
    let x1 := gdecode_n rf1 s1 n in
    let x2 := gdecode_n rf2 s2 n in
    (all_msgs (snd x2) = true -> snd x1 = snd x2 /\ st_sim (fst x1) (fst x2)) /\
    (forall k, (k < n)%nat -> all_msgs (firstn k (snd x2)) = true ->
               firstn (S k) (snd x1) = firstn (S k) (snd x2)).
  Proof.
    induction n as [|n IH]; intros s1 s2 Hs; cbn zeta.
    - cbn [gdecode_n fst snd]. split; [auto|]. intros k Hk. lia.
    - cbn [gdecode_n].
      pose proof (gdecode1_sim true s1 s2 Hs) as [Ho [Hl [Hc Hm]]].
      destruct (gdecode1_gen rf1 true s1) as [[t1 o1] l1].
      destruct (gdecode1_gen rf2 true s2) as [[t2 o2] l2]. cbn [fst snd] in *. subst o2 l2.
      destruct o1 as [m| | |].
      + specialize (IH t1 t2 (conj (Hm m eq_refl) Hc)). cbn zeta in IH.
        destruct (gdecode_n rf1 t1 n) as [u1 outs1]. destruct (gdecode_n rf2 t2 n) as [u2 outs2].
        cbn [fst snd all_msgs] in *. destruct IH as [IH1 IH2]. split.
        * intros Ha. destruct (IH1 Ha) as [-> Hst]. split; [reflexivity|assumption].
        * intros k Hk Ha. destruct k as [|k]; [reflexivity|]. cbn [firstn all_msgs] in *.
          f_equal. apply IH2; [lia|assumption].
      + destruct (gdecode_n rf1 t1 n) as [u1 outs1]. destruct (gdecode_n rf2 t2 n) as [u2 outs2].
        cbn [fst snd all_msgs]. split; [discriminate|].
        intros k Hk Ha. destruct k as [|k]; [reflexivity|]. cbn [firstn all_msgs] in Ha. discriminate.
      + destruct (gdecode_n rf1 t1 n) as [u1 outs1]. destruct (gdecode_n rf2 t2 n) as [u2 outs2].
        cbn [fst snd all_msgs]. split; [discriminate|].
        intros k Hk Ha. destruct k as [|k]; [reflexivity|]. cbn [firstn all_msgs] in Ha. discriminate.
      + destruct (gdecode_n rf1 t1 n) as [u1 outs1]. destruct (gdecode_n rf2 t2 n) as [u2 outs2].
        cbn [fst snd all_msgs]. split; [discriminate|].
        intros k Hk Ha. destruct k as [|k]; [reflexivity|]. cbn [firstn all_msgs] in Ha. discriminate.
  Qed.
End Sim.
