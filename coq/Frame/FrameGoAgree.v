(* Tie of the header arithmetic of Frame.v to the translated Go source: Size.times is the only
   function used by the framing code that gotrans translates (coq/Gen/GoArith.v, regenerated
   from /repo on every run); [word_times] of Frame.v equals it on the whole int32 range.
   streamHeaderSize / segmentSize / totalSize are not in the translator's output; they are tied by
   the hdrsize / segsize / totalsize correspondence cases through the verif hook. *)
From Coq Require Import ZArith Lia Bool ZifyBool.
From CV Require Import Base.GoSem.
From CV Require Import Gen.GoArith.
From CV Require Import Frame.Frame.
Open Scope Z_scope.
Ltac Zify.zify_post_hook ::= Z.div_mod_to_equations.

Theorem word_times_is_go_times : forall n, -2147483648 <= n < 2147483648 ->
  go_times word_size n = match word_times n with Some x => (x, true) | None => (4294967295, false) end.
Proof.
  intros n Hn. unfold go_times, word_times, word_size, max_segment_size, two32.
  assert (Hx : wrap_s64 (8 * n) = 8 * n).
  { unfold wrap_s64. cbv zeta. destruct (_ <? _) eqn:E; lia. }
  rewrite Hx. cbv zeta. change (4294967296 - 8) with 4294967288.
  destruct ((8 * n >? 4294967288) || (8 * n <? 0)) eqn:E; [reflexivity|].
  f_equal. unfold wrap_u32. lia.
Qed.

(* the int32(uint32) conversion used by segmentSize lands in the range above *)
Lemma to_int32_range u : 0 <= u < two32 -> -2147483648 <= to_int32 u < 2147483648.
Proof. unfold to_int32, two31, two32. intros H. destruct (u <? 2147483648) eqn:E; lia. Qed.
