(* Composition of C13 with C14, part 4: a packed stream cut inside a packed item (the
   one-shot decoder rejects it).  The C13 specification says nothing about the bytes the
   reader hands out before it reports the error, so only this is claimed: no Decode call
   reports io.EOF before one has reported an error. *)
From CV Require Import Packed.PackedProofs.
From CV Require Import Packed.ReaderProofs.
From CV Require Import Packed.ReadCallProofs.
From CV Require Import Frame.Frame.
From CV Require Import Frame.FramePacked.
From CV Require Import Frame.FrameSim.
From CV Require Import Frame.FramePackedThms.
From Coq Require Import ZifyBool ZifyNat.
Open Scope Z_scope.

Fixpoint no_eof_before_error (outs : list dout) : Prop :=
  match outs with
  | [] => True
  | DMsg _ :: r => no_eof_before_error r
  | DEof :: _ => False
  | _ :: _ => True
  end.

(* the reader is in a state from which the one-shot decoder fails *)
Definition pinvalid (p : preader) : Prop :=
  p_stuck p = false /\ bvalid (p_b p) /\ bytes_ok (p_inp p) /\ D (p_b p) (p_inp p) = None.

Lemma pread_full_loop_none : forall fuel orc k b inp need got,
  bvalid b -> bytes_ok inp -> D b inp = None -> (need < fuel)%nat ->
  fst (pread_full_loop fuel orc k b inp need got) <> RFeof /\
  (forall r, fst (pread_full_loop fuel orc k b inp need got) = RFok r ->
             pinvalid (snd (pread_full_loop fuel orc k b inp need got))).
Proof.
  induction fuel as [|fuel IH]; intros orc k b inp need got Hv Hb HD Hf; [lia|].
  destruct need as [|need'].
  { cbn [pread_full_loop fst snd]. split; [discriminate|]. intros _ _.
    unfold pinvalid; cbn [p_stuck p_b p_inp]. auto. }
  cbn [pread_full_loop]. remember (S need') as need eqn:Hneed.
  destruct (read_call true orc k b inp need) as [[[[k' b'] inp'] g] oe] eqn:Ec.
  pose proof Ec as Ec'. apply read_call_spec in Ec; [|assumption|assumption|lia].
  destruct oe as [e|].
  - apply read_call_len_err in Ec'. rewrite HD in Ec. subst e.
    destruct (need <=? length g)%nat eqn:En; [lia|]. cbn [fst snd].
    split; [destruct (got || negb (length g =? 0)%nat); discriminate|].
    intros r Hr. destruct (got || negb (length g =? 0)%nat); discriminate.
  - destruct Ec as (Hg & Hv' & Hb' & HD' & _).
    rewrite HD in HD'. destruct (D b' inp') as [s'|] eqn:Es'; [discriminate|].
    assert (Hgl : (1 <= length g)%nat) by (destruct g; [congruence|cbn [length]; lia]).
    destruct (need <=? length g)%nat eqn:En.
    + cbn [fst snd]. split; [discriminate|]. intros _ _.
      unfold pinvalid; cbn [p_stuck p_b p_inp]. auto.
    + specialize (IH orc k' b' inp' (need - length g)%nat (got || negb (length g =? 0)%nat)
                     Hv' Hb' Es' ltac:(lia)).
      destruct (pread_full_loop fuel orc k' b' inp' (need - length g) (got || negb (length g =? 0)%nat))
        as [o p']. cbn [fst snd] in *. destruct IH as [I1 I2]. split.
      * destruct o; [discriminate|congruence|discriminate].
      * intros r Hr. destruct o as [r0| |]; [|discriminate|discriminate]. now apply (I2 r0).
Qed.

Lemma pread_full_none p n : pinvalid p ->
  fst (pread_full p n) <> RFeof /\ (forall b, fst (pread_full p n) = RFok b -> pinvalid (snd (pread_full p n))).
Proof.
  intros [Hst [Hv [Hb HD]]]. unfold pread_full. rewrite Hst.
  apply pread_full_loop_none; try assumption. lia.
Qed.

Section Inv.
  Variable R : Type.
  Variable rf : R -> Z -> rf_out * R.
  Variable I : R -> Prop.
  Hypothesis HI : forall r n, I r ->
    fst (rf r n) <> RFeof /\ (forall b, fst (rf r n) = RFok b -> I (snd (rf r n))).

  Definition inv_res (x : gstate R * dout * list alloc) : Prop :=
    snd (fst x) <> DEof /\ (forall m, snd (fst x) = DMsg m -> I (d_rd (fst (fst x)))).

  Tactic Notation "rdi" constr(r) constr(n) constr(Hr) ident(o) ident(r') ident(Hn) :=
    let Ho := fresh "Ho" in
    destruct (HI r n Hr) as [Ho Hn]; destruct (rf r n) as [o r']; cbn [fst snd] in Ho, Hn.

  Ltac fin_err := unfold inv_res, with_rd; cbn [fst snd d_rd]; split; [discriminate|intros ? [=]].

  Lemma gdecode_body_inv st maxSize maxSeg hb log : I (d_rd st) ->
    inv_res (gdecode_body rf st maxSize maxSeg hb log).
  Proof.
    destruct st as [r hc bc ru mx]. cbn [d_rd]. intros Hr.
    unfold gdecode_body. cbn [d_rd d_hdrcap d_bufcap d_reuse d_max].
    destruct (total_size hb) as [total| |]; [|fin_err|fin_err].
    destruct ((total >? wrap64 (maxSize - len hb)) || (total >? max_int)); [fin_err|].
    destruct ru; cbn [negb].
    - unfold resize. destruct (bc <? total); cbn [d_rd];
        (rdi r total Hr o r' Hn; destruct o as [buf| |]; [|fin_err|fin_err]);
        specialize (Hn buf eq_refl);
        (destruct (maxSeg =? 0); [|destruct (demux_arena hb buf); [|fin_err|fin_err]]);
        unfold inv_res, with_rd; cbn [fst snd d_rd]; (split; [discriminate|]); intros; assumption.
    - rdi r total Hr o r' Hn. destruct o as [buf| |]; [|fin_err|fin_err].
      specialize (Hn buf eq_refl). destruct (demux_arena hb buf); [|fin_err|fin_err].
      unfold inv_res, with_rd; cbn [fst snd d_rd]. split; [discriminate|]. intros; assumption.
  Qed.

  Lemma gdecode1_inv fixed st : I (d_rd st) -> inv_res (gdecode1_gen rf fixed st).
  Proof.
    destruct st as [r hc bc ru mx]. cbn [d_rd]. intros Hr.
    unfold gdecode1_gen. cbn [d_rd d_hdrcap d_bufcap d_reuse d_max].
    destruct (negb (mx =? 0) && (mx <? word_size)); [fin_err|].
    rdi r word_size Hr o r' Hn. destruct o as [w| |]; [|congruence|fin_err].
    specialize (Hn w eq_refl). unfold with_rd. cbn [d_rd d_hdrcap d_bufcap d_reuse d_max].
    destruct (le32_get w + 1 >? seg_count_limit fixed); [fin_err|].
    destruct (le32_get w =? 0); [now apply gdecode_body_inv|].
    destruct ((stream_header_size (le32_get w) >? (if mx =? 0 then default_decode_limit else mx))
              || (stream_header_size (le32_get w) >? max_int)); [fin_err|].
    unfold resize. destruct (hc <? stream_header_size (le32_get w)); cbn [d_rd d_hdrcap d_bufcap d_reuse d_max];
      (rdi r' (stream_header_size (le32_get w) - word_size) Hn o2 r'' Hn2;
       destruct o2 as [rest| |]; [|fin_err|fin_err]);
      specialize (Hn2 rest eq_refl); now apply gdecode_body_inv.
  Qed.

  Lemma gdecode_n_inv : forall n st, I (d_rd st) ->
    no_eof_before_error (map fst (snd (gdecode_n rf st n))).
  Proof.
    induction n as [|n IH]; intros st Hr; [exact Logic.I|]. cbn [gdecode_n].
    pose proof (gdecode1_inv true st Hr) as [H1 H2].
    destruct (gdecode1_gen rf true st) as [[st1 o] l]. cbn [fst snd] in *.
    specialize (IH st1). destruct (gdecode_n rf st1 n) as [st2 outs]. cbn [snd map fst] in *.
    destruct o as [m| | |]; cbn [no_eof_before_error]; [|congruence|exact Logic.I|exact Logic.I].
    apply IH. now apply (H2 m).
  Qed.
End Inv.

Theorem packed_cut_inside_item_no_eof : forall qp orc hc bc ru mx n st' outs,
  bytes_ok qp -> unpack qp = None ->
  pdecode_n (mkD (p_init orc qp) hc bc ru mx) n = (st', outs) ->
  no_eof_before_error (map fst outs).
Proof.
  intros qp orc hc bc ru mx n st' outs Hb Hu E.
  pose proof (gdecode_n_inv preader pread_full pinvalid pread_full_none n (mkD (p_init orc qp) hc bc ru mx)) as H.
  unfold pdecode_n in E. rewrite E in H. cbn [snd] in H. apply H. cbn [d_rd].
  unfold pinvalid, p_init. cbn [p_stuck p_b p_inp].
  split; [reflexivity|]. split; [exact bvalid_init|]. split; [assumption|]. now rewrite D_init.
Qed.

(* non-vacuity: the packed form of a one-segment message cut inside its last literal run *)
Example packed_cut_example :
  let m := [[1; 2; 3; 4; 5; 6; 7; 8; 9; 10; 11; 12; 13; 14; 15; 16]] in
  match encode_packed true m with
  | Ok p => unpack (firstn (length p - 3) p) = None /\
            map fst (snd (pdecode_n (d_init (p_init (fun _ => (false, false)) (firstn (length p - 3) p)) 0) 2))
            = [DErr EReadSegs; DEof]
  | _ => False
  end.
Proof. vm_compute. split; reflexivity. Qed.
