(* The Decoder gives the same results for every reader behaviour the io.Reader contract permits
   for a stream that ends with io.EOF: any chunking, (0, nil) reads, and the final io.EOF arriving
   together with the last bytes or by a separate read. *)
From CV Require Import Frame.Frame.
From CV Require Import Frame.FramePacked.
From CV Require Import Frame.FrameReaders.
From CV Require Import Frame.FrameProofs.
From CV Require Import Frame.FrameSafe.
From CV Require Import Frame.FrameStream.
From CV Require Import Frame.FrameThms.
From CV Require Import Frame.FrameSim.
From CV Require Import Frame.FramePackedThms.
From Coq Require Import ZifyBool ZifyNat.
Ltac Zify.zify_post_hook ::= Z.div_mod_to_equations.
Open Scope Z_scope.

(* io.ReadFull over an [xreader] whose stream ends with io.EOF: outcome and remaining bytes are
   those of [read_full_flat] on the concatenated stream, whatever the chunking, the empty reads
   and the way the io.EOF is delivered *)
Lemma xread_full_loop_flat : forall cs tog need got,
  (fst (xread_full_loop cs EOF tog need got),
   concat (x_chunks (snd (xread_full_loop cs EOF tog need got))),
   x_final (snd (xread_full_loop cs EOF tog need got)))
  = read_full_flat (concat cs) EOF need got
  /\ x_tog (snd (xread_full_loop cs EOF tog need got)) = tog.
Proof.
  induction cs as [|c cs IH]; intros tog need got.
  - unfold read_full_flat. cbn [xread_full_loop concat].
    destruct (need <=? 0) eqn:E0; [split; reflexivity|]. change (len (@nil Z)) with 0.
    destruct (need <=? 0) eqn:E1; [lia|]. cbn [fst snd x_chunks x_final x_tog concat].
    rewrite orb_false_r. split; [destruct got; reflexivity|reflexivity].
  - cbn [xread_full_loop concat]. unfold read_full_flat.
    destruct (need <=? 0) eqn:E0; [split; reflexivity|].
    rewrite len_app. pose proof (len_nonneg c). pose proof (len_nonneg (concat cs)).
    destruct (len c <=? need) eqn:Ec.
    + destruct (tog && is_nil cs) eqn:Et.
      * (* last chunk with the io.EOF *)
        destruct cs as [|c2 cs2]; [|destruct tog; discriminate]. cbn [concat] in *.
        change (len (@nil Z)) with 0. rewrite Z.add_0_r, app_nil_r.
        destruct (need <=? len c) eqn:E2.
        -- assert (need = len c) by lia. subst need. cbn [fst snd x_chunks x_final x_tog concat].
           unfold len. rewrite Nat2Z.id, firstn_all, skipn_all. split; reflexivity.
        -- cbn [fst snd x_chunks x_final x_tog concat]. split; [|reflexivity]. f_equal. f_equal.
           destruct got; [reflexivity|]. cbn [orb].
           destruct (len c =? 0) eqn:E3; cbn [negb].
           ++ replace (0 <? len c) with false by lia. reflexivity.
           ++ replace (0 <? len c) with true by lia. reflexivity.
      * destruct (IH tog (need - len c) (got || negb (len c =? 0))) as [IH1 IH2].
        destruct (xread_full_loop cs EOF tog (need - len c) (got || negb (len c =? 0))) as [o r] eqn:Er.
        unfold read_full_flat in IH1. cbn [fst snd] in *. split; [|assumption].
        destruct (need - len c <=? 0) eqn:E1.
        -- injection IH1 as -> Hc Hf. rewrite Hc, Hf.
           destruct (need <=? len c + len (concat cs)) eqn:E2; [|lia].
           assert (need = len c) by lia. subst need. rewrite app_nil_r.
           now rewrite firstn_app_len, skipn_app_len.
        -- destruct (need - len c <=? len (concat cs)) eqn:E2.
           ++ injection IH1 as -> Hc Hf. rewrite Hc, Hf.
              destruct (need <=? len c + len (concat cs)) eqn:E3; [|lia].
              replace (Z.to_nat need) with (length c + Z.to_nat (need - len c))%nat by (unfold len in *; lia).
              now rewrite firstn_app_2, skipn_add_app.
           ++ injection IH1 as -> Hc Hf. rewrite Hc, Hf.
              destruct (need <=? len c + len (concat cs)) eqn:E3; [lia|].
              f_equal. f_equal.
              destruct got; cbn [orb]; [reflexivity|].
              destruct (len c =? 0) eqn:E4; cbn [negb orb].
              ** replace (0 <? len c + len (concat cs)) with (0 <? len (concat cs)) by lia.
                 destruct (0 <? len (concat cs)); reflexivity.
              ** replace (0 <? len c + len (concat cs)) with true by lia. reflexivity.
    + cbn [fst snd x_chunks x_final x_tog concat]. split; [|reflexivity].
      destruct (need <=? len c + len (concat cs)) eqn:E3; [|lia].
      rewrite firstn_app. replace (Z.to_nat need - length c)%nat with 0%nat by (unfold len in *; lia).
      cbn [firstn]. rewrite app_nil_r.
      rewrite skipn_app. replace (Z.to_nat need - length c)%nat with 0%nat by (unfold len in *; lia).
      reflexivity.
Qed.

(* an xreader and a plain reader holding the same bytes, both ending with io.EOF *)
Definition xsim (x : xreader) (r : reader) : Prop :=
  concat (x_chunks x) = concat (r_chunks r) /\ x_final x = EOF /\ r_final r = EOF.

Lemma xsim_rf : forall x r n, xsim x r ->
  fst (xread_full x n) = fst (read_full r n) /\
  (forall b, fst (xread_full x n) = RFok b -> xsim (snd (xread_full x n)) (snd (read_full r n))).
Proof.
  intros [cs fin tog] r n [Hc [Hf Hr]]. cbn [x_chunks x_final] in *. subst fin.
  pose proof (read_full_flat_eq r n) as F. unfold flat in F. rewrite Hr, <- Hc in F.
  unfold xread_full. cbn [x_chunks x_final x_tog].
  destruct (xread_full_loop_flat cs tog n false) as [X _]. rewrite <- F in X.
  destruct (xread_full_loop cs EOF tog n false) as [o x']. destruct (read_full r n) as [o2 r2].
  cbn [fst snd] in *. injection X as -> X2 X3. split; [reflexivity|]. intros b _.
  (* the final error of the plain reader stays io.EOF *)
  assert (Hr2 : r_final r2 = EOF).
  { unfold read_full_flat in F. destruct (n <=? 0); [congruence|]. destruct (n <=? len (concat cs)); congruence. }
  split; [assumption|]. split; [|assumption]. congruence.
Qed.

Lemma x_st_sim cs tog r hc bc ru mx : concat cs = concat (r_chunks r) -> r_final r = EOF ->
  st_sim xreader reader xsim (mkD (mkX cs EOF tog) hc bc ru mx) (mkD r hc bc ru mx).
Proof. intros Hc Hr. split; [split; [assumption|split; [reflexivity|assumption]]|]. repeat split. Qed.

(* transfer of a history of the plain decoder (messages, then one more outcome) to any xreader *)
Lemma x_transfer cs tog hc bc ru mx ms last st2 outs2 :
  decode_n (mkD (mkReader cs EOF) hc bc ru mx) (S (length ms)) = (st2, outs2) ->
  map fst outs2 = map DMsg ms ++ [last] ->
  exists st1, gdecode_n xread_full (mkD (mkX cs EOF tog) hc bc ru mx) (S (length ms)) = (st1, outs2).
Proof.
  intros Hd Hm. rewrite decode_n_gdecode_n in Hd.
  pose proof (gdecode_n_sim xreader reader xread_full read_full xsim xsim_rf (S (length ms))
                (mkD (mkX cs EOF tog) hc bc ru mx) (mkD (mkReader cs EOF) hc bc ru mx)
                (x_st_sim cs tog (mkReader cs EOF) hc bc ru mx eq_refl eq_refl)) as [_ H2].
  cbn zeta in H2.
  pose proof (gdecode_n_length xread_full (S (length ms)) (mkD (mkX cs EOF tog) hc bc ru mx)) as L1.
  pose proof (gdecode_n_length read_full (S (length ms)) (mkD (mkReader cs EOF) hc bc ru mx)) as L2.
  rewrite Hd in H2, L2. cbn [snd] in H2, L2.
  destruct (gdecode_n xread_full (mkD (mkX cs EOF tog) hc bc ru mx) (S (length ms))) as [st1 outs1].
  cbn [snd] in *. exists st1. f_equal.
  specialize (H2 (length ms) ltac:(lia) (all_msgs_prefix ms outs2 [last] Hm)).
  rewrite (firstn_all2 outs1) in H2 by lia. rewrite (firstn_all2 outs2) in H2 by lia. exact H2.
Qed.

(* C14 first half for every reader behaviour permitted by the io.Reader contract: any chunking,
   (0, nil) reads (empty chunks), the final io.EOF together with the last bytes ([tog] = true) or
   by a separate read: the messages in order, then io.EOF *)
Theorem decode_encode_stream_any_reader : forall msgs frames cs tog hc bc ru mx,
  max_ok mx ->
  Forall2 (fun m f => encode true m = Ok f) msgs frames ->
  Forall (fun m => len m <= max_stream_segments) msgs ->
  Forall (fun f => len f <= eff_max mx) frames ->
  concat cs = concat frames ->
  exists st' outs,
    gdecode_n xread_full (mkD (mkX cs EOF tog) hc bc ru mx) (S (length msgs)) = (st', outs)
    /\ map fst outs = map DMsg msgs ++ [DEof].
Proof.
  intros msgs frames cs tog hc bc ru mx Hmx He Hn Hl Hcs.
  destruct (decode_encode_stream msgs frames cs hc bc ru mx Hmx He Hn Hl Hcs) as [st2 [outs2 [Hd Hm]]].
  destruct (x_transfer cs tog hc bc ru mx msgs DEof st2 outs2 Hd Hm) as [st1 E].
  now exists st1, outs2.
Qed.

Theorem cut_is_error_any_reader : forall msgs m q tail cs tog hc bc ru mx,
  max_ok mx -> Forall (frame_ok mx) msgs -> frame_ok mx m ->
  frame m = q ++ tail -> q <> [] -> tail <> [] ->
  concat cs = concat (map frame msgs) ++ q ->
  exists st' outs e,
    gdecode_n xread_full (mkD (mkX cs EOF tog) hc bc ru mx) (S (length msgs)) = (st', outs)
    /\ map fst outs = map DMsg msgs ++ [DErr e] /\ (e = EReadHeader \/ e = EReadSegs).
Proof.
  intros msgs m q tail cs tog hc bc ru mx Hmx Hok Hm Hf Hq Ht Hcs.
  destruct (cut_is_error msgs m q tail cs EOF hc bc ru mx Hmx Hok Hm Hf Hq Ht Hcs) as [st2 [outs2 [e [Hd [Hmap He]]]]].
  destruct (x_transfer cs tog hc bc ru mx msgs (DErr e) st2 outs2 Hd Hmap) as [st1 E].
  now exists st1, outs2, e.
Qed.

(* the seeded defect C14-r2-2 (a ReadFull that tests the error before counting the bytes that
   came with it) on the model: a complete one-frame stream delivered in one Read together with
   io.EOF loses its message; io.ReadFull returns it.  Also non-vacuity of the theorems above. *)
Example readfull_drop_refuted :
  let fr := [0; 0; 0; 0; 1; 0; 0; 0; 1; 2; 3; 4; 5; 6; 7; 8] in
  let st := d_init (mkX [fr] EOF true) 0 in
  snd (fst (gdecode1_gen xread_full_drop true st)) = DErr EReadSegs /\
  snd (fst (gdecode1_gen xread_full_drop true (d_init (mkX [[0; 0; 0; 0; 0; 0; 0; 0]] EOF true) 0))) = DEof /\
  snd (fst (xdecode1 (d_init (mkX [[0; 0; 0; 0; 0; 0; 0; 0]] EOF true) 0))) = DMsg [[]] /\
  map fst (snd (gdecode_n xread_full st 2)) = [DMsg [[1; 2; 3; 4; 5; 6; 7; 8]]; DEof] /\
  map fst (snd (gdecode_n xread_full (d_init (mkX [[0]; []; [0; 0; 0; 1; 0; 0]; [0; 1; 2; 3; 4; 5; 6; 7; 8]] EOF true) 0) 2))
    = [DMsg [[1; 2; 3; 4; 5; 6; 7; 8]]; DEof].
Proof. vm_compute. repeat split; reflexivity. Qed.
