(* Decoder.Decode with ReuseBuffer at the level of buffer CONTENTS and of the reused Message
   object (message.go: Decoder.Decode reuse path, resizeSlice, demuxArena, Message.Reset,
   Message.Segment/segment/setSegment).  Frame.v models reuse by buffer capacities only; here
     - d.hdrbuf and d.buf are byte arrays that keep their old contents when they are large enough
       (resizeSlice returns b[:size]); a new array (zeroed) is allocated only when cap < size and
       the old arrays stay alive as long as something points into them ([u_heap]);
     - a segment handed out is a slice (array, offset, length) of d.buf's array, not a copy;
     - the Message returned is the one object d.msg, with its cache of loaded segments
       (firstSeg, segs) that Message.Reset has to drop.
   [reset_kind] selects Message.Reset as written (ResetFull) or one of the two broken variants seen
   as seeded changes (kept for the refuted examples).  No proofs in this file. *)
From CV Require Export Frame.Frame.
Open Scope Z_scope.

(* a Go slice: backing array (index into the heap of arrays), offset, length *)
Record view := mkV { v_arr : nat; v_off : Z; v_len : Z }.

Definition deref (heap : list (list Z)) (v : view) : list Z :=
  firstn (Z.to_nat (v_len v)) (skipn (Z.to_nat (v_off v)) (nth (v_arr v) heap [])).

(* copy(b[off:], data) *)
Definition overwrite (b : list Z) (off : Z) (data : list Z) : list Z :=
  firstn (Z.to_nat off) b ++ data ++ skipn (Z.to_nat (off + len data)) b.

Fixpoint set_nth {A} (n : nat) (l : list A) (x : A) : list A :=
  match n, l with
  | O, _ :: r => x :: r
  | S n', y :: r => y :: set_nth n' r x
  | _, [] => []
  end.

(* ---------------------------------------------------------------- Arena and Message *)

Inductive arena_v :=
| ANil
| ASingle (v : view)            (* roSingleSegment: d.arena, ONE object, always the same pointer *)
| AMulti (vs : list view).      (* MultiSegment(segs): a new arena object every time *)

Definition arena_nsegs (a : arena_v) : Z :=
  match a with ANil => 0 | ASingle _ => 1 | AMulti vs => len vs end.

Definition arena_data (a : arena_v) (id : Z) : option view :=
  match a with
  | ANil => None
  | ASingle v => if id =? 0 then Some v else None
  | AMulti vs => if id <? 0 then None else nth_error vs (Z.to_nat id)
  end.

(* Message: Arena, firstSeg (msg != nil), segs (nil or a map) *)
Record msgobj := mkMsg { mo_arena : arena_v; mo_first : option view; mo_segs : option (list (Z * view)) }.
Definition msg0 : msgobj := mkMsg ANil None None.

Fixpoint assoc (id : Z) (l : list (Z * view)) : option view :=
  match l with
  | [] => None
  | (k, v) :: r => if k =? id then Some v else assoc id r
  end.

Inductive reset_kind :=
| ResetFull             (* the code: m.segs = nil; m.firstSeg = Segment{}; m.Arena = arena *)
| ResetIfArenaDiffers   (* seeded C14-r4-2: only "if arena != m.Arena" *)
| ResetKeepsFirst.      (* seeded C03-r4-1: m.firstSeg not cleared *)

Definition same_arena_object (a b : arena_v) : bool :=
  match a, b with ASingle _, ASingle _ => true | _, _ => false end.

Definition msg_reset (k : reset_kind) (m : msgobj) (a : arena_v) : msgobj :=
  match k with
  | ResetFull => mkMsg a None None
  | ResetIfArenaDiffers =>
    if same_arena_object a (mo_arena m) then mkMsg a (mo_first m) (mo_segs m) else mkMsg a None None
  | ResetKeepsFirst => mkMsg a (mo_first m) None
  end.

(* func (m *Message) Segment(id): bounds test, then segment(id): the cached firstSeg / segs[id],
   else Arena.Data(id) and setSegment *)
Definition msg_segment (m : msgobj) (id : Z) : msgobj * option view :=
  if id >=? arena_nsegs (mo_arena m) then (m, None)
  else
    match mo_segs m, id =? 0, mo_first m with
    | None, true, Some v => (m, Some v)
    | _, _, _ =>
      match (match mo_segs m with Some l => assoc id l | None => None end) with
      | Some v => (m, Some v)
      | None =>
        match arena_data (mo_arena m) id with
        | None => (m, None)
        | Some v =>
          match mo_segs m with
          | None =>
            if id =? 0 then (mkMsg (mo_arena m) (Some v) None, Some v)
            else (mkMsg (mo_arena m) (mo_first m)
                        (Some ((id, v) :: match mo_first m with Some f => [(0, f)] | None => [] end)), Some v)
          | Some l => (mkMsg (mo_arena m) (mo_first m) (Some ((id, v) :: l)), Some v)
          end
        end
      end
    end.

(* the caller reads every segment of the message: Segment(0) .. Segment(n-1) and their bytes *)
Fixpoint read_segs (heap : list (list Z)) (n : nat) (id : Z) (m : msgobj) : msgobj * list (option (list Z)) :=
  match n with
  | O => (m, [])
  | S n' =>
    let '(m1, ov) := msg_segment m id in
    let '(m2, r) := read_segs heap n' (id + 1) m1 in
    (m2, option_map (deref heap) ov :: r)
  end.

Definition read_all (heap : list (list Z)) (m : msgobj) : msgobj * list (option (list Z)) :=
  read_segs heap (Z.to_nat (arena_nsegs (mo_arena m))) 0 m.

(* ---------------------------------------------------------------- the decoder *)

Record ustate := mkU {
  u_rd : reader;
  u_hdrbuf : list Z;            (* d.hdrbuf[:cap] *)
  u_heap : list (list Z);       (* every array ever allocated for d.buf *)
  u_cur : nat;                  (* the array d.buf points to *)
  u_msg : msgobj;               (* d.msg *)
  u_max : Z
}.

Definition u_buf (st : ustate) : list Z := nth (u_cur st) (u_heap st) [].

Inductive uout := UMsg | UEof | UErr (e : ferr) | UPanic.

(* demuxArena over d.buf: segs[i], data = data[:sz:sz], data[sz:] as slices of array [arr] *)
Fixpoint demux_views (n : nat) (hb : list Z) (i : Z) (arr : nat) (off avail : Z) : res (list view) :=
  match n with
  | O => Ok []
  | S n' =>
    do sz <- segment_size hb (wrap32 i);
    if avail <? sz then Panic
    else do r <- demux_views n' hb (i + 1) arr (off + sz) (avail - sz); Ok (mkV arr off sz :: r)
  end.

(* bytes that a failed io.ReadFull has still written: everything the reader had *)
Definition read_rest (r : reader) (need : Z) : list Z := firstn (Z.to_nat need) (concat (r_chunks r)).

Definition with_u (st : ustate) (r : reader) (hb : list Z) (heap : list (list Z)) (cur : nat) (m : msgobj) : ustate :=
  mkU r hb heap cur m (u_max st).

Definition rdecode_body (k : reset_kind) (st : ustate) (rd : reader) (hdrbuf : list Z) (maxSize maxSeg : Z)
           (hb : list Z) : ustate * uout :=
  match total_size hb with
  | Err e => (with_u st rd hdrbuf (u_heap st) (u_cur st) (u_msg st), UErr e)
  | Panic => (with_u st rd hdrbuf (u_heap st) (u_cur st) (u_msg st), UPanic)
  | Ok total =>
    if (total >? wrap64 (maxSize - len hb)) || (total >? max_int)
    then (with_u st rd hdrbuf (u_heap st) (u_cur st) (u_msg st), UErr ETooLarge)
    else
      (* d.buf = resizeSlice(d.buf, int(total)) *)
      let '(heap, cur) := if len (u_buf st) <? total
                          then (u_heap st ++ [zeros (Z.to_nat total)], length (u_heap st))
                          else (u_heap st, u_cur st) in
      let arr := nth cur heap [] in
      match read_full rd total with
      | (RFok b, r') =>
        let heap' := set_nth cur heap (overwrite arr 0 b) in
        let arena :=
          if maxSeg =? 0 then Ok (ASingle (mkV cur 0 total))     (* d.buf[:len(d.buf):len(d.buf)] *)
          else match max_segment hb with
               | Ok m => match demux_views (Z.to_nat (m + 1)) hb 0 cur 0 total with
                         | Ok vs => Ok (AMulti vs) | Err e => Err e | Panic => Panic end
               | Err e => Err e | Panic => Panic
               end in
        match arena with
        | Ok a => (with_u st r' hdrbuf heap' cur (msg_reset k (u_msg st) a), UMsg)
        | Err e => (with_u st r' hdrbuf heap' cur (u_msg st), UErr e)
        | Panic => (with_u st r' hdrbuf heap' cur (u_msg st), UPanic)
        end
      | (_, r') =>
        (with_u st r' hdrbuf (set_nth cur heap (overwrite arr 0 (read_rest rd total))) cur (u_msg st), UErr EReadSegs)
      end
  end.

Definition rdecode1_gen (k : reset_kind) (st : ustate) : ustate * uout :=
  let maxSize := if u_max st =? 0 then default_decode_limit else u_max st in
  if negb (u_max st =? 0) && (u_max st <? word_size) then (st, UErr EConfig)
  else
    match read_full (u_rd st) word_size with
    | (RFeof, r') => (with_u st r' (u_hdrbuf st) (u_heap st) (u_cur st) (u_msg st), UEof)
    | (RFerr, r') => (with_u st r' (u_hdrbuf st) (u_heap st) (u_cur st) (u_msg st), UErr EReadHeader)
    | (RFok w, r') =>
      let keep := with_u st r' (u_hdrbuf st) (u_heap st) (u_cur st) (u_msg st) in
      let maxSeg := le32_get w in
      if maxSeg + 1 >? seg_count_limit true then (keep, UErr ETooManySegs)
      else if maxSeg =? 0 then rdecode_body k st r' (u_hdrbuf st) maxSize maxSeg w     (* hdr = d.wordbuf[:] *)
      else
        let hdrSize := stream_header_size maxSeg in
        if (hdrSize >? maxSize) || (hdrSize >? max_int) then (keep, UErr ETooLarge)
        else
          (* d.hdrbuf = resizeSlice(d.hdrbuf, int(hdrSize)); copy(d.hdrbuf, d.wordbuf[:]) *)
          let hb0 := if len (u_hdrbuf st) <? hdrSize then zeros (Z.to_nat hdrSize) else u_hdrbuf st in
          let hb1 := overwrite hb0 0 w in
          match read_full r' (hdrSize - word_size) with
          | (RFok rest, r'') =>
            let hb2 := overwrite hb1 word_size rest in
            rdecode_body k st r'' hb2 maxSize maxSeg (firstn (Z.to_nat hdrSize) hb2)   (* d.hdrbuf[:hdrSize] *)
          | (_, r'') =>
            (with_u st r'' (overwrite hb1 word_size (read_rest r' (hdrSize - word_size))) (u_heap st) (u_cur st) (u_msg st),
             UErr EReadHeader)
          end
    end.

Definition rdecode1 : ustate -> ustate * uout := rdecode1_gen ResetFull.

(* the capacities-only view of a content-level state: what Frame.v's decode1 sees *)
Definition u_abs (st : ustate) : dstate :=
  mkD (u_rd st) (len (u_hdrbuf st)) (len (u_buf st)) true (u_max st).

(* a history as a caller sees it: Decode, then read every segment of the returned message
   (which fills the Message's segment cache), then the next Decode ... *)
Fixpoint rdecode_read_n (k : reset_kind) (st : ustate) (n : nat) : list (uout * list (option (list Z))) :=
  match n with
  | O => []
  | S n' =>
    let '(st1, o) := rdecode1_gen k st in
    match o with
    | UMsg =>
      let '(m', segs) := read_all (u_heap st1) (u_msg st1) in
      (o, segs) :: rdecode_read_n k (mkU (u_rd st1) (u_hdrbuf st1) (u_heap st1) (u_cur st1) m' (u_max st1)) n'
    | _ => (o, []) :: rdecode_read_n k st1 n'
    end
  end.
