From CV Require Import Frame.Frame.
From Coq Require Import ZifyBool ZifyNat.
Ltac Zify.zify_post_hook ::= Z.div_mod_to_equations.
Open Scope Z_scope.

Lemma stream_header_size_eq m : 0 <= m < two32 ->
  stream_header_size m = 8 * ((4 * m + 15) / 8).
Proof.
  intros H. unfold stream_header_size, wrap64, two32, two64 in *.
  rewrite (Z.mod_small ((m + 2) * 4)) by lia.
  rewrite (Z.mod_small ((m + 2) * 4 + 7)) by lia.
  lia.
Qed.
