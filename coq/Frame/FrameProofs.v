(* Proofs about the framing model, part 1: header arithmetic, the segment table written by
   Marshal/Encode is read back by segmentSize/totalSize/demuxArena, Unmarshal (Marshal x) = x,
   Unmarshal never panics and allocates linearly. *)
From CV Require Import Frame.Frame.
From Coq Require Import ZifyBool ZifyNat.
Ltac Zify.zify_post_hook ::= Z.div_mod_to_equations.
Open Scope Z_scope.

(* ------------------------------------------------------------ generic list facts *)

Lemma len_nonneg {A} (l : list A) : 0 <= len l.
Proof. unfold len. lia. Qed.

Lemma len_app {A} (a b : list A) : len (a ++ b) = len a + len b.
Proof. unfold len. rewrite app_length. lia. Qed.

Lemma len_nil {A} : len (@nil A) = 0.
Proof. reflexivity. Qed.

Lemma len_cons {A} (x : A) l : len (x :: l) = 1 + len l.
Proof. unfold len. simpl length. lia. Qed.

Lemma len_firstn {A} (l : list A) n : 0 <= n <= len l -> len (firstn (Z.to_nat n) l) = n.
Proof. unfold len. intros. rewrite firstn_length. lia. Qed.

Lemma len_skipn {A} (l : list A) n : 0 <= n <= len l -> len (skipn (Z.to_nat n) l) = len l - n.
Proof. unfold len. intros. rewrite skipn_length. lia. Qed.

Lemma len_zeros n : len (zeros n) = Z.of_nat n.
Proof. unfold len, zeros. now rewrite repeat_length. Qed.

Lemma firstn_app_len {A} (a b : list A) : firstn (Z.to_nat (len a)) (a ++ b) = a.
Proof.
  unfold len. rewrite Nat2Z.id. rewrite firstn_app, Nat.sub_diag, firstn_all. simpl. apply app_nil_r.
Qed.

Lemma skipn_app_len {A} (a b : list A) : skipn (Z.to_nat (len a)) (a ++ b) = b.
Proof.
  unfold len. rewrite Nat2Z.id. rewrite skipn_app, Nat.sub_diag, skipn_all. reflexivity.
Qed.

Lemma bytes_ok_app a b : bytes_ok (a ++ b) <-> bytes_ok a /\ bytes_ok b.
Proof. unfold bytes_ok. apply Forall_app. Qed.

(* ------------------------------------------------------------ numbers *)

Lemma stream_header_size_eq m : 0 <= m < two32 ->
  stream_header_size m = 8 * ((4 * m + 15) / 8).
Proof.
  intros H. unfold stream_header_size, wrap64, two32, two64 in *.
  rewrite (Z.mod_small ((m + 2) * 4)) by lia.
  rewrite (Z.mod_small ((m + 2) * 4 + 7)) by lia.
  lia.
Qed.

Lemma stream_header_size_bounds m : 0 <= m < two32 ->
  4 * (m + 2) <= stream_header_size m <= 4 * (m + 2) + 4 /\ stream_header_size m mod 8 = 0.
Proof. intros H. rewrite stream_header_size_eq by assumption. unfold two32 in *. lia. Qed.

Lemma wrap32_small z : 0 <= z < two32 -> wrap32 z = z.
Proof. intros. unfold wrap32. now apply Z.mod_small. Qed.

Lemma wrap64_small z : 0 <= z < two64 -> wrap64 z = z.
Proof. intros. unfold wrap64. now apply Z.mod_small. Qed.

Lemma wrap32_le z : 0 <= z -> 0 <= wrap32 z <= z.
Proof. intros. unfold wrap32, two32. lia. Qed.

Lemma seg_index_small i : 0 <= i -> 4 + 4 * i < two32 -> seg_index i = 4 + 4 * i.
Proof.
  intros. unfold seg_index, two32 in *. rewrite (wrap32_small (i * 4)) by (unfold two32; lia).
  rewrite wrap32_small by (unfold two32; lia). lia.
Qed.

Lemma seg_index_le i : 0 <= i -> 0 <= seg_index i <= 4 + 4 * i.
Proof.
  intros. unfold seg_index.
  pose proof (wrap32_le (i * 4) ltac:(lia)).
  pose proof (wrap32_le (4 + wrap32 (i * 4)) ltac:(lia)). lia.
Qed.

(* the index computed in uint32 wraps: segment 2^30-1 is read from offset 0 (the count word) *)
Example seg_index_wraps : seg_index (1073741823) = 0.
Proof. vm_compute. reflexivity. Qed.

Lemma word_times_bound n x : word_times n = Some x -> 0 <= x <= max_segment_size /\ x = 8 * n.
Proof.
  unfold word_times, word_size, max_segment_size, two32. intros H.
  destruct ((8 * n >? 4294967296 - 8) || (8 * n <? 0)) eqn:E; [discriminate|].
  assert (Hx : x = 8 * n) by congruence. lia.
Qed.

Lemma segment_size_bound hb i x : segment_size hb i = Ok x -> 0 <= x <= max_segment_size.
Proof.
  unfold segment_size, bind. destruct (uint32_at hb (seg_index i)); try discriminate.
  destruct (word_times (to_int32 a)) eqn:E; [|discriminate].
  intros H. injection H as <-. now apply word_times_bound in E.
Qed.

(* ------------------------------------------------------------ le32 *)

Lemma le32_length v : length (le32 v) = 4%nat.
Proof. reflexivity. Qed.

Lemma le32_bytes_ok v : bytes_ok (le32 v).
Proof. unfold le32, bytes_ok, byte_ok. repeat constructor; lia. Qed.

Lemma le32_get_le32 v r : 0 <= v < two32 -> le32_get (le32 v ++ r) = v.
Proof. unfold le32_get, le32, two32. cbn [nth app]. lia. Qed.

Lemma le32_get_range b : bytes_ok b -> 0 <= le32_get b < two32.
Proof.
  intros Hb. unfold le32_get, two32.
  assert (H : forall k, 0 <= nth k b 0 < 256).
  { intros k. destruct (Nat.lt_ge_cases k (length b)) as [Hk|Hk].
    - unfold bytes_ok in Hb. rewrite Forall_forall in Hb. apply Hb. now apply nth_In.
    - rewrite nth_overflow by assumption. lia. }
  pose proof (H 0%nat). pose proof (H 1%nat). pose proof (H 2%nat). pose proof (H 3%nat). lia.
Qed.

Lemma le32_get_app4 a b : (4 <= length a)%nat -> le32_get (a ++ b) = le32_get a.
Proof.
  intros H. unfold le32_get. now rewrite !app_nth1 by lia.
Qed.

Lemma le32_zero : le32 0 = zeros 4.
Proof. reflexivity. Qed.

(* ------------------------------------------------------------ the segment table *)

Definition size_word (s : list Z) : Z := wrap32 (len s / word_size).
Definition table (segs : list (list Z)) : list Z := flat_map (fun s => le32 (size_word s)) segs.

Lemma header_words_eq segs : header_words segs = le32 (wrap32 (len segs - 1)) ++ table segs.
Proof. reflexivity. Qed.

Lemma table_length segs : length (table segs) = (4 * length segs)%nat.
Proof. unfold table. induction segs as [|s r IH]; [reflexivity|]. cbn [flat_map length]. rewrite app_length, IH, le32_length. lia. Qed.

Lemma header_words_len segs : len (header_words segs) = 4 + 4 * len segs.
Proof. unfold len. rewrite header_words_eq, app_length, table_length, le32_length. lia. Qed.

Lemma table_app a b : table (a ++ b) = table a ++ table b.
Proof. unfold table. now rewrite flat_map_app. Qed.

(* reading entry i of a table: the bytes at offset 4+4i of [count ++ table segs ++ rest] *)
Lemma uint32_at_table c pre s post rest :
  length c = 4%nat ->
  uint32_at (c ++ table (pre ++ s :: post) ++ rest) (4 + 4 * len pre) = Ok (size_word s).
Proof.
  intros Hc. unfold uint32_at.
  assert (Hlen : 4 + 4 * len pre + 4 <= len (c ++ table (pre ++ s :: post) ++ rest)).
  { rewrite !len_app. unfold len at 2 3. rewrite table_length, app_length, Hc. simpl length.
    pose proof (len_nonneg rest). unfold len. lia. }
  destruct (4 + 4 * len pre + 4 <=? _) eqn:E; [|lia]. f_equal.
  replace (Z.to_nat (4 + 4 * len pre)) with (length (c ++ table pre)).
  2:{ rewrite app_length, table_length, Hc. unfold len. lia. }
  rewrite table_app, <- app_assoc. rewrite (app_assoc c).
  rewrite skipn_app, Nat.sub_diag, skipn_all. cbn [app skipn table flat_map].
  rewrite <- !app_assoc. apply le32_get_le32.
  unfold size_word. unfold wrap32, two32. lia.
Qed.

(* a segment the encoders accept: whole words, at most maxSegmentSize *)
Definition seg_ok (s : list Z) : Prop := len s mod 8 = 0 /\ len s <= max_segment_size.
Definition segs_ok (segs : list (list Z)) : Prop := Forall seg_ok segs.

Lemma size_word_ok s : seg_ok s -> word_times (to_int32 (size_word s)) = Some (len s).
Proof.
  intros [Ha Hb]. pose proof (len_nonneg s).
  unfold size_word, word_size, max_segment_size, two32 in *.
  rewrite wrap32_small by (unfold two32; lia).
  unfold to_int32, two31. destruct (len s / 8 <? 2147483648) eqn:E; [|lia].
  unfold word_times, word_size, max_segment_size, two32.
  destruct ((8 * (len s / 8) >? 4294967296 - 8) || (8 * (len s / 8) <? 0)) eqn:E2; [lia|].
  f_equal. lia.
Qed.

Lemma segment_size_table c pre s post rest :
  length c = 4%nat -> seg_ok s -> 4 + 4 * len pre < two32 ->
  segment_size (c ++ table (pre ++ s :: post) ++ rest) (len pre) = Ok (len s).
Proof.
  intros Hc Hs Hi. unfold segment_size.
  rewrite seg_index_small by (pose proof (len_nonneg pre); lia).
  rewrite uint32_at_table by assumption. cbn [bind]. now rewrite size_word_ok.
Qed.

Fixpoint sum_len (segs : list (list Z)) : Z :=
  match segs with [] => 0 | s :: r => len s + sum_len r end.

Lemma sum_len_nonneg segs : 0 <= sum_len segs.
Proof. induction segs as [|s r IH]; cbn [sum_len]; [lia|]. pose proof (len_nonneg s). lia. Qed.

Lemma sum_len_concat segs : len (concat segs) = sum_len segs.
Proof. induction segs as [|s r IH]; [reflexivity|]. cbn [concat sum_len]. rewrite len_app. lia. Qed.

Lemma sum_len_app a b : sum_len (a ++ b) = sum_len a + sum_len b.
Proof. induction a as [|s r IH]; cbn [app sum_len]; lia. Qed.

Lemma sum_len_bound segs : segs_ok segs -> sum_len segs <= len segs * max_segment_size.
Proof.
  induction 1 as [|s r [_ Hs] _ IH]; cbn [sum_len]; [unfold len; simpl; lia|].
  rewrite len_cons. unfold max_segment_size, two32 in *. lia.
Qed.

Lemma total_size_loop_table c rest : length c = 4%nat ->
  forall post pre sum, segs_ok post -> 4 * (len pre + len post) < two32 ->
  0 <= sum -> sum + sum_len post < two64 ->
  total_size_loop (length post) (c ++ table (pre ++ post) ++ rest) (len pre) sum
  = Ok (sum + sum_len post).
Proof.
  intros Hc. induction post as [|s post IH]; intros pre sum Hok Hn Hs Hb.
  - cbn [total_size_loop sum_len length]. f_equal. lia.
  - inversion Hok as [|? ? Hs1 Hok1]; subst.
    cbn [length total_size_loop sum_len] in *. rewrite len_cons in Hn.
    pose proof (len_nonneg pre). pose proof (len_nonneg post). pose proof (len_nonneg s).
    pose proof (sum_len_nonneg post).
    rewrite wrap32_small by (unfold two32 in *; lia).
    rewrite segment_size_table by (try assumption; unfold two32 in *; lia).
    cbn [bind]. rewrite wrap64_small by lia.
    replace (pre ++ s :: post) with ((pre ++ [s]) ++ post) by (now rewrite <- app_assoc).
    replace (len pre + 1) with (len (pre ++ [s])) by (rewrite len_app; reflexivity).
    rewrite IH; [f_equal; lia|assumption| |lia|lia].
    rewrite len_app. change (len [s]) with 1. lia.
Qed.

Lemma demux_loop_table c rest : length c = 4%nat ->
  forall post pre junk, segs_ok post -> 4 * (len pre + len post) < two32 ->
  demux_loop (length post) (c ++ table (pre ++ post) ++ rest) (len pre) (concat post ++ junk)
  = Ok post.
Proof.
  intros Hc. induction post as [|s post IH]; intros pre junk Hok Hn.
  - reflexivity.
  - inversion Hok as [|? ? Hs1 Hok1]; subst.
    cbn [length demux_loop concat] in *. rewrite len_cons in Hn.
    pose proof (len_nonneg pre). pose proof (len_nonneg post). pose proof (len_nonneg s).
    rewrite wrap32_small by (unfold two32 in *; lia).
    rewrite segment_size_table by (try assumption; unfold two32 in *; lia).
    cbn [bind]. rewrite <- app_assoc.
    destruct (len (s ++ concat post ++ junk) <? len s) eqn:E.
    { rewrite len_app in E. pose proof (len_nonneg (concat post ++ junk)). lia. }
    rewrite firstn_app_len, skipn_app_len.
    replace (pre ++ s :: post) with ((pre ++ [s]) ++ post) by (now rewrite <- app_assoc).
    replace (len pre + 1) with (len (pre ++ [s])) by (rewrite len_app; reflexivity).
    rewrite IH; [reflexivity|assumption|].
    rewrite len_app. change (len [s]) with 1. lia.
Qed.

(* ------------------------------------------------------------ frames *)

(* the bytes of one framed message *)
Definition frame_header (segs : list (list Z)) : list Z :=
  pad_to (stream_header_size (len segs - 1)) (header_words segs).
Definition frame (segs : list (list Z)) : list Z := frame_header segs ++ concat segs.

Definition count_ok (segs : list (list Z)) : Prop := 1 <= len segs <= 1073741823.  (* 2^30 - 1 *)

Lemma frame_header_len segs : 1 <= len segs < two32 ->
  len (frame_header segs) = stream_header_size (len segs - 1).
Proof.
  intros H. unfold frame_header, pad_to. rewrite len_app, len_zeros, header_words_len.
  pose proof (stream_header_size_bounds (len segs - 1) ltac:(lia)). lia.
Qed.

Lemma frame_header_eq segs : 1 <= len segs < two32 ->
  frame_header segs = le32 (len segs - 1) ++ table segs ++
                      zeros (Z.to_nat (stream_header_size (len segs - 1) - (4 + 4 * len segs))).
Proof.
  intros H. unfold frame_header, pad_to. rewrite header_words_len, header_words_eq.
  rewrite wrap32_small by lia. now rewrite <- app_assoc.
Qed.

Lemma frame_len segs : 1 <= len segs < two32 ->
  len (frame segs) = stream_header_size (len segs - 1) + sum_len segs.
Proof. intros. unfold frame. rewrite len_app, frame_header_len, sum_len_concat; lia. Qed.

Lemma max_segment_frame_header segs rest : 1 <= len segs < two32 ->
  le32_get (frame_header segs ++ rest) = len segs - 1.
Proof.
  intros H. rewrite frame_header_eq by assumption. rewrite <- !app_assoc.
  apply le32_get_le32. lia.
Qed.

Lemma total_size_frame_header segs : count_ok segs -> segs_ok segs ->
  total_size (frame_header segs) = Ok (sum_len segs).
Proof.
  intros Hc Hok. unfold count_ok in Hc. unfold total_size, max_segment, uint32_at.
  assert (H32 : 1 <= len segs < two32) by (unfold two32; lia).
  pose proof (frame_header_len segs H32) as HL.
  pose proof (stream_header_size_bounds (len segs - 1) ltac:(lia)) as HB.
  destruct (0 + 4 <=? len (frame_header segs)) eqn:E; [|lia].
  cbn [Z.to_nat skipn bind].
  rewrite <- (app_nil_r (frame_header segs)) at 1. rewrite max_segment_frame_header by assumption.
  replace (Z.to_nat (len segs - 1 + 1)) with (length segs) by (unfold len; lia).
  rewrite frame_header_eq by assumption.
  pose proof (sum_len_bound segs Hok). pose proof (sum_len_nonneg segs).
  exact (total_size_loop_table (le32 (len segs - 1)) _ eq_refl segs [] 0 Hok
           ltac:(change (len (@nil (list Z))) with 0; unfold two32; lia) ltac:(lia)
           ltac:(unfold max_segment_size, two32, two64 in *; nia)).
Qed.

Lemma demux_arena_frame_header segs junk : count_ok segs -> segs_ok segs ->
  demux_arena (frame_header segs) (concat segs ++ junk) = Ok segs.
Proof.
  intros Hc Hok. unfold count_ok in Hc. unfold demux_arena, max_segment, uint32_at.
  assert (H32 : 1 <= len segs < two32) by (unfold two32; lia).
  pose proof (frame_header_len segs H32) as HL.
  pose proof (stream_header_size_bounds (len segs - 1) ltac:(lia)) as HB.
  destruct (0 + 4 <=? len (frame_header segs)) eqn:E; [|lia].
  cbn [Z.to_nat skipn bind].
  rewrite <- (app_nil_r (frame_header segs)) at 1. rewrite max_segment_frame_header by assumption.
  replace (Z.to_nat (len segs - 1 + 1)) with (length segs) by (unfold len; lia).
  rewrite frame_header_eq by assumption.
  exact (demux_loop_table (le32 (len segs - 1)) _ eq_refl segs [] junk Hok
           ltac:(change (len (@nil (list Z))) with 0; unfold two32; lia)).
Qed.

(* ------------------------------------------------------------ Marshal / Encode produce [frame] *)

Lemma marshal_sizes_ok : forall segs d, segs_ok segs -> 0 <= d -> d + sum_len segs <= max_int ->
  marshal_sizes segs d = Ok (d + sum_len segs).
Proof.
  induction segs as [|s r IH]; intros d Hok Hd Hb; cbn [marshal_sizes sum_len] in *.
  - f_equal. lia.
  - inversion Hok as [|? ? [Ha Hs] Hr]; subst.
    pose proof (len_nonneg s). pose proof (sum_len_nonneg r).
    unfold word_size. destruct (negb (len s mod 8 =? 0)) eqn:E1; [lia|].
    destruct (len s >? max_segment_size) eqn:E2; [lia|].
    rewrite wrap64_small by (unfold max_int, two64 in *; lia).
    destruct (d + len s >? max_int) eqn:E3; [lia|].
    rewrite IH by (try assumption; lia). f_equal. lia.
Qed.

Lemma marshal_frame segs : count_ok segs -> segs_ok segs -> marshal segs = Ok (frame segs).
Proof.
  intros Hc Hok. unfold count_ok in Hc. unfold marshal.
  destruct (len segs =? 0) eqn:E0; [lia|].
  rewrite wrap32_small by (unfold two32; lia).
  pose proof (stream_header_size_bounds (len segs - 1) ltac:(unfold two32; lia)) as HB.
  destruct (stream_header_size (len segs - 1) >? max_int) eqn:E1; [unfold max_int in *; lia|].
  pose proof (sum_len_bound segs Hok). pose proof (sum_len_nonneg segs).
  rewrite marshal_sizes_ok by (try assumption; unfold max_int, max_segment_size, two32 in *; nia).
  cbn [bind]. rewrite wrap64_small by (unfold two64, max_segment_size, two32 in *; nia).
  destruct (stream_header_size (len segs - 1) + (0 + sum_len segs) >? max_int) eqn:E2;
    [unfold max_int, max_segment_size, two32 in *; nia|].
  reflexivity.
Qed.

Lemma encode_sizes_ok al : forall segs, segs_ok segs -> encode_sizes al segs = Ok tt.
Proof.
  induction 1 as [|s r [Ha Hs] _ IH]; cbn [encode_sizes]; [reflexivity|].
  unfold word_size. replace (len s mod 8 =? 0) with true by lia.
  rewrite andb_false_r. destruct (len s >? max_segment_size) eqn:E; [lia|]. exact IH.
Qed.

Lemma encode_frame al segs : 1 <= len segs < two32 -> segs_ok segs -> encode al segs = Ok (frame segs).
Proof.
  intros Hc Hok. unfold encode.
  destruct (len segs =? 0) eqn:E0; [lia|].
  rewrite wrap32_small by lia.
  pose proof (stream_header_size_bounds (len segs - 1) ltac:(lia)) as HB.
  destruct (stream_header_size (len segs - 1) >? max_int) eqn:E1; [unfold max_int, two32 in *; lia|].
  rewrite encode_sizes_ok by assumption. cbn [bind]. f_equal.
  unfold frame, frame_header, pad_to. f_equal.
  rewrite header_words_len. unfold word_size.
  rewrite stream_header_size_eq by lia.
  destruct ((4 + 4 * len segs) mod 8 =? 0) eqn:E.
  - replace (8 * ((4 * (len segs - 1) + 15) / 8) - (4 + 4 * len segs)) with 0 by lia.
    cbn. now rewrite app_nil_r.
  - replace (8 * ((4 * (len segs - 1) + 15) / 8) - (4 + 4 * len segs)) with 4 by lia.
    reflexivity.
Qed.

(* the unrepaired Encode accepts an unaligned segment and writes a frame whose table does
   not describe the bytes that follow; the repaired one refuses *)
Example encode_unaligned_refuted :
  encode false [[1; 2; 3; 4; 5; 6; 7; 8; 9]] = Ok ([0; 0; 0; 0; 1; 0; 0; 0] ++ [1; 2; 3; 4; 5; 6; 7; 8; 9])
  /\ unmarshal ([0; 0; 0; 0; 1; 0; 0; 0] ++ [1; 2; 3; 4; 5; 6; 7; 8; 9]) = Ok [[1; 2; 3; 4; 5; 6; 7; 8]]
  /\ encode true [[1; 2; 3; 4; 5; 6; 7; 8; 9]] = Err EUnaligned
  /\ encode_packed false [[1; 2; 3; 4; 5; 6; 7; 8; 9]] = Panic.
Proof. vm_compute. repeat split; reflexivity. Qed.

Lemma encode_ok_segs_ok : forall segs b, encode true segs = Ok b -> segs_ok segs /\ 1 <= len segs.
Proof.
  intros segs b. unfold encode.
  destruct (len segs =? 0) eqn:E0; [discriminate|].
  destruct (_ >? max_int); [discriminate|].
  destruct (encode_sizes true segs) eqn:E; try discriminate. intros _.
  pose proof (len_nonneg segs). split; [|lia]. clear E0 H. revert E.
  induction segs as [|s r IH]; intros E; [constructor|].
  cbn [encode_sizes] in E.
  unfold word_size in E. destruct (len s mod 8 =? 0) eqn:E2; cbn [andb negb] in E; [|discriminate].
  destruct (len s >? max_segment_size) eqn:E1; [discriminate|].
  constructor; [split; lia|]. now apply IH.
Qed.

(* ------------------------------------------------------------ Unmarshal (Marshal x) = x *)

Lemma frame_nonempty segs : 1 <= len segs < two32 -> 8 <= len (frame_header segs).
Proof.
  intros H. rewrite frame_header_len by assumption.
  pose proof (stream_header_size_bounds (len segs - 1) ltac:(lia)). lia.
Qed.

Theorem unmarshal_frame segs junk : count_ok segs -> segs_ok segs ->
  unmarshal (frame segs ++ junk) = Ok segs.
Proof.
  intros Hc Hok. pose proof Hc as Hc'. unfold count_ok in Hc'.
  assert (H32 : 1 <= len segs < two32) by (unfold two32; lia).
  unfold unmarshal, frame. rewrite <- app_assoc.
  pose proof (frame_nonempty segs H32) as H8.
  pose proof (len_nonneg (concat segs ++ junk)).
  rewrite len_app. unfold word_size.
  destruct (_ =? 0) eqn:E0; [lia|]. destruct (_ <? 8) eqn:E1; [lia|].
  rewrite max_segment_frame_header by assumption.
  rewrite <- frame_header_len by assumption.
  destruct (_ <? len (frame_header segs)) eqn:E2; [lia|].
  rewrite firstn_app_len, skipn_app_len.
  rewrite total_size_frame_header by assumption. cbn [bind].
  destruct (sum_len segs >? len (concat segs ++ junk)) eqn:E3.
  { rewrite len_app, sum_len_concat in E3. pose proof (len_nonneg junk). lia. }
  now apply demux_arena_frame_header.
Qed.

Theorem unmarshal_roundtrip segs : count_ok segs -> segs_ok segs ->
  exists b, marshal segs = Ok b /\ unmarshal b = Ok segs /\ forall junk, unmarshal (b ++ junk) = Ok segs.
Proof.
  intros Hc Hok. exists (frame segs). split; [now apply marshal_frame|]. split.
  - rewrite <- (app_nil_r (frame segs)). now apply unmarshal_frame.
  - intros junk. now apply unmarshal_frame.
Qed.

Example unmarshal_roundtrip_nonvacuous :
  count_ok [[1;2;3;4;5;6;7;8]; []; repeat 7 16] /\ segs_ok [[1;2;3;4;5;6;7;8]; []; repeat 7 16].
Proof. split; [unfold count_ok; cbn; lia|]. repeat constructor; cbn; lia. Qed.
