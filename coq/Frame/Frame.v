(* L1 model of the stream framing of /repo/message.go:
     streamHeaderSize, streamHeader.{maxSegment,segmentSize,totalSize}, demuxArena,
     Message.Marshal, Unmarshal, Encoder.Encode, Decoder.Decode (+ ReuseBuffer, MaxMessageSize),
     io.ReadFull over a reader that delivers its bytes in arbitrary chunks.
   Bytes are Z in [0,256).  A segment is a list of bytes, a message a list of segments
   (kept general on purpose: the builder properties reuse marshal/unmarshal).
   Go's uint32/uint64/int32 arithmetic is written with explicit wrap where the code computes
   in that type, with ONE exception stated at [demux_arena] (int(maxSeg+1) for maxSeg = 2^32-1,
   which needs >= 16 GiB of input).  `int` is 64 bit.  No proofs in this file. *)
From Coq Require Export List ZArith Bool Lia.
From CV Require Export Packed.Packed.   (* byte_ok, bytes_ok, zeros, rerr (EOF | UnexpectedEOF) *)
Export ListNotations.
Open Scope Z_scope.

(* ------------------------------------------------------------------ results *)

(* which check of the code fired *)
Inductive ferr :=
| EEof            (* io.EOF: nothing at all was read *)
| EShortHeader    (* unmarshal: short header section *)
| EShortData      (* unmarshal: short data section *)
| ESegOverflow    (* segment %d: overflow size   (Size.times failed) *)
| ETooManySegs    (* decode: too many segments to decode *)
| ETooLarge       (* decode: message too large *)
| EConfig         (* decode: max message size is smaller than header size *)
| EReadHeader     (* decode: read header: <error of io.ReadFull> *)
| EReadSegs       (* decode: read segments: <error of io.ReadFull> *)
| ENoSegs         (* marshal/encode: message has no segments *)
| EHdrOverflow    (* header size overflows int *)
| ESegTooLarge    (* segment %d too large *)
| EUnaligned      (* segment %d not word-aligned *)
| ESizeOverflow   (* marshal: message size overflows int *)
| EUnpack.        (* unmarshal: <error of packed.Unpack> *)

Inductive res (A : Type) :=
| Ok (a : A)
| Err (e : ferr)
| Panic.          (* Go run-time panic: slice bounds out of range / index out of range *)
Arguments Ok {A} a.
Arguments Err {A} e.
Arguments Panic {A}.

Definition bind {A B} (r : res A) (f : A -> res B) : res B :=
  match r with Ok a => f a | Err e => Err e | Panic => Panic end.
Notation "'do' x <- r ; k" := (bind r (fun x => k)) (at level 200, x name, r at level 100, k at level 200).

(* ------------------------------------------------------------------ fixed-width numbers *)

Definition two31 : Z := 2147483648.
Definition two32 : Z := 4294967296.
Definition two64 : Z := 18446744073709551616.
Definition max_int : Z := 9223372036854775807.          (* int is int64 *)
Definition wrap32 (z : Z) : Z := z mod two32.
Definition wrap64 (z : Z) : Z := z mod two64.
Definition to_int32 (u : Z) : Z := if u <? two31 then u else u - two32.   (* int32(uint32) *)

Definition word_size : Z := 8.
Definition max_segment_size : Z := two32 - 8.           (* address.go: 1<<32 - 8 *)
Definition max_stream_segments : Z := 512.              (* message.go *)
Definition default_decode_limit : Z := 67108864.        (* 64 << 20 *)
Definition slice_header_bytes : Z := 24.                (* one []byte value in a [][]byte *)

Definition len {A} (l : list A) : Z := Z.of_nat (length l).

(* binary.LittleEndian.PutUint32 / appendUint32 *)
Definition le32 (v : Z) : list Z :=
  [v mod 256; (v / 256) mod 256; (v / 65536) mod 256; (v / 16777216) mod 256].

(* binary.LittleEndian.Uint32(b): the caller has checked len(b) >= 4 *)
Definition le32_get (b : list Z) : Z :=
  nth 0 b 0 + 256 * nth 1 b 0 + 65536 * nth 2 b 0 + 16777216 * nth 3 b 0.

(* binary.LittleEndian.Uint32(b[off:]) : b[off:] panics when off > len(b), Uint32 panics
   when fewer than 4 bytes remain *)
Definition uint32_at (b : list Z) (off : Z) : res Z :=
  if off + 4 <=? len b then Ok (le32_get (skipn (Z.to_nat off) b)) else Panic.

(* ------------------------------------------------------------------ header arithmetic *)

(* func streamHeaderSize(maxSeg SegmentID) uint64 { return ((uint64(maxSeg)+2)*4 + 7) &^ 7 } *)
Definition stream_header_size (maxSeg : Z) : Z :=
  let x := wrap64 (wrap64 ((maxSeg + 2) * 4) + 7) in x - x mod 8.

(* func (sz Size) times(n int32) with sz = wordSize:
     x := int64(sz) * int64(n); if x > int64(maxSegmentSize) || x < 0 { fail } *)
Definition word_times (n : Z) : option Z :=
  let x := word_size * n in
  if (x >? max_segment_size) || (x <? 0) then None else Some x.

(* func (h streamHeader) segmentSize(i SegmentID):
     s := binary.LittleEndian.Uint32(h.b[4+i*4:])     -- 4+i*4 is computed in uint32 (SegmentID)
     sz, ok := wordSize.times(int32(s)) *)
Definition seg_index (i : Z) : Z := wrap32 (4 + wrap32 (i * 4)).

Definition segment_size (hb : list Z) (i : Z) : res Z :=
  do s <- uint32_at hb (seg_index i);
  match word_times (to_int32 s) with
  | Some sz => Ok sz
  | None => Err ESegOverflow
  end.

(* the same with the index computed without uint32 wrap (what the comment of the code
   promises); used only to state the observation [seg_index_wraps] *)
Definition segment_size_nowrap (hb : list Z) (i : Z) : res Z :=
  do s <- uint32_at hb (4 + i * 4);
  match word_times (to_int32 s) with
  | Some sz => Ok sz
  | None => Err ESegOverflow
  end.

(* func (h streamHeader) maxSegment() *)
Definition max_segment (hb : list Z) : res Z := uint32_at hb 0.

(* func (h streamHeader) totalSize(): for i := uint64(0); i <= uint64(maxSegment); i++ { sum += x } *)
Fixpoint total_size_loop (n : nat) (hb : list Z) (i sum : Z) : res Z :=
  match n with
  | O => Ok sum
  | S n' =>
    do x <- segment_size hb (wrap32 i);        (* SegmentID(i) *)
    total_size_loop n' hb (i + 1) (wrap64 (sum + x))
  end.

Definition total_size (hb : list Z) : res Z :=
  do m <- max_segment hb;
  total_size_loop (Z.to_nat (m + 1)) hb 0 0.

(* func demuxArena(hdr, data): segs[i], data = data[:sz:sz], data[sz:]
   (the first test int64(maxSeg) > maxInt-1 cannot fire with a 64-bit int) *)
Fixpoint demux_loop (n : nat) (hb : list Z) (i : Z) (data : list Z) : res (list (list Z)) :=
  match n with
  | O => Ok []
  | S n' =>
    do sz <- segment_size hb (wrap32 i);
    if len data <? sz then Panic
    else
      do r <- demux_loop n' hb (i + 1) (skipn (Z.to_nat sz) data);
      Ok (firstn (Z.to_nat sz) data :: r)
  end.

(* NOT modelled: message.go computes the table length as int(maxSeg+1) with maxSeg a uint32, so for
   maxSeg = 2^32-1 it wraps to 0 and Go's demuxArena returns 0 segments; this definition iterates
   m+1 = 2^32 times.  Only Unmarshal can get there, with a header of >= 16 GiB (Decode stops at 512
   segments); for such inputs the Unmarshal theorems are about this definition, not about the code
   (listed under ASSUMPTIONS in props/C14.py, observation O3 in docs/C14.md). *)
Definition demux_arena (hb data : list Z) : res (list (list Z)) :=
  do m <- max_segment hb;
  demux_loop (Z.to_nat (m + 1)) hb 0 data.

(* ------------------------------------------------------------------ Unmarshal *)

Definition unmarshal (data : list Z) : res (list (list Z)) :=
  if len data =? 0 then Err EEof
  else if len data <? word_size then Err EShortHeader
  else
    let maxSeg := le32_get data in
    let hdrSize := stream_header_size maxSeg in
    if len data <? hdrSize then Err EShortHeader
    else
      let hb := firstn (Z.to_nat hdrSize) data in
      let rest := skipn (Z.to_nat hdrSize) data in
      do total <- total_size hb;
      if total >? len rest then Err EShortData
      else demux_arena hb rest.

(* A DECLARED COST FUNCTION, not an allocation log (unlike Decode, whose model logs every make):
   the only allocation of Unmarshal besides the constant-size Message is demuxArena's [][]byte,
   24 bytes per returned segment; nothing is copied.  It is computed from the RESULT: 0 when
   Unmarshal fails (by inspection of the code demuxArena is reached only when every earlier check
   passed and cannot fail after totalSize succeeded -- this is a comment, not a lemma).  So
   C14_unmarshal_alloc_linear says "24 * number of returned segments <= 6 * len data". *)
Definition unmarshal_alloc (data : list Z) : Z :=
  match unmarshal data with
  | Ok segs => slice_header_bytes * len segs
  | _ =>
    (* demuxArena is reached only when every earlier check passed; it cannot fail after
       totalSize succeeded, so an error means it was not reached *)
    0
  end.

(* ------------------------------------------------------------------ Marshal / Encode *)

(* the segment table: count-1, one size per segment, padded to a word *)
Definition header_words (segs : list (list Z)) : list Z :=
  le32 (wrap32 (len segs - 1)) ++ flat_map (fun s => le32 (wrap32 (len s / word_size))) segs.

Definition pad_to (n : Z) (b : list Z) : list Z := b ++ zeros (Z.to_nat (n - len b)).

(* per-segment checks of Marshal, with the running dataSize *)
Fixpoint marshal_sizes (segs : list (list Z)) (dataSize : Z) : res Z :=
  match segs with
  | [] => Ok dataSize
  | s :: r =>
    let n := len s in
    if negb (n mod word_size =? 0) then Err EUnaligned
    else if n >? max_segment_size then Err ESegTooLarge
    else
      let d := wrap64 (dataSize + n) in
      if d >? max_int then Err ESizeOverflow else marshal_sizes r d
  end.

(* func (m *Message) Marshal(): buf := make([]byte, hdrSize, total); PutUint32(buf, nsegs-1);
   PutUint32(buf[(i+1)*4:], len/8); buf = append(buf, s.data...)  — the PutUint32 calls fill
   the zeroed header left to right, which is written here as a concatenation *)
Definition marshal (segs : list (list Z)) : res (list Z) :=
  let nsegs := len segs in
  if nsegs =? 0 then Err ENoSegs
  else
    let hdrSize := stream_header_size (wrap32 (nsegs - 1)) in
    if hdrSize >? max_int then Err EHdrOverflow
    else
      do dataSize <- marshal_sizes segs 0;
      if wrap64 (hdrSize + dataSize) >? max_int then Err ESizeOverflow
      else Ok (pad_to hdrSize (header_words segs) ++ concat segs).

(* func (e *Encoder) Encode(m).  [aligned] = true: the repaired code rejects a segment
   whose length is not a multiple of 8 (as Marshal does); false: the code as found, which
   writes len/8 into the table and all len bytes into the stream. *)
Fixpoint encode_sizes (aligned : bool) (segs : list (list Z)) : res unit :=
  match segs with
  | [] => Ok tt
  | s :: r =>
    let n := len s in
    (* message.go (repaired): the alignment test comes first, then n > maxSegmentSize *)
    if aligned && negb (n mod word_size =? 0) then Err EUnaligned
    else if n >? max_segment_size then Err ESegTooLarge
    else encode_sizes aligned r
  end.

Definition encode (aligned : bool) (segs : list (list Z)) : res (list Z) :=
  let nsegs := len segs in
  if nsegs =? 0 then Err ENoSegs
  else
    let hdrSize := stream_header_size (wrap32 (nsegs - 1)) in
    if hdrSize >? max_int then Err EHdrOverflow
    else
      do _ <- encode_sizes aligned segs;
      let h := header_words segs in
      (* if len(e.hdrbuf)%8 != 0 { appendUint32(0) } *)
      let h := if len h mod word_size =? 0 then h else h ++ le32 0 in
      Ok (h ++ concat segs).

(* ------------------------------------------------------------------ readers, io.ReadFull *)

(* An io.Reader: the bytes it will deliver, cut into the chunks in which successive Read
   calls return them (a chunk larger than the request is delivered piecewise; an empty
   chunk is a Read returning 0, nil), and the error it reports when exhausted: io.EOF for
   a plain stream, possibly io.ErrUnexpectedEOF for the packed reader (after which it
   reports io.EOF). *)
Record reader := mkReader { r_chunks : list (list Z); r_final : rerr }.

Inductive rf_out :=
| RFok (b : list Z)
| RFeof                 (* io.EOF: no byte read *)
| RFerr.                (* io.ErrUnexpectedEOF (some bytes read) or the reader's own error *)

(* io.ReadFull(r, buf) with len(buf) = need; [got] = some byte was already read by this call.
   Each Read delivers (a piece of) the next chunk; the loop ends when the buffer is full or
   the reader reports its error: io.EOF with nothing read stays io.EOF, otherwise the call
   fails (io.ErrUnexpectedEOF, or the reader's own error). *)
Fixpoint read_full_loop (cs : list (list Z)) (fin : rerr) (need : Z) (got : bool)
  : rf_out * reader :=
  if need <=? 0 then (RFok [], mkReader cs fin)
  else
    match cs with
    | [] =>
      (match got, fin with
       | false, EOF => RFeof
       | _, _ => RFerr
       end, mkReader [] EOF)
    | c :: cs' =>
      if len c <=? need then
        let '(o, r) := read_full_loop cs' fin (need - len c) (got || negb (len c =? 0)) in
        (match o with RFok b => RFok (c ++ b) | x => x end, r)
      else (RFok (firstn (Z.to_nat need) c), mkReader (skipn (Z.to_nat need) c :: cs') fin)
    end.

Definition read_full (r : reader) (need : Z) : rf_out * reader :=
  read_full_loop (r_chunks r) (r_final r) need false.

(* ------------------------------------------------------------------ Decoder *)

Inductive alloc :=
| AHdr (n : Z)      (* make([]byte, hdrSize) for d.hdrbuf *)
| ABuf (n : Z)      (* make([]byte, total): the segment data *)
| ATable (n : Z).   (* make([][]byte, maxSeg+1) in demuxArena, n = number of entries *)

(* the decoder state is generic in the reader it is given (a plain chunked stream, or
   packed.Reader over one) *)
Record gstate (R : Type) := mkD {
  d_rd : R;
  d_hdrcap : Z;      (* cap(d.hdrbuf) *)
  d_bufcap : Z;      (* cap(d.buf) *)
  d_reuse : bool;
  d_max : Z          (* d.MaxMessageSize, a uint64 *)
}.
Arguments mkD {R}.
Arguments d_rd {R}.
Arguments d_hdrcap {R}.
Arguments d_bufcap {R}.
Arguments d_reuse {R}.
Arguments d_max {R}.
Notation dstate := (gstate reader).

Definition d_init {R} (r : R) (maxSize : Z) : gstate R := mkD r 0 0 false maxSize.

Inductive dout :=
| DMsg (segs : list (list Z))
| DEof
| DErr (e : ferr)
| DPanic.

Definition with_rd {R} (st : gstate R) (r : R) : gstate R :=
  mkD r (d_hdrcap st) (d_bufcap st) (d_reuse st) (d_max st).

(* resizeSlice(b, size): allocates only when cap(b) < size *)
Definition resize (cap size : Z) : Z * bool := if cap <? size then (size, true) else (cap, false).

(* second half of Decode: the header [hb] is complete *)
Definition gdecode_body {R} (rf : R -> Z -> rf_out * R) (st : gstate R) (maxSize maxSeg : Z)
           (hb : list Z) (log : list alloc) : gstate R * dout * list alloc :=
  match total_size hb with
  | Err e => (st, DErr e, log)
  | Panic => (st, DPanic, log)
  | Ok total =>
    if (total >? wrap64 (maxSize - len hb)) || (total >? max_int) then (st, DErr ETooLarge, log)
    else if negb (d_reuse st) then
      let log := log ++ [ABuf total] in
      match rf (d_rd st) total with
      | (RFok buf, r') =>
        let st' := with_rd st r' in
        match demux_arena hb buf with
        | Ok segs => (st', DMsg segs, log ++ [ATable (maxSeg + 1)])
        | Err e => (st', DErr e, log)
        | Panic => (st', DPanic, log)
        end
      | (_, r') => (with_rd st r', DErr EReadSegs, log)
      end
    else
      let '(cap', fresh) := resize (d_bufcap st) total in
      let log := if fresh then log ++ [ABuf total] else log in
      let st1 := mkD (d_rd st) (d_hdrcap st) cap' true (d_max st) in
      match rf (d_rd st1) total with
      | (RFok buf, r') =>
        let st' := with_rd st1 r' in
        if maxSeg =? 0 then (st', DMsg [buf], log)
        else
          match demux_arena hb buf with
          | Ok segs => (st', DMsg segs, log ++ [ATable (maxSeg + 1)])
          | Err e => (st', DErr e, log)
          | Panic => (st', DPanic, log)
          end
      | (_, r') => (with_rd st1 r', DErr EReadSegs, log)
      end
  end.

(* the number of segments Decode accepts.  [fixed] = true: the repaired code rejects
   maxSeg >= maxStreamSegments, i.e. accepts at most 512 segments; false: the code as found
   tested maxSeg > maxStreamSegments and accepted 513. *)
Definition seg_count_limit (fixed : bool) : Z :=
  if fixed then max_stream_segments else max_stream_segments + 1.

(* func (d *Decoder) Decode() *)
Definition gdecode1_gen {R} (rf : R -> Z -> rf_out * R) (fixed : bool) (st : gstate R)
  : gstate R * dout * list alloc :=
  let maxSize := if d_max st =? 0 then default_decode_limit else d_max st in
  if negb (d_max st =? 0) && (d_max st <? word_size) then (st, DErr EConfig, [])
  else
    match rf (d_rd st) word_size with
    | (RFeof, r') => (with_rd st r', DEof, [])
    | (RFerr, r') => (with_rd st r', DErr EReadHeader, [])
    | (RFok w, r') =>
      let st := with_rd st r' in
      let maxSeg := le32_get w in
      if maxSeg + 1 >? seg_count_limit fixed then (st, DErr ETooManySegs, [])
      else if maxSeg =? 0 then gdecode_body rf st maxSize maxSeg w []
      else
        let hdrSize := stream_header_size maxSeg in
        if (hdrSize >? maxSize) || (hdrSize >? max_int) then (st, DErr ETooLarge, [])
        else
          let '(cap', fresh) := resize (d_hdrcap st) hdrSize in
          let log := if fresh then [AHdr hdrSize] else [] in
          let st := mkD (d_rd st) cap' (d_bufcap st) (d_reuse st) (d_max st) in
          match rf (d_rd st) (hdrSize - word_size) with
          | (RFok rest, r') => gdecode_body rf (with_rd st r') maxSize maxSeg (w ++ rest) log
          | (_, r') => (with_rd st r', DErr EReadHeader, log)
          end
    end.

(* the Decoder over a plain chunked stream *)
Definition decode_body : dstate -> Z -> Z -> list Z -> list alloc -> dstate * dout * list alloc :=
  gdecode_body read_full.
Definition decode1_gen : bool -> dstate -> dstate * dout * list alloc := gdecode1_gen read_full.
Definition decode1 : dstate -> dstate * dout * list alloc := decode1_gen true.

(* histories: Decode calls interleaved with ReuseBuffer() and assignments to MaxMessageSize *)
Inductive dop := OpDecode | OpReuse | OpSetMax (m : Z).

Definition dstep_gen (fixed : bool) (st : dstate) (o : dop) : dstate * option (dout * list alloc) :=
  match o with
  | OpDecode => let '(st', out, log) := decode1_gen fixed st in (st', Some (out, log))
  | OpReuse => (mkD (d_rd st) (d_hdrcap st) (d_bufcap st) true (d_max st), None)
  | OpSetMax m => (mkD (d_rd st) (d_hdrcap st) (d_bufcap st) (d_reuse st) (wrap64 m), None)
  end.

Definition dstep : dstate -> dop -> dstate * option (dout * list alloc) := dstep_gen true.

Fixpoint run_history (st : dstate) (ops : list dop) : dstate * list (dout * list alloc) :=
  match ops with
  | [] => (st, [])
  | o :: r =>
    let '(st1, out) := dstep st o in
    let '(st2, outs) := run_history st1 r in
    (st2, match out with Some x => x :: outs | None => outs end)
  end.

(* n successive Decode calls *)
Definition decode_n (st : dstate) (n : nat) : dstate * list (dout * list alloc) :=
  run_history st (repeat OpDecode n).

(* bytes of byte buffers requested by one Decode (header + data) *)
Fixpoint alloc_bytes (log : list alloc) : Z :=
  match log with
  | [] => 0
  | AHdr n :: r => n + alloc_bytes r
  | ABuf n :: r => n + alloc_bytes r
  | ATable _ :: r => alloc_bytes r
  end.

Fixpoint alloc_table (log : list alloc) : Z :=
  match log with
  | [] => 0
  | ATable n :: r => n + alloc_table r
  | _ :: r => alloc_table r
  end.

Definition eff_max (m : Z) : Z := if m =? 0 then default_decode_limit else m.

(* ------------------------------------------------------------------ packed path *)

(* NewPackedDecoder: the Decoder reads from packed.Reader.  The unpacked byte stream and the
   error that ends it are those of the C13 model (ReadWord loop; by C13_stream_agrees the
   fast/slow oracle does not matter). *)
Definition packed_reader (packed : list Z) : option reader :=
  match stream_unpack true (fun _ => false) packed with
  | Some (out, e) => Some (mkReader [out] e)
  | None => None          (* fuel: excluded by C13 *)
  end.

(* Encoder.writePacked: every buffer (header, then each segment) is packed on its own *)
Definition encode_packed (aligned : bool) (segs : list (list Z)) : res (list Z) :=
  do plain <- encode aligned segs;
  let hl := Z.to_nat (stream_header_size (wrap32 (len segs - 1))) in
  let bufs := firstn hl plain :: segs in
  (fix go (bs : list (list Z)) : res (list Z) :=
     match bs with
     | [] => Ok []
     | b :: r =>
       match pack_bytes b with
       | None => Panic                     (* packed.Pack panics on a length not multiple of 8 *)
       | Some p => do q <- go r; Ok (p ++ q)
       end
     end) bufs.
