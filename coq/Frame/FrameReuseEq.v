(* ReuseBuffer is transparent on EVERY byte stream: the outcomes of a Decode history (message
   contents included) depend only on the reader and MaxMessageSize, not on the reuse flag, not on
   when ReuseBuffer() is called, not on the capacities of the decoder's buffers.  Generic in the
   reader; instantiated for the plain chunked reader, for every io.Reader behaviour of
   FrameReaders.v (any final error, error delivered with the last bytes, empty reads) and for
   packed.Reader (any packed bytes, any bufio oracle). *)
From CV Require Import Frame.Frame.
From CV Require Import Frame.FramePacked.
From CV Require Import Frame.FrameReaders.
From CV Require Import Frame.FrameHist.
From CV Require Import Frame.FrameProofs.
From CV Require Import Frame.FrameSafe.
From CV Require Import Frame.FrameStream.
From CV Require Import Frame.FrameThms.
From CV Require Import Frame.FrameSim.
From CV Require Import Frame.FramePackedThms.
From CV Require Import Frame.FrameReuse.
From CV Require Import Frame.FrameReuseProofs.
From Coq Require Import ZifyBool ZifyNat.
Ltac Zify.zify_post_hook ::= Z.div_mod_to_equations.
Open Scope Z_scope.

(* ------------------------------------------------------------ a one-entry header *)

(* maxSeg = 0: totalSize is the one size word, and demuxArena hands the whole data out as the
   single segment -- which is what the reuse path does without calling demuxArena *)
Lemma single_total_nonneg w total : 4 <= len w -> le32_get w = 0 -> total_size w = Ok total -> 0 <= total.
Proof.
  intros Hl H0. unfold total_size, max_segment, uint32_at.
  destruct (0 + 4 <=? len w) eqn:E; [|lia]. cbn [Z.to_nat skipn bind]. rewrite H0.
  change (Z.to_nat (0 + 1)) with 1%nat. intros Ht.
  destruct (loops_agree 1 w 0 0 total [] ltac:(lia) ltac:(lia) ltac:(unfold two32; lia)
              ltac:(unfold two32, two64; lia) Ht) as [H1 _]. exact H1.
Qed.

Lemma single_demux w total buf : 4 <= len w -> le32_get w = 0 -> total_size w = Ok total ->
  len buf = total -> demux_arena w buf = Ok [buf].
Proof.
  intros Hl H0. unfold total_size, demux_arena, max_segment, uint32_at.
  destruct (0 + 4 <=? len w) eqn:E; [|lia]. cbn [Z.to_nat skipn bind]. rewrite H0.
  change (Z.to_nat (0 + 1)) with 1%nat. intros Ht Hb.
  destruct (loops_agree 1 w 0 0 total buf ltac:(lia) ltac:(lia) ltac:(unfold two32; lia)
              ltac:(unfold two32, two64; lia) Ht) as [H1 [_ H3]].
  destruct H3 as [segs [Hd [Hn [Hc _]]]]; [lia|]. rewrite Hd. f_equal.
  destruct segs as [|s [|s2 r]]; try discriminate. cbn [concat] in Hc. rewrite app_nil_r in Hc.
  rewrite Hc, Z.sub_0_r, <- Hb. unfold len. rewrite Nat2Z.id. now rewrite firstn_all.
Qed.

(* ------------------------------------------------------------ one Decode *)

Section Generic.
  Context {R : Type}.
  Variable rf : R -> Z -> rf_out * R.
  Hypothesis Hex : rf_exact rf.

  Definition res_same (x1 x2 : gstate R * dout * list alloc) : Prop :=
    snd (fst x1) = snd (fst x2) /\ same_view (fst (fst x1)) (fst (fst x2)).

  Ltac triv := unfold res_same, same_view, with_rd; cbn [fst snd d_rd d_max]; repeat split; reflexivity.

  Lemma gdecode_body_reuse_indep s1 s2 maxSize maxSeg hb log1 log2 :
    same_view s1 s2 -> (maxSeg = 0 -> 4 <= len hb /\ le32_get hb = 0) ->
    res_same (gdecode_body rf s1 maxSize maxSeg hb log1) (gdecode_body rf s2 maxSize maxSeg hb log2).
  Proof.
    destruct s1 as [r1 hc1 bc1 ru1 mx1], s2 as [r2 hc2 bc2 ru2 mx2].
    intros [E1 E2] H0. cbn [d_rd d_max] in E1, E2. subst r2 mx2.
    unfold gdecode_body. cbn [d_rd d_hdrcap d_bufcap d_reuse d_max].
    destruct (total_size hb) as [total| |] eqn:Et; [|triv|triv].
    destruct ((total >? wrap64 (maxSize - len hb)) || (total >? max_int)); [triv|].
    assert (Hsingle : forall buf r', maxSeg = 0 -> rf r1 total = (RFok buf, r') -> demux_arena hb buf = Ok [buf]).
    { intros buf r' Hm Hr. destruct (H0 Hm) as [Hl Hz].
      pose proof (single_total_nonneg hb total Hl Hz Et) as Hn.
      apply (single_demux hb total buf Hl Hz Et). exact (Hex r1 total buf r' Hn Hr). }
    destruct ru1, ru2; cbn [negb]; unfold resize;
      repeat match goal with |- context [if ?a <? ?b then _ else _] => destruct (a <? b) end;
      cbn [d_rd d_hdrcap d_bufcap d_reuse d_max];
      destruct (rf r1 total) as [[buf| |] r'] eqn:Er; try triv;
      destruct (maxSeg =? 0) eqn:Em;
      try (rewrite (Hsingle buf r' ltac:(lia) eq_refl));
      try triv;
      destruct (demux_arena hb buf); triv.
  Qed.

  Lemma gdecode1_reuse_indep fixed s1 s2 : same_view s1 s2 ->
    res_same (gdecode1_gen rf fixed s1) (gdecode1_gen rf fixed s2).
  Proof.
    destruct s1 as [r1 hc1 bc1 ru1 mx1], s2 as [r2 hc2 bc2 ru2 mx2].
    intros [E1 E2]. cbn [d_rd d_max] in E1, E2. subst r2 mx2.
    unfold gdecode1_gen. cbn [d_rd d_hdrcap d_bufcap d_reuse d_max].
    destruct (negb (mx1 =? 0) && (mx1 <? word_size)); [triv|].
    destruct (rf r1 word_size) as [[w| |] r'] eqn:Er; [|triv|triv].
    unfold with_rd. cbn [d_rd d_hdrcap d_bufcap d_reuse d_max].
    destruct (le32_get w + 1 >? seg_count_limit fixed); [triv|].
    destruct (le32_get w =? 0) eqn:Ez.
    { apply gdecode_body_reuse_indep; [split; reflexivity|]. intros _.
      pose proof (Hex r1 word_size w r' ltac:(unfold word_size; lia) Er). unfold word_size in *. lia. }
    destruct ((stream_header_size (le32_get w) >? (if mx1 =? 0 then default_decode_limit else mx1))
              || (stream_header_size (le32_get w) >? max_int)); [triv|].
    unfold resize.
    destruct (hc1 <? stream_header_size (le32_get w)), (hc2 <? stream_header_size (le32_get w));
      cbn [d_rd d_hdrcap d_bufcap d_reuse d_max];
      (destruct (rf r' (stream_header_size (le32_get w) - word_size)) as [[rest| |] r''] eqn:Er2; [|triv|triv]);
      (apply gdecode_body_reuse_indep; [split; reflexivity|lia]).
  Qed.

  (* ---------------------------------------------------------- histories *)

  (* ANY history of Decode / ReuseBuffer() / MaxMessageSize assignments, from two states that hold
     the same reader and limit (any reuse flags, any buffer capacities): the outcomes are those of
     the history with every ReuseBuffer() call removed *)
  Theorem reuse_transparent_history : forall ops s1 s2, same_view s1 s2 ->
    outcomes (snd (grun_history rf s1 ops)) = outcomes (snd (grun_history rf s2 (erase_reuse ops))).
  Proof.
    induction ops as [|o ops IH]; intros s1 s2 Hv; [reflexivity|].
    destruct o as [| |m]; cbn [erase_reuse filter is_reuse negb grun_history gdstep]; fold (erase_reuse ops).
    - pose proof (gdecode1_reuse_indep true s1 s2 Hv) as [Ho Hv'].
      destruct (gdecode1_gen rf true s1) as [[t1 o1] l1]. destruct (gdecode1_gen rf true s2) as [[t2 o2] l2].
      cbn [fst snd] in Ho, Hv'. specialize (IH t1 t2 Hv').
      destruct (grun_history rf t1 ops) as [u1 outs1]. destruct (grun_history rf t2 (erase_reuse ops)) as [u2 outs2].
      cbn [snd outcomes map fst] in *. unfold outcomes in IH. now rewrite Ho, IH.
    - specialize (IH (mkD (d_rd s1) (d_hdrcap s1) (d_bufcap s1) true (d_max s1)) s2 Hv).
      destruct (grun_history rf (mkD (d_rd s1) (d_hdrcap s1) (d_bufcap s1) true (d_max s1)) ops) as [u1 outs1].
      exact IH.
    - assert (Hv' : same_view (mkD (d_rd s1) (d_hdrcap s1) (d_bufcap s1) (d_reuse s1) (wrap64 m))
                              (mkD (d_rd s2) (d_hdrcap s2) (d_bufcap s2) (d_reuse s2) (wrap64 m))).
      { destruct Hv as [Hr _]. split; [exact Hr|reflexivity]. }
      specialize (IH _ _ Hv').
      destruct (grun_history rf (mkD (d_rd s1) (d_hdrcap s1) (d_bufcap s1) (d_reuse s1) (wrap64 m)) ops) as [u1 outs1].
      destruct (grun_history rf (mkD (d_rd s2) (d_hdrcap s2) (d_bufcap s2) (d_reuse s2) (wrap64 m)) (erase_reuse ops)) as [u2 outs2].
      exact IH.
  Qed.

  (* n Decode calls: with reuse = without reuse, for every n *)
  Theorem reuse_transparent_n : forall n s1 s2, same_view s1 s2 ->
    outcomes (snd (gdecode_n rf s1 n)) = outcomes (snd (gdecode_n rf s2 n)).
  Proof.
    induction n as [|n IH]; intros s1 s2 Hv; [reflexivity|]. cbn [gdecode_n].
    pose proof (gdecode1_reuse_indep true s1 s2 Hv) as [Ho Hv'].
    destruct (gdecode1_gen rf true s1) as [[t1 o1] l1]. destruct (gdecode1_gen rf true s2) as [[t2 o2] l2].
    cbn [fst snd] in Ho, Hv'. specialize (IH t1 t2 Hv').
    destruct (gdecode_n rf t1 n) as [u1 outs1]. destruct (gdecode_n rf t2 n) as [u2 outs2].
    cbn [snd outcomes map fst] in *. unfold outcomes in IH. now rewrite Ho, IH.
  Qed.
End Generic.

(* ------------------------------------------------------------ the three readers are exact *)

Lemma read_full_exact : rf_exact read_full.
Proof. intros r need b r' Hn H. now destruct (read_full_ok_inv r need b r' Hn H) as [_ [_ [Hl _]]]. Qed.

Lemma xread_full_loop_exact : forall cs fin tog need got b r',
  0 <= need -> xread_full_loop cs fin tog need got = (RFok b, r') -> len b = need.
Proof.
  induction cs as [|c cs IH]; intros fin tog need got b r' Hn; cbn [xread_full_loop].
  - destruct (need <=? 0) eqn:E.
    + intros H. assert (b = []) by congruence. subst. unfold len. cbn. lia.
    + destruct got, fin; discriminate.
  - destruct (need <=? 0) eqn:E.
    { intros H. assert (b = []) by congruence. subst. unfold len. cbn. lia. }
    destruct (len c <=? need) eqn:E1.
    + destruct (tog && is_nil cs).
      * destruct (need <=? len c) eqn:E2.
        -- intros H. assert (b = c) by congruence. subst. lia.
        -- destruct (got || negb (len c =? 0)), fin; discriminate.
      * destruct (xread_full_loop cs fin tog (need - len c) (got || negb (len c =? 0))) as [o r] eqn:Ex.
        destruct o as [b0| |]; try discriminate. intros H. assert (b = c ++ b0) by congruence. subst.
        rewrite len_app. assert (Hge : 0 <= need - len c) by lia. pose proof (IH _ _ _ _ _ _ Hge Ex). lia.
    + intros H. assert (b = firstn (Z.to_nat need) c) by congruence. subst. apply len_firstn. lia.
Qed.

Lemma xread_full_exact : rf_exact xread_full.
Proof. intros r need b r' Hn H. exact (xread_full_loop_exact _ _ _ _ _ _ _ Hn H). Qed.

Lemma pread_full_loop_exact : forall fuel orc k b inp need got g p,
  pread_full_loop fuel orc k b inp need got = (RFok g, p) -> length g = need.
Proof.
  induction fuel as [|fuel IH]; intros orc k b inp need got g p; cbn [pread_full_loop];
    destruct need as [|need']; try (intros H; assert (g = []) by congruence; subst; reflexivity);
    [discriminate|].
  destruct (read_call true orc k b inp (S need')) as [[[[k' b'] inp'] g0] oe] eqn:Erc.
  pose proof (read_call_len _ _ _ _ _ _ _ _ _ _ _ Erc) as Hl.
  destruct (S need' <=? length g0)%nat eqn:E.
  - intros H. assert (g = g0) by congruence. subst. apply Nat.leb_le in E. lia.
  - apply Nat.leb_gt in E. destruct oe as [e|].
    + destruct (got || negb (length g0 =? 0)%nat), e; discriminate.
    + destruct (pread_full_loop fuel orc k' b' inp' (S need' - length g0) (got || negb (length g0 =? 0)%nat))
        as [o p0] eqn:Ep.
      destruct o as [r0| |]; try discriminate. intros H. assert (g = g0 ++ r0) by congruence. subst.
      rewrite app_length. pose proof (IH _ _ _ _ _ _ _ _ Ep). lia.
Qed.

Lemma pread_full_exact : rf_exact pread_full.
Proof.
  intros r need b r' Hn. unfold pread_full. destruct (p_stuck r); [discriminate|].
  intros H. apply pread_full_loop_exact in H. unfold len. lia.
Qed.

(* ------------------------------------------------------------ Frame.v's run_history is the plain instance *)

Lemma run_history_grun : forall ops st, run_history st ops = grun_history read_full st ops.
Proof.
  induction ops as [|o ops IH]; intros st; [reflexivity|]. cbn [run_history grun_history].
  change (dstep st o) with (gdstep read_full true st o).
  destruct (gdstep read_full true st o) as [st1 out]. now rewrite IH.
Qed.

(* ------------------------------------------------------------ the statement for all streams *)

(* Every byte stream (arbitrary bytes: no bytes_ok, no framing assumption), every reader behaviour
   (any chunking, empty reads, any final error, error with the last bytes or on a later call), any
   MaxMessageSize (also assigned during the history), any capacities of the two buffers, any
   history length: Decode calls with ReuseBuffer() called at any points return exactly the
   outcomes (io.EOF / error class / message with its segments' contents) of the same calls without
   any ReuseBuffer(). *)
Theorem reuse_transparent_all_streams :
  (forall ops cs fin tog hc bc ru hc' bc' mx,
     outcomes (snd (grun_history xread_full (mkD (mkX cs fin tog) hc bc ru mx) ops))
     = outcomes (snd (grun_history xread_full (mkD (mkX cs fin tog) hc' bc' false mx) (erase_reuse ops))))
  /\ (forall ops cs fin hc bc ru hc' bc' mx,
     outcomes (snd (run_history (mkD (mkReader cs fin) hc bc ru mx) ops))
     = outcomes (snd (run_history (mkD (mkReader cs fin) hc' bc' false mx) (erase_reuse ops))))
  /\ (forall ops (p : preader) hc bc ru hc' bc' mx,
     outcomes (snd (grun_history pread_full (mkD p hc bc ru mx) ops))
     = outcomes (snd (grun_history pread_full (mkD p hc' bc' false mx) (erase_reuse ops))))
  /\ (forall n cs fin hc bc hc' bc' mx,
     outcomes (snd (decode_n (mkD (mkReader cs fin) hc bc true mx) n))
     = outcomes (snd (decode_n (mkD (mkReader cs fin) hc' bc' false mx) n)))
  /\ (forall n orc P hc bc hc' bc' mx,
     outcomes (snd (pdecode_n (mkD (p_init orc P) hc bc true mx) n))
     = outcomes (snd (pdecode_n (mkD (p_init orc P) hc' bc' false mx) n))).
Proof.
  split; [|split; [|split; [|split]]].
  - intros. apply (reuse_transparent_history xread_full xread_full_exact). split; reflexivity.
  - intros. rewrite !run_history_grun. apply (reuse_transparent_history read_full read_full_exact). split; reflexivity.
  - intros. apply (reuse_transparent_history pread_full pread_full_exact). split; reflexivity.
  - intros. rewrite !decode_n_gdecode_n. apply (reuse_transparent_n read_full read_full_exact). split; reflexivity.
  - intros. apply (reuse_transparent_n pread_full pread_full_exact). split; reflexivity.
Qed.

(* the erased history really contains no ReuseBuffer() call, and starts with the flag off *)
Lemma erase_reuse_no_reuse ops : ~ In OpReuse (erase_reuse ops).
Proof. unfold erase_reuse. intros H. apply filter_In in H. destruct H as [_ H]. discriminate. Qed.

(* ------------------------------------------------------------ content level *)

(* The content-level model of the reuse path (FrameReuse.v: stale bytes in d.hdrbuf / d.buf,
   segments as slices, the reused Message and its cache): every Decode / read-all-segments history,
   from ANY buffer contents and cache state, on ANY byte stream, reports what Decode WITHOUT
   ReuseBuffer reports (fresh buffers), and the segments read through Message.Segment are the
   segments of that message. *)
Theorem reuse_content_transparent : forall n st hc bc, ust_ok st ->
  Forall2 (fun ro d => out_match (fst d) (fst ro) (snd ro))
          (rdecode_read_n ResetFull st n)
          (snd (decode_n (mkD (u_rd st) hc bc false (u_max st)) n)).
Proof.
  intros n st hc bc Hok. pose proof (reuse_history_refines n st Hok) as H.
  assert (E : outcomes (snd (decode_n (u_abs st) n))
              = outcomes (snd (decode_n (mkD (u_rd st) hc bc false (u_max st)) n))).
  { rewrite !decode_n_gdecode_n. apply (reuse_transparent_n read_full read_full_exact). split; reflexivity. }
  revert H E. generalize (rdecode_read_n ResetFull st n) (snd (decode_n (u_abs st) n))
                         (snd (decode_n (mkD (u_rd st) hc bc false (u_max st)) n)).
  intros l1 l2. revert l1. induction l2 as [|d l2 IH]; intros l1 l3 H E.
  - inversion H; subst. destruct l3; [constructor|discriminate].
  - inversion H; subst. destruct l3 as [|d3 l3]; [discriminate|]. cbn [outcomes map] in E.
    injection E as E1 E2. constructor; [rewrite <- E1; assumption|]. apply IH; assumption.
Qed.

(* non-vacuity / the histories differ in what they allocate, not in what they return *)
Example reuse_transparent_example :
  let s := frame [[1; 2; 3; 4; 5; 6; 7; 8]] ++ frame [[9; 9; 9; 9; 9; 9; 9; 9]; []] ++ [0; 0; 0] in
  let ops := [OpReuse; OpDecode; OpDecode; OpReuse; OpDecode; OpDecode] in
  outcomes (snd (run_history (d_init (mkReader [s] EOF) 0) ops))
    = [DMsg [[1; 2; 3; 4; 5; 6; 7; 8]]; DMsg [[9; 9; 9; 9; 9; 9; 9; 9]; []]; DErr EReadHeader; DEof]
  /\ erase_reuse ops = [OpDecode; OpDecode; OpDecode; OpDecode]
  /\ map snd (snd (run_history (d_init (mkReader [s] EOF) 0) ops))
     <> map snd (snd (run_history (d_init (mkReader [s] EOF) 0) (erase_reuse ops))).
Proof. vm_compute. repeat split. discriminate. Qed.
