(* L1 model of the packed serialisation paths of /repo/message.go:
     MarshalPacked, UnmarshalPacked, NewPackedEncoder (Encoder.writePacked), and
     NewPackedDecoder = the Decoder of Frame.v reading through packed.Reader.Read
   built from the C13 model coq/Packed/Packed.v (pack_bytes, unpack, read_call).
   No proofs in this file.

   What is assumed about bufio.Reader: nothing beyond what Packed.v assumes.  packed.Reader asks
   bufio only "Buffered() >= 9?" (fast/slow path of ReadWord) and "Buffered() < 9 after some
   bytes were produced?" (short read of Read); both answers are free oracles
   [orc : nat -> bool * bool] indexed by the call counter, and every theorem quantifies over
   all oracles.  The chunking of the underlying io.Reader influences the run only through
   these oracles (bufio delivers the same bytes whatever the chunking), so "any chunking" of the
   packed stream is "any oracle". *)
From CV Require Export Frame.Frame.
Open Scope Z_scope.

(* ------------------------------------------------------------------ one-shot paths *)

(* func (m *Message) MarshalPacked(): packed.Pack(buf, data) of Marshal's bytes
   (pack_bytes = None is Pack's panic on a length that is not a multiple of 8) *)
Definition marshal_packed (segs : list (list Z)) : res (list Z) :=
  do data <- marshal segs;
  match pack_bytes data with
  | Some p => Ok p
  | None => Panic
  end.

(* func UnmarshalPacked(data): len 0 -> io.EOF; packed.Unpack error -> error; Unmarshal *)
Definition unmarshal_packed (data : list Z) : res (list (list Z)) :=
  if len data =? 0 then Err EEof
  else match unpack data with
       | None => Err EUnpack
       | Some b => unmarshal b
       end.

(* ------------------------------------------------------------------ packed.Reader as an io.Reader *)

(* packed.Reader over a bufio.Reader holding the packed bytes [p_inp]; [p_b] is the Reader's
   state (word buffer, zero/literal counters, parked error), [p_k] the oracle counter.
   [p_stuck] records fuel exhaustion of the ReadFull loop below (a Read that returns 0, nil for
   ever: Go would spin); the theorems show it stays false. *)
Record preader := mkP {
  p_orc : nat -> bool * bool;
  p_k : nat;
  p_b : bstate;
  p_inp : list Z;
  p_stuck : bool
}.

Definition p_init (orc : nat -> bool * bool) (packed : list Z) : preader :=
  mkP orc 0 b_init packed false.

(* io.ReadFull(r, buf) = io.ReadAtLeast(r, buf, len(buf)):
     for n < min && err == nil { nn, err = r.Read(buf[n:]); n += nn }
     if n >= min { err = nil } else if n > 0 && err == io.EOF { err = io.ErrUnexpectedEOF } *)
Fixpoint pread_full_loop (fuel : nat) (orc : nat -> bool * bool) (k : nat) (b : bstate)
         (inp : list Z) (need : nat) (got : bool) : rf_out * preader :=
  match need with
  | O => (RFok [], mkP orc k b inp false)
  | S _ =>
    match fuel with
    | O => (RFerr, mkP orc k b inp true)
    | S f =>
      match read_call true orc k b inp need with
      | (k', b', inp', g, oe) =>
        if (need <=? length g)%nat then (RFok g, mkP orc k' b' inp' false)   (* n >= min: err dropped *)
        else
          match oe with
          | None =>
            let '(o, p) := pread_full_loop f orc k' b' inp' (need - length g)
                                           (got || negb (length g =? 0)%nat) in
            (match o with RFok r => RFok (g ++ r) | x => x end, p)
          | Some e =>
            (match got || negb (length g =? 0)%nat, e with
             | false, EOF => RFeof
             | _, _ => RFerr
             end, mkP orc k' b' inp' false)
          end
      end
    end
  end.

Definition pread_full (p : preader) (need : Z) : rf_out * preader :=
  if p_stuck p then (RFerr, p)
  else pread_full_loop (S (Z.to_nat need)) (p_orc p) (p_k p) (p_b p) (p_inp p) (Z.to_nat need) false.

(* ------------------------------------------------------------------ NewPackedDecoder *)

Definition pdecode1_gen : bool -> gstate preader -> gstate preader * dout * list alloc :=
  gdecode1_gen pread_full.
Definition pdecode1 : gstate preader -> gstate preader * dout * list alloc := pdecode1_gen true.

(* n successive Decode calls, for any reader *)
Fixpoint gdecode_n {R} (rf : R -> Z -> rf_out * R) (st : gstate R) (n : nat)
  : gstate R * list (dout * list alloc) :=
  match n with
  | O => (st, [])
  | S n' =>
    let '(st1, out, log) := gdecode1_gen rf true st in
    let '(st2, outs) := gdecode_n rf st1 n' in
    (st2, (out, log) :: outs)
  end.

Definition pdecode_n : gstate preader -> nat -> gstate preader * list (dout * list alloc) :=
  gdecode_n pread_full.

(* histories with ReuseBuffer / MaxMessageSize assignments, for the correspondence run *)
Definition pdstep (fixed : bool) (st : gstate preader) (o : dop)
  : gstate preader * option (dout * list alloc) :=
  match o with
  | OpDecode => let '(st', out, log) := pdecode1_gen fixed st in (st', Some (out, log))
  | OpReuse => (mkD (d_rd st) (d_hdrcap st) (d_bufcap st) true (d_max st), None)
  | OpSetMax m => (mkD (d_rd st) (d_hdrcap st) (d_bufcap st) (d_reuse st) (wrap64 m), None)
  end.

(* ------------------------------------------------------------------ NewPackedEncoder *)

(* Encoder.writePacked: e.packbuf = packed.Pack(e.packbuf[:0], b) for the header and each
   segment in turn ([encode_packed] of Frame.v); the packed stream of a message list *)
Fixpoint encode_packed_stream (msgs : list (list (list Z))) : res (list Z) :=
  match msgs with
  | [] => Ok []
  | m :: r => do p <- encode_packed true m; do q <- encode_packed_stream r; Ok (p ++ q)
  end.
