(* More io.Reader behaviours for the plain (unpacked) Decoder.  The io.Reader contract allows a
   Read to return
     - fewer bytes than asked for (any chunking),
     - 0 bytes and a nil error (an empty chunk),
     - the last bytes of the stream TOGETHER with the error that ends it ((n > 0, io.EOF), or
       (n > 0, some other error)), instead of reporting the error by a later (0, err).
   Frame.v's [reader] covers the first two; [xreader] adds the third: [x_tog] = the final error
   comes with the last piece of the last chunk.  io.ReadFull = io.ReadAtLeast:
     for n < min && err == nil { nn, err = r.Read(buf[n:]); n += nn }
     if n >= min { err = nil } else if n > 0 && err == io.EOF { err = io.ErrUnexpectedEOF }
   so bytes that arrive with an error count, and the error is dropped when they fill the buffer.
   After it has reported its final error the reader reports io.EOF.  No proofs in this file. *)
From CV Require Export Frame.Frame.
Open Scope Z_scope.

Record xreader := mkX { x_chunks : list (list Z); x_final : rerr; x_tog : bool }.

Definition is_nil {A} (l : list A) : bool := match l with [] => true | _ => false end.

Fixpoint xread_full_loop (cs : list (list Z)) (fin : rerr) (tog : bool) (need : Z) (got : bool)
  : rf_out * xreader :=
  if need <=? 0 then (RFok [], mkX cs fin tog)
  else
    match cs with
    | [] =>
      (match got, fin with
       | false, EOF => RFeof
       | _, _ => RFerr
       end, mkX [] EOF tog)
    | c :: cs' =>
      if len c <=? need then
        if tog && is_nil cs' then
          (* the last chunk, delivered whole, with the final error *)
          if need <=? len c then (RFok c, mkX [] EOF tog)          (* n >= min: the error is dropped *)
          else (match got || negb (len c =? 0), fin with
                | false, EOF => RFeof
                | _, _ => RFerr
                end, mkX [] EOF tog)
        else
          let '(o, r) := xread_full_loop cs' fin tog (need - len c) (got || negb (len c =? 0)) in
          (match o with RFok b => RFok (c ++ b) | x => x end, r)
      else (RFok (firstn (Z.to_nat need) c), mkX (skipn (Z.to_nat need) c :: cs') fin tog)
    end.

Definition xread_full (r : xreader) (need : Z) : rf_out * xreader :=
  xread_full_loop (x_chunks r) (x_final r) (x_tog r) need false.

Definition xdecode1_gen : bool -> gstate xreader -> gstate xreader * dout * list alloc :=
  gdecode1_gen xread_full.
Definition xdecode1 : gstate xreader -> gstate xreader * dout * list alloc := xdecode1_gen true.

Definition xdstep (fixed : bool) (st : gstate xreader) (o : dop)
  : gstate xreader * option (dout * list alloc) :=
  match o with
  | OpDecode => let '(st', out, log) := xdecode1_gen fixed st in (st', Some (out, log))
  | OpReuse => (mkD (d_rd st) (d_hdrcap st) (d_bufcap st) true (d_max st), None)
  | OpSetMax m => (mkD (d_rd st) (d_hdrcap st) (d_bufcap st) (d_reuse st) (wrap64 m), None)
  end.

(* the seeded defect C14-r2-2 as a model variant: a hand-rolled ReadFull that tests the error
   before counting the bytes that came with it *)
Fixpoint xread_full_drop_loop (cs : list (list Z)) (fin : rerr) (tog : bool) (need : Z) (got : bool)
  : rf_out * xreader :=
  if need <=? 0 then (RFok [], mkX cs fin tog)
  else
    match cs with
    | [] =>
      (match got, fin with
       | false, EOF => RFeof
       | _, _ => RFerr
       end, mkX [] EOF tog)
    | c :: cs' =>
      if len c <=? need then
        if tog && is_nil cs' then
          (match got, fin with false, EOF => RFeof | _, _ => RFerr end, mkX [] EOF tog)
        else
          let '(o, r) := xread_full_drop_loop cs' fin tog (need - len c) (got || negb (len c =? 0)) in
          (match o with RFok b => RFok (c ++ b) | x => x end, r)
      else (RFok (firstn (Z.to_nat need) c), mkX (skipn (Z.to_nat need) c :: cs') fin tog)
    end.

Definition xread_full_drop (r : xreader) (need : Z) : rf_out * xreader :=
  xread_full_drop_loop (x_chunks r) (x_final r) (x_tog r) need false.
