(* Decode with ReuseBuffer, at the level of buffer contents and of the reused Message object
   (FrameReuse.v), returns exactly what Frame.v's capacities-only decoder returns -- whatever the
   reused buffers contained before and whatever the Message had cached -- and therefore what
   Decode WITHOUT ReuseBuffer returns. *)
From CV Require Import Frame.Frame.
From CV Require Import Frame.FrameReuse.
From CV Require Import Frame.FrameProofs.
From CV Require Import Frame.FrameSafe.
From CV Require Import Frame.FrameStream.
From CV Require Import Frame.FrameAlloc.
From CV Require Import Frame.FrameThms.
From Coq Require Import ZifyBool ZifyNat.
Ltac Zify.zify_post_hook ::= Z.div_mod_to_equations.
Open Scope Z_scope.

(* ------------------------------------------------------------ arrays *)

Lemma len_overwrite b off d : 0 <= off -> off + len d <= len b -> len (overwrite b off d) = len b.
Proof.
  intros H0 H1. pose proof (len_nonneg d). unfold overwrite. rewrite !len_app.
  rewrite len_firstn, len_skipn by lia. lia.
Qed.

Lemma overwrite_0 b d : overwrite b 0 d = d ++ skipn (Z.to_nat (len d)) b.
Proof. unfold overwrite. cbn [Z.to_nat firstn app]. now rewrite Z.add_0_l. Qed.

Lemma nth_set_nth {A} (d : A) : forall n l x, (n < length l)%nat -> nth n (set_nth n l x) d = x.
Proof.
  induction n as [|n IH]; intros l x H; destruct l as [|y l]; cbn [length] in H; try lia; cbn [set_nth nth].
  - reflexivity.
  - apply IH. lia.
Qed.

Lemma set_nth_length {A} : forall n (l : list A) x, length (set_nth n l x) = length l.
Proof.
  induction n as [|n IH]; intros l x; destruct l as [|y l]; cbn [set_nth length]; try reflexivity.
  now rewrite IH.
Qed.

Lemma nth_app_new {A} (d : A) l x : nth (length l) (l ++ [x]) d = x.
Proof. rewrite app_nth2 by lia. now rewrite Nat.sub_diag. Qed.

Lemma len_read_rest r need : 0 <= need -> len (read_rest r need) <= need.
Proof. intros H. unfold read_rest, len. rewrite firstn_length. lia. Qed.

Lemma wrap64_nonneg z : 0 <= wrap64 z.
Proof. unfold wrap64, two64. lia. Qed.

Lemma total_size_loop_nonneg : forall n hb i s t, 0 <= s -> total_size_loop n hb i s = Ok t -> 0 <= t.
Proof.
  induction n as [|n IH]; intros hb i s t Hs H; cbn [total_size_loop] in H.
  - congruence.
  - destruct (segment_size hb (wrap32 i)); cbn [bind] in H; try discriminate.
    eapply IH; [|exact H]. apply wrap64_nonneg.
Qed.

Lemma total_size_nonneg hb t : total_size hb = Ok t -> 0 <= t.
Proof.
  unfold total_size. destruct (max_segment hb); cbn [bind]; try discriminate.
  apply total_size_loop_nonneg. lia.
Qed.

(* ------------------------------------------------------------ slices of d.buf vs copies *)

Definition slice (A : list Z) (v : view) : list Z :=
  firstn (Z.to_nat (v_len v)) (skipn (Z.to_nat (v_off v)) A).

Lemma skipn_firstn_Z {A} (l : list A) (a s : nat) : (s <= a)%nat ->
  skipn s (firstn a l) = firstn (a - s) (skipn s l).
Proof. intros H. rewrite skipn_firstn_comm. reflexivity. Qed.

(* demuxArena as slices of the array [A] agrees with demuxArena on the copied bytes *)
Lemma demux_views_spec : forall n hb i arr off avail A,
  0 <= off -> 0 <= avail ->
  match demux_loop n hb i (firstn (Z.to_nat avail) (skipn (Z.to_nat off) A)) with
  | Ok segs => len (skipn (Z.to_nat off) A) >= avail ->
               exists vs, demux_views n hb i arr off avail = Ok vs /\ map (slice A) vs = segs /\
                          Forall (fun v => v_arr v = arr) vs /\ length vs = n
  | Err e => len (skipn (Z.to_nat off) A) >= avail -> demux_views n hb i arr off avail = Err e
  | Panic => len (skipn (Z.to_nat off) A) >= avail -> demux_views n hb i arr off avail = Panic
  end.
Proof.
  induction n as [|n IH]; intros hb i arr off avail A Ho Ha; cbn [demux_loop demux_views].
  - intros _. exists []. repeat split. constructor.
  - destruct (segment_size hb (wrap32 i)) as [sz| |] eqn:Es; cbn [bind]; [|intros _; reflexivity|intros _; reflexivity].
    pose proof (segment_size_bound _ _ _ Es) as [Hs0 _].
    set (S0 := skipn (Z.to_nat off) A) in *.
    destruct (len (firstn (Z.to_nat avail) S0) <? sz) eqn:E1.
    + intros Hl. rewrite len_firstn in E1 by lia. destruct (avail <? sz) eqn:E2; [reflexivity|lia].
    + specialize (IH hb (i + 1) arr (off + sz) (avail - sz) A ltac:(lia)).
      assert (Hdata : skipn (Z.to_nat sz) (firstn (Z.to_nat avail) S0)
                      = firstn (Z.to_nat (avail - sz)) (skipn (Z.to_nat (off + sz)) A)).
      { destruct (Z_le_gt_dec sz avail) as [Hle|Hgt].
        - rewrite skipn_firstn_Z by lia. unfold S0. rewrite <- skipn_add.
          f_equal; [lia|f_equal; lia].
        - (* then the first test fired unless the array is short: handled by the caller's premise *)
          replace (Z.to_nat (avail - sz)) with 0%nat by lia. cbn [firstn].
          apply skipn_all2. rewrite firstn_length. lia. }
      rewrite Hdata.
      destruct (demux_loop n hb (i + 1) (firstn (Z.to_nat (avail - sz)) (skipn (Z.to_nat (off + sz)) A)))
        as [r| |] eqn:Er; cbn [bind]; intros Hl; rewrite len_firstn in E1 by lia;
        (destruct (avail <? sz) eqn:E2; [lia|]);
        (assert (Hl2 : len (skipn (Z.to_nat (off + sz)) A) >= avail - sz)
           by (replace (Z.to_nat (off + sz)) with (Z.to_nat off + Z.to_nat sz)%nat by lia;
               rewrite skipn_add; fold S0; rewrite len_skipn by lia; lia));
        specialize (IH ltac:(lia) Hl2).
      * destruct IH as [vs [Ev [Hm [Hf Hlen]]]]. rewrite Ev. cbn [bind].
        eexists. split; [reflexivity|]. split; [|split; [constructor; [reflexivity|assumption]|cbn [length]; lia]].
        cbn [map]. rewrite Hm. f_equal. unfold slice. cbn [v_len v_off]. fold S0.
        rewrite firstn_firstn. f_equal. lia.
      * rewrite IH. reflexivity.
      * rewrite IH. reflexivity.
Qed.

(* ------------------------------------------------------------ the Message's segment cache *)

(* every cached segment is the arena's segment with that id *)
Definition cache_ok (m : msgobj) : Prop :=
  (forall v, mo_first m = Some v -> arena_data (mo_arena m) 0 = Some v) /\
  (forall l, mo_segs m = Some l -> forall id v, assoc id l = Some v -> arena_data (mo_arena m) id = Some v).

Lemma cache_ok_fresh a : cache_ok (mkMsg a None None).
Proof. split; cbn [mo_first mo_segs]; intros; discriminate. Qed.

Lemma msg_segment_ok m id : cache_ok m ->
  snd (msg_segment m id) = (if id >=? arena_nsegs (mo_arena m) then None else arena_data (mo_arena m) id) /\
  mo_arena (fst (msg_segment m id)) = mo_arena m /\ cache_ok (fst (msg_segment m id)).
Proof.
  intros [Hf Hs]. unfold msg_segment.
  destruct (id >=? arena_nsegs (mo_arena m)) eqn:En; [cbn [fst snd]; repeat split; assumption|].
  destruct m as [a first segs]. cbn [mo_arena mo_first mo_segs] in *.
  assert (Hmiss : forall l0,
            (match segs with Some l => assoc id l | None => None end) = None ->
            segs = l0 -> True) by auto.
  destruct segs as [l|].
  - (* a map exists *)
    destruct (assoc id l) as [v|] eqn:Ea.
    + cbn [fst snd mo_arena]. split; [symmetry; now apply (Hs l eq_refl)|]. split; [reflexivity|split; assumption].
    + destruct (arena_data a id) as [v|] eqn:Ed; cbn [fst snd mo_arena].
      * split; [reflexivity|]. split; [reflexivity|]. split; cbn [mo_first mo_segs mo_arena]; [assumption|].
        intros l0 [= <-] id0 v0. cbn [assoc]. destruct (id =? id0) eqn:E; [intros [= <-]; now replace id0 with id by lia|].
        now apply (Hs l eq_refl).
      * repeat split; assumption.
  - destruct (id =? 0) eqn:E0.
    + destruct first as [v|].
      * cbn [fst snd mo_arena]. replace id with 0 by lia. split; [symmetry; now apply Hf|]. split; [reflexivity|split; assumption].
      * cbn [assoc]. destruct (arena_data a id) as [v|] eqn:Ed; cbn [fst snd mo_arena].
        -- split; [reflexivity|]. split; [reflexivity|]. split; cbn [mo_first mo_segs mo_arena].
           ++ intros v0 [= <-]. now replace 0 with id by lia.
           ++ intros; discriminate.
        -- repeat split; assumption.
    + assert (Hgen : forall fo, fo = first ->
                snd (match arena_data a id with
                     | Some v => (mkMsg a fo (Some ((id, v) :: match fo with Some f => [(0, f)] | None => [] end)), Some v)
                     | None => (mkMsg a fo None, @None view) end) = arena_data a id).
      { intros fo _. destruct (arena_data a id); reflexivity. }
      destruct first as [f|]; destruct (arena_data a id) as [v|] eqn:Ed; cbn [fst snd mo_arena].
      * split; [reflexivity|]. split; [reflexivity|]. split; cbn [mo_first mo_segs mo_arena]; [assumption|].
        intros l0 [= <-] id0 v0. cbn [assoc]. destruct (id =? id0) eqn:E; [intros [= <-]; now replace id0 with id by lia|].
        destruct (0 =? id0) eqn:E1; [intros [= <-]; replace id0 with 0 by lia; now apply Hf|discriminate].
      * repeat split; assumption.
      * split; [reflexivity|]. split; [reflexivity|]. split; cbn [mo_first mo_segs mo_arena]; [assumption|].
        intros l0 [= <-] id0 v0. cbn [assoc]. destruct (id =? id0) eqn:E; [intros [= <-]; now replace id0 with id by lia|discriminate].
      * repeat split; assumption.
Qed.

Fixpoint expect (heap : list (list Z)) (a : arena_v) (n : nat) (id : Z) : list (option (list Z)) :=
  match n with
  | O => []
  | S n' => option_map (deref heap) (arena_data a id) :: expect heap a n' (id + 1)
  end.

Lemma read_segs_ok heap : forall n id m, cache_ok m -> 0 <= id -> id + Z.of_nat n <= arena_nsegs (mo_arena m) ->
  snd (read_segs heap n id m) = expect heap (mo_arena m) n id.
Proof.
  induction n as [|n IH]; intros id m Hc Hi Hn; [reflexivity|]. cbn [read_segs expect].
  destruct (msg_segment_ok m id Hc) as [H1 [H2 H3]].
  destruct (msg_segment m id) as [m1 ov]. cbn [fst snd] in *.
  specialize (IH (id + 1) m1 H3 ltac:(lia) ltac:(rewrite H2; lia)).
  destruct (read_segs heap n (id + 1) m1) as [m2 r]. cbn [snd] in *.
  destruct (id >=? arena_nsegs (mo_arena m)) eqn:E; [lia|]. now rewrite H1, IH, H2.
Qed.

Lemma expect_multi heap : forall post pre,
  expect heap (AMulti (pre ++ post)) (length post) (len pre) = map (fun v => Some (deref heap v)) post.
Proof.
  induction post as [|v post IH]; intros pre; [reflexivity|]. cbn [length expect map].
  pose proof (len_nonneg pre). cbn [arena_data]. destruct (len pre <? 0) eqn:E; [lia|].
  unfold len at 1. rewrite Nat2Z.id, nth_error_app2, Nat.sub_diag by lia. cbn [nth_error option_map]. f_equal.
  replace (pre ++ v :: post) with ((pre ++ [v]) ++ post) by (now rewrite <- app_assoc).
  replace (len pre + 1) with (len (pre ++ [v])) by (rewrite len_app; reflexivity). apply IH.
Qed.

(* reading every segment of a freshly Reset message gives the arena's segments, whatever the
   Message had cached before the Reset *)
Lemma read_all_fresh_multi heap vs :
  snd (read_all heap (mkMsg (AMulti vs) None None)) = map (fun v => Some (deref heap v)) vs.
Proof.
  unfold read_all. cbn [mo_arena arena_nsegs]. unfold len. rewrite Nat2Z.id.
  rewrite read_segs_ok; [|apply cache_ok_fresh|lia|cbn [mo_arena arena_nsegs]; unfold len; lia].
  cbn [mo_arena]. exact (expect_multi heap vs []).
Qed.

Lemma read_all_fresh_single heap v :
  snd (read_all heap (mkMsg (ASingle v) None None)) = [Some (deref heap v)].
Proof. reflexivity. Qed.

(* ------------------------------------------------------------ refinement: contents vs capacities *)

Definition out_match (out : dout) (o : uout) (segs_read : list (option (list Z))) : Prop :=
  match out with
  | DMsg segs => o = UMsg /\ segs_read = map Some segs
  | DEof => o = UEof
  | DErr e => o = UErr e
  | DPanic => o = UPanic
  end.

Definition ref_ok (x : ustate * uout) (y : dstate * dout * list alloc) : Prop :=
  u_abs (fst x) = fst (fst y) /\ (u_cur (fst x) < length (u_heap (fst x)))%nat /\
  out_match (snd (fst y)) (snd x) (snd (read_all (u_heap (fst x)) (u_msg (fst x)))).

Lemma deref_slice heap v : deref heap v = slice (nth (v_arr v) heap []) v.
Proof. reflexivity. Qed.

Lemma rdecode_body_refines st rd hdrbuf maxSize maxSeg hb log0 :
  (u_cur st < length (u_heap st))%nat ->
  ref_ok (rdecode_body ResetFull st rd hdrbuf maxSize maxSeg hb)
         (decode_body (mkD rd (len hdrbuf) (len (u_buf st)) true (u_max st)) maxSize maxSeg hb log0).
Proof.
  intros Hcur. unfold rdecode_body, decode_body, gdecode_body, ref_ok, u_abs, with_u, with_rd.
  destruct (total_size hb) as [total| |] eqn:Et;
    [|cbn [fst snd u_rd u_hdrbuf u_heap u_cur u_max u_buf out_match]; auto
     |cbn [fst snd u_rd u_hdrbuf u_heap u_cur u_max u_buf out_match]; auto].
  pose proof (total_size_nonneg hb total Et) as Ht0.
  destruct ((total >? wrap64 (maxSize - len hb)) || (total >? max_int));
    [cbn [fst snd u_rd u_hdrbuf u_heap u_cur u_max u_buf out_match]; auto|].
  cbn [d_reuse negb d_bufcap d_rd d_hdrcap d_max]. unfold resize.
  (* the array d.buf points to after resizeSlice *)
  set (hc := if len (u_buf st) <? total
             then (u_heap st ++ [zeros (Z.to_nat total)], length (u_heap st)) else (u_heap st, u_cur st)).
  assert (Hhc : (snd hc < length (fst hc))%nat /\ total <= len (nth (snd hc) (fst hc) []) /\
                len (nth (snd hc) (fst hc) []) = (if len (u_buf st) <? total then total else len (u_buf st))).
  { unfold hc. destruct (len (u_buf st) <? total) eqn:E; cbn [fst snd].
    - rewrite app_length, nth_app_new, len_zeros. cbn [length]. lia.
    - unfold u_buf in *. lia. }
  destruct hc as [heap cur]. cbn [fst snd] in Hhc. destruct Hhc as [Hc2 [Hfit Hcap]].
  set (arr := nth cur heap []) in *.
  destruct (read_full rd total) as [o r'] eqn:Er.
  assert (Hcap' : forall d, len d <= total -> len (nth cur (set_nth cur heap (overwrite arr 0 d)) []) = len arr).
  { intros d Hd. rewrite nth_set_nth by assumption. apply len_overwrite; lia. }
  destruct (len (u_buf st) <? total) eqn:Ecap; cbn [d_rd];
  (destruct o as [b| |];
   [ destruct (read_full_ok_inv rd total b r' Ht0 Er) as [_ [_ [Hlb _]]]
   | cbn [fst snd u_rd u_hdrbuf u_heap u_cur u_max u_buf out_match with_rd d_rd d_hdrcap d_bufcap d_reuse d_max];
     unfold u_buf in *; cbn [u_heap u_cur]; rewrite set_nth_length;
     pose proof (len_read_rest rd total Ht0); rewrite Hcap' by lia; (split; [f_equal; lia|]); split; [assumption|reflexivity]
   | cbn [fst snd u_rd u_hdrbuf u_heap u_cur u_max u_buf out_match with_rd d_rd d_hdrcap d_bufcap d_reuse d_max];
     unfold u_buf in *; cbn [u_heap u_cur]; rewrite set_nth_length;
     pose proof (len_read_rest rd total Ht0); rewrite Hcap' by lia; (split; [f_equal; lia|]); split; [assumption|reflexivity] ]).
  all: set (A := overwrite arr 0 b) in *.
  all: assert (HA : firstn (Z.to_nat total) (skipn (Z.to_nat 0) A) = b)
         by (unfold A; rewrite overwrite_0; cbn [Z.to_nat skipn]; rewrite <- Hlb; apply firstn_app_len).
  all: assert (HAl : len (skipn (Z.to_nat 0) A) >= total)
         by (cbn [Z.to_nat skipn]; unfold A; rewrite len_overwrite by lia; lia).
  all: assert (Hnth : nth cur (set_nth cur heap A) [] = A) by (now apply nth_set_nth).
  all: destruct (maxSeg =? 0) eqn:E0.
  (* single segment: the buffer itself *)
  1,3: cbn [fst snd u_rd u_hdrbuf u_heap u_cur u_max u_buf u_msg out_match with_rd d_rd d_hdrcap d_bufcap d_reuse d_max msg_reset];
       unfold u_buf in *; cbn [u_heap u_cur]; rewrite set_nth_length, Hnth;
       (split; [f_equal; unfold A; rewrite len_overwrite by lia; lia|]); (split; [assumption|]);
       (split; [reflexivity|]); rewrite read_all_fresh_single; unfold deref; cbn [v_arr v_off v_len];
       rewrite Hnth, HA; reflexivity.
  (* several segments: slices of the buffer *)
  all: unfold demux_arena; destruct (max_segment hb) as [m| |] eqn:Em; cbn [bind];
       [ | cbn [fst snd u_rd u_hdrbuf u_heap u_cur u_max u_buf u_msg out_match with_rd d_rd d_hdrcap d_bufcap d_reuse d_max];
           unfold u_buf in *; cbn [u_heap u_cur]; rewrite set_nth_length, Hnth;
           (split; [f_equal; unfold A; rewrite len_overwrite by lia; lia|]); split; [assumption|reflexivity]
         | cbn [fst snd u_rd u_hdrbuf u_heap u_cur u_max u_buf u_msg out_match with_rd d_rd d_hdrcap d_bufcap d_reuse d_max];
           unfold u_buf in *; cbn [u_heap u_cur]; rewrite set_nth_length, Hnth;
           (split; [f_equal; unfold A; rewrite len_overwrite by lia; lia|]); split; [assumption|reflexivity] ].
  all: pose proof (demux_views_spec (Z.to_nat (m + 1)) hb 0 cur 0 total A ltac:(lia) Ht0) as Hdv;
       rewrite HA in Hdv;
       destruct (demux_loop (Z.to_nat (m + 1)) hb 0 b) as [segs| |] eqn:Ed; specialize (Hdv HAl);
       [ destruct Hdv as [vs [Ev [Hm [Hf _]]]]; rewrite Ev | rewrite Hdv | rewrite Hdv ];
       cbn [fst snd u_rd u_hdrbuf u_heap u_cur u_max u_buf u_msg out_match with_rd d_rd d_hdrcap d_bufcap d_reuse d_max msg_reset];
       unfold u_buf in *; cbn [u_heap u_cur]; rewrite set_nth_length, Hnth;
       (split; [f_equal; unfold A; rewrite len_overwrite by lia; lia|]); (split; [assumption|]); try reflexivity.
  all: split; [reflexivity|]; rewrite read_all_fresh_multi, <- Hm, map_map; apply map_ext_in;
       intros v Hv; f_equal; rewrite deref_slice; rewrite Forall_forall in Hf; rewrite (Hf v Hv), Hnth; reflexivity.
Qed.

Lemma header_rebuilt hb0 w rest hdrSize :
  len w = 8 -> len rest = hdrSize - 8 -> 16 <= hdrSize -> hdrSize <= len hb0 ->
  let hb2 := overwrite (overwrite hb0 0 w) word_size rest in
  firstn (Z.to_nat hdrSize) hb2 = w ++ rest /\ len hb2 = len hb0.
Proof.
  intros Hw Hr H16 Hl. cbv zeta. unfold word_size.
  assert (L1 : len (overwrite hb0 0 w) = len hb0) by (apply len_overwrite; lia).
  split; [|rewrite len_overwrite; lia].
  rewrite overwrite_0. unfold overwrite at 1.
  replace (Z.to_nat 8) with (Z.to_nat (len w)) by (f_equal; lia).
  rewrite firstn_app_len, app_assoc.
  replace (Z.to_nat hdrSize) with (Z.to_nat (len (w ++ rest))) by (rewrite len_app; f_equal; lia).
  apply firstn_app_len.
Qed.

(* One Decode with ReuseBuffer on buffer contents = one Decode of the capacities-only model, for
   ANY previous contents of d.hdrbuf and d.buf and ANY state of the Message's segment cache. *)
Theorem rdecode1_refines st :
  bytes_ok (concat (r_chunks (u_rd st))) -> (u_cur st < length (u_heap st))%nat ->
  ref_ok (rdecode1 st) (decode1 (u_abs st)).
Proof.
  intros Hb Hcur.
  unfold rdecode1, rdecode1_gen, decode1, decode1_gen, gdecode1_gen, u_abs.
  cbn [d_max d_rd d_hdrcap d_bufcap d_reuse].
  destruct (negb (u_max st =? 0) && (u_max st <? word_size)).
  { unfold ref_ok, u_abs. cbn [fst snd out_match]. auto. }
  destruct (read_full (u_rd st) word_size) as [o r'] eqn:Er.
  destruct (read_full_bytes_ok (u_rd st) word_size o r' Hb Er) as [Hb1 Hbw].
  destruct o as [w| |];
    [|unfold ref_ok, u_abs, with_u, with_rd; cbn [fst snd out_match u_rd u_hdrbuf u_heap u_cur u_max u_buf d_rd d_hdrcap d_bufcap d_reuse d_max]; auto
     |unfold ref_ok, u_abs, with_u, with_rd; cbn [fst snd out_match u_rd u_hdrbuf u_heap u_cur u_max u_buf d_rd d_hdrcap d_bufcap d_reuse d_max]; auto].
  destruct (read_full_ok_inv (u_rd st) word_size w r' ltac:(unfold word_size; lia) Er) as [_ [_ [Hlw _]]].
  unfold word_size in Hlw. specialize (Hbw w eq_refl). pose proof (le32_get_range w Hbw) as Hm.
  unfold with_rd at 1. cbn [d_rd d_hdrcap d_bufcap d_reuse d_max].
  destruct (le32_get w + 1 >? seg_count_limit true) eqn:Elim.
  { unfold ref_ok, u_abs, with_u; cbn [fst snd out_match u_rd u_hdrbuf u_heap u_cur u_max u_buf]; auto. }
  destruct (le32_get w =? 0) eqn:E0.
  { exact (rdecode_body_refines st r' (u_hdrbuf st) _ (le32_get w) w [] Hcur). }
  pose proof (stream_header_size_bounds (le32_get w) Hm) as HB.
  set (hdrSize := stream_header_size (le32_get w)) in *.
  destruct ((hdrSize >? (if u_max st =? 0 then default_decode_limit else u_max st)) || (hdrSize >? max_int)).
  { unfold ref_ok, u_abs, with_u; cbn [fst snd out_match u_rd u_hdrbuf u_heap u_cur u_max u_buf]; auto. }
  unfold resize, with_rd. cbn [d_rd d_hdrcap d_bufcap d_reuse d_max].
  remember (if len (u_hdrbuf st) <? hdrSize then zeros (Z.to_nat hdrSize) else u_hdrbuf st) as hb0 eqn:Ehb0.
  assert (Hhb0 : hdrSize <= len hb0 /\
                 len hb0 = (if len (u_hdrbuf st) <? hdrSize then hdrSize else len (u_hdrbuf st))).
  { subst hb0. destruct (len (u_hdrbuf st) <? hdrSize) eqn:E; [rewrite len_zeros|]; lia. }
  destruct Hhb0 as [Hfit Hcap]. clear Ehb0.
  assert (L1 : len (overwrite hb0 0 w) = len hb0) by (apply len_overwrite; lia).
  destruct (len (u_hdrbuf st) <? hdrSize) eqn:Ecap; cbn [d_rd d_hdrcap d_bufcap d_reuse d_max];
    destruct (read_full r' (hdrSize - word_size)) as [o2 r''] eqn:Er2;
    (destruct o2 as [rest| |];
     [ destruct (read_full_ok_inv r' (hdrSize - word_size) rest r'' ltac:(unfold word_size; lia) Er2) as [_ [_ [Hlr _]]];
       unfold word_size in Hlr;
       destruct (header_rebuilt hb0 w rest hdrSize Hlw Hlr ltac:(lia) Hfit) as [Hfirst Hlen2];
       rewrite Hfirst; unfold with_rd; cbn [d_rd d_hdrcap d_bufcap d_reuse d_max];
       match goal with |- ref_ok _ (gdecode_body read_full ?s _ _ _ ?l) =>
         pose proof (rdecode_body_refines st r'' (overwrite (overwrite hb0 0 w) word_size rest)
                       (if u_max st =? 0 then default_decode_limit else u_max st) (le32_get w) (w ++ rest) l Hcur) as R
       end;
       rewrite Hlen2, Hcap in R; exact R
     | pose proof (len_read_rest r' (hdrSize - word_size) ltac:(unfold word_size; lia)) as Hrr;
       unfold ref_ok, u_abs, with_u, with_rd;
       cbn [fst snd out_match u_rd u_hdrbuf u_heap u_cur u_max u_buf d_rd d_hdrcap d_bufcap d_reuse d_max];
       rewrite len_overwrite by (unfold word_size in *; lia); rewrite L1, Hcap; auto
     | pose proof (len_read_rest r' (hdrSize - word_size) ltac:(unfold word_size; lia)) as Hrr;
       unfold ref_ok, u_abs, with_u, with_rd;
       cbn [fst snd out_match u_rd u_hdrbuf u_heap u_cur u_max u_buf d_rd d_hdrcap d_bufcap d_reuse d_max];
       rewrite len_overwrite by (unfold word_size in *; lia); rewrite L1, Hcap; auto ]).
Qed.

(* ------------------------------------------------------------ histories *)

Definition ust_ok (st : ustate) : Prop :=
  bytes_ok (concat (r_chunks (u_rd st))) /\ (u_cur st < length (u_heap st))%nat /\ 0 <= u_max st < two64.

(* Every history Decode; read all segments; Decode; ... with ReuseBuffer, from ANY contents of the
   reused buffers (u_hdrbuf, u_heap: stale bytes of earlier frames or anything else) and ANY state
   of the reused Message's segment cache (u_msg), on ANY byte stream: each Decode reports what the
   capacities-only decoder of Frame.v reports, and the segments the caller then reads through
   Message.Segment are exactly the segments of that message. *)
Theorem reuse_history_refines : forall n st, ust_ok st ->
  Forall2 (fun ro d => out_match (fst d) (fst ro) (snd ro))
          (rdecode_read_n ResetFull st n) (snd (decode_n (u_abs st) n)).
Proof.
  induction n as [|n IH]; intros st [Hb [Hcur Hmx]]; [constructor|].
  rewrite decode_n_S. cbn [rdecode_read_n].
  pose proof (rdecode1_refines st Hb Hcur) as [Ha [Hc Ho]]. fold (rdecode1 st).
  destruct (rdecode1 st) as [st1 o] eqn:Er. destruct (decode1 (u_abs st)) as [[a1 out] log] eqn:Ed.
  cbn [fst snd] in *.
  assert (Hok1 : bytes_ok (concat (r_chunks (u_rd st1))) /\ 0 <= u_max st1 < two64).
  { unfold u_abs in Ed.
    destruct (u_rd st) as [cs fin] eqn:Erd.
    destruct (alloc_bound cs fin _ _ true (u_max st) a1 out log Hb Hmx Ed)
      as [_ [_ [_ [_ [B5 B6]]]]].
    rewrite <- Ha in B5, B6. cbn [u_abs d_rd d_max] in B5, B6. rewrite B6. auto. }
  destruct Hok1 as [Hb1 Hmx1].
  destruct out as [segs| |e|]; cbn [out_match] in Ho.
  - destruct Ho as [-> Hread]. destruct (read_all (u_heap st1) (u_msg st1)) as [m' rs] eqn:Era. cbn [snd] in Hread.
    specialize (IH (mkU (u_rd st1) (u_hdrbuf st1) (u_heap st1) (u_cur st1) m' (u_max st1)) (conj Hb1 (conj Hc Hmx1))).
    change (u_abs (mkU (u_rd st1) (u_hdrbuf st1) (u_heap st1) (u_cur st1) m' (u_max st1))) with (u_abs st1) in IH.
    rewrite Ha in IH. destruct (decode_n a1 n) as [a2 outs]. cbn [snd] in *.
    constructor; [cbn [fst snd out_match]; auto|exact IH].
  - subst o. specialize (IH st1 (conj Hb1 (conj Hc Hmx1))). rewrite Ha in IH.
    destruct (decode_n a1 n) as [a2 outs]. cbn [snd] in *. constructor; [reflexivity|exact IH].
  - subst o. specialize (IH st1 (conj Hb1 (conj Hc Hmx1))). rewrite Ha in IH.
    destruct (decode_n a1 n) as [a2 outs]. cbn [snd] in *. constructor; [reflexivity|exact IH].
  - subst o. specialize (IH st1 (conj Hb1 (conj Hc Hmx1))). rewrite Ha in IH.
    destruct (decode_n a1 n) as [a2 outs]. cbn [snd] in *. constructor; [reflexivity|exact IH].
Qed.

Lemma bytes_ok_check l : forallb (fun b => (0 <=? b) && (b <? 256)) l = true -> bytes_ok l.
Proof.
  induction l as [|x l IH]; cbn [forallb]; intros H; [constructor|].
  apply andb_prop in H. destruct H as [H1 H2]. constructor; [unfold byte_ok; lia|now apply IH].
Qed.

(* The two broken Message.Reset variants (seeded changes C14-r4-2, C03-r4-1) on the model: a
   16-byte frame then an 8-byte frame through one decoder with ReuseBuffer, the caller reading the
   segments after each Decode.  With Reset as written the second message is its 8 bytes; with
   either variant the caller still gets the FIRST message's slice (16 bytes: the new 8 bytes
   followed by stale bytes of the first frame).  Also non-vacuity of the theorem above. *)
Example reset_variants_refuted :
  let f1 := frame [[1; 2; 3; 4; 5; 6; 7; 8; 9; 9; 9; 9; 9; 9; 9; 9]] in
  let f2 := frame [[7; 7; 7; 7; 7; 7; 7; 7]] in
  let st := mkU (mkReader [f1 ++ f2] EOF) [5; 5; 5] [[6; 6; 6]] 0 msg0 0 in
  ust_ok st /\
  map snd (rdecode_read_n ResetFull st 3)
    = [[Some [1; 2; 3; 4; 5; 6; 7; 8; 9; 9; 9; 9; 9; 9; 9; 9]]; [Some [7; 7; 7; 7; 7; 7; 7; 7]]; []] /\
  nth 1 (map snd (rdecode_read_n ResetIfArenaDiffers st 3)) [] = [Some [7; 7; 7; 7; 7; 7; 7; 7; 9; 9; 9; 9; 9; 9; 9; 9]] /\
  nth 1 (map snd (rdecode_read_n ResetKeepsFirst st 3)) [] = [Some [7; 7; 7; 7; 7; 7; 7; 7; 9; 9; 9; 9; 9; 9; 9; 9]].
Proof.
  cbv zeta. split.
  - split; [|split; [cbn [u_cur u_heap length]; lia|cbn [u_max]; unfold two64; lia]].
    apply bytes_ok_check. vm_compute. reflexivity.
  - vm_compute. repeat split; reflexivity.
Qed.
