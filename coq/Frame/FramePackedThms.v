(* Composition of C13 with C14, part 3: the theorems about the packed paths, and all
   serialisation paths returning the same segments. *)
From CV Require Import Packed.PackedProofs.
From CV Require Import Packed.ReaderProofs.
From CV Require Import Packed.ReadCallProofs.
From CV Require Import Frame.Frame.
From CV Require Import Frame.FramePacked.
From CV Require Import Frame.FrameProofs.
From CV Require Import Frame.FrameSafe.
From CV Require Import Frame.FrameStream.
From CV Require Import Frame.FrameThms.
From CV Require Import Frame.FramePackedProofs.
From CV Require Import Frame.FrameSim.
From Coq Require Import ZifyBool ZifyNat.
Ltac Zify.zify_post_hook ::= Z.div_mod_to_equations.
Open Scope Z_scope.

(* ------------------------------------------------------------ instantiating the simulation *)

Lemma psim_rf : forall r1 r2 n, psim r1 r2 ->
  fst (pread_full r1 n) = fst (read_full r2 n) /\
  (forall b, fst (pread_full r1 n) = RFok b -> psim (snd (pread_full r1 n)) (snd (read_full r2 n))).
Proof. intros r1 r2 n H. destruct (pread_full_sim r1 r2 n H) as [A [B _]]. now split. Qed.

Lemma bvalid_init : bvalid b_init.
Proof.
  unfold bvalid, rvalid, b_init, r_init. cbn [b_r b_word b_idx r_zeroes r_literal r_err].
  split; [repeat split; try lia; discriminate|]. split; [reflexivity|lia].
Qed.

(* a fresh packed.Reader over a packed string that unpacks to U, next to a plain reader over U *)
Lemma psim_init orc P U cs : bytes_ok P -> unpack P = Some U -> concat cs = U ->
  psim (p_init orc P) (mkReader cs EOF).
Proof.
  intros Hb Hu Hc. split; [|reflexivity]. cbn [r_chunks]. rewrite Hc.
  unfold pvalid, p_init. cbn [p_stuck p_b p_inp].
  split; [reflexivity|]. split; [exact bvalid_init|]. split; [assumption|]. now rewrite D_init.
Qed.

Lemma st_sim_init orc P U cs hc bc ru mx : bytes_ok P -> unpack P = Some U -> concat cs = U ->
  st_sim preader reader psim (mkD (p_init orc P) hc bc ru mx) (mkD (mkReader cs EOF) hc bc ru mx).
Proof.
  intros Hb Hu Hc. split; [now apply (psim_init orc P U)|]. repeat split.
Qed.

Lemma decode_n_gdecode_n : forall n st, decode_n st n = gdecode_n read_full st n.
Proof.
  induction n as [|n IH]; intros st; [reflexivity|].
  rewrite decode_n_S. cbn [gdecode_n]. change (gdecode1_gen read_full true st) with (decode1 st).
  destruct (decode1 st) as [[st1 out] log]. now rewrite IH.
Qed.

Lemma gdecode_n_length {R} (rf : R -> Z -> rf_out * R) : forall n st, length (snd (gdecode_n rf st n)) = n.
Proof.
  induction n as [|n IH]; intros st; [reflexivity|]. cbn [gdecode_n].
  destruct (gdecode1_gen rf true st) as [[st1 out] log]. specialize (IH st1).
  destruct (gdecode_n rf st1 n). cbn [snd length] in *. now rewrite IH.
Qed.

Lemma all_msgs_prefix : forall ms (outs : list (dout * list alloc)) tl,
  map fst outs = map DMsg ms ++ tl -> all_msgs (firstn (length ms) outs) = true.
Proof.
  induction ms as [|m ms IH]; intros outs tl H; [reflexivity|].
  destruct outs as [|[o l] outs]; [discriminate|]. cbn [map fst app length firstn all_msgs] in *.
  injection H as -> H. now apply (IH outs tl).
Qed.

(* transfer: if the plain decoder over the unpacked stream returns [ms] and then one more
   outcome, the packed decoder over the packed string returns the same *)
Lemma packed_transfer orc P U hc bc ru mx ms last st2 outs2 :
  bytes_ok P -> unpack P = Some U ->
  decode_n (mkD (mkReader [U] EOF) hc bc ru mx) (S (length ms)) = (st2, outs2) ->
  map fst outs2 = map DMsg ms ++ [last] ->
  exists st1 outs1, pdecode_n (mkD (p_init orc P) hc bc ru mx) (S (length ms)) = (st1, outs1) /\ outs1 = outs2.
Proof.
  intros Hb Hu Hd Hm. rewrite decode_n_gdecode_n in Hd.
  pose proof (gdecode_n_sim preader reader pread_full read_full psim psim_rf (S (length ms))
                (mkD (p_init orc P) hc bc ru mx) (mkD (mkReader [U] EOF) hc bc ru mx)
                (st_sim_init orc P U [U] hc bc ru mx Hb Hu ltac:(cbn [concat]; apply app_nil_r))) as [_ H2].
  cbn zeta in H2. unfold pdecode_n.
  pose proof (gdecode_n_length pread_full (S (length ms)) (mkD (p_init orc P) hc bc ru mx)) as L1.
  pose proof (gdecode_n_length read_full (S (length ms)) (mkD (mkReader [U] EOF) hc bc ru mx)) as L2.
  rewrite Hd in H2, L2. cbn [snd] in H2, L2.
  destruct (gdecode_n pread_full (mkD (p_init orc P) hc bc ru mx) (S (length ms))) as [st1 outs1].
  cbn [snd] in *. exists st1, outs1. split; [reflexivity|].
  specialize (H2 (length ms) ltac:(lia) (all_msgs_prefix ms outs2 [last] Hm)).
  rewrite (firstn_all2 outs1) in H2 by lia. rewrite (firstn_all2 outs2) in H2 by lia. exact H2.
Qed.

(* ------------------------------------------------------------ packed round trip *)

Definition pmsg_ok (mx : Z) (m : list (list Z)) : Prop := frame_ok mx m /\ msg_bytes m.

Lemma pmsg_ok_enc mx msgs : max_ok mx -> Forall (pmsg_ok mx) msgs ->
  Forall (fun m => 1 <= len m < two32 /\ segs_ok m /\ msg_bytes m) msgs /\ Forall (frame_ok mx) msgs.
Proof.
  intros Hmx H. split.
  - revert H. apply Forall_impl. intros m [Hf Hb]. destruct (frame_ok_facts mx m Hmx Hf) as [_ [H32 _]].
    destruct Hf as [_ [Hs _]]. auto.
  - revert H. apply Forall_impl. intros m [Hf _]. exact Hf.
Qed.

(* C14 + C13: any list of messages (each within the decoder's limits) written by
   NewPackedEncoder; NewPackedDecoder reading the concatenated packed stream, for every oracle
   (= every chunking of the underlying reader as seen through bufio), with or without
   ReuseBuffer, any buffer capacities: the messages come back in order, then io.EOF *)
Theorem decode_packed_encode_packed : forall msgs P orc hc bc ru mx,
  max_ok mx -> Forall (pmsg_ok mx) msgs -> encode_packed_stream msgs = Ok P ->
  exists st' outs,
    pdecode_n (mkD (p_init orc P) hc bc ru mx) (S (length msgs)) = (st', outs)
    /\ map fst outs = map DMsg msgs ++ [DEof].
Proof.
  intros msgs P orc hc bc ru mx Hmx Hok He.
  destruct (pmsg_ok_enc mx msgs Hmx Hok) as [Henc Hfr].
  destruct (encode_packed_stream_ok msgs Henc) as [P' [He' [Hb Hu]]].
  assert (P' = P) by congruence. subst P'.
  specialize (Hu []). rewrite app_nil_r in Hu. cbn in Hu. rewrite app_nil_r in Hu.
  (* the plain decoder on the unpacked stream *)
  destruct (decode_frames EOF ru mx Hmx msgs [concat (map frame msgs)] hc bc [] Hfr
              ltac:(cbn [concat]; reflexivity)) as [cs1 [hc1 [bc1 [outs [E1 [Ho Hc1]]]]]].
  destruct (decode1_eof cs1 hc1 bc1 ru mx Hmx Hc1) as [cs2 [E2 _]].
  assert (Hd : exists st2 outs2, decode_n (mkD (mkReader [concat (map frame msgs)] EOF) hc bc ru mx) (S (length msgs)) = (st2, outs2)
                 /\ map fst outs2 = map DMsg msgs ++ [DEof]).
  { replace (S (length msgs)) with (length msgs + 1)%nat by lia.
    rewrite decode_n_add, E1, decode_n_1, E2. do 2 eexists. split; [reflexivity|].
    rewrite map_app, Ho. reflexivity. }
  destruct Hd as [st2 [outs2 [Hd Hm]]].
  destruct (packed_transfer orc P _ hc bc ru mx msgs DEof st2 outs2 Hb Hu Hd Hm) as [st1 [outs1 [E ->]]].
  exists st1, outs2. split; assumption.
Qed.

(* a packed string that the one-shot decoder accepts and whose unpacked form ends strictly
   inside a frame (in particular: a packed stream cut at a packed-item boundary that is not a
   frame boundary): the whole frames are returned, then an error, never io.EOF *)
Theorem packed_cut_is_error : forall msgs m q tail qp orc hc bc ru mx,
  max_ok mx -> Forall (frame_ok mx) msgs -> frame_ok mx m ->
  frame m = q ++ tail -> q <> [] -> tail <> [] ->
  bytes_ok qp -> unpack qp = Some (concat (map frame msgs) ++ q) ->
  exists st' outs e,
    pdecode_n (mkD (p_init orc qp) hc bc ru mx) (S (length msgs)) = (st', outs)
    /\ map fst outs = map DMsg msgs ++ [DErr e] /\ (e = EReadHeader \/ e = EReadSegs).
Proof.
  intros msgs m q tail qp orc hc bc ru mx Hmx Hok Hm Hf Hq Ht Hb Hu.
  destruct (cut_is_error msgs m q tail [concat (map frame msgs) ++ q] EOF hc bc ru mx Hmx Hok Hm Hf Hq Ht
              ltac:(cbn [concat]; apply app_nil_r)) as [st2 [outs2 [e [Hd [Hmap He]]]]].
  destruct (packed_transfer orc qp _ hc bc ru mx msgs (DErr e) st2 outs2 Hb Hu Hd Hmap) as [st1 [outs1 [E ->]]].
  exists st1, outs2, e. repeat split; assumption.
Qed.

(* a prefix of a packed stream that is itself accepted by the one-shot decoder unpacks to a
   prefix of the unpacked stream (so [packed_cut_is_error] / [decode_packed_encode_packed]
   together with C14_cut_decompose cover every cut at a packed-item boundary) *)
Theorem packed_prefix_unpacks_to_prefix : forall qp rest U o,
  unpack (qp ++ rest) = Some U -> unpack qp = Some o -> exists o', U = o ++ o' /\ unpack rest = Some o'.
Proof.
  intros qp rest U o HU Ho. rewrite (unpack_app qp o rest Ho) in HU.
  destruct (unpack rest) as [o'|]; [|discriminate]. cbn [option_map] in HU.
  exists o'. split; [congruence|reflexivity].
Qed.

(* ------------------------------------------------------------ one frame through the packed decoder *)

Lemma pdecode1_of_unpack P m rest orc hc bc ru mx :
  max_ok mx -> frame_ok mx m -> bytes_ok P -> unpack P = Some (frame m ++ rest) ->
  exists st' log, pdecode1 (mkD (p_init orc P) hc bc ru mx) = (st', DMsg m, log).
Proof.
  intros Hmx Hok Hb Hu.
  destruct (decode1_frame m [frame m ++ rest] EOF hc bc ru mx rest Hmx Hok
              ltac:(cbn [concat]; apply app_nil_r)) as [cs' [hc' [bc' [log [E _]]]]].
  pose proof (gdecode1_sim preader reader pread_full read_full psim psim_rf true
                (mkD (p_init orc P) hc bc ru mx) (mkD (mkReader [frame m ++ rest] EOF) hc bc ru mx)
                (st_sim_init orc P (frame m ++ rest) [frame m ++ rest] hc bc ru mx Hb Hu ltac:(cbn [concat]; apply app_nil_r))) as [Ho [Hl _]].
  change (gdecode1_gen read_full true) with decode1 in Ho, Hl. rewrite E in Ho, Hl. cbn [fst snd] in Ho, Hl.
  unfold pdecode1, pdecode1_gen.
  destruct (gdecode1_gen pread_full true (mkD (p_init orc P) hc bc ru mx)) as [[st' o] l].
  cbn [fst snd] in *. subst. now exists st', log.
Qed.

(* ------------------------------------------------------------ all serialisation paths *)

(* C04's last sentence at the segment level.  For a message within the decoder's limits whose
   segments are byte strings, every serialisation path returns the same segment list:
   Marshal/Unmarshal, MarshalPacked/UnmarshalPacked, Encoder/Decoder for any chunking, packed
   Encoder/Decoder for any oracle; Marshal and Encode write the same bytes, and the packed
   readers accept either packed form. *)
Theorem all_paths_same_segments : forall segs mx, max_ok mx -> frame_ok mx segs -> msg_bytes segs ->
  exists b p pe,
    marshal segs = Ok b /\ encode true segs = Ok b /\
    marshal_packed segs = Ok p /\ encode_packed true segs = Ok pe /\
    (* 1 *) unmarshal b = Ok segs /\
    (* 2 *) unmarshal_packed p = Ok segs /\
    (* 3 *) (forall cs hc bc ru, concat cs = b ->
               exists st' log, decode1 (mkD (mkReader cs EOF) hc bc ru mx) = (st', DMsg segs, log)) /\
    (* 4 *) (forall orc hc bc ru,
               exists st' log, pdecode1 (mkD (p_init orc pe) hc bc ru mx) = (st', DMsg segs, log)) /\
    (* 5 *) unmarshal_packed pe = Ok segs /\
            (forall orc hc bc ru,
               exists st' log, pdecode1 (mkD (p_init orc p) hc bc ru mx) = (st', DMsg segs, log)).
Proof.
  intros segs mx Hmx Hok Hb.
  destruct (frame_ok_facts mx segs Hmx Hok) as [Hc [H32 [H8 _]]]. pose proof Hok as [_ [Hs _]].
  destruct (encode_packed_ok segs H32 Hs Hb) as [pe [Epe [Hpe Hupe]]].
  specialize (Hupe []). rewrite app_nil_r in Hupe. cbn [unpack_f length option_map] in Hupe.
  change (unpack []) with (Some (@nil Z)) in Hupe. cbn [option_map] in Hupe.
  assert (Hmp : exists p, marshal_packed segs = Ok p /\ unpack p = Some (frame segs) /\ bytes_ok p).
  { unfold marshal_packed. rewrite (marshal_frame segs Hc Hs). cbn [bind].
    destruct (pack_bytes_props (frame segs)) as [p [Ep [Eu Hp]]].
    - now apply frame_bytes_ok.
    - apply len_mod8_nat. now apply frame_mod8.
    - exists p. rewrite Ep. auto. }
  destruct Hmp as [p [Emp [Hup Hbp]]].
  assert (Hne : forall x, unpack x = Some (frame segs ++ []) -> (len x =? 0) = false).
  { intros x Hx. destruct x as [|y x]; [|rewrite len_cons; pose proof (len_nonneg x); lia].
    exfalso. change (unpack []) with (Some (@nil Z)) in Hx. apply Some_inj_sim in Hx.
    unfold frame in Hx. destruct (frame_header segs); [cbn in H8; lia|discriminate]. }
  exists (frame segs), p, pe.
  split; [now apply marshal_frame|]. split; [now apply encode_frame|].
  split; [assumption|]. split; [assumption|].
  split; [rewrite <- (app_nil_r (frame segs)); now apply unmarshal_frame|].
  split.
  { unfold unmarshal_packed. rewrite (Hne p ltac:(now rewrite app_nil_r)), Hup.
    rewrite <- (app_nil_r (frame segs)). now apply unmarshal_frame. }
  split.
  { intros cs hc bc ru Hcs.
    destruct (decode1_frame segs cs EOF hc bc ru mx [] Hmx Hok ltac:(now rewrite app_nil_r))
      as [cs' [hc' [bc' [log [E _]]]]]. eauto. }
  split.
  { intros orc hc bc ru. apply (pdecode1_of_unpack pe segs []); try assumption. }
  split.
  { unfold unmarshal_packed. rewrite (Hne pe Hupe), Hupe. now apply unmarshal_frame. }
  intros orc hc bc ru. apply (pdecode1_of_unpack p segs []); try assumption. now rewrite app_nil_r.
Qed.

(* non-vacuity: a two-segment message through the packed encoder and decoder, both oracle
   components alternating *)
Example packed_example :
  let m := [[1; 0; 0; 0; 0; 0; 0; 2]; repeat 0 16] in
  match encode_packed true m with
  | Ok p => map fst (snd (pdecode_n (d_init (p_init (fun k => (Nat.even k, Nat.odd k)) p) 0) 2)) = [DMsg m; DEof]
            /\ unmarshal_packed p = Ok m
  | _ => False
  end.
Proof. vm_compute. split; reflexivity. Qed.
