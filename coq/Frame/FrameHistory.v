(* What a whole HISTORY of Decode calls returns on a byte stream (plain path), for every history
   length: the messages of the frames at the head of the stream, then the outcome on what is left;
   io.EOF exactly when nothing is left (and the reader ends with io.EOF); after io.EOF or a read
   error (stream exhausted) every later Decode returns io.EOF.  The Decoder is NOT sticky: after an
   error of another class (too many segments, too large, size overflow) it goes on parsing at the
   byte after what it consumed ([decode_not_sticky]). *)
From CV Require Import Frame.Frame.
From CV Require Import Frame.FramePacked.
From CV Require Import Frame.FrameHist.
From CV Require Import Frame.FrameProofs.
From CV Require Import Frame.FrameSafe.
From CV Require Import Frame.FrameStream.
From CV Require Import Frame.FrameThms.
From Coq Require Import ZifyBool ZifyNat.
Ltac Zify.zify_post_hook ::= Z.div_mod_to_equations.
Open Scope Z_scope.

(* outcomes after which the stream is exhausted: io.EOF, or a failed read of header / segments *)
Definition end_out (o : dout) : bool :=
  match o with DEof | DErr EReadHeader | DErr EReadSegs => true | _ => false end.

Definition exhausted (r : reader) : Prop := concat (r_chunks r) = [] /\ r_final r = EOF.

(* ------------------------------------------------------------ a failed ReadFull *)

Lemma read_full_fail r need o r' : read_full r need = (o, r') -> (forall b, o <> RFok b) ->
  exhausted r' /\ (o = RFeof -> exhausted r).
Proof.
  intros H Hno. pose proof (read_full_flat_eq r need) as E. rewrite H in E.
  unfold flat, read_full_flat in E. cbn [fst snd] in E.
  destruct (need <=? 0); [injection E as Ho _ _; now destruct (Hno [])|].
  destruct (need <=? len (concat (r_chunks r))); [injection E as Ho _ _; now destruct (Hno _ Ho)|].
  injection E as Ho Hc Hf. unfold exhausted. split; [split; assumption|]. intros ->. cbn [orb] in Ho.
  destruct (0 <? len (concat (r_chunks r))) eqn:E0; [discriminate|].
  destruct (r_final r) eqn:Ef; [|discriminate]. split; [|reflexivity].
  destruct (concat (r_chunks r)); [reflexivity|]. rewrite len_cons in E0. pose proof (len_nonneg l). lia.
Qed.

(* ------------------------------------------------------------ error classes of the header loops *)

Lemma segment_size_err hb i e : segment_size hb i = Err e -> e = ESegOverflow.
Proof.
  unfold segment_size, uint32_at. destruct (_ <=? _); cbn [bind]; [|discriminate].
  destruct (word_times _); congruence.
Qed.

Lemma total_size_err hb e : total_size hb = Err e -> e = ESegOverflow.
Proof.
  unfold total_size, max_segment, uint32_at. destruct (_ <=? _); cbn [bind]; [|discriminate].
  apply total_size_loop_err.
Qed.

Lemma demux_loop_err : forall n hb i data e, demux_loop n hb i data = Err e -> e = ESegOverflow.
Proof.
  induction n as [|n IH]; intros hb i data e; cbn [demux_loop]; [discriminate|].
  destruct (segment_size hb (wrap32 i)) as [sz|e0|] eqn:Es; cbn [bind]; [| |discriminate].
  - destruct (len data <? sz); [discriminate|].
    destruct (demux_loop n hb (i + 1) (skipn (Z.to_nat sz) data)) as [r|e1|] eqn:Ed; cbn [bind]; try discriminate.
    intros H. assert (e1 = e) by congruence. subst. eapply IH; eassumption.
  - intros H. assert (e0 = e) by congruence. subst. eapply segment_size_err; eassumption.
Qed.

Lemma demux_arena_err hb data e : demux_arena hb data = Err e -> e = ESegOverflow.
Proof.
  unfold demux_arena, max_segment, uint32_at. destruct (_ <=? _); cbn [bind]; [|discriminate].
  apply demux_loop_err.
Qed.

(* ------------------------------------------------------------ one Decode *)

Ltac fin3 := let H := fresh in intros H; injection H as <- <- <-.
Ltac done3 := cbn [d_rd d_max end_out]; repeat split; try reflexivity; try discriminate; try (intros; discriminate).

Lemma decode_body_end st maxSize maxSeg hb log st' out log' :
  decode_body st maxSize maxSeg hb log = (st', out, log') ->
  d_max st' = d_max st /\ out <> DEof /\ (end_out out = true -> exhausted (d_rd st')).
Proof.
  destruct st as [r hc bc ru mx]. unfold decode_body, gdecode_body. cbn [d_rd d_hdrcap d_bufcap d_reuse d_max].
  destruct (total_size hb) as [total|e|] eqn:Et.
  2:{ fin3. apply total_size_err in Et. subst e. done3. }
  2:{ fin3. done3. }
  destruct ((total >? wrap64 (maxSize - len hb)) || (total >? max_int)).
  { fin3. done3. }
  destruct ru; cbn [negb]; unfold resize;
    repeat match goal with |- context [if ?a <? ?b then _ else _] => destruct (a <? b) end;
    cbn [d_rd d_hdrcap d_bufcap d_reuse d_max];
    destruct (read_full r total) as [[buf| |] r'] eqn:Er; unfold with_rd; cbn [d_rd d_hdrcap d_bufcap d_reuse d_max];
    try (fin3; cbn [d_rd d_max end_out]; split; [reflexivity|]; split; [discriminate|]; intros _;
         apply (read_full_fail _ _ _ _ Er); intros b; discriminate);
    try (destruct (maxSeg =? 0); [fin3; done3|]);
    (destruct (demux_arena hb buf) as [segs|e|] eqn:Ed; fin3; cbn [d_rd d_max];
     [done3
     |apply demux_arena_err in Ed; subst e; done3
     |done3]).
Qed.

(* One Decode, ANY stream, any chunking, any state: MaxMessageSize is unchanged; io.EOF is returned
   only when the stream was already exhausted (no byte left, reader ends with io.EOF); after io.EOF
   or a read error the stream is exhausted *)
Lemma decode1_end st st' out log : decode1 st = (st', out, log) ->
  d_max st' = d_max st /\ (out = DEof -> exhausted (d_rd st)) /\ (end_out out = true -> exhausted (d_rd st')).
Proof.
  destruct st as [r hc bc ru mx]. unfold decode1, decode1_gen, gdecode1_gen. cbn [d_rd d_hdrcap d_bufcap d_reuse d_max].
  destruct (negb (mx =? 0) && (mx <? word_size)).
  { fin3. done3. }
  destruct (read_full r word_size) as [[w| |] r1] eqn:E1; unfold with_rd; cbn [d_rd d_hdrcap d_bufcap d_reuse d_max].
  2:{ fin3. cbn [d_rd d_max]. destruct (read_full_fail _ _ _ _ E1 ltac:(intros b; discriminate)) as [H1 H2].
      split; [reflexivity|]. split; [intros _; apply H2; reflexivity|intros _; exact H1]. }
  2:{ fin3. cbn [d_rd d_max]. destruct (read_full_fail _ _ _ _ E1 ltac:(intros b; discriminate)) as [H1 H2].
      split; [reflexivity|]. split; [discriminate|]. intros _. exact H1. }
  destruct (le32_get w + 1 >? seg_count_limit true).
  { fin3. done3. }
  destruct (le32_get w =? 0).
  { intros H. apply decode_body_end in H. cbn [d_max] in H. destruct H as [H1 [H2 H3]].
    split; [exact H1|]. split; [intros ->; now destruct H2|exact H3]. }
  destruct ((stream_header_size (le32_get w) >? (if mx =? 0 then default_decode_limit else mx))
            || (stream_header_size (le32_get w) >? max_int)).
  { fin3. done3. }
  unfold resize. destruct (hc <? stream_header_size (le32_get w)); cbn [d_rd d_hdrcap d_bufcap d_reuse d_max];
    (destruct (read_full r1 (stream_header_size (le32_get w) - word_size)) as [[rest| |] r2] eqn:E2;
     unfold with_rd; cbn [d_rd d_hdrcap d_bufcap d_reuse d_max];
     [intros H; apply decode_body_end in H; cbn [d_max] in H; destruct H as [H1 [H2 H3]];
      split; [exact H1|]; split; [intros ->; now destruct H2|exact H3]
     |fin3; cbn [d_rd d_max]; split; [reflexivity|]; split; [discriminate|]; intros _;
      apply (read_full_fail _ _ _ _ E2); intros b; discriminate
     |fin3; cbn [d_rd d_max]; split; [reflexivity|]; split; [discriminate|]; intros _;
      apply (read_full_fail _ _ _ _ E2); intros b; discriminate]).
Qed.

(* on an exhausted stream Decode returns io.EOF, for ever *)
Lemma decode_n_exhausted : forall n st, max_ok (d_max st) -> exhausted (d_rd st) ->
  outcomes (snd (decode_n st n)) = repeat DEof n.
Proof.
  induction n as [|n IH]; intros [[cs fin] hc bc ru mx] Hmx [Hc Hf]; [reflexivity|].
  cbn [d_rd d_max r_chunks r_final] in *. subst fin. rewrite decode_n_S.
  destruct (decode1_eof cs hc bc ru mx Hmx Hc) as [cs' [E Hc']]. rewrite E.
  specialize (IH (mkD (mkReader cs' EOF) hc bc ru mx) Hmx (conj Hc' eq_refl)).
  destruct (decode_n (mkD (mkReader cs' EOF) hc bc ru mx) n) as [st2 outs].
  cbn [snd outcomes map fst repeat] in *. unfold outcomes in IH. now rewrite IH.
Qed.

Lemma decode_n_max : forall n st, d_max (fst (decode_n st n)) = d_max st.
Proof.
  induction n as [|n IH]; intros st; [reflexivity|]. rewrite decode_n_S.
  destruct (decode1 st) as [[st1 out] log] eqn:E. destruct (decode1_end _ _ _ _ E) as [Hm _].
  specialize (IH st1). destruct (decode_n st1 n) as [st2 outs]. cbn [fst] in *. congruence.
Qed.

(* ------------------------------------------------------------ histories on ANY stream *)

(* ANY stream, any chunking, any final reader error, any state, every k and n: if the Decode number
   k returned io.EOF or a read error, the n Decode calls after it all return io.EOF *)
Theorem decode_end_sticky : forall k n st, max_ok (d_max st) ->
  let outs := outcomes (snd (decode_n st (S k + n))) in
  end_out (nth k outs DPanic) = true -> skipn (S k) outs = repeat DEof n.
Proof.
  induction k as [|k IH]; intros n st Hmx.
  - cbn [Nat.add]. rewrite decode_n_S. destruct (decode1 st) as [[st1 out] log] eqn:E.
    destruct (decode1_end _ _ _ _ E) as [Hm [_ He]].
    pose proof (decode_n_exhausted n st1) as X. destruct (decode_n st1 n) as [st2 outs]. cbn [snd outcomes map fst nth skipn] in *.
    intros Ho. apply X; [congruence|auto].
  - change (S (S k) + n)%nat with (S (S k + n)). rewrite decode_n_S.
    destruct (decode1 st) as [[st1 out] log] eqn:E. destruct (decode1_end _ _ _ _ E) as [Hm _].
    specialize (IH n st1 ltac:(congruence)). destruct (decode_n st1 (S k + n)) as [st2 outs].
    cbn [snd outcomes map fst nth skipn] in *. exact IH.
Qed.

(* ANY stream ...: the Decode number k returns io.EOF only if the k calls before it left nothing
   of the stream (and the reader ends with io.EOF) *)
Theorem decode_eof_only_exhausted : forall k st,
  nth k (outcomes (snd (decode_n st (S k)))) DPanic = DEof -> exhausted (d_rd (fst (decode_n st k))).
Proof.
  induction k as [|k IH]; intros st.
  - rewrite decode_n_1, decode_n_0. destruct (decode1 st) as [[st1 out] log] eqn:E.
    destruct (decode1_end _ _ _ _ E) as [_ [He _]]. cbn. exact He.
  - rewrite decode_n_S. rewrite (decode_n_S st k). destruct (decode1 st) as [[st1 out] log] eqn:E.
    specialize (IH st1). destruct (decode_n st1 (S k)) as [st2 outs]. destruct (decode_n st1 k) as [st3 outs3].
    cbn [snd outcomes map fst nth] in *. exact IH.
Qed.

(* ------------------------------------------------------------ frames, then the rest *)

Lemma outcomes_app a b : outcomes (a ++ b) = outcomes a ++ outcomes b.
Proof. apply map_app. Qed.

(* The stream is the frames of [msgs] (each acceptable to the decoder) followed by ANY bytes [rest];
   any chunking, any final reader error, reuse on/off, any capacities; history of |msgs| + 1 + n calls:
   (1) the first |msgs| outcomes are the messages, in order;
   (2) outcome number |msgs| is io.EOF  iff  rest is empty and the reader ends with io.EOF;
   (3) if it is io.EOF or a read error, all n later outcomes are io.EOF;
   (4) it IS io.EOF or a read error when rest is empty or a non-empty strict prefix of an acceptable frame;
   (5) it is the message m when rest starts with the (canonical) frame of an acceptable m.
   PARTIAL with respect to "the whole frames of the longest prefix that parses as frames": when rest is
   none of these (a header that breaks a limit, or a frame whose header PADDING word is not zero -- the
   decoder does not look at the padding and accepts it) the theorem only says: not io.EOF, and (3). *)
Theorem decode_history_characterised_partial : forall msgs rest cs fin hc bc ru mx n,
  max_ok mx -> Forall (frame_ok mx) msgs -> concat cs = concat (map frame msgs) ++ rest ->
  let outs := outcomes (snd (decode_n (mkD (mkReader cs fin) hc bc ru mx) (length msgs + S n))) in
  let nxt := nth (length msgs) outs DPanic in
  firstn (length msgs) outs = map DMsg msgs /\
  (nxt = DEof <-> rest = [] /\ fin = EOF) /\
  (end_out nxt = true -> skipn (S (length msgs)) outs = repeat DEof n) /\
  ((rest = [] \/ exists m tail, frame_ok mx m /\ frame m = rest ++ tail /\ rest <> [] /\ tail <> []) ->
   end_out nxt = true) /\
  (forall m t, frame_ok mx m -> rest = frame m ++ t -> nxt = DMsg m).
Proof.
  intros msgs rest cs fin hc bc ru mx n Hmx Hok Hcs.
  destruct (decode_frames fin ru mx Hmx msgs cs hc bc rest Hok Hcs) as [cs' [hc' [bc' [o1 [E1 [Ho1 Hc']]]]]].
  cbv zeta. rewrite decode_n_add, E1.
  assert (L1 : length (outcomes o1) = length msgs).
  { unfold outcomes. rewrite Ho1. apply map_length. }
  pose proof (decode_end_sticky 0 n (mkD (mkReader cs' fin) hc' bc' ru mx) Hmx) as St. cbv zeta in St.
  cbn [Nat.add] in St. change (S n) with (1 + n)%nat.
  rewrite decode_n_S in *. destruct (decode1 (mkD (mkReader cs' fin) hc' bc' ru mx)) as [[st1 out] log] eqn:E.
  destruct (decode_n st1 n) as [st2 outs2]. cbn [snd] in *. rewrite outcomes_app.
  rewrite firstn_app, L1, Nat.sub_diag, <- L1, firstn_all, app_nil_r.
  rewrite app_nth2 by lia. rewrite L1, Nat.sub_diag.
  replace (S (length msgs)) with (length (outcomes o1) + 1)%nat by lia.
  rewrite skipn_app, Nat.add_comm, Nat.add_sub. rewrite skipn_all2 by lia. cbn [app].
  cbn [outcomes map fst nth skipn] in *.
  split; [exact Ho1|]. destruct (decode1_end _ _ _ _ E) as [_ [He _]]. cbn [d_rd] in He.
  split; [|split; [exact St|split]].
  - split.
    + intros ->. destruct (He eq_refl) as [X Y]. cbn [r_chunks r_final] in *. split; congruence.
    + intros [-> ->]. destruct (decode1_eof cs' hc' bc' ru mx Hmx Hc') as [cs2 [E2 _]]. congruence.
  - intros [->|[m [tail [Hm [Hf [Hq Ht]]]]]].
    + pose proof (read_full_short (mkReader cs' fin) word_size) as RS. cbn [r_chunks r_final] in RS. rewrite Hc' in RS.
      destruct (RS ltac:(unfold word_size; cbn; lia)) as [o [cs2 [Er [_ [Hno _]]]]].
      revert E. unfold decode1, decode1_gen, gdecode1_gen. cbn [d_rd d_max].
      replace (negb (mx =? 0) && (mx <? word_size)) with false
        by (unfold max_ok, word_size in *; destruct (mx =? 0) eqn:E0; cbn; lia).
      rewrite Er. destruct o as [b| |]; [now destruct (Hno b)| |]; intros [= <- <- <-]; reflexivity.
    + destruct (decode1_cut m rest tail cs' fin hc' bc' ru mx Hmx Hm Hf Hq Ht Hc') as [st' [e [log' [E2 [[->| ->] _]]]]];
        rewrite E2 in E; injection E as <- <- <-; reflexivity.
  - intros m t Hm ->. destruct (decode1_frame m cs' fin hc' bc' ru mx t Hmx Hm Hc') as [c2 [h2 [b2 [l2 [E2 _]]]]].
    congruence.
Qed.

(* ------------------------------------------------------------ what the code does after other errors *)

(* The Decoder is NOT sticky.  A first word announcing 513 segments is refused (8 bytes consumed);
   the next Decode parses whatever follows -- here a well-formed frame -- and returns a message.
   After io.EOF / a read error it keeps returning io.EOF (decode_end_sticky). *)
Example decode_not_sticky :
  let s := [0; 2; 0; 0; 0; 0; 0; 0] ++ frame [[1; 2; 3; 4; 5; 6; 7; 8]] in
  outcomes (snd (decode_n (d_init (mkReader [s] EOF) 0) 4))
  = [DErr ETooManySegs; DMsg [[1; 2; 3; 4; 5; 6; 7; 8]]; DEof; DEof].
Proof. vm_compute. reflexivity. Qed.

(* non-vacuity of decode_history_characterised_partial, clause (4) with a cut and clause (2),
   and a frame with a non-zero padding word, which the decoder accepts (the reason for "partial") *)
Example decode_history_example :
  let f1 := frame [[1; 2; 3; 4; 5; 6; 7; 8]] in
  let f2 := frame [[9; 9; 9; 9; 9; 9; 9; 9]; []] in
  frame_ok 0 [[1; 2; 3; 4; 5; 6; 7; 8]] /\
  outcomes (snd (decode_n (d_init (mkReader [f1 ++ firstn 10 f2] EOF) 0) 4))
    = [DMsg [[1; 2; 3; 4; 5; 6; 7; 8]]; DErr EReadHeader; DEof; DEof] /\
  outcomes (snd (decode_n (d_init (mkReader [f1; f2] EOF) 0) 4))
    = [DMsg [[1; 2; 3; 4; 5; 6; 7; 8]]; DMsg [[9; 9; 9; 9; 9; 9; 9; 9]; []]; DEof; DEof] /\
  outcomes (snd (decode_n (d_init (mkReader [[1; 0; 0; 0; 1; 0; 0; 0; 0; 0; 0; 0; 7; 7; 7; 7] ++ [9; 9; 9; 9; 9; 9; 9; 9]] EOF) 0) 2))
    = [DMsg [[9; 9; 9; 9; 9; 9; 9; 9]; []]; DEof].
Proof.
  split; [|vm_compute; repeat split].
  repeat split; [unfold len; cbn; lia|unfold max_stream_segments, len; cbn; lia| |vm_compute; discriminate].
  repeat constructor; vm_compute; try reflexivity; discriminate.
Qed.
