(* Composition of C13 (packed codec) with C14 (framing), part 1: the one-shot decoder on
   concatenated packed strings, Encoder.writePacked / MarshalPacked produce packed strings
   that unpack to the frame. *)
From CV Require Import Packed.PackedProofs.
From CV Require Import Frame.Frame.
From CV Require Import Frame.FramePacked.
From CV Require Import Frame.FrameProofs.
From CV Require Import Frame.FrameSafe.
From CV Require Import Frame.FrameStream.
From Coq Require Import ZifyBool ZifyNat.
Ltac Zify.zify_post_hook ::= Z.div_mod_to_equations.
Open Scope Z_scope.

(* ------------------------------------------------------------ unpack (a ++ b) *)

Lemma take_bits_app : forall n tag s w s1 b,
  take_bits n tag s = Some (w, s1) -> take_bits n tag (s ++ b) = Some (w, s1 ++ b).
Proof.
  induction n as [|n IH]; intros tag s w s1 b H; cbn [take_bits] in *.
  - injection H as <- <-. reflexivity.
  - destruct (Z.odd tag).
    + destruct s as [|x s]; [discriminate|]. cbn [app].
      destruct (take_bits n (tag / 2) s) as [[w0 s0]|] eqn:E; [|discriminate].
      injection H as <- <-. now rewrite (IH _ _ _ _ b E).
    + destruct (take_bits n (tag / 2) s) as [[w0 s0]|] eqn:E; [|discriminate].
      injection H as <- <-. now rewrite (IH _ _ _ _ b E).
Qed.

Lemma Some_inj {A} (a b : A) : Some a = Some b -> a = b.
Proof. congruence. Qed.

Lemma option_map_app2 (f : list Z) (o : list Z) (x : option (list Z)) :
  option_map (fun r => f ++ r) (option_map (app o) x) = option_map (app (f ++ o)) x.
Proof. destruct x; cbn [option_map]; [now rewrite app_assoc|reflexivity]. Qed.

(* a packed string that decodes completely is decoded the same way whatever follows it *)
Lemma unpack_s_app : forall n a oa b, (length a <= n)%nat ->
  unpack_s true a = Some oa ->
  unpack_s true (a ++ b) = option_map (app oa) (unpack_s true b).
Proof.
  induction n as [|n IH]; intros a oa b Hn H.
  - destruct a; [|cbn [length] in Hn; lia]. rewrite unpack_s_nil in H. apply Some_inj in H; subst oa.
    cbn [app]. now destruct (unpack_s true b).
  - destruct a as [|tag s].
    { rewrite unpack_s_nil in H. apply Some_inj in H; subst oa. cbn [app]. now destruct (unpack_s true b). }
    cbn [length] in Hn. change ((tag :: s) ++ b) with (tag :: (s ++ b)).
    rewrite unpack_s_cons in *.
    destruct (take_bits 8 tag s) as [[w s1]|] eqn:E; [|discriminate].
    rewrite (take_bits_app _ _ _ _ _ b E).
    apply take_bits_length in E. destruct E as (_ & El & _).
    destruct (tag =? 0).
    { destruct s1 as [|c s2]; [discriminate|]. cbn [app length] in *.
      destruct (unpack_s true s2) as [o2|] eqn:E2; [|discriminate]. cbn [option_map] in H.
      apply Some_inj in H; subst oa. rewrite (IH s2 o2 b ltac:(lia) E2).
      destruct (unpack_s true b); cbn [option_map]; [f_equal; repeat rewrite <- app_assoc; reflexivity|reflexivity]. }
    destruct (tag =? 255).
    { destruct s1 as [|c s2]; [discriminate|]. cbn [app length] in *. cbv zeta in *.
      cbn [andb] in *.
      destruct (length s2 <? 8 * Z.to_nat c)%nat eqn:Ek; [discriminate|].
      destruct (unpack_s true (skipn (8 * Z.to_nat c) s2)) as [o2|] eqn:E2; [|discriminate].
      cbn [option_map] in H. apply Some_inj in H; subst oa.
      destruct (length (s2 ++ b) <? 8 * Z.to_nat c)%nat eqn:Ek2; [rewrite app_length in Ek2; lia|].
      rewrite firstn_app, skipn_app.
      replace (8 * Z.to_nat c - length s2)%nat with 0%nat by lia.
      replace (8 * Z.to_nat c - length (s2 ++ b))%nat with 0%nat by (rewrite app_length; lia).
      cbn [firstn skipn zeros repeat app]. rewrite app_nil_r.
      rewrite (IH (skipn (8 * Z.to_nat c) s2) o2 b ltac:(rewrite skipn_length; lia) E2).
      destruct (unpack_s true b); cbn [option_map]; [f_equal; repeat rewrite <- app_assoc; reflexivity|reflexivity]. }
    destruct (unpack_s true s1) as [o1|] eqn:E1; [|discriminate]. cbn [option_map] in H.
    apply Some_inj in H; subst oa. rewrite (IH s1 o1 b ltac:(lia) E1).
    destruct (unpack_s true b); cbn [option_map]; [f_equal; repeat rewrite <- app_assoc; reflexivity|reflexivity].
Qed.

Lemma unpack_is_unpack_s a : unpack a = unpack_s true a.
Proof. reflexivity. Qed.

Theorem unpack_app a oa b : unpack a = Some oa -> unpack (a ++ b) = option_map (app oa) (unpack b).
Proof. rewrite !unpack_is_unpack_s. intros H. now apply (unpack_s_app (length a)). Qed.

Corollary unpack_app_some a oa b ob : unpack a = Some oa -> unpack b = Some ob ->
  unpack (a ++ b) = Some (oa ++ ob).
Proof. intros Ha Hb. rewrite (unpack_app a oa b Ha), Hb. reflexivity. Qed.

(* ------------------------------------------------------------ pack output is bytes *)

Lemma bytes_ok_filter f l : bytes_ok l -> bytes_ok (filter f l).
Proof.
  unfold bytes_ok. induction 1 as [|x l Hx _ IH]; cbn [filter]; [constructor|].
  destruct (f x); [constructor; assumption|assumption].
Qed.

Lemma bytes_ok_concat ws : Forall bytes_ok ws -> bytes_ok (concat ws).
Proof. induction 1 as [|w ws Hw _ IH]; cbn [concat]; [constructor|]. apply bytes_ok_app. now split. Qed.

Lemma words_bytes ws : words_ok ws -> Forall bytes_ok ws.
Proof. unfold words_ok. apply Forall_impl. intros w [_ H]. exact H. Qed.

Lemma Forall_firstn {A} (P : A -> Prop) n l : Forall P l -> Forall P (firstn n l).
Proof. intros H. rewrite <- (firstn_skipn n l) in H. now apply Forall_app in H. Qed.

Lemma Forall_skipn {A} (P : A -> Prop) n l : Forall P l -> Forall P (skipn n l).
Proof. intros H. rewrite <- (firstn_skipn n l) in H. now apply Forall_app in H. Qed.

Lemma pack_f_bytes_ok : forall f ws, words_ok ws -> bytes_ok (pack_f f ws).
Proof.
  induction f as [|f IH]; intros ws Hws; cbn [pack_f]; [constructor|].
  destruct ws as [|w r]; [constructor|]. cbv zeta.
  inversion Hws as [|? ? [Hl Hw] Hr]; subst.
  pose proof (tag_of_range w) as TR. rewrite Hl in TR. change (2 ^ Z.of_nat 8) with 256 in TR.
  assert (Hhd : bytes_ok (tag_of w :: nonzero w)).
  { constructor; [exact TR|]. now apply bytes_ok_filter. }
  destruct (tag_of w =? 0).
  { apply bytes_ok_app. split; [assumption|]. constructor; [unfold byte_ok; lia|].
    apply IH. now apply Forall_skipn. }
  destruct (tag_of w =? 255).
  { apply bytes_ok_app. split; [assumption|].
    pose proof (lit_run_le 255 r) as [L1 _].
    constructor; [unfold byte_ok; lia|]. apply bytes_ok_app. split.
    - apply bytes_ok_concat, words_bytes. now apply Forall_firstn.
    - apply IH. now apply Forall_skipn. }
  apply bytes_ok_app. split; [assumption|]. now apply IH.
Qed.

Lemma pack_bytes_props bs : bytes_ok bs -> (length bs mod 8 = 0)%nat ->
  exists p, pack_bytes bs = Some p /\ unpack p = Some bs /\ bytes_ok p.
Proof.
  intros Hb Hm. unfold pack_bytes.
  destruct (chunk8_total (length bs) bs Hm (le_n _)) as [ws E]. rewrite E.
  destruct (chunk8_sound _ _ _ E Hb) as [Hws Hc]. subst bs.
  exists (pack ws). split; [reflexivity|]. split; [now apply unpack_pack|].
  unfold pack. now apply pack_f_bytes_ok.
Qed.

(* ------------------------------------------------------------ frames are bytes, whole words *)

Lemma bytes_ok_zeros n : bytes_ok (zeros n).
Proof. unfold zeros, bytes_ok. induction n; cbn [repeat]; constructor; [unfold byte_ok; lia|assumption]. Qed.

Lemma table_bytes_ok segs : bytes_ok (table segs).
Proof.
  unfold table. induction segs as [|s r IH]; cbn [flat_map]; [constructor|].
  apply bytes_ok_app. split; [apply le32_bytes_ok|assumption].
Qed.

Lemma frame_header_bytes_ok segs : 1 <= len segs < two32 -> bytes_ok (frame_header segs).
Proof.
  intros H. rewrite frame_header_eq by assumption.
  apply bytes_ok_app. split; [apply le32_bytes_ok|]. apply bytes_ok_app. split; [apply table_bytes_ok|apply bytes_ok_zeros].
Qed.

Lemma len_mod8_nat (l : list Z) : len l mod 8 = 0 -> (length l mod 8 = 0)%nat.
Proof. unfold len. intros H. lia. Qed.

Lemma sum_len_mod8 segs : segs_ok segs -> sum_len segs mod 8 = 0.
Proof. induction 1 as [|s r [Hs _] _ IH]; cbn [sum_len]; lia. Qed.

Definition msg_bytes (m : list (list Z)) : Prop := Forall bytes_ok m.

Lemma frame_bytes_ok m : 1 <= len m < two32 -> msg_bytes m -> bytes_ok (frame m).
Proof.
  intros H Hb. unfold frame. apply bytes_ok_app. split; [now apply frame_header_bytes_ok|now apply bytes_ok_concat].
Qed.

Lemma frame_mod8 m : 1 <= len m < two32 -> segs_ok m -> len (frame m) mod 8 = 0.
Proof.
  intros H Hs. rewrite frame_len by assumption.
  pose proof (stream_header_size_bounds (len m - 1) ltac:(lia)) as [_ Hm].
  pose proof (sum_len_mod8 m Hs). lia.
Qed.

(* ------------------------------------------------------------ the packed encoder *)

(* packing each buffer on its own *)
Fixpoint pack_each (bs : list (list Z)) : res (list Z) :=
  match bs with
  | [] => Ok []
  | b :: r =>
    match pack_bytes b with
    | None => Panic
    | Some p => do q <- pack_each r; Ok (p ++ q)
    end
  end.

Lemma pack_each_ok : forall bs, Forall bytes_ok bs -> Forall (fun b => len b mod 8 = 0) bs ->
  exists p, pack_each bs = Ok p /\ bytes_ok p /\
            forall rest, unpack (p ++ rest) = option_map (app (concat bs)) (unpack rest).
Proof.
  induction bs as [|b r IH]; intros Hb Hm.
  - exists []. split; [reflexivity|]. split; [constructor|]. intros rest. cbn [app concat].
    now destruct (unpack rest).
  - inversion Hb; inversion Hm; subst.
    destruct (pack_bytes_props b) as [p [Ep [Eu Hp]]]; [assumption|now apply len_mod8_nat|].
    destruct IH as [q [Eq [Hq Hu]]]; try assumption.
    exists (p ++ q). cbn [pack_each]. rewrite Ep, Eq. cbn [bind].
    split; [reflexivity|]. split; [apply bytes_ok_app; now split|]. intros rest.
    rewrite <- app_assoc, (unpack_app p b _ Eu), Hu. cbn [concat].
    destruct (unpack rest); cbn [option_map]; [now rewrite app_assoc|reflexivity].
Qed.

Lemma encode_packed_eq segs : 1 <= len segs < two32 -> segs_ok segs ->
  encode_packed true segs = pack_each (frame_header segs :: segs).
Proof.
  intros H Hs. unfold encode_packed. rewrite (encode_frame true segs H Hs). cbn [bind].
  rewrite wrap32_small by lia. rewrite <- frame_header_len by assumption.
  unfold frame. rewrite firstn_app_len. reflexivity.
Qed.

(* a message the encoders accept and whose segments are bytes: NewPackedEncoder writes a
   packed string that unpacks to exactly the frame, whatever follows *)
Lemma encode_packed_ok m : 1 <= len m < two32 -> segs_ok m -> msg_bytes m ->
  exists p, encode_packed true m = Ok p /\ bytes_ok p /\
            forall rest, unpack (p ++ rest) = option_map (app (frame m)) (unpack rest).
Proof.
  intros H Hs Hb. rewrite encode_packed_eq by assumption.
  destruct (pack_each_ok (frame_header m :: m)) as [p [Ep [Hp Hu]]].
  - constructor; [now apply frame_header_bytes_ok|assumption].
  - constructor.
    + rewrite frame_header_len by assumption.
      now destruct (stream_header_size_bounds (len m - 1) ltac:(lia)).
    + revert Hs. apply Forall_impl. intros s [Ha _]. exact Ha.
  - exists p. split; [assumption|]. split; [assumption|]. exact Hu.
Qed.

Lemma encode_packed_stream_ok : forall msgs,
  Forall (fun m => 1 <= len m < two32 /\ segs_ok m /\ msg_bytes m) msgs ->
  exists p, encode_packed_stream msgs = Ok p /\ bytes_ok p /\
            forall rest, unpack (p ++ rest) = option_map (app (concat (map frame msgs))) (unpack rest).
Proof.
  induction 1 as [|m msgs [H [Hs Hb]] _ [q [Eq [Hq Hu]]]].
  - exists []. split; [reflexivity|]. split; [constructor|]. intros rest. cbn [map concat app].
    now destruct (unpack rest).
  - destruct (encode_packed_ok m H Hs Hb) as [p [Ep [Hp Hup]]].
    exists (p ++ q). cbn [encode_packed_stream]. rewrite Ep, Eq. cbn [bind].
    split; [reflexivity|]. split; [apply bytes_ok_app; now split|]. intros rest.
    rewrite <- app_assoc, Hup, Hu. cbn [map concat].
    destruct (unpack rest); cbn [option_map]; [now rewrite app_assoc|reflexivity].
Qed.

(* ------------------------------------------------------------ MarshalPacked / UnmarshalPacked *)

Theorem unmarshal_packed_marshal_packed segs : count_ok segs -> segs_ok segs -> msg_bytes segs ->
  exists p, marshal_packed segs = Ok p /\ unmarshal_packed p = Ok segs.
Proof.
  intros Hc Hs Hb. assert (H32 : 1 <= len segs < two32) by (unfold count_ok, two32 in *; lia).
  unfold marshal_packed. rewrite (marshal_frame segs Hc Hs). cbn [bind].
  destruct (pack_bytes_props (frame segs)) as [p [Ep [Eu Hp]]].
  - now apply frame_bytes_ok.
  - apply len_mod8_nat. now apply frame_mod8.
  - exists p. rewrite Ep. split; [reflexivity|]. unfold unmarshal_packed.
    destruct (len p =? 0) eqn:E0.
    + (* an empty packed string would unpack to the empty string, but a frame has >= 8 bytes *)
      exfalso. destruct p; [|rewrite len_cons in E0; pose proof (len_nonneg p); lia].
      cbn in Eu. injection Eu as Eu. pose proof (frame_nonempty segs H32) as H8.
      unfold frame in Eu. destruct (frame_header segs); [cbn in H8; lia|discriminate].
    + rewrite Eu. rewrite <- (app_nil_r (frame segs)). now apply unmarshal_frame.
Qed.
