#!/usr/bin/env python3
"""Regenerates the tables at the end of DESIGN.md (after the GENERATED-TABLES marker)."""
import os, subprocess, sys
V = os.path.dirname(os.path.dirname(os.path.abspath(__file__)))
p = os.path.join(V, "DESIGN.md")
s = open(p).read()
marker = "<!-- GENERATED-TABLES -->"
i = s.index(marker) + len(marker)
out = subprocess.run([sys.executable, os.path.join(V, "lib", "design_tables.py")], stdout=subprocess.PIPE).stdout.decode()
open(p, "w").write(s[:i] + "\n\n" + out)
print("DESIGN.md tables updated")
