#!/usr/bin/env python3
"""Build all OCaml drivers and the Go harness."""
import importlib, os, sys
sys.path.insert(0, os.path.dirname(os.path.abspath(__file__)))
import vcheck
sys.path.insert(0, os.path.join(vcheck.VERIF, "props"))
seen = set()
seenh = set()
for f in sorted(os.listdir(os.path.join(vcheck.VERIF, "props"))):
    if f.endswith(".py") and f[0] == "C":
        cfg = importlib.import_module(f[:-3])
        for run in getattr(cfg, "RUNS", []):
            if run["harness"] not in seenh:
                seenh.add(run["harness"])
                ok, exe, out = vcheck.build_harness(run["harness"])
                print("harness", run["harness"], "ok" if ok else out)
            if run["driver"] in seen:
                continue
            seen.add(run["driver"])
            ok, exe, out = vcheck.build_driver(run["driver"], run["model_ml"], run.get("driver_extra", ()))
            print("driver", run["driver"], "ok" if ok else out)
