#!/usr/bin/env python3
"""Common machinery of /verif checks.

A check for property Cxx (configured by props/Cxx.py) does, on every run:
  1. regenerate the generated Coq files from /repo (translators), write-if-changed;
  2. `make` the Coq targets of the property (full .vo build, kernel-checked), and audit the
     development (no Admitted/Axiom/... ; Print Assumptions of every property theorem);
  3. build the Go harness from /repo's working tree with -tags verif and the OCaml driver
     around the extracted model;
  4. run the committed corpus, then the generated cases, through implementation and model,
     and compare the projected observations line by line;
  5. classify disagreements (property-specific), match against known_findings.jsonl,
     write replay files and the evidence file, print VIOLATION / KNOWN-FINDING lines.
"""
import fcntl
import hashlib
import importlib
import json
import os
import re
import shutil
import subprocess
import sys
import time

VERIF = os.path.dirname(os.path.dirname(os.path.abspath(__file__)))
REPO = os.path.normpath(os.path.join(VERIF, "..", "repo"))  # /repo for /verif; a sibling clone for scratch copies
BUILD = os.path.join(VERIF, "build")
COQ = os.path.join(VERIF, "coq")
GO = os.environ.get("VERIF_GO", "go1.26.8")

GOENV = dict(os.environ, GOFLAGS="-mod=mod", GOPROXY="off", GOSUMDB="off", GOTOOLCHAIN="local",
             CGO_ENABLED="0")

FORBIDDEN = re.compile(
    r"\b(Admitted|admit|Axiom|Axioms|Parameter|Parameters|Conjecture|Conjectures|Hypothesis|Hypotheses|"
    r"Variable|Variables|Admit Obligations|bypass_check|native_compute)\b|Unset\s+Guard|Unset\s+Positivity|"
    r"Unset\s+Universe|type-in-type|impredicative-set")

BASE_TRUSTED = [
    "Coq 8.16.1 kernel and vm_compute (no native_compute); full .vo build via coq_makefile",
    "extraction: ExtrOcamlBasic only (Extract Inductive for bool, option, unit, list, prod, sumbool, sumor); "
    "no Extract Constant; Z/positive/nat stay datatypes; OCaml 4.13.1 and ocaml/zutil.ml + the per-model driver",
    "Go harness /verif/harness (generators, canonicalisation of observations), go1.26.8 toolchain",
    "the hand-written model corresponds to the code only as far as the correspondence run shows",
]


def log(*a):
    print(*a, flush=True)


def _big_stack():
    """The extracted models recurse over byte lists (non-tail calls in extracted code): give the
    driver the largest stack the system allows (megabyte-sized segments need more than 8 MiB)."""
    import resource
    soft, hard = resource.getrlimit(resource.RLIMIT_STACK)
    try:
        resource.setrlimit(resource.RLIMIT_STACK, (hard, hard))
    except (ValueError, OSError):
        pass


def sh(cmd, cwd=None, env=None, timeout=None, stdin=None, stdout=None):
    """Run a command, return (rc, combined output)."""
    try:
        p = subprocess.run(cmd, cwd=cwd, env=env, timeout=timeout, stdin=stdin,
                           stdout=stdout if stdout is not None else subprocess.PIPE,
                           stderr=subprocess.STDOUT, shell=isinstance(cmd, str))
        out = p.stdout.decode("utf-8", "replace") if p.stdout else ""
        return p.returncode, out
    except subprocess.TimeoutExpired as e:
        out = e.stdout.decode("utf-8", "replace") if e.stdout else ""
        return 124, out + "\n[timeout after %ss]" % timeout


class Lock:
    def __init__(self, name):
        os.makedirs(BUILD, exist_ok=True)
        self.path = os.path.join(BUILD, name + ".lock")

    def __enter__(self):
        self.f = open(self.path, "w")
        fcntl.flock(self.f, fcntl.LOCK_EX)
        return self

    def __exit__(self, *a):
        fcntl.flock(self.f, fcntl.LOCK_UN)
        self.f.close()


# ------------------------------------------------------------------ Coq

def coq_files():
    res = []
    for root, _, files in os.walk(COQ):
        for f in files:
            if f.endswith(".v"):
                res.append(os.path.relpath(os.path.join(root, f), COQ))
    return sorted(res)


def write_if_changed(path, content):
    try:
        if open(path).read() == content:
            return False
    except FileNotFoundError:
        pass
    os.makedirs(os.path.dirname(path), exist_ok=True)
    with open(path, "w") as f:
        f.write(content)
    return True


def coq_prepare():
    proj = "-Q . CV\n" + "\n".join(coq_files()) + "\n"
    changed = write_if_changed(os.path.join(COQ, "_CoqProject"), proj)
    if changed or not os.path.exists(os.path.join(COQ, "Makefile")):
        rc, out = sh(["coq_makefile", "-f", "_CoqProject", "-o", "Makefile"], cwd=COQ)
        if rc != 0:
            raise RuntimeError("coq_makefile failed:\n" + out)


def coq_make(targets, timeout=2400):
    """Build the given .vo targets (and what they depend on). Returns (ok, log)."""
    with Lock("coq"):
        coq_prepare()
        rc, out = sh(["make", "-j16"] + list(targets), cwd=COQ, timeout=timeout)
        return rc == 0, out


def coq_failed_file(out):
    m = re.search(r'File "\./([^"]+)", line (\d+)', out)
    if m:
        return m.group(1), int(m.group(2))
    m = re.search(r"\*\*\* \[[^\]]*: ([^\]]+)\.vo\]", out)
    if m:
        return m.group(1) + ".v", 0
    return None, 0


def coq_dep_closure(vfiles):
    """Transitive closure of project-local dependencies of the given .v files (paths relative to coq/)."""
    seen = set()
    todo = list(vfiles)
    while todo:
        f = todo.pop()
        if f in seen or not os.path.exists(os.path.join(COQ, f)):
            continue
        seen.add(f)
        src = open(os.path.join(COQ, f)).read()
        for m in re.finditer(r"From\s+CV\s+Require\s+(?:Import|Export)?\s*([A-Za-z0-9_.'\s]+?)\.(?=\s)", src):
            for mod in m.group(1).split():
                todo.append(mod.replace(".", "/") + ".v")
    return sorted(seen)


def strip_comments(src):
    out = []
    depth = 0
    i = 0
    while i < len(src):
        if src.startswith("(*", i):
            depth += 1
            i += 2
        elif src.startswith("*)", i) and depth > 0:
            depth -= 1
            i += 2
        else:
            if depth == 0:
                out.append(src[i])
            elif src[i] == "\n":
                out.append("\n")
            i += 1
    return "".join(out)


def audit(vfiles):
    """Forbidden constructs in the given files (comments stripped). Returns list of 'file:line: text'."""
    bad = []
    for f in vfiles:
        src = strip_comments(open(os.path.join(COQ, f)).read())
        in_section = 0
        for n, line in enumerate(src.split("\n"), 1):
            if re.match(r"\s*Section\b", line):
                in_section += 1
            if re.match(r"\s*End\b", line) and in_section > 0:
                in_section -= 1
            for m in FORBIDDEN.finditer(line):
                w = m.group(0)
                if w.split()[0] in ("Variable", "Variables", "Hypothesis", "Hypotheses") and in_section > 0:
                    continue
                bad.append("%s:%d: %s" % (f, n, line.strip()))
    return bad


def theorems_of(vfile):
    src = strip_comments(open(os.path.join(COQ, vfile)).read())
    return re.findall(r"^\s*(?:Theorem|Lemma|Corollary)\s+([A-Za-z0-9_']+)", src, re.M)


def print_assumptions(vfile, deps_built=True, timeout=600):
    """Re-run coqc on the property file to capture what Print Assumptions reports.
    Returns dict theorem -> 'Closed under the global context' | axiom text."""
    pad = os.path.join(BUILD, "pa")
    os.makedirs(pad, exist_ok=True)
    rc, out = sh(["coqc", "-Q", ".", "CV", "-o", os.path.join(pad, os.path.basename(vfile) + "o"), vfile],
                 cwd=COQ, timeout=timeout)
    names = [m for m in re.findall(r"Print Assumptions\s+([A-Za-z0-9_']+)\s*\.",
                                   strip_comments(open(os.path.join(COQ, vfile)).read()))]
    blocks = []
    cur = None
    for line in out.split("\n"):
        if line.startswith("Closed under the global context"):
            blocks.append("Closed under the global context")
            cur = None
        elif line.startswith("Axioms:"):
            cur = [line]
            blocks.append(cur)
        elif cur is not None and line.strip():
            cur.append(line)
    res = {}
    for i, n in enumerate(names):
        b = blocks[i] if i < len(blocks) else "?"
        res[n] = b if isinstance(b, str) else " ".join(x.strip() for x in b)
    return rc == 0, res, out


def coqchk(vfiles, timeout=3000):
    """Independent re-check (coqchk -o) of the compiled property files and everything they depend on.
    Returns (ok, summary dict, raw tail)."""
    mods = ["CV." + f[:-2].replace("/", ".") for f in vfiles]
    with Lock("coq"):
        rc, out = sh(["coqchk", "-silent", "-o", "-Q", ".", "CV"] + mods, cwd=COQ, timeout=timeout)
    summ = {}
    cur = None
    for line in out.split("\n"):
        m = re.match(r"\* ([^:]+):\s*(.*)", line.strip())
        if m:
            cur = m.group(1)
            summ[cur] = m.group(2).strip()
        elif cur and line.strip() and not line.startswith("CONTEXT") and not line.startswith("==="):
            summ[cur] = (summ[cur] + " " + line.strip()).strip()
    return rc == 0, summ, out[-1500:]


# ------------------------------------------------------------------ OCaml / Go

def build_driver(name, model_ml, extra=()):
    """Build build/ocaml/<name>/driver from coq/<model_ml>.ml(.mli), ocaml/zutil.ml, ocaml/<name>_driver.ml."""
    d = os.path.join(BUILD, "ocaml", name)
    with Lock("ocaml-" + name):
        os.makedirs(d, exist_ok=True)
        srcs = [(os.path.join(COQ, model_ml + ".mli"), "model.mli"), (os.path.join(COQ, model_ml + ".ml"), "model.ml"),
                (os.path.join(VERIF, "ocaml", "zutil.ml"), "zutil.ml")]
        for e in extra:
            srcs.append((os.path.join(VERIF, "ocaml", e), e))
        srcs.append((os.path.join(VERIF, "ocaml", name + "_driver.ml"), "driver.ml"))
        exe = os.path.join(d, "driver")
        h = hashlib.sha256()
        for s, _ in srcs:
            h.update(open(s, "rb").read())
        stamp = os.path.join(d, "stamp")
        if os.path.exists(exe) and os.path.exists(stamp) and open(stamp).read() == h.hexdigest():
            return True, exe, ""
        for s, t in srcs:
            shutil.copyfile(s, os.path.join(d, t))
        rc, out = sh(["ocamlfind", "ocamlopt", "-w", "-a"] + [t for _, t in srcs] + ["-o", "driver"],
                     cwd=d, timeout=900)
        if rc == 0:
            open(stamp, "w").write(h.hexdigest())
        return rc == 0, exe, out


def build_harness(cmd):
    """go build -tags verif of /verif/harness/cmd/<cmd> against the sibling repo's working tree."""
    with Lock("harness-" + cmd):
        hd = os.path.join(VERIF, "harness")
        with Lock("harness-gosum"):
            src = open(os.path.join(REPO, "go.sum")).read()
            write_if_changed(os.path.join(hd, "go.sum"), src)
        os.makedirs(os.path.join(BUILD, "bin"), exist_ok=True)
        exe = os.path.join(BUILD, "bin", cmd)
        rc, out = sh([GO, "build", "-tags", "verif", "-o", exe, "./cmd/" + cmd], cwd=hd, env=GOENV, timeout=900)
        return rc == 0, exe, out


# ------------------------------------------------------------------ known findings

def known_findings():
    paths = [os.path.join(VERIF, "known_findings.jsonl")]
    d = os.path.join(VERIF, "known_findings.d")
    if os.path.isdir(d):
        paths += [os.path.join(d, f) for f in sorted(os.listdir(d)) if f.endswith(".jsonl")]
    res = []
    for p in paths:
        if os.path.exists(p):
            for line in open(p):
                line = line.strip()
                if line and not line.startswith("#"):
                    res.append(json.loads(line))
    return res


# ------------------------------------------------------------------ a check run

class Result:
    def __init__(self, pid, tier, seed):
        self.pid, self.tier, self.seed = pid, tier, seed
        self.t0 = time.time()
        self.violations = []   # (text, replay_path)
        self.known = []
        self.cov = {}
        self.assumptions = []
        self.level = "proof"

    def violation(self, replay, suffix=""):
        self.violations.append((replay, suffix))

    def finish(self, evidence_path):
        ev = {
            "property_id": self.pid, "tier": self.tier, "seed": self.seed, "level": self.level,
            "coverage": self.cov, "assumptions": self.assumptions,
            "wall_s": round(time.time() - self.t0, 2), "violations": len(self.violations),
        }
        os.makedirs(os.path.dirname(evidence_path), exist_ok=True)
        with open(evidence_path, "w") as f:
            json.dump(ev, f, indent=1, sort_keys=True)
            f.write("\n")
        for k in self.known:
            log("KNOWN-FINDING: property=%s %s" % (self.pid, k))
        for replay, suffix in self.violations:
            log("VIOLATION property=%s replay=%s%s" % (self.pid, replay, (" " + suffix) if suffix else ""))
        if self.violations:
            return 1
        log("OK property=%s tier=%s seed=%d wall=%.1fs" % (self.pid, self.tier, self.seed, time.time() - self.t0))
        return 0


def write_replay(pid, seed, tag, body):
    d = os.path.join(VERIF, "replays")
    os.makedirs(d, exist_ok=True)
    p = os.path.join(d, "%s-%s-%d.txt" % (pid, tag, seed))
    with open(p, "w") as f:
        f.write(body)
    return p


def read_lines(p):
    with open(p) as f:
        return f.read().split("\n")[:-1]


def run_pair(res, cfg, run, exe, tier, seed, replay_file=None):
    """One correspondence run: harness -> cases+impl, driver -> model, compare.
    Returns (stats, mismatches[(case, impl, model)], error-string-or-None)."""
    name = run["name"]
    outdir = os.path.join(BUILD, "run", res.pid + "-" + name)
    shutil.rmtree(outdir, ignore_errors=True)
    os.makedirs(outdir)
    cmd = [exe, "-out", outdir, "-seed", str(seed), "-tier", tier]
    if replay_file:
        cmd += ["-replay", replay_file]
    cmd += run.get("harness_args", [])
    rc, out = sh(cmd, cwd=VERIF, env=GOENV, timeout=run.get("timeout", 3000))
    if rc != 0:
        return None, [], "harness %s failed (rc=%d): %s" % (run["harness"], rc, out[-2000:])
    ok, drv, dout = build_driver(run["driver"], run["model_ml"], run.get("driver_extra", ()))
    if not ok:
        return None, [], "driver build failed: " + dout[-2000:]
    cases = os.path.join(outdir, "cases.txt")
    with open(cases, "rb") as fin, open(os.path.join(outdir, "model.out"), "wb") as fout:
        p = subprocess.run([drv] + run.get("driver_args", []), stdin=fin, stdout=fout, stderr=subprocess.PIPE,
                           timeout=run.get("timeout", 3000), preexec_fn=_big_stack)
    if p.returncode != 0:
        return None, [], "model driver failed: " + p.stderr.decode("utf-8", "replace")[-2000:]
    c = read_lines(cases)
    i = read_lines(os.path.join(outdir, "impl.out"))
    m = read_lines(os.path.join(outdir, "model.out"))
    if not (len(c) == len(i) == len(m)):
        return None, [], "line count mismatch cases=%d impl=%d model=%d" % (len(c), len(i), len(m))
    mism = [(c[k], i[k], m[k]) for k in range(len(c)) if i[k] != m[k]]
    # property predicate on the implementation's own behaviour, also where the model agrees
    iv = getattr(cfg, "impl_violation", None)
    if iv:
        seen = set(x[0] for x in mism)
        for k in range(len(c)):
            if c[k] not in seen and iv(run["name"], c[k], i[k]):
                mism.append((c[k], i[k], m[k]))
    stats = json.load(open(os.path.join(outdir, "stats.json")))
    return stats, mism, None


def corpus_file(pid, name):
    p = os.path.join(VERIF, "corpus", "%s-%s.txt" % (pid, name))
    return p if os.path.exists(p) else None


def main(argv):
    import argparse
    ap = argparse.ArgumentParser()
    ap.add_argument("prop")
    ap.add_argument("--tier", default=os.environ.get("VERIF_TIER", "quick"))
    ap.add_argument("--replay", default=None)
    a = ap.parse_args(argv)
    seed = int(os.environ.get("VERIF_SEED", "1") or "1")
    sys.path.insert(0, os.path.join(VERIF, "props"))
    cfg = importlib.import_module(a.prop)
    if hasattr(cfg, "custom_main"):
        return cfg.custom_main(a, seed)
    return standard_check(cfg, a.tier, seed, a.replay)


def standard_check(cfg, tier, seed, replay=None):
    pid = cfg.ID
    res = Result(pid, tier, seed)
    res.level = getattr(cfg, "LEVEL", "proof")
    evidence = os.path.join(VERIF, "evidence", pid + ".json")
    kf = [k for k in known_findings() if k.get("property") == pid and k.get("status") == "known"]

    # 1. generators (translators) --------------------------------------------------
    gen_notes = []
    if hasattr(cfg, "generate"):
        try:
            gen_notes = cfg.generate(res) or []
        except Exception as e:  # translator failed closed
            rp = write_replay(pid, seed, "translator",
                              "translator failed closed: %s\n(the model could not be regenerated from /repo)\n" % e)
            res.violation(rp, "no-failing-input-found")

    # 2. Coq ----------------------------------------------------------------------
    targets = list(cfg.COQ_TARGETS)
    ok, out = coq_make(targets)
    obligations = []
    for pf in cfg.PROPS_FILES:
        obligations += [pf + ":" + t for t in theorems_of(pf)]
    extra_obl = list(getattr(cfg, "EXTRA_OBLIGATIONS", []))
    discharged = 0
    pa = {}
    proof_broken = None
    if ok:
        discharged = len(obligations) + len(extra_obl)
        for pf in cfg.PROPS_FILES:
            ok2, pa1, _ = print_assumptions(pf)
            pa.update(pa1)
    else:
        f, line = coq_failed_file(out)
        proof_broken = "%s line %d" % (f, line)
        log("coq build failed at", proof_broken)
        log(out[-3000:])
    vfiles = coq_dep_closure([t[:-1] for t in targets if t.endswith(".vo")])
    bad = audit(vfiles)
    axioms = sorted(set(v for v in pa.values() if v != "Closed under the global context"))

    # 3/4. correspondence -----------------------------------------------------------
    stats_all = {}
    all_mism = []
    errors = []
    for run in cfg.RUNS:
        okh, exe, hout = build_harness(run["harness"])
        if not okh:
            errors.append("harness build failed (does the repository still compile with -tags verif?):\n" + hout[-3000:])
            continue
        files = []
        if replay:
            files = [("replay", replay)]
        else:
            cf = corpus_file(pid, run["name"])
            if cf:
                files.append(("corpus", cf))
            files.append(("gen", None))
        for kind, rf in files:
            stats, mism, err = run_pair(res, cfg, run, exe, tier, seed, rf)
            if err:
                errors.append("%s/%s: %s" % (run["name"], kind, err))
                continue
            stats_all[run["name"] + "/" + kind] = stats
            all_mism += [(run["name"],) + m for m in mism]

    # 5. classify -----------------------------------------------------------------
    evaluations = sum(s["evaluations"] for s in stats_all.values())
    dn = sum(s["distinct_nontrivial"] for s in stats_all.values())
    samples = []
    for s in stats_all.values():
        samples += s.get("samples", [])[:4]
    groups = {}
    for (rn, c, i, m) in all_mism:
        sig = cfg.classify(rn, c, i, m)
        groups.setdefault(sig, []).append((rn, c, i, m))
    n_viol = 0
    for sig, ms in sorted(groups.items()):
        matched = [k for k in kf if re.fullmatch(k["signature"], sig)]
        if matched:
            res.known.append("%s (%d cases this run): %s" % (sig, len(ms), matched[0].get("what", "")))
            continue
        ms.sort(key=lambda x: len(x[1]))
        rn, c, i, m = ms[0]
        viol = [x for x in ms if cfg.violates(*x)]
        if viol:
            rn, c, i, m = viol[0]
        body = ("# property %s, correspondence %s, signature %s\n# %d disagreeing cases with this signature; the shortest:\n"
                "# implementation: %s\n# model:          %s\n# replay with: ./check %s --replay <this file>\n%s\n"
                % (pid, rn, sig, len(ms), i[:2000], m[:2000], pid, c))
        rp = write_replay(pid, seed, re.sub(r"[^A-Za-z0-9]+", "_", sig)[:60], body)
        if viol:
            res.violation(rp)
        else:
            res.violation(rp, "no-failing-input-found")
        n_viol += 1
    for e in errors:
        rp = write_replay(pid, seed, "harness_error", "# the correspondence could not be run\n# " + e.replace("\n", "\n# ") + "\n")
        res.violation(rp, "no-failing-input-found")
    if proof_broken and not res.violations:
        rp = write_replay(pid, seed, "proof",
                          "# proof obligation no longer checks: %s\n# no failing input found by the correspondence run (%d cases)\n# %s\n"
                          % (proof_broken, evaluations, out[-3000:].replace("\n", "\n# ")))
        res.violation(rp, "no-failing-input-found")
    elif proof_broken:
        log("note: proof obligation broken at %s; failing input reported above" % proof_broken)
    if bad:
        rp = write_replay(pid, seed, "audit", "# forbidden constructs in the development:\n" + "\n".join(bad) + "\n")
        res.violation(rp, "no-failing-input-found")
    if hasattr(cfg, "post"):
        cfg.post(res, stats_all, all_mism)
    chk = None
    if tier == "thorough" and ok and cfg.PROPS_FILES and not getattr(cfg, "NO_COQCHK", False):
        okc, summ, tail = coqchk(cfg.PROPS_FILES)
        chk = {"ok": okc, "summary": summ}
        bad_keys = [k for k, v in summ.items() if k != "Theory" and v not in ("<none>", "")]
        if not okc or bad_keys:
            rp = write_replay(pid, seed, "coqchk", "# coqchk did not accept the compiled development cleanly:\n# " + tail.replace("\n", "\n# ") + "\n")
            res.violation(rp, "no-failing-input-found")

    res.cov = {
        "obligations": len(obligations) + len(extra_obl),
        "discharged": discharged,
        "checker_cmd": "make -C /verif/coq -j16 " + " ".join(targets) + "  (coqc 8.16.1, full .vo)",
        "trusted_base": BASE_TRUSTED + list(getattr(cfg, "TRUSTED", [])) +
                        ["axioms reported by Print Assumptions: " + ("none (Closed under the global context)" if not axioms else "; ".join(axioms))],
        "theorems": obligations + extra_obl,
        "print_assumptions": pa,
        "generated": gen_notes,
        "evaluations": evaluations,
        "distinct_nontrivial": dn,
        "traces_validated_against_impl": evaluations,
        "disagreements": len(all_mism),
        "disagreement_signatures": {k: len(v) for k, v in groups.items()},
        "rule": "; ".join(sorted(set(s.get("rule", "") for s in stats_all.values()))),
        "samples": samples[:8] if samples else ["(no correspondence cases this run)"],
        "input_distribution": {k: {"kinds": s.get("kinds"), "classes": s.get("classes")} for k, s in stats_all.items()},
        "coqchk": chk if chk is not None else "not run in this tier (thorough only)",
        "explanation": getattr(cfg, "EXPLANATION", ""),
        "modelled_not_verified": list(getattr(cfg, "MODELLED", [])),
    }
    for s in stats_all.values():
        for k, v in s.items():
            if k.startswith("x_"):
                res.cov[k] = v
    res.assumptions = list(getattr(cfg, "ASSUMPTIONS", []))
    return res.finish(evidence)


if __name__ == "__main__":
    sys.exit(main(sys.argv[1:]))
