#!/usr/bin/env python3
"""Prints the generated parts of DESIGN.md section 11 (per-property status, findings, seeded changes)."""
import glob, importlib, json, os, re, sys
V = os.path.dirname(os.path.dirname(os.path.abspath(__file__)))
sys.path.insert(0, os.path.join(V, "lib")); sys.path.insert(0, os.path.join(V, "props"))
import vcheck
print("### 11.1 Per property\n")
print("| id | level | theorems in the property file(s) | correspondence runs | doc |")
print("|---|---|---|---|---|")
for f in sorted(os.listdir(os.path.join(V, "props"))):
    if re.fullmatch(r"C\d+\.py", f):
        cfg = importlib.import_module(f[:-3])
        n = sum(len(vcheck.theorems_of(pf)) for pf in cfg.PROPS_FILES)
        runs = ", ".join("%s (harness cmd/%s, model %s)" % (r["name"], r["harness"], r["model_ml"]) for r in getattr(cfg, "RUNS", []))
        doc = "docs/%s.md" % cfg.ID if os.path.exists(os.path.join(V, "docs", cfg.ID + ".md")) else "section 6"
        print("| %s | %s | %d | %s | %s |" % (cfg.ID, cfg.LEVEL, n, runs, doc))
print("\n#### What each claim covers (LEVEL_TEXT and LEVEL_NOTE of props/Cxx.py, verbatim; the same texts are written into every evidence file)\n")
for f in sorted(os.listdir(os.path.join(V, "props"))):
    if re.fullmatch(r"C\d+\.py", f):
        cfg = importlib.import_module(f[:-3])
        print("* **%s** (%s). %s\n  *Note:* %s" % (cfg.ID, cfg.LEVEL, " ".join(getattr(cfg, "LEVEL_TEXT", "").split()).replace("|", "/"),
                                                  " ".join(getattr(cfg, "LEVEL_NOTE", "").split()).replace("|", "/")))
print("\n### 11.2 Findings (known_findings.jsonl + known_findings.d/)\n")
print("| property | status | /repo commit | what |")
print("|---|---|---|---|")
seen = set()
for k in vcheck.known_findings():
    key = (k.get("commit"), k["what"][:60])
    if key in seen:
        continue
    seen.add(key)
    what = re.sub(r"^fixed: property=C\d+ [0-9a-f]+ ", "", k["what"]).replace("|", "/")
    print("| %s | %s | %s | %s |" % (k["property"], k["status"], (k.get("commit") or "")[:7], what[:260]))
print("\n### 11.3 Seeded changes (seeded/*/meta.json)\n")
print("| seed | touches | needs | confirmed | detected by |")
print("|---|---|---|---|---|")
for d in sorted(glob.glob(os.path.join(V, "seeded", "*"))):
    mp = os.path.join(d, "meta.json")
    if not os.path.exists(mp):
        continue
    m = json.load(open(mp))
    files = sorted(set(l[6:].strip() for l in open(os.path.join(d, "patch.diff")) if l.startswith("+++ b/")))
    needs = m.get("needs", "")
    det = ", ".join(m.get("detected_by", [])) or "MISSED" + (" (" + m["missed_note"] + ")" if m.get("missed_note") else "")
    if m.get("detected_after"):
        det += " (after strengthening: %s)" % m["detected_after"]
    print("| %s | %s | %s | %s | %s |" % (os.path.basename(d), ", ".join(files), needs[:160], "yes" if m.get("confirmed") else "NO", det))
