#!/usr/bin/env python3
"""Run every property's generator (translators) once so that the generated Coq files exist
before the full build."""
import importlib, os, sys
sys.path.insert(0, os.path.dirname(os.path.abspath(__file__)))
import vcheck
sys.path.insert(0, os.path.join(vcheck.VERIF, "props"))
done = set()
for f in sorted(os.listdir(os.path.join(vcheck.VERIF, "props"))):
    if f.endswith(".py") and f[0] == "C":
        cfg = importlib.import_module(f[:-3])
        g = getattr(cfg, "generate", None)
        if g and g.__code__ not in done:
            done.add(g.__code__)
            try:
                g(None)
            except Exception as e:
                print("generator of", f, "failed:", e)
vcheck.coq_prepare()
