#!/usr/bin/env python3
"""seedtest.py <Cxx> <seed-out-dir> <n> [--checks Cxx,Cyy]

Confirms a seeded breaking change (patch<n>.diff + demo<n>_test.go from a mutation agent) in a
scratch worktree of /repo (demo passes without the change; with it the existing suite of the
touched packages still passes and the demo fails), then applies it to /repo, runs the given
checks (default: the property's own check), reverts, and stores everything under
/verif/seeded/<Cxx>-<name>/ (patch.diff, demo, meta.json)."""
import json, os, re, shutil, subprocess, sys, time

VERIF = os.path.dirname(os.path.dirname(os.path.abspath(__file__)))
REPO = os.path.normpath(os.path.join(VERIF, "..", "repo"))  # /repo for /verif; the sibling clone for a scratch copy
ENV = dict(os.environ, GOFLAGS="-mod=mod", GOPROXY="off", GOSUMDB="off", GOTOOLCHAIN="local")


def sh(cmd, cwd=None, timeout=3000):
    p = subprocess.run(cmd, cwd=cwd, env=ENV, shell=isinstance(cmd, str), stdout=subprocess.PIPE,
                       stderr=subprocess.STDOUT, timeout=timeout)
    return p.returncode, p.stdout.decode("utf-8", "replace")


def main():
    prop, outdir, n = sys.argv[1], sys.argv[2], sys.argv[3]
    checks = [prop]
    tag = ""
    if "--tag" in sys.argv:
        tag = sys.argv[sys.argv.index("--tag") + 1] + "-"
    if "--checks" in sys.argv:
        checks = sys.argv[sys.argv.index("--checks") + 1].split(",")
    patch = os.path.join(outdir, "patch%s.diff" % n)
    demo = os.path.join(outdir, "demo%s_test.go" % n)
    first = open(demo).readline()
    m = re.search(r"\./([A-Za-z0-9_/.-]*)/?\s*$", first.strip()) or re.search(r"[Gg]oes into\s+(?:package directory\s+)?(\S+)", first)
    pkgdir = m.group(1).strip("/;,") if m else "."
    if pkgdir == "":
        pkgdir = "."
    if pkgdir in ("the", "repo", "root"):
        pkgdir = "."
    m = re.search(r"-run\s+'?\"?([A-Za-z0-9_|^$]+)", first)
    runpat = m.group(1) if m else "Seed"
    use126 = "synctest" in open(demo).read() or "go1.26" in first
    go = "go1.26.8" if use126 else "go"
    tags = ["-tags", "verif"] if re.search(r"go:build.*\bverif\b|-tags verif", open(demo).read()[:600]) else []
    wt = "/tmp/seedchk-%s-%s%s" % (prop, tag, n)
    sh(["git", "-C", REPO, "worktree", "remove", "--force", wt])
    rc, out = sh(["git", "-C", REPO, "worktree", "add", "-q", "--detach", wt, "HEAD"])
    assert rc == 0, out
    meta = {"property": prop, "seed": n, "pkgdir": pkgdir, "demo_run": runpat, "go": go,
            "repo_head": sh(["git", "-C", REPO, "rev-parse", "HEAD"])[1].strip()}
    try:
        demo_dst = os.path.join(wt, pkgdir, "zz_seed%s_test.go" % n)
        shutil.copyfile(demo, demo_dst)
        rc0, out0 = sh([go, "test"] + tags + ["-vet=off", "-count=1", "-run", runpat, "./" + pkgdir + "/"], cwd=wt)
        meta["demo_without_change"] = "pass" if rc0 == 0 else "FAIL"
        os.remove(demo_dst)
        rc, out = sh(["git", "apply", patch], cwd=wt)
        assert rc == 0, "patch does not apply: " + out
        touched = sorted(set(os.path.dirname(l[6:]) or "." for l in open(patch) if l.startswith("+++ b/")))
        # only directories that are Go packages (capnpc-go/templates holds template text only)
        touched = [t for t in touched if any(f.endswith(".go") for f in os.listdir(os.path.join(wt, t)))]
        pk = " ".join("./" + t + "/" for t in touched)
        rcs, outs = sh("go build ./... && go test -vet=off -count=1 %s" % pk, cwd=wt)
        meta["suite_with_change"] = "pass" if rcs == 0 else "FAIL"
        meta["suite_packages"] = touched
        shutil.copyfile(demo, demo_dst)
        rc1, out1 = sh([go, "test"] + tags + ["-vet=off", "-count=1", "-run", runpat, "./" + pkgdir + "/"], cwd=wt, timeout=1200)
        meta["demo_with_change"] = "fail" if rc1 != 0 else "PASSES (not a breaking change?)"
        meta["demo_output_tail"] = out1[-1500:]
        if rcs != 0:
            meta["suite_output_tail"] = outs[-1500:]
    finally:
        sh(["git", "-C", REPO, "worktree", "remove", "--force", wt])
    confirmed = (meta["demo_without_change"] == "pass" and meta["suite_with_change"] == "pass"
                 and meta["demo_with_change"] == "fail")
    meta["confirmed"] = confirmed
    results = {}
    if confirmed:
        rc, out = sh(["git", "-C", REPO, "status", "--porcelain"])
        assert out.strip() == "", "/repo not clean: " + out
        rc, out = sh(["git", "-C", REPO, "apply", patch])
        assert rc == 0, out
        saved = {}
        for c in checks:   # evidence files must only ever hold clean-tree runs: keep and restore them
            ep = os.path.join(VERIF, "evidence", c + ".json")
            saved[ep] = open(ep).read() if os.path.exists(ep) else None
        try:
            for c in checks:
                t0 = time.time()
                rc, out = sh(["./check", c, "--tier", "quick"], cwd=VERIF, timeout=3600)
                viol = [l for l in out.split("\n") if l.startswith("VIOLATION")]
                results[c] = {"exit": rc, "violations": viol[:6], "wall_s": round(time.time() - t0, 1)}
        finally:
            sh(["git", "-C", REPO, "checkout", "--", "."])
            sh(["git", "-C", REPO, "clean", "-fdq"])
            for ep, content in saved.items():
                if content is not None:
                    open(ep, "w").write(content)
            # generated Coq files were regenerated from the patched tree: restore the committed ones
            sh(["git", "-C", VERIF, "checkout", "--", "coq/Gen"])
    meta["checks"] = results
    meta["detected_by"] = [c for c, r in results.items() if r["exit"] != 0 and r["violations"]]
    d = os.path.join(VERIF, "seeded", "%s-%s%s" % (prop, tag, n))
    os.makedirs(d, exist_ok=True)
    shutil.copyfile(patch, os.path.join(d, "patch.diff"))
    shutil.copyfile(demo, os.path.join(d, "demo_test.go"))
    notes = os.path.join(outdir, "notes.md")
    if os.path.exists(notes):
        shutil.copyfile(notes, os.path.join(d, "agent_notes.md"))
    json.dump(meta, open(os.path.join(d, "meta.json"), "w"), indent=1)
    print(json.dumps({k: meta[k] for k in ("property", "seed", "confirmed", "demo_without_change", "suite_with_change",
                                            "demo_with_change", "detected_by")}, indent=None))
    for c, r in results.items():
        print(" ", c, "exit", r["exit"], r["violations"][:2])


if __name__ == "__main__":
    main()
