#!/usr/bin/env python3
"""Writes MANIFEST.json from props/*.py (so that the manifest never drifts from the checks)."""
import importlib, json, os, sys
sys.path.insert(0, os.path.dirname(os.path.abspath(__file__)))
import vcheck
sys.path.insert(0, os.path.join(vcheck.VERIF, "props"))
checks = []
claimed = set()
for f in sorted(os.listdir(os.path.join(vcheck.VERIF, "props"))):
    if f.endswith(".py") and f[0] == "C":
        cfg = importlib.import_module(f[:-3])
        if not getattr(cfg, 'CLAIM', True):
            continue
        claimed.add(cfg.ID)
        checks.append({
            "property_id": cfg.ID,
            "quick_cmd": "./check %s --tier quick" % cfg.ID,
            "thorough_cmd": "./check %s --tier thorough" % cfg.ID,
            "evidence_file": "/verif/evidence/%s.json" % cfg.ID,
            "replay_cmd_template": "./check %s --replay {path}" % cfg.ID,
            "engine": "coq+correspondence",
            "level_claimed": {"category": cfg.LEVEL, "text": cfg.LEVEL_TEXT, "design_ref": cfg.DESIGN_REF},
            "level_note": cfg.LEVEL_NOTE,
            "technique": cfg.TECHNIQUE,
        })
props = [json.loads(l) for l in open(os.path.join(vcheck.VERIF, "properties.jsonl"))]
na_reasons = json.load(open(os.path.join(vcheck.VERIF, "lib", "not_applicable.json")))
na = [{"property_id": p["id"], "reason": na_reasons.get(p["id"], "not yet covered by the development (work in progress)")}
      for p in props if p["id"] not in claimed]
hooks_commits = [l.strip() for l in open(os.path.join(vcheck.VERIF, "lib", "hook_commits.txt")) if l.strip()]
m = {
    "version": 1,
    "setup_cmd": "./setup.sh",
    "hooks": {
        "guard": "verif",
        "enable": "go build -tags verif (the harness module /verif/harness replaces capnproto.org/go/capnp/v3 by /repo)",
        "baseline_off_cmd": "cd /repo && GOFLAGS=-mod=mod GOPROXY=off go test -vet=off -count=1 -timeout 25m ./...",
        "source_commits": hooks_commits,
        "add_only": True,
    },
    "engines": [{
        "name": "coq+correspondence", "path": "/verif/coq, /verif/lib/vcheck.py, /verif/harness, /verif/ocaml",
        "serves_properties": sorted(claimed),
        "kind_free_text": "machine-checked proof in Coq 8.16.1 about executable Gallina models; models tied to /repo by "
                          "translators (regenerated every run) and by differential runs of the extracted models against "
                          "the implementation built with -tags verif",
    }],
    "checks": checks,
    "not_applicable": na,
    "notes": "see DESIGN.md; known_findings.jsonl lists fixed and known defects",
}
json.dump(m, open(os.path.join(vcheck.VERIF, "MANIFEST.json"), "w"), indent=1)
print("MANIFEST.json:", len(checks), "checks,", len(na), "not claimed")
