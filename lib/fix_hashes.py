#!/usr/bin/env python3
"""Rewrites the commit hashes of "fixed" entries in known_findings*.jsonl from the hashes of the
engineers' scratch clones to the hashes the same commits (same subject) have in /repo."""
import glob, json, os, subprocess, sys
V = os.path.dirname(os.path.dirname(os.path.abspath(__file__)))
def git(repo, *a):
    p = subprocess.run(["git", "-C", repo] + list(a), stdout=subprocess.PIPE, stderr=subprocess.DEVNULL)
    return p.stdout.decode().strip() if p.returncode == 0 else None
def on_main(c):
    return subprocess.run(["git", "-C", "/repo", "merge-base", "--is-ancestor", c, "HEAD"],
                          stdout=subprocess.DEVNULL, stderr=subprocess.DEVNULL).returncode == 0
repo_subj = {}
for line in (git("/repo", "log", "--format=%H %s") or "").split("\n"):
    h, _, s = line.partition(" ")
    repo_subj.setdefault(s, h)
# the same defect was repaired independently by two engineers; /repo has one of the two commits
ALIASES = {
    "fix: shutdown skips releaseMsg of placeholder answers": "fix: shutdown called the nil releaseMsg of placeholder answers",
    "fix: recvPayload no longer releases clients while c.mu is held": "fix: recvPayload released imported clients while holding c.mu",
    "fix: embargo.lift does not fulfill with a client that Shutdown has already released": "fix: embargo.lift after the embargoed client was released panicked",
    "fix: Future.Client returned an existing proxy client without unlocking Promise.mu": "fix: Future.Client unlocks Promise.mu when it returns an existing proxy client",
    "fix: Promise.resolve fulfils proxy clients after entering the resolved state": "fix: Promise.resolve lets pending pipelined calls proceed on the result",
    "fix: handleCall releases the sender lock": "fix: handleCall never released the sender lock",
    "fix: answerQueue": "fix: answerQueue hands out the right basis",
    "fix: queueCaller": "fix: answerQueue hands out the right basis",
}
def alias(subj):
    for k, v in ALIASES.items():
        if subj and subj.startswith(k):
            for s2, h in repo_subj.items():
                if s2.startswith(v):
                    return h
    return None
clones = ["/repo"] + sorted(glob.glob("/work/*/repo"))
for f in [os.path.join(V, "known_findings.jsonl")] + sorted(glob.glob(os.path.join(V, "known_findings.d", "*.jsonl"))):
    out, changed = [], False
    for l in open(f):
        s = l.strip()
        if not s or s.startswith("#"):
            out.append(l); continue
        d = json.loads(s)
        c = d.get("commit")
        if d.get("status") == "fixed" and c:
            if not on_main(c):
                subj = None
                for cl in clones:
                    subj = git(cl, "log", "-1", "--format=%s", c)
                    if subj: break
                new = (repo_subj.get(subj) or alias(subj)) if subj else None
                if new:
                    d["what"] = d["what"].replace(c[:7], new[:7])
                    d["commit"] = new[:7] if len(c) <= 8 else new
                    changed = True
                else:
                    print("no /repo commit for", c, subj, file=sys.stderr)
        out.append(json.dumps(d) + "\n")
    if changed:
        open(f, "w").writelines(out)
        print("rewrote", os.path.basename(f))
