#!/usr/bin/env python3
"""Rewrites the commit hashes of "fixed" entries in known_findings*.jsonl from the hashes of the
engineers' scratch clones to the hashes the same commits (same subject) have in /repo."""
import glob, json, os, subprocess, sys
V = os.path.dirname(os.path.dirname(os.path.abspath(__file__)))
def git(repo, *a):
    p = subprocess.run(["git", "-C", repo] + list(a), stdout=subprocess.PIPE, stderr=subprocess.DEVNULL)
    return p.stdout.decode().strip() if p.returncode == 0 else None
def on_main(c):
    return subprocess.run(["git", "-C", "/repo", "merge-base", "--is-ancestor", c, "HEAD"],
                          stdout=subprocess.DEVNULL, stderr=subprocess.DEVNULL).returncode == 0
repo_subj = {}
for line in (git("/repo", "log", "--format=%H %s") or "").split("\n"):
    h, _, s = line.partition(" ")
    repo_subj.setdefault(s, h)
clones = ["/repo"] + sorted(glob.glob("/work/*/repo"))
for f in [os.path.join(V, "known_findings.jsonl")] + sorted(glob.glob(os.path.join(V, "known_findings.d", "*.jsonl"))):
    out, changed = [], False
    for l in open(f):
        s = l.strip()
        if not s or s.startswith("#"):
            out.append(l); continue
        d = json.loads(s)
        c = d.get("commit")
        if d.get("status") == "fixed" and c:
            if not on_main(c):
                subj = None
                for cl in clones:
                    subj = git(cl, "log", "-1", "--format=%s", c)
                    if subj: break
                new = repo_subj.get(subj) if subj else None
                if new:
                    d["what"] = d["what"].replace(c[:7], new[:7])
                    d["commit"] = new[:7] if len(c) <= 8 else new
                    changed = True
                else:
                    print("no /repo commit for", c, subj, file=sys.stderr)
        out.append(json.dumps(d) + "\n")
    if changed:
        open(f, "w").writelines(out)
        print("rewrote", os.path.basename(f))
