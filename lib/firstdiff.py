#!/usr/bin/env python3
"""firstdiff.py cases impl model [n]: show the first differing op of the first n disagreeing cases"""
import sys
c = open(sys.argv[1]).read().split("\n")
i = open(sys.argv[2]).read().split("\n")
m = open(sys.argv[3]).read().split("\n")
n = int(sys.argv[4]) if len(sys.argv) > 4 else 5
tot = 0
for k in range(len(c)):
    if k < len(i) and k < len(m) and i[k] != m[k]:
        tot += 1
        if tot <= n:
            io, mo = i[k].split(";"), m[k].split(";")
            f = c[k].split()
            ops = f[4].split(";") if len(f) > 4 else []
            for j in range(max(len(io), len(mo))):
                a = io[j] if j < len(io) else "<none>"
                b = mo[j] if j < len(mo) else "<none>"
                if a != b:
                    print("case %d: %s\n  ops..: %s\n  impl : %s\n  model: %s" % (k, " ".join(f[:4])[:300], ";".join(ops[max(0, j - 3):j + 1]), a[:300], b[:300]))
                    break
print("total disagreeing cases:", tot)
