// Package rd runs read-side op lists against the real accessors and prints canonical
// observations; shared by the harness commands for C01-C03, C16-C18.
package rd

import (
	"bytes"
	"fmt"
	"strconv"
	"strings"
	"sync"
	"sync/atomic"

	capnp "capnproto.org/go/capnp/v3"
	. "verifh/hc"
)

// Msg is a message under test: segments (cap == len), limits, arena kind.
type Msg struct {
	Segs  [][]byte
	T     uint64
	D     uint
	Arena string // "S" single segment, "M" multi segment
}

func (m *Msg) Build() *capnp.Message {
	segs := make([][]byte, len(m.Segs))
	for i, s := range m.Segs {
		segs[i] = make([]byte, len(s)) // cap == len: any over-read panics
		copy(segs[i], s)
	}
	var a capnp.Arena
	if m.Arena == "S" && len(segs) == 1 {
		a = capnp.SingleSegment(segs[0])
	} else {
		a = capnp.MultiSegment(segs)
	}
	return &capnp.Message{Arena: a, TraverseLimit: m.T, DepthLimit: m.D}
}

func (m *Msg) Header() string {
	hs := make([]string, len(m.Segs))
	for i, s := range m.Segs {
		hs[i] = Hx(s)
		if len(s) > 4096 {
			// long zero tail: Z<total bytes>:<hex of the non-zero prefix>
			k := len(s)
			for k > 0 && s[k-1] == 0 {
				k--
			}
			if len(s)-k > 1024 {
				pre := ""
				if k > 0 {
					pre = Hx(s[:k])
				}
				hs[i] = fmt.Sprintf("Z%d:%s", len(s), pre)
			}
		}
	}
	ar := m.Arena
	if ar == "" {
		ar = "M"
	}
	sl := strings.Join(hs, ",")
	if len(hs) == 0 {
		sl = "_"
	}
	return fmt.Sprintf("%s %d %d %s", ar, m.T, m.D, sl)
}

func ParseHeader(f []string) *Msg {
	m := &Msg{Arena: f[0]}
	m.T, _ = strconv.ParseUint(f[1], 10, 64)
	d, _ := strconv.ParseUint(f[2], 10, 64)
	m.D = uint(d)
	if f[3] != "" && f[3] != "_" {
		for _, h := range strings.Split(f[3], ",") {
			if strings.HasPrefix(h, "Z") {
				parts := strings.SplitN(h[1:], ":", 2)
				n, _ := strconv.Atoi(parts[0])
				b := make([]byte, n)
				if len(parts) > 1 && parts[1] != "" {
					copy(b, Unhx(parts[1]))
				}
				m.Segs = append(m.Segs, b)
				continue
			}
			m.Segs = append(m.Segs, Unhx(h))
		}
	}
	return m
}

// Session holds the handle table of one op list.
type Session struct {
	M       *capnp.Message
	Handles []capnp.Ptr
}

func PtrStr(p capnp.Ptr) string {
	vi := p.VerifInfo()
	if !vi.Valid {
		return "null"
	}
	b := func(x bool) int {
		if x {
			return 1
		}
		return 0
	}
	ln := int64(vi.LenOrCap)
	if vi.Kind == 1 {
		ln = int64(int32(vi.LenOrCap))
	}
	return fmt.Sprintf("P(%d,%d,%d,%d,%d,%d,%d,%d,%d,%d)", vi.Seg, vi.Off, ln, vi.DataSize, vi.PointerCount,
		vi.DepthLimit, vi.Kind, b(vi.Composite), b(vi.BitList), b(vi.ListMember))
}

func (s *Session) h(i int) capnp.Ptr {
	if i < 0 || i >= len(s.Handles) {
		return capnp.Ptr{}
	}
	return s.Handles[i]
}

func (s *Session) pushPtr(f func() (capnp.Ptr, error)) (res string) {
	var p capnp.Ptr
	defer func() {
		if e := recover(); e != nil {
			res = "panic"
			p = capnp.Ptr{}
		}
		s.Handles = append(s.Handles, p)
	}()
	q, err := f()
	if err != nil {
		return "err"
	}
	p = q
	return PtrStr(p)
}

func num(f func() uint64) string {
	return Safely(func() string { return "N" + strconv.FormatUint(f(), 10) })
}

func boolean(f func() bool) string {
	return Safely(func() string {
		if f() {
			return "B1"
		}
		return "B0"
	})
}

// Do executes one op ("name:arg:arg") and returns the observation.
func (s *Session) Do(op string) string {
	f := strings.Split(op, ":")
	a := make([]int64, len(f))
	for i := 1; i < len(f); i++ {
		a[i], _ = strconv.ParseInt(f[i], 10, 64)
	}
	switch f[0] {
	case "root":
		return s.pushPtr(func() (capnp.Ptr, error) { return s.M.Root() })
	case "sptr":
		st := s.h(int(a[1])).Struct()
		return s.pushPtr(func() (capnp.Ptr, error) { return st.Ptr(uint16(a[2])) })
	case "hasptr":
		st := s.h(int(a[1])).Struct()
		return boolean(func() bool { return st.HasPtr(uint16(a[2])) })
	case "uint":
		st := s.h(int(a[1])).Struct()
		off := capnp.DataOffset(a[2])
		switch a[3] {
		case 1:
			return num(func() uint64 { return uint64(st.Uint8(off)) })
		case 2:
			return num(func() uint64 { return uint64(st.Uint16(off)) })
		case 4:
			return num(func() uint64 { return uint64(st.Uint32(off)) })
		default:
			return num(func() uint64 { return st.Uint64(off) })
		}
	case "bit":
		st := s.h(int(a[1])).Struct()
		return boolean(func() bool { return st.Bit(capnp.BitOffset(a[2])) })
	case "lstruct":
		l := s.h(int(a[1])).List()
		return s.pushPtr(func() (capnp.Ptr, error) { return l.Struct(int(a[2])).ToPtr(), nil })
	case "plat":
		l := capnp.PointerList{List: s.h(int(a[1])).List()}
		return s.pushPtr(func() (capnp.Ptr, error) { return l.At(int(a[2])) })
	case "uintat":
		l := s.h(int(a[1])).List()
		i := int(a[2])
		switch a[3] {
		case 1:
			return num(func() uint64 { return uint64(capnp.UInt8List{List: l}.At(i)) })
		case 2:
			return num(func() uint64 { return uint64(capnp.UInt16List{List: l}.At(i)) })
		case 4:
			return num(func() uint64 { return uint64(capnp.UInt32List{List: l}.At(i)) })
		default:
			return num(func() uint64 { return capnp.UInt64List{List: l}.At(i) })
		}
	case "bitat":
		l := capnp.BitList{List: s.h(int(a[1])).List()}
		return boolean(func() bool { return l.At(int(a[2])) })
	case "text":
		p := s.h(int(a[1]))
		return Safely(func() string {
			b := p.TextBytes()
			if b == nil {
				return "none"
			}
			return "X" + Hx(b)
		})
	case "data":
		p := s.h(int(a[1]))
		return Safely(func() string {
			vi := p.VerifInfo()
			if !(vi.Valid && vi.Kind == 1 && vi.DataSize == 1 && vi.PointerCount == 0 && !vi.Composite) {
				// Data() returns nil for anything that is not a byte list
				if p.Data() != nil {
					return "X?" + Hx(p.Data())
				}
				return "none"
			}
			return "X" + Hx(p.Data())
		})
	case "info":
		return PtrStr(s.h(int(a[1])))
	case "rlimit":
		return "N" + strconv.FormatUint(s.M.VerifReadLimit(), 10)
	case "setlimit":
		// Message.ResetReadLimit(limit): the application sets the remaining budget (ReadOps.OResetLimit)
		return Safely(func() string {
			s.M.ResetReadLimit(uint64(a[1]))
			return "N" + strconv.FormatUint(s.M.VerifReadLimit(), 10)
		})
	case "unread":
		// Message.Unread(sz): the application gives budget back (ReadOps.OUnread)
		return Safely(func() string {
			s.M.Unread(capnp.Size(uint32(a[1])))
			return "N" + strconv.FormatUint(s.M.VerifReadLimit(), 10)
		})
	case "reset":
		// Message.Reset to a fresh arena holding the same bytes (a message value reused for the
		// next message): every handle is dropped; the observation is the re-armed budget
		// (ReadOps.OReset: Message.initReadLimit's value)
		return Safely(func() string {
			n := s.M.NumSegments()
			segs := make([][]byte, 0, n)
			for i := int64(0); i < n; i++ {
				d, err := s.M.Arena.Data(capnp.SegmentID(i))
				if err != nil {
					return "err"
				}
				c := make([]byte, len(d)) // cap == len
				copy(c, d)
				segs = append(segs, c)
			}
			s.M.Reset(capnp.MultiSegment(segs))
			s.Handles = nil
			return "N" + strconv.FormatUint(s.M.VerifReadLimit(), 10)
		})
	case "walk":
		var sb strings.Builder
		Walk(&sb, s.h(int(a[1])), nil, int(a[2]), int(a[3]), int(a[4]))
		return sb.String() + "@" + strconv.FormatUint(s.M.VerifReadLimit(), 10)
	}
	return "badop"
}

func capCount(n int64, c int) int {
	if n < 0 {
		n = 0
	}
	if n > int64(c) {
		n = int64(c)
	}
	return int(n)
}

// Walk prints the tree below p (err = the error of the access that produced p) using only
// the public accessors, mirroring ReadOps.walk.
func Walk(sb *strings.Builder, p capnp.Ptr, err error, dcap, pcap, fuel int) {
	if err != nil {
		sb.WriteString("E")
		return
	}
	vi := p.VerifInfo()
	if !vi.Valid {
		sb.WriteString("0")
		return
	}
	if fuel == 0 {
		sb.WriteString("F")
		return
	}
	defer func() {
		if e := recover(); e != nil {
			sb.WriteString("!")
		}
	}()
	switch vi.Kind {
	case 2:
		fmt.Fprintf(sb, "C%d", vi.LenOrCap)
	case 0:
		st := p.Struct()
		n := capCount(int64(vi.DataSize), dcap)
		data := make([]byte, n)
		for i := 0; i < n; i++ {
			data[i] = st.Uint8(capnp.DataOffset(i))
		}
		sb.WriteString("S(" + Hx(data) + "|")
		np := capCount(int64(vi.PointerCount), pcap)
		for i := 0; i < np; i++ {
			if i > 0 {
				sb.WriteString(",")
			}
			q, err := walkPtr(func() (capnp.Ptr, error) { return st.Ptr(uint16(i)) })
			if err == errPanic {
				sb.WriteString("!")
				continue
			}
			Walk(sb, q, err, dcap, pcap, fuel-1)
		}
		sb.WriteString(")")
	case 1:
		l := p.List()
		ln := int64(int32(vi.LenOrCap))
		n := capCount(ln, pcap)
		switch {
		case vi.BitList:
			bl := capnp.BitList{List: l}
			var bits strings.Builder
			for i := 0; i < n; i++ {
				if bl.At(i) {
					bits.WriteString("1")
				} else {
					bits.WriteString("0")
				}
			}
			fmt.Fprintf(sb, "B%d[%s]", ln, bits.String())
		case vi.Composite:
			fmt.Fprintf(sb, "M%d:%d:%d[", ln, vi.DataSize, vi.PointerCount)
			for i := 0; i < n; i++ {
				if i > 0 {
					sb.WriteString(",")
				}
				q, err := walkPtr(func() (capnp.Ptr, error) { return l.Struct(i).ToPtr(), nil })
				if err == errPanic {
					sb.WriteString("!")
					continue
				}
				Walk(sb, q, err, dcap, pcap, fuel-1)
			}
			sb.WriteString("]")
		case vi.PointerCount > 0:
			pl := capnp.PointerList{List: l}
			fmt.Fprintf(sb, "L%d[", ln)
			for i := 0; i < n; i++ {
				if i > 0 {
					sb.WriteString(",")
				}
				q, err := walkPtr(func() (capnp.Ptr, error) { return pl.At(i) })
				if err == errPanic {
					sb.WriteString("!")
					continue
				}
				Walk(sb, q, err, dcap, pcap, fuel-1)
			}
			sb.WriteString("]")
		default:
			w := int(vi.DataSize)
			fmt.Fprintf(sb, "V%d:%d[", w, ln)
			if w != 0 {
				for i := 0; i < n; i++ {
					if i > 0 {
						sb.WriteString(",")
					}
					var v uint64
					switch w {
					case 1:
						v = uint64(capnp.UInt8List{List: l}.At(i))
					case 2:
						v = uint64(capnp.UInt16List{List: l}.At(i))
					case 4:
						v = uint64(capnp.UInt32List{List: l}.At(i))
					default:
						v = capnp.UInt64List{List: l}.At(i)
					}
					sb.WriteString(strconv.FormatUint(v, 10))
				}
			}
			sb.WriteString("]")
		}
	}
}

type panicErr struct{}

func (panicErr) Error() string { return "panic" }

var errPanic error = panicErr{}

func walkPtr(f func() (capnp.Ptr, error)) (p capnp.Ptr, err error) {
	defer func() {
		if e := recover(); e != nil {
			p, err = capnp.Ptr{}, errPanic
		}
	}()
	return f()
}

// RunCase runs "ARENA T D segs ops" and returns the observation line.
func RunCase(line string) string {
	f := strings.Fields(line)
	m := ParseHeader(f)
	s := &Session{M: m.Build()}
	var res []string
	if len(f) > 4 {
		for _, op := range strings.Split(f[4], ";") {
			res = append(res, s.Do(op))
		}
	}
	return strings.Join(res, ";")
}

// granted sums the read sizes of the pointers a walk obtained successfully, mirroring
// Struct.readSize / List.readSize, and reports whether any dereference was refused.
func granted(p capnp.Ptr, dcap, pcap, fuel int, total *uint64, refused *bool) {
	vi := p.VerifInfo()
	if !vi.Valid || fuel == 0 {
		return
	}
	charge := func(q capnp.Ptr) {
		qi := q.VerifInfo()
		if !qi.Valid {
			return
		}
		switch qi.Kind {
		case 0:
			*total += uint64(qi.DataSize) + 8*uint64(qi.PointerCount)
		case 1:
			e := uint64(qi.DataSize) + 8*uint64(qi.PointerCount)
			if e == 0 {
				e = 8
			}
			*total += e * uint64(int32(qi.LenOrCap))
		}
	}
	defer func() { recover() }()
	switch vi.Kind {
	case 0:
		st := p.Struct()
		for i := 0; i < capCount(int64(vi.PointerCount), pcap); i++ {
			q, err := st.Ptr(uint16(i))
			if err != nil {
				*refused = true
				continue
			}
			charge(q)
			granted(q, dcap, pcap, fuel-1, total, refused)
		}
	case 1:
		l := p.List()
		n := capCount(int64(int32(vi.LenOrCap)), pcap)
		switch {
		case vi.BitList:
		case vi.Composite:
			for i := 0; i < n; i++ {
				granted(l.Struct(i).ToPtr(), dcap, pcap, fuel-1, total, refused)
			}
		case vi.PointerCount > 0:
			pl := capnp.PointerList{List: l}
			for i := 0; i < n; i++ {
				q, err := pl.At(i)
				if err != nil {
					*refused = true
					continue
				}
				charge(q)
				granted(q, dcap, pcap, fuel-1, total, refused)
			}
		}
	}
}

// ConcCase: k goroutines walk the same message concurrently; checks the accounting
// invariants that theorem traversal_bound_conc states for every interleaving:
// granted <= T always, and final = T - granted when nothing was refused.
func ConcCase(m *Msg, k, dcap, pcap, fuel int) (res string) {
	// a panic of the library on the calling goroutine (e.g. in the probing Root()) is a result
	// of this case, with the case line as the failing input, not a crash of the harness
	defer func() {
		if r := recover(); r != nil {
			res = fmt.Sprintf("VIOLATION panic: %v", r)
		}
	}()
	return concCase(m, k, dcap, pcap, fuel)
}

func concCase(m *Msg, k, dcap, pcap, fuel int) string {
	msg := m.Build()
	T := m.T
	if T == 0 {
		T = 64 << 20
	}
	root, err := msg.Root()
	if err != nil {
		return "ok root-err"
	}
	var rootCost uint64
	ri := root.VerifInfo()
	if ri.Valid && ri.Kind == 0 {
		rootCost = uint64(ri.DataSize) + 8*uint64(ri.PointerCount)
	} else if ri.Valid && ri.Kind == 1 {
		e := uint64(ri.DataSize) + 8*uint64(ri.PointerCount)
		if e == 0 {
			e = 8
		}
		rootCost = e * uint64(int32(ri.LenOrCap))
	}
	totals := make([]uint64, k)
	refs := make([]bool, k)
	done := make(chan int, k)
	for g := 0; g < k; g++ {
		go func(g int) {
			defer func() { done <- g }()
			granted(root, dcap, pcap, fuel, &totals[g], &refs[g])
		}(g)
	}
	for g := 0; g < k; g++ {
		<-done
	}
	sum := rootCost
	anyRef := false
	for g := 0; g < k; g++ {
		sum += totals[g]
		anyRef = anyRef || refs[g]
	}
	final := msg.VerifReadLimit()
	switch {
	case sum > T:
		return fmt.Sprintf("VIOLATION granted=%d exceeds T=%d", sum, T)
	case !anyRef && final != T-sum:
		return fmt.Sprintf("VIOLATION final=%d want %d (T=%d granted=%d)", final, T-sum, T, sum)
	case final > T-sum:
		return fmt.Sprintf("VIOLATION final=%d > T-granted=%d", final, T-sum)
	}
	return "ok"
}

// ExhaustCase: g goroutines call Root() on one message whose budget admits exactly k root
// objects; by theorem traversal_bound_conc at most k calls succeed under every interleaving
// (and exactly k when at least k are attempted).  rounds fresh messages are tried; the
// observation is the verdict.
func ExhaustCase(m *Msg, g, k, rounds int) (res string) {
	// a panic of the library on the calling goroutine (e.g. in the probing Root()) is a result
	// of this case, with the case line as the failing input, not a crash of the harness
	defer func() {
		if r := recover(); r != nil {
			res = fmt.Sprintf("VIOLATION panic: %v", r)
		}
	}()
	return exhaustCase(m, g, k, rounds)
}

func exhaustCase(m *Msg, g, k, rounds int) string {
	probe := m.Build()
	root, err := probe.Root()
	if err != nil {
		return "ok root-err"
	}
	ri := root.VerifInfo()
	var cost uint64
	if ri.Valid && ri.Kind == 0 {
		cost = uint64(ri.DataSize) + 8*uint64(ri.PointerCount)
	}
	if cost == 0 {
		return "ok zero-cost"
	}
	for round := 0; round < rounds; round++ {
		mm := *m
		mm.T = cost * uint64(k)
		msg := mm.Build()
		var succ int64
		var wg sync.WaitGroup
		start := make(chan struct{})
		for i := 0; i < g; i++ {
			wg.Add(1)
			go func() {
				defer wg.Done()
				<-start
				for j := 0; j < k; j++ {
					if _, err := msg.Root(); err == nil {
						atomic.AddInt64(&succ, 1)
					}
				}
			}()
		}
		close(start)
		wg.Wait()
		if succ != int64(k) {
			return fmt.Sprintf("VIOLATION round %d: %d dereferences succeeded, budget admits exactly %d", round, succ, k)
		}
	}
	return "ok"
}

// ReuseCase: the traversal budget of a REUSED message.  A Message with TraverseLimit admitting
// exactly k root dereferences is read until the budget is gone, then Reset to a fresh arena
// holding the same bytes and read again (again exactly k must succeed: Reset re-arms the
// CONFIGURED limit, not the default); then the same through Decoder.ReuseBuffer, which resets
// the one Message it hands out on every Decode.
func ReuseCase(m *Msg, k int) (res string) {
	// a panic of the library on the calling goroutine (e.g. in the probing Root()) is a result
	// of this case, with the case line as the failing input, not a crash of the harness
	defer func() {
		if r := recover(); r != nil {
			res = fmt.Sprintf("VIOLATION panic: %v", r)
		}
	}()
	return reuseCase(m, k)
}

func reuseCase(m *Msg, k int) string {
	probe := m.Build()
	root, err := probe.Root()
	if err != nil {
		return "ok root-err"
	}
	ri := root.VerifInfo()
	var cost uint64
	if ri.Valid && ri.Kind == 0 {
		cost = uint64(ri.DataSize) + 8*uint64(ri.PointerCount)
	}
	if cost == 0 {
		return "ok zero-cost"
	}
	count := func(msg *capnp.Message) int {
		n := 0
		for j := 0; j < k+3; j++ {
			if _, err := msg.Root(); err == nil {
				n++
			}
		}
		return n
	}
	mm := *m
	mm.T = cost * uint64(k)
	msg := mm.Build()
	if n := count(msg); n != k {
		return fmt.Sprintf("VIOLATION fresh message: %d dereferences succeeded, budget admits exactly %d", n, k)
	}
	for round := 0; round < 3; round++ {
		msg.Reset(mm.Build().Arena)
		if n := count(msg); n != k {
			return fmt.Sprintf("VIOLATION after Reset #%d: %d dereferences succeeded, budget admits exactly %d", round+1, n, k)
		}
	}
	frame, err := mm.Build().Marshal()
	if err != nil {
		return "ok marshal-err"
	}
	var stream []byte
	for i := 0; i < 4; i++ {
		stream = append(stream, frame...)
	}
	d := capnp.NewDecoder(bytes.NewReader(stream))
	d.ReuseBuffer()
	for i := 0; i < 4; i++ {
		dm, err := d.Decode()
		if err != nil {
			return fmt.Sprintf("VIOLATION decode %d: %v", i, err)
		}
		if i == 0 {
			dm.TraverseLimit = mm.T // configured by the application on the message it will keep getting
			continue
		}
		if n := count(dm); n != k {
			return fmt.Sprintf("VIOLATION reused decoder message %d: %d dereferences succeeded, budget admits exactly %d", i, n, k)
		}
	}
	return "ok"
}
