package rd

import (
	"encoding/binary"

	capnp "capnproto.org/go/capnp/v3"
	. "verifh/hc"
)

// ---------------------------------------------------------------- raw pointer words

func StructPtr(off int32, dw, pc uint16) uint64 {
	return uint64(uint32(off)<<2) | uint64(dw)<<32 | uint64(pc)<<48
}
func ListPtr(off int32, lt uint8, n uint32) uint64 {
	return 1 | uint64(uint32(off)<<2) | uint64(lt&7)<<32 | uint64(n&(1<<29-1))<<35
}
func FarPtr(seg uint32, wordOff uint32, double bool) uint64 {
	w := uint64(2) | uint64(wordOff&(1<<29-1))<<3 | uint64(seg)<<32
	if double {
		w |= 4
	}
	return w
}
func CapPtr(idx uint32) uint64 { return 3 | uint64(idx)<<32 }

func Words(ws ...uint64) []byte {
	b := make([]byte, 8*len(ws))
	for i, w := range ws {
		binary.LittleEndian.PutUint64(b[8*i:], w)
	}
	return b
}

// boundary alphabet for pointer fields
var offs30 = []int32{0, 1, 2, 3, -1, -2, -3, 1<<29 - 1, -(1 << 29), 1 << 28, 7, 100}
var cnt16 = []uint16{0, 1, 2, 3, 4, 0xffff, 0xfffe, 0x8000, 0x7fff, 8}
var cnt29 = []uint32{0, 1, 2, 3, 7, 8, 9, 15, 16, 17, 63, 64, 65, 1<<29 - 1, 1 << 28, 1<<22 - 1, 1 << 22, 1<<22 + 9, 1 << 25}
var segids = []uint32{0, 1, 2, 3, 0xffffffff, 0x80000000, 7}

func RandPtrWord(r *Rand, nsegs int, segWords int) uint64 {
	off := offs30[r.Intn(len(offs30))]
	if r.Intn(3) == 0 && segWords > 0 {
		off = int32(r.Intn(segWords+2)) - 1
	}
	switch r.Pick(4, 6, 3, 2, 2, 1, 1) {
	case 0:
		return StructPtr(off, cnt16[r.Intn(len(cnt16))]&uint16(map[bool]int{true: 0xffff, false: 7}[r.Intn(4) == 0]), cnt16[r.Intn(len(cnt16))]&uint16(map[bool]int{true: 0xffff, false: 7}[r.Intn(4) == 0]))
	case 1:
		n := cnt29[r.Intn(len(cnt29))]
		if r.Intn(2) == 0 {
			n = uint32(r.Intn(12))
		}
		return ListPtr(off, uint8(r.Intn(8)), n)
	case 2:
		seg := segids[r.Intn(len(segids))]
		if r.Intn(2) == 0 && nsegs > 0 {
			seg = uint32(r.Intn(nsegs))
		}
		wo := uint32(r.Intn(segWords + 2))
		if r.Intn(5) == 0 {
			wo = cnt29[r.Intn(len(cnt29))]
		}
		return FarPtr(seg, wo, r.Intn(3) == 0)
	case 3:
		return CapPtr(uint32(r.Intn(4)))
	case 4:
		return 3 | uint64(r.Intn(7)+1)<<2 | uint64(r.Intn(3))<<32 // other pointer, unknown type
	case 5:
		return r.U64()
	default:
		return 0
	}
}

// GenRaw: segments of random words, mostly pointer-shaped, first word a pointer.
func GenRaw(r *Rand) [][]byte {
	nsegs := 1 + r.Pick(6, 2, 1, 1)
	segs := make([][]byte, nsegs)
	for i := range segs {
		nw := r.Intn(10)
		if i == 0 && r.Intn(20) != 0 {
			nw = 1 + r.Intn(12)
		}
		ws := make([]uint64, nw)
		for j := range ws {
			switch r.Pick(5, 2, 2) {
			case 0:
				ws[j] = RandPtrWord(r, nsegs, nw)
			case 1:
				ws[j] = uint64(r.Intn(4))
			default:
				ws[j] = r.U64()
			}
		}
		segs[i] = Words(ws...)
		if r.Intn(15) == 0 && len(segs[i]) > 0 {
			segs[i] = segs[i][:len(segs[i])-1-r.Intn(7)%len(segs[i])] // not word aligned
		}
	}
	return segs
}

// ---------------------------------------------------------------- built with the library

type bld struct {
	r      *Rand
	msg    *capnp.Message
	seg    *capnp.Segment
	budget int
	ncaps  int
}

func (b *bld) pickSeg() *capnp.Segment {
	n := b.msg.NumSegments()
	if n > 1 && b.r.Intn(3) == 0 {
		if s, err := b.msg.Segment(capnp.SegmentID(b.r.Intn(int(n)))); err == nil {
			return s
		}
	}
	return b.seg
}

func (b *bld) fill(st capnp.Struct, depth int) {
	sz := st.Size()
	for o := 0; o < int(sz.DataSize); o++ {
		if b.r.Intn(3) != 0 {
			st.SetUint8(capnp.DataOffset(o), byte(b.r.U64()))
		}
	}
	for i := 0; i < int(sz.PointerCount); i++ {
		p := b.genPtr(depth - 1)
		if err := st.SetPtr(uint16(i), p); err != nil {
			panic(err)
		}
	}
}

func (b *bld) genStruct(depth int) capnp.Struct {
	sz := capnp.ObjectSize{DataSize: capnp.Size(8 * b.r.Pick(3, 4, 2, 1)), PointerCount: uint16(b.r.Pick(3, 4, 3, 1))}
	st, err := capnp.NewStruct(b.pickSeg(), sz)
	if err != nil {
		panic(err)
	}
	b.fill(st, depth)
	return st
}

func (b *bld) genPtr(depth int) capnp.Ptr {
	b.budget--
	if depth <= 0 || b.budget <= 0 {
		if b.r.Bool() {
			return capnp.Ptr{}
		}
		t, _ := capnp.NewText(b.pickSeg(), "x")
		return t.ToPtr()
	}
	r := b.r
	switch r.Pick(2, 5, 2, 2, 3, 1, 2, 3, 1, 1) {
	case 0:
		return capnp.Ptr{}
	case 1:
		return b.genStruct(depth).ToPtr()
	case 2:
		n := r.Intn(12)
		s := make([]byte, n)
		for i := range s {
			s[i] = byte(32 + r.Intn(90))
		}
		t, err := capnp.NewTextFromBytes(b.pickSeg(), s)
		if err != nil {
			panic(err)
		}
		return t.ToPtr()
	case 3:
		n := r.Intn(12)
		s := make([]byte, n)
		for i := range s {
			s[i] = byte(r.U64())
		}
		d, err := capnp.NewData(b.pickSeg(), s)
		if err != nil {
			panic(err)
		}
		return d.ToPtr()
	case 4: // primitive lists
		n := int32(r.Intn(7))
		switch r.Intn(3) {
		case 0:
			l, _ := capnp.NewUInt16List(b.pickSeg(), n)
			for i := 0; i < int(n); i++ {
				l.Set(i, uint16(r.U64()))
			}
			return l.ToPtr()
		case 1:
			l, _ := capnp.NewUInt32List(b.pickSeg(), n)
			for i := 0; i < int(n); i++ {
				l.Set(i, uint32(r.U64()))
			}
			return l.ToPtr()
		default:
			l, _ := capnp.NewUInt64List(b.pickSeg(), n)
			for i := 0; i < int(n); i++ {
				l.Set(i, r.U64())
			}
			return l.ToPtr()
		}
	case 5:
		return capnp.NewVoidList(b.pickSeg(), int32(r.Intn(5))).ToPtr()
	case 6:
		n := int32(r.Intn(20))
		l, err := capnp.NewBitList(b.pickSeg(), n)
		if err != nil {
			panic(err)
		}
		for i := 0; i < int(n); i++ {
			l.Set(i, r.Bool())
		}
		return l.ToPtr()
	case 7: // composite
		n := int32(r.Intn(4))
		sz := capnp.ObjectSize{DataSize: capnp.Size(8 * r.Pick(2, 4, 2)), PointerCount: uint16(r.Pick(3, 3, 1))}
		l, err := capnp.NewCompositeList(b.pickSeg(), sz, n)
		if err != nil {
			panic(err)
		}
		for i := 0; i < int(n); i++ {
			b.fill(l.Struct(i), depth)
		}
		return l.ToPtr()
	case 8: // pointer list
		n := int32(r.Intn(4))
		l, err := capnp.NewPointerList(b.pickSeg(), n)
		if err != nil {
			panic(err)
		}
		for i := 0; i < int(n); i++ {
			if err := l.Set(i, b.genPtr(depth-1)); err != nil {
				panic(err)
			}
		}
		return l.ToPtr()
	default:
		b.ncaps++
		return capnp.NewInterface(b.pickSeg(), capnp.CapabilityID(r.Intn(3))).ToPtr()
	}
}

// GenBuilt builds a random tree with the library's builder in an arena with the given
// pre-sized segment capacities (small capacities force far and double-far pointers).
func GenBuilt(r *Rand, depth, budget int) (segs [][]byte, ok bool) {
	defer func() {
		if e := recover(); e != nil {
			segs, ok = nil, false
		}
	}()
	var arena capnp.Arena
	switch r.Pick(2, 3, 1) {
	case 0:
		arena = capnp.SingleSegment(nil)
	case 1:
		n := 1 + r.Intn(6)
		bufs := make([][]byte, n)
		for i := range bufs {
			bufs[i] = make([]byte, 0, 8*(1+r.Intn(12)))
		}
		arena = capnp.MultiSegment(bufs)
	default:
		arena = capnp.MultiSegment(nil)
	}
	msg, seg, err := capnp.NewMessage(arena)
	if err != nil {
		return nil, false
	}
	b := &bld{r: r, msg: msg, seg: seg, budget: budget}
	root := b.genStruct(depth)
	if err := msg.SetRoot(root.ToPtr()); err != nil {
		return nil, false
	}
	n := msg.NumSegments()
	for i := int64(0); i < n; i++ {
		s, err := msg.Segment(capnp.SegmentID(i))
		if err != nil {
			return nil, false
		}
		segs = append(segs, append([]byte(nil), s.Data()...))
	}
	return segs, true
}

// Mutate applies a few byte/word level mutations.
func Mutate(r *Rand, segs [][]byte) [][]byte {
	out := make([][]byte, len(segs))
	for i, s := range segs {
		out[i] = append([]byte(nil), s...)
	}
	k := 1 + r.Intn(3)
	for ; k > 0; k-- {
		si := r.Intn(len(out))
		s := out[si]
		if len(s) == 0 {
			continue
		}
		switch r.Pick(3, 3, 3, 1, 1, 2) {
		case 0: // flip a bit
			j := r.Intn(len(s))
			s[j] ^= 1 << uint(r.Intn(8))
		case 1: // replace a word by a pointer-shaped word
			if len(s) >= 8 {
				j := r.Intn(len(s) / 8)
				binary.LittleEndian.PutUint64(s[8*j:], RandPtrWord(r, len(out), len(s)/8))
			}
		case 2: // tweak offset / size field of a word
			if len(s) >= 8 {
				j := r.Intn(len(s) / 8)
				w := binary.LittleEndian.Uint64(s[8*j:])
				switch r.Intn(4) {
				case 0:
					w += 4 // offset + 1
				case 1:
					w -= 4
				case 2:
					w += 1 << 35
				default:
					w ^= 1 << uint(32+r.Intn(32))
				}
				binary.LittleEndian.PutUint64(s[8*j:], w)
			}
		case 3: // truncate
			out[si] = s[:r.Intn(len(s))]
		case 4: // drop a segment
			if len(out) > 1 {
				out = append(out[:si], out[si+1:]...)
			}
		case 5: // copy a word elsewhere (aliasing / cycles)
			if len(s) >= 16 {
				a, b := r.Intn(len(s)/8), r.Intn(len(s)/8)
				copy(s[8*a:8*a+8], s[8*b:8*b+8])
			}
		}
	}
	return out
}

// Cyclic / deep templates: k selects the shape, n a parameter.
func GenCyclic(r *Rand) [][]byte {
	switch r.Intn(13) {
	case 11, 12: // far / double-far landing pad in the partial last word of a segment whose
		// length is not a multiple of 8 (caller-supplied arenas may have such segments)
		k := r.Intn(3)
		cut := 1 + r.Intn(7)
		seg1 := Words(make([]uint64, k+2)...)
		copy(seg1[8*k:], Words(StructPtr(0, 0, 0), StructPtr(-1, 0, 0)))
		seg1 = seg1[:8*k+cut+8*r.Intn(2)]
		root := FarPtr(1, uint32(k), r.Intn(3) == 0)
		if r.Bool() {
			return [][]byte{Words(StructPtr(0, 0, 1), root), seg1}
		}
		return [][]byte{Words(root), seg1}
	case 9, 10: // composite list whose tag claims more/less than the list pointer's word count,
		// placed at the very end of its segment (an over-claim reaches past the segment)
		ew := 1 + r.Intn(2) // element words (data)
		n := 1 + r.Intn(3)  // elements according to the tag
		delta := []int{-1, 0, 1, 1, 2}[r.Intn(5)]
		pw := n*ew - delta // words according to the list pointer
		if pw < 0 {
			pw = 0
		}
		ws := []uint64{ListPtr(0, 7, uint32(pw)), StructPtr(int32(n), uint16(ew), 0)}
		for k := 0; k < pw; k++ {
			ws = append(ws, 0x0101010101010101*uint64(k+1))
		}
		if r.Intn(4) == 0 {
			ws = append(ws, 0xeeeeeeeeeeeeeeee) // not at the end: the over-claim stays inside
		}
		if r.Bool() { // same list behind a struct root
			ws = append([]uint64{StructPtr(0, 0, 1)}, ws...)
		}
		return [][]byte{Words(ws...)}
	case 6: // large bit list (indices beyond 1<<22)
		n := uint32(1<<22 + r.Intn(4096))
		seg := make([]byte, 8+(n+7)/8+uint32(r.Intn(16)))
		copy(seg, Words(ListPtr(0, 1, n)))
		for k := 0; k < 64; k++ {
			seg[8+r.Intn(len(seg)-8)] = byte(r.U64())
		}
		seg[len(seg)-1-r.Intn(8)] = 0xff
		return [][]byte{seg}
	case 7: // composite list, zero-sized elements, count field negative / huge
		cnt := []int32{-1, -5, -(1 << 29), 1<<29 - 1, 1 << 28}[r.Intn(5)]
		return [][]byte{Words(ListPtr(0, 7, uint32(r.Intn(2))), StructPtr(cnt, uint16(r.Intn(2)*r.Intn(2)), 0), 0)}
	case 8: // pointer list read through a struct-list upgrade with a data section
		return [][]byte{Words(ListPtr(0, 7, 4), StructPtr(2, 1, 1), 0x1111, StructPtr(0, 1, 0), 0x2222, 0, 0x42)}
	case 0: // struct pointing to itself
		return [][]byte{Words(StructPtr(0, 0, 1), StructPtr(-1, 0, 1))}
	case 1: // pointer list pointing to itself
		return [][]byte{Words(ListPtr(0, 6, 1), ListPtr(-1, 6, 1))}
	case 2: // composite list whose element points back to the list
		return [][]byte{Words(ListPtr(0, 7, 1), StructPtr(1, 0, 1), ListPtr(-2, 7, 1))}
	case 3: // struct -> composite list (2 elems, each pointing at the list pointer's struct)
		return [][]byte{Words(StructPtr(0, 0, 1), ListPtr(0, 7, 2), StructPtr(2, 0, 1), StructPtr(-3, 0, 1), StructPtr(-4, 0, 1))}
	case 4: // cycle through a far pointer
		return [][]byte{Words(FarPtr(1, 0, false)), Words(StructPtr(0, 0, 1), FarPtr(1, 0, false))}
	default: // amplification: list of 2^k zero-sized / tiny elements
		return [][]byte{Words(ListPtr(0, uint8(r.Intn(2)), cnt29[r.Intn(len(cnt29))]), 0, 0)}
	}
}
