// Command c01: read-side correspondence (properties C01, C02, C03): messages built by the
// library in small arenas, raw pointer-shaped segments, mutations and cyclic templates,
// each exercised by an adaptively generated op list and by the generic walker.
package main

import (
	"fmt"
	"strings"

	. "verifh/hc"
	"verifh/rd"
)

func main() { Main(run) }

var limitsT = []uint64{0, 0, 0, 8, 16, 64, 200, 1024, 1 << 20, 1<<32 - 8, 1 << 40}
var limitsD = []uint{0, 0, 0, 1, 2, 3, 4, 5, 6, 7, 8, 63, 64, 65, 70}

type pinfo struct {
	kind      int // -1 null
	n         int64
	dsz, pc   int
	comp, bit bool
}

func parseP(s string) pinfo {
	if !strings.HasPrefix(s, "P(") {
		return pinfo{kind: -1}
	}
	var seg, off, ln, dsz, pc int64
	var depth uint64
	var kind, comp, bit, mem int
	fmt.Sscanf(s, "P(%d,%d,%d,%d,%d,%d,%d,%d,%d,%d)", &seg, &off, &ln, &dsz, &pc, &depth, &kind, &comp, &bit, &mem)
	return pinfo{kind: kind, n: ln, dsz: int(dsz), pc: int(pc), comp: comp == 1, bit: bit == 1}
}

// genOps runs an adaptive op list against the implementation and returns ops + observations.
func genOps(r *Rand, m *rd.Msg, nops int) (string, string) {
	s := &rd.Session{M: m.Build()}
	var ops, obs []string
	var infos []pinfo
	do := func(op string) string {
		res := s.Do(op)
		ops = append(ops, op)
		obs = append(obs, res)
		return res
	}
	doPtr := func(op string) {
		res := do(op)
		infos = append(infos, parseP(res))
	}
	doPtr("root")
	for k := 0; k < nops; k++ {
		if k > 0 && r.Intn(14) == 0 {
			// the message value is reused: Reset to the same bytes, all handles gone, budget re-armed
			do("reset")
			infos = nil
			doPtr("root")
			continue
		}
		if r.Intn(25) == 0 {
			// the application-controlled budget API: handles stay valid, the budget is set / raised
			if r.Intn(2) == 0 {
				do(fmt.Sprintf("setlimit:%d", []uint64{0, 8, 64, 1000, 1 << 20, 1 << 40}[r.Intn(6)]))
			} else {
				do(fmt.Sprintf("unread:%d", []uint64{0, 8, 24, 4096, 1<<32 - 8}[r.Intn(5)]))
			}
			continue
		}
		h := r.Intn(len(infos))
		if r.Intn(3) != 0 { // prefer recent handles: go deep
			h = len(infos) - 1 - r.Intn(min(len(infos), 3))
		}
		pi := infos[h]
		switch pi.kind {
		case 0:
			switch r.Pick(5, 1, 3, 1, 1) {
			case 0:
				doPtr(fmt.Sprintf("sptr:%d:%d", h, r.Intn(pi.pc+2)))
			case 1:
				do(fmt.Sprintf("hasptr:%d:%d", h, r.Intn(pi.pc+2)))
			case 2:
				w := []int{1, 2, 4, 8}[r.Intn(4)]
				off := r.Intn(pi.dsz + 9)
				if r.Intn(20) == 0 {
					off = []int{1<<19 - 1, 1<<19 - 8, 1<<19 - 4, 1 << 18}[r.Intn(4)] // DataOffset is documented as bounded to [0, 1<<19)
				}
				do(fmt.Sprintf("uint:%d:%d:%d", h, off, w))
			case 3:
				n := r.Intn(8*pi.dsz + 9)
				do(fmt.Sprintf("bit:%d:%d", h, n))
			default:
				do(walkOp(r, h))
			}
		case 1:
			if pi.n <= 0 {
				do(fmt.Sprintf("info:%d", h))
				do(fmt.Sprintf("text:%d", h))
				continue
			}
			i := int64(r.Intn(int(min64(pi.n, 1<<30))))
			if r.Intn(3) == 0 {
				i = pi.n - 1
			}
			switch r.Pick(4, 4, 3, 2, 1, 1, 1) {
			case 0:
				doPtr(fmt.Sprintf("lstruct:%d:%d", h, i))
			case 1:
				doPtr(fmt.Sprintf("plat:%d:%d", h, i))
			case 2:
				do(fmt.Sprintf("uintat:%d:%d:%d", h, i, []int{1, 2, 4, 8}[r.Intn(4)]))
			case 3:
				do(fmt.Sprintf("bitat:%d:%d", h, i))
			case 4:
				do(fmt.Sprintf("text:%d", h))
			case 5:
				do(fmt.Sprintf("data:%d", h))
			default:
				do(walkOp(r, h))
			}
		default:
			switch r.Intn(4) {
			case 0:
				doPtr("root")
			case 1:
				do(fmt.Sprintf("text:%d", h))
			case 2:
				do("rlimit")
			default:
				do(fmt.Sprintf("info:%d", h))
			}
		}
		if r.Intn(6) == 0 {
			do("rlimit")
		}
	}
	do("rlimit")
	do(walkOp(r, 0))
	do("rlimit")
	return strings.Join(ops, ";"), strings.Join(obs, ";")
}

// walkOp picks walker caps whose product bounds the output (pcap^fuel nodes).
func walkOp(r *Rand, h int) string {
	c := [][3]int{{64, 2, 11}, {4096, 16, 3}, {64, 4, 6}, {16, 1, 80}, {8, 3, 7}, {512, 8, 4}}[r.Intn(6)]
	return fmt.Sprintf("walk:%d:%d:%d:%d", h, c[0], c[1], c[2])
}

func min(a, b int) int {
	if a < b {
		return a
	}
	return b
}
func min64(a, b int64) int64 {
	if a < b {
		return a
	}
	return b
}

func classOf(obs string) string {
	switch {
	case strings.Contains(obs, "panic") || strings.Contains(obs, "!"):
		return "panic"
	case strings.HasPrefix(obs, "err"):
		return "root-err"
	case strings.Contains(obs, "err") || strings.Contains(obs, "E"):
		return "some-err"
	}
	return "clean"
}

func run(out *Out, r *Rand, tier string, replay []string) {
	if replay != nil {
		for _, l := range replay {
			f := strings.Fields(l)
			if f[0] == "exhaust" {
				var g, k, rounds int
				fmt.Sscanf(f[1], "%d:%d:%d", &g, &k, &rounds)
				obs := rd.ExhaustCase(rd.ParseHeader(f[2:]), g, k, rounds)
				if strings.HasPrefix(obs, "ok") {
					obs = "ok"
				}
				out.Case("exhaust", l, obs, obs, true)
				continue
			}
			if f[0] == "reuse" {
				var k int
				fmt.Sscanf(f[1], "%d", &k)
				obs := rd.ReuseCase(rd.ParseHeader(f[2:]), k)
				if strings.HasPrefix(obs, "ok") {
					obs = "ok"
				}
				out.Case("reuse", l, obs, obs, true)
				continue
			}
			if f[0] == "conc" {
				var k, dc, pc, fu int
				fmt.Sscanf(f[1], "%d:%d:%d:%d", &k, &dc, &pc, &fu)
				obs := rd.ConcCase(rd.ParseHeader(f[2:]), k, dc, pc, fu)
				out.Case("conc", l, obs, classOf(obs), true)
				continue
			}
			obs := rd.RunCase(l)
			out.Case(f[0], l, obs, classOf(obs), true)
		}
		out.Close("replay")
		return
	}
	n := 2500
	if tier == "thorough" {
		n = 60000
	}
	skipped := 0
	emit := func(kind string, segs [][]byte) {
		m := &rd.Msg{Segs: segs, T: limitsT[r.Intn(len(limitsT))], D: limitsD[r.Intn(len(limitsD))], Arena: "M"}
		if len(segs) == 1 && r.Bool() {
			m.Arena = "S"
		}
		ops, obs := genOps(r, m, 4+r.Intn(40))
		line := m.Header() + " " + ops
		if len(obs) > 200000 || len(line) > 300000 {
			skipped++
			return
		}
		out.Case(kind, line, obs, classOf(obs), strings.Count(obs, "P(") >= 2)
	}
	for i := 0; i < n; i++ {
		switch r.Pick(10, 6, 8, 4) {
		case 0:
			if segs, ok := rd.GenBuilt(r, 2+r.Intn(5), 10+r.Intn(60)); ok {
				emit("built", segs)
			}
		case 1:
			emit("raw", rd.GenRaw(r))
		case 2:
			if segs, ok := rd.GenBuilt(r, 2+r.Intn(4), 10+r.Intn(40)); ok {
				emit("mutated", rd.Mutate(r, segs))
			}
		default:
			emit("cyclic", rd.GenCyclic(r))
		}
	}
	// concurrent readers: accounting invariants (depends on the schedule, so the observation is
	// the verdict of the invariant check, which the model side states as "ok" by theorem)
	nconc := n / 10
	for i := 0; i < nconc; i++ {
		segs, ok := rd.GenBuilt(r, 3+r.Intn(4), 20+r.Intn(60))
		if !ok {
			continue
		}
		if r.Intn(3) == 0 {
			segs = rd.Mutate(r, segs)
		}
		m := &rd.Msg{Segs: segs, T: []uint64{0, 64, 200, 1000, 5000, 1 << 20}[r.Intn(6)], D: 0, Arena: "M"}
		k := 2 + r.Intn(7)
		line := fmt.Sprintf("conc %d:%d:%d:%d %s", k, 64, 4, 8, m.Header())
		obs := rd.ConcCase(m, k, 64, 4, 8)
		if strings.HasPrefix(obs, "ok") {
			obs = "ok"
		}
		out.Case("conc", line, obs, obs, true)
	}
	// budget exhaustion under contention: exactly k of the attempted root dereferences succeed
	nex := 6
	rounds := 300
	if tier == "thorough" {
		nex, rounds = 20, 3000
	}
	for i := 0; i < nex; i++ {
		m := &rd.Msg{Segs: [][]byte{rd.Words(rd.StructPtr(0, uint16(1+r.Intn(3)), uint16(r.Intn(2))), 1, 2, 3, 4)}, Arena: "S"}
		g, k := 4+r.Intn(13), 1+r.Intn(40)
		line := fmt.Sprintf("exhaust %d:%d:%d %s", g, k, rounds, m.Header())
		obs := rd.ExhaustCase(m, g, k, rounds)
		if strings.HasPrefix(obs, "ok") {
			obs = "ok"
		}
		out.Case("exhaust", line, obs, obs, true)
	}
	// reused messages (Message.Reset, Decoder.ReuseBuffer): the configured limit is re-armed
	for i := 0; i < 12; i++ {
		m := &rd.Msg{Segs: [][]byte{rd.Words(rd.StructPtr(0, uint16(1+r.Intn(3)), uint16(r.Intn(2))), 1, 2, 3, 4)}, Arena: []string{"S", "M"}[r.Intn(2)]}
		k := 1 + r.Intn(40)
		line := fmt.Sprintf("reuse %d %s", k, m.Header())
		obs := rd.ReuseCase(m, k)
		if strings.HasPrefix(obs, "ok") {
			obs = "ok"
		}
		out.Case("reuse", line, obs, obs, true)
	}
	// large bit lists: elements at and beyond index 1<<22 (byte offset 1<<19, where the struct
	// data-offset bound of address.addOffset must not apply), first/last elements, out of range
	runOps := func(kind string, m *rd.Msg, ops []string) {
		s := &rd.Session{M: m.Build()}
		var obs []string
		for _, op := range ops {
			obs = append(obs, s.Do(op))
		}
		o := strings.Join(obs, ";")
		out.Case(kind, m.Header()+" "+strings.Join(ops, ";"), o, classOf(o), true)
	}
	for _, n := range []uint32{1<<22 - 1, 1 << 22, 1<<22 + 1, 1<<22 + 9, 1<<22 + 4095} {
		seg := make([]byte, 8+(n+7)/8)
		copy(seg, rd.Words(rd.ListPtr(0, 1, n)))
		for k := 0; k < 256; k++ {
			seg[8+r.Intn(len(seg)-8)] = byte(r.U64())
		}
		seg[8+(1<<19)-1] |= 0x80 // element 1<<22 - 1
		if len(seg) > 8+(1<<19) {
			seg[8+(1<<19)] |= 0x01 // element 1<<22
		}
		seg[len(seg)-1] = 0xff
		for len(seg)%8 != 0 {
			seg = append(seg, 0)
		}
		ops := []string{"root"}
		for _, i := range []int64{0, 1, 1<<22 - 2, 1<<22 - 1, 1 << 22, 1<<22 + 1, 1<<22 + 8, int64(n) - 2, int64(n) - 1, int64(r.Intn(int(n)))} {
			if i >= 0 && i < int64(n) {
				ops = append(ops, fmt.Sprintf("bitat:0:%d", i))
			}
		}
		ops = append(ops, "rlimit", "info:0")
		runOps("bigbits", &rd.Msg{Segs: [][]byte{seg}, T: 0, D: 0, Arena: "S"}, ops)
	}
	// degenerate arenas
	for _, segs := range [][][]byte{{}, {{}}, {{1, 2, 3}}, {rd.Words(0)}, {{}, rd.Words(0)}} {
		emit("degenerate", segs)
	}
	out.Extra["x_skipped_oversized"] = skipped
	out.Close("messages: built by the library in pre-sized multi/single segment arenas (near/far/double-far), raw pointer-shaped words over a boundary alphabet, mutations of built messages, cyclic/amplification templates; limits T,D from boundary sets; ops chosen adaptively over the handle pool + generic walk. non-trivial = at least two pointers were successfully obtained")
}
