package main

// The implementation side of one history: an rpc.Conn on an in-memory transport, three
// instrumented local servers, the local application's handles and calls.  Everything runs
// inside one testing/synctest bubble; after every event the bubble is run to quiescence.

import (
	"context"
	"errors"
	"fmt"
	"strconv"
	"strings"
	"sync"
	"testing/synctest"

	capnp "capnproto.org/go/capnp/v3"
	"capnproto.org/go/capnp/v3/rpc"
	"capnproto.org/go/capnp/v3/server"
	rpccp "capnproto.org/go/capnp/v3/std/capnp/rpc"
)

const nsrv = 3

// ---------------------------------------------------------------- transport

type xport struct {
	mu        sync.Mutex
	toPeer    [][]byte
	in        chan []byte
	closed    chan struct{}
	once      sync.Once
	receiving bool // the receive loop is waiting in RecvMessage
	dirty     int  // received messages released with a populated CapTable

	// window control: the next outgoing message of kind holdKind ('c' Call, 'r' Return, 'l' Release) stays inside
	// send() until release is closed (a slow / back-pressured write)
	holdKind byte
	release  chan struct{}
	failKind byte // fault injection: the next outgoing message of this kind ('f' Finish, ...) is not written, send fails
}

func newXport() *xport {
	return &xport{in: make(chan []byte, 64), closed: make(chan struct{})}
}

func (x *xport) NewMessage(ctx context.Context) (rpccp.Message, func() error, capnp.ReleaseFunc, error) {
	msg, seg, err := capnp.NewMessage(capnp.MultiSegment(nil))
	if err != nil {
		return rpccp.Message{}, nil, nil, err
	}
	m, err := rpccp.NewRootMessage(seg)
	if err != nil {
		return rpccp.Message{}, nil, nil, err
	}
	send := func() error {
		select {
		case <-x.closed:
			return errors.New("transport closed")
		default:
		}
		b, err := msg.Marshal()
		if err != nil {
			return err
		}
		x.mu.Lock()
		if (x.failKind == 'f' && m.Which() == rpccp.Message_Which_finish) || (x.failKind == 'c' && m.Which() == rpccp.Message_Which_call) ||
			(x.failKind == 'r' && m.Which() == rpccp.Message_Which_return) || (x.failKind == 'l' && m.Which() == rpccp.Message_Which_release) {
			x.failKind = 0
			x.mu.Unlock()
			return errors.New("injected write failure")
		}
		var wait chan struct{}
		if (x.holdKind == 'c' && m.Which() == rpccp.Message_Which_call) || (x.holdKind == 'r' && m.Which() == rpccp.Message_Which_return) ||
			(x.holdKind == 'l' && m.Which() == rpccp.Message_Which_release) {
			wait = x.release
			x.holdKind = 0
		}
		x.mu.Unlock()
		if wait != nil {
			<-wait
		}
		x.mu.Lock()
		x.toPeer = append(x.toPeer, b)
		x.mu.Unlock()
		return nil
	}
	return m, send, func() {}, nil
}

func (x *xport) RecvMessage(ctx context.Context) (rpccp.Message, capnp.ReleaseFunc, error) {
	x.mu.Lock()
	x.receiving = true
	x.mu.Unlock()
	select {
	case b := <-x.in:
		x.mu.Lock()
		x.receiving = false
		x.mu.Unlock()
		msg, err := capnp.Unmarshal(b)
		if err != nil {
			return rpccp.Message{}, nil, err
		}
		m, err := rpccp.ReadRootMessage(msg)
		if err != nil {
			return rpccp.Message{}, nil, err
		}
		return m, func() {
			if msg.CapTable != nil {
				x.mu.Lock()
				x.dirty++
				x.mu.Unlock()
			}
		}, nil
	case <-x.closed:
		return rpccp.Message{}, nil, errors.New("transport closed")
	case <-ctx.Done():
		return rpccp.Message{}, nil, ctx.Err()
	}
}

func (x *xport) Close() error {
	x.once.Do(func() { close(x.closed) })
	return nil
}

func (x *xport) drain() [][]byte {
	x.mu.Lock()
	defer x.mu.Unlock()
	r := x.toPeer
	x.toPeer = nil
	return r
}

// ---------------------------------------------------------------- world

type plan struct {
	kind   byte     // e, 0, s
	fields []string // n, o, l<j>
}

type pend struct {
	ch  chan plan
	ctx context.Context // cancelled for calls of the connection once it shuts down
}

type appCall struct {
	n      int
	q      int // question id once the Call has been seen by the peer; -1 before
	cancel context.CancelFunc
	ans    *capnp.Answer
	hold   chan struct{}
	held   bool
}

type world struct {
	x    *xport
	conn *rpc.Conn

	open      map[int]bool        // wire oracle: question ids the peer holds as unfinished answers (Call/Bootstrap seen, no Finish yet)
	reuse     bool                // a Call/Bootstrap reused such an id
	oracle    bool                // the peer of this history keeps to the protocol (streams v, x): reuse is a violation
	placeHold chan struct{}       // non-nil: the next PlaceArgs callback waits until it is closed (window "p")
	ackHold   [nsrv]chan struct{} // non-nil: deliveries to server j wait at its gate (are not acknowledged) until it is closed

	mu        sync.Mutex
	master    [nsrv]*capnp.Client
	shutCount [nsrv]int
	pending   map[int]*pend
	ndeliv    int
	deliv     []string
	handles   []*capnp.Client
	issue     map[int]chan func() // per handle: calls are issued one after the other, as one goroutine would
	calls     []*appCall
	appres    []string
	closed    bool
}

type shutdowner struct {
	w *world
	j int
}

func (s shutdowner) Shutdown() {
	s.w.mu.Lock()
	s.w.shutCount[s.j]++
	s.w.mu.Unlock()
}

// gate stands in front of local server j: calls received for it are handed on strictly in the
// order of their arrival, one at a time (the next one after the previous one was acknowledged).
// server.Server alone admits waiting calls in whatever order its "starting" channel wakes them,
// which hides a call that overtakes inside the answer queue; the gate makes the order of arrival
// at the capability the order its implementation sees.  With ackHold armed an arriving call waits
// here, unacknowledged, until the window is closed.
type gate struct {
	w     *world
	j     int
	inner *capnp.Client

	mu   sync.Mutex
	tail chan struct{}
}

func (g *gate) Send(ctx context.Context, s capnp.Send) (*capnp.Answer, capnp.ReleaseFunc) {
	return g.inner.SendCall(ctx, s)
}

func (g *gate) Recv(ctx context.Context, r capnp.Recv) capnp.PipelineCaller {
	mine := make(chan struct{})
	g.mu.Lock()
	prev := g.tail
	g.tail = mine
	g.mu.Unlock()
	g.w.mu.Lock()
	hold := g.w.ackHold[g.j]
	g.w.mu.Unlock()
	if prev != nil {
		<-prev
	}
	if hold != nil {
		<-hold
	}
	pc := g.inner.RecvCall(ctx, r)
	close(mine)
	return pc
}

func (g *gate) Brand() capnp.Brand { return g.inner.State().Brand }

func (g *gate) Shutdown() { g.inner.Release() }

func newWorld(boot bool) *world {
	w := &world{x: newXport(), pending: map[int]*pend{}, issue: map[int]chan func(){}, open: map[int]bool{}}
	for j := 0; j < nsrv; j++ {
		j := j
		srv := server.New([]server.Method{{
			Method: capnp.Method{InterfaceID: ifaceID, MethodID: methodID},
			Impl:   w.impl(j),
		}}, nil, shutdowner{w, j}, &server.Policy{MaxConcurrentCalls: 512, AnswerQueueSize: 512})
		w.master[j] = capnp.NewClient(&gate{w: w, j: j, inner: capnp.NewClient(srv)})
	}
	opts := &rpc.Options{}
	if boot {
		opts.BootstrapClient = w.master[0].AddRef()
	}
	w.conn = rpc.NewConn(w.x, opts)
	return w
}

func (w *world) impl(j int) func(context.Context, *server.Call) error {
	return func(ctx context.Context, call *server.Call) error {
		tag := call.Args().Uint32(0)
		p := &pend{ch: make(chan plan, 1), ctx: ctx}
		w.mu.Lock()
		k := w.ndeliv
		w.ndeliv++
		w.pending[k] = p
		w.deliv = append(w.deliv, fmt.Sprintf("d%d:%d:%d", j, tag, k))
		w.mu.Unlock()
		call.Ack()
		pl := <-p.ch
		switch pl.kind {
		case 'e':
			return errors.New("application exception")
		case '0':
			return nil
		}
		res, err := call.AllocResults(capnp.ObjectSize{PointerCount: uint16(len(pl.fields))})
		if err != nil {
			return err
		}
		for i, f := range pl.fields {
			switch f[0] {
			case 'l':
				sj, _ := strconv.Atoi(f[1:])
				id := res.Message().AddCap(w.master[sj%nsrv].AddRef())
				if err := res.SetPtr(uint16(i), capnp.NewInterface(res.Segment(), id).ToPtr()); err != nil {
					return err
				}
			case 'o':
				e, err := capnp.NewStruct(res.Segment(), capnp.ObjectSize{DataSize: 8})
				if err != nil {
					return err
				}
				if err := res.SetPtr(uint16(i), e.ToPtr()); err != nil {
					return err
				}
			}
		}
		return nil
	}
}

// settle runs the bubble to quiescence.  When the connection is shutting down it waits for the
// local calls: they return (as an application that honours cancellation would) and held
// PlaceArgs callbacks are let go.
func (w *world) settle() {
	synctest.Wait()
	for i := 0; i < 8; i++ {
		v := w.conn.VerifView()
		if !(v.MuFree && v.ShuttingDown && !v.Shut) {
			return
		}
		w.mu.Lock()
		for k, p := range w.pending {
			// calls that reached a server without the connection (resolved handles) are not its business
			if p.ctx.Err() != nil {
				p.ch <- plan{kind: 'e'}
				delete(w.pending, k)
			}
		}
		for _, c := range w.calls {
			if c.held {
				c.held = false
				close(c.hold)
			}
		}
		w.mu.Unlock()
		synctest.Wait()
	}
}

func (w *world) handle(h int) *capnp.Client {
	if h < 0 || h >= len(w.handles) {
		return nil
	}
	return w.handles[h]
}

func errClass(err error) int {
	switch {
	case err == nil:
		return 0
	case errors.Is(err, context.Canceled) || strings.Contains(err.Error(), "context canceled"):
		return 2
	}
	return 1
}

func (w *world) placeArgs(caps []string, tag uint32, hold chan struct{}) func(capnp.Struct) error {
	return func(s capnp.Struct) error {
		if hold != nil {
			<-hold
		}
		w.mu.Lock()
		ph := w.placeHold
		w.placeHold = nil
		w.mu.Unlock()
		if ph != nil {
			<-ph // window "p": the application is still building its parameters
		}
		s.SetUint32(0, tag)
		for i, c := range caps {
			var cl *capnp.Client
			switch c[0] {
			case 'l':
				j, _ := strconv.Atoi(c[1:])
				cl = w.master[j%nsrv].AddRef()
			case 'h':
				h, _ := strconv.Atoi(c[1:])
				w.mu.Lock()
				hc := w.handle(h)
				w.mu.Unlock()
				if hc != nil && hc.IsValid() {
					cl = hc.AddRef()
				}
			}
			id := s.Message().AddCap(cl) // a nil client is the descriptor "none"
			if err := s.SetPtr(uint16(i), capnp.NewInterface(s.Segment(), id).ToPtr()); err != nil {
				return err
			}
		}
		return nil
	}
}

func (w *world) finishCall(ac *appCall, ans *capnp.Answer, rel capnp.ReleaseFunc) {
	w.mu.Lock()
	ac.ans = ans
	w.mu.Unlock()
	_, err := ans.Struct()
	w.mu.Lock()
	w.appres = append(w.appres, fmt.Sprintf("a%d:%d", ac.n, errClass(err)))
	w.mu.Unlock()
	rel()
}

func (w *world) newCall() (*appCall, context.Context) {
	ctx, cancel := context.WithCancel(context.Background())
	ac := &appCall{n: len(w.calls), q: -1, cancel: cancel}
	w.calls = append(w.calls, ac)
	return ac, ctx
}

var method = capnp.Method{InterfaceID: ifaceID, MethodID: methodID}

// doApp performs one application event (token without the leading letter already split).
func (w *world) doApp(tok string) {
	a := strings.Split(tok[1:], ",")
	atoi := func(s string) int { n, _ := strconv.Atoi(s); return n }
	switch tok[0] {
	case 'b':
		c := w.conn.Bootstrap(context.Background())
		w.mu.Lock()
		w.handles = append(w.handles, c)
		w.mu.Unlock()
	case 'c', 'h':
		w.mu.Lock()
		ac, ctx := w.newCall()
		cl := w.handle(atoi(a[0]))
		var caps []string
		tag := uint32(0)
		if tok[0] == 'c' {
			caps = undot(a[1])
			tag = uint32(atoi(a[2]))
		} else {
			ac.hold = make(chan struct{})
			ac.held = true
		}
		w.mu.Unlock()
		h := atoi(a[0])
		w.mu.Lock()
		q := w.issue[h]
		if q == nil {
			q = make(chan func(), 256)
			w.issue[h] = q
			go func() {
				for f := range q {
					f()
				}
			}()
		}
		w.mu.Unlock()
		do := func() {
			ans, rel := cl.SendCall(ctx, capnp.Send{Method: method,
				ArgsSize:  capnp.ObjectSize{DataSize: 8, PointerCount: uint16(len(caps))},
				PlaceArgs: w.placeArgs(caps, tag, ac.hold)})
			go w.finishCall(ac, ans, rel)
		}
		if ac.hold != nil {
			go do() // a held call blocks inside SendCall; it must not hold up the handle's later calls
		} else {
			q <- do
		}
	case 'p':
		w.mu.Lock()
		ac, ctx := w.newCall()
		var tgt *capnp.Answer
		for _, c := range w.calls {
			if c.q == atoi(a[0]) && c.ans != nil && c != ac {
				tgt = c.ans
			}
		}
		w.mu.Unlock()
		if tgt == nil {
			w.mu.Lock()
			w.appres = append(w.appres, fmt.Sprintf("a%d:1", ac.n))
			w.mu.Unlock()
			return
		}
		var xf []capnp.PipelineOp
		for _, f := range undot(a[1]) {
			xf = append(xf, capnp.PipelineOp{Field: uint16(atoi(f))})
		}
		caps := undot(a[2])
		tag := uint32(atoi(a[3]))
		go func() {
			ans, rel := tgt.PipelineSend(ctx, xf, capnp.Send{Method: method,
				ArgsSize:  capnp.ObjectSize{DataSize: 8, PointerCount: uint16(len(caps))},
				PlaceArgs: w.placeArgs(caps, tag, nil)})
			w.finishCall(ac, ans, rel)
		}()
	case 'r':
		k := atoi(a[0])
		pl := plan{kind: a[1][0]}
		if pl.kind == 's' {
			pl.fields = undot(a[1][2:])
		}
		w.mu.Lock()
		p := w.pending[k]
		delete(w.pending, k)
		w.mu.Unlock()
		if p != nil {
			p.ch <- pl
		}
	case 'l':
		w.mu.Lock()
		c := w.handle(atoi(a[0]))
		q := w.issue[atoi(a[0])]
		w.mu.Unlock()
		if c != nil {
			if q != nil {
				// after the calls already made on this handle (one sequential user per handle)
				q <- func() { go c.Release() }
			} else {
				go c.Release()
			}
		}
	case 'x':
		w.mu.Lock()
		for _, c := range w.calls {
			if c.q == atoi(a[0]) && !c.held {
				c.cancel()
			}
		}
		w.mu.Unlock()
	case 'u':
		w.mu.Lock()
		n := atoi(a[0])
		if n >= 0 && n < len(w.calls) && w.calls[n].held {
			w.calls[n].held = false
			close(w.calls[n].hold)
		}
		w.mu.Unlock()
	case 'z':
		w.mu.Lock()
		done := w.closed
		w.closed = true
		w.mu.Unlock()
		if !done {
			go w.conn.Close()
		}
	}
}

// observe collects what became visible since the last call.
func (w *world) observe() (msgs []string, obs string) {
	for _, b := range w.x.drain() {
		m, ok := readMsg(b)
		if !ok {
			msgs = append(msgs, "?unreadable")
			continue
		}
		msgs = append(msgs, absOutput(m))
	}
	w.mu.Lock()
	deliv := strings.Join(w.deliv, "+")
	w.deliv = nil
	apps := sortedJoin(w.appres)
	w.appres = nil
	// wire oracle for "a question id is not reused before its Finish is sent", in wire order
	for _, m := range msgs {
		if len(m) > 1 && (m[0] == 'B' || m[0] == 'C' || m[0] == 'F') && m[1] >= '0' && m[1] <= '9' {
			q, _ := strconv.Atoi(strings.SplitN(m[1:], ",", 2)[0])
			switch m[0] {
			case 'F':
				delete(w.open, q)
			default:
				if w.open[q] {
					w.reuse = true
				}
				w.open[q] = true
			}
		}
	}
	// a Call seen by the peer belongs to the newest local call that has no question yet
	for _, m := range msgs {
		if strings.HasPrefix(m, "C") {
			q, _ := strconv.Atoi(strings.SplitN(m[1:], ",", 2)[0])
			for _, c := range w.calls {
				if c.q == q {
					c.q = -2 // the id has been reused
				}
			}
			for i := len(w.calls) - 1; i >= 0; i-- {
				if w.calls[i].q == -1 && !w.calls[i].held {
					w.calls[i].q = q
					break
				}
			}
		}
	}
	w.mu.Unlock()
	v := w.conn.VerifView()
	view := "v?"
	if v.MuFree {
		sh := 0
		if v.ShuttingDown {
			sh = 1
		}
		view = fmt.Sprintf("v%d,%d,%d,%d,%d,%d,%d", sh, v.Questions, v.Answers, v.Exports, v.WireRefs, v.Imports, v.Embargoes)
	}
	if w.reuse && w.oracle {
		view += ",REUSE"
	}
	return msgs, sortedJoin(msgs) + "~" + deliv + "~" + apps + "~" + view
}

// stuck reports a receive loop that is inside a handler at quiescence, or has left a message
// of the peer unread although the connection is up.
func (w *world) stuck() bool {
	v := w.conn.VerifView()
	if !v.MuFree {
		return true
	}
	if v.ShuttingDown {
		return false
	}
	if v.SenderLocked {
		return true // nobody is running, yet the sender lock is taken: every later sender blocks
	}
	w.x.mu.Lock()
	defer w.x.mu.Unlock()
	return !w.x.receiving || len(w.x.in) > 0
}

// finish releases what the application and the harness still hold and closes the connection;
// the observation is the Shutdown count of every local server (1 = released exactly once).
func (w *world) finish() string {
	w.mu.Lock()
	hs := append([]*capnp.Client(nil), w.handles...)
	w.mu.Unlock()
	for _, c := range hs {
		if c != nil {
			go c.Release()
			w.settle()
		}
	}
	w.doApp("z")
	w.settle()
	// calls that reached a local server without the connection (resolved handles) return now
	w.mu.Lock()
	for k, p := range w.pending {
		p.ch <- plan{kind: 'e'}
		delete(w.pending, k)
	}
	w.mu.Unlock()
	synctest.Wait()
	for _, c := range w.calls {
		c.cancel()
	}
	w.mu.Lock()
	for _, q := range w.issue {
		close(q)
	}
	w.mu.Unlock()
	for j := range w.master {
		w.master[j].Release()
	}
	synctest.Wait()
	w.mu.Lock()
	defer w.mu.Unlock()
	s := "end:"
	for j := range w.shutCount {
		c := w.shutCount[j]
		switch {
		case c == 1:
			s += "1"
		case c == 0:
			s += "0"
		default:
			s += "2"
		}
	}
	w.x.mu.Lock()
	s += fmt.Sprintf(",d%d", w.x.dirty)
	w.x.mu.Unlock()
	return s
}

// openWindow arms the interleaving control of a composite event: hold is "c" / "r" / "l" (the next
// Call / Return / Release stays inside the transport's send), "p" (the next local call stays inside its
// PlaceArgs callback: question allocated, nothing sent, locks dropped) or "a<j>" (server j withholds its acks).
func (w *world) openWindow(hold string) func() {
	switch hold[0] {
	case 'c', 'r', 'l':
		ch := make(chan struct{})
		w.x.mu.Lock()
		w.x.holdKind = hold[0]
		w.x.release = ch
		w.x.mu.Unlock()
		return func() {
			w.x.mu.Lock()
			w.x.holdKind = 0
			w.x.mu.Unlock()
			close(ch)
		}
	case 'p':
		ch := make(chan struct{})
		w.mu.Lock()
		w.placeHold = ch
		w.mu.Unlock()
		return func() {
			w.mu.Lock()
			w.placeHold = nil
			w.mu.Unlock()
			close(ch)
		}
	case 'a':
		j, _ := strconv.Atoi(hold[1:])
		ch := make(chan struct{})
		w.mu.Lock()
		w.ackHold[j%nsrv] = ch
		w.mu.Unlock()
		return func() {
			w.mu.Lock()
			w.ackHold[j%nsrv] = nil
			w.mu.Unlock()
			close(ch)
		}
	}
	return func() {}
}
