package main

// Building a peer message from a (well-formed) event token, so that scripted scenarios and
// hand-written replay files need not carry message bytes.

import (
	"strconv"
	"strings"
)

func u32(s string) uint32 {
	n, _ := strconv.ParseUint(s, 10, 32)
	return uint32(n)
}

func parseDescs(s string) []pdesc {
	var ds []pdesc
	for _, d := range undot(s) {
		pd := pdesc{kind: d[0]}
		if len(d) > 1 {
			pd.id = u32(d[1:])
		}
		ds = append(ds, pd)
	}
	return ds
}

func parsePayload(s string, tag uint32) ppayload {
	parts := strings.Split(s, "/")
	if len(parts) != 3 || parts[0][0] == '0' {
		return ppayload{null: true}
	}
	p := ppayload{tag: tag, caps: parseDescs(parts[2])}
	c := parts[1]
	switch {
	case strings.HasPrefix(c, "s:"):
		p.content = "s"
		p.fields = undot(c[2:])
	default:
		p.content = c
	}
	return p
}

func parseTarget(s string) ptarget {
	switch s[0] {
	case 'i':
		return ptarget{kind: 'i', id: u32(s[1:])}
	case 'a':
		qx := strings.SplitN(s[1:], ":", 2)
		return ptarget{kind: 'a', id: u32(qx[0]), ops: undot(qx[1])}
	}
	return ptarget{kind: 'b'}
}

// splitTop splits on commas (payloads contain none).
func tokenBytes(tok string) []byte {
	if tok == "C~" || tok == "R~" {
		// the union pointer of the root struct is null
		msg, m := newMsg()
		m.Struct.SetUint16(0, map[byte]uint16{'C': 2, 'R': 3}[tok[0]])
		return bytesOf(msg)
	}
	a := strings.Split(tok[1:], ",")
	switch tok[0] {
	case 'B':
		return buildBootstrap(u32(a[0]))
	case 'C':
		tag := u32(a[5])
		p := ppayload{null: true}
		if a[2] != "!" {
			p = parsePayload(a[2], tag)
		}
		return buildCall(u32(a[0]), parseTarget(a[1]), p, a[3] == "1", a[4] == "1")
	case 'R':
		switch a[2][0] {
		case 'r':
			p := ppayload{null: true}
			if a[2] != "r!" {
				p = parsePayload(a[2][1:], 0)
			}
			return buildReturn(u32(a[0]), a[1] == "1", 'r', p)
		case 'x':
			return buildReturn(u32(a[0]), a[1] == "1", 'x', ppayload{})
		}
		return buildReturn(u32(a[0]), a[1] == "1", 'c', ppayload{})
	case 'F':
		return buildFinish(u32(a[0]), a[1] == "1")
	case 'L':
		return buildRelease(u32(a[0]), u32(a[1]))
	case 'D':
		ctx := a[1]
		id := uint32(0)
		if len(ctx) > 1 {
			id = u32(ctx[1:])
		}
		c := ctx[0]
		if c == 'o' {
			c = 'a'
		}
		return buildDisembargo(parseTarget(a[0]), c, id)
	case 'U', 'A', 'K':
		return buildMisc(tok[0])
	}
	return buildMisc('J')
}
