// Command c06 is the correspondence harness of C06, C07 and C08: histories of peer messages
// and application actions are run against rpc.Conn (inside testing/synctest, run to quiescence
// after every event) and, by the OCaml driver, against the extracted Coq machine.
//
// The parent process only supervises: histories run in child processes, so that a crash of
// the process ("PANIC"), a hung bubble ("STUCK") or goroutines left behind ("LEAKED") are
// observations about the implementation and not failures of the harness.
package main

import (
	"bufio"
	"flag"
	"fmt"
	"os"
	"os/exec"
	"path/filepath"
	"runtime"
	"strings"
	"testing"
	"testing/synctest"
	"time"

	. "verifh/hc"
)

var (
	childFlag  = flag.Bool("child", false, "run histories (internal)")
	fromFlag   = flag.Int("from", 0, "first history (internal)")
	toFlag     = flag.Int("to", 0, "one past the last history (internal)")
	streamFlag = flag.String("stream", "v", "v: valid stream, m: malformed stream, s: scenarios, x: fault scenarios")
	kindsFlag  = flag.String("kinds", "s,v,m", "streams to run")
	fixFlag    = flag.String("fx", "11111111111", "repairs present in the implementation (F14 F15 F16 F17 F19 F20 F21 F22 F23 F24 F25)")
	countFlag  = flag.Int("count", 0, "histories per stream (0: by tier)")
	saltFlag   = flag.Int("salt", 0, "varies the generated streams between the properties that share this harness")
)

func init() { testing.Init() }

func main() { Main(run) }

func run(out *Out, r *Rand, tier string, replay []string) {
	if *childFlag {
		child(tier, replay)
		return
	}
	parent(out, tier, replay)
}

// ---------------------------------------------------------------- child

var seedFlag uint64

func histRand(stream string, i int) *Rand {
	return NewRand(seedFlag*1000003 + uint64(i)*7919 + uint64(stream[0]) + uint64(*saltFlag)*104729)
}

func child(tier string, replay []string) {
	runtime.GOMAXPROCS(1)
	f := flag.Lookup("seed")
	fmt.Sscan(f.Value.String(), &seedFlag)
	w := bufio.NewWriter(os.Stdout)
	emit := func(s string) {
		fmt.Fprintln(w, s)
		w.Flush()
	}
	tests := []testing.InternalTest{{Name: "Histories", F: func(t *testing.T) {
		for i := *fromFlag; i < *toFlag; i++ {
			var src *source
			boot := true
			if replay != nil {
				f := strings.Fields(replay[i])
				if len(f) < 3 {
					continue
				}
				boot = f[2] == "1"
				var toks []string
				if len(f) > 3 {
					toks = strings.Split(f[3], ";")
				}
				src = &source{kind: f[0], script: toks}
				if toks == nil {
					src.script = []string{}
				}
			} else if *streamFlag == "s" {
				src = &source{kind: "s", script: scenarios[i%len(scenarios)]}
			} else if *streamFlag == "x" {
				src = &source{kind: "x", script: faults[i%len(faults)]}
			} else {
				hr := histRand(*streamFlag, i)
				boot = hr.Intn(8) != 0
				src = &source{kind: *streamFlag, k: newKnow(hr), stop: 6 + hr.Intn(40)}
				if tier == "thorough" {
					src.stop = 6 + hr.Intn(90)
				}
			}
			emit(fmt.Sprintf("H %d %s %s %s", i, src.kind, *fixFlag, b01(boot)))
			synctest.Test(t, func(t *testing.T) { oneHistory(src, boot, emit) })
			emit("Z")
		}
	}}}
	testing.Main(func(pat, str string) (bool, error) { return true, nil }, tests, nil, nil)
}

func oneHistory(src *source, boot bool, emit func(string)) {
	w := newWorld(boot)
	w.oracle = src.kind == "v" || src.kind == "x"
	w.settle()
	if src.k == nil {
		src.k = newKnow(NewRand(1))
	}
	for {
		e, ok := src.next()
		if !ok {
			break
		}
		if e.tok[0] == 'X' {
			// fault event X<kind>^<application event>: the next outgoing message of that kind is not written
			parts := strings.SplitN(e.tok[1:], "^", 2)
			emit("E " + e.tok)
			w.x.mu.Lock()
			w.x.failKind = parts[0][0]
			w.x.mu.Unlock()
			w.doApp(parts[1])
			w.settle()
			w.x.mu.Lock()
			w.x.failKind = 0
			w.x.mu.Unlock()
		} else if e.tok[0] == 'W' {
			// composite event: W<hold>^<application event>^<peer message>: the application event runs with the
			// hold in force, the peer message is delivered meanwhile, then the hold is lifted
			parts := strings.SplitN(e.tok[1:], "^", 3)
			e2 := parseEvt(parts[2])
			emit("E W" + parts[0] + "^" + parts[1] + "^" + e2.tok + "#" + Hx(e2.bytes))
			done := w.openWindow(parts[0])
			w.doApp(parts[1])
			w.settle()
			select {
			case w.x.in <- e2.bytes:
			default:
			}
			w.settle()
			done()
		} else if e.peer() {
			emit("E " + e.tok + "#" + Hx(e.bytes))
			v := w.conn.VerifView()
			if v.MuFree && !v.ShuttingDown {
				select {
				case w.x.in <- e.bytes:
				default:
				}
			}
		} else {
			emit("E " + e.tok)
			w.doApp(e.tok)
		}
		w.settle()
		if w.stuck() {
			emit("O STUCK")
			os.Stdout.Sync()
			os.Exit(3)
		}
		msgs, obs := w.observe()
		deliv := strings.Split(obs, "~")[1]
		if e.tok[0] != 'W' && e.tok[0] != 'X' {
			src.k.observe(e, msgs, deliv)
		}
		if src.kind == "x" {
			// fault histories are judged by the wire-level invariants only (no crash, no wedge, no id reuse)
			if w.reuse && w.oracle {
				emit("O REUSE")
			} else {
				emit("O ok")
			}
			continue
		}
		emit("O " + obs)
	}
	if src.kind == "x" {
		fin := w.finish()
		if strings.Contains(fin, "PANIC") {
			emit("X end:PANIC")
		} else {
			emit("X end:ok")
		}
		return
	}
	emit("X " + w.finish())
}

// ---------------------------------------------------------------- parent

type hist struct {
	kind, flags, boot string
	evs               []string
	obs               []string
	end               string
	done              bool
}

func (h *hist) caseLine() string {
	return fmt.Sprintf("%s %s %s %s", h.kind, h.flags, h.boot, strings.Join(h.evs, ";"))
}

func (h *hist) implLine() string {
	s := h.kind
	for _, o := range h.obs {
		s += "|" + o
	}
	if h.end != "" {
		s += "|" + h.end
	}
	return s
}

// runChild runs histories [from,to) of a stream in a child process; it returns the histories
// completed (or cut short by a crash / hang) and the index to continue from.
func runChild(exe, stream, tier, replay string, from, to int, seed string, outDir string) ([]*hist, int) {
	args := []string{"-child", "-out", filepath.Join(outDir, "child"), "-seed", seed, "-tier", tier,
		"-stream", stream, "-from", fmt.Sprint(from), "-to", fmt.Sprint(to), "-fx", *fixFlag, "-salt", fmt.Sprint(*saltFlag)}
	if replay != "" {
		args = append(args, "-replay", replay)
	}
	cmd := exec.Command(exe, args...)
	var stderr strings.Builder
	cmd.Stderr = &stderr
	stdout, err := cmd.StdoutPipe()
	if err != nil {
		panic(err)
	}
	if err := cmd.Start(); err != nil {
		panic(err)
	}
	lines := make(chan string, 1024)
	go func() {
		sc := bufio.NewScanner(stdout)
		sc.Buffer(make([]byte, 1<<20), 64<<20)
		for sc.Scan() {
			lines <- sc.Text()
		}
		close(lines)
	}()
	var hs []*hist
	var cur *hist
	idx := from
	hung := false
	timer := time.NewTimer(30 * time.Second)
loop:
	for {
		timer.Reset(30 * time.Second)
		select {
		case l, ok := <-lines:
			if !ok {
				break loop
			}
			switch {
			case strings.HasPrefix(l, "H "):
				f := strings.Fields(l)
				fmt.Sscan(f[1], &idx)
				cur = &hist{kind: f[2], flags: f[3], boot: f[4]}
				hs = append(hs, cur)
			case strings.HasPrefix(l, "E ") && cur != nil:
				cur.evs = append(cur.evs, l[2:])
			case strings.HasPrefix(l, "O ") && cur != nil:
				cur.obs = append(cur.obs, l[2:])
			case strings.HasPrefix(l, "X ") && cur != nil:
				cur.end = l[2:]
			case l == "Z" && cur != nil:
				cur.done = true
				idx++
			}
		case <-timer.C:
			hung = true
			cmd.Process.Kill()
			break loop
		}
	}
	cmd.Process.Kill()
	cmd.Wait()
	if cur != nil && !cur.done {
		// the child died or hung inside this history
		what := "PANIC"
		if hung || strings.Contains(stderr.String(), "all goroutines are asleep") ||
			(strings.Contains(stderr.String(), "deadlock") && !strings.Contains(stderr.String(), "panic:")) {
			// a goroutine blocked for ever on a mutex: the runtime's deadlock detector or the watchdog
			what = "STUCK"
		}
		switch {
		case len(cur.obs) > 0 && cur.obs[len(cur.obs)-1] == "STUCK":
			// reported by the child itself
		case cur.end != "":
			cur.end += "|LEAKED"
		case len(cur.obs) == len(cur.evs):
			cur.end = "end:" + what
		default:
			cur.obs = append(cur.obs, what)
		}
		cur.done = true
		idx++
	}
	return hs, idx
}

func parent(out *Out, tier string, replay []string) {
	exe, err := os.Executable()
	if err != nil {
		panic(err)
	}
	seed := flag.Lookup("seed").Value.String()
	outDir := flag.Lookup("out").Value.String()
	replayFile := flag.Lookup("replay").Value.String()
	type job struct {
		stream string
		n      int
	}
	var jobs []job
	if replay != nil {
		jobs = []job{{"replay", len(replay)}}
	} else {
		per := map[string]int{"s": len(scenarios), "x": len(faults), "v": 1500, "m": 2200}
		if tier == "thorough" {
			per = map[string]int{"s": len(scenarios), "x": len(faults), "v": 30000, "m": 45000}
		}
		for _, k := range strings.Split(*kindsFlag, ",") {
			n := per[k]
			if *countFlag > 0 && k != "s" && k != "x" {
				n = *countFlag
			}
			jobs = append(jobs, job{k, n})
		}
	}
	crashes, hangs := 0, 0
	for _, j := range jobs {
		from := 0
		for from < j.n {
			to := from + 64
			if to > j.n {
				to = j.n
			}
			hs, next := runChild(exe, j.stream, tier, replayFile, from, to, seed, outDir)
			for _, h := range hs {
				impl := h.implLine()
				class := "ok"
				switch {
				case strings.Contains(impl, "PANIC"):
					class = "crash"
					crashes++
				case strings.Contains(impl, "STUCK"), strings.Contains(impl, "LEAKED"):
					class = "hang"
					hangs++
				case strings.Contains(impl, "|A~"):
					class = "abort"
				}
				nontrivial := len(h.evs) >= 2
				out.Case(h.kind, h.caseLine(), impl, class, nontrivial)
			}
			if next <= from {
				next = from + 1
			}
			from = next
		}
	}
	out.Extra["x_process_crashes"] = crashes
	out.Extra["x_hangs"] = hangs
	out.Close("a history is non-trivial when it has at least two events; it is compared event by event (messages the peer received, order seen by the local servers, results seen by local callers, table occupancy) and at the end (Shutdown count of every local capability)")
}
