package main

// Projection of rpc.capnp messages to the event / output tokens shared with the model driver
// (ocaml/rpc_driver.ml), and builders for the messages the scripted peer sends.
//
// event tokens (peer messages carry the marshalled message after '#'):
//   B<q>  C<q>,<target>,<params>,<toCaller>,<methodKnown>,<tag>  R<a>,<releaseParamCaps>,<kind>
//   F<q>,<rrc>  L<id>,<n>  D<target>,<ctx>  U  A  K  G
//   target: i<id> | a<q>:<ops> | a0:! | b | e     ops: n f<k> x  ('.'-separated, '-' empty)
//   params/payload: ! | <valid><contentErr>/<content>/<caps>   content: n c<k> s:<fields> o
//   fields: n c<k> o b     caps: ! | n h<i> p<i> r<i> o ('.'-separated, '-' empty)
//   kind: r! r<payload> x1 x0 o      ctx: s<i> r<i> o
// application events:
//   b  c<h>,<caps>,<tag>  p<q>,<xform>,<caps>,<tag>  r<k>,<ret>  l<h>  x<q>  h<h>  u<n>  z
//   caps: n l<j> h<h>    ret: e 0 s:<fields n o l<j>>

import (
	"fmt"
	"os"
	"sort"
	"strconv"
	"strings"

	capnp "capnproto.org/go/capnp/v3"
	rpccp "capnproto.org/go/capnp/v3/std/capnp/rpc"
)

const (
	ifaceID  = uint64(0xabcdef0123456789)
	methodID = uint16(3)
)

func dotted(xs []string) string {
	if len(xs) == 0 {
		return "-"
	}
	return strings.Join(xs, ".")
}

func undot(s string) []string {
	if s == "-" || s == "" {
		return nil
	}
	return strings.Split(s, ".")
}

func b01(b bool) string {
	if b {
		return "1"
	}
	return "0"
}

// ---------------------------------------------------------------- reading (abstraction)

func absPtr(p capnp.Ptr) string {
	if !p.IsValid() {
		return "n"
	}
	if i := p.Interface(); i.IsValid() {
		return fmt.Sprintf("c%d", uint32(i.Capability()))
	}
	return "o"
}

func absContent(p capnp.Ptr) string {
	if !p.IsValid() {
		return "n"
	}
	if i := p.Interface(); i.IsValid() {
		return fmt.Sprintf("c%d", uint32(i.Capability()))
	}
	s := p.Struct()
	if !s.IsValid() {
		return "o"
	}
	n := int(s.Size().PointerCount)
	fs := make([]string, 0, n)
	for i := 0; i < n; i++ {
		f, err := s.Ptr(uint16(i))
		if err != nil {
			fs = append(fs, "b")
			continue
		}
		fs = append(fs, absPtr(f))
	}
	// trailing null fields read the same as absent ones
	for len(fs) > 0 && fs[len(fs)-1] == "n" {
		fs = fs[:len(fs)-1]
	}
	return "s:" + dotted(fs)
}

func absDesc(d rpccp.CapDescriptor) string {
	switch d.Which() {
	case rpccp.CapDescriptor_Which_none:
		return "n"
	case rpccp.CapDescriptor_Which_senderHosted:
		return fmt.Sprintf("h%d", d.SenderHosted())
	case rpccp.CapDescriptor_Which_senderPromise:
		return fmt.Sprintf("p%d", d.SenderPromise())
	case rpccp.CapDescriptor_Which_receiverHosted:
		return fmt.Sprintf("r%d", d.ReceiverHosted())
	}
	return "o"
}

func absCaps(pl rpccp.Payload) string {
	l, err := pl.CapTable()
	if err != nil {
		return "!"
	}
	ds := make([]string, l.Len())
	for i := range ds {
		ds[i] = absDesc(l.At(i))
	}
	return dotted(ds)
}

// the payload as the Conn's recvPayload sees it; also the tag (data word 0 of a struct content)
func absPayload(pl rpccp.Payload) (string, uint32) {
	if !pl.IsValid() {
		return "00/n/-", 0
	}
	c, err := pl.Content()
	if err != nil {
		return "11/n/-", 0
	}
	tag := uint32(0)
	if s := c.Struct(); s.IsValid() {
		tag = s.Uint32(0)
	}
	return "10/" + absContent(c) + "/" + absCaps(pl), tag
}

func absTarget(t rpccp.MessageTarget, err error) string {
	if err != nil {
		return "e"
	}
	switch t.Which() {
	case rpccp.MessageTarget_Which_importedCap:
		return fmt.Sprintf("i%d", t.ImportedCap())
	case rpccp.MessageTarget_Which_promisedAnswer:
		pa, err := t.PromisedAnswer()
		if err != nil {
			return "a0:!"
		}
		ops, err := pa.Transform()
		if err != nil {
			return "a0:!"
		}
		xs := make([]string, ops.Len())
		for i := range xs {
			op := ops.At(i)
			switch op.Which() {
			case rpccp.PromisedAnswer_Op_Which_noop:
				xs[i] = "n"
			case rpccp.PromisedAnswer_Op_Which_getPointerField:
				xs[i] = fmt.Sprintf("f%d", op.GetPointerField())
			default:
				xs[i] = "x"
			}
		}
		return fmt.Sprintf("a%d:%s", pa.QuestionId(), dotted(xs))
	}
	return "b"
}

// copyable: an Unimplemented reply embeds a deep copy of the offending message; when the copy
// fails (malformed pointers inside) the Conn reports the error and sends nothing.
func copyable(m rpccp.Message) bool {
	_, out := newMsg()
	return out.SetUnimplemented(m) == nil
}

func targetParses(tg string) bool {
	return tg != "e" && tg != "b" && !strings.HasSuffix(tg, "!") && !strings.Contains(tg, "x")
}

// absEvent projects a message the peer is about to send to the event the model sees.
func absEvent(m rpccp.Message) string {
	switch m.Which() {
	case rpccp.Message_Which_unimplemented:
		return "U"
	case rpccp.Message_Which_abort:
		return "A"
	case rpccp.Message_Which_bootstrap:
		b, err := m.Bootstrap()
		if err != nil {
			return "G"
		}
		return fmt.Sprintf("B%d", b.QuestionId())
	case rpccp.Message_Which_call:
		c, err := m.Call()
		if err != nil {
			return "G"
		}
		if !c.IsValid() {
			return "C~"
		}
		toCaller := c.SendResultsTo().Which() == rpccp.Call_sendResultsTo_Which_caller
		if !toCaller && !copyable(m) {
			return "G"
		}
		params := "!"
		tag := uint32(0)
		if pl, err := c.Params(); err == nil {
			params, tag = absPayload(pl)
		}
		tg := absTarget(c.Target())
		mok := c.InterfaceId() == ifaceID && c.MethodId() == methodID
		return fmt.Sprintf("C%d,%s,%s,%s,%s,%d", c.QuestionId(), tg, params, b01(toCaller), b01(mok), tag)
	case rpccp.Message_Which_return:
		r, err := m.Return()
		if err != nil {
			return "G"
		}
		if !r.IsValid() {
			return "R~"
		}
		kind := "o"
		switch r.Which() {
		case rpccp.Return_Which_results:
			pl, err := r.Results()
			if err != nil {
				kind = "r!"
			} else {
				p, _ := absPayload(pl)
				kind = "r" + p
			}
		case rpccp.Return_Which_exception:
			kind = "x0"
			if e, err := r.Exception(); err == nil {
				if _, err := e.Reason(); err == nil {
					kind = "x1"
				}
			}
		}
		return fmt.Sprintf("R%d,%s,%s", r.AnswerId(), b01(r.ReleaseParamCaps()), kind)
	case rpccp.Message_Which_finish:
		f, err := m.Finish()
		if err != nil {
			return "G"
		}
		return fmt.Sprintf("F%d,%s", f.QuestionId(), b01(f.ReleaseResultCaps()))
	case rpccp.Message_Which_release:
		r, err := m.Release()
		if err != nil {
			return "G"
		}
		return fmt.Sprintf("L%d,%d", r.Id(), r.ReferenceCount())
	case rpccp.Message_Which_disembargo:
		d, err := m.Disembargo()
		if err != nil {
			return "G"
		}
		tg := absTarget(d.Target())
		cx := "o"
		switch d.Context().Which() {
		case rpccp.Disembargo_context_Which_senderLoopback:
			cx = fmt.Sprintf("s%d", d.Context().SenderLoopback())
		case rpccp.Disembargo_context_Which_receiverLoopback:
			cx = fmt.Sprintf("r%d", d.Context().ReceiverLoopback())
		}
		if cx == "o" && targetParses(tg) && !copyable(m) {
			return "G"
		}
		return "D" + tg + "," + cx
	}
	if !copyable(m) {
		return "G"
	}
	return "K"
}

// absOutput projects a message the peer received from the Conn.
func absOutput(m rpccp.Message) string {
	switch m.Which() {
	case rpccp.Message_Which_unimplemented:
		return "U"
	case rpccp.Message_Which_abort:
		return "A"
	case rpccp.Message_Which_bootstrap:
		b, err := m.Bootstrap()
		if err != nil {
			return "?B"
		}
		return fmt.Sprintf("B%d", b.QuestionId())
	case rpccp.Message_Which_call:
		c, err := m.Call()
		if err != nil {
			return "?C"
		}
		tg := absTarget(c.Target())
		tg = strings.ReplaceAll(tg, "f", "") // the model prints the transform as field numbers
		caps := "!"
		if pl, err := c.Params(); err == nil {
			caps = absCaps(pl)
		}
		return fmt.Sprintf("C%d,%s,%s", c.QuestionId(), tg, caps)
	case rpccp.Message_Which_return:
		r, err := m.Return()
		if err != nil {
			return "?R"
		}
		switch r.Which() {
		case rpccp.Return_Which_results:
			pl, err := r.Results()
			if err != nil {
				return fmt.Sprintf("R?%d", r.AnswerId())
			}
			if !pl.IsValid() {
				return fmt.Sprintf("Rr%d,-", r.AnswerId())
			}
			return fmt.Sprintf("Rr%d,%s", r.AnswerId(), absCaps(pl))
		case rpccp.Return_Which_exception:
			if os.Getenv("C06_DEBUG") != "" {
				if e, err := r.Exception(); err == nil {
					reason, _ := e.Reason()
					fmt.Fprintf(os.Stderr, "exception for %d: %s\n", r.AnswerId(), reason)
				}
			}
			return fmt.Sprintf("Rx%d", r.AnswerId())
		}
		return fmt.Sprintf("R?%d", r.AnswerId())
	case rpccp.Message_Which_finish:
		f, err := m.Finish()
		if err != nil {
			return "?F"
		}
		return fmt.Sprintf("F%d,%s", f.QuestionId(), b01(f.ReleaseResultCaps()))
	case rpccp.Message_Which_release:
		r, err := m.Release()
		if err != nil {
			return "?L"
		}
		return fmt.Sprintf("L%d,%d", r.Id(), r.ReferenceCount())
	case rpccp.Message_Which_disembargo:
		d, err := m.Disembargo()
		if err != nil {
			return "?D"
		}
		tg := absTarget(d.Target())
		switch d.Context().Which() {
		case rpccp.Disembargo_context_Which_senderLoopback:
			// Ds<embargo>,<question>,<transform>
			if strings.HasPrefix(tg, "a") {
				qx := strings.SplitN(tg[1:], ":", 2)
				return fmt.Sprintf("Ds%d,%s,%s", d.Context().SenderLoopback(), qx[0], strings.ReplaceAll(qx[1], "f", ""))
			}
			return fmt.Sprintf("Ds%d,?%s", d.Context().SenderLoopback(), tg)
		case rpccp.Disembargo_context_Which_receiverLoopback:
			return fmt.Sprintf("Dr%d,%s", d.Context().ReceiverLoopback(), tg)
		}
		return "D?"
	}
	return "?"
}

func sortedJoin(xs []string) string {
	ys := append([]string(nil), xs...)
	sort.Strings(ys)
	return strings.Join(ys, "+")
}

// ---------------------------------------------------------------- building

type pdesc struct {
	kind byte // n h p r o
	id   uint32
}

type ppayload struct {
	null    bool     // no payload at all
	content string   // "n", "c<k>", "s", "o": null / interface / struct with fields / a list
	fields  []string // for "s": n, c<k>, o
	tag     uint32
	caps    []pdesc
}

func newMsg() (*capnp.Message, rpccp.Message) {
	msg, seg, err := capnp.NewMessage(capnp.SingleSegment(nil))
	if err != nil {
		panic(err)
	}
	m, err := rpccp.NewRootMessage(seg)
	if err != nil {
		panic(err)
	}
	return msg, m
}

func must(err error) {
	if err != nil {
		panic(err)
	}
}

func fillPayload(pl rpccp.Payload, p ppayload) {
	seg := pl.Segment()
	switch {
	case p.content == "n":
	case p.content[0] == 'c':
		k, _ := strconv.Atoi(p.content[1:])
		must(pl.SetContent(capnp.NewInterface(seg, capnp.CapabilityID(k)).ToPtr()))
	case p.content == "o":
		l, err := capnp.NewData(seg, []byte{1, 2, 3})
		must(err)
		must(pl.SetContent(l.ToPtr()))
	default:
		s, err := capnp.NewStruct(seg, capnp.ObjectSize{DataSize: 8, PointerCount: uint16(len(p.fields))})
		must(err)
		s.SetUint32(0, p.tag)
		for i, f := range p.fields {
			switch f[0] {
			case 'c':
				k, _ := strconv.Atoi(f[1:])
				must(s.SetPtr(uint16(i), capnp.NewInterface(seg, capnp.CapabilityID(k)).ToPtr()))
			case 'o':
				e, err := capnp.NewStruct(seg, capnp.ObjectSize{DataSize: 8})
				must(err)
				must(s.SetPtr(uint16(i), e.ToPtr()))
			}
		}
		must(pl.SetContent(s.ToPtr()))
	}
	if len(p.caps) > 0 {
		l, err := pl.NewCapTable(int32(len(p.caps)))
		must(err)
		for i, d := range p.caps {
			switch d.kind {
			case 'n':
				l.At(i).SetNone()
			case 'h':
				l.At(i).SetSenderHosted(d.id)
			case 'p':
				l.At(i).SetSenderPromise(d.id)
			case 'r':
				l.At(i).SetReceiverHosted(d.id)
			default:
				// thirdPartyHosted: a descriptor kind this implementation does not support
				_, err := l.At(i).NewThirdPartyHosted()
				must(err)
			}
		}
	}
}

type ptarget struct {
	kind byte // i a b(unknown which)
	id   uint32
	ops  []string // n, f<k>, x
}

func fillTarget(t rpccp.MessageTarget, p ptarget) {
	switch p.kind {
	case 'i':
		t.SetImportedCap(p.id)
	case 'a':
		pa, err := t.NewPromisedAnswer()
		must(err)
		pa.SetQuestionId(p.id)
		l, err := pa.NewTransform(int32(len(p.ops)))
		must(err)
		for i, op := range p.ops {
			switch op[0] {
			case 'n':
				l.At(i).SetNoop()
			case 'f':
				k, _ := strconv.Atoi(op[1:])
				l.At(i).SetGetPointerField(uint16(k))
			default:
				l.At(i).Struct.SetUint16(0, 9) // unknown op
			}
		}
	default:
		t.Struct.SetUint16(4, 7) // unknown MessageTarget.Which
	}
}

func bytesOf(msg *capnp.Message) []byte {
	b, err := msg.Marshal()
	must(err)
	return b
}

func buildBootstrap(q uint32) []byte {
	msg, m := newMsg()
	b, err := m.NewBootstrap()
	must(err)
	b.SetQuestionId(q)
	return bytesOf(msg)
}

func buildCall(q uint32, tg ptarget, p ppayload, toCaller, mok bool) []byte {
	msg, m := newMsg()
	c, err := m.NewCall()
	must(err)
	c.SetQuestionId(q)
	c.SetInterfaceId(ifaceID)
	c.SetMethodId(methodID)
	if !mok {
		c.SetMethodId(methodID + 1)
	}
	t, err := c.NewTarget()
	must(err)
	fillTarget(t, tg)
	if !p.null {
		pl, err := c.NewParams()
		must(err)
		fillPayload(pl, p)
	}
	if !toCaller {
		c.SendResultsTo().SetYourself()
	}
	return bytesOf(msg)
}

// kind: 'r' results, 'x' exception, 'c' canceled, 't' takeFromOtherQuestion
func buildReturn(a uint32, rpc bool, kind byte, p ppayload) []byte {
	msg, m := newMsg()
	r, err := m.NewReturn()
	must(err)
	r.SetAnswerId(a)
	r.SetReleaseParamCaps(rpc)
	switch kind {
	case 'r':
		if !p.null {
			pl, err := r.NewResults()
			must(err)
			fillPayload(pl, p)
		}
	case 'x':
		e, err := r.NewException()
		must(err)
		must(e.SetReason("peer exception"))
	case 'c':
		r.SetCanceled()
	default:
		r.SetTakeFromOtherQuestion(1)
	}
	return bytesOf(msg)
}

func buildFinish(q uint32, rrc bool) []byte {
	msg, m := newMsg()
	f, err := m.NewFinish()
	must(err)
	f.SetQuestionId(q)
	f.SetReleaseResultCaps(rrc)
	return bytesOf(msg)
}

func buildRelease(id, n uint32) []byte {
	msg, m := newMsg()
	r, err := m.NewRelease()
	must(err)
	r.SetId(id)
	r.SetReferenceCount(n)
	return bytesOf(msg)
}

// ctx: 's' senderLoopback, 'r' receiverLoopback, 'a' accept
func buildDisembargo(tg ptarget, ctx byte, id uint32) []byte {
	msg, m := newMsg()
	d, err := m.NewDisembargo()
	must(err)
	t, err := d.NewTarget()
	must(err)
	fillTarget(t, tg)
	switch ctx {
	case 's':
		d.Context().SetSenderLoopback(id)
	case 'r':
		d.Context().SetReceiverLoopback(id)
	default:
		d.Context().SetAccept()
	}
	return bytesOf(msg)
}

// which: 'U' unimplemented, 'A' abort, 'K' resolve (unsupported), 'J' join
func buildMisc(which byte) []byte {
	msg, m := newMsg()
	switch which {
	case 'U':
		u, err := m.NewUnimplemented()
		must(err)
		b, err := u.NewBootstrap()
		must(err)
		b.SetQuestionId(3)
	case 'A':
		e, err := m.NewAbort()
		must(err)
		must(e.SetReason("peer abort"))
	case 'K':
		r, err := m.NewResolve()
		must(err)
		r.SetPromiseId(1)
	default:
		_, err := m.NewJoin()
		must(err)
	}
	return bytesOf(msg)
}

// readMsg decodes marshalled bytes; ok=false when the framing or the root is unreadable (a
// transport-level fault, which is not an event of this harness).
func readMsg(b []byte) (rpccp.Message, bool) {
	msg, err := capnp.Unmarshal(append([]byte(nil), b...))
	if err != nil {
		return rpccp.Message{}, false
	}
	m, err := rpccp.ReadRootMessage(msg)
	if err != nil {
		return rpccp.Message{}, false
	}
	return m, true
}
