package main

// The scripted peer / application: chooses the next event from what it has observed so far
// (ids the Conn has used, exports it has been given, calls that are running), so that most
// histories are well-formed protocol runs; the malformed stream replaces a share of the
// events by protocol violations and byte-level corruptions of valid messages.

import (
	"fmt"
	"sort"
	"strconv"
	"strings"

	. "verifh/hc"
)

type evt struct {
	tok   string
	bytes []byte // peer messages
}

func (e evt) peer() bool {
	return e.tok[0] >= 'A' && e.tok[0] <= 'Z' && e.tok[0] != 'W' && e.tok[0] != 'X'
}

type pq struct {
	returned, finished, rrc bool
	caps                    []uint32
}

type cq struct {
	boot     bool
	canceled bool
	paths    []string // transforms the application has pipelined on
}

type know struct {
	r         *Rand
	pqs       map[uint32]*pq
	nextPQ    uint32
	exports   map[uint32]int
	cqs       map[uint32]*cq
	embargoes map[uint32]bool
	pending   map[int]bool
	handles   []bool // alive
	hq        []int  // the bootstrap question of the handle, -1 once it has been answered
	herr      []bool // ... with something else than results (the handle is an error client)
	hloc      []bool // ... with a capability of this vat (possibly embargoed: never passed as a parameter)
	ncall     int
	nboot     int
	tag       uint32
	down      bool
	afterDown int
	holds     map[int]bool
}

func newKnow(r *Rand) *know {
	return &know{r: r, pqs: map[uint32]*pq{}, exports: map[uint32]int{}, cqs: map[uint32]*cq{},
		embargoes: map[uint32]bool{}, pending: map[int]bool{}, holds: map[int]bool{}}
}

func keysU(m interface{}) []uint32 {
	var ks []uint32
	switch mm := m.(type) {
	case map[uint32]*pq:
		for k := range mm {
			ks = append(ks, k)
		}
	case map[uint32]*cq:
		for k := range mm {
			ks = append(ks, k)
		}
	case map[uint32]int:
		for k, v := range mm {
			if v > 0 {
				ks = append(ks, k)
			}
		}
	case map[uint32]bool:
		for k := range mm {
			ks = append(ks, k)
		}
	}
	sort.Slice(ks, func(i, j int) bool { return ks[i] < ks[j] })
	return ks
}

func (k *know) pickU(ks []uint32) uint32 { return ks[k.r.Intn(len(ks))] }

func (k *know) newPQ() uint32 {
	// mostly fresh ids, sometimes the smallest id that is free again
	if k.r.Intn(4) == 0 {
		for i := uint32(0); i < k.nextPQ; i++ {
			if k.pqs[i] == nil {
				return i
			}
		}
	}
	q := k.nextPQ
	k.nextPQ++
	return q
}

// observe updates the knowledge from the event just run and what came back.
func (k *know) observe(e evt, msgs []string, deliv string) {
	a := strings.Split(e.tok[1:], ",")
	if e.tok == "C~" || e.tok == "R~" {
		a = []string{"0", "1", "o"}
	}
	switch e.tok[0] {
	case 'B', 'C':
		q := u32(a[0])
		if k.pqs[q] == nil {
			k.pqs[q] = &pq{}
		}
		if q >= k.nextPQ {
			k.nextPQ = q + 1
		}
	case 'F':
		if p := k.pqs[u32(a[0])]; p != nil {
			p.finished = true
			p.rrc = a[1] == "1"
			if p.returned {
				if p.rrc {
					for _, c := range p.caps {
						k.exports[c]--
					}
				}
				delete(k.pqs, u32(a[0]))
			}
		}
	case 'L':
		k.exports[u32(a[0])] -= int(u32(a[1]))
	case 'A':
		k.down = true
	case 'b':
		k.handles = append(k.handles, true)
		k.hq = append(k.hq, -2)
		k.herr = append(k.herr, false)
		k.hloc = append(k.hloc, false)
		k.nboot++
	case 'c', 'p', 'h':
		if e.tok[0] == 'h' {
			k.holds[k.ncall] = true
		}
		if e.tok[0] == 'p' {
			if c := k.cqs[u32(a[0])]; c != nil {
				c.paths = append(c.paths, a[1])
			}
		}
		k.ncall++
	case 'u':
		delete(k.holds, int(u32(a[0])))
	case 'l':
		if h := int(u32(a[0])); h < len(k.handles) {
			k.handles[h] = false
		}
	case 'x':
		if c := k.cqs[u32(a[0])]; c != nil {
			c.canceled = true
		}
	case 'r':
		delete(k.pending, int(u32(a[0])))
	case 'z':
		k.down = true
	case 'R':
		// the Conn's question is answered; the Finish it sends removes it below
	}
	for _, m := range msgs {
		switch {
		case strings.HasPrefix(m, "B"):
			k.cqs[u32(m[1:])] = &cq{boot: true}
			for i := range k.hq {
				if k.hq[i] == -2 {
					k.hq[i] = int(u32(m[1:]))
				}
			}
		case strings.HasPrefix(m, "C"):
			f := strings.Split(m[1:], ",")
			k.cqs[u32(f[0])] = &cq{}
			for _, d := range undot(f[2]) {
				if d[0] == 'h' {
					k.exports[u32(d[1:])]++
				}
			}
		case strings.HasPrefix(m, "Rr"), strings.HasPrefix(m, "Rx"):
			f := strings.Split(m[2:], ",")
			p := k.pqs[u32(f[0])]
			if p == nil {
				break
			}
			p.returned = true
			if m[1] == 'r' {
				for _, d := range undot(f[1]) {
					if d[0] == 'h' {
						if !(p.finished && p.rrc) {
							k.exports[u32(d[1:])]++
							p.caps = append(p.caps, u32(d[1:]))
						}
					}
				}
			}
			if p.finished {
				delete(k.pqs, u32(f[0]))
			}
		case strings.HasPrefix(m, "F"):
			f := strings.Split(m[1:], ",")
			if c := k.cqs[u32(f[0])]; c != nil && (f[1] == "0") {
				delete(k.cqs, u32(f[0]))
			}
		case strings.HasPrefix(m, "Ds"):
			f := strings.Split(m[2:], ",")
			k.embargoes[u32(f[0])] = true
		case m == "A":
			k.down = true
		}
	}
	if e.tok[0] == 'R' {
		for i := range k.hq {
			if k.hq[i] == int(u32(a[0])) {
				k.hq[i] = -1
				k.herr[i] = !strings.HasPrefix(a[2], "r10/c")
				k.hloc[i] = strings.Contains(a[2], "/r") || strings.Contains(a[2], ".r")
			}
		}
		// a canceled question is removed by the Return without a second Finish
		if c := k.cqs[u32(a[0])]; c != nil && c.canceled {
			delete(k.cqs, u32(a[0]))
		}
	}
	if e.tok[0] == 'D' && strings.HasPrefix(a[1], "r") {
		delete(k.embargoes, u32(a[1][1:]))
	}
	for _, d := range strings.Split(deliv, "+") {
		if d == "" {
			continue
		}
		f := strings.Split(d, ":")
		n, _ := strconv.Atoi(f[2])
		k.pending[n] = true
	}
}

func (k *know) aliveHandles() []int {
	var hs []int
	for i, a := range k.handles {
		if a {
			hs = append(hs, i)
		}
	}
	return hs
}

func (k *know) pendingList() []int {
	var ps []int
	for p := range k.pending {
		ps = append(ps, p)
	}
	sort.Ints(ps)
	return ps
}

func (k *know) smallID() uint32 { return uint32(k.r.Intn(4)) }

// params of a call from the peer: a struct whose pointer fields name the capabilities
func (k *know) peerParams(bad bool) ppayload {
	k.tag++
	p := ppayload{content: "s", tag: k.tag}
	n := k.r.Pick(5, 3, 2)
	ex := keysU(k.exports)
	for i := 0; i < n; i++ {
		switch c := k.r.Pick(5, 1, 3, 2); {
		case c == 0:
			p.caps = append(p.caps, pdesc{kind: 'h', id: k.smallID()})
		case c == 1:
			p.caps = append(p.caps, pdesc{kind: 'p', id: k.smallID()})
		case c == 2 && len(ex) > 0:
			p.caps = append(p.caps, pdesc{kind: 'r', id: k.pickU(ex)})
		default:
			p.caps = append(p.caps, pdesc{kind: 'n'})
		}
		p.fields = append(p.fields, fmt.Sprintf("c%d", i))
	}
	if bad {
		switch k.r.Intn(5) {
		case 0:
			p.caps = append(p.caps, pdesc{kind: 'r', id: 40 + k.smallID()})
		case 1:
			p.caps = append([]pdesc{{kind: 'h', id: k.smallID()}}, append(p.caps, pdesc{kind: 'r', id: 77})...)
		case 2:
			p.caps = append(p.caps, pdesc{kind: 'o'})
		case 3:
			p = ppayload{null: true}
		default:
			p.content = []string{"n", "o", "c0"}[k.r.Intn(3)]
		}
	}
	return p
}

func (k *know) appCaps() string {
	n := k.r.Pick(5, 3, 2)
	var cs []string
	hs := k.aliveHandles()
	for i := 0; i < n; i++ {
		switch c := k.r.Pick(4, 2, 1); {
		case c == 0:
			cs = append(cs, fmt.Sprintf("l%d", k.r.Intn(nsrv)))
		case c == 1 && len(hs) > 0:
			// only handles whose bootstrap has been answered with a capability (pending promises
			// and error clients are not modelled as parameters)
			h := hs[k.r.Intn(len(hs))]
			if k.hq[h] != -1 || k.herr[h] || k.hloc[h] {
				cs = append(cs, "n")
			} else {
				cs = append(cs, fmt.Sprintf("h%d", h))
			}
		default:
			cs = append(cs, "n")
		}
	}
	return dotted(cs)
}

func (k *know) appRet() string {
	switch k.r.Pick(2, 1, 8) {
	case 0:
		return "e"
	case 1:
		return "0"
	}
	n := k.r.Intn(4)
	var fs []string
	for i := 0; i < n; i++ {
		switch k.r.Pick(5, 2, 1) {
		case 0:
			fs = append(fs, fmt.Sprintf("l%d", k.r.Intn(nsrv)))
		case 1:
			fs = append(fs, "n")
		default:
			fs = append(fs, "o")
		}
	}
	return "s:" + dotted(fs)
}

func (k *know) transform() []string {
	switch k.r.Pick(4, 3, 2, 1, 1) {
	case 0:
		return nil
	case 1:
		return []string{"f0"}
	case 2:
		return []string{"f1"}
	case 3:
		return []string{"n", fmt.Sprintf("f%d", k.r.Intn(3))}
	}
	return []string{"f0", "f1"}
}

func mk(b []byte) evt {
	m, ok := readMsg(b)
	if !ok {
		return evt{}
	}
	return evt{tok: absEvent(m), bytes: b}
}

// results the peer returns for a question of the Conn
func (k *know) peerResults(c *cq, bad bool) ppayload {
	ex := keysU(k.exports)
	desc := func() pdesc {
		switch c := k.r.Pick(5, 1, 4, 1); {
		case c == 0:
			return pdesc{kind: 'h', id: k.smallID()}
		case c == 1:
			return pdesc{kind: 'p', id: k.smallID()}
		case c == 2 && len(ex) > 0:
			return pdesc{kind: 'r', id: k.pickU(ex)}
		}
		return pdesc{kind: 'n'}
	}
	var p ppayload
	if c.boot {
		p = ppayload{content: "c0", caps: []pdesc{desc()}}
		if p.caps[0].kind == 'n' {
			p.caps[0] = pdesc{kind: 'h', id: k.smallID()}
		}
	} else {
		p = ppayload{content: "s"}
		n := k.r.Intn(3)
		for i := 0; i < n; i++ {
			p.caps = append(p.caps, desc())
			p.fields = append(p.fields, fmt.Sprintf("c%d", i))
		}
	}
	if bad {
		switch k.r.Intn(5) {
		case 0:
			p = ppayload{null: true}
		case 1:
			p.content = "n"
		case 2:
			p.caps = append(p.caps, pdesc{kind: 'r', id: 50 + k.smallID()})
		case 3:
			p.caps = append([]pdesc{{kind: 'h', id: k.smallID()}}, pdesc{kind: 'r', id: 66})
		default:
			p.content = "o"
		}
	}
	return p
}

// next chooses the next event; malformed says whether protocol violations are mixed in.
func (k *know) next(malformed bool) evt {
	r := k.r
	if malformed && r.Intn(100) < 22 {
		if e := k.bad(); e.tok != "" {
			return e
		}
	}
	pqs := keysU(k.pqs)
	var openPQ []uint32
	for _, q := range pqs {
		if !k.pqs[q].finished {
			openPQ = append(openPQ, q)
		}
	}
	ex := keysU(k.exports)
	cqs := keysU(k.cqs)
	var liveCQ, callCQ []uint32
	for _, q := range cqs {
		if !k.cqs[q].canceled {
			liveCQ = append(liveCQ, q)
			if !k.cqs[q].boot {
				callCQ = append(callCQ, q)
			}
		}
	}
	hs := k.aliveHandles()
	pend := k.pendingList()
	emb := keysU(k.embargoes)
	for try := 0; try < 50; try++ {
		switch r.Pick(6, 14, 10, 16, 8, 5, 4, 9, 5, 12, 6, 3, 3, 1) {
		case 0: // peer Bootstrap
			return mk(buildBootstrap(k.newPQ()))
		case 1: // peer Call on an export
			if len(ex) == 0 {
				continue
			}
			return mk(buildCall(k.newPQ(), ptarget{kind: 'i', id: k.pickU(ex)}, k.peerParams(false), true, true))
		case 2: // peer Call pipelined on one of its questions
			if len(openPQ) == 0 {
				continue
			}
			return mk(buildCall(k.newPQ(), ptarget{kind: 'a', id: k.pickU(openPQ), ops: k.transform()}, k.peerParams(false), true, true))
		case 3: // a local server returns
			if len(pend) == 0 {
				continue
			}
			return evt{tok: fmt.Sprintf("r%d,%s", pend[r.Intn(len(pend))], k.appRet())}
		case 4: // peer Finish
			if len(openPQ) == 0 {
				continue
			}
			q := k.pickU(openPQ)
			if !k.pqs[q].returned && r.Intn(3) != 0 {
				continue
			}
			return mk(buildFinish(q, r.Intn(3) == 0))
		case 5: // peer Release
			if len(ex) == 0 {
				continue
			}
			id := k.pickU(ex)
			n := 1
			if r.Bool() {
				n = 1 + r.Intn(k.exports[id])
			}
			return mk(buildRelease(id, uint32(n)))
		case 6: // application Bootstrap
			if k.nboot >= 3 {
				continue
			}
			return evt{tok: "b"}
		case 7: // application call on a handle
			if len(hs) == 0 {
				continue
			}
			k.tag++
			h := hs[r.Intn(len(hs))]
			caps := k.appCaps()
			if k.hloc[h] {
				// the handle is (or may be) a capability of this vat: the call does not go through the
				// connection, and the model does not follow the parameters of such calls
				caps = "-"
			}
			return evt{tok: fmt.Sprintf("c%d,%s,%d", h, caps, k.tag)}
		case 8: // application call pipelined on a question
			if len(callCQ) == 0 {
				continue
			}
			k.tag++
			x := []string{"-", "0", "1"}[r.Intn(3)]
			return evt{tok: fmt.Sprintf("p%d,%s,%s,%d", k.pickU(callCQ), x, k.appCaps(), k.tag)}
		case 9: // peer Return
			if len(cqs) == 0 {
				continue
			}
			q := k.pickU(cqs)
			c := k.cqs[q]
			rpc := r.Intn(3) == 0
			switch r.Pick(8, 2, 1) {
			case 0:
				return mk(buildReturn(q, rpc, 'r', k.peerResults(c, false)))
			case 1:
				return mk(buildReturn(q, rpc, 'x', ppayload{}))
			}
			return mk(buildReturn(q, rpc, 'c', ppayload{}))
		case 10: // peer echoes a Disembargo
			if len(emb) == 0 {
				continue
			}
			return mk(buildDisembargo(ptarget{kind: 'i', id: 0}, 'r', k.pickU(emb)))
		case 11: // application cancels a call
			if len(callCQ) == 0 {
				continue
			}
			return evt{tok: fmt.Sprintf("x%d", k.pickU(callCQ))}
		case 12: // application releases a handle
			if len(hs) == 0 {
				continue
			}
			return evt{tok: fmt.Sprintf("l%d", hs[r.Intn(len(hs))])}
		default:
			return mk(buildMisc([]byte{'U', 'K', 'J'}[r.Intn(3)]))
		}
	}
	return mk(buildBootstrap(k.newPQ()))
}

// bad produces a protocol violation or a corrupted message.
func (k *know) bad() evt {
	r := k.r
	weird := func() uint32 {
		return []uint32{0, 1, 2, 3, 7, 1000, 0xffffffff}[r.Intn(7)]
	}
	ex := keysU(k.exports)
	pqs := keysU(k.pqs)
	cqs := keysU(k.cqs)
	anyEx := func() uint32 {
		if len(ex) > 0 && r.Bool() {
			return k.pickU(ex)
		}
		return weird()
	}
	switch r.Pick(4, 8, 6, 8, 4, 4, 6, 3, 12) {
	case 0: // Bootstrap with an id in use
		if len(pqs) > 0 {
			return mk(buildBootstrap(k.pickU(pqs)))
		}
		return mk(buildBootstrap(weird()))
	case 1: // Call: absent export, reused id, bad params
		q := k.newPQ()
		if len(pqs) > 0 && r.Intn(4) == 0 {
			q = k.pickU(pqs)
		}
		tg := ptarget{kind: 'i', id: anyEx()}
		return mk(buildCall(q, tg, k.peerParams(r.Bool()), r.Intn(6) != 0, r.Intn(6) != 0))
	case 2: // Call: promised answer unknown / finished, bad transform, unknown target
		tg := ptarget{kind: 'a', id: weird(), ops: k.transform()}
		if len(pqs) > 0 && r.Bool() {
			tg.id = k.pickU(pqs)
		}
		switch r.Intn(4) {
		case 0:
			tg.ops = append(tg.ops, "x")
		case 1:
			tg = ptarget{kind: 'b'}
		}
		return mk(buildCall(k.newPQ(), tg, k.peerParams(r.Intn(3) == 0), true, true))
	case 3: // Return: unknown question, null payload, bad descriptors, unsupported kinds
		q := weird()
		var c *cq
		if len(cqs) > 0 && r.Intn(4) != 0 {
			q = k.pickU(cqs)
			c = k.cqs[q]
		}
		if c == nil {
			c = &cq{boot: r.Bool()}
		}
		switch r.Intn(4) {
		case 0:
			return mk(buildReturn(q, r.Bool(), 't', ppayload{}))
		default:
			return mk(buildReturn(q, r.Bool(), 'r', k.peerResults(c, true)))
		}
	case 4: // Finish: unknown, twice
		if len(pqs) > 0 && r.Bool() {
			return mk(buildFinish(k.pickU(pqs), r.Bool()))
		}
		return mk(buildFinish(weird(), r.Bool()))
	case 5: // Release: unknown export, too many, zero
		id := anyEx()
		n := uint32(r.Intn(4))
		if r.Intn(3) == 0 {
			n = 0xffffffff
		}
		return mk(buildRelease(id, n))
	case 6: // Disembargo
		tg := ptarget{kind: 'a', id: weird(), ops: k.transform()}
		if len(pqs) > 0 && r.Bool() {
			tg.id = k.pickU(pqs)
		}
		if r.Intn(4) == 0 {
			tg = ptarget{kind: 'i', id: anyEx()}
		}
		if r.Intn(6) == 0 {
			tg = ptarget{kind: 'b'}
		}
		return mk(buildDisembargo(tg, []byte{'s', 'r', 'a'}[r.Intn(3)], weird()))
	case 7:
		return mk(buildMisc([]byte{'U', 'A', 'K', 'J'}[r.Intn(4)]))
	}
	// byte-level corruption of a valid message
	base := k.next(false)
	for base.bytes == nil {
		base = k.next(false)
	}
	for try := 0; try < 20; try++ {
		b := append([]byte(nil), base.bytes...)
		body := 8 // skip the segment table (a torn frame is a transport fault, not an event)
		if len(b) <= body+8 {
			break
		}
		switch r.Intn(3) {
		case 0: // flip bytes
			for i := 0; i < 1+r.Intn(3); i++ {
				b[body+r.Intn(len(b)-body)] ^= byte(1 << uint(r.Intn(8)))
			}
		case 1: // overwrite a word with a hostile pointer
			w := body + 8*r.Intn((len(b)-body)/8)
			ptrs := [][]byte{
				{0xfc, 0xff, 0xff, 0x7f, 0x01, 0x00, 0x01, 0x00}, // struct far out of bounds
				{0x01, 0x00, 0x00, 0x00, 0xff, 0xff, 0xff, 0x1f}, // huge list
				{0x02, 0x00, 0x00, 0x00, 0x09, 0x00, 0x00, 0x00}, // far pointer, absent segment
				{0x03, 0x00, 0x00, 0x00, 0x05, 0x00, 0x00, 0x00}, // capability pointer
				{0x00, 0x00, 0x00, 0x00, 0x00, 0x00, 0x00, 0x00}, // null
			}
			copy(b[w:], ptrs[r.Intn(len(ptrs))])
		default: // random byte
			b[body+r.Intn(len(b)-body)] = byte(r.Intn(256))
		}
		if e := mk(b); e.tok != "" {
			return e
		}
	}
	return evt{}
}

// ---------------------------------------------------------------- fault scenarios (stream x)

// faults are histories with transport write failures: X<kind>^<application event> makes the next
// outgoing message of that kind fail (the connection stays up).  The machine has no transport
// faults (they are C09's); these histories are judged by the wire-level invariants only: no crash,
// no wedge, no leak, and no question id reused while the peer still holds it as an unfinished
// answer (no Finish on the wire).
var faults = [][]string{
	// a canceled call whose Finish could not be written: the id stays reserved after the Return
	{"b", "R0,0,r10/c0/h5", "c0,-,1", "Xf^x0", "R0,0,r10/s:/-", "c0,-,2", "R1,0,r10/s:/-", "l0"},
	// the same with the Return before the cancel (nothing to reserve: the Finish of the Return is written)
	{"b", "R0,0,r10/c0/h5", "c0,-,1", "R0,0,r10/s:/-", "Xf^x0", "c0,-,2", "R0,0,r10/s:/-", "l0"},
}

// ---------------------------------------------------------------- scripted scenarios

// scenarios are event-token lists (peer messages are built from their tokens).  They put the
// histories the properties are about in every run: pipelining on answers that have not
// returned, embargoes, parameter capabilities, re-import races, hostile single messages.
var scenarios = [][]string{
	// pipelined calls on an answer that has not returned yet (F14), then returns in both orders
	{"B0", "C1,i0,10/s:/-,1,1,1", "C2,a1:f0,10/s:/-,1,1,2", "C3,a1:f0,10/s:/-,1,1,3", "C4,a2:-,10/s:/-,1,1,4",
		"r0,s:l1", "r1,s:l2", "r2,e", "F1,0", "F2,1", "F3,0", "F4,0", "B5"},
	// a call on an export that does not exist (F16), alone and after traffic
	{"B0", "C1,i9,10/s:/-,1,1,1"},
	{"C1,a7:-,10/s:/-,1,1,1"},
	// parameters naming an export that does not exist (F15), after an import in the same table (F21)
	{"B0", "C1,i0,10/s:c0/r9,1,1,1", "B2"},
	{"B0", "C1,i0,10/s:c0.c1/h5.r9,1,1,1", "B2"},
	{"B0", "C1,i0,10/s:/-,1,1,1", "C2,i0,10/s:c0.c1/h5.r9,1,1,2", "B3"},
	// bootstrap answered with a null payload / null content (F17), bad descriptors in a Return (F21)
	{"b", "R0,0,r00/n/-"},
	{"b", "R0,0,r10/n/-"},
	{"b", "c0,-,1", "R1,0,r10/s:c0.c1/h5.r9", "R0,0,r10/c0/h1"},
	// capabilities in call parameters and Return.releaseParamCaps (F19)
	{"b", "R0,0,r10/c0/h1", "c0,l1.l1.l2,5", "R1,1,r10/s:/-", "c0,l1,6", "R1,0,x1", "L0,1", "l0"},
	// embargo: pipelined call, the answer is a capability of ours, the echo comes back (F22 when the
	// application has dropped the result first)
	{"B0", "b", "c0,-,1", "R0,0,r10/c0/r0", "R1,0,r10/s:/-", "l0", "Di0,r0", "B7"},
	{"B0", "b", "c0,-,1", "R0,0,r10/c0/r0", "Di0,r0", "R1,0,x1", "l0"},
	{"B0", "b", "c0,-,1", "R0,0,r10/c0/r0", "l0"},
	// re-import while the old client's Shutdown is delayed (F20)
	{"b", "R0,0,r10/c0/h5", "h0", "l0", "B0", "C1,i0,10/s:c0/h5,1,1,1", "r0,0", "C2,i0,10/s:c0/h5,1,1,2", "u0", "r1,0", "B3"},
	// a Call naming itself as promised answer (F24); null Call / Return structs (F25)
	{"C3,a3:-,10/s:/-,1,1,1"},
	{"b", "R~"},
	{"C~"},
	{"B0", "C~", "r0,0", "B1"},
	// the peer calls an export that is an embargoed capability (F26, known finding: wedge)
	{"B0", "b", "b", "c0,-,1", "R0,0,r10/c0/r0", "c1,h0,2", "C1,i1,10/s:/-,1,1,3"},
	// windows (composite events W<hold>^<application event>^<peer message>):
	// the Return of a question arrives while a call pipelined on it is still being written: the
	// result is a capability of ours and must be embargoed (the transform was marked before the send)
	{"B0", "b", "Wc^c0,-,1^R0,0,r10/c0/r0", "c0,-,2", "C1,i0,10/s:/-,1,1,9", "Di0,r0", "r0,0", "r1,0", "R1,0,r10/s:/-"},
	// a Release for a freshly exported result capability arrives while its Return is being written and the
	// Finish(releaseResultCaps) is already in: the over-release is a protocol error -> Abort, shutdown
	{"B0", "C1,i0,10/s:/-,1,1,1", "F1,1", "Wr^r0,s:l1^L1,1", "B2"},
	// a further pipelined call arrives while the queue of an answer is being drained (the first
	// queued delivery not acknowledged yet): it must not overtake the queued ones
	{"B0", "C1,i0,10/s:/-,1,1,1", "C2,a1:f0,10/s:/-,1,1,2", "C3,a1:f0,10/s:/-,1,1,3", "Wa1^r0,s:l1^C4,a1:f0,10/s:/-,1,1,4", "r1,0", "r2,0", "r3,0"},
	// the last local reference of an import goes; while its Release is being written a Return names the
	// same import id again: the new client is a new import (own entry, own Release), not the dying one
	{"b", "b", "R0,0,r10/c0/h5", "Wl^l0^R1,0,r10/c0/h5", "c1,-,7", "R0,0,r10/s:/-", "l1", "b"},
	// the Finish of an answer arrives while its Return is being written: the answer is destroyed after the
	// send (the flag is read again), the peer may reuse the id
	{"B0", "C1,i0,10/s:/-,1,1,1", "Wr^r0,0^F1,0", "C1,i0,10/s:/-,1,1,2", "r1,0", "F1,0", "B2"},
	// a (duplicated) Return names the recycled id of a question whose Call is still being built and carries a
	// local capability: the call fails for the caller, nothing else happens
	{"b", "R0,0,r10/c0/h5", "Wp^c0,l1,5^R0,0,r10/s:/-", "c0,-,6", "R0,0,r10/s:/-", "l0"},
	// finish before return, release of result caps, repeated bootstrap (wire refs of one export)
	{"B0", "B1", "B2", "F0,1", "F1,0", "L0,1", "C3,a2:-,10/s:/-,1,1,1", "F3,1", "r0,s:l0.l0.l1", "F2,1"},
	// cancel, then the Return of the canceled question; id reuse
	{"b", "R0,0,r10/c0/h1", "c0,-,1", "x1", "c0,-,2", "R1,0,r10/s:/-", "c0,-,3", "R2,0,x1", "R1,0,x1"},
}

type source struct {
	kind   string
	k      *know
	script []string
	pos    int
	n      int
	stop   int
}

func (s *source) next() (evt, bool) {
	if s.script != nil {
		if s.pos >= len(s.script) {
			return evt{}, false
		}
		tok := s.script[s.pos]
		s.pos++
		return parseEvt(tok), true
	}
	if s.n >= s.stop {
		return evt{}, false
	}
	if s.k.down {
		// a few more events show that a shut-down connection stays quiet
		s.k.afterDown++
		if s.k.afterDown > 3 {
			return evt{}, false
		}
	}
	s.n++
	for {
		if e := s.k.next(s.kind == "m"); e.tok != "" {
			return e, true
		}
	}
}

// parseEvt reads "<token>[#hex]".
func parseEvt(s string) evt {
	if s[0] == 'W' || s[0] == 'X' {
		return evt{tok: s}
	}
	if i := strings.IndexByte(s, '#'); i >= 0 {
		if e := mk(Unhx(s[i+1:])); e.tok != "" {
			return e
		}
		return evt{tok: "G", bytes: buildMisc('U')}
	}
	e := evt{tok: s}
	if s[0] == 'W' {
		return e
	}
	if e.peer() {
		// the canonical token is the projection of the message actually sent
		return mk(tokenBytes(s))
	}
	return e
}
