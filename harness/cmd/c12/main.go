// Command c12: correspondence harness for property C12 (server.Server / answerQueue).
//
// A history is a static set of calls (direct calls on one server.Server, and calls pipelined
// on not-yet-returned answers) plus a list of decisions taken at quiescent points of a
// testing/synctest bubble: issue a call, let an implementation Ack / return, let the target
// of a delivered pipelined call return, cancel a caller's context, call Shutdown.  After each
// decision the bubble runs to quiescence and the harness records the ordered events seen by
// the instrumented method implementation / result capabilities and a projection of the state
// (completions per call, which Send/Recv/PipelineRecv have returned, which running
// implementations see a cancelled context).  The case line carries decisions and
// observations; the extracted Coq model (ocaml/server_driver.ml) accepts the line iff some
// interleaving of the model produces exactly these observations.
//
// The parent process generates nothing itself: it runs the histories in child processes
// (same binary, -child) under a watchdog, because a leaked mutex makes synctest.Wait hang and
// a deadlocked bubble cannot be left.
package main

import (
	"bufio"
	"context"
	"errors"
	"flag"
	"fmt"
	"os"
	"os/exec"
	"runtime"
	"sort"
	"strconv"
	"strings"
	"sync"
	"testing"
	"testing/synctest"
	"time"

	capnp "capnproto.org/go/capnp/v3"
	"capnproto.org/go/capnp/v3/server"
	. "verifh/hc"
)

var (
	childFlag = flag.Bool("child", false, "run histories (internal)")
	fromFlag  = flag.Int("from", 0, "first history index (internal)")
	countFlag = flag.Int("count", 0, "number of histories (internal)")
)

func main() { Main(run) }

const rule = "a history is non-trivial when at least two implementations ran, or a pipelined call was queued, or Shutdown raced with running calls"

func nHist(tier string) int {
	if tier == "thorough" {
		return 120000
	}
	return 2500
}

// ---------------------------------------------------------------- parent

func run(out *Out, r *Rand, tier string, replay []string) {
	if *childFlag {
		child(r, tier, replay)
		return
	}
	n := nHist(tier)
	if replay != nil {
		n = len(replay)
	}
	seed := r.U64() % 1000000007
	outDir := flag.Lookup("out").Value.String()
	replayFile := flag.Lookup("replay").Value.String()
	hangs, stucks := 0, 0
	i := 0
	for i < n {
		args := []string{"-out", outDir + "/child", "-seed", fmt.Sprint(seed), "-tier", tier, "-child",
			"-from", fmt.Sprint(i), "-count", fmt.Sprint(n)}
		if replayFile != "" {
			args = append(args, "-replay", replayFile)
		}
		cmd := exec.Command(os.Args[0], args...)
		cmd.Stderr = os.Stderr
		so, err := cmd.StdoutPipe()
		if err != nil {
			panic(err)
		}
		if err := cmd.Start(); err != nil {
			panic(err)
		}
		lines := make(chan string, 1024)
		go func() {
			sc := bufio.NewScanner(so)
			sc.Buffer(make([]byte, 1<<20), 1<<24)
			for sc.Scan() {
				lines <- sc.Text()
			}
			close(lines)
		}()
		var header string
		var toks []string
		cur := -1
		finished := false
		exitExpected := false // the child leaves after a stuck history (its bubble cannot be left)
	loop:
		for {
			select {
			case l, ok := <-lines:
				if !ok {
					break loop
				}
				f := strings.Split(l, "\t")
				switch f[0] {
				case "H":
					cur, _ = strconv.Atoi(f[1])
					header = f[2]
					toks = toks[:0]
				case "T":
					toks = append(toks, f[2])
				case "E":
					// E i kind impl class nontrivial
					caseLine := header + " | " + strings.Join(toks, " ")
					if strings.HasPrefix(f[3], "stuck") {
						caseLine += " STUCK"
						stucks++
						exitExpected = true
					}
					out.Case(f[2], caseLine, f[3], f[4], f[5] == "1")
					i = cur + 1
					cur = -1
				case "DONE":
					finished = true
				}
			case <-time.After(20 * time.Second):
				// the child hangs inside history cur
				cmd.Process.Kill()
				break loop
			}
		}
		cmd.Process.Kill()
		cmd.Wait()
		if finished {
			break
		}
		if cur >= 0 {
			// crashed or hung inside history cur
			hangs++
			out.Case("hang", header+" | "+strings.Join(toks, " ")+" HANG", "hang", "hang", true)
			i = cur + 1
		} else if i < n && !exitExpected {
			// child died between histories without finishing: should not happen
			out.Case("hang", "h 1 1 1 0 | HANG", "child-died", "hang", true)
			i++
		}
	}
	out.Extra["x_hangs"] = hangs
	out.Extra["x_stuck"] = stucks
	os.RemoveAll(outDir + "/child")
	out.Close(rule)
}

// ---------------------------------------------------------------- child

func child(r *Rand, tier string, replay []string) {
	runtime.GOMAXPROCS(2)
	seed := r.U64()
	w := bufio.NewWriter(os.Stdout)
	emit := func(s string) { fmt.Fprintln(w, s); w.Flush() }
	testing.Init()
	testing.Main(func(pat, str string) (bool, error) { return true, nil },
		[]testing.InternalTest{{Name: "C12", F: func(t *testing.T) {
			for i := *fromFlag; i < *countFlag; i++ {
				h := &hist{idx: i, emit: emit}
				if replay != nil {
					h.parse(replay[i])
				} else {
					h.rng = NewRand(seed*1000003 + uint64(i))
					h.generate(i)
				}
				emit(fmt.Sprintf("H\t%d\t%s", i, h.header()))
				end := func() {
					emit(fmt.Sprintf("E\t%d\t%s\t%s\t%s\t%s", i, h.kindName(), h.result, h.class, map[bool]string{true: "1", false: "0"}[h.nontrivial]))
				}
				synctest.Test(t, func(t *testing.T) {
					h.execute()
					if h.stuck {
						// goroutines of this history are blocked for good: the bubble cannot be left
						end()
						w.Flush()
						os.Exit(3)
					}
				})
				end()
			}
			emit("DONE")
			w.Flush()
			os.Exit(0)
		}}}, nil, nil)
}

// ---------------------------------------------------------------- histories

var meth = capnp.Method{InterfaceID: 0xc12c12c12c12c12c, MethodID: 0, InterfaceName: "verif.C12", MethodName: "m"}

const nPtr = 258 // pointer fields of every result struct; fields 0,1,257 carry capabilities
var fields = []uint16{0, 1, 257}

type hErr struct{ id int }

func (e *hErr) Error() string { return fmt.Sprintf("harness error %d", e.id) }

func cls(e error) string {
	if e == nil {
		return "ok"
	}
	var he *hErr
	if errors.As(e, &he) {
		return fmt.Sprintf("e%d", he.id)
	}
	if errors.Is(e, context.Canceled) {
		return "ctx"
	}
	return "fail"
}

type implCmd struct {
	ack bool
	err error
}

type call struct {
	id     int
	direct bool
	send   bool // direct call made with Send instead of Recv
	on     int  // pipelined: the call whose answer it is made on
	pred   int  // -1 or the previous call of the same caller
	field  uint16
	psend  bool // pipelined call made with PipelineSend: its Returner is the library's structReturner + Promise,
	// and calls pipelined on it go through that Promise (ongoingCalls)
	slow   bool // pipelined: if delivered by the drain loop, the target withholds its delivery acknowledgement (Recv blocks) until decision K
	self   bool // direct call whose result capabilities are the server itself (directed corpus cases only)

	ctx    context.Context
	cancel context.CancelFunc

	issued, returned, gotp, queued bool
	cancelled                      bool
	began, acked, implRet          bool
	implCtx                        context.Context
	cmd                            chan implCmd
	pc                             capnp.PipelineCaller
	ans                            *capnp.Answer
	release                        capnp.ReleaseFunc
	sendDone                       bool
	completions                    []string
	delivered, tret                bool
	blocked                        bool
	ackCh                          chan struct{}
	trecv                          capnp.Recv
	enqSeq                         int
	rel                            int // how many times the call's ReleaseArgs ran (calls made with Recv / PipelineRecv only)
}

type decision struct {
	kind byte // I A R T X Z
	c    int
	err  bool
}

func (d decision) String() string {
	switch d.kind {
	case 'Z':
		return "Z"
	case 'R', 'T':
		if d.err {
			return fmt.Sprintf("%c%de", d.kind, d.c)
		}
		return fmt.Sprintf("%c%do", d.kind, d.c)
	}
	return fmt.Sprintf("%c%d", d.kind, d.c)
}

type hist struct {
	idx   int
	emit  func(string)
	rng   *Rand
	max   int
	qs    int
	fixed int
	stress bool // generateStress history: keep call 0 running until everything that can be issued has been
	calls []*call
	plan  []decision // replay only

	srv *server.Server

	mu        sync.Mutex
	log       []string
	running   int
	maxrun    int
	order     []int
	deliv     []string
	shutCalls int
	shutUser  int
	shutDone  bool
	viol      map[string]bool
	enqCount  int
	queuedAny bool
	shutRaced bool

	result     string
	class      string
	nontrivial bool
	stuck      bool
}

func (h *hist) kindName() string {
	np := 0
	for _, c := range h.calls {
		if !c.direct {
			np++
		}
	}
	switch {
	case np == 0:
		return "direct-only"
	case np <= 2:
		return "pipelined"
	}
	return "pipelined-many"
}

// generateStress: call 0 acknowledges and keeps running; exactly AnswerQueueSize calls are queued
// on its answer (sizes 1, 2 and the default 8); then 0..2 more calls, on the answer itself (first
// level) or on the answer of a queued call (second level), find the queue full and block until
// the drain starts; call 0 returns ok or an error.
func (h *hist) generateStress() {
	r := h.rng
	h.stress = true
	h.max = 1 + r.Intn(3)
	h.qs = []int{1, 1, 2, 8, 8}[r.Intn(5)]
	h.fixed = 1
	add := func(c *call) {
		c.id = len(h.calls)
		c.pred = -1
		h.calls = append(h.calls, c)
	}
	add(&call{direct: true, send: r.Intn(3) == 0})
	for k := 0; k < h.qs; k++ {
		add(&call{on: 0, field: fields[r.Intn(len(fields))], psend: r.Intn(3) != 0, slow: r.Intn(6) == 0})
	}
	over := r.Intn(3)
	for k := 0; k < over; k++ {
		on := 0
		if r.Intn(3) != 0 {
			on = 1 + r.Intn(h.qs) // second level: on the answer of a queued call
		}
		add(&call{on: on, field: fields[r.Intn(len(fields))], psend: r.Intn(2) == 0})
	}
	for k := r.Intn(3); k > 0; k-- {
		if r.Intn(2) == 0 {
			add(&call{direct: true})
		} else {
			add(&call{on: r.Intn(len(h.calls)), field: fields[r.Intn(len(fields))], psend: r.Intn(3) == 0})
		}
	}
}

func (h *hist) generate(i int) {
	r := h.rng
	if r.Intn(5) == 0 {
		h.generateStress()
		return
	}
	h.max = 1 + r.Intn(3)
	h.qs = 1 + r.Intn(2)
	if r.Intn(8) == 0 {
		h.qs = 3
	}
	h.fixed = 1
	n := 1 + r.Intn(7)
	ncallers := 1 + r.Intn(3)
	last := make([]int, ncallers)
	for k := range last {
		last[k] = -1
	}
	pipeBias := r.Intn(3) // 0: few pipelined, 2: many
	for id := 0; id < n; id++ {
		c := &call{id: id, pred: -1}
		if id == 0 || r.Intn(3) >= pipeBias+0 && r.Intn(2) == 0 || pipeBias == 0 && r.Intn(4) != 0 {
			c.direct = true
			c.send = r.Intn(3) == 0
		} else {
			c.on = r.Intn(id)
			c.field = fields[r.Intn(len(fields))]
			c.slow = r.Intn(3) == 0
			c.psend = r.Intn(3) == 0
		}
		k := r.Intn(ncallers)
		c.pred = last[k]
		last[k] = id
		h.calls = append(h.calls, c)
	}
}

func (h *hist) header() string {
	var sb strings.Builder
	fmt.Fprintf(&sb, "h %d %d %d %d", h.max, h.qs, h.fixed, len(h.calls))
	for _, c := range h.calls {
		pr := "-"
		if c.pred >= 0 {
			pr = fmt.Sprint(c.pred)
		}
		switch {
		case c.direct && c.send:
			fmt.Fprintf(&sb, " s:%s", pr)
		case c.direct && c.self:
			fmt.Fprintf(&sb, " d:%s:self", pr)
		case c.direct:
			fmt.Fprintf(&sb, " d:%s", pr)
		default:
			var fl []string
			if c.slow {
				fl = append(fl, "slow")
			}
			if c.psend {
				fl = append(fl, "send")
			}
			if len(fl) > 0 {
				fmt.Fprintf(&sb, " p%d:%s:%d:%s", c.on, pr, c.field, strings.Join(fl, "+"))
			} else {
				fmt.Fprintf(&sb, " p%d:%s:%d", c.on, pr, c.field)
			}
		}
	}
	return sb.String()
}

func (h *hist) parse(line string) {
	f := strings.Fields(line)
	h.max, _ = strconv.Atoi(f[1])
	h.qs, _ = strconv.Atoi(f[2])
	h.fixed, _ = strconv.Atoi(f[3])
	n, _ := strconv.Atoi(f[4])
	for id := 0; id < n; id++ {
		s := strings.Split(f[5+id], ":")
		c := &call{id: id, pred: -1}
		if s[1] != "-" {
			c.pred, _ = strconv.Atoi(s[1])
		}
		switch s[0][0] {
		case 'd':
			c.direct = true
			c.self = len(s) > 2 && s[2] == "self"
		case 's':
			c.direct, c.send = true, true
		case 'p':
			c.on, _ = strconv.Atoi(s[0][1:])
			if len(s) > 2 {
				x, _ := strconv.Atoi(s[2])
				c.field = uint16(x)
			}
			if len(s) > 3 {
				c.slow = strings.Contains(s[3], "slow")
				c.psend = strings.Contains(s[3], "send")
			}
		}
		h.calls = append(h.calls, c)
	}
	h.plan = []decision{}
	for _, t := range f[5+n:] {
		if t == "|" || t[0] == '[' || t[0] == '{' || t == "HANG" || t == "STUCK" {
			continue
		}
		d := decision{kind: t[0]}
		body := t[1:]
		if d.kind == 'R' || d.kind == 'T' {
			d.err = body[len(body)-1] == 'e'
			body = body[:len(body)-1]
		}
		if d.kind != 'Z' {
			d.c, _ = strconv.Atoi(body)
		}
		h.plan = append(h.plan, d)
	}
}

// ---------------------------------------------------------------- instrumentation

func (h *hist) flag(v string) { h.viol[v] = true }

type shutdowner struct{ h *hist }

func (s shutdowner) Shutdown() {
	h := s.h
	h.mu.Lock()
	h.log = append(h.log, "u")
	h.shutUser++
	if h.running > 0 {
		h.flag("shutdown-before-calls-finished")
	}
	for _, c := range h.calls {
		if c.began && len(c.completions) == 0 && !c.viaAns() {
			h.flag("shutdown-before-calls-finished")
		}
	}
	h.mu.Unlock()
}

func (h *hist) impl(ctx context.Context, sc *server.Call) error {
	id := int(sc.Args().Uint32(0))
	c := h.calls[id]
	h.mu.Lock()
	if c.began {
		h.flag("started-twice")
	}
	for _, o := range h.calls {
		if o != c && o.began && !o.acked && !o.implRet {
			h.flag("gate")
		}
		// calls issued earlier by the same caller must have been seen first (or rejected)
	}
	for p := c.pred; p >= 0; p = h.calls[p].pred {
		o := h.calls[p]
		if o.direct && !o.began && len(o.completions) == 0 && !o.sendDone {
			h.flag("order")
		}
	}
	if h.shutCalls > 0 {
		h.flag("start-after-shutdown")
	}
	c.began = true
	c.implCtx = ctx
	h.running++
	if h.running > h.maxrun {
		h.maxrun = h.running
	}
	if h.running > h.max {
		h.flag("cap")
	}
	h.order = append(h.order, id)
	h.log = append(h.log, fmt.Sprintf("b%d", id))
	h.mu.Unlock()
	for cmd := range c.cmd {
		if cmd.ack {
			sc.Ack()
			continue
		}
		if cmd.err == nil {
			res, err := sc.AllocResults(capnp.ObjectSize{PointerCount: nPtr})
			if err != nil {
				panic(err)
			}
			h.fillCaps(res, id)
		}
		h.mu.Lock()
		h.running--
		c.implRet = true
		h.mu.Unlock()
		return cmd.err
	}
	panic("impl: command channel closed")
}

func (h *hist) fillCaps(res capnp.Struct, of int) {
	for _, f := range fields {
		var cl *capnp.Client
		if h.calls[of].direct && h.calls[of].self {
			cl = capnp.NewClient(selfHook{h})
		} else {
			cl = capnp.NewClient(&target{h: h, of: of, field: f})
		}
		id := res.Message().AddCap(cl)
		if err := res.SetPtr(f, capnp.NewInterface(res.Segment(), id).ToPtr()); err != nil {
			panic(err)
		}
	}
}

// target is a capability placed in result structs; it records the pipelined calls delivered to it.
type target struct {
	h     *hist
	of    int
	field uint16
}

func (t *target) Recv(ctx context.Context, r capnp.Recv) capnp.PipelineCaller {
	h := t.h
	id := int(r.Args.Uint32(0))
	p := h.calls[id]
	h.mu.Lock()
	if p.delivered {
		h.flag("delivered-twice")
	}
	if p.direct || p.field != t.field {
		h.flag("transform")
	}
	if p.on != t.of {
		h.flag("wrong-target")
	}
	h.noteDelivery(p)
	p.delivered = true
	p.trecv = r
	ev := fmt.Sprintf("v%d:r%d", id, t.of)
	h.log = append(h.log, ev)
	h.deliv = append(h.deliv, ev)
	h.holdAck(p)
	return &fwd{h: h, of: id}
}

// Send is reached when a PipelineSend call finds the Promise it was made on already resolved.
func (t *target) Send(ctx context.Context, s capnp.Send) (*capnp.Answer, capnp.ReleaseFunc) {
	sr := &promRet{}
	pc := t.Recv(ctx, capnp.Recv{Method: s.Method, Args: argsFromSend(s), ReleaseArgs: func() {}, Returner: sr})
	sr.p = capnp.NewPromise(s.Method, pc)
	return sr.p.Answer(), func() {}
}

// promRet is the Returner behind target.Send / fwd.PipelineSend: it resolves a Promise.
type promRet struct {
	p   *capnp.Promise
	res capnp.Struct
}

func (r *promRet) AllocResults(sz capnp.ObjectSize) (capnp.Struct, error) {
	_, seg, err := capnp.NewMessage(capnp.SingleSegment(nil))
	if err != nil {
		return capnp.Struct{}, err
	}
	r.res, err = capnp.NewRootStruct(seg, sz)
	return r.res, err
}

func (r *promRet) Return(e error) {
	if e != nil {
		r.p.Reject(e)
		return
	}
	r.p.Fulfill(r.res.ToPtr())
}

func argsFromSend(s capnp.Send) capnp.Struct {
	_, seg, err := capnp.NewMessage(capnp.SingleSegment(nil))
	if err != nil {
		panic(err)
	}
	st, err := capnp.NewRootStruct(seg, s.ArgsSize)
	if err != nil {
		panic(err)
	}
	if s.PlaceArgs != nil {
		if err := s.PlaceArgs(st); err != nil {
			panic(err)
		}
	}
	return st
}
func (t *target) Brand() capnp.Brand { return capnp.Brand{} }
func (t *target) Shutdown()          {}

// selfHook is the server's own capability as it appears in a result struct (Shutdown is not
// forwarded: the harness owns the server).
type selfHook struct{ h *hist }

func (s selfHook) Recv(ctx context.Context, r capnp.Recv) capnp.PipelineCaller {
	return s.h.srv.Recv(ctx, r)
}
func (s selfHook) Send(ctx context.Context, snd capnp.Send) (*capnp.Answer, capnp.ReleaseFunc) {
	return s.h.srv.Send(ctx, snd)
}
func (s selfHook) Brand() capnp.Brand { return capnp.Brand{} }
func (s selfHook) Shutdown()          {}

// fwd is the PipelineCaller a target returns for a delivered call that has not returned yet.
type fwd struct {
	h  *hist
	of int
}

func (f *fwd) PipelineRecv(ctx context.Context, transform []capnp.PipelineOp, r capnp.Recv) capnp.PipelineCaller {
	h := f.h
	id := int(r.Args.Uint32(0))
	p := h.calls[id]
	h.mu.Lock()
	if p.delivered {
		h.flag("delivered-twice")
	}
	if p.direct || len(transform) != 1 || transform[0].Field != p.field {
		h.flag("transform")
	}
	if p.on != f.of {
		h.flag("wrong-target")
	}
	h.noteDelivery(p)
	p.delivered = true
	p.trecv = r
	ev := fmt.Sprintf("v%d:f%d", id, f.of)
	h.log = append(h.log, ev)
	h.deliv = append(h.deliv, ev)
	h.holdAck(p)
	return &fwd{h: h, of: id}
}

func (f *fwd) PipelineSend(ctx context.Context, transform []capnp.PipelineOp, s capnp.Send) (*capnp.Answer, capnp.ReleaseFunc) {
	sr := &promRet{}
	pc := f.PipelineRecv(ctx, transform, capnp.Recv{Method: s.Method, Args: argsFromSend(s), ReleaseArgs: func() {}, Returner: sr})
	sr.p = capnp.NewPromise(s.Method, pc)
	return sr.p.Answer(), func() {}
}

// holdAck is called with h.mu held at the end of a delivery: a slow target that received a queued
// call (i.e. from the drain loop) does not return from Recv until decision K.
func (h *hist) holdAck(p *call) {
	if p.slow && p.queued {
		p.blocked = true
		p.ackCh = make(chan struct{})
		ch := p.ackCh
		h.mu.Unlock()
		<-ch
		return
	}
	h.mu.Unlock()
}

// queue order monitor: a queued call must not be delivered after a call that entered the same
// queue later, nor after a call that was not queued at all (it arrived while draining).
func (h *hist) noteDelivery(p *call) {
	root := h.rootOf(p)
	for _, o := range h.calls {
		if o == p || o.direct || !o.delivered || h.rootOf(o) != root {
			continue
		}
		if p.queued && (!o.queued || o.enqSeq > p.enqSeq) {
			h.flag("queue-order")
		}
	}
}

// viaAns: the call was made with Send / PipelineSend; its completion is observed through its Answer.
func (c *call) viaAns() bool { return (c.direct && c.send) || (!c.direct && c.psend) }

// coarse: errors of this call may have passed through an Answer (annotated): only ok / err.
func (h *hist) coarse(c *call) bool {
	for {
		if c.viaAns() {
			return true
		}
		if c.direct {
			return false
		}
		c = h.calls[c.on]
	}
}

func (h *hist) rootOf(c *call) int {
	for !c.direct {
		c = h.calls[c.on]
	}
	return c.id
}

// ret is the Returner of calls made with Recv / PipelineRecv.
type ret struct {
	h  *hist
	id int
}

func (r *ret) AllocResults(sz capnp.ObjectSize) (capnp.Struct, error) {
	_, seg, err := capnp.NewMessage(capnp.SingleSegment(nil))
	if err != nil {
		return capnp.Struct{}, err
	}
	return capnp.NewRootStruct(seg, sz)
}

func (r *ret) Return(e error) {
	h := r.h
	h.mu.Lock()
	c := h.calls[r.id]
	if c.rel == 0 {
		// the arguments must have been released no later than the completion (Recv.Return / Recv.Reject / the
		// method goroutine: ReleaseArgs first, then Returner.Return)
		h.flag("args-not-released")
	}
	k := cls(e)
	if h.coarse(c) && e != nil {
		k = "err" // errors that passed through the root's Answer are annotated: only ok / err
	}
	c.completions = append(c.completions, k)
	if len(c.completions) > 1 {
		h.flag("completed-twice")
	}
	h.mu.Unlock()
}

// relArgs is the ReleaseArgs of a call made with Recv / PipelineRecv: it counts.
func (h *hist) relArgs(c *call) capnp.ReleaseFunc {
	return func() {
		h.mu.Lock()
		c.rel++
		if c.rel > 1 {
			h.flag("args-released-twice")
		}
		h.mu.Unlock()
	}
}

func argsFor(id int) capnp.Struct {
	_, seg, err := capnp.NewMessage(capnp.SingleSegment(nil))
	if err != nil {
		panic(err)
	}
	st, err := capnp.NewRootStruct(seg, capnp.ObjectSize{DataSize: 8})
	if err != nil {
		panic(err)
	}
	st.SetUint32(0, uint32(id))
	return st
}

// ---------------------------------------------------------------- execution

func (h *hist) issue(c *call) {
	c.issued = true
	c.ctx, c.cancel = context.WithCancel(context.Background())
	if c.cancelled {
		c.cancel()
	}
	c.cmd = make(chan implCmd)
	go func() {
		var pc capnp.PipelineCaller
		switch {
		case c.direct && c.send:
			ans, rel := h.srv.Send(c.ctx, capnp.Send{Method: meth, ArgsSize: capnp.ObjectSize{DataSize: 8},
				PlaceArgs: func(s capnp.Struct) error { s.SetUint32(0, uint32(c.id)); return nil }})
			h.mu.Lock()
			c.ans, c.release = ans, rel
			c.gotp = c.acked && !c.implRet
			c.returned = true
			h.mu.Unlock()
			return
		case c.direct:
			pc = h.srv.Recv(c.ctx, capnp.Recv{Method: meth, Args: argsFor(c.id), ReleaseArgs: h.relArgs(c), Returner: &ret{h, c.id}})
		default:
			on := h.calls[c.on]
			tr := []capnp.PipelineOp{{Field: c.field}}
			if c.psend {
				snd := capnp.Send{Method: meth, ArgsSize: capnp.ObjectSize{DataSize: 8},
					PlaceArgs: func(s capnp.Struct) error { s.SetUint32(0, uint32(c.id)); return nil }}
				var ans *capnp.Answer
				var rel capnp.ReleaseFunc
				if on.viaAns() {
					ans, rel = on.ans.PipelineSend(c.ctx, tr, snd)
				} else {
					ans, rel = on.pc.PipelineSend(c.ctx, tr, snd)
				}
				h.mu.Lock()
				c.ans, c.release = ans, rel
				done := false
				select {
				case <-ans.Done():
					done = true
				default:
				}
				// queued iff neither delivered nor completed when PipelineSend returns
				if !c.delivered && !done {
					c.queued = true
					c.enqSeq = h.enqCount
					h.enqCount++
					h.queuedAny = true
				}
				c.gotp = true
				c.returned = true
				h.mu.Unlock()
				return
			}
			r := capnp.Recv{Method: meth, Args: argsFor(c.id), ReleaseArgs: h.relArgs(c), Returner: &ret{h, c.id}}
			if on.viaAns() {
				pc = on.ans.PipelineRecv(c.ctx, tr, r)
			} else {
				pc = on.pc.PipelineRecv(c.ctx, tr, r)
			}
		}
		h.mu.Lock()
		c.pc = pc
		c.gotp = pc != nil
		if !c.direct && pc != nil && strings.HasSuffix(fmt.Sprintf("%T", pc), "queueCaller") {
			c.queued = true
			c.enqSeq = h.enqCount
			h.enqCount++
			h.queuedAny = true
		}
		c.returned = true
		h.mu.Unlock()
	}()
}

func (h *hist) anyIssuable() bool {
	for _, c := range h.calls {
		if h.canIssue(c) {
			return true
		}
	}
	return false
}

func (h *hist) canIssue(c *call) bool {
	if c.issued {
		return false
	}
	if c.pred >= 0 && !h.calls[c.pred].returned {
		return false
	}
	if c.direct {
		return true
	}
	on := h.calls[c.on]
	if on.direct {
		return on.returned && on.gotp
	}
	return on.returned && on.queued
}

func (h *hist) completed(c *call) bool {
	if c.viaAns() {
		return c.sendDone
	}
	return len(c.completions) > 0
}

func (h *hist) available(step int) ([]decision, []int) {
	var ds []decision
	var ws []int
	add := func(d decision, w int) {
		if w > 0 {
			ds = append(ds, d)
			ws = append(ws, w)
		}
	}
	late := step > 6*len(h.calls)+6
	// a drain loop is stuck in a slow target: calls arriving now arrive "during the drain"
	stuckRoot := map[int]bool{}
	for _, c := range h.calls {
		if !c.direct && c.blocked {
			stuckRoot[h.rootOf(c)] = true
		}
	}
	for _, c := range h.calls {
		if h.canIssue(c) {
			w := 6
			if !c.direct && stuckRoot[h.rootOf(c)] {
				w = 30
			}
			add(decision{kind: 'I', c: c.id}, w)
		}
		if c.began && !c.implRet {
			if !c.acked {
				add(decision{kind: 'A', c: c.id}, 5)
			}
			w := 2
			if late || c.acked {
				w = 4
			}
			we := 1 + w/4
			if h.stress && c.id == 0 && !late {
				// let the queue fill up and the overflow callers block first
				w, we = 0, 0
				if c.acked && !h.anyIssuable() {
					w, we = 4, 4
				}
			}
			add(decision{kind: 'R', c: c.id, err: false}, w)
			add(decision{kind: 'R', c: c.id, err: true}, we)
		}
		if !c.direct && c.blocked {
			w := 3
			if late {
				w = 8
			}
			add(decision{kind: 'K', c: c.id}, w)
		}
		if !c.direct && c.delivered && !c.tret && !c.blocked {
			w := 2
			if late {
				w = 6
			}
			add(decision{kind: 'T', c: c.id, err: false}, w)
			add(decision{kind: 'T', c: c.id, err: true}, 1)
		}
		if !c.cancelled && !h.completed(c) && !late {
			w := 0
			if c.issued && !c.returned {
				w = 3 // blocked inside Send/Recv/PipelineRecv: the interesting cancellation points
			} else if h.rng != nil && h.rng.Intn(6) == 0 {
				w = 1
			}
			add(decision{kind: 'X', c: c.id}, w)
		}
	}
	if h.shutCalls == 0 {
		w := 1
		if late {
			w = 8
		}
		add(decision{kind: 'Z'}, w)
	}
	return ds, ws
}

func (h *hist) applicable(d decision) bool {
	if d.kind == 'Z' {
		return h.shutCalls == 0
	}
	if d.c < 0 || d.c >= len(h.calls) {
		return false
	}
	c := h.calls[d.c]
	switch d.kind {
	case 'I':
		return h.canIssue(c)
	case 'A':
		return c.began && !c.implRet && !c.acked
	case 'R':
		return c.began && !c.implRet
	case 'T':
		return !c.direct && c.delivered && !c.tret && !c.blocked
	case 'K':
		return !c.direct && c.blocked
	case 'X':
		return !c.cancelled
	}
	return false
}

func (h *hist) apply(d decision) {
	switch d.kind {
	case 'I':
		h.issue(h.calls[d.c])
	case 'A':
		c := h.calls[d.c]
		c.acked = true
		c.cmd <- implCmd{ack: true}
	case 'R':
		c := h.calls[d.c]
		var e error
		if d.err {
			e = &hErr{c.id}
		}
		c.cmd <- implCmd{err: e}
	case 'T':
		c := h.calls[d.c]
		c.tret = true
		r := c.trecv
		go func() {
			if d.err {
				r.Reject(&hErr{c.id})
				return
			}
			res, err := r.AllocResults(capnp.ObjectSize{PointerCount: nPtr})
			if err != nil {
				panic(err)
			}
			h.fillCaps(res, c.id)
			r.Return()
		}()
	case 'K':
		c := h.calls[d.c]
		c.blocked = false
		close(c.ackCh)
	case 'X':
		c := h.calls[d.c]
		c.cancelled = true
		if c.cancel != nil {
			c.cancel()
		}
	case 'Z':
		h.shutCalls++
		if h.running > 0 {
			h.shutRaced = true
		}
		go func() {
			h.srv.Shutdown()
			h.mu.Lock()
			h.shutDone = true
			h.mu.Unlock()
		}()
	}
}

// observe is called at a quiescent point: returns the ordered events since the last one and
// the state projection.
func (h *hist) observe() (string, string) {
	h.mu.Lock()
	defer h.mu.Unlock()
	for _, c := range h.calls {
		if c.viaAns() && c.ans != nil && !c.sendDone {
			select {
			case <-c.ans.Done():
				_, err := c.ans.Struct()
				c.sendDone = true
				k := "ok" // the Answer annotates errors: only ok / err can be told apart
				if err != nil {
					k = "err"
				}
				c.completions = append(c.completions, k)
			default:
			}
		}
	}
	obs := "[" + strings.Join(h.log, ",") + "]"
	h.log = h.log[:0]
	var comp, retd, canc, rels []string
	for _, c := range h.calls {
		if !c.viaAns() && c.rel > 0 {
			if c.rel == 1 {
				rels = append(rels, fmt.Sprint(c.id))
			} else {
				rels = append(rels, fmt.Sprintf("%dx%d", c.id, c.rel))
			}
		}
		if len(c.completions) > 0 {
			comp = append(comp, fmt.Sprintf("%d=%s", c.id, strings.Join(c.completions, "+")))
		}
		if c.returned {
			s := "n"
			switch {
			case c.direct && c.gotp:
				s = "p"
			case !c.direct && c.queued:
				s = "q"
			case !c.direct:
				s = "x"
			}
			retd = append(retd, fmt.Sprintf("%d%s", c.id, s))
		}
		if c.began && !c.implRet && c.implCtx.Err() != nil {
			canc = append(canc, fmt.Sprintf("c%d", c.id))
		}
	}
	// liveness of the drain: once a method implementation has returned, its goroutine delivers or
	// rejects the queued calls and completes the call before the bubble is quiescent - unless a
	// slow target is holding a delivery (decision K pending)
	for _, c := range h.calls {
		if !c.direct || !c.implRet || h.completed(c) {
			continue
		}
		held := false
		for _, p := range h.calls {
			if !p.direct && p.blocked && h.rootOf(p) == c.id {
				held = true
			}
		}
		if !held {
			h.flag("return-blocked")
		}
	}
	if h.shutCalls > 0 {
		for _, c := range h.calls {
			if c.began && !c.implRet && c.implCtx.Err() == nil {
				h.flag("shutdown-did-not-cancel")
			}
		}
	}
	return obs, "{" + strings.Join(comp, ",") + "|" + strings.Join(retd, ",") + "|" + strings.Join(canc, ",") + "|" + strings.Join(rels, ",") + "}"
}

func (h *hist) execute() {
	h.viol = map[string]bool{}
	h.srv = server.New([]server.Method{{Method: meth, Impl: h.impl}}, nil, shutdowner{h},
		&server.Policy{MaxConcurrentCalls: h.max, AnswerQueueSize: h.qs})
	step := 0
	for {
		var d decision
		if h.plan != nil {
			found := false
			for len(h.plan) > 0 {
				d = h.plan[0]
				h.plan = h.plan[1:]
				if h.applicable(d) {
					found = true
					break
				}
			}
			if !found {
				break
			}
		} else {
			ds, ws := h.available(step)
			if len(ds) == 0 {
				break
			}
			d = ds[h.rng.Pick(ws...)]
		}
		step++
		h.apply(d)
		synctest.Wait()
		obs, st := h.observe()
		h.emit(fmt.Sprintf("T\t%d\t%s", h.idx, d.String()))
		h.emit(fmt.Sprintf("T\t%d\t%s", h.idx, obs))
		h.emit(fmt.Sprintf("T\t%d\t%s", h.idx, st))
	}
	// wind down: everything that is still possible has been done in generated histories;
	// a replayed prefix may leave work: finish it with fixed choices
	for h.plan != nil {
		ds, _ := h.available(1 << 20)
		if len(ds) == 0 {
			break
		}
		d := ds[0]
		h.apply(d)
		synctest.Wait()
		obs, st := h.observe()
		h.emit(fmt.Sprintf("T\t%d\t%s", h.idx, d.String()))
		h.emit(fmt.Sprintf("T\t%d\t%s", h.idx, obs))
		h.emit(fmt.Sprintf("T\t%d\t%s", h.idx, st))
	}
	h.finish()
}

func (h *hist) finish() {
	h.mu.Lock()
	// every issued call must have completed exactly once, and its Send/Recv must have returned
	for _, c := range h.calls {
		if !c.issued {
			continue
		}
		if !c.returned || len(c.completions) == 0 {
			h.stuck = true
		}
		if len(c.completions) > 1 {
			h.flag("completed-twice")
		}
		if c.began && !c.implRet {
			h.stuck = true
		}
		// arguments released exactly once by the time the call has completed
		if !c.viaAns() && len(c.completions) > 0 {
			if c.rel == 0 {
				h.flag("args-not-released")
			}
			if c.rel > 1 {
				h.flag("args-released-twice")
			}
		}
	}
	if h.shutCalls > 0 && !h.shutDone {
		h.stuck = true
	}
	if h.shutCalls > 0 && h.shutDone && h.shutUser != 1 {
		h.flag("user-shutdown-count")
	}
	if h.shutUser > 1 {
		h.flag("user-shutdown-count")
	}
	var comp []string
	for _, c := range h.calls {
		s := "-"
		if len(c.completions) > 0 {
			s = strings.Join(c.completions, "+")
		}
		comp = append(comp, fmt.Sprintf("%d:%s", c.id, s))
	}
	var relv []string
	for _, c := range h.calls {
		if c.viaAns() {
			relv = append(relv, fmt.Sprintf("%d:?", c.id)) // the library's own ReleaseArgs: not observable
		} else {
			relv = append(relv, fmt.Sprintf("%d:%d", c.id, c.rel))
		}
	}
	var ord []string
	for _, x := range h.order {
		ord = append(ord, fmt.Sprint(x))
	}
	var vs []string
	for v := range h.viol {
		vs = append(vs, v)
	}
	sort.Strings(vs)
	v := "-"
	if len(vs) > 0 {
		v = strings.Join(vs, "+")
	}
	h.result = fmt.Sprintf("ok order=%s maxrun=%d compl=%s shut=%d deliv=%s rel=%s viol=%s",
		strings.Join(ord, ","), h.maxrun, strings.Join(comp, ","), h.shutUser, strings.Join(h.deliv, ","), strings.Join(relv, ","), v)
	h.class = fmt.Sprintf("max%d-run%d-shut%d", h.max, h.maxrun, h.shutUser)
	if h.stuck {
		h.result = "stuck " + h.result
		h.class = "stuck"
	}
	h.nontrivial = len(h.order) >= 2 || h.queuedAny || h.shutRaced
	h.mu.Unlock()
	if !h.stuck {
		for _, c := range h.calls {
			if c.release != nil {
				c.release()
			}
			if c.cancel != nil {
				c.cancel()
			}
		}
	}
}
