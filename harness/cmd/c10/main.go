// Command c10: correspondence harness for property C10 (capability.go reference counting).
//
// Every history is a set of goroutines ("threads"), each with a list of operations on
// capnp.Client / WeakClient / ClientPromise handles kept in slot tables.  The goroutines run
// inside a testing/synctest bubble and are driven through an explicit schedule: a thread only
// runs when the scheduler grants it one step, and it stops again at the next pause point
//   - before starting its next operation,
//   - before every mutex acquisition in capability.go (verif-tagged yield hook),
//   - inside the instrumented ClientHook's Send/Recv (the application call-out),
//   - at the entry of the instrumented ClientHook's Shutdown.
//
// These are exactly the step boundaries of the Coq model (coq/Cap/Cap.v).  Whether a paused
// thread can take its step is probed with TryLock on the mutex it is about to acquire.  The
// harness records the schedule it chose; the model driver replays the same schedule and both
// print: status, event log, per-op result classes, per-hook refs/calls/done/shutdown count
// and the set of enabled threads before every step.
package main

import (
	"context"
	"fmt"
	"os"
	"runtime"
	"strconv"
	"strings"
	"sync"
	"testing"
	"testing/synctest"
	"time"

	capnp "capnproto.org/go/capnp/v3"
	. "verifh/hc"
)

// ---------------------------------------------------------------- ops

type op struct {
	k    byte // n p a r w u c f v s t
	a, b int  // for calls b = recv + 2*abn; abn: 0 normal return, 1 hook panics, 2 PlaceArgs panics, 3 Goexit in a goroutine
}

func (o op) String() string {
	switch o.k {
	case 'n', 'r', 'v', 't':
		return fmt.Sprintf("%c:%d", o.k, o.a)
	case 'c':
		if o.b >= 2 {
			return fmt.Sprintf("c:%d:%d:%d", o.a, o.b&1, o.b>>1)
		}
	}
	return fmt.Sprintf("%c:%d:%d", o.k, o.a, o.b)
}

func parseOp(s string) op {
	f := strings.Split(s, ":")
	o := op{k: f[0][0]}
	if len(f) > 1 {
		o.a, _ = strconv.Atoi(f[1])
	}
	if len(f) > 2 {
		o.b, _ = strconv.Atoi(f[2])
	}
	if len(f) > 3 {
		abn, _ := strconv.Atoi(f[3])
		o.b += 2 * abn
	}
	return o
}

func progsString(progs [][]op) string {
	ps := make([]string, len(progs))
	for i, p := range progs {
		if len(p) == 0 {
			ps[i] = "-"
			continue
		}
		s := make([]string, len(p))
		for j, o := range p {
			s[j] = o.String()
		}
		ps[i] = strings.Join(s, ",")
	}
	return strings.Join(ps, ";")
}

func parseProgs(s string) [][]op {
	var progs [][]op
	for _, p := range strings.Split(s, ";") {
		var prog []op
		if p != "-" {
			for _, o := range strings.Split(p, ",") {
				prog = append(prog, parseOp(o))
			}
		}
		progs = append(progs, prog)
	}
	return progs
}

// ---------------------------------------------------------------- world

const (
	stRunning = iota // not at a pause point (running, or blocked inside the library on <-done)
	stIdle
	stAtLock
	stInCall
	stAtShutdown
	stFinished
)

type thr struct {
	id        int
	prog      []op
	grant     chan bool
	status    int
	mu        *sync.Mutex
	results   []byte
	delivered bool
	abn       int // how the current call's hook ends (see op.b)
}

type world struct {
	lk      sync.Mutex
	threads []*thr
	byGoid  map[int64]*thr
	events  []string
	hooks   []*ihook
	views   []*capnp.VerifHook
	cs      map[int]*capnp.Client
	ws      map[int]*capnp.WeakClient
	ps      map[int]*capnp.ClientPromise
	steps   []int // steps granted per thread
}

var curWorld *world

// raceKs: for mode "race", the number of steps of thread 1 after which each racer runs.
var raceKs []int

func goid() int64 {
	var buf [64]byte
	n := runtime.Stack(buf[:], false)
	f := strings.Fields(string(buf[:n]))
	id, _ := strconv.ParseInt(f[1], 10, 64)
	return id
}

func (w *world) me() *thr {
	w.lk.Lock()
	defer w.lk.Unlock()
	return w.byGoid[goid()]
}

// pause parks the calling thread at a pause point until the scheduler grants it a step.
func (w *world) pause(th *thr, st int, mu *sync.Mutex) {
	w.lk.Lock()
	th.status = st
	th.mu = mu
	w.lk.Unlock()
	if ok := <-th.grant; !ok {
		runtime.Goexit()
	}
	w.lk.Lock()
	th.status = stRunning
	w.lk.Unlock()
}

func yieldHook(mu *sync.Mutex) {
	w := curWorld
	if w == nil {
		return
	}
	th := w.me()
	if th == nil {
		return
	}
	w.pause(th, stAtLock, mu)
}

// ihook is the instrumented capability.
type ihook struct {
	w  *world
	id int
}

type sentinelErr struct{}

func (sentinelErr) Error() string { return "verif: delivered" }

func (h *ihook) callout(ev string) {
	w := h.w
	th := w.me()
	w.lk.Lock()
	w.events = append(w.events, fmt.Sprintf("%s%d", ev, h.id))
	w.lk.Unlock()
	if th != nil {
		th.delivered = true
		w.pause(th, stInCall, nil)
	}
}

// abnormalEnd ends the call-out the way the current op asks for (after the scheduler has
// granted the "return" step): panic in the hook, panic in the caller's PlaceArgs callback run
// by the hook, or runtime.Goexit.
func (h *ihook) abnormalEnd(placeArgs func(capnp.Struct) error) {
	th := h.w.me()
	if th == nil {
		return
	}
	switch th.abn {
	case 1:
		panic(sentinelErr{})
	case 2:
		if placeArgs != nil {
			placeArgs(capnp.Struct{})
		}
		panic(sentinelErr{})
	case 3:
		runtime.Goexit()
	}
}

func (h *ihook) Send(ctx context.Context, s capnp.Send) (*capnp.Answer, capnp.ReleaseFunc) {
	h.callout("S")
	h.abnormalEnd(s.PlaceArgs)
	return capnp.ErrorAnswer(s.Method, sentinelErr{}), func() {}
}

func (h *ihook) Recv(ctx context.Context, r capnp.Recv) capnp.PipelineCaller {
	h.callout("V")
	h.abnormalEnd(nil)
	r.Reject(sentinelErr{})
	return nil
}

func (h *ihook) Brand() capnp.Brand { return capnp.Brand{Value: h} }

func (h *ihook) Shutdown() {
	w := h.w
	th := w.me()
	if th != nil {
		w.pause(th, stAtShutdown, nil)
	}
	w.lk.Lock()
	w.events = append(w.events, fmt.Sprintf("X%d", h.id))
	w.lk.Unlock()
}

type returner struct{ err error }

func (r *returner) AllocResults(sz capnp.ObjectSize) (capnp.Struct, error) {
	return capnp.Struct{}, fmt.Errorf("no results")
}
func (r *returner) Return(e error) { r.err = e }

func (w *world) newHook() *ihook {
	h := &ihook{w: w, id: len(w.hooks)}
	w.hooks = append(w.hooks, h)
	return h
}

// exec runs one operation of thread th; the result class is one byte.
func (w *world) exec(th *thr, o op) (res byte) {
	defer func() {
		if e := recover(); e != nil {
			res = 'P'
		}
	}()
	switch o.k {
	case 'n':
		h := w.newHook()
		c := capnp.NewClient(h)
		w.views = append(w.views, capnp.VerifHookOf(c))
		w.cs[o.a] = c
		return 'k'
	case 'p':
		h := w.newHook()
		c, p := capnp.NewPromisedClient(h)
		w.views = append(w.views, capnp.VerifHookOf(c))
		w.cs[o.a] = c
		w.ps[o.b] = p
		return 'k'
	case 'a':
		d := w.cs[o.a].AddRef()
		if d == nil {
			return 'n'
		}
		w.cs[o.b] = d
		return 'k'
	case 'r':
		w.cs[o.a].Release()
		return 'k'
	case 'w':
		wc := w.cs[o.a].WeakRef()
		if wc == nil {
			return 'n'
		}
		w.ws[o.b] = wc
		return 'k'
	case 'u':
		d, ok := w.ws[o.a].AddRef()
		if !ok {
			return 'd'
		}
		if d == nil {
			return 'n'
		}
		w.cs[o.b] = d
		return 'k'
	case 'c':
		th.delivered = false
		th.abn = o.b >> 1
		defer func() { th.abn = 0 }()
		if o.b>>1 == 3 {
			// the call is made in a goroutine of its own, which leaves by runtime.Goexit
			// from inside the hook; this thread waits for it
			done := make(chan struct{})
			go func() {
				id := goid()
				w.lk.Lock()
				w.byGoid[id] = th
				w.lk.Unlock()
				defer close(done)
				defer func() {
					w.lk.Lock()
					delete(w.byGoid, id)
					w.lk.Unlock()
				}()
				w.doCall(th, o)
			}()
			<-done
			if !th.delivered {
				return 'e'
			}
			return 'P'
		}
		return w.doCall(th, o)
	case 'f':
		p := w.ps[o.a]
		if p == nil {
			return 'n'
		}
		p.Fulfill(w.cs[o.b])
		return 'k'
	case 'v':
		if w.cs[o.a].IsValid() {
			return 't'
		}
		return 'f'
	case 's':
		if w.cs[o.a].IsSame(w.cs[o.b]) {
			return 't'
		}
		return 'f'
	case 't':
		st := w.cs[o.a].State()
		if st.Brand.Value == nil && !st.IsPromise {
			return 'n'
		}
		if st.IsPromise {
			return 't'
		}
		return 'f'
	}
	return '?'
}

// doCall performs SendCall (o.b == 0) or RecvCall through the client in slot o.a.
func (w *world) doCall(th *thr, o op) byte {
	m := capnp.Method{InterfaceID: 1, MethodID: 2}
	if o.b&1 == 0 {
		place := func(capnp.Struct) error { panic(sentinelErr{}) }
		ans, rel := w.cs[o.a].SendCall(context.Background(), capnp.Send{Method: m, PlaceArgs: place})
		_, err := ans.Struct()
		rel()
		if th.delivered {
			return 's'
		}
		if err != nil {
			return 'e'
		}
		return '?'
	}
	ret := &returner{}
	w.cs[o.a].RecvCall(context.Background(), capnp.Recv{Method: m, ReleaseArgs: func() {}, Returner: ret})
	if th.delivered {
		return 's'
	}
	if ret.err != nil {
		return 'e'
	}
	return '?'
}

func (w *world) threadMain(th *thr) {
	w.lk.Lock()
	w.byGoid[goid()] = th
	w.lk.Unlock()
	for _, o := range th.prog {
		w.pause(th, stIdle, nil)
		r := w.exec(th, o)
		th.results = append(th.results, r)
	}
	w.lk.Lock()
	th.status = stFinished
	w.lk.Unlock()
}

func (w *world) enabledMask() int {
	m := 0
	for _, th := range w.threads {
		w.lk.Lock()
		st, mu := th.status, th.mu
		w.lk.Unlock()
		en := false
		switch st {
		case stIdle, stInCall, stAtShutdown:
			en = true
		case stAtLock:
			if mu.TryLock() {
				mu.Unlock()
				en = true
			}
		}
		if en {
			m |= 1 << th.id
		}
	}
	return m
}

// ---------------------------------------------------------------- one history

const maxSteps = 600

// runHistory drives progs; if sched is nil a schedule is chosen with r according to mode
// ("seq": each op runs until it completes or blocks; "conc": random thread at every step;
// thread 0 is the set-up thread and is run to completion first in both modes).
func runHistory(t *testing.T, progs [][]op, sched []int, mode string, r *Rand, hobs *string, hused *[]int) (obs string, used []int) {
	w := &world{byGoid: map[int64]*thr{}, cs: map[int]*capnp.Client{}, ws: map[int]*capnp.WeakClient{}, ps: map[int]*capnp.ClientPromise{}}
	var masks, rs, hs []string
	status := "done"
	synctest.Test(t, func(t *testing.T) {
		curWorld = w
		defer func() { curWorld = nil }()
		for i, p := range progs {
			th := &thr{id: i, prog: p, grant: make(chan bool)}
			w.threads = append(w.threads, th)
			w.steps = append(w.steps, 0)
			go w.threadMain(th)
			synctest.Wait()
		}
		last := 0
		for step := 0; ; step++ {
			m := w.enabledMask()
			masks = append(masks, fmt.Sprintf("%x", m))
			var pick int
			if sched != nil {
				if step >= len(sched) {
					pick = -1
				} else {
					pick = sched[step]
					if pick >= len(w.threads) || m&(1<<pick) == 0 {
						status = fmt.Sprintf("bad@%d", step)
						break
					}
				}
			} else {
				pick = choose(w, m, mode, last, r)
				if step >= maxSteps {
					pick = -1
				}
			}
			if pick < 0 {
				unf := false
				for _, th := range w.threads {
					if th.status != stFinished {
						unf = true
					}
				}
				if !unf {
					status = "done"
				} else if m == 0 {
					status = "stuck"
				} else {
					status = "cut"
				}
				break
			}
			used = append(used, pick)
			last = pick
			w.steps[pick]++
			w.threads[pick].grant <- true
			synctest.Wait()
		}
		rs = nil
		for _, th := range w.threads {
			rs = append(rs, string(th.results))
		}
		hs = nil
		for i, v := range w.views {
			refs, calls, done, _ := v.State()
			d := 0
			if done {
				d = 1
			}
			shut := 0
			for _, e := range w.events {
				if e == fmt.Sprintf("X%d", i) {
					shut++
				}
			}
			hs = append(hs, fmt.Sprintf("%d.%d.%d.%d", refs, calls, d, shut))
		}
		// Parked goroutines (a stuck or cut history) are left where they are: resuming or
		// Goexit-ing them inside the library could unlock unlocked mutexes.  synctest then
		// reports "blocked goroutines remain" by a panic, which the caller recovers; the
		// observation has been computed already.
		obs = fmt.Sprintf("%s E:%s R:%s H:%s M:%s", status, strings.Join(w.events, ","), strings.Join(rs, ";"), strings.Join(hs, ","), strings.Join(masks, "."))
		if hobs != nil {
			*hobs = obs
			*hused = used
		}
		curWorld = nil
	})
	return obs, used
}

func choose(w *world, m int, mode string, last int, r *Rand) int {
	if m == 0 {
		return -1
	}
	if m&1 != 0 && w.threads[0].status != stFinished {
		return 0 // set-up thread first
	}
	var en []int
	for i := range w.threads {
		if m&(1<<i) != 0 {
			en = append(en, i)
		}
	}
	lastEn := m&(1<<last) != 0
	if mode == "race" {
		// thread 1 is the main operation; racer j (thread j+2) starts once thread 1 has taken
		// raceKs[j] steps (or cannot go on) and then runs to completion
		mainOn := m&2 != 0
		for j, k := range raceKs {
			tid := j + 2
			if tid < len(w.threads) && m&(1<<tid) != 0 && (w.steps[1] >= k || !mainOn) {
				return tid
			}
		}
		if mainOn {
			return 1
		}
		return en[0]
	}
	if mode == "seq" {
		// keep running the same thread until its op completes, it blocks, or it is in a call-out
		st := w.threads[last].status
		if lastEn && st != stIdle && st != stInCall {
			return last
		}
		return en[r.Intn(len(en))]
	}
	if lastEn && r.Intn(100) < 35 {
		return last
	}
	return en[r.Intn(len(en))]
}

// ---------------------------------------------------------------- generator

type gen struct {
	r        *Rand
	nc, nw   int         // next client / weak slot
	root     map[int]int // client slot -> root: -1 plain hook, i>=0 promise i
	wroot    map[int]int
	wowner   map[int]int
	relBy    map[int]int // client slot -> thread that releases it
	fsrcBy   map[int]map[int]bool
	np       int
	allowMis bool
}

func (g *gen) clientSlot() int {
	if g.nc == 0 {
		return 0
	}
	if g.r.Intn(40) == 0 {
		return 900 + g.r.Intn(3) // a slot that is never filled: nil client
	}
	s := g.r.Intn(g.nc)
	for tries := 0; tries < 4; tries++ {
		if _, rel := g.relBy[s]; !rel || g.r.Intn(6) == 0 {
			break
		}
		s = g.r.Intn(g.nc)
	}
	return s
}

func (g *gen) genOp(th int) (op, bool) {
	r := g.r
	switch r.Pick(20, 22, 8, 10, 18, 10, 6, 6, 5) {
	case 0: // AddRef
		s := g.clientSlot()
		d := g.nc
		g.nc++
		g.root[d] = g.rootOf(s)
		return op{'a', s, d}, true
	case 1: // Release
		s := g.clientSlot()
		if !g.allowMis {
			for t := range g.fsrcBy[s] {
				if t != th {
					return op{}, false
				}
			}
		}
		if _, ok := g.relBy[s]; !ok {
			g.relBy[s] = th
		}
		return op{'r', s, 0}, true
	case 2: // WeakRef
		s := g.clientSlot()
		d := g.nw
		g.nw++
		g.wroot[d] = g.rootOf(s)
		g.wowner[d] = th
		return op{'w', s, d}, true
	case 3: // weak AddRef
		var cands []int
		for _, w := range sortedKeys(g.wowner) {
			if o := g.wowner[w]; o == th || o == 0 {
				cands = append(cands, w)
			}
		}
		if len(cands) == 0 {
			return op{}, false
		}
		w := cands[r.Intn(len(cands))]
		g.wowner[w] = th
		d := g.nc
		g.nc++
		g.root[d] = g.wroot[w]
		return op{'u', w, d}, true
	case 4: // call
		return op{'c', g.clientSlot(), callKind(r)}, true
	case 5: // Fulfill
		if g.np == 0 {
			return op{}, false
		}
		p := r.Intn(g.np)
		s := g.clientSlot()
		if r.Intn(8) == 0 {
			s = 950 // never filled: Fulfill(nil)
		}
		rt := g.rootOf(s)
		if rt >= 0 && rt <= p {
			return op{}, false // would create a resolution cycle
		}
		if !g.allowMis {
			if t, ok := g.relBy[s]; ok && t != th {
				return op{}, false
			}
		}
		if g.fsrcBy[s] == nil {
			g.fsrcBy[s] = map[int]bool{}
		}
		g.fsrcBy[s][th] = true
		return op{'f', p, s}, true
	case 6:
		return op{'v', g.clientSlot(), 0}, true
	case 7:
		return op{'s', g.clientSlot(), g.clientSlot()}, true
	default:
		return op{'t', g.clientSlot(), 0}, true
	}
}

func (g *gen) rootOf(s int) int {
	if rt, ok := g.root[s]; ok {
		return rt
	}
	return -1
}

// sorted iteration helper for determinism
func sortedKeys(m map[int]int) []int {
	var ks []int
	for k := range m {
		ks = append(ks, k)
	}
	for i := range ks {
		for j := i + 1; j < len(ks); j++ {
			if ks[j] < ks[i] {
				ks[i], ks[j] = ks[j], ks[i]
			}
		}
	}
	return ks
}

func genHistory(r *Rand, mode string) ([][]op, bool) {
	g := &gen{r: r, root: map[int]int{}, wroot: map[int]int{}, wowner: map[int]int{}, relBy: map[int]int{}, fsrcBy: map[int]map[int]bool{}}
	g.allowMis = r.Intn(25) == 0
	var setup []op
	nplain := 1 + r.Intn(2)
	g.np = r.Intn(3)
	for i := 0; i < nplain; i++ {
		setup = append(setup, op{'n', g.nc, 0})
		g.root[g.nc] = -1
		g.nc++
	}
	for i := 0; i < g.np; i++ {
		setup = append(setup, op{'p', g.nc, i})
		g.root[g.nc] = i
		g.nc++
	}
	for i := r.Intn(3); i > 0; i-- {
		s := r.Intn(g.nc)
		setup = append(setup, op{'a', s, g.nc})
		g.root[g.nc] = g.root[s]
		g.nc++
	}
	for i := r.Intn(2); i > 0; i-- {
		s := r.Intn(g.nc)
		setup = append(setup, op{'w', s, g.nw})
		g.wroot[g.nw] = g.root[s]
		g.wowner[g.nw] = 0
		g.nw++
	}
	nthreads := 1 + r.Intn(4)
	if mode == "conc" && nthreads < 2 {
		nthreads = 2
	}
	progs := [][]op{setup}
	lens := make([]int, nthreads)
	total := 0
	for i := range lens {
		lens[i] = 1 + r.Intn(4)
		total += lens[i]
	}
	for i := 0; i < nthreads; i++ {
		progs = append(progs, nil)
	}
	// generate ops round-robin so that the static bookkeeping is not biased towards thread 1
	for total > 0 {
		th := 1 + r.Intn(nthreads)
		if lens[th-1] == 0 {
			continue
		}
		for tries := 0; tries < 20; tries++ {
			if o, ok := g.genOp(th); ok {
				progs[th] = append(progs[th], o)
				break
			}
		}
		lens[th-1]--
		total--
	}
	return progs, g.allowMis
}

// callKind: recv + 2*abn; one call in four ends abnormally (hook panic, PlaceArgs panic, Goexit).
func callKind(r *Rand) int {
	k := r.Intn(2)
	if r.Intn(4) == 0 {
		k += 2 * (1 + r.Intn(3))
	}
	return k
}

// genDirected: a promise with 1-2 clients is fulfilled with a client of a plain capability
// while other threads release / add references / call through the promise's clients.
func genDirected(r *Rand) [][]op {
	setup := []op{{'n', 0, 0}, {'p', 1, 0}}
	nc := 2
	pcl := []int{1}
	if r.Bool() {
		setup = append(setup, op{'a', 1, nc})
		pcl = append(pcl, nc)
		nc++
	}
	hcl := 0
	if r.Intn(3) == 0 {
		setup = append(setup, op{'a', 0, nc})
		nc++
	}
	nw := 0
	if r.Intn(3) == 0 {
		setup = append(setup, op{'w', 1, 0})
		nw = 1
	}
	progs := [][]op{setup, {{'f', 0, hcl}}}
	if r.Intn(3) == 0 {
		progs[1] = append(progs[1], op{'r', hcl, 0})
	}
	nth := 1 + r.Intn(3)
	for i := 0; i < nth; i++ {
		var p []op
		for j := 1 + r.Intn(2); j > 0; j-- {
			c := pcl[r.Intn(len(pcl))]
			switch r.Pick(5, 3, 3, 1, 1, 1) {
			case 0:
				p = append(p, op{'r', c, 0})
			case 1:
				p = append(p, op{'a', c, nc})
				nc++
			case 2:
				p = append(p, op{'c', c, callKind(r)})
			case 3:
				if nw > 0 && i == 0 {
					p = append(p, op{'u', 0, nc})
					nc++
				} else {
					p = append(p, op{'v', c, 0})
				}
			case 4:
				p = append(p, op{'s', c, 0})
			default:
				p = append(p, op{'t', c, 0})
			}
		}
		progs = append(progs, p)
	}
	return progs
}

// genDirectedWeak: weak upgrades racing with the release of the last strong reference(s),
// optionally with a call in progress (Shutdown then waits for the call while upgrades must
// already be refused) and with the capability behind a promise.
func genDirectedWeak(r *Rand) [][]op {
	var setup []op
	nc := 0
	viaPromise := r.Intn(3) == 0
	if viaPromise {
		setup = append(setup, op{'n', 0, 0}, op{'p', 1, 0}) // c0 -> h0, c1 -> P
		nc = 2
	} else {
		setup = append(setup, op{'n', 0, 0})
		nc = 1
	}
	strong := []int{nc - 1}
	for i := r.Intn(2); i > 0; i-- {
		setup = append(setup, op{'a', nc - 1, nc})
		strong = append(strong, nc)
		nc++
	}
	nweak := 1 + r.Intn(2)
	for i := 0; i < nweak; i++ {
		setup = append(setup, op{'w', strong[r.Intn(len(strong))], i})
	}
	progs := [][]op{setup}
	// releasers: together they drop every strong reference
	nrel := 1 + r.Intn(2)
	rel := make([][]op, nrel)
	for i, s := range strong {
		rel[i%nrel] = append(rel[i%nrel], op{'r', s, 0})
	}
	for _, p := range rel {
		if len(p) > 0 {
			progs = append(progs, p)
		}
	}
	// one upgrader per weak ref (a WeakClient value is used by one goroutine only)
	for i := 0; i < nweak; i++ {
		var p []op
		for j := 1 + r.Intn(2); j > 0; j-- {
			d := nc
			nc++
			p = append(p, op{'u', i, d})
			switch r.Intn(4) {
			case 0:
				p = append(p, op{'c', d, callKind(r)})
			case 1:
				p = append(p, op{'r', d, 0})
			case 2:
				p = append(p, op{'t', d, 0})
			}
		}
		progs = append(progs, p)
	}
	if r.Intn(2) == 0 {
		progs = append(progs, []op{{'c', strong[0], callKind(r)}})
	}
	if viaPromise && r.Bool() {
		progs = append(progs, []op{{'f', 0, 0}})
	}
	return progs
}

// genChain: chains of promises fulfilled with clients of other promises.  Slot 0 is a client of a
// plain capability T, slot i (1..L) the client of promise i-1.  The set-up thread fulfils the
// lower promises (leaving the handles of the upper levels stale: their c.h still points at a
// resolved promise hook) and releases handles so that T's count is low; thread 1 fulfils the top
// promise with the (stale) client below it; the racers operate on clients of the top promise.
// The caller enumerates every point of thread 1 at which the racers run.
func genChain(r *Rand) (progs [][]op, nracers int) {
	L := 2 + r.Intn(2)
	setup := []op{{'n', 0, 0}}
	for i := 0; i < L; i++ {
		setup = append(setup, op{'p', i + 1, i})
	}
	nc := L + 1
	top := L // slot of the top promise's client
	topClients := []int{top}
	if r.Intn(3) == 0 {
		setup = append(setup, op{'a', top, nc})
		topClients = append(topClients, nc)
		nc++
	}
	// fulfil promises 0..L-2 bottom-up in the set-up (sometimes leave the last of them to a racer)
	for i := 0; i < L-1; i++ {
		setup = append(setup, op{'f', i, i}) // promise i <- client in slot i
	}
	// touch some intermediate handles (un-stales them) or not
	for i := 1; i < L; i++ {
		if r.Intn(4) == 0 {
			setup = append(setup, op{'v', i, 0})
		}
	}
	// drop references so that T is held by few handles
	for i := 0; i < L-1; i++ {
		if r.Intn(4) != 0 {
			setup = append(setup, op{'r', i, 0})
		}
	}
	progs = [][]op{setup, {{'f', L - 1, L - 1}}}
	if r.Intn(4) == 0 {
		progs[1] = append(progs[1], op{'r', L - 1, 0})
	}
	nracers = 1 + r.Intn(2)
	for j := 0; j < nracers; j++ {
		c := topClients[r.Intn(len(topClients))]
		var p []op
		switch r.Pick(6, 2, 2, 1) {
		case 0:
			p = []op{{'r', c, 0}}
		case 1:
			p = []op{{'a', c, nc}, {'r', c, 0}}
			nc++
		case 2:
			p = []op{{'c', c, callKind(r)}, {'r', c, 0}}
		default:
			p = []op{{'t', c, 0}, {'r', c, 0}}
		}
		progs = append(progs, p)
	}
	return progs, nracers
}

// ---------------------------------------------------------------- main

func main() { Main(run) }

func run(out *Out, r *Rand, tier string, replay []string) {
	fixed := "1"
	if os.Getenv("VERIF_C10_PREFIX") != "" {
		fixed = "0"
	}
	tests := []testing.InternalTest{{Name: "C10", F: func(t *testing.T) {
		capnp.VerifYieldHook = yieldHook
		opKinds := map[string]int{}
		var seen map[string]bool
		opName := map[byte]string{'n': "NewClient", 'p': "NewPromisedClient", 'a': "AddRef", 'r': "Release", 'w': "WeakRef",
			'u': "WeakClient.AddRef", 'c': "SendCall/RecvCall", 'f': "Fulfill", 'v': "IsValid", 's': "IsSame", 't': "State"}
		runOne := func(kind, mode string, progs [][]op, sched []int) {
			type result struct {
				obs  string
				used []int
			}
			ch := make(chan result, 1)
			go func() {
				var sobs string
				var sused []int
				defer func() {
					if e := recover(); e != nil {
						if sobs != "" {
							ch <- result{sobs, sused} // leftover parked goroutines
						} else {
							ch <- result{obs: fmt.Sprintf("harness-panic %v", e)}
						}
					}
				}()
				o, u := runHistory(t, progs, sched, mode, r, &sobs, &sused)
				ch <- result{o, u}
			}()
			var res result
			select {
			case res = <-ch:
			case <-time.After(20 * time.Second):
				res = result{obs: "hang"}
				curWorld = nil
			}
			if sched != nil {
				res.used = sched
			}
			ss := "-"
			if len(res.used) > 0 {
				ss = Ints(res.used)
			}
			for _, p := range progs {
				for _, o := range p {
					opKinds[opName[o.k]]++
				}
			}
			line := fmt.Sprintf("%s %s %s %s", kind, fixed, progsString(progs), ss)
			if seen != nil {
				if seen[line] {
					return // the same schedule as an earlier racing point
				}
				seen[line] = true
			}
			nontriv := strings.Contains(res.obs, "X") || strings.Contains(res.obs, "S") || strings.Contains(res.obs, "V")
			out.Case(kind, line, res.obs, Cls(res.obs), nontriv)
		}
		if replay != nil {
			for _, l := range replay {
				f := strings.Fields(l)
				if len(f) < 4 {
					continue
				}
				var sched []int
				if f[3] != "-" {
					sched = ParseInts(f[3])
				} else {
					sched = []int{}
				}
				runOne(f[0], "conc", parseProgs(f[2]), sched)
			}
		} else {
			n := 1500
			if tier == "thorough" {
				n = 100000
			}
			for i := 0; i < n; i++ {
				mode := "conc"
				if i%3 == 0 {
					mode = "seq"
				}
				if i%4 == 1 {
					runOne(mode, mode, genDirected(r), nil)
					continue
				}
				if i%8 == 3 {
					runOne(mode, mode, genDirectedWeak(r), nil)
					continue
				}
				if i%20 == 7 {
					// exhaustive over the racing points of a short chain history
					progs, nr := genChain(r)
					seen = map[string]bool{}
					const K = 11
					if nr == 1 {
						for k := 0; k <= K; k++ {
							raceKs = []int{k}
							runOne("race", "race", progs, nil)
						}
					} else {
						for k := 0; k <= K; k++ {
							for k2 := 0; k2 <= K; k2++ {
								raceKs = []int{k, k2}
								runOne("race", "race", progs, nil)
							}
						}
					}
					seen = nil
					continue
				}
				progs, mis := genHistory(r, mode)
				kind := mode
				if mis {
					kind = "mis"
				}
				runOne(kind, mode, progs, nil)
			}
		}
		out.Extra["x_op_kinds"] = opKinds
		out.Close("non-trivial = the history delivers a call or shuts a capability down (event log non-empty)")
	}}}
	testing.Main(func(pat, str string) (bool, error) { return true, nil }, tests, nil, nil)
}
