package main

import (
	"context"
	"errors"
	"fmt"
	"os"
	"runtime"
	"sort"
	"strings"
	"testing"
	"testing/synctest"
	"time"

	capnp "capnproto.org/go/capnp/v3"
	"capnproto.org/go/capnp/v3/rpc"
	"capnproto.org/go/capnp/v3/server"
	rpccp "capnproto.org/go/capnp/v3/std/capnp/rpc"
)

// ---------------------------------------------------------------- case description

// fault <scenario> <side> <kind> <idx> <k> <xact> <xstep>
//   side   A|B   which connection gets the fault / the extra action
//   kind   none | nm (idx-th NewMessage fails) | send (idx-th send fails, nothing written)
//          | short (idx-th Write of the byte stream lets k bytes through, then errors)
//          | recv (idx-th RecvMessage fails) | eof (byte stream reports EOF from the idx-th Read)
//   xact   none | cancel | close | dclose   injected after step xstep
type caseSpec struct {
	scen  string
	side  int
	kind  string
	idx   int
	k     int
	xact  string
	xstep int
}

func (c caseSpec) String() string {
	return fmt.Sprintf("fault %s %s %s %d %d %s %d", c.scen, "AB"[c.side:c.side+1], c.kind, c.idx, c.k, c.xact, c.xstep)
}

func parseCase(line string) (caseSpec, error) {
	f := strings.Fields(line)
	if len(f) != 8 || f[0] != "fault" {
		return caseSpec{}, fmt.Errorf("bad case %q", line)
	}
	c := caseSpec{scen: f[1], kind: f[3], xact: f[6]}
	if f[2] == "B" {
		c.side = 1
	}
	fmt.Sscan(f[4], &c.idx)
	fmt.Sscan(f[5], &c.k)
	fmt.Sscan(f[7], &c.xstep)
	return c, nil
}

// ---------------------------------------------------------------- the application

const ifaceID = 0xc09c09c09c09c09c

const (
	mEcho = iota
	mBlock
	mGetCap
	mGetCapBlock
	mEchoCap
	mCallback
	mFail
	mGetCapLate
	mGetSync
)

// syncHook is a ClientHook that completes every call INSIDE Recv (allowed by the ClientHook
// contract): when the call comes from the peer, answer.Return runs synchronously on the
// connection's receive goroutine, inside handleCall.
type syncHook struct{ mk func() *capnp.Client }

func (h syncHook) Send(ctx context.Context, s capnp.Send) (*capnp.Answer, capnp.ReleaseFunc) {
	return capnp.ErrorAnswer(s.Method, errors.New("syncHook: Send not supported")), func() {}
}

// syncOnRecvGoroutine counts the calls syncHook completed while running on a Conn's receive goroutine.
var syncOnRecvGoroutine int

func (h syncHook) Recv(ctx context.Context, r capnp.Recv) capnp.PipelineCaller {
	buf := make([]byte, 1<<14)
	if strings.Contains(string(buf[:runtime.Stack(buf, false)]), "rpc.(*Conn).receive") {
		syncOnRecvGoroutine++
	}
	res, err := r.AllocResults(argSize)
	if err != nil {
		r.Reject(err)
		return nil
	}
	if err := setCap(res, h.mk()); err != nil { // a newly exported capability in the results
		r.Reject(err)
		return nil
	}
	r.Return()
	return nil
}

func (h syncHook) Brand() capnp.Brand { return capnp.Brand{} }
func (h syncHook) Shutdown()          {}

func meth(m uint16) capnp.Method { return capnp.Method{InterfaceID: ifaceID, MethodID: m} }

var argSize = capnp.ObjectSize{DataSize: 8, PointerCount: 1}

func waitGate(ctx context.Context, gate chan struct{}) error {
	select {
	case <-gate:
		return nil
	case <-ctx.Done():
		return ctx.Err()
	}
}

func setCap(s capnp.Struct, c *capnp.Client) error {
	id := s.Message().AddCap(c)
	return s.SetPtr(0, capnp.NewInterface(s.Segment(), id).ToPtr())
}

// newApp returns a capability implementing the test interface.  Blocking methods wait for
// gate (closed by the harness) or for their context, as the environment assumption of the
// property requires ("capability implementations return after cancellation").
func newApp(gate chan struct{}) *capnp.Client {
	var self func() *capnp.Client
	methods := []server.Method{
		{Method: meth(mEcho), Impl: func(ctx context.Context, call *server.Call) error {
			res, err := call.AllocResults(argSize)
			if err != nil {
				return err
			}
			res.SetUint64(0, call.Args().Uint64(0))
			return nil
		}},
		{Method: meth(mBlock), Impl: func(ctx context.Context, call *server.Call) error {
			call.Ack()
			if err := waitGate(ctx, gate); err != nil {
				return err
			}
			_, err := call.AllocResults(argSize)
			return err
		}},
		{Method: meth(mGetCap), Impl: func(ctx context.Context, call *server.Call) error {
			res, err := call.AllocResults(argSize)
			if err != nil {
				return err
			}
			return setCap(res, self())
		}},
		{Method: meth(mGetCapBlock), Impl: func(ctx context.Context, call *server.Call) error {
			call.Ack()
			if err := waitGate(ctx, gate); err != nil {
				return err
			}
			res, err := call.AllocResults(argSize)
			if err != nil {
				return err
			}
			return setCap(res, self())
		}},
		{Method: meth(mEchoCap), Impl: func(ctx context.Context, call *server.Call) error {
			p, err := call.Args().Ptr(0)
			if err != nil {
				return err
			}
			c := p.Interface().Client().AddRef()
			call.Ack()
			if err := waitGate(ctx, gate); err != nil {
				c.Release()
				return err
			}
			res, err := call.AllocResults(argSize)
			if err != nil {
				c.Release()
				return err
			}
			return setCap(res, c)
		}},
		{Method: meth(mCallback), Impl: func(ctx context.Context, call *server.Call) error {
			p, err := call.Args().Ptr(0)
			if err != nil {
				return err
			}
			c := p.Interface().Client().AddRef()
			defer c.Release()
			call.Ack()
			ans, rel := c.SendCall(ctx, capnp.Send{Method: meth(mEcho), ArgsSize: argSize})
			defer rel()
			if _, err := ans.Struct(); err != nil {
				return err
			}
			_, err = call.AllocResults(argSize)
			return err
		}},
		{Method: meth(mFail), Impl: func(ctx context.Context, call *server.Call) error {
			return errors.New("boom")
		}},
		{Method: meth(mGetSync), Impl: func(ctx context.Context, call *server.Call) error {
			res, err := call.AllocResults(argSize)
			if err != nil {
				return err
			}
			return setCap(res, capnp.NewClient(syncHook{mk: self}))
		}},
		// returns a new capability once the gate opens OR its context is cancelled (a method that
		// finishes its work although the caller lost interest)
		{Method: meth(mGetCapLate), Impl: func(ctx context.Context, call *server.Call) error {
			call.Ack()
			waitGate(ctx, gate)
			res, err := call.AllocResults(argSize)
			if err != nil {
				return err
			}
			return setCap(res, self())
		}},
	}
	self = func() *capnp.Client { return capnp.NewClient(server.New(methods, nil, nil, nil)) }
	return self()
}

// ---------------------------------------------------------------- one run

type tracked struct {
	name string
	done chan struct{}
}

type world struct {
	cs      caseSpec
	conn    [2]*rpc.Conn
	ft      [2]*faultTransport
	frwc    [2]*faultRWC
	ctx     context.Context
	cancel  context.CancelFunc
	gate    chan struct{}
	gateOpen bool
	calls   []*tracked
	stepN   int
	viol    []string
	aborted bool
	closed  [2]bool
	local   *capnp.Client // a capability hosted by A's application, passed as parameter
	raw     bool          // side B is a bare transport driven by the scenario (hostile peer)
	cleanup []func()
}

func (w *world) violate(s string) {
	for _, v := range w.viol {
		if v == s {
			return
		}
	}
	w.viol = append(w.viol, s)
}

// do issues one API call in its own goroutine and tracks its completion.
func (w *world) do(name string, f func()) *tracked {
	t := &tracked{name: name, done: make(chan struct{})}
	w.calls = append(w.calls, t)
	go func() {
		defer close(t.done)
		f()
	}()
	return t
}

func (t *tracked) finished() bool {
	select {
	case <-t.done:
		return true
	default:
		return false
	}
}

// probe: at quiescence no Conn method is executing (every goroutine is durably blocked and
// the in-memory stream never blocks a writer), so both locks of both connections must be free.
func (w *world) probe(at string) {
	for s := 0; s < 2; s++ {
		if w.conn[s] == nil {
			continue
		}
		v := w.conn[s].VerifLocks()
		if !v.MuFree {
			w.violate("mu-held")
			w.aborted = true
		} else if !v.SenderFree {
			w.violate("sender-held")
			w.aborted = true
		}
	}
}

func (w *world) extra() {
	s := w.cs.side
	switch w.cs.xact {
	case "cancel":
		w.cancel()
	case "close":
		w.closed[s] = true
		w.do("xclose", func() { w.conn[s].Close() })
	case "dclose":
		w.closed[s] = true
		w.do("xdclose", func() { w.conn[s].Close(); w.conn[s].Close() })
	}
}

// step: run to quiescence, probe the locks, inject the extra action if due.
func (w *world) step() bool {
	if w.aborted {
		return false
	}
	synctest.Wait()
	w.probe("step")
	if w.aborted {
		return false
	}
	if w.cs.xact != "none" && w.cs.xstep == w.stepN {
		w.extra()
		synctest.Wait()
		w.probe("xact")
	}
	w.stepN++
	return !w.aborted
}

func (w *world) openGate() {
	if !w.gateOpen {
		w.gateOpen = true
		close(w.gate)
	}
}

type runResult struct {
	obs    string
	counts string
}

var scenarios = map[string]func(w *world){}
var rawScenarios = map[string]bool{}
var scenarioNames []string

func reg(name string, f func(w *world)) {
	scenarios[name] = f
	scenarioNames = append(scenarioNames, name)
	sort.Strings(scenarioNames)
}

// runCase executes one case inside a synctest bubble.  flush is called with the result as
// soon as it is known (before the bubble is left: a leaked goroutine makes leaving it fatal).
func runCase(t *testing.T, cs caseSpec, flush func(runResult)) {
	scen := scenarios[cs.scen]
	if scen == nil {
		flush(runResult{obs: "bad-case"})
		return
	}
	synctest.Test(t, func(t *testing.T) {
		base := runtime.NumGoroutine()
		w := &world{cs: cs, gate: make(chan struct{})}
		w.ctx, w.cancel = context.WithCancel(context.Background())
		ea, eb := newDuplex()
		ends := [2]*end{ea, eb}
		apps := [2]*capnp.Client{newApp(w.gate), newApp(w.gate)}
		w.local = newApp(w.gate)
		for s := 0; s < 2; s++ {
			w.frwc[s] = newFaultRWC(ends[s])
			w.ft[s] = newFaultTransport(rpc.NewStreamTransport(w.frwc[s]))
		}
		f, fr := w.ft[cs.side], w.frwc[cs.side]
		switch cs.kind {
		case "nm":
			f.failNew = cs.idx
		case "send":
			f.failSend = cs.idx
		case "recv":
			f.failRecv = cs.idx
		case "short":
			fr.shortAt[cs.idx] = cs.k
		case "eof":
			fr.eofAt = cs.idx
		}
		w.raw = rawScenarios[cs.scen]
		for s := 0; s < 2; s++ {
			if s == 1 && w.raw {
				apps[s].Release()
				continue
			}
			// the harness keeps a reference of its own to each bootstrap capability: when answer.Return
			// shuts the connection down on the application's goroutine (overrelease scenario), the
			// Conn must not drop the LAST reference to the server whose call is returning --
			// server.Shutdown would wait for that very call (observation O3 in docs/C09.md)
			keep := apps[s].AddRef()
			w.cleanup = append(w.cleanup, keep.Release)
			w.conn[s] = rpc.NewConn(w.ft[s], &rpc.Options{BootstrapClient: apps[s]})
		}

		scen(w)

		// ---- finale: let everything finish, close both sides
		if !w.aborted {
			w.step()
		}
		if !w.aborted {
			w.openGate()
			synctest.Wait()
			w.probe("gate")
		}
		if !w.aborted {
			for _, c := range w.cleanup {
				c := c
				w.do("cleanup", c)
			}
			w.do("release-local", func() { w.local.Release() })
			synctest.Wait()
			w.probe("cleanup")
		}
		if !w.aborted {
			for s := 0; s < 2; s++ {
				if w.conn[s] == nil {
					w.do("close-raw", func() { w.ft[s].Close() })
					continue
				}
				if !w.closed[s] {
					s := s
					w.do("close-"+"AB"[s:s+1], func() { w.conn[s].Close() })
					synctest.Wait()
					w.probe("close")
					if w.aborted {
						break
					}
				}
			}
		}
		if !w.aborted {
			time.Sleep(time.Hour) // virtual time: every timeout of the library elapses
			synctest.Wait()
			for _, c := range w.calls {
				if !c.finished() {
					w.violate("hang(" + c.name + ")")
				}
			}
			w.probe("final")
		}
		w.cancel()
		if !w.aborted && len(w.viol) == 0 {
			synctest.Wait()
			if n := runtime.NumGoroutine() - base; n > 0 {
				w.violate(fmt.Sprintf("leak(%d)", n))
			}
		}
		// the bytes each side put on the wire
		for s := 0; s < 2; s++ {
			_, _, wire := w.frwc[s].counts()
			w.ft[s].mu.Lock()
			frames := w.ft[s].frames
			w.ft[s].mu.Unlock()
			if v, _ := wireVerdict(wire, frames); v != "ok" {
				w.violate("wire-garbage")
				if os.Getenv("C09_DEBUG") != "" {
					fmt.Fprintf(os.Stderr, "side %d wire %x\n", s, wire)
					for _, fr := range frames {
						fmt.Fprintf(os.Stderr, "  frame %x\n", fr)
					}
				}
			}
		}
		res := runResult{obs: "clean"}
		if len(w.viol) > 0 {
			res.obs = "viol:" + strings.Join(w.viol, ",")
		}
		side := cs.side
		nw, nr, _ := w.frwc[side].counts()
		res.counts = fmt.Sprintf("nm=%d send=%d recv=%d write=%d read=%d steps=%d syncrecv=%d",
			w.ft[side].nNew, w.ft[side].nSend, w.ft[side].nRecv, nw, nr, w.stepN, syncOnRecvGoroutine)
		syncOnRecvGoroutine = 0
		if os.Getenv("C09_DEBUG") != "" {
			fmt.Fprintln(os.Stderr, "counts:", res.counts, "obs:", res.obs)
		}
		flush(res)
		if len(w.viol) > 0 {
			// goroutines may be stuck for good: do not try to leave the bubble
			exitNow(3)
		}
	})
}

// ---------------------------------------------------------------- scenarios (A is the caller)

type callH struct {
	t   *tracked
	ans *capnp.Answer
	rel capnp.ReleaseFunc
}

func (w *world) bootstrap() (*capnp.Client, bool) {
	var boot *capnp.Client
	t := w.do("bootstrap", func() { boot = w.conn[0].Bootstrap(w.ctx) })
	if !w.step() || !t.finished() {
		return nil, false
	}
	w.cleanup = append(w.cleanup, boot.Release)
	return boot, true
}

// send issues a call and returns once it is quiescent; h.ans is nil if SendCall itself hangs.
func (w *world) send(name string, c *capnp.Client, ctx context.Context, m uint16, place func(capnp.Struct) error) *callH {
	h := &callH{}
	h.t = w.do(name, func() {
		h.ans, h.rel = c.SendCall(ctx, capnp.Send{Method: meth(m), ArgsSize: argSize, PlaceArgs: place})
	})
	return h
}

func (w *world) pipeline(name string, on *callH, ctx context.Context, m uint16) *callH {
	h := &callH{}
	h.t = w.do(name, func() {
		h.ans, h.rel = on.ans.PipelineSend(ctx, []capnp.PipelineOp{{Field: 0}},
			capnp.Send{Method: meth(m), ArgsSize: argSize})
	})
	return h
}

// finish waits for the result of a call (in a tracked goroutine) and releases it.
func (w *world) finish(name string, h *callH) {
	if h == nil || !h.t.finished() || h.ans == nil {
		return
	}
	w.do(name, func() {
		h.ans.Struct()
		h.rel()
	})
}

func init() {
	reg("boot", func(w *world) {
		boot, ok := w.bootstrap()
		if !ok {
			return
		}
		w.do("resolve", func() { boot.Resolve(w.ctx) })
		w.step()
	})
	reg("call", func(w *world) {
		boot, ok := w.bootstrap()
		if !ok {
			return
		}
		h := w.send("echo", boot, w.ctx, mEcho, nil)
		if !w.step() {
			return
		}
		w.finish("echo-result", h)
		w.step()
	})
	reg("twocalls", func(w *world) {
		boot, ok := w.bootstrap()
		if !ok {
			return
		}
		h1 := w.send("echo1", boot, w.ctx, mEcho, nil)
		h2 := w.send("echo2", boot, w.ctx, mGetCap, nil)
		if !w.step() {
			return
		}
		w.finish("echo1-result", h1)
		w.finish("echo2-result", h2)
		w.step()
	})
	reg("fail", func(w *world) {
		boot, ok := w.bootstrap()
		if !ok {
			return
		}
		h := w.send("fail", boot, w.ctx, mFail, nil)
		if !w.step() {
			return
		}
		w.finish("fail-result", h)
		w.step()
	})
	reg("pipepending", func(w *world) {
		boot, ok := w.bootstrap()
		if !ok {
			return
		}
		h := w.send("getcapblock", boot, w.ctx, mGetCapBlock, nil)
		if !w.step() || !h.t.finished() {
			return
		}
		p := w.pipeline("pipelined", h, w.ctx, mEcho)
		if !w.step() {
			return
		}
		w.openGate()
		if !w.step() {
			return
		}
		w.finish("pipelined-result", p)
		w.finish("getcapblock-result", h)
		w.step()
	})
	// the same proxy client is requested twice from a pending answer (Future.Client), then used
	reg("futureclient", func(w *world) {
		boot, ok := w.bootstrap()
		if !ok {
			return
		}
		h := w.send("getcapblock", boot, w.ctx, mGetCapBlock, nil)
		if !w.step() || !h.t.finished() {
			return
		}
		var c1 *capnp.Client
		t := w.do("future-client-twice", func() {
			c1 = h.ans.Field(0, nil).Client()
			h.ans.Field(0, nil).Client()
		})
		if !w.step() || !t.finished() {
			return
		}
		p := w.send("echo-on-future", c1, w.ctx, mEcho, nil)
		if !w.step() {
			return
		}
		w.openGate()
		if !w.step() {
			return
		}
		w.finish("echo-on-future-result", p)
		w.finish("getcapblock-result", h)
		w.step()
	})
	// audit item: a Call from the peer whose target is a capability this vat imported from the same
	// connection is delivered through importClient.Recv ON THE RECEIVE GOROUTINE (handleCall,
	// promisedAnswer with results ready); with a fault on the forwarded Call its answer is already
	// resolved (error) and returnAnswer -> answer.Return run synchronously there
	reg("loopready", func(w *world) {
		boot, ok := w.bootstrap()
		if !ok {
			return
		}
		w.openGate() // echocap returns at once: its results (A's own capability) are ready,
		// the Finish is not yet there when the pipelined call arrives
		h := w.send("echocap", boot, w.ctx, mEchoCap, func(s capnp.Struct) error {
			return setCap(s, w.local.AddRef())
		})
		<-h.t.done
		if h.ans == nil {
			return
		}
		p := w.pipeline("pipelined", h, w.ctx, mEcho)
		if !w.step() {
			return
		}
		w.finish("pipelined-result", p)
		w.finish("echocap-result", h)
		w.step()
	})
	// a capability whose hook returns synchronously inside Recv: answer.Return (successful, with a
	// newly exported capability) runs on the peer's receive goroutine
	reg("syncreturn", func(w *world) {
		boot, ok := w.bootstrap()
		if !ok {
			return
		}
		h := w.send("getsync", boot, w.ctx, mGetSync, nil)
		if !w.step() || !h.t.finished() || h.ans == nil {
			return
		}
		c1 := w.pipeline("call-sync-1", h, w.ctx, mEcho)
		c2 := w.pipeline("call-sync-2", h, w.ctx, mEcho)
		if !w.step() {
			return
		}
		w.finish("call-sync-1-result", c1)
		w.finish("call-sync-2-result", c2)
		w.finish("getsync-result", h)
		w.step()
	})
	reg("pipeready", func(w *world) {
		boot, ok := w.bootstrap()
		if !ok {
			return
		}
		h := w.send("getcap", boot, w.ctx, mGetCap, nil)
		// no step: the pipelined call is sent while the first answer is in flight
		<-h.t.done
		p := w.pipeline("pipelined", h, w.ctx, mEcho)
		if !w.step() {
			return
		}
		w.finish("pipelined-result", p)
		w.finish("getcap-result", h)
		w.step()
	})
	reg("cancel", func(w *world) {
		boot, ok := w.bootstrap()
		if !ok {
			return
		}
		cctx, ccancel := context.WithCancel(w.ctx)
		w.cleanup = append(w.cleanup, func() { ccancel() })
		h := w.send("block", boot, cctx, mBlock, nil)
		if !w.step() {
			return
		}
		ccancel()
		if !w.step() {
			return
		}
		w.finish("block-result", h)
		w.step()
	})
	reg("release", func(w *world) {
		boot, ok := w.bootstrap()
		if !ok {
			return
		}
		w.do("resolve", func() { boot.Resolve(w.ctx) })
		if !w.step() {
			return
		}
		b2 := boot.AddRef()
		h := w.send("getcap", boot, w.ctx, mGetCap, nil)
		if !w.step() {
			return
		}
		w.do("getcap-release", func() {
			if h.t.finished() && h.ans != nil {
				if s, err := h.ans.Struct(); err == nil {
					if p, err := s.Ptr(0); err == nil {
						c := p.Interface().Client().AddRef()
						h.rel()
						c.Release() // import released: Release message
						return
					}
				}
				h.rel()
			}
		})
		if !w.step() {
			return
		}
		w.do("release2", func() { b2.Release() })
		w.step()
	})
	reg("embargo", func(w *world) {
		boot, ok := w.bootstrap()
		if !ok {
			return
		}
		h := w.send("echocap", boot, w.ctx, mEchoCap, func(s capnp.Struct) error {
			return setCap(s, w.local.AddRef())
		})
		if !w.step() || !h.t.finished() {
			return
		}
		p1 := w.pipeline("pipelined1", h, w.ctx, mEcho)
		if !w.step() {
			return
		}
		w.openGate() // echocap returns A's own capability: embargo + disembargo
		if !w.step() {
			return
		}
		p2 := w.pipeline("pipelined2", h, w.ctx, mEcho)
		if !w.step() {
			return
		}
		w.finish("pipelined1-result", p1)
		w.finish("pipelined2-result", p2)
		w.finish("echocap-result", h)
		w.step()
	})
	reg("callback", func(w *world) {
		boot, ok := w.bootstrap()
		if !ok {
			return
		}
		h := w.send("callback", boot, w.ctx, mCallback, func(s capnp.Struct) error {
			return setCap(s, w.local.AddRef())
		})
		if !w.step() {
			return
		}
		w.finish("callback-result", h)
		w.step()
	})
	reg("closeout", func(w *world) {
		boot, ok := w.bootstrap()
		if !ok {
			return
		}
		h := w.send("block", boot, w.ctx, mBlock, nil)
		h2 := w.send("getcapblock", boot, w.ctx, mGetCapBlock, nil)
		if !w.step() {
			return
		}
		s := w.cs.side
		if !w.closed[s] {
			w.closed[s] = true
			w.do("close-outstanding", func() { w.conn[s].Close() })
		}
		if !w.step() {
			return
		}
		w.finish("block-result", h)
		w.finish("getcapblock-result", h2)
		w.step()
	})
	// a hostile peer answers the Bootstrap with a Return whose capability table is
	// [senderHosted 7, receiverHosted 99]: recvPayload imports the first, fails on the second
	// a peer that over-releases: Finish(releaseResultCaps) before the call returns, the result
	// carries a newly exported capability, and the Release for that export arrives in the window
	// in which sendReturn has dropped c.mu to put the Return on the wire: destroy fails and
	// answer.Return itself shuts the connection down (on the application's goroutine)
	rawScenarios["overrelease"] = true
	reg("overrelease", func(w *world) {
		raw := w.ft[1]
		rawSend := func(build func(m rpccp.Message) error) {
			msg, send, release, err := raw.NewMessage(w.ctx)
			if err != nil {
				return
			}
			defer release()
			if build(msg) == nil {
				send()
			}
		}
		w.do("raw-bootstrap-and-call", func() {
			rawSend(func(m rpccp.Message) error {
				b, err := m.NewBootstrap()
				b.SetQuestionId(0)
				return err
			})
			rawSend(func(m rpccp.Message) error {
				c, err := m.NewCall()
				if err != nil {
					return err
				}
				c.SetQuestionId(1)
				c.SetInterfaceId(ifaceID)
				c.SetMethodId(mGetCapLate)
				t, err := c.NewTarget()
				if err != nil {
					return err
				}
				t.SetImportedCap(0)
				pl, err := c.NewParams()
				if err != nil {
					return err
				}
				st, err := capnp.NewStruct(pl.Segment(), argSize)
				if err != nil {
					return err
				}
				return pl.SetContent(st.ToPtr())
			})
		})
		if !w.step() {
			return
		}
		resume := make(chan struct{})
		// send #0 of A is the bootstrap Return, #1 the Return of the call
		w.ft[0].onSend = map[int]func(){1: func() {
			rawSend(func(m rpccp.Message) error {
				r, err := m.NewRelease()
				r.SetId(1)
				r.SetReferenceCount(1)
				return err
			})
			<-resume // held inside send (sender lock held, c.mu free) until the Release was handled
		}}
		// Finish(releaseResultCaps) before the call returned: the call's context is cancelled, the
		// method returns its capability, the Return is parked inside send by the hook
		w.do("raw-finish", func() {
			rawSend(func(m rpccp.Message) error {
				f, err := m.NewFinish()
				f.SetQuestionId(1)
				f.SetReleaseResultCaps(true)
				return err
			})
		})
		// quiescence with the Return parked inside send: the receive goroutine handles the Release
		// (it only needs c.mu); the sender lock is legitimately held here, so no lock probe
		synctest.Wait()
		close(resume)
		w.step()
	})
	rawScenarios["hostilecaps"] = true
	reg("hostilecaps", func(w *world) {
		var boot *capnp.Client
		t := w.do("bootstrap", func() { boot = w.conn[0].Bootstrap(w.ctx) })
		if !w.step() {
			return
		}
		w.do("raw-return", func() {
			raw := w.ft[1]
			in, rel, err := raw.RecvMessage(w.ctx)
			if err != nil {
				return
			}
			if in.Which() != rpccp.Message_Which_bootstrap {
				rel()
				return
			}
			b, err := in.Bootstrap()
			if err != nil {
				rel()
				return
			}
			qid := b.QuestionId()
			rel()
			msg, send, release, err := raw.NewMessage(w.ctx)
			if err != nil {
				return
			}
			defer release()
			ret, _ := msg.NewReturn()
			ret.SetAnswerId(qid)
			pl, _ := ret.NewResults()
			pl.SetContent(capnp.NewInterface(pl.Segment(), 0).ToPtr())
			ct, _ := pl.NewCapTable(2)
			ct.At(0).SetSenderHosted(7)
			ct.At(1).SetReceiverHosted(99)
			send()
		})
		if !w.step() {
			return
		}
		if t.finished() {
			w.cleanup = append(w.cleanup, boot.Release)
			w.do("resolve", func() { boot.Resolve(w.ctx) })
		}
		w.step()
	})
	reg("peerclose", func(w *world) {
		boot, ok := w.bootstrap()
		if !ok {
			return
		}
		o := 1 - w.cs.side
		if !w.closed[o] {
			w.closed[o] = true
			w.do("peer-close", func() { w.conn[o].Close() })
		}
		if !w.step() {
			return
		}
		h := w.send("echo-after-close", boot, w.ctx, mEcho, nil)
		if !w.step() {
			return
		}
		w.finish("echo-after-close-result", h)
		w.step()
	})
}
