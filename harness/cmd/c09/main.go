// Command c09: fault-enumeration harness and transport correspondence for property C09
// (transport faults, cancellation and Close terminate cleanly).
package main

import (
	"bufio"
	"flag"
	"fmt"
	"os"
	"os/exec"
	"runtime"
	"strings"
	"testing"
	"time"

	. "verifh/hc"
)

var (
	childFlag = flag.Bool("child", false, "internal: run cases from stdin")
	maxRuns   = flag.Int("runs", 0, "override the number of sampled fault runs (quick tier)")
)

func main() {
	testing.Init()
	Main(run)
}

var stdoutW = bufio.NewWriter(os.Stdout)

func exitNow(code int) {
	stdoutW.Flush()
	os.Exit(code)
}

// ---------------------------------------------------------------- child: runs cases in bubbles

func childLoop() {
	runtime.GOMAXPROCS(1)
	// synctest.Test needs a *testing.T: run the whole loop as one test of a testing.Main
	tests := []testing.InternalTest{{Name: "c09", F: childTest}}
	testing.Main(func(pat, str string) (bool, error) { return true, nil }, tests, nil, nil)
}

func childTest(t *testing.T) {
	sc := bufio.NewScanner(os.Stdin)
	sc.Buffer(make([]byte, 1<<20), 1<<26)
	for sc.Scan() {
		line := sc.Text()
		sp := strings.SplitN(line, " ", 2)
		if len(sp) != 2 {
			continue
		}
		idx := sp[0]
		fmt.Fprintf(stdoutW, "B %s\n", idx)
		stdoutW.Flush()
		if strings.HasPrefix(sp[1], "txw ") {
			obs := "bad-case"
			if c, err := parseTxwCase(sp[1]); err == nil {
				obs = "viol:test-failed"
				t.Run("case", func(t *testing.T) { obs = runTxw(t, c) })
			}
			fmt.Fprintf(stdoutW, "R %s %s |\n", idx, obs)
			stdoutW.Flush()
			continue
		}
		cs, err := parseCase(sp[1])
		if err != nil {
			fmt.Fprintf(stdoutW, "R %s bad-case |\n", idx)
			stdoutW.Flush()
			continue
		}
		flushed := false
		flush := func(r runResult) {
			flushed = true
			fmt.Fprintf(stdoutW, "R %s %s | %s\n", idx, r.obs, r.counts)
			stdoutW.Flush()
		}
		t.Run("case", func(t *testing.T) { runCase(t, cs, flush) })
		if !flushed {
			fmt.Fprintf(stdoutW, "R %s viol:test-failed |\n", idx)
			stdoutW.Flush()
		}
	}
	exitNow(0)
}

// ---------------------------------------------------------------- parent: feeds children

type caseOut struct {
	obs    string
	counts map[string]int
}

// runInChildren executes the fault cases in child processes under a wall-clock watchdog.
func runInChildren(outDir string, lines []string) []caseOut {
	res := make([]caseOut, len(lines))
	next := 0
	for next < len(lines) {
		cmd := exec.Command(os.Args[0], "-child", "-out", outDir+"/child")
		stdin, _ := cmd.StdinPipe()
		stdout, _ := cmd.StdoutPipe()
		var stderr strings.Builder
		cmd.Stderr = &limitedWriter{b: &stderr, max: 1 << 16}
		if err := cmd.Start(); err != nil {
			panic(err)
		}
		first := next
		go func() {
			w := bufio.NewWriter(stdin)
			for i := first; i < len(lines); i++ {
				fmt.Fprintf(w, "%d %s\n", i, lines[i])
			}
			w.Flush()
			stdin.Close()
		}()
		type msg struct {
			line string
			eof  bool
		}
		ch := make(chan msg, 64)
		go func() {
			sc := bufio.NewScanner(stdout)
			sc.Buffer(make([]byte, 1<<20), 1<<26)
			for sc.Scan() {
				ch <- msg{line: sc.Text()}
			}
			ch <- msg{eof: true}
		}()
		cur := -1
		dead := false
		for !dead {
			select {
			case m := <-ch:
				if m.eof {
					dead = true
					break
				}
				f := strings.SplitN(m.line, " ", 3)
				if len(f) >= 2 && f[0] == "B" {
					fmt.Sscan(f[1], &cur)
				} else if len(f) == 3 && f[0] == "R" {
					var i int
					fmt.Sscan(f[1], &i)
					parts := strings.SplitN(f[2], "|", 2)
					co := caseOut{obs: strings.TrimSpace(parts[0]), counts: map[string]int{}}
					if len(parts) == 2 {
						for _, kv := range strings.Fields(parts[1]) {
							p := strings.SplitN(kv, "=", 2)
							if len(p) == 2 {
								var v int
								fmt.Sscan(p[1], &v)
								co.counts[p[0]] = v
							}
						}
					}
					res[i] = co
					next = i + 1
					cur = -1
				}
			case <-time.After(30 * time.Second):
				// a goroutine spins or is blocked on a leaked mutex: synctest cannot see that
				cmd.Process.Kill()
				if cur >= 0 && res[cur].obs == "" {
					res[cur] = caseOut{obs: "viol:wallclock-hang"}
					next = cur + 1
				} else if cur < 0 {
					res[next] = caseOut{obs: "viol:wallclock-hang"}
					next++
				}
				dead = true
			}
		}
		cmd.Process.Kill()
		cmd.Wait()
		if os.Getenv("C09_DEBUG") == "2" {
			fmt.Fprintf(os.Stderr, "%s", stderr.String())
		}
		if cur >= 0 && res[cur].obs == "" {
			cls := "crash"
			for _, l := range strings.Split(stderr.String(), "\n") {
				if strings.HasPrefix(l, "panic: ") || strings.HasPrefix(l, "fatal error: ") {
					// canonical tag: the panic message without addresses or punctuation
					msg := l[strings.Index(l, ": ")+2:]
					var b strings.Builder
					for _, r := range msg {
						switch {
						case r >= 'a' && r <= 'z', r >= 'A' && r <= 'Z', r == ' ', r == '.', r == '_':
							b.WriteRune(r)
						}
					}
					t := strings.TrimSpace(b.String())
					if len(t) > 60 {
						t = t[:60]
					}
					cls = "panic[" + t + "]"
					break
				}
			}
			if os.Getenv("C09_DEBUG") != "" {
				fmt.Fprintf(os.Stderr, "child died on case %d %q:\n%s\n", cur, lines[cur], stderr.String())
			}
			res[cur] = caseOut{obs: "viol:" + cls}
			next = cur + 1
		}
	}
	return res
}

type limitedWriter struct {
	b   *strings.Builder
	max int
}

func (l *limitedWriter) Write(p []byte) (int, error) {
	if l.b.Len() < l.max {
		l.b.Write(p)
	}
	return len(p), nil
}

// ---------------------------------------------------------------- generation

func classOf(obs string) string {
	if obs == "clean" {
		return "clean"
	}
	return "violation"
}

func recordFault(out *Out, lines []string, res []caseOut) {
	for i, l := range lines {
		cs, _ := parseCase(l)
		nontrivial := cs.kind != "none" || cs.xact != "none"
		out.Case("fault/"+cs.kind+"/"+cs.xact, l, res[i].obs, classOf(res[i].obs), nontrivial)
	}
}

func run(out *Out, r *Rand, tier string, replay []string) {
	if *childFlag {
		childLoop()
		return
	}
	outDir := outDirOf()
	if replay != nil {
		var fl, wl []string
		for _, l := range replay {
			switch strings.Fields(l)[0] {
			case "txw":
				wl = append(wl, l)
			case "tx", "txd":
				order, faults, ops := parseTxCase(l)
				txOne(out, order, faults, ops, strings.Fields(l)[0] == "txd")
			case "fault":
				fl = append(fl, l)
			}
		}
		recordTxw(out, wl, runInChildren(outDir, wl))
		recordFault(out, fl, runInChildren(outDir, fl))
		out.Close(ruleText)
		return
	}
	genTx(out, r, tier)
	wl := genTxw(r, tier)
	recordTxw(out, wl, runInChildren(outDir, wl))

	// dry runs: operation counts of every scenario on either side without faults
	var dry []string
	for _, sc := range scenarioNames {
		for side := 0; side < 2; side++ {
			if side == 1 && rawScenarios[sc] {
				continue
			}
			dry = append(dry, caseSpec{scen: sc, side: side, kind: "none", xact: "none"}.String())
		}
	}
	dres := runInChildren(outDir, dry)
	recordFault(out, dry, dres)
	nsync := 0
	for _, d := range dres {
		nsync += d.counts["syncrecv"]
	}
	// evidence that answer.Return really ran on a receive goroutine in the fault-free runs
	out.Extra["x_sync_returns_on_receive_goroutine_dry"] = nsync

	// the full product
	var all []string
	for i, l := range dry {
		cs, _ := parseCase(l)
		c := dres[i].counts
		steps := c["steps"]
		add := func(kind string, idx, k int) {
			x := cs
			x.kind, x.idx, x.k = kind, idx, k
			all = append(all, x.String())
			for _, xa := range []string{"cancel", "close", "dclose"} {
				for st := 0; st < steps; st++ {
					y := x
					y.xact, y.xstep = xa, st
					all = append(all, y.String())
				}
			}
		}
		for _, xa := range []string{"cancel", "close", "dclose"} {
			for st := 0; st < steps; st++ {
				y := cs
				y.xact, y.xstep = xa, st
				all = append(all, y.String())
			}
		}
		for j := 0; j < c["nm"]+1; j++ {
			add("nm", j, 0)
		}
		for j := 0; j < c["send"]+1; j++ {
			add("send", j, 0)
		}
		for j := 0; j < c["recv"]+1; j++ {
			add("recv", j, 0)
		}
		for j := 0; j < c["read"]+1; j++ {
			add("eof", j, 0)
		}
		for j := 0; j < c["write"]+1; j++ {
			for _, k := range []int{0, 1, 7, 9} {
				add("short", j, k)
			}
		}
	}
	out.Extra["x_fault_product_size"] = len(all)
	var pick []string
	if tier == "thorough" {
		pick = all
	} else {
		n := 300
		if *maxRuns > 0 {
			n = *maxRuns
		}
		// every single-fault run (no extra action) -- they are cheap and each of them is the
		// only witness of "this one operation fails": sampling them misses single-site defects --
		// plus a stratified (fault kind x extra action) sample of the combinations
		strata := map[string][]string{}
		var keys []string
		for _, l := range all {
			cs, _ := parseCase(l)
			if cs.xact == "none" {
				pick = append(pick, l)
				continue
			}
			k := cs.kind + "/" + cs.xact
			if _, ok := strata[k]; !ok {
				keys = append(keys, k)
			}
			strata[k] = append(strata[k], l)
		}
		n += len(pick)
		out.Extra["x_quick_single_fault_runs"] = len(pick)
		for len(pick) < n {
			progressed := false
			for _, k := range keys {
				st := strata[k]
				if len(st) == 0 || len(pick) >= n {
					continue
				}
				j := r.Intn(len(st))
				pick = append(pick, st[j])
				st[j] = st[len(st)-1]
				strata[k] = st[:len(st)-1]
				progressed = true
			}
			if !progressed {
				break
			}
		}
	}
	recordFault(out, pick, runInChildren(outDir, pick))
	out.Close(ruleText)
}

const ruleText = "tx: distinct (fault table, message sizes); non-trivial = at least one write fault. " +
	"txw: distinct (deadline support, grace period, stream outcome table, context behaviours, message sizes); non-trivial = at least one stream fault. " +
	"fault: distinct (scenario, side, fault kind, index, k, extra action, step); non-trivial = a fault or an extra action is injected"

func outDirOf() string {
	f := flag.Lookup("out")
	return f.Value.String()
}
