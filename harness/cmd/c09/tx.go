package main

import (
	"context"
	"fmt"
	"strings"

	capnp "capnproto.org/go/capnp/v3"
	"capnproto.org/go/capnp/v3/rpc"
	rpccp "capnproto.org/go/capnp/v3/std/capnp/rpc"
	. "verifh/hc"
)

// Transport correspondence: the real rpc.NewStreamTransport over a faulty writer against
// the extracted model coq/Transport/Transport.v (run_tbl VFixed).
//
// case line:  tx <faults> <ops>
//   faults:   "-" or  i:n,j:m     write index i returns an error after n bytes
//   ops:      c:L:buf+buf;...     c=1: the send context is already cancelled; L = length of the
//                                 abort reason the message is built from; buf = hex of each
//                                 buffer Encode writes (header, segments) -- for the model
// observation: <wire hex> <r,r,..>   r in ok|err|nm

type txOp struct {
	ctxDone bool
	l       int
}

type sinkRWC struct{}

func (sinkRWC) Read(p []byte) (int, error)  { select {} }
func (sinkRWC) Write(p []byte) (int, error) { return len(p), nil }
func (sinkRWC) Close() error                { return nil }

func buildTxMsg(msg rpccp.Message, l int) error {
	exc, err := msg.NewAbort()
	if err != nil {
		return err
	}
	exc.SetType(rpccp.Exception_Type_failed)
	b := make([]byte, l)
	for i := range b {
		b[i] = byte('a' + (i*7+l)%23)
	}
	return exc.SetReason(string(b))
}

// frameBufs splits a message into the buffers Encoder.Encode hands to Write.
func frameBufs(m *capnp.Message) ([][]byte, error) {
	all, err := m.Marshal()
	if err != nil {
		return nil, err
	}
	nsegs := int(m.NumSegments())
	hdr := 4 + 4*nsegs
	if hdr%8 != 0 {
		hdr += 4
	}
	bufs := [][]byte{append([]byte(nil), all[:hdr]...)}
	pos := hdr
	for i := 0; i < nsegs; i++ {
		s, err := m.Segment(capnp.SegmentID(i))
		if err != nil {
			return nil, err
		}
		n := len(s.Data())
		bufs = append(bufs, append([]byte(nil), all[pos:pos+n]...))
		pos += n
	}
	return bufs, nil
}

func runTx(faults map[int]int, ops []txOp) (caseOps string, obs string) {
	return runTxSafe(faults, ops)
}

func runTxSafe(faults map[int]int, ops []txOp) (caseOps string, obs string) {
	var opStrs []string
	defer func() {
		if e := recover(); e != nil {
			obs = "panic"
			caseOps = strings.Join(opStrs, ";")
		}
	}()
	f := newFaultRWC(sinkRWC{})
	for i, n := range faults {
		f.shortAt[i] = n
	}
	tr := rpc.NewStreamTransport(f)
	var results []string
	for _, op := range ops {
		// the buffers of this message, computed on a scratch copy built the same way
		scratch, seg, _ := capnp.NewMessage(capnp.MultiSegment(nil))
		root, _ := rpccp.NewRootMessage(seg)
		if err := buildTxMsg(root, op.l); err != nil {
			panic(err)
		}
		bufs, err := frameBufs(scratch)
		if err != nil {
			panic(err)
		}
		hx := make([]string, len(bufs))
		for i, b := range bufs {
			hx[i] = Hx(b)
		}
		c := 0
		if op.ctxDone {
			c = 1
		}
		opStrs = append(opStrs, fmt.Sprintf("%d:%d:%s", c, op.l, strings.Join(hx, "+")))

		ctx, cancel := context.WithCancel(context.Background())
		if op.ctxDone {
			cancel()
		}
		msg, send, release, err := tr.NewMessage(ctx)
		if err != nil {
			results = append(results, "nm")
			cancel()
			continue
		}
		if err := buildTxMsg(msg, op.l); err != nil {
			panic(err)
		}
		if err := send(); err != nil {
			results = append(results, "err")
		} else {
			results = append(results, "ok")
		}
		release()
		cancel()
	}
	_, _, wire := f.counts()
	return strings.Join(opStrs, ";"), Hx(wire) + " " + strings.Join(results, ",")
}

func fmtFaults(order []int, faults map[int]int) string {
	if len(order) == 0 {
		return "-"
	}
	var s []string
	for _, i := range order {
		s = append(s, fmt.Sprintf("%d:%d", i, faults[i]))
	}
	return strings.Join(s, ",")
}

func parseTxCase(line string) (order []int, faults map[int]int, ops []txOp) {
	f := strings.Fields(line)
	faults = map[int]int{}
	if f[1] != "-" {
		for _, p := range strings.Split(f[1], ",") {
			var i, n int
			fmt.Sscanf(p, "%d:%d", &i, &n)
			if _, dup := faults[i]; !dup {
				order = append(order, i)
			}
			faults[i] = n
		}
	}
	if len(f) > 2 {
		for _, p := range strings.Split(f[2], ";") {
			var c, l int
			q := strings.SplitN(p, ":", 3)
			fmt.Sscan(q[0], &c)
			fmt.Sscan(q[1], &l)
			ops = append(ops, txOp{ctxDone: c == 1, l: l})
		}
	}
	return
}

func txOne(out *Out, order []int, faults map[int]int, ops []txOp) {
	opsStr, obs := runTx(faults, ops)
	class := "clean"
	if len(faults) > 0 {
		class = "faulted"
	}
	if strings.Contains(obs, "nm") {
		class = "broken"
	}
	out.Case("tx", "tx "+fmtFaults(order, faults)+" "+opsStr, obs, class, len(faults) > 0)
}

func genTx(out *Out, r *Rand, tier string) {
	sizes := []int{0, 3, 8, 40, 900, 1100, 2500}
	n := 150
	if tier == "thorough" {
		n = 3000
	}
	// systematic: 3 messages, one fault at every write index, every interesting byte count
	for _, l := range []int{3, 1100} {
		ops := []txOp{{false, l}, {false, 8}, {false, l}}
		for w := 0; w < 8; w++ {
			for _, k := range []int{0, 1, 7, 8, 9, 1 << 20} {
				txOne(out, []int{w}, map[int]int{w: k}, ops)
			}
		}
	}
	for i := 0; i < n; i++ {
		nops := 1 + r.Intn(5)
		ops := make([]txOp, nops)
		for j := range ops {
			ops[j] = txOp{ctxDone: r.Intn(8) == 0, l: sizes[r.Intn(len(sizes))]}
		}
		faults := map[int]int{}
		var order []int
		nf := r.Pick(2, 5, 3, 1)
		for j := 0; j < nf; j++ {
			w := r.Intn(3 * nops)
			if _, dup := faults[w]; dup {
				continue
			}
			order = append(order, w)
			faults[w] = []int{0, 1, 2, 7, 8, 9, 16, 100, 1023, 1024, 1 << 20}[r.Intn(11)]
		}
		txOne(out, order, faults, ops)
	}
}
