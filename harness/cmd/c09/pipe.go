package main

import (
	"context"
	"errors"
	"io"
	"sync"

	capnp "capnproto.org/go/capnp/v3"
	"capnproto.org/go/capnp/v3/rpc"
	rpccp "capnproto.org/go/capnp/v3/std/capnp/rpc"
)

// ---------------------------------------------------------------- in-memory byte pipe

// half is one direction of an in-memory stream: unbounded buffer, Read blocks on a
// channel (durably blocked for synctest) until data arrives or the half is closed.
type half struct {
	mu     sync.Mutex
	buf    []byte
	closed bool
	sig    chan struct{}
}

func newHalf() *half { return &half{sig: make(chan struct{})} }

func (h *half) write(p []byte) (int, error) {
	h.mu.Lock()
	defer h.mu.Unlock()
	if h.closed {
		return 0, errors.New("mempipe: write on closed pipe")
	}
	h.buf = append(h.buf, p...)
	close(h.sig)
	h.sig = make(chan struct{})
	return len(p), nil
}

func (h *half) read(p []byte) (int, error) {
	for {
		h.mu.Lock()
		if len(h.buf) > 0 {
			n := copy(p, h.buf)
			h.buf = h.buf[n:]
			h.mu.Unlock()
			return n, nil
		}
		if h.closed {
			h.mu.Unlock()
			return 0, io.EOF
		}
		s := h.sig
		h.mu.Unlock()
		<-s
	}
}

func (h *half) close() {
	h.mu.Lock()
	if !h.closed {
		h.closed = true
		close(h.sig)
		h.sig = make(chan struct{})
	}
	h.mu.Unlock()
}

// end is one end of a duplex in-memory stream.
type end struct{ in, out *half }

func newDuplex() (*end, *end) {
	ab, ba := newHalf(), newHalf()
	return &end{in: ba, out: ab}, &end{in: ab, out: ba}
}

func (e *end) Read(p []byte) (int, error)  { return e.in.read(p) }
func (e *end) Write(p []byte) (int, error) { return e.out.write(p) }
func (e *end) Close() error {
	e.in.close()
	e.out.close()
	return nil
}

// ---------------------------------------------------------------- byte-level faults

var errInjected = errors.New("injected fault")

// faultRWC injects faults into the byte stream of one side and records what reached the wire.
type faultRWC struct {
	inner   io.ReadWriteCloser
	mu      sync.Mutex
	nwrite  int
	nread   int
	shortAt map[int]int // write index -> number of bytes let through before the error
	eofAt   int         // read index from which Read reports io.EOF (-1: never)
	wire    []byte      // every byte handed to the inner writer
	hook    func(widx int) // called before each write (tx mode: cancel the context)
}

func newFaultRWC(inner io.ReadWriteCloser) *faultRWC {
	return &faultRWC{inner: inner, shortAt: map[int]int{}, eofAt: -1}
}

func (f *faultRWC) Write(p []byte) (int, error) {
	f.mu.Lock()
	i := f.nwrite
	f.nwrite++
	if f.hook != nil {
		f.hook(i)
	}
	k, bad := f.shortAt[i]
	f.mu.Unlock()
	if bad {
		if k > len(p) {
			k = len(p)
		}
		if k > 0 {
			n, _ := f.inner.Write(p[:k])
			f.mu.Lock()
			f.wire = append(f.wire, p[:n]...)
			f.mu.Unlock()
			k = n
		}
		return k, errInjected
	}
	// only what the stream accepted is on the wire (a closed stream accepts nothing)
	n, err := f.inner.Write(p)
	f.mu.Lock()
	f.wire = append(f.wire, p[:n]...)
	f.mu.Unlock()
	return n, err
}

func (f *faultRWC) Read(p []byte) (int, error) {
	f.mu.Lock()
	i := f.nread
	f.nread++
	eof := f.eofAt >= 0 && i >= f.eofAt
	f.mu.Unlock()
	if eof {
		return 0, io.EOF
	}
	return f.inner.Read(p)
}

func (f *faultRWC) Close() error { return f.inner.Close() }

func (f *faultRWC) counts() (w, r int, wire []byte) {
	f.mu.Lock()
	defer f.mu.Unlock()
	return f.nwrite, f.nread, append([]byte(nil), f.wire...)
}

// ---------------------------------------------------------------- message-level faults

// faultTransport wraps an rpc.Transport, counts its operations, injects message-level
// faults and records the frame of every message whose send was attempted.
type faultTransport struct {
	inner           rpc.Transport
	mu              sync.Mutex
	nNew, nSend     int
	nRecv           int
	failNew         int // index of the NewMessage call that fails (-1: none)
	failSend        int
	failRecv        int
	frames          [][]byte // frames of the messages handed to the inner send, in order
	onSend          map[int]func() // called inside the idx-th send, before the message goes out
	sendErrs        int      // inner sends that returned an error
	sendOKAfterFail bool
}

func newFaultTransport(inner rpc.Transport) *faultTransport {
	return &faultTransport{inner: inner, failNew: -1, failSend: -1, failRecv: -1}
}

func (t *faultTransport) NewMessage(ctx context.Context) (rpccp.Message, func() error, capnp.ReleaseFunc, error) {
	t.mu.Lock()
	i := t.nNew
	t.nNew++
	t.mu.Unlock()
	if i == t.failNew {
		return rpccp.Message{}, nil, nil, errInjected
	}
	msg, send, release, err := t.inner.NewMessage(ctx)
	if err != nil {
		return msg, send, release, err
	}
	wsend := func() error {
		t.mu.Lock()
		j := t.nSend
		t.nSend++
		t.mu.Unlock()
		if j == t.failSend {
			return errInjected
		}
		if h := t.onSend[j]; h != nil {
			h()
		}
		if fr, err := msg.Struct.Message().Marshal(); err == nil {
			t.mu.Lock()
			t.frames = append(t.frames, fr)
			t.mu.Unlock()
		}
		err := send()
		if err != nil {
			t.mu.Lock()
			t.sendErrs++
			t.mu.Unlock()
		}
		return err
	}
	return msg, wsend, release, nil
}

func (t *faultTransport) RecvMessage(ctx context.Context) (rpccp.Message, capnp.ReleaseFunc, error) {
	t.mu.Lock()
	i := t.nRecv
	t.nRecv++
	t.mu.Unlock()
	if i == t.failRecv {
		return rpccp.Message{}, nil, errInjected
	}
	return t.inner.RecvMessage(ctx)
}

func (t *faultTransport) Close() error { return t.inner.Close() }

// wireVerdict decides the predicate well_framed of coq/Transport/Transport.v on the real
// bytes: the wire is a concatenation of whole frames (a subsequence, in order, of the frames
// whose send was attempted) followed by at most one torn frame (a proper non-empty prefix of
// an attempted frame) at the very end.  Returns "ok" or "garbage", and whether a torn frame
// is present in the decomposition found.
func wireVerdict(wire []byte, frames [][]byte) (verdict string, torn bool) {
	type key struct{ i, pos int }
	memo := map[key]int{} // 0 unknown, 1 ok-whole, 2 ok-torn, 3 no
	var match func(i, pos int) int
	match = func(i, pos int) int {
		if pos == len(wire) {
			return 1
		}
		if i == len(frames) {
			return 3
		}
		k := key{i, pos}
		if v := memo[k]; v != 0 {
			return v
		}
		res := 3
		fr := frames[i]
		rest := wire[pos:]
		if len(rest) >= len(fr) && string(rest[:len(fr)]) == string(fr) {
			if v := match(i+1, pos+len(fr)); v != 3 {
				res = v
			}
		}
		if res == 3 {
			if v := match(i+1, pos); v != 3 {
				res = v
			}
		}
		if res == 3 && len(rest) < len(fr) && string(fr[:len(rest)]) == string(rest) {
			res = 2
		}
		memo[k] = res
		return res
	}
	switch match(0, 0) {
	case 1:
		return "ok", false
	case 2:
		return "ok", true
	}
	return "garbage", false
}
