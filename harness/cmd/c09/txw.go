package main

import (
	"context"
	"fmt"
	"io"
	"strings"
	"sync"
	"testing"
	"testing/synctest"
	"time"

	capnp "capnproto.org/go/capnp/v3"
	"capnproto.org/go/capnp/v3/rpc"
	rpccp "capnproto.org/go/capnp/v3/std/capnp/rpc"
	. "verifh/hc"
)

// Byte-level transport correspondence: the real rpc.NewStreamTransport over a deadline-capable
// in-memory stream under virtual time, against the extracted model coq/Transport/CtxWrite.v
// (cw_run_tbl WCode).
//
// case line:  txw <dl><pwt> <table> <ops>
//   dl        1: the stream implements SetWriteDeadline, 0: it does not
//   pwt       1: partialWriteTimeout = 50ms, 0: SetPartialWriteTimeout(0)
//   table     "-" or i:K:k,...   the i-th Write call on the stream (grace-period calls count)
//                                accepts min(k,len) bytes and then  K=f: fails at once,
//                                K=t: blocks until the write deadline has passed (the stream's own
//                                1h time-out when no deadline is set) and reports a time-out
//   ops       m:L:buf+buf;...    m = l (context never done) | d (done before NewMessage) |
//                                t (context with a 1s deadline) | cJ (cancelled by "another
//                                goroutine" at the start of the J-th stream call of this send);
//                                L = length of the abort reason; buf = hex of each buffer (for the model)
// observation: w=<hex of every byte the stream accepted> calls=<len of every slice handed to the
//              stream> broken=<0|1: NewMessage fails at the end> res=<ok|err|nm per message>

type wOut struct {
	kind byte // 't' | 'f'
	k    int
}

type wOp struct {
	mode string // l d t c
	j    int
	l    int
}

type tmoErr struct{}

func (tmoErr) Error() string   { return "dlstream: i/o timeout" }
func (tmoErr) Timeout() bool   { return true }
func (tmoErr) Temporary() bool { return true }

type dlStream struct {
	mu       sync.Mutex
	table    map[int]wOut
	ncall    int
	log      []int
	wire     []byte
	deadline time.Time
	changed  chan struct{}
	hook     func(idx int) // at the start of every Write, with the global call index
}

func newDlStream(table map[int]wOut) *dlStream {
	return &dlStream{table: table, changed: make(chan struct{})}
}

func (s *dlStream) Read(p []byte) (int, error) { return 0, io.EOF }
func (s *dlStream) Close() error               { return nil }

func (s *dlStream) SetWriteDeadline(t time.Time) error {
	s.mu.Lock()
	s.deadline = t
	close(s.changed)
	s.changed = make(chan struct{})
	s.mu.Unlock()
	return nil
}

func (s *dlStream) Write(p []byte) (int, error) {
	s.mu.Lock()
	i := s.ncall
	s.ncall++
	s.log = append(s.log, len(p))
	o, bad := s.table[i]
	hook := s.hook
	s.mu.Unlock()
	if hook != nil {
		hook(i)
	}
	if !bad {
		s.mu.Lock()
		s.wire = append(s.wire, p...)
		s.mu.Unlock()
		return len(p), nil
	}
	k := o.k
	if k > len(p) {
		k = len(p)
	}
	s.mu.Lock()
	s.wire = append(s.wire, p[:k]...)
	s.mu.Unlock()
	if o.kind == 'f' {
		return k, errInjected
	}
	// accept k bytes, then block until the deadline has passed; return just AFTER it so that a
	// context whose deadline is the same instant is done by then (virtual time only advances
	// when every goroutine of the bubble is blocked)
	own := time.NewTimer(time.Hour)
	defer own.Stop()
	for {
		s.mu.Lock()
		d := s.deadline
		ch := s.changed
		s.mu.Unlock()
		var tc <-chan time.Time
		var tm *time.Timer
		if !d.IsZero() {
			rem := time.Until(d)
			if rem <= 0 {
				time.Sleep(time.Microsecond)
				return k, tmoErr{}
			}
			tm = time.NewTimer(rem)
			tc = tm.C
		}
		select {
		case <-ch:
		case <-tc:
		case <-own.C:
			if tm != nil {
				tm.Stop()
			}
			time.Sleep(time.Microsecond)
			return k, tmoErr{}
		}
		if tm != nil {
			tm.Stop()
		}
	}
}

// plainStream hides SetWriteDeadline.
type plainStream struct{ s *dlStream }

func (p plainStream) Read(b []byte) (int, error)  { return p.s.Read(b) }
func (p plainStream) Write(b []byte) (int, error) { return p.s.Write(b) }
func (p plainStream) Close() error                { return nil }

type txwCase struct {
	dl, pwt bool
	order   []int
	table   map[int]wOut
	ops     []wOp
}

func txwBufs(l int) []string {
	scratch, seg, _ := capnp.NewMessage(capnp.MultiSegment(nil))
	root, _ := rpccp.NewRootMessage(seg)
	if err := buildTxMsg(root, l); err != nil {
		panic(err)
	}
	bufs, err := frameBufs(scratch)
	if err != nil {
		panic(err)
	}
	hx := make([]string, len(bufs))
	for i, b := range bufs {
		hx[i] = Hx(b)
	}
	return hx
}

func (c txwCase) String() string {
	b := func(x bool) string {
		if x {
			return "1"
		}
		return "0"
	}
	tbl := "-"
	if len(c.order) > 0 {
		var s []string
		for _, i := range c.order {
			s = append(s, fmt.Sprintf("%d:%c:%d", i, c.table[i].kind, c.table[i].k))
		}
		tbl = strings.Join(s, ",")
	}
	var ops []string
	for _, o := range c.ops {
		m := o.mode
		if m == "c" {
			m = fmt.Sprintf("c%d", o.j)
		}
		ops = append(ops, fmt.Sprintf("%s:%d:%s", m, o.l, strings.Join(txwBufs(o.l), "+")))
	}
	return "txw " + b(c.dl) + b(c.pwt) + " " + tbl + " " + strings.Join(ops, ";")
}

func parseTxwCase(line string) (c txwCase, err error) {
	f := strings.Fields(line)
	if len(f) != 4 || f[0] != "txw" || len(f[1]) != 2 {
		return c, fmt.Errorf("bad txw case")
	}
	c.dl, c.pwt = f[1][0] == '1', f[1][1] == '1'
	c.table = map[int]wOut{}
	if f[2] != "-" {
		for _, p := range strings.Split(f[2], ",") {
			q := strings.Split(p, ":")
			if len(q) != 3 || len(q[1]) != 1 || (q[1] != "t" && q[1] != "f") {
				return c, fmt.Errorf("bad txw table")
			}
			var i, k int
			if _, e := fmt.Sscan(q[0], &i); e != nil {
				return c, e
			}
			if _, e := fmt.Sscan(q[2], &k); e != nil {
				return c, e
			}
			if _, dup := c.table[i]; !dup {
				c.order = append(c.order, i)
				c.table[i] = wOut{kind: q[1][0], k: k}
			}
		}
	}
	for _, p := range strings.Split(f[3], ";") {
		q := strings.SplitN(p, ":", 3)
		if len(q) < 2 || q[0] == "" {
			return c, fmt.Errorf("bad txw op")
		}
		o := wOp{mode: q[0][:1]}
		if o.mode == "c" {
			fmt.Sscan(q[0][1:], &o.j)
		}
		if !strings.Contains("ldtc", o.mode) {
			return c, fmt.Errorf("bad txw mode")
		}
		fmt.Sscan(q[1], &o.l)
		c.ops = append(c.ops, o)
	}
	return c, nil
}

// runTxw runs one case inside a synctest bubble.
func runTxw(t *testing.T, c txwCase) (obs string) {
	synctest.Test(t, func(t *testing.T) {
		defer func() {
			if e := recover(); e != nil {
				obs = "panic"
			}
		}()
		s := newDlStream(c.table)
		var rwc io.ReadWriteCloser = s
		if !c.dl {
			rwc = plainStream{s}
		}
		tr := rpc.NewStreamTransport(rwc)
		pw := 50 * time.Millisecond
		if !c.pwt {
			pw = 0
		}
		tr.(interface{ SetPartialWriteTimeout(time.Duration) }).SetPartialWriteTimeout(pw)
		var results []string
		for _, op := range c.ops {
			var ctx context.Context
			var cancel context.CancelFunc
			if op.mode == "t" {
				ctx, cancel = context.WithTimeout(context.Background(), time.Second)
			} else {
				ctx, cancel = context.WithCancel(context.Background())
			}
			if op.mode == "d" {
				cancel()
			}
			msg, send, release, err := tr.NewMessage(ctx)
			if err != nil {
				results = append(results, "nm")
				cancel()
				continue
			}
			if err := buildTxMsg(msg, op.l); err != nil {
				panic(err)
			}
			if op.mode == "c" {
				s.mu.Lock()
				base := s.ncall
				s.hook = func(i int) {
					if i-base == op.j {
						cancel()
					}
				}
				s.mu.Unlock()
			}
			err = send()
			s.mu.Lock()
			s.hook = nil
			s.mu.Unlock()
			if err != nil {
				results = append(results, "err")
			} else {
				results = append(results, "ok")
			}
			release()
			cancel()
		}
		broken := "0"
		if _, _, rel, err := tr.NewMessage(context.Background()); err != nil {
			broken = "1"
		} else {
			rel()
		}
		s.mu.Lock()
		defer s.mu.Unlock()
		calls := "-"
		if len(s.log) > 0 {
			var l []string
			for _, n := range s.log {
				l = append(l, fmt.Sprint(n))
			}
			calls = strings.Join(l, ",")
		}
		obs = "w=" + Hx(s.wire) + " calls=" + calls + " broken=" + broken + " res=" + strings.Join(results, ",")
	})
	return obs
}

func recordTxw(out *Out, lines []string, res []caseOut) {
	for i, l := range lines {
		obs := res[i].obs
		class := "txw/clean"
		f := strings.Fields(l)
		if len(f) > 2 && f[2] != "-" {
			class = "txw/faulted"
		}
		if strings.Contains(obs, "broken=1") {
			class = "txw/broken"
		}
		out.Case("txw", l, obs, class, len(f) > 2 && f[2] != "-")
	}
}

// genTxw: the systematic part enumerates, for a fault in the first buffer (the 8-byte header)
// of the first frame, every byte count 0..9, both error kinds, every outcome class of the
// following stream call (the grace-period Write when there is one: zero / partial / full
// progress, time-out or other error), under every configuration and context behaviour; then the
// same for a fault inside / at the end of the segment buffer and in a later frame; then random cases.
func genTxw(r *Rand, tier string) []string {
	var lines []string
	add := func(c txwCase) { lines = append(lines, c.String()) }
	type nxt struct {
		on   bool
		kind byte
		k    int
	}
	nexts := []nxt{{}, {true, 't', 0}, {true, 't', 1}, {true, 't', 4}, {true, 't', 1 << 20}, {true, 'f', 0}, {true, 'f', 2}}
	modes := []wOp{{mode: "t"}, {mode: "c", j: 0}, {mode: "l"}, {mode: "c", j: 1}}
	for _, cfg := range [][2]bool{{true, true}, {true, false}, {false, true}, {false, false}} {
		for _, m := range modes {
			for k1 := 0; k1 <= 9; k1++ {
				for _, kind1 := range []byte{'t', 'f'} {
					for _, nx := range nexts {
						if !cfg[0] && nx.on && nx.kind == 't' && k1%3 != 0 {
							continue // without deadline support there is no grace period: thin out
						}
						c := txwCase{dl: cfg[0], pwt: cfg[1], table: map[int]wOut{0: {kind1, k1}}, order: []int{0}}
						if nx.on {
							c.table[1] = wOut{nx.kind, nx.k}
							c.order = append(c.order, 1)
						}
						o := m
						o.l = 3
						c.ops = []wOp{o, {mode: "l", l: 8}, {mode: "l", l: 3}}
						add(c)
					}
				}
			}
		}
	}
	// fault in the segment buffer of the first frame (stream call 1) and of the second frame (call 3)
	for _, cfg := range [][2]bool{{true, true}, {true, false}, {false, true}} {
		for _, m := range []wOp{{mode: "t"}, {mode: "l"}, {mode: "c", j: 1}} {
			for _, at := range []int{1, 3} {
				for _, k1 := range []int{0, 1, 7, 8, 23, 24, 25} {
					for _, kind1 := range []byte{'t', 'f'} {
						for _, nx := range nexts[:5] {
							c := txwCase{dl: cfg[0], pwt: cfg[1], table: map[int]wOut{at: {kind1, k1}}, order: []int{at}}
							if nx.on {
								c.table[at+1] = wOut{nx.kind, nx.k}
								c.order = append(c.order, at+1)
							}
							o := m
							o.l = 3
							if at == 1 {
								c.ops = []wOp{o, {mode: "l", l: 8}}
							} else {
								if o.mode == "c" {
									o.j = 1
								}
								c.ops = []wOp{{mode: "l", l: 8}, o, {mode: "l", l: 8}}
							}
							add(c)
						}
					}
				}
			}
		}
	}
	n := 300
	if tier == "thorough" {
		n = 6000
	}
	sizes := []int{0, 3, 8, 40, 900, 1100, 2500}
	ks := []int{0, 1, 2, 3, 4, 5, 6, 7, 8, 9, 15, 16, 17, 100, 1023, 1 << 20}
	for i := 0; i < n; i++ {
		nops := 1 + r.Intn(4)
		c := txwCase{dl: r.Intn(4) != 0, pwt: r.Intn(4) != 0, table: map[int]wOut{}}
		for j := 0; j < nops; j++ {
			o := wOp{l: sizes[r.Intn(len(sizes))]}
			switch r.Pick(4, 1, 3, 3) {
			case 0:
				o.mode = "l"
			case 1:
				o.mode = "d"
			case 2:
				o.mode = "t"
			case 3:
				o.mode = "c"
				o.j = r.Intn(4)
			}
			c.ops = append(c.ops, o)
		}
		nf := 1 + r.Pick(3, 4, 3, 1)
		for j := 0; j < nf; j++ {
			w := r.Intn(2*nops + 2)
			if _, dup := c.table[w]; dup {
				continue
			}
			c.order = append(c.order, w)
			kind := byte('t')
			if r.Intn(3) == 0 {
				kind = 'f'
			}
			c.table[w] = wOut{kind, ks[r.Intn(len(ks))]}
		}
		add(c)
	}
	return lines
}
