// Package vt: value trees for the C17/C18 harnesses, a generator, value-level mutations and
// several encoders producing different LAYOUTS of one value: the library builder in
// different arenas, deep copy, re-marshal, and a hand-assembling word-level encoder that
// randomises placement (pre/post order, gaps, near/far/double-far, oversized sections).
package vt

import (
	"encoding/binary"

	capnp "capnproto.org/go/capnp/v3"
	. "verifh/hc"
	"verifh/rd"
)

type Kind int

const (
	KNull Kind = iota
	KCap
	KStruct
	KList
	KBits
)

type LK int

const (
	LVoid LK = iota
	LB1
	LB2
	LB4
	LB8
	LPtr
	LComp
)

func (k LK) Width() int { return []int{0, 1, 2, 4, 8, 0, 0}[k] }

// Val is a value tree. Struct data length is a multiple of 8. LComp elements are structs
// of one size; LPtr elements are arbitrary values; LB*/LVoid use Prims (LVoid: only len).
type Val struct {
	K     Kind
	Cap   uint32
	Data  []byte
	Ptrs  []*Val
	LK    LK
	Elems []*Val
	Prims []uint64
	Bits  []bool
}

func Null() *Val { return &Val{K: KNull} }

func (v *Val) Clone() *Val {
	if v == nil {
		return nil
	}
	c := *v
	c.Data = append([]byte(nil), v.Data...)
	c.Prims = append([]uint64(nil), v.Prims...)
	c.Bits = append([]bool(nil), v.Bits...)
	c.Ptrs = make([]*Val, len(v.Ptrs))
	for i, p := range v.Ptrs {
		c.Ptrs[i] = p.Clone()
	}
	c.Elems = make([]*Val, len(v.Elems))
	for i, p := range v.Elems {
		c.Elems[i] = p.Clone()
	}
	return &c
}

func (v *Val) HasCap() bool {
	if v.K == KCap {
		return true
	}
	for _, p := range v.Ptrs {
		if p.HasCap() {
			return true
		}
	}
	for _, p := range v.Elems {
		if p.HasCap() {
			return true
		}
	}
	return false
}

// ---------------------------------------------------------------- generator

type Gen struct {
	R      *Rand
	Budget int
	Caps   bool // may generate capabilities
}

func (g *Gen) data(words int) []byte {
	b := make([]byte, 8*words)
	for w := 0; w < words; w++ {
		switch g.R.Pick(3, 3, 1) {
		case 0: // zero word (exercises truncation)
		case 1:
			binary.LittleEndian.PutUint64(b[8*w:], g.R.U64())
		default:
			b[8*w+g.R.Intn(8)] = byte(1 + g.R.Intn(255))
		}
	}
	return b
}

func (g *Gen) Struct(depth int) *Val {
	v := &Val{K: KStruct, Data: g.data(g.R.Pick(3, 4, 3, 1))}
	np := g.R.Pick(3, 4, 3, 1)
	for i := 0; i < np; i++ {
		v.Ptrs = append(v.Ptrs, g.Ptr(depth-1))
	}
	return v
}

func (g *Gen) prim(w int) uint64 {
	x := g.R.U64()
	if g.R.Intn(3) == 0 {
		x = uint64(g.R.Intn(3))
	}
	if w < 8 {
		x &= 1<<(8*uint(w)) - 1
	}
	return x
}

func (g *Gen) Ptr(depth int) *Val {
	g.Budget--
	r := g.R
	if depth <= 0 || g.Budget <= 0 {
		switch r.Intn(3) {
		case 0:
			return Null()
		case 1:
			return &Val{K: KStruct}
		default:
			return &Val{K: KList, LK: LB1, Prims: []uint64{120, 0}}
		}
	}
	capW := 0
	if g.Caps {
		capW = 1
	}
	switch r.Pick(2, 5, 4, 2, 3, 4, 3, capW) {
	case 0:
		return Null()
	case 1:
		return g.Struct(depth)
	case 2: // primitive list
		lk := LK(1 + r.Intn(4))
		n := r.Intn(10)
		v := &Val{K: KList, LK: lk}
		for i := 0; i < n; i++ {
			v.Prims = append(v.Prims, g.prim(lk.Width()))
		}
		return v
	case 3:
		return &Val{K: KList, LK: LVoid, Prims: make([]uint64, r.Intn(6))}
	case 4:
		n := r.Intn(20)
		v := &Val{K: KBits}
		for i := 0; i < n; i++ {
			v.Bits = append(v.Bits, r.Bool())
		}
		return v
	case 5: // composite: with / without pointers, zero sized elements
		n := r.Intn(4)
		dw, pc := r.Pick(2, 4, 2), r.Pick(4, 3, 1)
		v := &Val{K: KList, LK: LComp}
		for i := 0; i < n; i++ {
			e := &Val{K: KStruct, Data: g.data(dw)}
			for j := 0; j < pc; j++ {
				e.Ptrs = append(e.Ptrs, g.Ptr(depth-1))
			}
			v.Elems = append(v.Elems, e)
		}
		return v
	case 6:
		n := r.Intn(4)
		v := &Val{K: KList, LK: LPtr}
		for i := 0; i < n; i++ {
			v.Elems = append(v.Elems, g.Ptr(depth-1))
		}
		return v
	default:
		return &Val{K: KCap, Cap: uint32(r.Intn(4))}
	}
}

// ---------------------------------------------------------------- value-level mutations

// nodes lists every node of the tree (pre-order).
func nodes(v *Val, acc *[]*Val) {
	*acc = append(*acc, v)
	for _, p := range v.Ptrs {
		nodes(p, acc)
	}
	for _, p := range v.Elems {
		nodes(p, acc)
	}
}

// elemsOf: the struct-list elements of the tree (their size is the list's, not their own).
func elemsOf(v *Val) map[*Val]bool {
	var all []*Val
	nodes(v, &all)
	m := map[*Val]bool{}
	for _, n := range all {
		if n.K == KList && n.LK == LComp {
			for _, e := range n.Elems {
				m[e] = true
			}
		}
	}
	return m
}

func pickNode(r *Rand, v *Val, ok func(*Val) bool) *Val {
	var all, sel []*Val
	nodes(v, &all)
	for _, n := range all {
		if ok(n) {
			sel = append(sel, n)
		}
	}
	if len(sel) == 0 {
		return nil
	}
	return sel[r.Intn(len(sel))]
}

func isPrimList(n *Val) bool { return n.K == KList && n.LK >= LB1 && n.LK <= LB8 }

// Upgrade turns a primitive / void / pointer list node into the equivalent struct list,
// with [extraD] extra zero data words and [extraP] extra null pointers per element.
func Upgrade(n *Val, extraD, extraP int) {
	var es []*Val
	switch {
	case n.K == KList && n.LK == LPtr:
		for _, e := range n.Elems {
			es = append(es, &Val{K: KStruct, Data: make([]byte, 8*extraD), Ptrs: append([]*Val{e}, nulls(extraP)...)})
		}
	case n.K == KList && n.LK == LVoid:
		for range n.Prims {
			es = append(es, &Val{K: KStruct, Data: make([]byte, 8*extraD), Ptrs: nulls(extraP)})
		}
	case isPrimList(n):
		for _, x := range n.Prims {
			d := make([]byte, 8*(1+extraD))
			binary.LittleEndian.PutUint64(d, x)
			es = append(es, &Val{K: KStruct, Data: d, Ptrs: nulls(extraP)})
		}
	default:
		return
	}
	n.LK, n.Elems, n.Prims = LComp, es, nil
}

func nulls(n int) []*Val {
	var r []*Val
	for i := 0; i < n; i++ {
		r = append(r, Null())
	}
	return r
}

// Mutate returns a modified copy and the name of the mutation; names starting with "eq"
// preserve the documented equality, the others break it (when applicable).
func Mutate(r *Rand, v0 *Val) (*Val, string) {
	v := v0.Clone()
	isElem := elemsOf(v)
	switch r.Pick(3, 4, 2, 2, 3, 2, 2, 2, 2, 2, 1, 2) {
	case 0:
		return v, "eq-same"
	case 1: // one data bit in a struct
		if n := pickNode(r, v, func(n *Val) bool { return n.K == KStruct && len(n.Data) > 0 }); n != nil {
			n.Data[r.Intn(len(n.Data))] ^= 1 << uint(r.Intn(8))
			return v, "ne-databit"
		}
	case 2: // one primitive element
		if n := pickNode(r, v, func(n *Val) bool { return isPrimList(n) && len(n.Prims) > 0 }); n != nil {
			n.Prims[r.Intn(len(n.Prims))] ^= 1 << uint(r.Intn(8*n.LK.Width()))
			return v, "ne-prim"
		}
	case 3: // one bit of a bit list
		if n := pickNode(r, v, func(n *Val) bool { return n.K == KBits && len(n.Bits) > 0 }); n != nil {
			i := r.Intn(len(n.Bits))
			if r.Bool() {
				i = len(n.Bits) - 1
			}
			n.Bits[i] = !n.Bits[i]
			return v, "ne-bit"
		}
	case 4: // bit list <-> void list of the same length
		if n := pickNode(r, v, func(n *Val) bool { return n.K == KBits || (n.K == KList && n.LK == LVoid) }); n != nil {
			if n.K == KBits {
				*n = Val{K: KList, LK: LVoid, Prims: make([]uint64, len(n.Bits))}
			} else {
				b := make([]bool, len(n.Prims))
				for i := range b {
					b[i] = r.Intn(3) == 0
				}
				*n = Val{K: KBits, Bits: b}
			}
			return v, "ne-bitvoid"
		}
	case 5: // list length
		if n := pickNode(r, v, func(n *Val) bool { return n.K == KList || n.K == KBits }); n != nil {
			switch {
			case n.K == KBits:
				n.Bits = append(n.Bits, false)
			case n.LK == LComp && len(n.Elems) > 0:
				n.Elems = append(n.Elems, n.Elems[0].Clone())
			case n.LK == LComp:
				n.Elems = append(n.Elems, &Val{K: KStruct})
			case n.LK == LPtr:
				n.Elems = append(n.Elems, Null())
			default:
				n.Prims = append(n.Prims, 0)
			}
			return v, "ne-len"
		}
	case 6: // primitive / pointer / void list seen as struct list
		if n := pickNode(r, v, func(n *Val) bool { return n.K == KList && n.LK != LComp }); n != nil {
			Upgrade(n, r.Intn(2), r.Intn(2))
			return v, "eq-upgrade"
		}
	case 7: // ... with a non-default extra field in the last element
		if n := pickNode(r, v, func(n *Val) bool {
			return n.K == KList && n.LK != LComp && (len(n.Prims) > 0 || len(n.Elems) > 0)
		}); n != nil {
			Upgrade(n, 1, 1)
			e := n.Elems[len(n.Elems)-1]
			if r.Bool() {
				e.Data[len(e.Data)-1-r.Intn(8)] = 1
			} else {
				e.Ptrs[len(e.Ptrs)-1] = &Val{K: KStruct}
			}
			return v, "ne-upgrade-extra"
		}
	case 8: // trailing default fields (schema evolution)
		if n := pickNode(r, v, func(n *Val) bool { return n.K == KStruct && !isElem[n] }); n != nil {
			n.Data = append(n.Data, make([]byte, 8*r.Intn(3))...)
			n.Ptrs = append(n.Ptrs, nulls(r.Intn(3))...)
			return v, "eq-extend0"
		}
	case 9: // trailing non-default field
		if n := pickNode(r, v, func(n *Val) bool { return n.K == KStruct && !isElem[n] }); n != nil {
			if r.Bool() {
				d := make([]byte, 8*(1+r.Intn(2)))
				d[len(d)-1-r.Intn(8)] = byte(1 + r.Intn(255))
				n.Data = append(n.Data, d...)
			} else {
				n.Ptrs = append(n.Ptrs, nulls(r.Intn(2))...)
				n.Ptrs = append(n.Ptrs, &Val{K: KStruct})
			}
			return v, "ne-extend1"
		}
	case 10: // capability index
		if n := pickNode(r, v, func(n *Val) bool { return n.K == KCap }); n != nil {
			n.Cap = (n.Cap + 1 + uint32(r.Intn(3))) % 5
			return v, "cap-index"
		}
	case 11: // a pointer replaced by null / by an empty struct
		if n := pickNode(r, v, func(n *Val) bool { return n.K == KStruct && len(n.Ptrs) > 0 }); n != nil {
			i := r.Intn(len(n.Ptrs))
			if n.Ptrs[i].K == KNull {
				n.Ptrs[i] = &Val{K: KStruct}
			} else {
				n.Ptrs[i] = Null()
			}
			return v, "ne-nullness"
		}
	}
	return v, "eq-same"
}

// ExtendDefaults appends trailing default fields (zero words / null pointers) to some structs
// and struct-list elements: a later schema version of the same value.
func ExtendDefaults(r *Rand, v *Val) {
	var all []*Val
	nodes(v, &all)
	isElem := elemsOf(v)
	for _, n := range all {
		switch {
		case n.K == KStruct && !isElem[n] && r.Intn(2) == 0:
			n.Data = append(n.Data, make([]byte, 8*r.Intn(3))...)
			n.Ptrs = append(n.Ptrs, nulls(r.Intn(3))...)
		case n.K == KList && n.LK == LComp && r.Intn(2) == 0:
			xd, xp := r.Intn(2), r.Intn(2)
			for _, e := range n.Elems {
				e.Data = append(e.Data, make([]byte, 8*xd)...)
				e.Ptrs = append(e.Ptrs, nulls(xp)...)
			}
		}
	}
}

// ListShape: one list of length ln of a random kind (targets of C17/C18).
func ListShape(r *Rand, g *Gen, ln int) *Val {
	switch r.Intn(8) {
	case 0:
		b := make([]bool, ln)
		for i := range b {
			b[i] = r.Intn(2) == 0
		}
		return &Val{K: KBits, Bits: b}
	case 1:
		return &Val{K: KList, LK: LVoid, Prims: make([]uint64, ln)}
	case 2:
		l := &Val{K: KList, LK: LK(1 + r.Intn(4))}
		for i := 0; i < ln; i++ {
			l.Prims = append(l.Prims, g.prim(l.LK.Width()))
		}
		return l
	case 3: // pointer list, nested lists
		l := &Val{K: KList, LK: LPtr}
		for i := 0; i < ln%4; i++ {
			if r.Bool() {
				l.Elems = append(l.Elems, ListShape(r, g, r.Intn(4)))
			} else {
				l.Elems = append(l.Elems, g.Ptr(1))
			}
		}
		return l
	case 4: // zero-sized struct elements
		l := &Val{K: KList, LK: LComp}
		for i := 0; i < ln; i++ {
			l.Elems = append(l.Elems, &Val{K: KStruct})
		}
		return l
	case 5: // data-only struct list, trailing zero words in every element
		l := &Val{K: KList, LK: LComp}
		dw := 1 + r.Intn(3)
		used := r.Intn(dw + 1)
		for i := 0; i < ln; i++ {
			d := make([]byte, 8*dw)
			for k := 0; k < 8*used; k++ {
				if r.Intn(3) == 0 {
					d[k] = byte(r.U64())
				}
			}
			l.Elems = append(l.Elems, &Val{K: KStruct, Data: d})
		}
		return l
	case 6: // struct list with pointers (nested lists / structs)
		l := &Val{K: KList, LK: LComp}
		dw, pc := r.Intn(3), 1+r.Intn(2)
		for i := 0; i < ln%5; i++ {
			e := &Val{K: KStruct, Data: g.data(dw)}
			for j := 0; j < pc; j++ {
				if r.Intn(3) == 0 {
					e.Ptrs = append(e.Ptrs, ListShape(r, g, r.Intn(4)))
				} else {
					e.Ptrs = append(e.Ptrs, g.Ptr(1))
				}
			}
			l.Elems = append(l.Elems, e)
		}
		return l
	default:
		return g.Ptr(2)
	}
}

// ---------------------------------------------------------------- encoder 1: the library builder

type Opts struct {
	R   *Rand
	Pad int // 1 in Pad chance of oversized struct sections (0 = never)
}

type lib struct {
	o   Opts
	msg *capnp.Message
	seg *capnp.Segment
}

func (b *lib) pickSeg() *capnp.Segment {
	n := b.msg.NumSegments()
	if n > 1 && b.o.R.Intn(3) == 0 {
		if s, err := b.msg.Segment(capnp.SegmentID(b.o.R.Intn(int(n)))); err == nil {
			return s
		}
	}
	return b.seg
}

func (b *lib) pad() int {
	if b.o.Pad > 0 && b.o.R.Intn(b.o.Pad) == 0 {
		return 1 + b.o.R.Intn(2)
	}
	return 0
}

func must(err error) {
	if err != nil {
		panic(err)
	}
}

func (b *lib) fill(st capnp.Struct, v *Val) {
	for i, x := range v.Data {
		if x != 0 {
			st.SetUint8(capnp.DataOffset(i), x)
		}
	}
	for i, p := range v.Ptrs {
		must(st.SetPtr(uint16(i), b.build(p)))
	}
}

func (b *lib) build(v *Val) capnp.Ptr {
	switch v.K {
	case KNull:
		return capnp.Ptr{}
	case KCap:
		return capnp.NewInterface(b.pickSeg(), capnp.CapabilityID(v.Cap)).ToPtr()
	case KStruct:
		sz := capnp.ObjectSize{DataSize: capnp.Size(len(v.Data) + 8*b.pad()), PointerCount: uint16(len(v.Ptrs) + b.pad())}
		st, err := capnp.NewStruct(b.pickSeg(), sz)
		must(err)
		b.fill(st, v)
		return st.ToPtr()
	case KBits:
		l, err := capnp.NewBitList(b.pickSeg(), int32(len(v.Bits)))
		must(err)
		for i, x := range v.Bits {
			l.Set(i, x)
		}
		return l.ToPtr()
	}
	n := int32(len(v.Prims))
	switch v.LK {
	case LVoid:
		return capnp.NewVoidList(b.pickSeg(), n).ToPtr()
	case LB1:
		l, err := capnp.NewUInt8List(b.pickSeg(), n)
		must(err)
		for i, x := range v.Prims {
			l.Set(i, uint8(x))
		}
		return l.ToPtr()
	case LB2:
		l, err := capnp.NewUInt16List(b.pickSeg(), n)
		must(err)
		for i, x := range v.Prims {
			l.Set(i, uint16(x))
		}
		return l.ToPtr()
	case LB4:
		l, err := capnp.NewUInt32List(b.pickSeg(), n)
		must(err)
		for i, x := range v.Prims {
			l.Set(i, uint32(x))
		}
		return l.ToPtr()
	case LB8:
		l, err := capnp.NewUInt64List(b.pickSeg(), n)
		must(err)
		for i, x := range v.Prims {
			l.Set(i, x)
		}
		return l.ToPtr()
	case LPtr:
		l, err := capnp.NewPointerList(b.pickSeg(), int32(len(v.Elems)))
		must(err)
		for i, e := range v.Elems {
			must(l.Set(i, b.build(e)))
		}
		return l.ToPtr()
	default:
		var dw, pc int
		if len(v.Elems) > 0 {
			dw, pc = len(v.Elems[0].Data)/8, len(v.Elems[0].Ptrs)
		}
		sz := capnp.ObjectSize{DataSize: capnp.Size(8 * (dw + b.pad())), PointerCount: uint16(pc + b.pad())}
		l, err := capnp.NewCompositeList(b.pickSeg(), sz, int32(len(v.Elems)))
		must(err)
		for i, e := range v.Elems {
			b.fill(l.Struct(i), e)
		}
		return l.ToPtr()
	}
}

func segsOf(msg *capnp.Message) [][]byte {
	var segs [][]byte
	n := msg.NumSegments()
	for i := int64(0); i < n; i++ {
		s, err := msg.Segment(capnp.SegmentID(i))
		must(err)
		segs = append(segs, append([]byte(nil), s.Data()...))
	}
	return segs
}

// newMsg: a message in a random arena: growing single segment, fresh multi-segment, or several
// small pre-sized segments (forces far and double-far pointers).
func newMsg(r *Rand) (*capnp.Message, *capnp.Segment) {
	switch r.Pick(2, 3, 1) {
	case 0:
		msg, seg, err := capnp.NewMessage(capnp.SingleSegment(nil))
		must(err)
		return msg, seg
	case 1:
		n := 1 + r.Intn(6)
		bufs := make([][]byte, n)
		for i := range bufs {
			bufs[i] = make([]byte, 0, 8*(1+r.Intn(12)))
		}
		// NewMessage refuses an arena with several segments: reserve the root word by hand
		msg := &capnp.Message{Arena: capnp.MultiSegment(bufs)}
		seg, err := msg.Segment(0)
		must(err)
		_, err = capnp.NewStruct(seg, capnp.ObjectSize{DataSize: 8})
		must(err)
		if len(seg.Data()) != 8 {
			panic("root word not first")
		}
		return msg, seg
	default:
		msg, seg, err := capnp.NewMessage(capnp.MultiSegment(nil))
		must(err)
		return msg, seg
	}
}

// EncodeLib builds root (a struct value) with the library in a random arena.
func EncodeLib(o Opts, root *Val) (segs [][]byte, ok bool) {
	defer func() {
		if e := recover(); e != nil {
			segs, ok = nil, false
		}
	}()
	msg, seg := newMsg(o.R)
	b := &lib{o: o, msg: msg, seg: seg}
	must(msg.SetRoot(b.build(root)))
	return segsOf(msg), true
}

// Recopy deep-copies the root of the given message into a fresh message in another arena.
func Recopy(r *Rand, segs [][]byte) (out [][]byte, ok bool) {
	defer func() {
		if e := recover(); e != nil {
			out, ok = nil, false
		}
	}()
	src := (&rd.Msg{Segs: segs, Arena: "M"}).Build()
	p, err := src.Root()
	must(err)
	msg, _ := newMsg(r)
	must(msg.SetRoot(p))
	return segsOf(msg), true
}

// Remarshal serialises and re-reads the message (stream framing round trip).
func Remarshal(segs [][]byte) (out [][]byte, ok bool) {
	defer func() {
		if e := recover(); e != nil {
			out, ok = nil, false
		}
	}()
	src := (&rd.Msg{Segs: segs, Arena: "M"}).Build()
	b, err := src.Marshal()
	must(err)
	m2, err := capnp.Unmarshal(b)
	must(err)
	return segsOf(m2), true
}

// ---------------------------------------------------------------- encoder 2: hand-assembled words

type raw struct {
	r       *Rand
	pad     int
	farNull bool
	segs    [][]uint64
}

// desc: where an encoded object lives and its pointer word with offset 0.
type desc struct {
	null, imm bool
	df        bool   // reach it through a double-far pointer (zero-sized objects at arbitrary addresses)
	word      uint64 // imm: the complete pointer word (null, cap, empty struct)
	seg, off  int
}

func (e *raw) alloc(n int) (int, int) {
	s := 0
	switch e.r.Pick(5, 2, 1) {
	case 1:
		s = e.r.Intn(len(e.segs))
	case 2:
		if len(e.segs) < 6 {
			e.segs = append(e.segs, nil)
			s = len(e.segs) - 1
		}
	}
	if e.r.Intn(5) == 0 { // gap of junk words nothing points to
		for k := 1 + e.r.Intn(2); k > 0; k-- {
			e.segs[s] = append(e.segs[s], e.r.U64())
		}
	}
	off := len(e.segs[s])
	e.segs[s] = append(e.segs[s], make([]uint64, n)...)
	return s, off
}

func (e *raw) extra() int {
	if e.pad > 0 && e.r.Intn(e.pad) == 0 {
		return 1 + e.r.Intn(2)
	}
	return 0
}

// ptrWord computes the word to store at (seg,pos) so that it refers to d.
func (e *raw) ptrWord(seg, pos int, d desc) uint64 {
	if d.null {
		if e.farNull && e.r.Intn(6) == 0 {
			// a null pointer reached through a far pointer: one-word landing pad holding 0
			ps := e.r.Intn(len(e.segs))
			pad := len(e.segs[ps])
			e.segs[ps] = append(e.segs[ps], 0)
			return rd.FarPtr(uint32(ps), uint32(pad), false)
		}
		return 0
	}
	if d.imm {
		return d.word
	}
	withOff := func(w uint64, off int) uint64 { return w | uint64(uint32(int32(off))<<2) }
	if !d.df && d.seg == seg && e.r.Intn(6) != 0 {
		return withOff(d.word, d.off-pos-1)
	}
	if !d.df && e.r.Intn(3) != 0 { // far pointer, one-word landing pad in the target's segment
		pad := len(e.segs[d.seg])
		e.segs[d.seg] = append(e.segs[d.seg], withOff(d.word, d.off-pad-1))
		return rd.FarPtr(uint32(d.seg), uint32(pad), false)
	}
	// double far: two-word pad anywhere
	ps := e.r.Intn(len(e.segs))
	pad := len(e.segs[ps])
	e.segs[ps] = append(e.segs[ps], rd.FarPtr(uint32(d.seg), uint32(d.off), false), d.word)
	return rd.FarPtr(uint32(ps), uint32(pad), true)
}

func words(b []byte) []uint64 {
	w := make([]uint64, (len(b)+7)/8)
	p := make([]byte, 8*len(w))
	copy(p, b)
	for i := range w {
		w[i] = binary.LittleEndian.Uint64(p[8*i:])
	}
	return w
}

// dirty sets padding to junk: the bytes of the last word beyond nbytes, and (bit lists) the
// bits of the last byte beyond rembits. Padding is not part of the value.
func (e *raw) dirty(ws []uint64, nbytes, rembits int) []uint64 {
	if len(ws) == 0 || e.r.Intn(4) != 0 {
		return ws
	}
	last := len(ws) - 1
	if k := nbytes % 8; k != 0 && e.r.Bool() {
		ws[last] |= e.r.U64() << (8 * uint(k))
	}
	if rembits != 0 {
		ws[last] |= uint64(e.r.Intn(256)) << uint(rembits) & 0xff << (8 * uint((nbytes-1)%8))
	}
	return ws
}

// body: an object made of plain words and pointer slots
type slot struct {
	at int // word index in the body
	v  *Val
}

func (e *raw) place(body []uint64, slots []slot, word uint64, bodyOff int) desc {
	post := e.r.Bool()
	var ds []desc
	if post { // children first: negative offsets
		for _, s := range slots {
			ds = append(ds, e.enc(s.v))
		}
	}
	seg, off := e.alloc(len(body))
	copy(e.segs[seg][off:], body)
	if !post {
		for _, s := range slots {
			ds = append(ds, e.enc(s.v))
		}
	}
	for i, s := range slots {
		e.segs[seg][off+s.at] = e.ptrWord(seg, off+s.at, ds[i])
	}
	// empty objects (lists of length 0, void lists): sometimes through a double-far pointer
	return desc{word: word, seg: seg, off: off + bodyOff, df: len(body) == 0 && e.r.Intn(3) == 0}
}

func (e *raw) structBody(v *Val, xd, xp int) ([]uint64, []slot) {
	body := append(words(v.Data), make([]uint64, xd)...)
	var slots []slot
	for _, p := range v.Ptrs {
		slots = append(slots, slot{len(body), p})
		body = append(body, 0)
	}
	body = append(body, make([]uint64, xp)...)
	return body, slots
}

func (e *raw) enc(v *Val) desc {
	switch v.K {
	case KNull:
		return desc{null: true}
	case KCap:
		return desc{imm: true, word: rd.CapPtr(v.Cap)}
	case KStruct:
		xd, xp := e.extra(), e.extra()
		dw, pc := len(v.Data)/8+xd, len(v.Ptrs)+xp
		if dw == 0 && pc == 0 {
			if e.r.Intn(3) == 0 {
				// a zero-sized struct somewhere (start, middle or end of a segment), reached through a
				// double-far pointer whose tag word is the all-zero struct pointer
				seg, off := e.alloc(0)
				if e.r.Bool() {
					off = e.r.Intn(len(e.segs[seg]) + 1)
				}
				return desc{df: true, word: rd.StructPtr(0, 0, 0), seg: seg, off: off}
			}
			return desc{imm: true, word: rd.StructPtr(-1, 0, 0)}
		}
		body, slots := e.structBody(v, xd, xp)
		return e.place(body, slots, rd.StructPtr(0, uint16(dw), uint16(pc)), 0)
	case KBits:
		n := len(v.Bits)
		b := make([]byte, (n+7)/8)
		for i, x := range v.Bits {
			if x {
				b[i/8] |= 1 << uint(i%8)
			}
		}
		return e.place(e.dirty(words(b), len(b), n%8), nil, rd.ListPtr(0, 1, uint32(n)), 0)
	}
	switch v.LK {
	case LVoid:
		return e.place(nil, nil, rd.ListPtr(0, 0, uint32(len(v.Prims))), 0)
	case LB1, LB2, LB4, LB8:
		w := v.LK.Width()
		b := make([]byte, w*len(v.Prims))
		for i, x := range v.Prims {
			for k := 0; k < w; k++ {
				b[i*w+k] = byte(x >> (8 * uint(k)))
			}
		}
		return e.place(e.dirty(words(b), len(b), 0), nil, rd.ListPtr(0, uint8(v.LK)+1, uint32(len(v.Prims))), 0)
	case LPtr:
		body := make([]uint64, len(v.Elems))
		var slots []slot
		for i, p := range v.Elems {
			slots = append(slots, slot{i, p})
		}
		return e.place(body, slots, rd.ListPtr(0, 6, uint32(len(v.Elems))), 0)
	default:
		var dw, pc int
		if len(v.Elems) > 0 {
			dw, pc = len(v.Elems[0].Data)/8, len(v.Elems[0].Ptrs)
		}
		xd, xp := e.extra(), e.extra()
		n := len(v.Elems)
		body := []uint64{rd.StructPtr(int32(n), uint16(dw+xd), uint16(pc+xp))}
		var slots []slot
		for _, el := range v.Elems {
			eb, es := e.structBody(el, xd, xp)
			for _, s := range es {
				slots = append(slots, slot{len(body) + s.at, s.v})
			}
			body = append(body, eb...)
		}
		return e.place(body, slots, rd.ListPtr(0, 7, uint32(n*(dw+xd+pc+xp))), 0)
	}
}

// EncodeRaw assembles the words of a message whose root pointer refers to root.
func EncodeRaw(r *Rand, pad int, root *Val) [][]byte {
	e := &raw{r: r, pad: pad, farNull: r.Intn(3) == 0, segs: [][]uint64{{0}}}
	for k := r.Pick(4, 2, 1); k > 0; k-- {
		e.segs = append(e.segs, nil)
	}
	d := e.enc(root)
	e.segs[0][0] = e.ptrWord(0, 0, d)
	out := make([][]byte, len(e.segs))
	for i, s := range e.segs {
		out[i] = rd.Words(s...)
	}
	return out
}

// Encode picks one of the layouts for a struct-rooted value.
func Encode(r *Rand, pad int, root *Val) (segs [][]byte, how string, ok bool) {
	k := r.Pick(3, 4, 2, 1)
	if k == 2 && root.HasCap() {
		k = 0 // a deep copy renumbers capabilities
	}
	switch k {
	case 0:
		segs, ok = EncodeLib(Opts{R: r, Pad: pad}, root)
		return segs, "lib", ok
	case 1:
		return EncodeRaw(r, pad, root), "raw", true
	case 2:
		var base [][]byte
		if r.Bool() {
			base, ok = EncodeLib(Opts{R: r, Pad: pad}, root)
		} else {
			base, ok = EncodeRaw(r, pad, root), true
		}
		if !ok {
			return nil, "copy", false
		}
		segs, ok = Recopy(r, base)
		return segs, "copy", ok
	default:
		base := EncodeRaw(r, pad, root)
		segs, ok = Remarshal(base)
		return segs, "remarshal", ok
	}
}
