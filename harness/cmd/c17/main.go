// Command c17: capnp.Equal against the extracted model equal_m and against the documented
// equality value_eq evaluated on the walked trees (property C17).
//
// case:  KIND SAME  ARENA T D SEGS CAPS SEL  ARENA T D SEGS CAPS SEL
//   SAME=1: both pointers are selected in message A (the second message is "_ 0 0 _ - SEL")
//   CAPS: capability table, "-" = empty; entries: 0 = nil *Client, k>0 = live client k,
//         n = promised client whose promise was fulfilled with nil (resolved to the null
//         capability), r<k> = promised client resolved to client k; SEL: r | f<i>
// obs:   RES RLA RLB SPEC TREEA TREEB
//   RES  = Equal under the case's limits (T|F|E|panic), RLA/RLB the remaining traversal budgets
//   SPEC = Equal under generous limits when both walked trees are complete (what value_eq of
//          the trees must predict), "-" otherwise;  TREEA/TREEB = the walked trees
package main

import (
	"context"
	"errors"
	"fmt"
	"regexp"
	"strconv"
	"strings"

	capnp "capnproto.org/go/capnp/v3"
	. "verifh/hc"
	"verifh/cmd/c17/vt"
	"verifh/rd"
)

func main() { Main(run) }

const (
	genT  = uint64(1) << 20
	dcap  = 65536
	pcap  = 4096
	wfuel = 40
)

var clients = map[int]*capnp.Client{}

func client(id int) *capnp.Client {
	if id == 0 {
		return nil
	}
	if c, ok := clients[id]; ok {
		return c
	}
	c := capnp.ErrorClient(errors.New("client " + strconv.Itoa(id)))
	clients[id] = c
	return c
}

// promHook: the hook of a promised client (never called).
type promHook struct{}

func (promHook) Send(_ context.Context, s capnp.Send) (*capnp.Answer, capnp.ReleaseFunc) {
	return capnp.ErrorAnswer(s.Method, errors.New("promHook")), func() {}
}
func (promHook) Recv(_ context.Context, r capnp.Recv) capnp.PipelineCaller {
	r.Reject(errors.New("promHook"))
	return nil
}
func (promHook) Brand() capnp.Brand { return capnp.Brand{} }
func (promHook) Shutdown()          {}

// tableEntry builds the *Client of one capability-table token.
func tableEntry(tok string) *capnp.Client {
	switch {
	case tok == "n":
		c, p := capnp.NewPromisedClient(promHook{})
		p.Fulfill(nil)
		return c
	case strings.HasPrefix(tok, "r"):
		k, _ := strconv.Atoi(tok[1:])
		c, p := capnp.NewPromisedClient(promHook{})
		p.Fulfill(client(k).AddRef())
		return c
	}
	k, _ := strconv.Atoi(tok)
	return client(k)
}

type side struct {
	m    *rd.Msg
	caps []string
	sel  string
}

func (s *side) String() string {
	c := "-"
	if len(s.caps) > 0 {
		c = strings.Join(s.caps, ",")
	}
	return s.m.Header() + " " + c + " " + s.sel
}

func parseSide(f []string) *side {
	s := &side{sel: f[5]}
	if f[0] == "_" {
		return s
	}
	s.m = rd.ParseHeader(f[:4])
	if f[4] != "-" && f[4] != "_" {
		s.caps = strings.Split(f[4], ",")
	}
	return s
}

func (s *side) build(T uint64, D uint) *capnp.Message {
	m := *s.m
	m.T, m.D = T, D
	msg := m.Build()
	for _, tok := range s.caps {
		msg.CapTable = append(msg.CapTable, tableEntry(tok))
	}
	return msg
}

// sel obtains the pointer: the root, or field i of the root struct.
func sel(msg *capnp.Message, s string) (capnp.Ptr, error) {
	p, err := msg.Root()
	if err != nil || s == "r" {
		return p, err
	}
	i, _ := strconv.Atoi(s[1:])
	return p.Struct().Ptr(uint16(i))
}

func equalObs(a, b *capnp.Message, sa, sb string) (res string) {
	defer func() {
		if e := recover(); e != nil {
			res = "panic"
		}
	}()
	p, err1 := sel(a, sa)
	q, err2 := sel(b, sb)
	if err1 != nil || err2 != nil {
		return "E"
	}
	eq, err := capnp.Equal(p, q)
	switch {
	case err != nil:
		return "E"
	case eq:
		return "T"
	}
	return "F"
}

var lenRe = regexp.MustCompile(`[LMB](\d+)[:\[]|V\d+:(\d+)\[`)

// complete: the walk hit no error / panic / fuel node and no list was cut off.
func complete(t string) bool {
	if strings.ContainsAny(t, "E!F") {
		return false
	}
	for _, m := range lenRe.FindAllStringSubmatch(t, -1) {
		s := m[1]
		if s == "" {
			s = m[2]
		}
		if n, err := strconv.ParseUint(s, 10, 64); err != nil || n > pcap {
			return false
		}
	}
	return true
}

func walkSel(msg *capnp.Message, s string) (res string) {
	defer func() {
		if e := recover(); e != nil {
			res = "!"
		}
	}()
	p, err := sel(msg, s)
	var sb strings.Builder
	rd.Walk(&sb, p, err, dcap, pcap, wfuel)
	return sb.String()
}

func observe(same bool, a, b *side) string {
	// 1. under the case's limits
	ma := a.build(a.m.T, a.m.D)
	mb := ma
	if !same {
		mb = b.build(b.m.T, b.m.D)
	}
	res := equalObs(ma, mb, a.sel, b.sel)
	rla := ma.VerifReadLimit()
	rlb := uint64(0)
	if !same {
		rlb = mb.VerifReadLimit()
	}
	// 2. generous limits, fresh messages: trees and the result the spec must predict
	ga := a.build(genT, 0)
	gb := ga
	if !same {
		gb = b.build(genT, 0)
	}
	spec := equalObs(ga, gb, a.sel, b.sel)
	wa := a.build(genT, 0)
	wb := a.build(genT, 0) // a fresh budget for the second walk also when both pointers are in one message
	if !same {
		wb = b.build(genT, 0)
	}
	ta := walkSel(wa, a.sel)
	tb := walkSel(wb, b.sel)
	if !(complete(ta) && complete(tb)) {
		spec = "-"
	}
	return fmt.Sprintf("%s %d %d %s %s %s", res, rla, rlb, spec, ta, tb)
}

// ---------------------------------------------------------------- boundary sizes
// bigMsg: root -> struct with dw data words (leading words = lead, rest zero) and pc pointers
// (pointer 0 = empty struct when firstPtr).  The list-based model is quadratic on such structs,
// so "big" cases only compare Equal with the answer the generator expects (kind big/T or big/F).
func bigMsg(dw, pc int, lead []uint64, firstPtr bool) []byte {
	body := make([]uint64, dw+pc)
	copy(body, lead)
	if firstPtr && pc > 0 {
		body[dw] = rd.StructPtr(-1, 0, 0)
	}
	return rd.Words(append([]uint64{rd.StructPtr(0, uint16(dw), uint16(pc))}, body...)...)
}

func observeBig(kind string, a, b *side) string {
	want := "F"
	if strings.HasPrefix(kind, "big/T") {
		want = "T"
	}
	got := equalObs(a.build(genT, 0), b.build(genT, 0), "r", "r")
	back := equalObs(b.build(genT, 0), a.build(genT, 0), "r", "r")
	if got == want && back == want {
		if strings.Contains(kind, "/d") {
			return "big " + got // data-big: the model side evaluates value_eq on the decoded values
		}
		return "big"
	}
	return "big-FAIL:" + got + back + "/want=" + want
}

func runLine(line string) string {
	f := strings.Fields(line)
	if len(f) == 14 && strings.HasPrefix(f[0], "big") {
		return observeBig(f[0], parseSide(f[2:8]), parseSide(f[8:14]))
	}
	if len(f) != 14 {
		return "bad-case"
	}
	a, b := parseSide(f[2:8]), parseSide(f[8:14])
	return observe(f[1] == "1", a, b)
}

var limitsT = []uint64{0, 0, 0, 0, 0, 8, 16, 64, 200, 1024, 1 << 20}
var limitsD = []uint{0, 0, 0, 0, 0, 1, 2, 3, 4, 5, 6, 8, 64, 70}

func randCaps(r *Rand) []string {
	n := r.Pick(2, 1, 2, 3, 2)
	c := make([]string, n)
	for i := range c {
		switch r.Pick(6, 1, 1) {
		case 0:
			c[i] = strconv.Itoa(r.Intn(4))
		case 1:
			c[i] = "n"
		default:
			c[i] = "r" + strconv.Itoa(1+r.Intn(3))
		}
	}
	return c
}

// copyTokens: the capability table of a deep copy, as tokens: every copied entry is AddRef() of
// the source's, i.e. nil for a nil entry or a client resolved to null, else the resolved client.
func copyTokens(tab []*capnp.Client) []string {
	out := make([]string, len(tab))
	for i, c := range tab {
		out[i] = "0"
		if c == nil {
			continue
		}
		for k := 1; k < 8; k++ {
			if c.IsSame(client(k)) {
				out[i] = strconv.Itoa(k)
			}
		}
		if out[i] == "0" && !c.IsSame(nil) {
			panic("copied capability is neither null nor a known client")
		}
	}
	return out
}

// deepCopy copies the root of (segs, caps) into a fresh message and returns its segments and table.
func deepCopy(r *Rand, a *side) (segs [][]byte, caps []string, ok bool) {
	defer func() {
		if e := recover(); e != nil {
			segs, caps, ok = nil, nil, false
		}
	}()
	src := a.build(genT, 0)
	p, err := src.Root()
	if err != nil {
		return nil, nil, false
	}
	msg, _, err := capnp.NewMessage(capnp.MultiSegment(nil))
	if err != nil {
		return nil, nil, false
	}
	if r.Bool() {
		msg, _, _ = capnp.NewMessage(capnp.SingleSegment(nil))
	}
	if err := msg.SetRoot(p); err != nil {
		return nil, nil, false
	}
	n := msg.NumSegments()
	for i := int64(0); i < n; i++ {
		sg, err := msg.Segment(capnp.SegmentID(i))
		if err != nil {
			return nil, nil, false
		}
		segs = append(segs, append([]byte(nil), sg.Data()...))
	}
	return segs, copyTokens(msg.CapTable), true
}

func run(out *Out, r *Rand, tier string, replay []string) {
	if replay != nil {
		for _, l := range replay {
			obs := runLine(l)
			out.Case(strings.Fields(l)[0], l, obs, Cls(obs), true)
		}
		out.Close("replay")
		return
	}
	n := 3500
	if tier == "thorough" {
		n = 40000
	}
	emit := func(kind string, same bool, a, b *side) {
		s, bs := "1", "_ 0 0 _ - "+b.sel
		if !same {
			s, bs = "0", b.String()
		}
		line := kind + " " + s + " " + a.String() + " " + bs
		if len(line) > 100000 {
			return
		}
		obs := observe(same, a, b)
		f := strings.Fields(obs)
		out.Case(strings.SplitN(kind, "/", 2)[0], line, obs, f[0]+"/spec="+f[3], f[3] != "-")
	}
	limits := func(m *rd.Msg, tight bool) {
		if tight {
			m.T, m.D = limitsT[r.Intn(len(limitsT))], limitsD[r.Intn(len(limitsD))]
		}
	}
	// boundary sizes: structs of 32767 / 32768 / 65535 data words and 32768 / 65535 pointers
	for _, dw := range []int{32767, 32768, 65535} {
		x := r.U64() | 1
		for _, eq := range []bool{true, false} {
			y, kind := x, "big/T"
			if !eq {
				y, kind = x^2, "big/F"
			}
			a := &side{m: &rd.Msg{Segs: [][]byte{bigMsg(dw, 2, []uint64{x}, true)}, Arena: "M"}, sel: "r"}
			b := &side{m: &rd.Msg{Segs: [][]byte{bigMsg([]int{1, 40000, 65535}[r.Intn(3)], 1, []uint64{y}, true)}, Arena: "M"}, sel: "r"}
			kind = fmt.Sprintf("%s/d%d", kind, dw)
			line := fmt.Sprintf("%s 0 %s %s", kind, a.String(), b.String())
			out.Case("big", line, observeBig(kind, a, b), "big", true)
		}
	}
	for _, pc := range []int{32768, 65535} {
		for _, eq := range []bool{true, false} {
			kind := "big/T"
			if !eq {
				kind = "big/F"
			}
			a := &side{m: &rd.Msg{Segs: [][]byte{bigMsg(1, pc, []uint64{7}, true)}, Arena: "M"}, sel: "r"}
			b := &side{m: &rd.Msg{Segs: [][]byte{bigMsg(1, 1, []uint64{7}, eq)}, Arena: "M"}, sel: "r"}
			line := fmt.Sprintf("%s/p%d 0 %s %s", kind, pc, a.String(), b.String())
			out.Case("big", line, observeBig(kind, a, b), "big", true)
		}
	}
	for i := 0; i < n; i++ {
		g := &vt.Gen{R: r, Budget: 6 + r.Intn(30), Caps: r.Intn(4) == 0}
		pad := []int{0, 3, 6}[r.Intn(3)]
		switch r.Pick(12, 5, 3, 3, 2) {
		case 4: // a value with capabilities (live, nil, promised and resolved) and its deep copy
			g.Caps = true
			v := g.Struct(1 + r.Intn(3))
			if !v.HasCap() {
				v.Ptrs = append(v.Ptrs, &vt.Val{K: vt.KCap, Cap: uint32(r.Intn(3))})
			}
			sa, ha, ok := vt.Encode(r, pad, v)
			if !ok {
				continue
			}
			a := &side{m: &rd.Msg{Segs: sa, Arena: "M"}, sel: "r", caps: randCaps(r)}
			for len(a.caps) < 3 {
				a.caps = append(a.caps, []string{"n", "r2", "1", "0"}[r.Intn(4)])
			}
			sb, cb, ok := deepCopy(r, a)
			if !ok {
				continue
			}
			b := &side{m: &rd.Msg{Segs: sb, Arena: "M"}, sel: "r", caps: cb}
			emit("capcopy/eq-same/"+ha+"-copy", false, a, b)
		case 0: // a value and a mutation of it, each in a random layout, two messages
			v := g.Struct(1 + r.Intn(4))
			v2, mut := vt.Mutate(r, v)
			sa, ha, ok1 := vt.Encode(r, pad, v)
			sb, hb, ok2 := vt.Encode(r, pad, v2)
			if !ok1 || !ok2 {
				continue
			}
			a := &side{m: &rd.Msg{Segs: sa, Arena: "M"}, sel: "r"}
			b := &side{m: &rd.Msg{Segs: sb, Arena: "M"}, sel: "r"}
			if g.Caps {
				a.caps = randCaps(r)
				b.caps = a.caps
				if r.Intn(3) == 0 {
					b.caps = randCaps(r)
				}
			}
			// compare a field instead of the roots (lists at top level)
			if len(v.Ptrs) > 0 && len(v2.Ptrs) >= len(v.Ptrs) && r.Intn(3) == 0 {
				k := r.Intn(len(v.Ptrs))
				a.sel, b.sel = fmt.Sprintf("f%d", k), fmt.Sprintf("f%d", k)
			}
			tight := r.Intn(5) == 0
			limits(a.m, tight)
			limits(b.m, tight)
			emit("pair/"+mut+"/"+ha+"-"+hb, false, a, b)
		case 1: // both values in ONE message: fields 0 and 1 of the root
			v := g.Ptr(1 + r.Intn(3))
			v2, mut := vt.Mutate(r, v)
			root := &vt.Val{K: vt.KStruct, Data: make([]byte, 8*r.Intn(2)), Ptrs: []*vt.Val{v, v2}}
			segs, how, ok := vt.Encode(r, pad, root)
			if !ok {
				continue
			}
			a := &side{m: &rd.Msg{Segs: segs, Arena: "M"}, sel: "f0"}
			if g.Caps {
				a.caps = randCaps(r)
			}
			limits(a.m, r.Intn(5) == 0)
			emit("same/"+mut+"/"+how, true, a, &side{sel: "f1"})
		case 2: // targeted list-kind pairs
			ln := r.Intn(12)
			mk := func() *vt.Val {
				switch r.Intn(6) {
				case 0:
					b := make([]bool, ln)
					for i := range b {
						b[i] = r.Intn(2) == 0
					}
					return &vt.Val{K: vt.KBits, Bits: b}
				case 1:
					return &vt.Val{K: vt.KList, LK: vt.LVoid, Prims: make([]uint64, ln)}
				case 2:
					l := &vt.Val{K: vt.KList, LK: vt.LK(1 + r.Intn(4))}
					for i := 0; i < ln; i++ {
						l.Prims = append(l.Prims, uint64(r.Intn(3)))
					}
					if r.Bool() {
						vt.Upgrade(l, r.Intn(2), r.Intn(2))
					}
					return l
				case 3:
					l := &vt.Val{K: vt.KList, LK: vt.LPtr}
					for i := 0; i < ln%4; i++ {
						l.Elems = append(l.Elems, g.Ptr(1))
					}
					if r.Bool() {
						vt.Upgrade(l, r.Intn(2), r.Intn(2))
					}
					return l
				case 4: // zero-sized struct elements
					l := &vt.Val{K: vt.KList, LK: vt.LComp}
					for i := 0; i < ln; i++ {
						l.Elems = append(l.Elems, &vt.Val{K: vt.KStruct})
					}
					return l
				default:
					l := &vt.Val{K: vt.KList, LK: vt.LComp}
					for i := 0; i < ln; i++ {
						d := make([]byte, 8)
						d[0] = byte(r.Intn(2))
						l.Elems = append(l.Elems, &vt.Val{K: vt.KStruct, Data: d})
					}
					return l
				}
			}
			x, y := mk(), mk()
			if r.Intn(3) == 0 {
				y = x.Clone()
				if y.K == vt.KBits && len(y.Bits) > 0 && r.Bool() {
					y.Bits[len(y.Bits)-1] = !y.Bits[len(y.Bits)-1]
				}
			}
			sa, ha, ok1 := vt.Encode(r, pad, &vt.Val{K: vt.KStruct, Ptrs: []*vt.Val{x}})
			sb, hb, ok2 := vt.Encode(r, pad, &vt.Val{K: vt.KStruct, Ptrs: []*vt.Val{y}})
			if !ok1 || !ok2 {
				continue
			}
			a := &side{m: &rd.Msg{Segs: sa, Arena: "M"}, sel: "f0"}
			b := &side{m: &rd.Msg{Segs: sb, Arena: "M"}, sel: "f0"}
			emit("lists/"+ha+"-"+hb, false, a, b)
		default: // malformed: mutated segments, raw pointer soup, cyclic templates, tight limits
			var sa, sb [][]byte
			switch r.Intn(3) {
			case 0:
				v := g.Struct(1 + r.Intn(3))
				s1, _, ok1 := vt.Encode(r, pad, v)
				s2, _, ok2 := vt.Encode(r, pad, v)
				if !ok1 || !ok2 {
					continue
				}
				sa, sb = rd.Mutate(r, s1), s2
				if r.Bool() {
					sb = rd.Mutate(r, s2)
				}
			case 1:
				sa, sb = rd.GenRaw(r), rd.GenRaw(r)
			default:
				sa = rd.GenCyclic(r)
				sb = sa
				if r.Bool() {
					sb = rd.GenCyclic(r)
				}
			}
			a := &side{m: &rd.Msg{Segs: sa, Arena: "M"}, sel: "r", caps: randCaps(r)}
			b := &side{m: &rd.Msg{Segs: sb, Arena: "M"}, sel: "r", caps: randCaps(r)}
			limits(a.m, r.Intn(2) == 0)
			limits(b.m, r.Intn(2) == 0)
			if r.Intn(4) == 0 {
				emit("malformed", true, a, &side{sel: "r"})
			} else {
				emit("malformed", false, a, b)
			}
		}
	}
	out.Close("pairs of value trees (a generated value and a value-level mutation: equal / one data bit / one list element / one bit / bit<->void / length / list upgrade with and without extra fields / trailing default or non-default fields / capability index / nullness), each side in a random layout (library builder in random arenas, hand-assembled words with pre/post order, gaps, far and double-far pointers and oversized sections, deep copy into another arena, re-marshal), compared across two messages or inside one message; targeted list-kind pairs (bit/void/primitive/pointer/struct lists of one length); malformed segments and tight limits. non-trivial = both walked trees are complete, so value_eq of the trees predicts the result")
}
