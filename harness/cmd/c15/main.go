// C15 dynamic correspondence: the accessors EMITTED by the current capnpc-go (compiled into
// build/c15/rundrv by genir, see props/C15.py generate) are run on crafted struct bytes / pointer
// slots / values; the extracted specification (field_range semantics) is run on the same cases.
//
// case line:  op entry Type Method kind off def disc doff datahex ptrs arg
package main

import (
	"bufio"
	"bytes"
	"encoding/json"
	"fmt"
	"os"
	"os/exec"
	"path/filepath"
	"strings"

	. "verifh/hc"
)

type fieldRec struct {
	Req    string `json:"req"`
	Type   string `json:"type"`
	Name   string `json:"name"`
	Kind   string `json:"kind"`
	Off    uint32 `json:"off"`
	DefDyn string `json:"defdyn"`
	Disc   uint16 `json:"disc"`
	DOff   uint32 `json:"doff"`
	DWC    uint16 `json:"dwc"`
	PC     uint16 `json:"pc"`
	EltDWC  uint16 `json:"eltdwc"`
	EltPC   uint16 `json:"eltpc"`
	EltList bool   `json:"eltlist"`
}

type nodeRec struct {
	Req       string   `json:"req"`
	Type      string   `json:"type"`
	DWC       uint16   `json:"dwc"`
	PC        uint16   `json:"pc"`
	IsGroup   bool     `json:"isgroup"`
	DiscCount uint16   `json:"disccount"`
	DiscOff   uint32   `json:"discoff"`
	Members   []uint16 `json:"members"`
	BaseDWC   uint16   `json:"basedwc"`
	BasePC    uint16   `json:"basepc"`
}

func main() { Main(runC15) }

var kindBits = map[string]int{"bool": 1, "i8": 8, "u8": 8, "i16": 16, "u16": 16, "enum": 16, "i32": 32, "u32": 32, "f32": 32,
	"i64": 64, "u64": 64, "f64": 64}

func isPtr(k string) bool {
	switch k {
	case "text", "data", "list", "struct", "iface", "any":
		return true
	}
	return false
}

// a value of the kind's range, as decimal
func genValue(r *Rand, kind string) string {
	b, ok := kindBits[kind]
	switch {
	case kind == "bool":
		return fmt.Sprint(r.Intn(2))
	case ok:
		var mask uint64 = ^uint64(0)
		if b < 64 {
			mask = 1<<uint(b) - 1
		}
		var x uint64
		switch r.Intn(7) {
		case 0:
			x = 0
		case 1:
			x = mask
		case 2:
			x = 1 << uint(b-1)
		case 3:
			x = 1<<uint(b-1) - 1
		case 4:
			x = 1
		default:
			x = r.U64() & mask
		}
		if kind[0] == 'i' {
			// signed
			if b < 64 {
				s := int64(x)
				if x >= 1<<uint(b-1) {
					s = int64(x) - int64(1)<<uint(b)
				}
				return fmt.Sprint(s)
			}
			return fmt.Sprint(int64(x))
		}
		if kind == "f32" || kind == "f64" {
			// keep clear of signalling NaNs (a conversion may quieten them): exponent all ones -> quiet bit set
			if kind == "f32" && x&0x7f800000 == 0x7f800000 {
				x |= 0x00400000
			}
			if kind == "f64" && x&0x7ff0000000000000 == 0x7ff0000000000000 {
				x |= 0x0008000000000000
			}
		}
		return fmt.Sprint(x)
	case kind == "text" || kind == "data":
		if r.Intn(4) == 0 {
			return "0"
		}
		return fmt.Sprint(1 + r.Intn(500))
	case kind == "list":
		return fmt.Sprint(r.Intn(6))
	case kind == "struct" || kind == "any":
		if r.Intn(4) == 0 {
			return "0"
		}
		return fmt.Sprint(1 + r.Intn(5000))
	case kind == "iface":
		return fmt.Sprint(r.Intn(2))
	}
	return "0"
}

func genToken(r *Rand, kind string) int {
	switch kind {
	case "text", "data":
		return 1 + r.Intn(300)
	case "list":
		return 1 + r.Intn(6)
	case "iface":
		return 1
	}
	return 1 + r.Intn(5000)
}

// struct contents: data bytes (random / zero / ones) with the discriminant optionally forced
// fullBig: which cases on the 65535-word boundary schemas use a full-size (512 KiB) runtime struct;
// the others use a struct of at most 8200 words (the field is then outside: default / panic).
// Each full-size case costs the extracted model about a second.
var fullBig = false

func genStruct(r *Rand, f fieldRec, active int) (string, string) {
	// data size in words: usually the schema's, sometimes shorter (older writer) or longer
	dw := int(f.DWC)
	if dw > 20000 && !fullBig {
		dw = r.Intn(8201)
	}
	switch r.Intn(8) {
	case 0:
		dw = r.Intn(dw + 1)
	case 1:
		dw += 1 + r.Intn(2)
	case 2:
		if dw > 0 {
			dw--
		}
	}
	if dw > 65535 {
		dw = 65535
	}
	data := make([]byte, dw*8)
	switch r.Intn(5) {
	case 0: // zeros
	case 1:
		for i := range data {
			data[i] = 0xff
		}
	default:
		for i := range data {
			data[i] = byte(r.U64())
		}
	}
	if f.Disc != 65535 && int(f.DOff)*2+2 <= len(data) {
		switch active {
		case 1:
			data[f.DOff*2] = byte(f.Disc)
			data[f.DOff*2+1] = byte(f.Disc >> 8)
		case 0: // some other member
			d := uint16(r.Intn(6))
			if d == f.Disc {
				d++
			}
			data[f.DOff*2] = byte(d)
			data[f.DOff*2+1] = byte(d >> 8)
		}
	}
	pc := int(f.PC)
	switch r.Intn(8) {
	case 0:
		pc = r.Intn(pc + 1)
	case 1:
		if pc < 65535 {
			pc++
		}
	}
	toks := make([]string, pc)
	for i := range toks {
		t := 0
		if r.Intn(3) != 0 {
			if isPtr(f.Kind) && i == int(f.Off) {
				t = genToken(r, f.Kind)
			} else {
				t = 1 + r.Intn(5000)
			}
		}
		toks[i] = fmt.Sprint(t)
	}
	ps := "-"
	if pc > 0 {
		ps = strings.Join(toks, ",")
	}
	return Hx(data), ps
}

func caseLine(op string, f fieldRec, data, ptrs, arg string) string {
	return fmt.Sprintf("%s %s %s %s %s %d %s %d %d %s %s %s", op, f.Req, f.Type, f.Name, f.Kind, f.Off, f.DefDyn, f.Disc, f.DOff, data, ptrs, arg)
}

func runC15(out *Out, r *Rand, tier string, replay []string) {
	work := os.Getenv("C15_WORK")
	if work == "" {
		work = "build/c15"
	}
	var lines []string
	if replay != nil {
		lines = replay
	} else {
		b, err := os.ReadFile(filepath.Join(work, "fields.json"))
		if err != nil {
			panic(err)
		}
		var tab struct {
			Fields []fieldRec `json:"fields"`
			Nodes  []nodeRec  `json:"nodes"`
		}
		if err := json.Unmarshal(b, &tab); err != nil {
			panic(err)
		}
		per := 6
		if tier == "thorough" {
			per = 40
		}
		for _, f := range tab.Fields {
			hasGet := f.Kind != "void"
			hasSet := f.Kind != "void" && f.Kind != "group" || f.Disc != 65535
			n := per
			if f.DWC > 1024 || f.PC > 1024 { // boundary structs: 64 KiB .. 512 KiB of data per case line
				n = 1
				if tier == "thorough" {
					n = 3
				}
			}
			for k := 0; k < n; k++ {
				active := 1
				if f.Disc != 65535 && r.Intn(4) == 0 {
					active = 0
				}
				if r.Intn(6) == 0 {
					active = 2 // leave the random discriminant
				}
				data, ptrs := genStruct(r, f, active)
				if hasGet {
					if f.DWC > 20000 && (f.Req == "bnd_65535_1" && f.Kind == "u64" || tier == "thorough") {
						fullBig = true
						data, ptrs = genStruct(r, f, active)
						fullBig = false
					}
					lines = append(lines, caseLine("get", f, data, ptrs, "-"))
				}
				if hasSet {
					fullBig = f.Req == "bnd_65535_1" || tier == "thorough"
					data, ptrs = genStruct(r, f, r.Intn(3))
					fullBig = false
					lines = append(lines, caseLine("set", f, data, ptrs, genValue(r, f.Kind)))
				}
				if isPtr(f.Kind) {
					data, ptrs = genStruct(r, f, active)
					lines = append(lines, caseLine("has", f, data, ptrs, "-"))
				}
				if (f.Kind == "struct" || f.Kind == "any" || f.Kind == "iface") && f.DWC <= 1024 && f.PC <= 1024 {
					// pipelined accessor: slot null (default applies) and non-null, any discriminant
					data, ptrs = genStruct(r, f, 2)
					lines = append(lines, caseLine("future", f, data, ptrs, "-"))
				}
				if f.Kind == "text" {
					data, ptrs = genStruct(r, f, active)
					lines = append(lines, caseLine("getbytes", f, data, ptrs, "-"))
				}
				if f.Kind == "struct" || f.Kind == "list" {
					data, ptrs = genStruct(r, f, r.Intn(3))
					arg := "1"
					if f.Kind == "list" {
						arg = fmt.Sprint(1 + r.Intn(5))
					}
					lines = append(lines, caseLine("new", f, data, ptrs, arg))
				}
			}
			// List(struct) fields: NewX allocates elements of the size of the schema's element type
			if f.EltList && f.DWC <= 1024 && f.PC <= 1024 {
				zp := strings.TrimSuffix(strings.Repeat("0,", int(f.PC)), ",")
				if f.PC == 0 {
					zp = "-"
				}
				lines = append(lines, fmt.Sprintf("lsize %s %s %s list %d %d %d %d %s %s 1", f.Req, f.Type, f.Name,
					f.EltDWC, f.EltPC, f.Disc, f.DOff, Hx(make([]byte, int(f.DWC)*8)), zp))
			}
			// the getter on an all-zero struct of the schema's size returns the default
			if hasGet && (f.Disc == 65535 || f.Disc == 0) && (f.DWC <= 20000 || tier == "thorough") {
				zp := "-"
				if f.PC > 0 {
					zp = strings.TrimSuffix(strings.Repeat("0,", int(f.PC)), ",")
				}
				lines = append(lines, caseLine("get", f, Hx(make([]byte, int(f.DWC)*8)), zp, "-"))
			}
		}
		for _, n := range tab.Nodes {
			if !n.IsGroup {
				lines = append(lines, fmt.Sprintf("size %s %s - void %d %d 65535 0 - - -", n.Req, n.Type, n.DWC, n.PC))
			}
			if n.DiscCount > 0 {
				nw := per
				if n.BaseDWC > 1024 || n.BasePC > 1024 {
					nw = 1
				}
				for k := 0; k < nw; k++ {
					f := fieldRec{Req: n.Req, Type: n.Type, Name: "-", Kind: "void", DefDyn: "0", Disc: 65535, DOff: n.DiscOff, DWC: n.BaseDWC, PC: n.BasePC}
					data, ptrs := genStruct(r, f, 2)
					lines = append(lines, caseLine("which", f, data, ptrs, "-"))
				}
			}
		}
	}
	// run the emitted code
	cmd := exec.Command(filepath.Join(work, "rundrv"))
	cmd.Stdin = strings.NewReader(strings.Join(lines, "\n") + "\n")
	var ob, eb bytes.Buffer
	cmd.Stdout = &ob
	cmd.Stderr = &eb
	if err := cmd.Run(); err != nil {
		fmt.Fprintln(os.Stderr, "rundrv failed:", err, eb.String())
		os.Exit(1)
	}
	sc := bufio.NewScanner(&ob)
	sc.Buffer(make([]byte, 1<<20), 1<<26)
	var obs []string
	for sc.Scan() {
		obs = append(obs, sc.Text())
	}
	if len(obs) != len(lines) {
		fmt.Fprintf(os.Stderr, "rundrv answered %d lines for %d cases\n", len(obs), len(lines))
		os.Exit(1)
	}
	for i, l := range lines {
		f := strings.Fields(l)
		kind := "?"
		if len(f) == 12 {
			kind = f[0] + "/" + f[4]
			if f[7] != "65535" {
				kind += "/union"
			}
		}
		cls := Cls(obs[i])
		out.Case(kind, l, obs[i], cls, cls == "ok" || cls == "panic")
	}
	out.Close("non-trivial = the emitted accessor ran to a value or to a panic on this struct")
}
