package main

// Correspondence harness for the run "pogsread" of C01: msg.Root() + pogs.Extract on hostile
// messages, the implementation against the model coq/Pogs/PogsRead.v (extract_msg).
//   def <name> <mapped schema>                 impl: "def" (the model driver stores the schema)
//   hostile <name> <arena> <T> <D> <segs>      impl: "hostile <ok|err|rooterr|PANIC|HANG> <remaining traversal budget>"
// The schemas, their def lines and the hostile message generator are those of ../c19 (the files
// abstract.go gen.go gengen.go hostile.go mapping.go types.go values.go are symlinks to ../c19);
// this file supplies the few identifiers those files take from c19/main.go.

import (
	"fmt"
	"strconv"
	"strings"
	"time"

	capnp "capnproto.org/go/capnp/v3"
	. "verifh/hc"
)

type bug string

func main() { Main(run) }

var schemaByName = map[string]*mschema{}

func nodeOf(ms *mschema, id int) *mnode {
	if id < 1 || id > len(ms.nodes) || ms.nodes[id-1].isGroup {
		panic("bad case: node id")
	}
	return ms.nodes[id-1]
}

func newSeg() *capnp.Segment {
	_, seg, err := capnp.NewMessage(capnp.MultiSegment(nil))
	must(err)
	return seg
}

// runHostileRL: Root + Extract under a watchdog; result class and remaining traversal budget.
func runHostileRL(line string) (impl, class string) {
	f := strings.Fields(line)
	ms, m := parseHostile(f)
	msg := m.Build()
	type out struct {
		res string
		rl  uint64
	}
	done := make(chan out, 1)
	go func() {
		res, _ := extractAlloc(ms, msg)
		done <- out{res, msg.VerifReadLimit()}
	}()
	select {
	case o := <-done:
		return fmt.Sprintf("hostile %s %d", o.res, o.rl), ms.name + "/" + o.res
	case <-time.After(30 * time.Second):
		return "hostile HANG", ms.name + "/HANG"
	}
}

// retuneT rewrites the T field of a generated hostile line so that the extracted OCaml model
// stays fast: T == 0 (default 64 MiB) or T > 2^20 is kept with probability 1/8 only, else
// replaced by one of {64, 1024, 65536, 2^20}.
func retuneT(r *Rand, line string) string {
	f := strings.Fields(line)
	if len(f) < 6 {
		return line
	}
	t, err := strconv.ParseUint(f[3], 10, 64)
	if err != nil {
		return line
	}
	if t == 0 || t > 1<<20 {
		if r.Intn(8) != 0 {
			f[3] = fmt.Sprint([]uint64{64, 1024, 65536, 1 << 20}[r.Intn(4)])
		}
	}
	return strings.Join(f, " ")
}

func run(out *Out, r *Rand, tier string, replay []string) {
	schemas := allSchemas()
	for _, ms := range schemas {
		schemaByName[ms.name] = ms
	}
	do := func(line string) {
		defer func() {
			if e := recover(); e != nil {
				if s, ok := e.(string); ok && strings.HasPrefix(s, "bad case") {
					out.Case("bad", line, "bad-case", "bad", false)
					return
				}
				panic(fmt.Sprintf("%v\ncase: %s", e, Trunc(line, 3000)))
			}
		}()
		if strings.HasPrefix(line, "def ") {
			out.Case("def", line, "def", "def", false)
			return
		}
		if !strings.HasPrefix(line, "hostile ") {
			panic("bad case: kind")
		}
		impl, class := runHostileRL(line)
		out.Case("hostile", line, impl, class, true)
	}
	for _, ms := range schemas {
		do(ms.defLine())
	}
	if replay != nil {
		for _, l := range replay {
			if !strings.HasPrefix(l, "def ") {
				do(l)
			}
		}
		out.Close("replay")
		return
	}
	n := 25
	if tier == "thorough" {
		n = 400
	}
	g := &gen{r: r, forceRootWhich: -1}
	for _, ms := range schemas {
		// outside the domain of the theorems (rschema_ok false: non-null STRUCT default in the schema; the model
		// answers XDefault there): no hostile cases for this schema in this run; C19's own hostile run covers it
		if ms.name == "StackingRoot" {
			continue
		}
		for i := 0; i < n; i++ {
			do(retuneT(r, g.hostileCase(ms)))
		}
	}
	out.Close("per mapped Go type (the schemas of the C19 run): hostile messages (guided hostile pointers in a root of the schema's " +
		"shape, mutated schema-shaped trees, raw / cyclic / mutated built messages), single- and multi-segment arenas, small and " +
		"default traversal limits, depth limits 0..8; observed: Root+Extract result class and the remaining traversal budget")
}
