// Command c20: correspondence harness for property C20 (text rendering).
//
//	-part quote   : strquote.Append against the model, output read back by the reference reader
//	-part render  : text.Marshal / Encoder.Encode on aircraftlib values against the model's render
//	-part history : the same struct encoded N times on one Encoder
//	-part hostile : text.Marshal on hostile messages (no panic, no hang, bounded output)
package main

import (
	"flag"
	"os"
	"strings"

	. "verifh/hc"
)

var part = "quote"

func main() {
	// the part is taken from the arguments before hc.Main parses the common flags
	args := []string{os.Args[0]}
	for i := 1; i < len(os.Args); i++ {
		if os.Args[i] == "-part" && i+1 < len(os.Args) {
			part = os.Args[i+1]
			i++
			continue
		}
		args = append(args, os.Args[i])
	}
	os.Args = args
	_ = flag.CommandLine
	Main(run)
}

func run(out *Out, r *Rand, tier string, replay []string) {
	if replay != nil {
		for _, l := range replay {
			f := strings.Fields(l)
			switch f[0] {
			case "quote", "append":
				doQuoteLine(out, f)
			case "render":
				doRenderLine(out, f)
			case "history":
				doHistoryLine(out, f)
			case "hostile":
				doHostileLine(out, f)
			case "recrender":
				doRecRenderLine(out, f)
			case "liststr":
				doListStrLine(out, f)
			case "reghist":
				doRegHistLine(out, f)
			case "schemadef":
				emitRegDefs(out)
			default:
				panic("bad case " + l)
			}
		}
		out.Close("replay")
		return
	}
	switch part {
	case "quote":
		genQuote(out, r, tier)
	case "render":
		genRender(out, r, tier)
	case "history":
		genHistory(out, r, tier)
	case "hostile":
		genHostile(out, r, tier)
	default:
		panic("unknown part " + part)
	}
}
