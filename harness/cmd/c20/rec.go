package main

// Recursive struct types (a list node, a tree, two mutually recursive structs, a type whose
// field of its own type has a non-null default): text rendering of values with null pointers.
// Before the fix the default value of such a field was expanded without end (fatal stack
// overflow, which cannot be recovered): every case runs in a child process.

import (
	"bytes"
	"context"
	"fmt"
	"os"
	"os/exec"
	"path/filepath"
	"runtime/debug"
	"strconv"
	"strings"
	"time"

	capnp "capnproto.org/go/capnp/v3"
	"capnproto.org/go/capnp/v3/encoding/text"
	"capnproto.org/go/capnp/v3/schemas"
	"capnproto.org/go/capnp/v3/std/capnp/schema"
	. "verifh/hc"
)

const (
	recNode = 0xa000000000000001 // struct Node { val @0 :Int32; next @1 :Node; }
	recTree = 0xa000000000000002 // struct Tree { left @0 :Tree; right @1 :Tree; kids @2 :List(Tree); }
	recA    = 0xa000000000000003 // struct A { b @0 :B; }
	recB    = 0xa000000000000004 // struct B { x @0 :UInt8; a @1 :A; }
	recDef  = 0xa000000000000005 // struct Def { x @0 :UInt8; next @1 :Def = (x = 1); }
	recC    = 0xa000000000000006 // struct C { p @0 :D; }      cycle of length 3: C -> D -> E -> C
	recD    = 0xa000000000000007 // struct D { q @0 :E; }
	recE    = 0xa000000000000008 // struct E { r @0 :C; }
	recF    = 0xa000000000000009 // struct F { g @0 :G = (n = 5); }   cycle of length 2 with explicit defaults
	recG    = 0xa00000000000000a // struct G { n @0 :UInt8; f @1 :F = (); }
)

var recData []byte
var recReg *schemas.Registry

type recField struct {
	name   string
	off    uint32
	set    func(t schema.Type)
	defPtr func(seg *capnp.Segment) capnp.Ptr // default pointer target (struct fields)
	isPtr  bool
}

type recType struct {
	id     uint64
	fields []recField
}

func structT(id uint64) func(schema.Type) {
	return func(t schema.Type) { t.SetStructType(); t.StructType().SetTypeId(id) }
}

func recBuild() {
	if recData != nil {
		return
	}
	types := []recType{
		{recNode, []recField{{name: "val", set: func(t schema.Type) { t.SetInt32() }}, {name: "next", set: structT(recNode), isPtr: true}}},
		{recTree, []recField{{name: "left", set: structT(recTree), isPtr: true}, {name: "right", off: 1, set: structT(recTree), isPtr: true},
			{name: "kids", off: 2, isPtr: true, set: func(t schema.Type) {
				t.SetList()
				e, err := t.List().NewElementType()
				must(err)
				e.SetStructType()
				e.StructType().SetTypeId(recTree)
			}}}},
		{recA, []recField{{name: "b", set: structT(recB), isPtr: true}}},
		{recB, []recField{{name: "x", set: func(t schema.Type) { t.SetUint8() }}, {name: "a", set: structT(recA), isPtr: true}}},
		{recDef, []recField{{name: "x", set: func(t schema.Type) { t.SetUint8() }}, {name: "next", set: structT(recDef), isPtr: true,
			defPtr: func(seg *capnp.Segment) capnp.Ptr {
				st, err := capnp.NewStruct(seg, capnp.ObjectSize{DataSize: 8, PointerCount: 1})
				must(err)
				st.SetUint8(0, 1)
				return st.ToPtr()
			}}}},
		{recC, []recField{{name: "p", set: structT(recD), isPtr: true}}},
		{recD, []recField{{name: "q", set: structT(recE), isPtr: true}}},
		{recE, []recField{{name: "r", set: structT(recC), isPtr: true}}},
		{recF, []recField{{name: "g", set: structT(recG), isPtr: true,
			defPtr: func(seg *capnp.Segment) capnp.Ptr {
				st, err := capnp.NewStruct(seg, capnp.ObjectSize{DataSize: 8, PointerCount: 1})
				must(err)
				st.SetUint8(0, 5)
				return st.ToPtr()
			}}}},
		{recG, []recField{{name: "n", set: func(t schema.Type) { t.SetUint8() }}, {name: "f", set: structT(recF), isPtr: true,
			defPtr: func(seg *capnp.Segment) capnp.Ptr {
				st, err := capnp.NewStruct(seg, capnp.ObjectSize{PointerCount: 1})
				must(err)
				return st.ToPtr()
			}}}},
	}
	var ids []uint64
	recData, ids = buildSchemaBytes(types)
	recReg = new(schemas.Registry)
	must(recReg.Register(&schemas.Schema{Bytes: recData, Nodes: ids}))
}

// buildSchemaBytes builds a CodeGeneratorRequest message with the given struct types.
func buildSchemaBytes(types []recType) (data []byte, ids []uint64) {
	msg, seg, err := capnp.NewMessage(capnp.SingleSegment(nil))
	must(err)
	req, err := schema.NewRootCodeGeneratorRequest(seg)
	must(err)
	nodes, err := req.NewNodes(int32(len(types)))
	must(err)
	for i, ty := range types {
		n := nodes.At(i)
		n.SetId(ty.id)
		ids = append(ids, ty.id)
		n.SetStructNode()
		fl, err := n.StructNode().NewFields(int32(len(ty.fields)))
		must(err)
		for j, fd := range ty.fields {
			f := fl.At(j)
			must(f.SetName(fd.name))
			f.SetCodeOrder(uint16(j))
			f.SetDiscriminantValue(schema.Field_noDiscriminant)
			f.SetSlot()
			f.Slot().SetOffset(fd.off)
			t, err := f.Slot().NewType()
			must(err)
			fd.set(t)
			dv, err := f.Slot().NewDefaultValue()
			must(err)
			switch {
			case fd.defPtr != nil:
				must(dv.SetStructValue(fd.defPtr(seg)))
			case fd.isPtr && t.Which() == schema.Type_Which_structType:
				must(dv.SetStructValue(capnp.Ptr{}))
			case fd.isPtr && t.Which() == schema.Type_Which_list:
				must(dv.SetList(capnp.Ptr{}))
			default:
				// a zero value of the field's own kind (Value.which ordinals equal Type.which ordinals)
				dv.Struct.SetUint16(0, uint16(t.Which()))
			}
		}
	}
	data, err = msg.Marshal()
	must(err)
	return data, ids
}

var recSchemaLine string

func recSchemaDesc() string {
	recBuild()
	if recSchemaLine == "" {
		recSchemaLine = schemaDescOf(recData)
	}
	return recSchemaLine
}

// recRenderHere renders in this process (child side).
func recRenderHere(id uint64, raw string) string {
	recBuild()
	return Safely(func() string {
		seg := newSeg()
		p := buildRaw(seg, raw)
		must(seg.Message().SetRoot(p))
		var buf bytes.Buffer
		enc := text.NewEncoder(&buf)
		enc.UseRegistry(recReg)
		if err := enc.Encode(id, p.Struct()); err != nil {
			return "err"
		}
		return "ok " + Hx(buf.Bytes())
	})
}

// doRecRender: case  recrender <typeid> <stored value> <text produced>; the rendering runs in
// a child process so that a fatal stack overflow is an observation ("crash") and not the end
// of the harness.
func doRecRender(out *Out, id uint64, raw string) {
	emitSchemaOf(out, "rec")
	obs := "crash"
	if part == "recchild" {
		debug.SetMaxStack(64 << 20)
		obs = recRenderHere(id, raw)
	} else {
		dir, err := os.MkdirTemp("", "c20rec")
		must(err)
		defer os.RemoveAll(dir)
		rf := filepath.Join(dir, "case.txt")
		must(os.WriteFile(rf, []byte(fmt.Sprintf("recrender %x %s -\n", id, raw)), 0o644))
		// the child is killed after 20 s: output without end (no stack growth) is "hang"
		ctx, cancel := context.WithTimeout(context.Background(), 20*time.Second)
		cmd := exec.CommandContext(ctx, os.Args[0], "-out", filepath.Join(dir, "o"), "-part", "recchild", "-replay", rf)
		err = cmd.Run()
		if ctx.Err() != nil {
			obs = "hang"
		}
		cancel()
		if err == nil {
			b, err := os.ReadFile(filepath.Join(dir, "o", "impl.out"))
			must(err)
			ls := strings.Split(strings.TrimSpace(string(b)), "\n")
			w := strings.Fields(ls[len(ls)-1])
			if len(w) > 2 {
				w = w[:2]
			}
			obs = strings.Join(w, " ")
		}
	}
	txt := "-"
	if strings.HasPrefix(obs, "ok ") {
		txt = strings.Fields(obs)[1]
		obs += " rb=ok" // the model driver reads the text back and compares with the values its walk shows
	}
	out.Case("recursive", fmt.Sprintf("recrender %x %s %s", id, raw, txt), obs, Cls(obs), true)
}

func doRecRenderLine(out *Out, f []string) {
	id, err := strconv.ParseUint(f[1], 16, 64)
	must(err)
	doRecRender(out, id, f[2])
}

// random values of the recursive types, as stored trees
func genRecRaw(r *Rand, id uint64, depth int) string {
	sub := func(t uint64) string {
		if depth <= 0 || r.Intn(3) == 0 {
			return "n"
		}
		return genRecRaw(r, t, depth-1)
	}
	data8 := func() string {
		b := make([]byte, 8)
		b[0] = byte(r.U64())
		if r.Bool() {
			b[1], b[2], b[3] = byte(r.U64()), byte(r.U64()), byte(r.U64())
		}
		return Hx(b)
	}
	switch id {
	case recNode:
		if r.Intn(6) == 0 {
			return "(s,-)" // zero-sized struct: every field outside its sections
		}
		return sx("s", data8(), sub(recNode))
	case recTree:
		kids := "n"
		if depth > 0 && r.Intn(3) == 0 {
			it := []string{"l"}
			for k := r.Intn(3); k >= 0; k-- {
				it = append(it, sx("s", "-", sub(recTree), sub(recTree), "n"))
			}
			kids = sx(it...)
		}
		return sx("s", "-", sub(recTree), sub(recTree), kids)
	case recA:
		return sx("s", "-", sub(recB))
	case recC:
		return sx("s", "-", sub(recD))
	case recD:
		return sx("s", "-", sub(recE))
	case recE:
		return sx("s", "-", sub(recC))
	case recF:
		return sx("s", "-", sub(recG))
	case recG:
		return sx("s", data8(), sub(recF))
	case recB:
		return sx("s", data8(), sub(recA))
	default:
		return sx("s", data8(), sub(recDef))
	}
}

func genRec(out *Out, r *Rand, tier string) {
	ids := []uint64{recNode, recTree, recA, recB, recDef, recC, recD, recE, recF, recG}
	// the smallest values first: a node with a null pointer, an empty struct
	for _, id := range ids {
		doRecRender(out, id, "(s,-)")
		doRecRender(out, id, genRecRaw(r, id, 0))
	}
	n := 40
	if tier == "thorough" {
		n = 400
	}
	for i := 0; i < n; i++ {
		id := ids[r.Intn(len(ids))]
		doRecRender(out, id, genRecRaw(r, id, 1+r.Intn(4)))
	}
}
