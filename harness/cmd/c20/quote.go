package main

import (
	"unicode/utf8"

	capnp "capnproto.org/go/capnp/v3"
	. "verifh/hc"
)

// case line:  quote <s> <implementation output>     (the model driver renders s itself and
// reads the implementation's output back with the extracted reference reader)
// observation: ok <literal> lit:<bytes read back>+<bytes left after the literal>
func doQuote(out *Out, kind string, s []byte) {
	var lit []byte
	res := Safely(func() string {
		lit = capnp.VerifStrquoteAppend(nil, s)
		// what a reader must get back: exactly s, nothing left over
		return "ok " + Hx(lit) + " lit:" + Hx(s) + "+-"
	})
	esc := false
	for _, b := range s {
		if b < 0x20 || b >= 0x7f || b == '"' || b == '\\' || b == '\'' {
			esc = true
		}
	}
	class := "plain"
	if esc {
		class = "escapes"
	}
	out.Case(kind, "quote "+Hx(s)+" "+Hx(lit), res, class, len(s) > 0)
}

// append <buf> <s> : Append with a non-empty destination buffer keeps the prefix
func doAppend(out *Out, buf, s []byte) {
	res := Safely(func() string {
		return "ok " + Hx(capnp.VerifStrquoteAppend(append([]byte(nil), buf...), s))
	})
	out.Case("append", "append "+Hx(buf)+" "+Hx(s)+" -", res, "buf", true)
}

func doQuoteLine(out *Out, f []string) {
	switch f[0] {
	case "quote":
		doQuote(out, "quote", Unhx(f[1]))
	case "append":
		doAppend(out, Unhx(f[1]), Unhx(f[2]))
	}
}

var special = []byte{0, 7, 8, 9, 10, 11, 12, 13, 27, 31, 32, '"', '\'', '\\', '?', '0', '7', '8', 'x', 'n', 'a', 'f', 'u', 126, 127, 128, 0xc3, 0xff}

func randBytes(r *Rand, n int) []byte {
	b := make([]byte, n)
	for i := range b {
		switch r.Pick(4, 3, 2) {
		case 0:
			b[i] = byte(r.U64())
		case 1:
			b[i] = special[r.Intn(len(special))]
		case 2:
			b[i] = byte(32 + r.Intn(95))
		}
	}
	return b
}

func randUTF8(r *Rand, n int) []byte {
	var b []byte
	for i := 0; i < n; i++ {
		var c rune
		switch r.Intn(5) {
		case 0:
			c = rune(r.Intn(0x80))
		case 1:
			c = rune(0x80 + r.Intn(0x780))
		case 2:
			c = rune(0x800 + r.Intn(0xf800))
		case 3:
			c = rune(0x10000 + r.Intn(0x100000))
		case 4:
			c = []rune{'"', '\\', '\'', 0x7f, 0x80, 0xff, 0x2028, 0xfeff, 0xfffd}[r.Intn(9)]
		}
		if c >= 0xd800 && c < 0xe000 {
			c = 0xe9
		}
		var tmp [4]byte
		k := utf8.EncodeRune(tmp[:], c)
		b = append(b, tmp[:k]...)
	}
	return b
}

// invalid UTF-8: truncated sequences, lone continuation bytes, surrogates, overlong forms
func randBadUTF8(r *Rand) []byte {
	frag := [][]byte{{0xc3}, {0xe2, 0x82}, {0xf0, 0x9f, 0x98}, {0x80}, {0xbf, 0xbf}, {0xed, 0xa0, 0x80}, {0xc0, 0xaf},
		{0xe0, 0x80, 0xaf}, {0xf8, 0x88, 0x80, 0x80, 0x80}, {0xff}, {0xfe}, {0xf4, 0x90, 0x80, 0x80}, {0xc0, 0xa2}, {0xc1, 0x9c}}
	var b []byte
	for k := 0; k < 1+r.Intn(4); k++ {
		if r.Bool() {
			b = append(b, randUTF8(r, r.Intn(3))...)
		}
		b = append(b, frag[r.Intn(len(frag))]...)
		if r.Intn(3) == 0 {
			b = append(b, special[r.Intn(len(special))])
		}
	}
	return b
}

func genQuote(out *Out, r *Rand, tier string) {
	doQuote(out, "empty", nil)
	// every single byte
	for b := 0; b < 256; b++ {
		doQuote(out, "single", []byte{byte(b)})
	}
	// every pair with a special byte on either side, and triples around it
	for _, e := range special {
		for b := 0; b < 256; b++ {
			doQuote(out, "pair", []byte{e, byte(b)})
			doQuote(out, "pair", []byte{byte(b), e})
		}
	}
	for _, e := range special {
		for _, g := range special {
			doQuote(out, "triple", []byte{'a', e, g})
			doQuote(out, "triple", []byte{e, 'Z', g})
			doQuote(out, "triple", []byte{e, g, '1'})
		}
	}
	n := 3000
	if tier == "thorough" {
		n = 150000
	}
	for i := 0; i < n; i++ {
		switch i % 4 {
		case 0:
			doQuote(out, "random", randBytes(r, r.Intn(24)))
		case 1:
			doQuote(out, "utf8", randUTF8(r, r.Intn(12)))
		case 2:
			doQuote(out, "badutf8", randBadUTF8(r))
		case 3:
			if i%40 == 3 {
				doQuote(out, "long", randBytes(r, 200+r.Intn(2000)))
			} else {
				doAppend(out, randBytes(r, r.Intn(6)), randBytes(r, r.Intn(12)))
			}
		}
	}
	out.Close("strquote.Append: every single byte; every pair with a byte of the special set (controls, quotes, backslash, x/n/digits, 0x7f, 0x80, 0xff) on either side; triples of specials; random, UTF-8, invalid UTF-8 and long strings; non-empty destination buffers. distinct = distinct case line; non-trivial = non-empty string")
}
