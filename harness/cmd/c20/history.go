package main

// part history: the same struct encoded N times on one Encoder; every output must equal the
// first, no error; the remaining budget of the encoder's cached schema message (hook
// Encoder.VerifSchemaBudget) after the first and after the last Encode is compared with the
// model's cache state.

import (
	"bytes"
	"errors"
	"fmt"
	"strconv"

	capnp "capnproto.org/go/capnp/v3"
	"capnproto.org/go/capnp/v3/encoding/text"
	air "verifh/cmd/c20/aircraftlib"
	. "verifh/hc"
)

var errNoCap = errors.New("no capability")

func doHistory(out *Out, kind string, typeID uint64, raw, floats string, s capnp.Struct, n int) {
	emitSchema(out)
	res := Safely(func() string {
		var buf bytes.Buffer
		enc := text.NewEncoder(&buf)
		var first []byte
		same := 0
		b1, bn := "unloaded", "unloaded"
		stopped := false
		for i := 0; i < n; i++ {
			buf.Reset()
			// the value message's own traversal budget is not the subject here
			s.Message().ResetReadLimit(1 << 40)
			err := enc.Encode(typeID, s)
			if i == 0 {
				if err != nil {
					return "err"
				}
				first = append([]byte(nil), buf.Bytes()...)
			}
			if !stopped && err == nil && bytes.Equal(buf.Bytes(), first) {
				same++
			} else {
				stopped = true
			}
			if i == 0 || i == n-1 {
				if b, ok := enc.VerifSchemaBudget(typeID); ok {
					if i == 0 {
						b1 = strconv.FormatUint(b, 16)
					}
					bn = strconv.FormatUint(b, 16)
				}
			}
			if stopped && i > same+3 {
				// the rest cannot become equal again in a way that matters; keep the run short
				if b, ok := enc.VerifSchemaBudget(typeID); ok {
					bn = strconv.FormatUint(b, 16)
				}
				break
			}
		}
		return fmt.Sprintf("ok %s same=%d/%d budget1=%s budgetN=%s", Hx(first), same, n, b1, bn)
	})
	out.Case(kind, fmt.Sprintf("history %x %s %s %d", typeID, raw, floats, n), res, Cls(res), n > 1)
}

func doHistoryLine(out *Out, f []string) {
	id, err := strconv.ParseUint(f[1], 16, 64)
	must(err)
	n, err := strconv.Atoi(f[4])
	must(err)
	seg := newSeg()
	p := buildRaw(seg, f[2])
	must(seg.Message().SetRoot(p))
	doHistory(out, "replay", id, f[2], f[3], p.Struct(), n)
}

func historyValue(out *Out, v value, n int) {
	floatTable = map[string]string{}
	floatTok(32, 0)
	floatTok(64, 0)
	v.s.Message().ResetReadLimit(1 << 40)
	v.acc()
	v.s.Message().ResetReadLimit(1 << 40)
	raw := rawStruct(v.s)
	doHistory(out, v.kind, v.typeID, raw, floatsField(), v.s, n)
}

func genHistory(out *Out, r *Rand, tier string) {
	genRegHist(out, r, tier)
	emitSchema(out)
	long := 40000 // more than the 28,665 reuses after which the unfixed cache ran dry on a small value
	if tier == "thorough" {
		long = 1000000
	}
	// one long run on a small value, one on a larger one
	historyValue(out, genValue(r, int(air.Z_Which_regression)), long) // a Z holding a Regression: a few KB of schema reads per Encode
	historyValue(out, genValue(r, zMembers+11), long)                // Zdate: a few hundred bytes per Encode
	historyValue(out, genValue(r, zMembers+6), long/4)               // PlaneBase
	// many short and medium runs over all kinds of values
	m := 150
	if tier == "thorough" {
		m = 1500
	}
	for i := 0; i < m; i++ {
		n := []int{1, 2, 3, 10, 100, 1000}[r.Intn(6)]
		historyValue(out, genValue(r, -1), n)
	}
	out.Close("the same struct encoded n times on one Encoder (n up to " + strconv.Itoa(long) + "): all outputs equal to the first and no error; the budget of the cached schema message after the first and the last Encode vs the model's cache state. distinct = distinct case line; non-trivial = n > 1")
}
