package main

import . "verifh/hc"

func doRenderLine(out *Out, f []string)         {}
func genRender(out *Out, r *Rand, tier string)  { out.Close("todo") }
func doHistoryLine(out *Out, f []string)        {}
func genHistory(out *Out, r *Rand, tier string) { out.Close("todo") }
