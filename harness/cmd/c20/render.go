package main

// part render: random aircraftlib values; text.Marshal against the model's render of the stored
// value tree + schema description; the text is read back by the extracted reference reader and
// compared with the tree of values the generated accessors return.

import (
	"bytes"
	"errors"
	"fmt"
	"math"
	"sort"
	"strconv"
	"strings"

	capnp "capnproto.org/go/capnp/v3"
	"capnproto.org/go/capnp/v3/encoding/text"
	. "verifh/hc"
	air "verifh/cmd/c20/aircraftlib"
)

// ---------------------------------------------------------------- canonical value trees (as the driver prints them)

func tvInt(x int64) string {
	if x < 0 {
		return "i-" + strconv.FormatUint(uint64(-x), 16) // -MinInt64 wraps to 2^63: right magnitude
	}
	return "i" + strconv.FormatUint(uint64(x), 16)
}
func tvUint(x uint64) string { return "i" + strconv.FormatUint(x, 16) }
func tvBool(b bool) string {
	if b {
		return "T"
	}
	return "F"
}
func tvStr(b []byte) string      { return "s" + Hx(b) }
func tvIdent(s string) string    { return "e" + Hx([]byte(s)) }
func tvMarker(s string) string   { return "m" + Hx([]byte(s)) }
func tvList(xs []string) string  { return "[" + strings.Join(xs, ";") + "]" }
func tvStruct(kv ...string) string {
	var it []string
	for i := 0; i+1 < len(kv); i += 2 {
		it = append(it, Hx([]byte(kv[i]))+"="+kv[i+1])
	}
	return "(" + strings.Join(it, ";") + ")"
}

const capMarker = "<external capability>"
const anyMarker = "<opaque pointer>"

// floats: tokens are produced by strconv here (independently of marshal.go) and handed to the
// model as an oracle; a token is classified by its syntax exactly as the reader does
var floatTable = map[string]string{}

func floatTok(bits int, pattern uint64) string {
	var tok []byte
	if bits == 32 {
		tok = strconv.AppendFloat(nil, float64(math.Float32frombits(uint32(pattern))), 'g', -1, 32)
	} else {
		tok = strconv.AppendFloat(nil, math.Float64frombits(pattern), 'g', -1, 64)
	}
	floatTable[fmt.Sprintf("%d:%x", bits, pattern)] = Hx(tok)
	return string(tok)
}

func tvNumTok(tok string) string {
	isInt := len(tok) > 0
	digits := tok
	if strings.HasPrefix(tok, "-") {
		digits = tok[1:]
	}
	if digits == "" {
		isInt = false
	}
	for _, c := range digits {
		if c < '0' || c > '9' {
			isInt = false
		}
	}
	if isInt {
		// magnitude may exceed 64 bits (1e+21 is printed with an exponent, so it cannot here)
		neg := strings.HasPrefix(tok, "-")
		u, err := strconv.ParseUint(digits, 10, 64)
		must(err)
		if neg && u != 0 {
			return "i-" + strconv.FormatUint(u, 16)
		}
		return "i" + strconv.FormatUint(u, 16)
	}
	c := tok[0]
	if (c >= 'a' && c <= 'z') || (c >= 'A' && c <= 'Z') {
		return tvIdent(tok) // NaN
	}
	return "g" + Hx([]byte(tok))
}
func tvF64(f float64) string { return tvNumTok(floatTok(64, math.Float64bits(f))) }
func tvF32(f float32) string { return tvNumTok(floatTok(32, uint64(math.Float32bits(f)))) }

var airports = []string{"none", "jfk", "lax", "sfo", "luv", "dfw", "test"}

func tvAirport(a air.Airport) string {
	if int(a) < len(airports) {
		return tvIdent(airports[a])
	}
	return tvUint(uint64(a))
}

// ---- accessor trees

func accZdate(d air.Zdate) string {
	return tvStruct("year", tvInt(int64(d.Year())), "month", tvUint(uint64(d.Month())), "day", tvUint(uint64(d.Day())))
}
func accZdata(d air.Zdata) string {
	b, err := d.Data()
	must(err)
	return tvStruct("data", tvStr(b))
}
func accPlaneBase(p air.PlaneBase) string {
	name, err := p.NameBytes()
	must(err)
	homes, err := p.Homes()
	must(err)
	var hs []string
	for i := 0; i < homes.Len(); i++ {
		hs = append(hs, tvAirport(homes.At(i)))
	}
	return tvStruct("name", tvStr(name), "homes", tvList(hs), "rating", tvInt(p.Rating()), "canFly", tvBool(p.CanFly()),
		"capacity", tvInt(p.Capacity()), "maxSpeed", tvF64(p.MaxSpeed()))
}
func accB737(b air.B737) string { p, err := b.Base(); must(err); return tvStruct("base", accPlaneBase(p)) }
func accA320(b air.A320) string { p, err := b.Base(); must(err); return tvStruct("base", accPlaneBase(p)) }
func accF16(b air.F16) string   { p, err := b.Base(); must(err); return tvStruct("base", accPlaneBase(p)) }
func accAircraft(a air.Aircraft) string {
	switch a.Which() {
	case air.Aircraft_Which_void:
		return tvStruct("void", "v")
	case air.Aircraft_Which_b737:
		x, err := a.B737()
		must(err)
		return tvStruct("b737", accB737(x))
	case air.Aircraft_Which_a320:
		x, err := a.A320()
		must(err)
		return tvStruct("a320", accA320(x))
	case air.Aircraft_Which_f16:
		x, err := a.F16()
		must(err)
		return tvStruct("f16", accF16(x))
	}
	return tvStruct() // unknown discriminant: no union member is shown
}
func accRegression(r air.Regression) string {
	base, err := r.Base()
	must(err)
	beta, err := r.Beta()
	must(err)
	var bs []string
	for i := 0; i < beta.Len(); i++ {
		bs = append(bs, tvF64(beta.At(i)))
	}
	planes, err := r.Planes()
	must(err)
	var ps []string
	for i := 0; i < planes.Len(); i++ {
		ps = append(ps, accAircraft(planes.At(i)))
	}
	return tvStruct("base", accPlaneBase(base), "b0", tvF64(r.B0()), "beta", tvList(bs), "planes", tvList(ps),
		"ymu", tvF64(r.Ymu()), "ysd", tvF64(r.Ysd()))
}
func accCounter(c air.Counter) string {
	w, err := c.WordsBytes()
	must(err)
	wl, err := c.Wordlist()
	must(err)
	var ws []string
	for i := 0; i < wl.Len(); i++ {
		b, err := wl.BytesAt(i)
		must(err)
		ws = append(ws, tvStr(b))
	}
	bl, err := c.Bitlist()
	must(err)
	var bs []string
	for i := 0; i < bl.Len(); i++ {
		bs = append(bs, tvBool(bl.At(i)))
	}
	return tvStruct("size", tvInt(c.Size()), "words", tvStr(w), "wordlist", tvList(ws), "bitlist", tvList(bs))
}
func accDefaults(d air.Defaults) string {
	t, err := d.TextBytes()
	must(err)
	b, err := d.Data()
	must(err)
	return tvStruct("text", tvStr(t), "data", tvStr(b), "float", tvF32(d.Float()), "int", tvInt(int64(d.Int())), "uint", tvUint(uint64(d.Uint())))
}
func accStackingB(b air.StackingB) string { return tvStruct("num", tvInt(int64(b.Num()))) }
func accStackingA(a air.StackingA) string {
	b, err := a.B()
	must(err)
	return tvStruct("num", tvInt(int64(a.Num())), "b", accStackingB(b))
}
func accStackingRoot(r air.StackingRoot) string {
	d, err := r.AWithDefault()
	must(err)
	a, err := r.A()
	must(err)
	return tvStruct("a", accStackingA(a), "aWithDefault", accStackingA(d))
}
func accVoidUnion(v air.VoidUnion) string {
	switch v.Which() {
	case air.VoidUnion_Which_a:
		return tvStruct("a", "v")
	case air.VoidUnion_Which_b:
		return tvStruct("b", "v")
	}
	return tvStruct()
}
func accZjob(j air.Zjob) string {
	c, err := j.CmdBytes()
	must(err)
	al, err := j.Args()
	must(err)
	var as []string
	for i := 0; i < al.Len(); i++ {
		b, err := al.BytesAt(i)
		must(err)
		as = append(as, tvStr(b))
	}
	return tvStruct("cmd", tvStr(c), "args", tvList(as))
}

func accZ(z air.Z) string {
	one := func(name, v string) string { return tvStruct(name, v) }
	switch z.Which() {
	case air.Z_Which_void:
		return one("void", "v")
	case air.Z_Which_zz:
		x, err := z.Zz()
		must(err)
		return one("zz", accZ(x))
	case air.Z_Which_f64:
		return one("f64", tvF64(z.F64()))
	case air.Z_Which_f32:
		return one("f32", tvF32(z.F32()))
	case air.Z_Which_i64:
		return one("i64", tvInt(z.I64()))
	case air.Z_Which_i32:
		return one("i32", tvInt(int64(z.I32())))
	case air.Z_Which_i16:
		return one("i16", tvInt(int64(z.I16())))
	case air.Z_Which_i8:
		return one("i8", tvInt(int64(z.I8())))
	case air.Z_Which_u64:
		return one("u64", tvUint(z.U64()))
	case air.Z_Which_u32:
		return one("u32", tvUint(uint64(z.U32())))
	case air.Z_Which_u16:
		return one("u16", tvUint(uint64(z.U16())))
	case air.Z_Which_u8:
		return one("u8", tvUint(uint64(z.U8())))
	case air.Z_Which_bool:
		return one("bool", tvBool(z.Bool()))
	case air.Z_Which_text:
		b, err := z.TextBytes()
		must(err)
		return one("text", tvStr(b))
	case air.Z_Which_blob:
		b, err := z.Blob()
		must(err)
		return one("blob", tvStr(b))
	case air.Z_Which_f64vec:
		l, err := z.F64vec()
		must(err)
		var xs []string
		for i := 0; i < l.Len(); i++ {
			xs = append(xs, tvF64(l.At(i)))
		}
		return one("f64vec", tvList(xs))
	case air.Z_Which_f32vec:
		l, err := z.F32vec()
		must(err)
		var xs []string
		for i := 0; i < l.Len(); i++ {
			xs = append(xs, tvF32(l.At(i)))
		}
		return one("f32vec", tvList(xs))
	case air.Z_Which_i64vec:
		l, err := z.I64vec()
		must(err)
		var xs []string
		for i := 0; i < l.Len(); i++ {
			xs = append(xs, tvInt(l.At(i)))
		}
		return one("i64vec", tvList(xs))
	case air.Z_Which_i32vec:
		l, err := z.I32vec()
		must(err)
		var xs []string
		for i := 0; i < l.Len(); i++ {
			xs = append(xs, tvInt(int64(l.At(i))))
		}
		return one("i32vec", tvList(xs))
	case air.Z_Which_i16vec:
		l, err := z.I16vec()
		must(err)
		var xs []string
		for i := 0; i < l.Len(); i++ {
			xs = append(xs, tvInt(int64(l.At(i))))
		}
		return one("i16vec", tvList(xs))
	case air.Z_Which_i8vec:
		l, err := z.I8vec()
		must(err)
		var xs []string
		for i := 0; i < l.Len(); i++ {
			xs = append(xs, tvInt(int64(l.At(i))))
		}
		return one("i8vec", tvList(xs))
	case air.Z_Which_u64vec:
		l, err := z.U64vec()
		must(err)
		var xs []string
		for i := 0; i < l.Len(); i++ {
			xs = append(xs, tvUint(l.At(i)))
		}
		return one("u64vec", tvList(xs))
	case air.Z_Which_u32vec:
		l, err := z.U32vec()
		must(err)
		var xs []string
		for i := 0; i < l.Len(); i++ {
			xs = append(xs, tvUint(uint64(l.At(i))))
		}
		return one("u32vec", tvList(xs))
	case air.Z_Which_u16vec:
		l, err := z.U16vec()
		must(err)
		var xs []string
		for i := 0; i < l.Len(); i++ {
			xs = append(xs, tvUint(uint64(l.At(i))))
		}
		return one("u16vec", tvList(xs))
	case air.Z_Which_u8vec:
		l, err := z.U8vec()
		must(err)
		var xs []string
		for i := 0; i < l.Len(); i++ {
			xs = append(xs, tvUint(uint64(l.At(i))))
		}
		return one("u8vec", tvList(xs))
	case air.Z_Which_boolvec:
		l, err := z.Boolvec()
		must(err)
		var xs []string
		for i := 0; i < l.Len(); i++ {
			xs = append(xs, tvBool(l.At(i)))
		}
		return one("boolvec", tvList(xs))
	case air.Z_Which_datavec:
		l, err := z.Datavec()
		must(err)
		var xs []string
		for i := 0; i < l.Len(); i++ {
			b, err := l.At(i)
			must(err)
			xs = append(xs, tvStr(b))
		}
		return one("datavec", tvList(xs))
	case air.Z_Which_textvec:
		l, err := z.Textvec()
		must(err)
		var xs []string
		for i := 0; i < l.Len(); i++ {
			b, err := l.BytesAt(i)
			must(err)
			xs = append(xs, tvStr(b))
		}
		return one("textvec", tvList(xs))
	case air.Z_Which_zvec:
		l, err := z.Zvec()
		must(err)
		var xs []string
		for i := 0; i < l.Len(); i++ {
			xs = append(xs, accZ(l.At(i)))
		}
		return one("zvec", tvList(xs))
	case air.Z_Which_zvecvec:
		l, err := z.Zvecvec()
		must(err)
		var xs []string
		for i := 0; i < l.Len(); i++ {
			p, err := l.At(i)
			must(err)
			il := air.Z_List{List: p.List()}
			var ys []string
			for j := 0; j < il.Len(); j++ {
				ys = append(ys, accZ(il.At(j)))
			}
			xs = append(xs, tvList(ys))
		}
		return one("zvecvec", tvList(xs))
	case air.Z_Which_zdate:
		x, err := z.Zdate()
		must(err)
		return one("zdate", accZdate(x))
	case air.Z_Which_zdata:
		x, err := z.Zdata()
		must(err)
		return one("zdata", accZdata(x))
	case air.Z_Which_aircraftvec:
		l, err := z.Aircraftvec()
		must(err)
		var xs []string
		for i := 0; i < l.Len(); i++ {
			xs = append(xs, accAircraft(l.At(i)))
		}
		return one("aircraftvec", tvList(xs))
	case air.Z_Which_aircraft:
		x, err := z.Aircraft()
		must(err)
		return one("aircraft", accAircraft(x))
	case air.Z_Which_regression:
		x, err := z.Regression()
		must(err)
		return one("regression", accRegression(x))
	case air.Z_Which_planebase:
		x, err := z.Planebase()
		must(err)
		return one("planebase", accPlaneBase(x))
	case air.Z_Which_airport:
		return one("airport", tvAirport(z.Airport()))
	case air.Z_Which_b737:
		x, err := z.B737()
		must(err)
		return one("b737", accB737(x))
	case air.Z_Which_a320:
		x, err := z.A320()
		must(err)
		return one("a320", accA320(x))
	case air.Z_Which_f16:
		x, err := z.F16()
		must(err)
		return one("f16", accF16(x))
	case air.Z_Which_zdatevec:
		l, err := z.Zdatevec()
		must(err)
		var xs []string
		for i := 0; i < l.Len(); i++ {
			xs = append(xs, accZdate(l.At(i)))
		}
		return one("zdatevec", tvList(xs))
	case air.Z_Which_zdatavec:
		l, err := z.Zdatavec()
		must(err)
		var xs []string
		for i := 0; i < l.Len(); i++ {
			xs = append(xs, accZdata(l.At(i)))
		}
		return one("zdatavec", tvList(xs))
	case air.Z_Which_grp:
		return one("grp", tvStruct("first", tvUint(z.Grp().First()), "second", tvUint(z.Grp().Second())))
	case air.Z_Which_echo:
		if z.HasEcho() {
			return one("echo", tvMarker(capMarker))
		}
		return one("echo", tvIdent("null"))
	case air.Z_Which_echoes:
		l, err := z.Echoes()
		must(err)
		var xs []string
		for i := 0; i < l.Len(); i++ {
			p, err := l.At(i)
			must(err)
			if p.IsValid() {
				xs = append(xs, tvMarker(capMarker))
			} else {
				xs = append(xs, tvIdent("null"))
			}
		}
		return one("echoes", tvList(xs))
	case air.Z_Which_anyPtr:
		return one("anyPtr", tvMarker(anyMarker))
	case air.Z_Which_anyStruct:
		return one("anyStruct", tvMarker(anyMarker))
	case air.Z_Which_anyList:
		return one("anyList", tvMarker(anyMarker))
	case air.Z_Which_anyCapability:
		return one("anyCapability", tvMarker(anyMarker))
	}
	return tvStruct()
}

// ---------------------------------------------------------------- generators

type gen struct {
	r   *Rand
	seg *capnp.Segment
}

func (g gen) bytesN(max int) []byte { return randBytes(g.r, g.r.Intn(max+1)) }
func (g gen) i64() int64 {
	switch g.r.Intn(6) {
	case 0:
		return []int64{0, 1, -1, math.MaxInt64, math.MinInt64, 9, 10, -10, 99, 100}[g.r.Intn(10)]
	case 1:
		return int64(g.r.Intn(2000)) - 1000
	case 2:
		return int64(1) << uint(g.r.Intn(63))
	case 3:
		return -(int64(1) << uint(g.r.Intn(63)))
	}
	return int64(g.r.U64())
}
func (g gen) u64() uint64 {
	switch g.r.Intn(4) {
	case 0:
		return []uint64{0, 1, math.MaxUint64, 1 << 63, 1<<63 - 1, 10, 18446744073709551615 / 10}[g.r.Intn(7)]
	case 1:
		return uint64(g.r.Intn(1000))
	}
	return g.r.U64() >> uint(g.r.Intn(64))
}
func (g gen) f64() float64 {
	switch g.r.Intn(6) {
	case 0:
		return []float64{0, math.Copysign(0, -1), 1, -1, 0.5, 3.14, math.Inf(1), math.Inf(-1), math.NaN(), 1e21, 1e20, 1e-7, 123456789,
			math.MaxFloat64, math.SmallestNonzeroFloat64, 2, -2, 100}[g.r.Intn(18)]
	case 1:
		return float64(g.r.Intn(100000)) / 100
	case 2:
		return float64(int64(g.r.U64() >> uint(g.r.Intn(64))))
	}
	return math.Float64frombits(g.r.U64())
}
func (g gen) f32() float32 {
	if g.r.Intn(3) == 0 {
		return math.Float32frombits(uint32(g.r.U64()))
	}
	return float32(g.f64())
}
func (g gen) airport() air.Airport {
	if g.r.Intn(4) == 0 {
		return air.Airport([]uint16{7, 8, 100, 65535, 256}[g.r.Intn(5)])
	}
	return air.Airport(g.r.Intn(7))
}
func (g gen) n(max int) int32 { return int32(g.r.Intn(max + 1)) }

func (g gen) fillPlaneBase(p air.PlaneBase) {
	if g.r.Intn(5) > 0 {
		must(p.SetName(string(g.bytesN(12))))
	}
	if g.r.Intn(4) > 0 {
		h, err := p.NewHomes(g.n(5))
		must(err)
		for i := 0; i < h.Len(); i++ {
			h.Set(i, g.airport())
		}
	}
	p.SetRating(g.i64())
	p.SetCanFly(g.r.Bool())
	p.SetCapacity(g.i64())
	p.SetMaxSpeed(g.f64())
}
func (g gen) fillAircraft(a air.Aircraft) {
	switch g.r.Intn(5) {
	case 0:
		a.SetVoid()
	case 1:
		b, err := a.NewB737()
		must(err)
		if g.r.Bool() {
			p, err := b.NewBase()
			must(err)
			g.fillPlaneBase(p)
		}
	case 2:
		b, err := a.NewA320()
		must(err)
		p, err := b.NewBase()
		must(err)
		g.fillPlaneBase(p)
	case 3:
		b, err := a.NewF16()
		must(err)
		p, err := b.NewBase()
		must(err)
		g.fillPlaneBase(p)
	case 4:
		a.Struct.SetUint16(0, uint16(4+g.r.Intn(3))) // discriminant of no member
	}
}
func (g gen) fillRegression(x air.Regression) {
	if g.r.Bool() {
		p, err := x.NewBase()
		must(err)
		g.fillPlaneBase(p)
	}
	x.SetB0(g.f64())
	if g.r.Bool() {
		b, err := x.NewBeta(g.n(4))
		must(err)
		for i := 0; i < b.Len(); i++ {
			b.Set(i, g.f64())
		}
	}
	if g.r.Bool() {
		pl, err := x.NewPlanes(g.n(3))
		must(err)
		for i := 0; i < pl.Len(); i++ {
			g.fillAircraft(pl.At(i))
		}
	}
	x.SetYmu(g.f64())
	x.SetYsd(g.f64())
}
func (g gen) fillZdate(d air.Zdate) {
	d.SetYear(int16(g.i64()))
	d.SetMonth(uint8(g.u64()))
	d.SetDay(uint8(g.u64()))
}

var zMembers = 50

// fillZ sets union member `which` (0..49) with random content.
func (g gen) fillZ(z air.Z, which int, depth int) {
	switch air.Z_Which(which) {
	case air.Z_Which_void:
		z.SetVoid()
	case air.Z_Which_zz:
		x, err := z.NewZz()
		must(err)
		if depth > 0 {
			g.fillZ(x, g.r.Intn(zMembers), depth-1)
		}
	case air.Z_Which_f64:
		z.SetF64(g.f64())
	case air.Z_Which_f32:
		z.SetF32(g.f32())
	case air.Z_Which_i64:
		z.SetI64(g.i64())
	case air.Z_Which_i32:
		z.SetI32(int32(g.i64()))
	case air.Z_Which_i16:
		z.SetI16(int16(g.i64()))
	case air.Z_Which_i8:
		z.SetI8(int8(g.i64()))
	case air.Z_Which_u64:
		z.SetU64(g.u64())
	case air.Z_Which_u32:
		z.SetU32(uint32(g.u64()))
	case air.Z_Which_u16:
		z.SetU16(uint16(g.u64()))
	case air.Z_Which_u8:
		z.SetU8(uint8(g.u64()))
	case air.Z_Which_bool:
		z.SetBool(g.r.Bool())
	case air.Z_Which_text:
		must(z.SetText(string(g.bytesN(20))))
	case air.Z_Which_blob:
		must(z.SetBlob(g.bytesN(20)))
	case air.Z_Which_f64vec:
		l, err := z.NewF64vec(g.n(5))
		must(err)
		for i := 0; i < l.Len(); i++ {
			l.Set(i, g.f64())
		}
	case air.Z_Which_f32vec:
		l, err := z.NewF32vec(g.n(5))
		must(err)
		for i := 0; i < l.Len(); i++ {
			l.Set(i, g.f32())
		}
	case air.Z_Which_i64vec:
		l, err := z.NewI64vec(g.n(5))
		must(err)
		for i := 0; i < l.Len(); i++ {
			l.Set(i, g.i64())
		}
	case air.Z_Which_i32vec:
		l, err := z.NewI32vec(g.n(5))
		must(err)
		for i := 0; i < l.Len(); i++ {
			l.Set(i, int32(g.i64()))
		}
	case air.Z_Which_i16vec:
		l, err := z.NewI16vec(g.n(5))
		must(err)
		for i := 0; i < l.Len(); i++ {
			l.Set(i, int16(g.i64()))
		}
	case air.Z_Which_i8vec:
		l, err := z.NewI8vec(g.n(5))
		must(err)
		for i := 0; i < l.Len(); i++ {
			l.Set(i, int8(g.i64()))
		}
	case air.Z_Which_u64vec:
		l, err := z.NewU64vec(g.n(5))
		must(err)
		for i := 0; i < l.Len(); i++ {
			l.Set(i, g.u64())
		}
	case air.Z_Which_u32vec:
		l, err := z.NewU32vec(g.n(5))
		must(err)
		for i := 0; i < l.Len(); i++ {
			l.Set(i, uint32(g.u64()))
		}
	case air.Z_Which_u16vec:
		l, err := z.NewU16vec(g.n(5))
		must(err)
		for i := 0; i < l.Len(); i++ {
			l.Set(i, uint16(g.u64()))
		}
	case air.Z_Which_u8vec:
		l, err := z.NewU8vec(g.n(5))
		must(err)
		for i := 0; i < l.Len(); i++ {
			l.Set(i, uint8(g.u64()))
		}
	case air.Z_Which_boolvec:
		l, err := z.NewBoolvec(g.n(19))
		must(err)
		for i := 0; i < l.Len(); i++ {
			l.Set(i, g.r.Bool())
		}
	case air.Z_Which_datavec:
		l, err := z.NewDatavec(g.n(4))
		must(err)
		for i := 0; i < l.Len(); i++ {
			if g.r.Intn(5) > 0 {
				must(l.Set(i, g.bytesN(8)))
			}
		}
	case air.Z_Which_textvec:
		l, err := z.NewTextvec(g.n(4))
		must(err)
		for i := 0; i < l.Len(); i++ {
			if g.r.Intn(5) > 0 {
				must(l.Set(i, string(g.bytesN(8))))
			}
		}
	case air.Z_Which_zvec:
		l, err := z.NewZvec(g.n(3))
		must(err)
		for i := 0; i < l.Len(); i++ {
			if depth > 0 {
				g.fillZ(l.At(i), g.r.Intn(zMembers), depth-1)
			}
		}
	case air.Z_Which_zvecvec:
		l, err := z.NewZvecvec(g.n(3))
		must(err)
		for i := 0; i < l.Len(); i++ {
			if g.r.Intn(4) == 0 {
				continue // null inner list
			}
			il, err := air.NewZ_List(g.seg, g.n(3))
			must(err)
			for j := 0; j < il.Len(); j++ {
				if depth > 0 {
					g.fillZ(il.At(j), g.r.Intn(zMembers), depth-1)
				}
			}
			must(l.Set(i, il.ToPtr()))
		}
	case air.Z_Which_zdate:
		d, err := z.NewZdate()
		must(err)
		g.fillZdate(d)
	case air.Z_Which_zdata:
		d, err := z.NewZdata()
		must(err)
		if g.r.Intn(4) > 0 {
			must(d.SetData(g.bytesN(16)))
		}
	case air.Z_Which_aircraftvec:
		l, err := z.NewAircraftvec(g.n(3))
		must(err)
		for i := 0; i < l.Len(); i++ {
			g.fillAircraft(l.At(i))
		}
	case air.Z_Which_aircraft:
		a, err := z.NewAircraft()
		must(err)
		g.fillAircraft(a)
	case air.Z_Which_regression:
		x, err := z.NewRegression()
		must(err)
		g.fillRegression(x)
	case air.Z_Which_planebase:
		p, err := z.NewPlanebase()
		must(err)
		g.fillPlaneBase(p)
	case air.Z_Which_airport:
		z.SetAirport(g.airport())
	case air.Z_Which_b737:
		b, err := z.NewB737()
		must(err)
		p, err := b.NewBase()
		must(err)
		g.fillPlaneBase(p)
	case air.Z_Which_a320:
		_, err := z.NewA320() // base left unset
		must(err)
	case air.Z_Which_f16:
		b, err := z.NewF16()
		must(err)
		p, err := b.NewBase()
		must(err)
		g.fillPlaneBase(p)
	case air.Z_Which_zdatevec:
		l, err := z.NewZdatevec(g.n(4))
		must(err)
		for i := 0; i < l.Len(); i++ {
			g.fillZdate(l.At(i))
		}
	case air.Z_Which_zdatavec:
		l, err := z.NewZdatavec(g.n(3))
		must(err)
		for i := 0; i < l.Len(); i++ {
			if g.r.Bool() {
				must(l.At(i).SetData(g.bytesN(8)))
			}
		}
	case air.Z_Which_grp:
		z.SetGrp()
		z.Grp().SetFirst(g.u64())
		z.Grp().SetSecond(g.u64())
	case air.Z_Which_echo:
		if g.r.Bool() {
			must(z.SetEcho(air.Echo{Client: capnp.ErrorClient(errors.New("no echo"))}))
		} else {
			z.Struct.SetUint16(0, uint16(air.Z_Which_echo))
		}
	case air.Z_Which_echoes:
		l, err := z.NewEchoes(g.n(3))
		must(err)
		for i := 0; i < l.Len(); i++ {
			if g.r.Bool() {
				id := z.Struct.Message().AddCap(capnp.ErrorClient(errors.New("no echo")))
				must(l.Set(i, capnp.NewInterface(g.seg, id).ToPtr()))
			}
		}
	case air.Z_Which_anyPtr:
		d, err := air.NewZdate(g.seg)
		must(err)
		must(z.SetAnyPtr(d.ToPtr()))
	case air.Z_Which_anyStruct:
		z.Struct.SetUint16(0, uint16(air.Z_Which_anyStruct))
	case air.Z_Which_anyList:
		z.Struct.SetUint16(0, uint16(air.Z_Which_anyList))
	case air.Z_Which_anyCapability:
		z.Struct.SetUint16(0, uint16(air.Z_Which_anyCapability))
	default:
		z.Struct.SetUint16(0, uint16(which)) // a discriminant no member has
	}
}

type value struct {
	kind   string
	typeID uint64
	s      capnp.Struct
	acc    func() string
}

// arenaHook, when set, chooses the arena of the next value (part hostile).
var arenaHook func() capnp.Arena

func newSeg() *capnp.Segment {
	var a capnp.Arena = capnp.SingleSegment(nil)
	if arenaHook != nil {
		a = arenaHook()
	}
	_, seg, err := capnp.NewMessage(a)
	must(err)
	return seg
}

// genValue builds one value; sel selects the root type / union member deterministically for
// the exhaustive part (sel >= 0) or randomly (sel < 0).
func genValue(r *Rand, sel int) value {
	seg := newSeg()
	g := gen{r, seg}
	if sel < 0 {
		sel = r.Intn(zMembers + 12)
		if r.Intn(3) == 0 {
			sel = zMembers + r.Intn(12)
		}
	}
	if sel < zMembers+2 {
		z, err := air.NewRootZ(seg)
		must(err)
		g.fillZ(z, sel, 2)
		return value{fmt.Sprintf("Z.%d", sel), air.Z_TypeID, z.Struct, func() string { return accZ(z) }}
	}
	switch sel - zMembers - 2 {
	case 0:
		d, err := air.NewRootDefaults(seg)
		must(err)
		// every subset of fields set
		m := r.Intn(32)
		if m&1 != 0 {
			must(d.SetText(string(g.bytesN(10))))
		}
		if m&2 != 0 {
			must(d.SetData(g.bytesN(10)))
		}
		if m&4 != 0 {
			d.SetFloat(g.f32())
		}
		if m&8 != 0 {
			d.SetInt(int32(g.i64()))
		}
		if m&16 != 0 {
			d.SetUint(uint32(g.u64()))
		}
		return value{"Defaults", air.Defaults_TypeID, d.Struct, func() string { return accDefaults(d) }}
	case 1:
		s, err := air.NewRootStackingRoot(seg)
		must(err)
		if r.Bool() {
			a, err := s.NewA()
			must(err)
			a.SetNum(int32(g.i64()))
			if r.Bool() {
				b, err := a.NewB()
				must(err)
				b.SetNum(int32(g.i64()))
			}
		}
		if r.Bool() {
			a, err := s.NewAWithDefault()
			must(err)
			a.SetNum(int32(g.i64()))
		}
		return value{"StackingRoot", air.StackingRoot_TypeID, s.Struct, func() string { return accStackingRoot(s) }}
	case 2:
		c, err := air.NewRootCounter(seg)
		must(err)
		c.SetSize(g.i64())
		if r.Bool() {
			must(c.SetWords(string(g.bytesN(30))))
		}
		if r.Bool() {
			wl, err := c.NewWordlist(g.n(5))
			must(err)
			for i := 0; i < wl.Len(); i++ {
				must(wl.Set(i, string(g.bytesN(6))))
			}
		}
		if r.Bool() {
			bl, err := c.NewBitlist(g.n(70))
			must(err)
			for i := 0; i < bl.Len(); i++ {
				bl.Set(i, r.Bool())
			}
		}
		return value{"Counter", air.Counter_TypeID, c.Struct, func() string { return accCounter(c) }}
	case 3:
		v, err := air.NewRootVoidUnion(seg)
		must(err)
		switch r.Intn(3) {
		case 0:
			v.SetA()
		case 1:
			v.SetB()
		case 2:
			v.Struct.SetUint16(0, 2+uint16(r.Intn(3)))
		}
		return value{"VoidUnion", air.VoidUnion_TypeID, v.Struct, func() string { return accVoidUnion(v) }}
	case 4:
		p, err := air.NewRootPlaneBase(seg)
		must(err)
		g.fillPlaneBase(p)
		return value{"PlaneBase", air.PlaneBase_TypeID, p.Struct, func() string { return accPlaneBase(p) }}
	case 5:
		x, err := air.NewRootRegression(seg)
		must(err)
		g.fillRegression(x)
		return value{"Regression", air.Regression_TypeID, x.Struct, func() string { return accRegression(x) }}
	case 6:
		a, err := air.NewRootAircraft(seg)
		must(err)
		g.fillAircraft(a)
		return value{"Aircraft", air.Aircraft_TypeID, a.Struct, func() string { return accAircraft(a) }}
	case 7:
		j, err := air.NewRootZjob(seg)
		must(err)
		if r.Bool() {
			must(j.SetCmd(string(g.bytesN(10))))
		}
		if r.Bool() {
			al, err := j.NewArgs(g.n(4))
			must(err)
			for i := 0; i < al.Len(); i++ {
				must(al.Set(i, string(g.bytesN(6))))
			}
		}
		return value{"Zjob", air.Zjob_TypeID, j.Struct, func() string { return accZjob(j) }}
	case 8:
		// Text / Data holding every byte value
		z, err := air.NewRootZ(seg)
		must(err)
		all := make([]byte, 256)
		for i := range all {
			all[i] = byte(i)
		}
		r0 := r.Intn(256)
		all = append(all[r0:], all[:r0]...)
		if r.Bool() {
			must(z.SetText(string(all)))
		} else {
			must(z.SetBlob(all))
		}
		return value{"Z.allbytes", air.Z_TypeID, z.Struct, func() string { return accZ(z) }}
	default:
		d, err := air.NewRootZdate(seg)
		must(err)
		g.fillZdate(d)
		return value{"Zdate", air.Zdate_TypeID, d.Struct, func() string { return accZdate(d) }}
	}
}

func floatsField() string {
	if len(floatTable) == 0 {
		return "-"
	}
	var ks []string
	for k := range floatTable {
		ks = append(ks, k)
	}
	sort.Strings(ks)
	var it []string
	for _, k := range ks {
		it = append(it, k+"="+floatTable[k])
	}
	return strings.Join(it, ",")
}

// which schema description the model driver currently holds: "" none, "air", "rec"
var schemaEmitted = ""

func emitSchema(out *Out) { emitSchemaOf(out, "air") }

func emitSchemaOf(out *Out, which string) {
	if schemaEmitted == which {
		return
	}
	schemaEmitted = which
	line := schemaDesc()
	if which == "rec" {
		line = recSchemaDesc()
	}
	n := strings.Count(line, "(S,") + strings.Count(line, "(E,") + strings.Count(line, "(O,")
	out.Case("schema", line, fmt.Sprintf("ok nodes=%d", n), "ok", false)
}

// doRender: case  render <typeid> <stored value> <float table> <text produced>
func doRender(out *Out, kind string, typeID uint64, raw string, floats string, s capnp.Struct, acc func() string) {
	emitSchema(out)
	var txt string
	res := Safely(func() string {
		var err error
		s.Message().ResetReadLimit(1 << 40)
		txt, err = text.Marshal(typeID, s)
		if err != nil {
			return "err"
		}
		// the same through a new Encoder with a bytes.Buffer
		var buf bytes.Buffer
		s.Message().ResetReadLimit(1 << 40)
		if err := text.NewEncoder(&buf).Encode(typeID, s); err != nil || buf.String() != txt {
			return "encoder-differs"
		}
		want := "-"
		if acc != nil {
			s.Message().ResetReadLimit(1 << 40)
			want = acc()
		}
		return "ok " + Hx([]byte(txt)) + " " + want
	})
	out.Case(kind, fmt.Sprintf("render %x %s %s %s", typeID, raw, floats, Hx([]byte(txt))), res, Cls(res), len(txt) > 2)
}

func renderValue(out *Out, v value) {
	floatTable = map[string]string{}
	// zero pattern: unset float fields
	floatTok(32, 0)
	floatTok(64, 0)
	v.s.Message().ResetReadLimit(1 << 40)
	want := v.acc() // fills the float table
	_ = want
	v.s.Message().ResetReadLimit(1 << 40)
	raw := rawStruct(v.s)
	doRender(out, v.kind, v.typeID, raw, floatsField(), v.s, v.acc)
}

// replay:  render <typeid> <stored value> <float table> ...   (the value is rebuilt from the stored tree)
func doRenderLine(out *Out, f []string) {
	id, err := strconv.ParseUint(f[1], 16, 64)
	must(err)
	seg := newSeg()
	p := buildRaw(seg, f[2])
	must(seg.Message().SetRoot(p))
	st := p.Struct()
	floatTable = map[string]string{}
	doRender(out, "replay", id, f[2], f[3], st, accByType(id, st))
}

// accByType: the accessor walker for a struct of a known aircraftlib type (replays).
func accByType(id uint64, s capnp.Struct) func() string {
	switch id {
	case air.Z_TypeID:
		return func() string { return accZ(air.Z{Struct: s}) }
	case air.Zdate_TypeID:
		return func() string { return accZdate(air.Zdate{Struct: s}) }
	case air.Zdata_TypeID:
		return func() string { return accZdata(air.Zdata{Struct: s}) }
	case air.PlaneBase_TypeID:
		return func() string { return accPlaneBase(air.PlaneBase{Struct: s}) }
	case air.Aircraft_TypeID:
		return func() string { return accAircraft(air.Aircraft{Struct: s}) }
	case air.Regression_TypeID:
		return func() string { return accRegression(air.Regression{Struct: s}) }
	case air.Counter_TypeID:
		return func() string { return accCounter(air.Counter{Struct: s}) }
	case air.Defaults_TypeID:
		return func() string { return accDefaults(air.Defaults{Struct: s}) }
	case air.StackingRoot_TypeID:
		return func() string { return accStackingRoot(air.StackingRoot{Struct: s}) }
	case air.VoidUnion_TypeID:
		return func() string { return accVoidUnion(air.VoidUnion{Struct: s}) }
	case air.Zjob_TypeID:
		return func() string { return accZjob(air.Zjob{Struct: s}) }
	}
	return nil
}

func genRender(out *Out, r *Rand, tier string) {
	emitSchema(out)
	// every union member of Z, each a few times, then every other root type
	reps := 6
	n := 1200
	if tier == "thorough" {
		reps = 60
		n = 40000
	}
	for k := 0; k < reps; k++ {
		for sel := 0; sel < zMembers+12; sel++ {
			renderValue(out, genValue(r, sel))
		}
	}
	for i := 0; i < n; i++ {
		renderValue(out, genValue(r, -1))
	}
	genUpgraded(out, r, tier)
	genWrongKind(out, r, tier)
	out.Close("text.Marshal and Encoder.Encode on aircraftlib values (every member of the Z union incl. group, interface and AnyPointer members and discriminants of no member; nested Z lists; PlaneBase/Regression/Aircraft/Counter/Zjob/VoidUnion; Defaults and StackingRoot with every subset of fields unset; enum ordinals out of range; Text/Data with every byte value; boundary integers; special floats) vs the model's render of the stored tree with the exported schema description; the text read back by the extracted reader vs the generated accessors' values. distinct = distinct case line; non-trivial = text longer than ()")
}
