package main

// Schema description for the model: every node of the aircraftlib schema file, read with the
// public schema package (std/capnp/schema), with the read size of every schema object that
// marshal.go dereferences (measured as the drop of the schema message's read limit).

import (
	"fmt"
	"math"
	"strconv"
	"strings"

	capnp "capnproto.org/go/capnp/v3"
	"capnproto.org/go/capnp/v3/schemas"
	"capnproto.org/go/capnp/v3/std/capnp/schema"
	"verifh/cmd/c20/aircraftlib"
	. "verifh/hc"
)

func hx64(x uint64) string { return strconv.FormatUint(x, 16) }

func sx(items ...string) string { return "(" + strings.Join(items, ",") + ")" }

type meter struct{ msg *capnp.Message }

// cost runs f and returns by how much the schema message's read limit dropped.
func (m meter) cost(f func()) string {
	before := m.msg.VerifReadLimit()
	f()
	return hx64(before - m.msg.VerifReadLimit())
}

func must(err error) {
	if err != nil {
		panic(err)
	}
}

var schemaLine string

// schemaDesc builds the description once.
func schemaDesc() string {
	if schemaLine != "" {
		return schemaLine
	}
	data := schemas.Find(aircraftlib.Z_TypeID)
	if data == nil {
		panic("aircraftlib schema not registered")
	}
	schemaLine = schemaDescOf(data)
	return schemaLine
}

// schemaDescOf describes the schema file held in data (a CodeGeneratorRequest message).
func schemaDescOf(data []byte) string {
	// what nodemap.Find does on a miss, to measure what it consumes
	msg, err := capnp.Unmarshal(data)
	must(err)
	b0 := msg.VerifReadLimit()
	req, err := schema.ReadRootCodeGeneratorRequest(msg)
	must(err)
	nodes, err := req.Nodes()
	must(err)
	for i := 0; i < nodes.Len(); i++ {
		_ = nodes.At(i).Id()
	}
	load := b0 - msg.VerifReadLimit()
	msg.ResetReadLimit(1 << 62)
	m := meter{msg}

	items := []string{"schema", hx64(load)}
	for i := 0; i < nodes.Len(); i++ {
		n := nodes.At(i)
		switch n.Which() {
		case schema.Node_Which_structNode:
			sn := n.StructNode()
			var fl schema.Field_List
			fcost := m.cost(func() { fl, err = sn.Fields(); must(err) })
			fields := make([]schema.Field, fl.Len())
			seen := make([]bool, fl.Len())
			for j := 0; j < fl.Len(); j++ {
				f := fl.At(j)
				co := int(f.CodeOrder())
				if co >= len(fields) || seen[co] {
					panic("code order is not a permutation")
				}
				seen[co] = true
				fields[co] = f
			}
			it := []string{"S", hx64(n.Id()), hx64(uint64(sn.DiscriminantCount())), hx64(uint64(sn.DiscriminantOffset())), fcost}
			for _, f := range fields {
				it = append(it, fieldDesc(m, f))
			}
			items = append(items, sx(it...))
		case schema.Node_Which_enum:
			var el schema.Enumerant_List
			ecost := m.cost(func() { el, err = n.Enum().Enumerants(); must(err) })
			it := []string{"E", hx64(n.Id()), ecost}
			for j := 0; j < el.Len(); j++ {
				var name []byte
				nc := m.cost(func() { name, err = el.At(j).NameBytes(); must(err) })
				it = append(it, sx(Hx(name), nc))
			}
			items = append(items, sx(it...))
		default:
			items = append(items, sx("O", hx64(n.Id())))
		}
	}
	return "schema " + sx(items...)
}

func fieldDesc(m meter, f schema.Field) string {
	var name []byte
	var err error
	ncost := m.cost(func() { name, err = f.NameBytes(); must(err) })
	kind := sx("other")
	switch f.Which() {
	case schema.Field_Which_group:
		kind = sx("group", hx64(f.Group().TypeId()))
	case schema.Field_Which_slot:
		var typ schema.Type
		var dv schema.Value
		tcost := m.cost(func() { typ, err = f.Slot().Type(); must(err) })
		dvcost := m.cost(func() { dv, err = f.Slot().DefaultValue(); must(err) })
		var dflt uint64
		dptr := "n"
		dpcost := "0"
		switch typ.Which() {
		case schema.Type_Which_bool:
			if dv.Bool() {
				dflt = 1
			}
		case schema.Type_Which_int8:
			dflt = uint64(uint8(dv.Int8()))
		case schema.Type_Which_int16:
			dflt = uint64(uint16(dv.Int16()))
		case schema.Type_Which_int32:
			dflt = uint64(uint32(dv.Int32()))
		case schema.Type_Which_int64:
			dflt = uint64(dv.Int64())
		case schema.Type_Which_uint8:
			dflt = uint64(dv.Uint8())
		case schema.Type_Which_uint16:
			dflt = uint64(dv.Uint16())
		case schema.Type_Which_uint32:
			dflt = uint64(dv.Uint32())
		case schema.Type_Which_uint64:
			dflt = dv.Uint64()
		case schema.Type_Which_float32:
			dflt = uint64(math.Float32bits(dv.Float32()))
		case schema.Type_Which_float64:
			dflt = math.Float64bits(dv.Float64())
		case schema.Type_Which_enum:
			dflt = uint64(dv.Enum())
		case schema.Type_Which_structType:
			var p capnp.Ptr
			dpcost = m.cost(func() { p, _ = dv.StructValue() })
			dptr = rawPtr(p)
		case schema.Type_Which_list:
			var p capnp.Ptr
			dpcost = m.cost(func() { p, _ = dv.List() })
			dptr = rawPtr(p)
		case schema.Type_Which_text, schema.Type_Which_data:
			// both dv.Data() and dv.TextBytes() read pointer 0 of the Value struct
			var p capnp.Ptr
			dpcost = m.cost(func() { p, _ = dv.Struct.Ptr(0) })
			dptr = rawPtr(p)
		}
		kind = sx("slot", hx64(uint64(f.Slot().Offset())), typeDesc(m, typ), hx64(dflt), dptr, tcost, dvcost, dpcost)
	}
	return sx("F", Hx(name), ncost, hx64(uint64(f.DiscriminantValue())), kind)
}

func typeDesc(m meter, t schema.Type) string {
	switch t.Which() {
	case schema.Type_Which_void:
		return "void"
	case schema.Type_Which_bool:
		return "bool"
	case schema.Type_Which_int8:
		return sx("int", "8")
	case schema.Type_Which_int16:
		return sx("int", "10")
	case schema.Type_Which_int32:
		return sx("int", "20")
	case schema.Type_Which_int64:
		return sx("int", "40")
	case schema.Type_Which_uint8:
		return sx("uint", "8")
	case schema.Type_Which_uint16:
		return sx("uint", "10")
	case schema.Type_Which_uint32:
		return sx("uint", "20")
	case schema.Type_Which_uint64:
		return sx("uint", "40")
	case schema.Type_Which_float32:
		return sx("float", "20")
	case schema.Type_Which_float64:
		return sx("float", "40")
	case schema.Type_Which_text:
		return "text"
	case schema.Type_Which_data:
		return "data"
	case schema.Type_Which_list:
		var e schema.Type
		var err error
		c := m.cost(func() { e, err = t.List().ElementType(); must(err) })
		return sx("list", c, typeDesc(m, e))
	case schema.Type_Which_enum:
		return sx("enum", hx64(t.Enum().TypeId()))
	case schema.Type_Which_structType:
		return sx("struct", hx64(t.StructType().TypeId()))
	case schema.Type_Which_interface:
		return "iface"
	case schema.Type_Which_anyPointer:
		return "any"
	}
	panic(fmt.Sprint("unknown type ", t.Which()))
}

// ---------------------------------------------------------------- value trees as stored

func rawPtr(p capnp.Ptr) string {
	if !p.IsValid() {
		return "n"
	}
	if s := p.Struct(); s.IsValid() {
		return rawStruct(s)
	}
	if l := p.List(); l.IsValid() {
		return rawList(l)
	}
	return "c"
}

func rawStruct(s capnp.Struct) string {
	sz := s.Size()
	data := make([]byte, sz.DataSize)
	for i := range data {
		data[i] = s.Uint8(capnp.DataOffset(i))
	}
	it := []string{"s", Hx(data)}
	for i := 0; i < int(sz.PointerCount); i++ {
		p, err := s.Ptr(i16(i))
		must(err)
		it = append(it, rawPtr(p))
	}
	return sx(it...)
}

func i16(i int) uint16 { return uint16(i) }

func rawList(l capnp.List) string {
	ds, pc, bit, comp := capnp.VerifListInfo(l)
	n := l.Len()
	switch {
	case bit:
		it := []string{"p", "1"}
		bl := capnp.BitList{List: l}
		for i := 0; i < n; i++ {
			if bl.At(i) {
				it = append(it, "1")
			} else {
				it = append(it, "0")
			}
		}
		return sx(it...)
	case comp:
		it := []string{"C"}
		for i := 0; i < n; i++ {
			it = append(it, rawStruct(l.Struct(i)))
		}
		return sx(it...)
	case pc == 1 && ds == 0:
		it := []string{"l"}
		for i := 0; i < n; i++ {
			p, err := capnp.PointerList{List: l}.At(i)
			must(err)
			it = append(it, rawPtr(p))
		}
		return sx(it...)
	case pc == 0 && ds == 1:
		b := make([]byte, n)
		for i := range b {
			b[i] = l.Struct(i).Uint8(0)
		}
		return sx("b", Hx(b))
	case pc == 0 && (ds == 0 || ds == 2 || ds == 4 || ds == 8):
		it := []string{"p", hx64(uint64(ds) * 8)}
		for i := 0; i < n; i++ {
			e := l.Struct(i)
			switch ds {
			case 0:
				it = append(it, "0")
			case 2:
				it = append(it, hx64(uint64(e.Uint16(0))))
			case 4:
				it = append(it, hx64(uint64(e.Uint32(0))))
			case 8:
				it = append(it, hx64(e.Uint64(0)))
			}
		}
		return sx(it...)
	}
	panic(fmt.Sprintf("list layout %d/%d not exported", ds, pc))
}
