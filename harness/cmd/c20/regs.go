package main

// Histories with Encoder.UseRegistry: several revisions of one schema (same type ids) in
// private registries; one Encoder is switched between them between Encodes; every Encode is
// compared with a fresh Encoder pointed at the same registry, and with the model.
//
//	V1: P { key :Text; num :Int32; q :Q }   Q { x :UInt8 }
//	V2: P { name :Text; num :Int32; q :Q; extra :UInt16 }   Q { y :UInt8 }      (renamed fields, one added)
//	V3: Q { x :UInt8 }                                                             (P removed)
//	V4: the same description as V1 in another registry

import (
	"bytes"
	"fmt"
	"strconv"
	"strings"

	capnp "capnproto.org/go/capnp/v3"
	"capnproto.org/go/capnp/v3/encoding/text"
	"capnproto.org/go/capnp/v3/schemas"
	"capnproto.org/go/capnp/v3/std/capnp/schema"
	. "verifh/hc"
)

const (
	regP = 0xb000000000000001
	regQ = 0xb000000000000002
)

type regVersion struct {
	key  string
	data []byte
	reg  *schemas.Registry
	desc string
}

var regVersions map[string]*regVersion
var regKeys = []string{"V1", "V2", "V3", "V4"}

func regBuild() {
	if regVersions != nil {
		return
	}
	regVersions = map[string]*regVersion{}
	text := func(t schema.Type) { t.SetText() }
	i32 := func(t schema.Type) { t.SetInt32() }
	u8 := func(t schema.Type) { t.SetUint8() }
	u16 := func(t schema.Type) { t.SetUint16() }
	p1 := recType{regP, []recField{{name: "key", set: text, isPtr: true}, {name: "num", set: i32}, {name: "q", off: 1, set: structT(regQ), isPtr: true}}}
	p2 := recType{regP, []recField{{name: "name", set: text, isPtr: true}, {name: "num", set: i32}, {name: "q", off: 1, set: structT(regQ), isPtr: true}, {name: "extra", off: 2, set: u16}}}
	q1 := recType{regQ, []recField{{name: "x", set: u8}}}
	q2 := recType{regQ, []recField{{name: "y", set: u8}}}
	for _, v := range []struct {
		key   string
		types []recType
	}{{"V1", []recType{p1, q1}}, {"V2", []recType{p2, q2}}, {"V3", []recType{q1}}, {"V4", []recType{p1, q1}}} {
		data, ids := buildSchemaBytes(v.types)
		reg := new(schemas.Registry)
		must(reg.Register(&schemas.Schema{Bytes: data, Nodes: ids}))
		regVersions[v.key] = &regVersion{key: v.key, data: data, reg: reg, desc: strings.TrimPrefix(schemaDescOf(data), "schema ")}
	}
}

var regDefsEmitted = false

// the model driver keeps the versions in a table:  schemadef <key> <description>
func emitRegDefs(out *Out) {
	regBuild()
	if regDefsEmitted {
		return
	}
	regDefsEmitted = true
	for _, k := range regKeys {
		out.Case("schemadef", "schemadef "+k+" "+regVersions[k].desc, "ok "+k, "ok", false)
	}
}

func regEncode(enc *text.Encoder, buf *bytes.Buffer, id uint64, raw string, list bool) string {
	return Safely(func() string {
		seg := newSeg()
		p := buildRaw(seg, raw)
		must(seg.Message().SetRoot(p))
		buf.Reset()
		var err error
		if list {
			err = enc.EncodeList(id, p.List())
		} else {
			err = enc.Encode(id, p.Struct())
		}
		if err != nil {
			return "err"
		}
		return "ok:" + Hx(buf.Bytes())
	})
}

// doRegHist: case  reghist <op>;<op>;...   with ops  u:<version>  and  e:<typeid>:<stored value>
// observation: for every e op  used=<obs>,fresh=<obs>  (the encoder with the history, a fresh one)
func doRegHist(out *Out, script string) {
	emitRegDefs(out)
	var obs []string
	nEnc, nUse := 0, 0
	res := Safely(func() string {
		var buf bytes.Buffer
		enc := text.NewEncoder(&buf)
		var cur *regVersion
		for _, op := range strings.Split(script, ";") {
			f := strings.SplitN(op, ":", 3)
			switch f[0] {
			case "u":
				cur = regVersions[f[1]]
				enc.UseRegistry(cur.reg)
				nUse++
			case "e", "l": // Encode / EncodeList
				id, err := strconv.ParseUint(f[1], 16, 64)
				must(err)
				used := regEncode(enc, &buf, id, f[2], f[0] == "l")
				var fb bytes.Buffer
				fe := text.NewEncoder(&fb)
				fe.UseRegistry(cur.reg)
				fresh := regEncode(fe, &fb, id, f[2], f[0] == "l")
				obs = append(obs, "used="+used+",fresh="+fresh)
				nEnc++
			default:
				panic("bad op " + op)
			}
		}
		return "ok " + strings.Join(obs, ";")
	})
	out.Case("reghist", "reghist "+script, res, Cls(res), nEnc > 1 && nUse > 1)
}

func doRegHistLine(out *Out, f []string) { doRegHist(out, f[1]) }

func genRegValue(r *Rand, id uint64) string {
	d8 := func() string {
		b := make([]byte, 8)
		for i := 0; i < 6; i++ {
			if r.Bool() {
				b[i] = byte(r.U64())
			}
		}
		return Hx(b)
	}
	if id == regQ {
		return sx("s", d8())
	}
	key := "n"
	if r.Intn(4) > 0 {
		key = sx("b", Hx(append(randBytes(r, r.Intn(6)), 0)))
	}
	q := "n"
	if r.Bool() {
		q = sx("s", d8())
	}
	return sx("s", d8(), key, q)
}

func genRegHist(out *Out, r *Rand, tier string) {
	emitRegDefs(out)
	// the two shortest histories first: revision with a renamed field; type removed
	v := "(s,0700000000000000,(b,6100),n)"
	doRegHist(out, fmt.Sprintf("u:V1;e:%x:%s;u:V2;e:%x:%s", uint64(regP), v, uint64(regP), v))
	doRegHist(out, fmt.Sprintf("u:V1;e:%x:%s;u:V3;e:%x:%s", uint64(regP), v, uint64(regP), v))
	doRegHist(out, fmt.Sprintf("u:V2;e:%x:%s;u:V1;e:%x:%s;u:V2;e:%x:%s", uint64(regP), v, uint64(regP), v, uint64(regP), v))
	// EncodeList of one element type, then of another, on one encoder
	lp, lq := "(C,"+v+","+v+")", "(C,(s,0900000000000000),(s,0a00000000000000))"
	doRegHist(out, fmt.Sprintf("u:V1;l:%x:%s;l:%x:%s;l:%x:%s", uint64(regP), lp, uint64(regQ), lq, uint64(regP), lp))
	doRegHist(out, fmt.Sprintf("u:V1;l:%x:%s;e:%x:%s;l:%x:%s", uint64(regQ), lq, uint64(regP), v, uint64(regP), lp))
	n := 120
	if tier == "thorough" {
		n = 3000
	}
	for i := 0; i < n; i++ {
		ops := []string{"u:" + regKeys[r.Intn(len(regKeys))]}
		for k := 1 + r.Intn(7); k > 0; k-- {
			if r.Intn(3) == 0 {
				ops = append(ops, "u:"+regKeys[r.Intn(len(regKeys))])
				continue
			}
			id := uint64(regP)
			if r.Intn(3) == 0 {
				id = regQ
			}
			if r.Intn(3) == 0 { // EncodeList of 0..3 elements (all of one size: a composite list)
				it := []string{"C"}
				shape := id
				if id == regP && r.Intn(3) == 0 {
					shape = regQ // a P list whose elements have no pointer section
				}
				for n := r.Intn(4); n > 0; n-- {
					it = append(it, genRegValue(r, shape)) // all elements of one size
				}
				ops = append(ops, fmt.Sprintf("l:%x:%s", id, sx(it...)))
				continue
			}
			ops = append(ops, fmt.Sprintf("e:%x:%s", id, genRegValue(r, id)))
		}
		doRegHist(out, strings.Join(ops, ";"))
	}
}

var _ = capnp.Ptr{}
