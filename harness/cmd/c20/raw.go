package main

// Rebuilding a message from an exported value tree (for replays).

import (
	"strconv"

	capnp "capnproto.org/go/capnp/v3"
	. "verifh/hc"
)

type sexp struct {
	atom  string
	items []*sexp
	list  bool
}

func parseSexp(s string) *sexp {
	pos := 0
	var item func() *sexp
	item = func() *sexp {
		if pos < len(s) && s[pos] == '(' {
			pos++
			e := &sexp{list: true}
			if pos < len(s) && s[pos] == ')' {
				pos++
				return e
			}
			for {
				e.items = append(e.items, item())
				if pos < len(s) && s[pos] == ',' {
					pos++
					continue
				}
				if pos < len(s) && s[pos] == ')' {
					pos++
					return e
				}
				panic("bad s-expression")
			}
		}
		st := pos
		for pos < len(s) && s[pos] != ',' && s[pos] != ')' && s[pos] != '(' {
			pos++
		}
		return &sexp{atom: s[st:pos]}
	}
	e := item()
	if pos != len(s) {
		panic("trailing input in s-expression")
	}
	return e
}

func (e *sexp) num() uint64 {
	x, err := strconv.ParseUint(e.atom, 16, 64)
	must(err)
	return x
}

func buildRaw(seg *capnp.Segment, s string) capnp.Ptr { return buildPtr(seg, parseSexp(s)) }

func buildPtr(seg *capnp.Segment, e *sexp) capnp.Ptr {
	if !e.list {
		switch e.atom {
		case "n":
			return capnp.Ptr{}
		case "c":
			id := seg.Message().AddCap(capnp.ErrorClient(errNoCap))
			return capnp.NewInterface(seg, id).ToPtr()
		}
		panic("bad value " + e.atom)
	}
	switch e.items[0].atom {
	case "s":
		data := Unhx(e.items[1].atom)
		st, err := capnp.NewStruct(seg, capnp.ObjectSize{DataSize: capnp.Size(len(data)), PointerCount: uint16(len(e.items) - 2)})
		must(err)
		fillStruct(seg, st, e)
		return st.ToPtr()
	case "b":
		d, err := capnp.NewData(seg, Unhx(e.items[1].atom))
		must(err)
		return d.ToPtr()
	case "p":
		w := e.items[1].num()
		xs := e.items[2:]
		n := int32(len(xs))
		switch w {
		case 0:
			return capnp.NewVoidList(seg, n).ToPtr()
		case 1:
			l, err := capnp.NewBitList(seg, n)
			must(err)
			for i, x := range xs {
				l.Set(i, x.num() != 0)
			}
			return l.ToPtr()
		case 8:
			l, err := capnp.NewUInt8List(seg, n)
			must(err)
			for i, x := range xs {
				l.Set(i, uint8(x.num()))
			}
			return l.ToPtr()
		case 16:
			l, err := capnp.NewUInt16List(seg, n)
			must(err)
			for i, x := range xs {
				l.Set(i, uint16(x.num()))
			}
			return l.ToPtr()
		case 32:
			l, err := capnp.NewUInt32List(seg, n)
			must(err)
			for i, x := range xs {
				l.Set(i, uint32(x.num()))
			}
			return l.ToPtr()
		case 64:
			l, err := capnp.NewUInt64List(seg, n)
			must(err)
			for i, x := range xs {
				l.Set(i, x.num())
			}
			return l.ToPtr()
		}
		panic("bad width")
	case "C": // composite list: all elements (s,data,ptrs...) of one size
		xs := e.items[1:]
		var sz capnp.ObjectSize
		if len(xs) > 0 {
			sz = capnp.ObjectSize{DataSize: capnp.Size(len(Unhx(xs[0].items[1].atom))), PointerCount: uint16(len(xs[0].items) - 2)}
		}
		l, err := capnp.NewCompositeList(seg, sz, int32(len(xs)))
		must(err)
		for i, x := range xs {
			fillStruct(seg, l.Struct(i), x)
		}
		return l.ToPtr()
	case "l":
		xs := e.items[1:]
		composite := len(xs) > 0
		var sz capnp.ObjectSize
		for i, x := range xs {
			if !x.list || x.items[0].atom != "s" {
				composite = false
				break
			}
			cur := capnp.ObjectSize{DataSize: capnp.Size(len(Unhx(x.items[1].atom))), PointerCount: uint16(len(x.items) - 2)}
			if i > 0 && cur != sz {
				composite = false
				break
			}
			sz = cur
		}
		if composite {
			l, err := capnp.NewCompositeList(seg, sz, int32(len(xs)))
			must(err)
			for i, x := range xs {
				fillStruct(seg, l.Struct(i), x)
			}
			return l.ToPtr()
		}
		l, err := capnp.NewPointerList(seg, int32(len(xs)))
		must(err)
		for i, x := range xs {
			must(l.Set(i, buildPtr(seg, x)))
		}
		return l.ToPtr()
	}
	panic("bad value tree")
}

func fillStruct(seg *capnp.Segment, st capnp.Struct, e *sexp) {
	data := Unhx(e.items[1].atom)
	for i, b := range data {
		st.SetUint8(capnp.DataOffset(i), b)
	}
	for i, pe := range e.items[2:] {
		must(st.SetPtr(uint16(i), buildPtr(seg, pe)))
	}
}
