package main

// Foreign-encoded inputs: every list kind encoded as a COMPOSITE list (list upgrade) with
// assorted element sizes, with and without pointer sections.  (a) text.Marshal of structs whose
// list fields are encoded that way, against the model and the generated accessors; (b) the
// standalone String() methods of the typed lists in list.go, against the model's shown_list
// and the typed accessors At(i).

import (
	"fmt"
	"strings"

	capnp "capnproto.org/go/capnp/v3"
	air "verifh/cmd/c20/aircraftlib"
	. "verifh/hc"
)

type listKind struct {
	key     string // model type key
	pointer bool   // elements are pointers (Text, Data, lists): the element needs a pointer section
	elem    func(r *Rand) string
}

func rawText(r *Rand) string {
	if r.Intn(6) == 0 {
		return "n"
	}
	return sx("b", Hx(append(randBytes(r, r.Intn(6)), 0)))
}
func rawData(r *Rand) string {
	if r.Intn(6) == 0 {
		return "n"
	}
	return sx("b", Hx(randBytes(r, r.Intn(6))))
}

var listKinds = []listKind{
	{"void", false, nil}, {"bool", false, nil},
	{"(int,8)", false, nil}, {"(int,10)", false, nil}, {"(int,20)", false, nil}, {"(int,40)", false, nil},
	{"(uint,8)", false, nil}, {"(uint,10)", false, nil}, {"(uint,20)", false, nil}, {"(uint,40)", false, nil},
	{"text", true, rawText}, {"data", true, rawData},
}

// compositeOf builds (C, elem, ...): n elements with dw data words and pc pointers; the first
// pointer is produced by first (when pc > 0), the other words are random.
func compositeOf(r *Rand, n, dw, pc int, first func(r *Rand) string) string {
	it := []string{"C"}
	for i := 0; i < n; i++ {
		data := make([]byte, 8*dw)
		for j := range data {
			if r.Intn(3) > 0 {
				data[j] = byte(r.U64())
			}
		}
		e := []string{"s", Hx(data)}
		for k := 0; k < pc; k++ {
			switch {
			case k == 0 && first != nil:
				e = append(e, first(r))
			case r.Bool():
				e = append(e, sx("b", Hx(randBytes(r, 3)))) // something else behind the later pointers
			default:
				e = append(e, "n")
			}
		}
		it = append(it, sx(e...))
	}
	return sx(it...)
}

func genUpgradedList(r *Rand, k listKind) string {
	n := r.Intn(5)
	if r.Intn(3) == 0 {
		n = 2 + r.Intn(3)
	}
	dw := r.Intn(4)
	pc := r.Intn(3)
	if k.pointer && pc == 0 {
		pc = 1 + r.Intn(2)
	}
	if dw == 0 && pc == 0 {
		dw = 1
	}
	return compositeOf(r, n, dw, pc, k.elem)
}

// ---- (b) standalone String()

func listString(key string, l capnp.List) (str string, acc string) {
	n := l.Len()
	var xs []string
	switch key {
	case "void":
		str = capnp.VoidList{List: l}.String()
		for i := 0; i < n; i++ {
			xs = append(xs, "v")
		}
	case "bool":
		t := capnp.BitList{List: l}
		str = t.String()
		for i := 0; i < n; i++ {
			xs = append(xs, tvBool(t.At(i)))
		}
	case "(int,8)":
		t := capnp.Int8List{List: l}
		str = t.String()
		for i := 0; i < n; i++ {
			xs = append(xs, tvInt(int64(t.At(i))))
		}
	case "(int,10)":
		t := capnp.Int16List{List: l}
		str = t.String()
		for i := 0; i < n; i++ {
			xs = append(xs, tvInt(int64(t.At(i))))
		}
	case "(int,20)":
		t := capnp.Int32List{List: l}
		str = t.String()
		for i := 0; i < n; i++ {
			xs = append(xs, tvInt(int64(t.At(i))))
		}
	case "(int,40)":
		t := capnp.Int64List{List: l}
		str = t.String()
		for i := 0; i < n; i++ {
			xs = append(xs, tvInt(t.At(i)))
		}
	case "(uint,8)":
		t := capnp.UInt8List{List: l}
		str = t.String()
		for i := 0; i < n; i++ {
			xs = append(xs, tvUint(uint64(t.At(i))))
		}
	case "(uint,10)":
		t := capnp.UInt16List{List: l}
		str = t.String()
		for i := 0; i < n; i++ {
			xs = append(xs, tvUint(uint64(t.At(i))))
		}
	case "(uint,20)":
		t := capnp.UInt32List{List: l}
		str = t.String()
		for i := 0; i < n; i++ {
			xs = append(xs, tvUint(uint64(t.At(i))))
		}
	case "(uint,40)":
		t := capnp.UInt64List{List: l}
		str = t.String()
		for i := 0; i < n; i++ {
			xs = append(xs, tvUint(t.At(i)))
		}
	case "text":
		t := capnp.TextList{List: l}
		str = t.String()
		for i := 0; i < n; i++ {
			b, err := t.BytesAt(i)
			must(err)
			xs = append(xs, tvStr(b))
		}
	case "data":
		t := capnp.DataList{List: l}
		str = t.String()
		for i := 0; i < n; i++ {
			b, err := t.At(i)
			must(err)
			xs = append(xs, tvStr(b))
		}
	default:
		panic("list kind " + key)
	}
	return str, tvList(xs)
}

// case  liststr <kind> <stored list> <text produced>;  observation  ok <text> <accessor values>
func doListStr(out *Out, key, raw string) {
	emitSchema(out)
	var txt string
	res := Safely(func() string {
		seg := newSeg()
		p := buildRaw(seg, raw)
		must(seg.Message().SetRoot(p)) // through the message: the list is read back from its pointer
		rp, err := seg.Message().Root()
		must(err)
		var acc string
		txt, acc = listString(key, rp.List())
		return "ok " + Hx([]byte(txt)) + " " + acc
	})
	out.Case("liststr/"+key, fmt.Sprintf("liststr %s %s %s", key, raw, Hx([]byte(txt))), res, Cls(res), len(txt) > 2)
}

func doListStrLine(out *Out, f []string) { doListStr(out, f[1], f[2]) }

// ---- (a) structs with upgraded list fields

func zWith(which int) func(string) string {
	return func(list string) string {
		d := make([]byte, 24)
		d[0], d[1] = byte(which), byte(which>>8)
		return sx("s", Hx(d), list)
	}
}

func kindIdx(key string) listKind {
	for _, k := range listKinds {
		if k.key == key {
			return k
		}
	}
	panic(key)
}

func genUpgraded(out *Out, r *Rand, tier string) {
	fields := []struct {
		typeID uint64
		wrap   func(string) string
		k      listKind
	}{
		{air.Z_TypeID, zWith(int(air.Z_Which_i64vec)), kindIdx("(int,40)")},
		{air.Z_TypeID, zWith(int(air.Z_Which_i32vec)), kindIdx("(int,20)")},
		{air.Z_TypeID, zWith(int(air.Z_Which_i16vec)), kindIdx("(int,10)")},
		{air.Z_TypeID, zWith(int(air.Z_Which_i8vec)), kindIdx("(int,8)")},
		{air.Z_TypeID, zWith(int(air.Z_Which_u64vec)), kindIdx("(uint,40)")},
		{air.Z_TypeID, zWith(int(air.Z_Which_u32vec)), kindIdx("(uint,20)")},
		{air.Z_TypeID, zWith(int(air.Z_Which_u16vec)), kindIdx("(uint,10)")},
		{air.Z_TypeID, zWith(int(air.Z_Which_u8vec)), kindIdx("(uint,8)")},
		{air.Z_TypeID, zWith(int(air.Z_Which_boolvec)), kindIdx("bool")},
		{air.Z_TypeID, zWith(int(air.Z_Which_textvec)), kindIdx("text")},
		{air.Z_TypeID, zWith(int(air.Z_Which_datavec)), kindIdx("data")},
		{air.Z_TypeID, zWith(int(air.Z_Which_f64vec)), listKind{"f64", false, nil}},
		// List(List(Z)): the outer list upgraded, inner lists ordinary struct lists
		{air.Z_TypeID, zWith(int(air.Z_Which_zvecvec)), listKind{"zvecvec", true, func(r *Rand) string {
			if r.Intn(4) == 0 {
				return "n"
			}
			it := []string{"C"}
			for k := r.Intn(3); k > 0; k-- {
				it = append(it, zWith(int(air.Z_Which_u8))("n"))
			}
			return sx(it...)
		}}},
		// PlaneBase.homes :List(Airport) upgraded (enum list), name unset
		{air.PlaneBase_TypeID, func(list string) string { return sx("s", Hx(make([]byte, 32)), "n", list) }, kindIdx("(uint,10)")},
		// Counter.wordlist :List(Text) upgraded
		{air.Counter_TypeID, func(list string) string { return sx("s", Hx(make([]byte, 8)), "n", list, "n") }, kindIdx("text")},
		// Counter.bitlist :List(Bool) upgraded (BitList.At is false on a non-bit list)
		{air.Counter_TypeID, func(list string) string { return sx("s", Hx(make([]byte, 8)), "n", "n", list) }, kindIdx("bool")},
	}
	reps := 3
	if tier == "thorough" {
		reps = 60
	}
	for k := 0; k < reps; k++ {
		for _, fd := range fields {
			raw := fd.wrap(genUpgradedList(r, fd.k))
			seg := newSeg()
			p := buildRaw(seg, raw)
			must(seg.Message().SetRoot(p))
			rp, err := seg.Message().Root()
			must(err)
			st := rp.Struct()
			renderValue(out, value{"upgraded/" + strings.Trim(fd.k.key, "()"), fd.typeID, st, accByType(fd.typeID, st)})
		}
		for _, lk := range listKinds {
			doListStr(out, lk.key, genUpgradedList(r, lk))
			// and the ordinary encodings through the same path
			doListStr(out, lk.key, genPlainList(r, lk))
		}
	}
}

func genPlainList(r *Rand, k listKind) string {
	n := r.Intn(5)
	switch k.key {
	case "void":
		it := []string{"p", "0"}
		for i := 0; i < n; i++ {
			it = append(it, "0")
		}
		return sx(it...)
	case "bool":
		it := []string{"p", "1"}
		for i := 0; i < n+r.Intn(12); i++ {
			it = append(it, fmt.Sprint(r.Intn(2)))
		}
		return sx(it...)
	case "text", "data":
		it := []string{"l"}
		for i := 0; i < n; i++ {
			it = append(it, k.elem(r))
		}
		return sx(it...)
	}
	bits := map[string]uint{"8": 8, "10": 16, "20": 32, "40": 64}[strings.TrimSuffix(strings.SplitN(k.key, ",", 2)[1], ")")]
	if bits == 8 {
		return sx("b", Hx(randBytes(r, n)))
	}
	it := []string{"p", fmt.Sprintf("%x", bits)}
	for i := 0; i < n; i++ {
		it = append(it, fmt.Sprintf("%x", r.U64()>>(64-bits)))
	}
	return sx(it...)
}
