package main

// Foreign-encoded messages whose pointers are of the WRONG KIND for the field (a struct where
// a list / text is expected, a list of another element size, a capability, a byte list without
// the NUL terminator in a Text slot), directly and behind far pointers.  The generated
// accessors (Ptr.TextDefault / DataDefault / StructDefault / ListDefault, p.Struct(), p.List())
// treat such a pointer like a null pointer: the text form must show what the accessors return.

import (
	"fmt"

	capnp "capnproto.org/go/capnp/v3"
	air "verifh/cmd/c20/aircraftlib"
	. "verifh/hc"
)

// a pointer of some kind, as a stored tree
func anyPtrRaw(r *Rand) string {
	switch r.Intn(9) {
	case 0:
		return "n"
	case 1:
		return "c"
	case 2:
		return sx("s", Hx(randBytes(r, 8)))
	case 3:
		return sx("s", "-", sx("b", Hx(append(randBytes(r, 3), 0))))
	case 4:
		return sx("b", Hx(append(randBytes(r, r.Intn(5)), 0))) // a text
	case 5:
		return sx("b", Hx(append(randBytes(r, r.Intn(5)), byte(1+r.Intn(255))))) // byte list without NUL
	case 6:
		return sx("p", "40", fmt.Sprintf("%x", r.U64()), "7")
	case 7:
		return sx("l", sx("b", "6100"), "n")
	default:
		return sx("C", sx("s", Hx(randBytes(r, 8)), "n"), sx("s", Hx(randBytes(r, 8)), sx("b", "7a00")))
	}
}

func genWrongKind(out *Out, r *Rand, tier string) {
	type shape struct {
		typeID uint64
		build  func(r *Rand) string
	}
	zPrimLists := []air.Z_Which{air.Z_Which_i64vec, air.Z_Which_i32vec, air.Z_Which_i16vec, air.Z_Which_i8vec, air.Z_Which_u64vec,
		air.Z_Which_u32vec, air.Z_Which_u16vec, air.Z_Which_u8vec, air.Z_Which_boolvec}
	zStructs := []air.Z_Which{air.Z_Which_zz, air.Z_Which_zdate, air.Z_Which_zdata, air.Z_Which_planebase, air.Z_Which_aircraft, air.Z_Which_b737}
	// pointer-element / struct-element list fields take only non-list wrong kinds (a primitive list
	// there makes TextList.String write <error> / is outside the model)
	nonList := func(r *Rand) string {
		return []string{"n", "c", sx("s", Hx(randBytes(r, 8))), sx("s", "-", sx("b", "6100"))}[r.Intn(4)]
	}
	shapes := []shape{
		// Defaults: text = "foo", data = "bar"
		{air.Defaults_TypeID, func(r *Rand) string { return sx("s", Hx(make([]byte, 16)), anyPtrRaw(r), anyPtrRaw(r)) }},
		// StackingRoot: aWithDefault = (num = 42) at pointer 0, a at pointer 1
		{air.StackingRoot_TypeID, func(r *Rand) string { return sx("s", "-", anyPtrRaw(r), anyPtrRaw(r)) }},
		// Z: text, blob
		{air.Z_TypeID, func(r *Rand) string { return zWith(int(air.Z_Which_text))(anyPtrRaw(r)) }},
		{air.Z_TypeID, func(r *Rand) string { return zWith(int(air.Z_Which_blob))(anyPtrRaw(r)) }},
		// Z: struct-typed members
		{air.Z_TypeID, func(r *Rand) string { return zWith(int(zStructs[r.Intn(len(zStructs))]))(anyPtrRaw(r)) }},
		// Z: primitive list members holding any pointer (lists of another element size read as zeros)
		{air.Z_TypeID, func(r *Rand) string { return zWith(int(zPrimLists[r.Intn(len(zPrimLists))]))(anyPtrRaw(r)) }},
		{air.Z_TypeID, func(r *Rand) string { return zWith(int(air.Z_Which_textvec))(nonList(r)) }},
		{air.Z_TypeID, func(r *Rand) string { return zWith(int(air.Z_Which_zvec))(nonList(r)) }},
		{air.Z_TypeID, func(r *Rand) string { return zWith(int(air.Z_Which_zvecvec))(nonList(r)) }},
		// PlaneBase: name (Text), homes (enum list)
		{air.PlaneBase_TypeID, func(r *Rand) string { return sx("s", Hx(make([]byte, 32)), anyPtrRaw(r), anyPtrRaw(r)) }},
		// Counter: words (Text), wordlist, bitlist
		{air.Counter_TypeID, func(r *Rand) string { return sx("s", Hx(make([]byte, 8)), anyPtrRaw(r), nonList(r), anyPtrRaw(r)) }},
	}
	reps := 12
	if tier == "thorough" {
		reps = 300
	}
	for k := 0; k < reps; k++ {
		for _, sh := range shapes {
			raw := sh.build(r)
			// half of the values in an arena with a small first segment: the wrong-kind targets sit
			// behind far pointers
			if k%2 == 1 {
				arenaHook = func() capnp.Arena {
					return capnp.MultiSegment([][]byte{make([]byte, 0, 8*(2+r.Intn(4)))})
				}
			}
			seg := newSeg()
			arenaHook = nil
			p := buildRaw(seg, raw)
			must(seg.Message().SetRoot(p))
			rp, err := seg.Message().Root()
			must(err)
			st := rp.Struct()
			renderValue(out, value{"wrongkind", sh.typeID, st, accByType(sh.typeID, st)})
		}
	}
}
