package main

// part hostile (C01/C02 for the text renderer): text.Marshal / MarshalList on hostile messages
// typed as aircraftlib structs: valid typed values with tiny limits, mutated typed values,
// arbitrary pointer-shaped words, cyclic pointer graphs, lists with huge counts, far and
// double-far pointers; segments have cap == len (any over-read panics).  Observation:
// "safe" (rendered or returned an error, output within the bound derived from T), else
// "panic" / "hang" / "toolong".  The class (ok / err and the length class) goes to the statistics.

import (
	"fmt"
	"strconv"
	"strings"
	"time"

	capnp "capnproto.org/go/capnp/v3"
	"capnproto.org/go/capnp/v3/encoding/text"
	air "verifh/cmd/c20/aircraftlib"
	. "verifh/hc"
	"verifh/rd"
)

const defaultT = 64 << 20

// outBound: every list element / byte of the message that is rendered has been charged to the
// traversal budget (at least 8 bytes per zero-sized element, 1 byte per byte-list element
// rendered as at most \xHH or "-128, "), and one struct element of 8 charged bytes renders as
// at most the all-default text of the largest aircraftlib struct (a few hundred bytes).
func outBound(t uint64, d uint) uint64 {
	if t == 0 {
		t = defaultT
	}
	if d == 0 {
		d = 64
	}
	return 128*t + 4096*uint64(d+1) + 65536
}

var hostileTypes = []uint64{
	air.Z_TypeID, air.Z_TypeID, air.Z_TypeID, air.Regression_TypeID, air.PlaneBase_TypeID, air.Aircraft_TypeID,
	air.Counter_TypeID, air.Defaults_TypeID, air.StackingRoot_TypeID, air.Zjob_TypeID, air.Zdate_TypeID,
	air.Zdata_TypeID, air.VoidUnion_TypeID, air.VerTwoTwoPlus_TypeID, air.HoldsVerTwoTwoPlus_TypeID,
	air.HoldsText_TypeID, air.Bag_TypeID, air.Hoth_TypeID, air.AllocBenchmark_TypeID, air.ListStructCapn_TypeID,
}

// hangAfter: the time allowed is derived from T as well: at most T/8 list elements can be
// granted, each rendered as one (default) struct in a few microseconds.
func hangAfter(t uint64) time.Duration {
	if t == 0 {
		t = defaultT
	}
	return 20*time.Second + time.Duration(t/8)*40*time.Microsecond
}

func doHostile(out *Out, kind string, typeID uint64, m *rd.Msg) {
	emitSchema(out)
	type result struct{ obs, class string }
	ch := make(chan result, 1)
	go func() {
		class := "?"
		obs := Safely(func() string {
			msg := m.Build()
			p, rerr := msg.Root()
			var txt string
			var err error
			if l := p.List(); rerr == nil && l.IsValid() {
				txt, err = text.MarshalList(typeID, l)
			} else {
				txt, err = text.Marshal(typeID, p.Struct()) // the zero Struct when Root failed or is not a struct
			}
			if uint64(len(txt)) > outBound(m.T, m.D) {
				return fmt.Sprintf("toolong len=%d bound=%d", len(txt), outBound(m.T, m.D))
			}
			lc := "len<64"
			switch {
			case len(txt) >= 1<<20:
				lc = "len>=1M"
			case len(txt) >= 4096:
				lc = "len>=4k"
			case len(txt) >= 64:
				lc = "len>=64"
			}
			switch {
			case err != nil && strings.Contains(err.Error(), "limit"):
				class = "err-limit"
			case err != nil:
				class = "err"
			default:
				class = "ok/" + lc
			}
			return "safe"
		})
		if obs != "safe" {
			class = Cls(obs)
		}
		ch <- result{obs, class}
	}()
	var res result
	select {
	case res = <-ch:
	case <-time.After(hangAfter(m.T)):
		res = result{"hang", "hang"}
	}
	out.Case("hostile/"+kind, fmt.Sprintf("hostile %x %s", typeID, m.Header()), res.obs, res.class, len(m.Segs) > 0 && len(m.Segs[0]) >= 8)
}

func doHostileLine(out *Out, f []string) {
	id, err := strconv.ParseUint(f[1], 16, 64)
	must(err)
	doHostile(out, "replay", id, rd.ParseHeader(f[2:6]))
}

// typed value built in a random arena (small pre-sized segments force far / double-far pointers)
func typedSegs(r *Rand) (uint64, [][]byte) {
	arenaHook = func() capnp.Arena {
		switch r.Pick(2, 3, 1) {
		case 0:
			return capnp.SingleSegment(nil)
		case 1:
			// a small first segment: later allocations land in other segments (far pointers)
			return capnp.MultiSegment([][]byte{make([]byte, 0, 8*(2+r.Intn(14)))})
		}
		return capnp.MultiSegment(nil)
	}
	defer func() { arenaHook = nil }()
	v := genValue(r, -1)
	msg := v.s.Message()
	var segs [][]byte
	for i := int64(0); i < msg.NumSegments(); i++ {
		s, err := msg.Segment(capnp.SegmentID(i))
		must(err)
		segs = append(segs, append([]byte(nil), s.Data()...))
	}
	return v.typeID, segs
}

func total(segs [][]byte) int {
	n := 0
	for _, s := range segs {
		n += len(s)
	}
	return n
}

func pickLimits(r *Rand, segs [][]byte) (uint64, uint) {
	var t uint64
	switch r.Pick(3, 3, 2, 2) {
	case 0:
		t = 0 // default 64 MiB
	case 1:
		t = uint64(r.Intn(2*total(segs) + 16)) // around what the message needs
	case 2:
		t = []uint64{1, 7, 8, 9, 16, 64, 256, 1024, 4096, 65536, 1 << 20}[r.Intn(11)]
	case 3:
		t = 1 << 24
	}
	d := []uint{0, 0, 1, 2, 3, 4, 8, 64, 65, 200, 1000}[r.Intn(11)]
	return t, d
}

func genHostile(out *Out, r *Rand, tier string) {
	genRec(out, r, tier)
	emitSchema(out)
	n := 2000
	if tier == "thorough" {
		n = 60000
	}
	for i := 0; i < n; i++ {
		var segs [][]byte
		kind := ""
		typeID := hostileTypes[r.Intn(len(hostileTypes))]
		switch r.Pick(3, 5, 2, 3, 3) {
		case 0: // valid typed value, limits varied
			typeID, segs = typedSegs(r)
			kind = "typed"
		case 1: // typed value, mutated
			typeID, segs = typedSegs(r)
			segs = rd.Mutate(r, segs)
			if r.Intn(3) == 0 {
				segs = rd.Mutate(r, segs)
			}
			if r.Intn(4) == 0 {
				typeID = hostileTypes[r.Intn(len(hostileTypes))] // and read as another type
			}
			kind = "typed-mutated"
		case 2: // untyped tree built by the library, possibly mutated
			s, ok := rd.GenBuilt(r, 2+r.Intn(5), 10+r.Intn(50))
			if !ok {
				continue
			}
			segs, kind = s, "built"
			if r.Bool() {
				segs, kind = rd.Mutate(r, s), "built-mutated"
			}
		case 3:
			segs, kind = rd.GenRaw(r), "raw"
		case 4:
			segs, kind = rd.GenCyclic(r), "cyclic"
		}
		if len(segs) == 0 {
			continue
		}
		t, d := pickLimits(r, segs)
		if kind == "cyclic" && t == 0 && !(tier == "thorough" && r.Intn(100) == 0) {
			// the amplification templates (4M-element bit/void lists) with the default budget take
			// around a minute each (T/8 elements rendered as default structs): a few, thorough tier only
			t = 1 << 20
		}
		arena := "M"
		if len(segs) == 1 && r.Bool() {
			arena = "S"
		}
		doHostile(out, kind, typeID, &rd.Msg{Segs: segs, T: t, D: d, Arena: arena})
	}
	out.Close("text.Marshal / MarshalList on hostile messages typed as aircraftlib structs (valid typed values with small/default TraverseLimit and DepthLimit, mutated typed values, library-built untyped trees, pointer-shaped random words, cyclic graphs, lists with huge counts, far/double-far pointers; segments cap == len): must return (text or error) without panic, within 20s + (T/8)*40us, output <= 128*T + 4096*(D+1) + 65536 bytes. distinct = distinct case line; non-trivial = first segment holds at least a root pointer")
}
