// Command c18: capnp.Canonicalize against the extracted model canon_m (canonicalize), against
// the canonical-form specification canon applied to the walked tree, and against the
// property's own predicates evaluated on the implementation (property C18).
//
// case:  KIND GROUP ARENA T D SEGS SEL        (SEL: r | f<i>; the selected pointer's Struct())
//   GROUP = g<id>:<hex of the canonical bytes of the group's first member, "-" for the first member itself>
// obs:   RES SPEC FLAGS TREE
//   RES   = Canonicalize under the case's limits: ok:<hex> | E | panic
//   SPEC  = Canonicalize under generous limits when the walked tree is complete: ok:<hex>,
//           "cap" for an error on a tree that contains a capability, "-" for incomplete trees
//   FLAGS = R<b>I<b>G<b>P1K<b>J<b> for an ok SPEC: R = the output, read back as a message, is Equal
//           to the input; I = canonicalising the output returns it unchanged; G = same bytes
//           as the first member of the group (other layouts / schema versions of one value);
//           K = every blob returned earlier in this process (this case's and the last 64 cases')
//           is still byte-identical after the later Canonicalize calls; J = canonicalising a
//           message that lives IN the returned buffer returns the same bytes and leaves it intact
// kind "big/...": boundary-size structs (32767 / 32768 / 65535 data words or pointers); the
//   list-based model is quadratic on them, so only the implementation-side predicates are
//   evaluated (R I K J and X = the bytes the generator expects); obs is "big" when all hold.
package main

import (
	"bytes"
	"encoding/binary"
	"fmt"
	"regexp"
	"strconv"
	"strings"

	capnp "capnproto.org/go/capnp/v3"
	. "verifh/hc"
	"verifh/cmd/c17/vt"
	"verifh/rd"
)

func main() { Main(run) }

const (
	genT  = uint64(1) << 20
	dcap  = 65536
	pcap  = 4096
	wfuel = 40
)

func sel(msg *capnp.Message, s string) (capnp.Ptr, error) {
	p, err := msg.Root()
	if err != nil || s == "r" {
		return p, err
	}
	if s[0] == 'm' { // m<i>.<j>: element j (struct view) of the list in pointer field i
		f := strings.SplitN(s[1:], ".", 2)
		i, _ := strconv.Atoi(f[0])
		j, _ := strconv.Atoi(f[1])
		fp, err := p.Struct().Ptr(uint16(i))
		if err != nil {
			return capnp.Ptr{}, err
		}
		return fp.List().Struct(j).ToPtr(), nil
	}
	i, _ := strconv.Atoi(s[1:])
	return p.Struct().Ptr(uint16(i))
}

func canonObs(m *rd.Msg, T uint64, D uint, s string) (res string, out []byte) {
	defer func() {
		if e := recover(); e != nil {
			res, out = "panic", nil
		}
	}()
	mm := *m
	mm.T, mm.D = T, D
	p, err := sel(mm.Build(), s)
	if err != nil {
		return "E", nil
	}
	b, err := capnp.Canonicalize(p.Struct())
	if err != nil {
		return "E", nil
	}
	return "ok:" + Hx(b), b
}

var lenRe = regexp.MustCompile(`[LMB](\d+)[:\[]|V\d+:(\d+)\[`)

func complete(t string) bool {
	if strings.ContainsAny(t, "E!F") {
		return false
	}
	for _, m := range lenRe.FindAllStringSubmatch(t, -1) {
		s := m[1]
		if s == "" {
			s = m[2]
		}
		if n, err := strconv.ParseUint(s, 10, 64); err != nil || n > pcap {
			return false
		}
	}
	return true
}

var capRe = regexp.MustCompile(`C\d`)

func walkSel(m *rd.Msg, s string) (res string) {
	defer func() {
		if e := recover(); e != nil {
			res = "!"
		}
	}()
	mm := *m
	mm.T, mm.D = genT, 0
	p, err := sel(mm.Build(), s)
	if err == nil {
		p = p.Struct().ToPtr()
	}
	var sb strings.Builder
	rd.Walk(&sb, p, err, dcap, pcap, wfuel)
	return sb.String()
}

func bit(b bool) string {
	if b {
		return "1"
	}
	return "0"
}

// predicates of the property on the produced bytes
func readBackEqual(m *rd.Msg, s string, out []byte) (ok bool) {
	defer func() {
		if e := recover(); e != nil {
			ok = false
		}
	}()
	mm := *m
	mm.T, mm.D = genT, 0
	p, err := sel(mm.Build(), s)
	if err != nil {
		return false
	}
	buf := make([]byte, len(out))
	copy(buf, out)
	om := &capnp.Message{Arena: capnp.SingleSegment(buf), TraverseLimit: genT}
	q, err := om.Root()
	if err != nil {
		return false
	}
	eq, err := capnp.Equal(p.Struct().ToPtr(), q.Struct().ToPtr())
	return err == nil && eq
}

func idempotent(out []byte) (ok bool) {
	defer func() {
		if e := recover(); e != nil {
			ok = false
		}
	}()
	buf := make([]byte, len(out))
	copy(buf, out)
	om := &capnp.Message{Arena: capnp.SingleSegment(buf), TraverseLimit: genT}
	q, err := om.Root()
	if err != nil {
		return false
	}
	b, err := capnp.Canonicalize(q.Struct())
	return err == nil && bytes.Equal(b, out)
}

// kept: blobs returned by earlier Canonicalize calls (the returned slice itself and a snapshot)
type keptBlob struct{ ret, snap []byte }

var kept []keptBlob

func keep(ret []byte) []byte {
	snap := append([]byte(nil), ret...)
	kept = append(kept, keptBlob{ret, snap})
	if len(kept) > 64 {
		kept = kept[len(kept)-64:]
	}
	return snap
}

func keptIntact() bool {
	for _, k := range kept {
		if !bytes.Equal(k.ret, k.snap) {
			return false
		}
	}
	return true
}

var sentinel = func() capnp.Struct {
	m := &capnp.Message{Arena: capnp.SingleSegment(rd.Words(rd.StructPtr(0, 2, 0), 0x1122334455667788, 0x99aabbccddeeff01))}
	p, err := m.Root()
	if err != nil {
		panic(err)
	}
	return p.Struct()
}()

// inPlace: canonicalise a message whose single segment IS the returned buffer.
func inPlace(ret, snap []byte) (ok bool) {
	defer func() {
		if e := recover(); e != nil {
			ok = false
		}
	}()
	om := &capnp.Message{Arena: capnp.SingleSegment(ret), TraverseLimit: genT}
	q, err := om.Root()
	if err != nil {
		return false
	}
	b, err := capnp.Canonicalize(q.Struct())
	return err == nil && bytes.Equal(b, snap) && bytes.Equal(ret, snap)
}

// later calls must not disturb earlier results
func laterCalls() {
	defer func() { recover() }()
	capnp.Canonicalize(sentinel)
}

// observe: ref = canonical bytes of the first member of the case's group (nil: this is the first member).
func observe(ref []byte, m *rd.Msg, s string) (string, []byte) {
	res, _ := canonObs(m, m.T, m.D, s)
	spec, out := canonObs(m, genT, 0, s)
	tree := walkSel(m, s)
	flags := "-"
	switch {
	case !complete(tree):
		spec = "-"
	case spec == "E" && capRe.MatchString(tree):
		spec = "cap"
	case out != nil:
		snap := keep(out)
		if ref == nil {
			ref = snap
		}
		laterCalls() // first: no allocation-heavy work (GC would empty a buffer pool) before the later call
		k1 := keptIntact()
		j1 := inPlace(out, snap)
		r1, i1 := readBackEqual(m, s, snap), idempotent(snap)
		flags = "R" + bit(r1) + "I" + bit(i1) + "G" + bit(bytes.Equal(ref, snap)) + "P1K" + bit(k1) + "J" + bit(j1)
		out = snap
	}
	return fmt.Sprintf("%s %s %s %s", res, spec, flags, tree), out
}

var limitsT = []uint64{0, 0, 0, 0, 8, 16, 64, 200, 1024, 1 << 20}
var limitsD = []uint{0, 0, 0, 0, 1, 2, 3, 4, 5, 6, 8, 64, 70}

// ---------------------------------------------------------------- boundary sizes
// bigMsg: root pointer -> struct with dw data words (the first len(lead) words = lead, rest 0)
// and pc pointers (pointer 0 = an empty struct when firstPtr, rest null); for list=true the
// struct is the single element of a struct list held by a one-pointer root struct.
func bigMsg(dw, pc int, lead []uint64, firstPtr, list bool) []byte {
	var ws []uint64
	if list {
		ws = append(ws, rd.StructPtr(0, 0, 1), rd.ListPtr(0, 7, uint32(dw+pc)), rd.StructPtr(1, uint16(dw), uint16(pc)))
	} else {
		ws = append(ws, rd.StructPtr(0, uint16(dw), uint16(pc)))
	}
	body := make([]uint64, dw+pc)
	copy(body, lead)
	if firstPtr && pc > 0 {
		body[dw] = rd.StructPtr(-1, 0, 0)
	}
	return rd.Words(append(ws, body...)...)
}

// bigExpect: the canonical form of bigMsg(...) (lead has no trailing zero word)
func bigExpect(lead []uint64, firstPtr, list bool, pc int) []byte {
	np := 0
	if firstPtr && pc > 0 {
		np = 1
	}
	var ws []uint64
	body := append([]uint64(nil), lead...)
	if np == 1 {
		body = append(body, rd.StructPtr(-1, 0, 0))
	}
	if list {
		ws = append(ws, rd.StructPtr(0, 0, 1), rd.ListPtr(0, 7, uint32(len(lead)+np)), rd.StructPtr(1, uint16(len(lead)), uint16(np)))
	} else if len(lead)+np == 0 {
		return rd.Words(rd.StructPtr(-1, 0, 0))
	} else {
		ws = append(ws, rd.StructPtr(0, uint16(len(lead)), uint16(np)))
	}
	return rd.Words(append(ws, body...)...)
}

// dataBig: the root (or the single list element) has few pointers, i.e. the size is in the data
// section (the model-side decoder is linear on those; pointer-big structs stay predicate-only)
func dataBig(seg []byte) bool {
	w := binary.LittleEndian.Uint64(seg)
	if w>>48 <= 4 && (w>>32)&0xffff >= 1000 {
		return true
	}
	if len(seg) >= 24 { // root {0,1} -> struct list with one element: tag at word 2
		t := binary.LittleEndian.Uint64(seg[16:])
		return w == rd.StructPtr(0, 0, 1) && t>>48 <= 4 && (t>>32)&0xffff >= 1000
	}
	return false
}

func observeBig(m *rd.Msg, expect []byte) string {
	_, out := canonObs(m, genT, 0, "r")
	if out == nil {
		return "big-FAIL:no-output"
	}
	snap := keep(out)
	laterCalls()
	k1 := keptIntact()
	j1 := inPlace(out, snap)
	r1, i1 := readBackEqual(m, "r", snap), idempotent(snap)
	x1 := expect == nil || bytes.Equal(snap, expect)
	if r1 && i1 && k1 && j1 && x1 {
		if len(m.Segs) == 1 && len(m.Segs[0]) > 200000 && len(snap) < 4096 && dataBig(m.Segs[0]) {
			// data-big input: the decoder + specification are evaluated by the model side too
			return "big ok:" + Hx(snap)
		}
		return "big"
	}
	return "big-FAIL:R" + bit(r1) + "I" + bit(i1) + "K" + bit(k1) + "J" + bit(j1) + "X" + bit(x1)
}

func run(out *Out, r *Rand, tier string, replay []string) {
	gr := map[string][]byte{}
	if replay != nil {
		for _, l := range replay {
			f := strings.Fields(l)
			obs := "bad-case"
			if len(f) == 7 && strings.HasPrefix(f[0], "big") {
				obs = observeBig(rd.ParseHeader(f[2:6]), nil)
			} else if len(f) == 7 {
				var ref []byte
				if g := strings.SplitN(f[1], ":", 2); len(g) == 2 && g[1] != "-" {
					ref = Unhx(g[1])
				}
				obs, _ = observe(ref, rd.ParseHeader(f[2:6]), f[6])
			}
			out.Case(f[0], l, obs, Cls(obs), true)
		}
		out.Close("replay")
		return
	}
	n := 2500
	if tier == "thorough" {
		n = 15000
	}
	gid := 0
	emit := func(kind string, group string, m *rd.Msg, s string) {
		ref := gr[group]
		tok := group + ":-"
		if ref != nil {
			tok = group + ":" + Hx(ref)
		}
		line := fmt.Sprintf("%s %s %s %s", kind, tok, m.Header(), s)
		if len(line) > 100000 {
			return
		}
		obs, outb := observe(ref, m, s)
		if ref == nil && outb != nil && strings.Fields(obs)[2] != "-" {
			gr[group] = outb
		}
		f := strings.Fields(obs)
		cls := f[0]
		if strings.HasPrefix(cls, "ok:") {
			cls = "ok"
		}
		sp := f[1]
		if strings.HasPrefix(sp, "ok:") {
			sp = "ok"
		}
		out.Case(strings.SplitN(kind, "/", 2)[0], line, obs, cls+"/spec="+sp, f[1] != "-")
	}
	// boundary sizes: 32767 / 32768 / 65535 data words and pointers (struct and struct-list element)
	for _, dw := range []int{32767, 32768, 65535} {
		for _, list := range []bool{false, true} {
			lead := []uint64{r.U64() | 1, 0, r.U64() | 1}[:1+2*r.Intn(2)]
			fp := r.Bool()
			pc := []int{0, 2}[r.Intn(2)]
			m := &rd.Msg{Segs: [][]byte{bigMsg(dw, pc, lead, fp, list)}, Arena: "M"}
			line := fmt.Sprintf("big/d%d g0:- %s r", dw, m.Header())
			out.Case("big", line, observeBig(m, bigExpect(lead, fp, list, pc)), "big", true)
		}
	}
	for _, pc := range []int{32768, 65535} {
		lead := []uint64{r.U64() | 1}[:r.Intn(2)]
		m := &rd.Msg{Segs: [][]byte{bigMsg(len(lead), pc, lead, true, false)}, Arena: "M"}
		line := fmt.Sprintf("big/p%d g0:- %s r", pc, m.Header())
		out.Case("big", line, observeBig(m, bigExpect(lead, true, false, pc)), "big", true)
	}
	for i := 0; i < n; i++ {
		g := &vt.Gen{R: r, Budget: 6 + r.Intn(30), Caps: r.Intn(8) == 0}
		gid++
		group := "g" + strconv.Itoa(gid)
		switch r.Pick(10, 4, 3, 3) {
		case 0: // one value, several layouts and schema versions (trailing default fields)
			v := g.Struct(1 + r.Intn(4))
			k := 2 + r.Intn(3)
			for j := 0; j < k; j++ {
				vv := v
				how := ""
				if j > 0 && r.Intn(3) == 0 {
					vv = v.Clone()
					vt.ExtendDefaults(r, vv)
					how = "v+"
				}
				pad := []int{0, 3, 6}[r.Intn(3)]
				segs, h, ok := vt.Encode(r, pad, vv)
				if !ok {
					continue
				}
				m := &rd.Msg{Segs: segs, Arena: "M"}
				if r.Intn(8) == 0 {
					m.T, m.D = limitsT[r.Intn(len(limitsT))], limitsD[r.Intn(len(limitsD))]
				}
				emit("layouts/"+how+h, group, m, "r")
			}
		case 1: // targeted list shapes inside a root struct
			ln := r.Intn(10)
			root := &vt.Val{K: vt.KStruct, Data: make([]byte, 8*r.Intn(2))}
			for f := 1 + r.Intn(3); f > 0; f-- {
				root.Ptrs = append(root.Ptrs, vt.ListShape(r, g, ln))
			}
			for j := 0; j < 2; j++ {
				segs, h, ok := vt.Encode(r, []int{0, 3}[r.Intn(2)], root)
				if !ok {
					continue
				}
				emit("lists/"+h, group, &rd.Msg{Segs: segs, Arena: "M"}, "r")
			}
		case 2: // a list member as the struct to canonicalise: List.Struct(j) of every list kind
			ln := 1 + r.Intn(6)
			root := &vt.Val{K: vt.KStruct, Data: make([]byte, 8*r.Intn(2))}
			nf := 1 + r.Intn(3)
			for f := nf; f > 0; f-- {
				root.Ptrs = append(root.Ptrs, vt.ListShape(r, g, ln))
			}
			segs, h, ok := vt.Encode(r, []int{0, 3}[r.Intn(2)], root)
			if !ok {
				continue
			}
			for f, l := range root.Ptrs {
				cnt := len(l.Prims) + len(l.Elems) + len(l.Bits)
				if cnt == 0 {
					continue
				}
				gid++
				emit("members/"+h, "g"+strconv.Itoa(gid), &rd.Msg{Segs: segs, Arena: "M"}, fmt.Sprintf("m%d.%d", f, r.Intn(cnt)))
			}
		default: // malformed
			var segs [][]byte
			switch r.Intn(3) {
			case 0:
				s1, _, ok := vt.Encode(r, 3, g.Struct(1+r.Intn(3)))
				if !ok {
					continue
				}
				segs = rd.Mutate(r, s1)
			case 1:
				segs = rd.GenRaw(r)
			default:
				segs = rd.GenCyclic(r)
			}
			m := &rd.Msg{Segs: segs, Arena: "M"}
			if r.Bool() {
				m.T, m.D = limitsT[r.Intn(len(limitsT))], limitsD[r.Intn(len(limitsD))]
			}
			emit("malformed", group, m, "r")
		}
	}
	out.Close("groups of layouts of one generated value (library builder in random arenas, hand-assembled words with pre/post order, gaps, far/double-far pointers, oversized sections, dirty padding; deep copy; re-marshal) and of its schema-evolved variants (trailing default fields); list members as the canonicalised struct (List.Struct(j) of void / 1,2,4,8-byte / pointer / struct / bit lists); targeted list shapes (all list kinds, struct lists with and without pointers, zero-sized structs, nested lists); values containing capabilities; malformed segments and tight limits; all source segments have cap == len. non-trivial = the walked tree is complete, so the canonical-form specification predicts the bytes")
}
