// Command c18: capnp.Canonicalize against the extracted model canon_m (canonicalize), against
// the canonical-form specification canon applied to the walked tree, and against the
// property's own predicates evaluated on the implementation (property C18).
//
// case:  KIND GROUP ARENA T D SEGS SEL        (SEL: r | f<i>; the selected pointer's Struct())
//   GROUP = g<id>:<hex of the canonical bytes of the group's first member, "-" for the first member itself>
// obs:   RES SPEC FLAGS TREE
//   RES   = Canonicalize under the case's limits: ok:<hex> | E | panic
//   SPEC  = Canonicalize under generous limits when the walked tree is complete: ok:<hex>,
//           "cap" for an error on a tree that contains a capability, "-" for incomplete trees
//   FLAGS = R<b>I<b>G<b>P1 for an ok SPEC: R = the output, read back as a message, is Equal
//           to the input; I = canonicalising the output returns it unchanged; G = same bytes
//           as the first member of the group (other layouts / schema versions of one value)
package main

import (
	"bytes"
	"fmt"
	"regexp"
	"strconv"
	"strings"

	capnp "capnproto.org/go/capnp/v3"
	. "verifh/hc"
	"verifh/cmd/c17/vt"
	"verifh/rd"
)

func main() { Main(run) }

const (
	genT  = uint64(1) << 20
	dcap  = 65536
	pcap  = 4096
	wfuel = 40
)

func sel(msg *capnp.Message, s string) (capnp.Ptr, error) {
	p, err := msg.Root()
	if err != nil || s == "r" {
		return p, err
	}
	i, _ := strconv.Atoi(s[1:])
	return p.Struct().Ptr(uint16(i))
}

func canonObs(m *rd.Msg, T uint64, D uint, s string) (res string, out []byte) {
	defer func() {
		if e := recover(); e != nil {
			res, out = "panic", nil
		}
	}()
	mm := *m
	mm.T, mm.D = T, D
	p, err := sel(mm.Build(), s)
	if err != nil {
		return "E", nil
	}
	b, err := capnp.Canonicalize(p.Struct())
	if err != nil {
		return "E", nil
	}
	return "ok:" + Hx(b), b
}

var lenRe = regexp.MustCompile(`[LMB](\d+)[:\[]|V\d+:(\d+)\[`)

func complete(t string) bool {
	if strings.ContainsAny(t, "E!F") {
		return false
	}
	for _, m := range lenRe.FindAllStringSubmatch(t, -1) {
		s := m[1]
		if s == "" {
			s = m[2]
		}
		if n, err := strconv.ParseUint(s, 10, 64); err != nil || n > pcap {
			return false
		}
	}
	return true
}

var capRe = regexp.MustCompile(`C\d`)

func walkSel(m *rd.Msg, s string) (res string) {
	defer func() {
		if e := recover(); e != nil {
			res = "!"
		}
	}()
	mm := *m
	mm.T, mm.D = genT, 0
	p, err := sel(mm.Build(), s)
	if err == nil {
		p = p.Struct().ToPtr()
	}
	var sb strings.Builder
	rd.Walk(&sb, p, err, dcap, pcap, wfuel)
	return sb.String()
}

func bit(b bool) string {
	if b {
		return "1"
	}
	return "0"
}

// predicates of the property on the produced bytes
func readBackEqual(m *rd.Msg, s string, out []byte) (ok bool) {
	defer func() {
		if e := recover(); e != nil {
			ok = false
		}
	}()
	mm := *m
	mm.T, mm.D = genT, 0
	p, err := sel(mm.Build(), s)
	if err != nil {
		return false
	}
	buf := make([]byte, len(out))
	copy(buf, out)
	om := &capnp.Message{Arena: capnp.SingleSegment(buf), TraverseLimit: genT}
	q, err := om.Root()
	if err != nil {
		return false
	}
	eq, err := capnp.Equal(p.Struct().ToPtr(), q.Struct().ToPtr())
	return err == nil && eq
}

func idempotent(out []byte) (ok bool) {
	defer func() {
		if e := recover(); e != nil {
			ok = false
		}
	}()
	buf := make([]byte, len(out))
	copy(buf, out)
	om := &capnp.Message{Arena: capnp.SingleSegment(buf), TraverseLimit: genT}
	q, err := om.Root()
	if err != nil {
		return false
	}
	b, err := capnp.Canonicalize(q.Struct())
	return err == nil && bytes.Equal(b, out)
}

// observe: ref = canonical bytes of the first member of the case's group (nil: this is the first member).
func observe(ref []byte, m *rd.Msg, s string) (string, []byte) {
	res, _ := canonObs(m, m.T, m.D, s)
	spec, out := canonObs(m, genT, 0, s)
	tree := walkSel(m, s)
	flags := "-"
	switch {
	case !complete(tree):
		spec = "-"
	case spec == "E" && capRe.MatchString(tree):
		spec = "cap"
	case out != nil:
		if ref == nil {
			ref = out
		}
		flags = "R" + bit(readBackEqual(m, s, out)) + "I" + bit(idempotent(out)) + "G" + bit(bytes.Equal(ref, out)) + "P1"
	}
	return fmt.Sprintf("%s %s %s %s", res, spec, flags, tree), out
}

var limitsT = []uint64{0, 0, 0, 0, 8, 16, 64, 200, 1024, 1 << 20}
var limitsD = []uint{0, 0, 0, 0, 1, 2, 3, 4, 5, 6, 8, 64, 70}

func run(out *Out, r *Rand, tier string, replay []string) {
	gr := map[string][]byte{}
	if replay != nil {
		for _, l := range replay {
			f := strings.Fields(l)
			obs := "bad-case"
			if len(f) == 7 {
				var ref []byte
				if g := strings.SplitN(f[1], ":", 2); len(g) == 2 && g[1] != "-" {
					ref = Unhx(g[1])
				}
				obs, _ = observe(ref, rd.ParseHeader(f[2:6]), f[6])
			}
			out.Case(f[0], l, obs, Cls(obs), true)
		}
		out.Close("replay")
		return
	}
	n := 2500
	if tier == "thorough" {
		n = 15000
	}
	gid := 0
	emit := func(kind string, group string, m *rd.Msg, s string) {
		ref := gr[group]
		tok := group + ":-"
		if ref != nil {
			tok = group + ":" + Hx(ref)
		}
		line := fmt.Sprintf("%s %s %s %s", kind, tok, m.Header(), s)
		if len(line) > 100000 {
			return
		}
		obs, outb := observe(ref, m, s)
		if ref == nil && outb != nil && strings.Fields(obs)[2] != "-" {
			gr[group] = outb
		}
		f := strings.Fields(obs)
		cls := f[0]
		if strings.HasPrefix(cls, "ok:") {
			cls = "ok"
		}
		sp := f[1]
		if strings.HasPrefix(sp, "ok:") {
			sp = "ok"
		}
		out.Case(strings.SplitN(kind, "/", 2)[0], line, obs, cls+"/spec="+sp, f[1] != "-")
	}
	for i := 0; i < n; i++ {
		g := &vt.Gen{R: r, Budget: 6 + r.Intn(30), Caps: r.Intn(8) == 0}
		gid++
		group := "g" + strconv.Itoa(gid)
		switch r.Pick(10, 4, 3) {
		case 0: // one value, several layouts and schema versions (trailing default fields)
			v := g.Struct(1 + r.Intn(4))
			k := 2 + r.Intn(3)
			for j := 0; j < k; j++ {
				vv := v
				how := ""
				if j > 0 && r.Intn(3) == 0 {
					vv = v.Clone()
					vt.ExtendDefaults(r, vv)
					how = "v+"
				}
				pad := []int{0, 3, 6}[r.Intn(3)]
				segs, h, ok := vt.Encode(r, pad, vv)
				if !ok {
					continue
				}
				m := &rd.Msg{Segs: segs, Arena: "M"}
				if r.Intn(8) == 0 {
					m.T, m.D = limitsT[r.Intn(len(limitsT))], limitsD[r.Intn(len(limitsD))]
				}
				emit("layouts/"+how+h, group, m, "r")
			}
		case 1: // targeted list shapes inside a root struct
			ln := r.Intn(10)
			root := &vt.Val{K: vt.KStruct, Data: make([]byte, 8*r.Intn(2))}
			for f := 1 + r.Intn(3); f > 0; f-- {
				root.Ptrs = append(root.Ptrs, vt.ListShape(r, g, ln))
			}
			for j := 0; j < 2; j++ {
				segs, h, ok := vt.Encode(r, []int{0, 3}[r.Intn(2)], root)
				if !ok {
					continue
				}
				emit("lists/"+h, group, &rd.Msg{Segs: segs, Arena: "M"}, "r")
			}
		default: // malformed
			var segs [][]byte
			switch r.Intn(3) {
			case 0:
				s1, _, ok := vt.Encode(r, 3, g.Struct(1+r.Intn(3)))
				if !ok {
					continue
				}
				segs = rd.Mutate(r, s1)
			case 1:
				segs = rd.GenRaw(r)
			default:
				segs = rd.GenCyclic(r)
			}
			m := &rd.Msg{Segs: segs, Arena: "M"}
			if r.Bool() {
				m.T, m.D = limitsT[r.Intn(len(limitsT))], limitsD[r.Intn(len(limitsD))]
			}
			emit("malformed", group, m, "r")
		}
	}
	out.Close("groups of layouts of one generated value (library builder in random arenas, hand-assembled words with pre/post order, gaps, far/double-far pointers, oversized sections, dirty padding; deep copy; re-marshal) and of its schema-evolved variants (trailing default fields); targeted list shapes (all list kinds, struct lists with and without pointers, zero-sized structs, nested lists); values containing capabilities; malformed segments and tight limits; all source segments have cap == len. non-trivial = the walked tree is complete, so the canonical-form specification predicts the bytes")
}
