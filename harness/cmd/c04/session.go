package main

import (
	"bytes"
	"context"
	"encoding/binary"
	"fmt"
	"strconv"
	"strings"

	capnp "capnproto.org/go/capnp/v3"
	. "verifh/hc"
	"verifh/rd"
)

// ---------------------------------------------------------------- clients

// hook is a capability whose brand is its id (source table entries 0..n-1, AddCap'd ones <= -2).
type hook struct{ id int }

func (h hook) Send(ctx context.Context, s capnp.Send) (*capnp.Answer, capnp.ReleaseFunc) {
	return capnp.ErrorAnswer(s.Method, fmt.Errorf("no")), func() {}
}
func (h hook) Recv(ctx context.Context, r capnp.Recv) capnp.PipelineCaller {
	r.Reject(fmt.Errorf("no"))
	return nil
}
func (h hook) Brand() capnp.Brand { return capnp.Brand{Value: h.id} }
func (h hook) Shutdown()          {}

func clientID(c *capnp.Client) int {
	if c == nil {
		return -1
	}
	if v, ok := c.State().Brand.Value.(int); ok {
		return v
	}
	return -1
}

// ---------------------------------------------------------------- session

// Case header: ARENA T D SRCT SRCD NCAPS SRCSEGS FUEL
type Header struct {
	Arena   string
	T       uint64
	D       uint
	Src     *rd.Msg // nil: no source message
	NCaps   int
	Fuel    int
	SrcSegs [][]byte
}

func (h *Header) String() string {
	st, sd, segs := uint64(0), uint(0), "_"
	if h.Src != nil {
		st, sd = h.Src.T, h.Src.D
		hs := make([]string, len(h.Src.Segs))
		for i, s := range h.Src.Segs {
			hs[i] = Hx(s)
		}
		if len(hs) > 0 {
			segs = strings.Join(hs, ",")
		}
	}
	return fmt.Sprintf("%s %d %d %d %d %d %s %d", h.Arena, h.T, h.D, st, sd, h.NCaps, segs, h.Fuel)
}

func ParseCase(f []string) *Header {
	h := &Header{Arena: f[0]}
	h.T, _ = strconv.ParseUint(f[1], 10, 64)
	d, _ := strconv.ParseUint(f[2], 10, 64)
	h.D = uint(d)
	st, _ := strconv.ParseUint(f[3], 10, 64)
	sd, _ := strconv.ParseUint(f[4], 10, 64)
	h.NCaps, _ = strconv.Atoi(f[5])
	h.Src = &rd.Msg{T: st, D: uint(sd), Arena: "M"}
	if f[6] != "_" {
		for _, x := range strings.Split(f[6], ",") {
			h.Src.Segs = append(h.Src.Segs, Unhx(x))
		}
	}
	h.Fuel, _ = strconv.Atoi(f[7])
	return h
}

type Session struct {
	Dst, Src   *capnp.Message
	Handles    []capnp.Ptr
	Loc        []byte // 'd' / 's' per handle
	SrcClients []*capnp.Client
	nAdded     int
}

func dirty(c int) []byte {
	b := make([]byte, c)
	for i := range b {
		b[i] = 0xA5
	}
	return b[:0]
}

// NewSession creates the destination message per the arena spec; ok=false when creation fails.
func NewSession(h *Header) (s *Session, ok bool) {
	defer func() {
		if e := recover(); e != nil {
			s, ok = nil, false
		}
	}()
	s = &Session{}
	var msg *capnp.Message
	var err error
	kind, arg, _ := strings.Cut(h.Arena, ":")
	switch kind {
	case "S":
		if arg == "nil" {
			msg, _, err = capnp.NewMessage(capnp.SingleSegment(nil))
		} else {
			c, _ := strconv.Atoi(arg)
			msg, _, err = capnp.NewMessage(capnp.SingleSegment(dirty(c)))
		}
	case "M":
		if arg == "nil" {
			msg, _, err = capnp.NewMessage(capnp.MultiSegment(nil))
		} else {
			c, _ := strconv.Atoi(arg)
			msg, _, err = capnp.NewMessage(capnp.MultiSegment([][]byte{dirty(c)}))
		}
	case "R":
		var bufs [][]byte
		if arg != "" {
			for _, c := range ParseInts(arg) {
				bufs = append(bufs, dirty(c))
			}
		}
		msg = &capnp.Message{Arena: capnp.MultiSegment(bufs)}
		var seg0 *capnp.Segment
		seg0, err = msg.Segment(0)
		if err == nil {
			_, err = capnp.NewStruct(seg0, capnp.ObjectSize{DataSize: 8})
		}
	default:
		return nil, false
	}
	if err != nil {
		return nil, false
	}
	msg.TraverseLimit = h.T
	msg.DepthLimit = h.D
	s.Dst = msg
	if h.Src != nil {
		s.Src = h.Src.Build()
		for i := 0; i < h.NCaps; i++ {
			c := capnp.NewClient(hook{id: i})
			s.SrcClients = append(s.SrcClients, c)
			s.Src.CapTable = append(s.Src.CapTable, c)
		}
	} else {
		s.Src = (&rd.Msg{Arena: "M"}).Build()
	}
	return s, true
}

func (s *Session) h(i int) capnp.Ptr {
	if i < 0 || i >= len(s.Handles) {
		return capnp.Ptr{}
	}
	return s.Handles[i]
}
func (s *Session) loc(i int) byte {
	if i < 0 || i >= len(s.Loc) {
		return 'd'
	}
	return s.Loc[i]
}

func (s *Session) push(loc byte, f func() (capnp.Ptr, error)) (res string) {
	var p capnp.Ptr
	defer func() {
		if e := recover(); e != nil {
			res = "panic"
			p = capnp.Ptr{}
		}
		s.Handles = append(s.Handles, p)
		s.Loc = append(s.Loc, loc)
	}()
	q, err := f()
	if err != nil {
		return "err"
	}
	p = q
	return rd.PtrStr(p)
}

func unit(f func() error) string {
	return Safely(func() string {
		if err := f(); err != nil {
			return "err"
		}
		return "ok"
	})
}

func (s *Session) msgOf(l string) *capnp.Message {
	if l == "s" {
		return s.Src
	}
	return s.Dst
}

// Do executes one op; stop = the run ends here (a failed allocating / pointer-writing op).
func (s *Session) Do(op string) (obs string, stop bool) {
	f := strings.Split(op, ":")
	a := make([]int64, len(f))
	for i := 1; i < len(f); i++ {
		a[i], _ = strconv.ParseInt(f[i], 10, 64)
	}
	u := make([]uint64, len(f))
	for i := 1; i < len(f); i++ {
		u[i], _ = strconv.ParseUint(f[i], 10, 64)
	}
	failed := func(r string) bool { return r == "err" || r == "panic" }
	// allocating constructors
	ctor := func(g func(seg *capnp.Segment) (capnp.Ptr, error)) (string, bool) {
		seg, err := s.Dst.Segment(capnp.SegmentID(a[1]))
		if a[1] < 0 || err != nil {
			return s.push('d', func() (capnp.Ptr, error) { return capnp.Ptr{}, fmt.Errorf("bad segment") }), false
		}
		r := s.push('d', func() (capnp.Ptr, error) { return g(seg) })
		return r, failed(r)
	}
	switch f[0] {
	case "newstruct":
		return ctor(func(seg *capnp.Segment) (capnp.Ptr, error) {
			st, err := capnp.NewStruct(seg, capnp.ObjectSize{DataSize: capnp.Size(a[2]), PointerCount: uint16(a[3])})
			return st.ToPtr(), err
		})
	case "newprim":
		return ctor(func(seg *capnp.Segment) (capnp.Ptr, error) {
			n := int32(a[3])
			switch a[2] {
			case 1:
				l, err := capnp.NewUInt8List(seg, n)
				return l.ToPtr(), err
			case 2:
				l, err := capnp.NewUInt16List(seg, n)
				return l.ToPtr(), err
			case 4:
				l, err := capnp.NewUInt32List(seg, n)
				return l.ToPtr(), err
			default:
				l, err := capnp.NewUInt64List(seg, n)
				return l.ToPtr(), err
			}
		})
	case "newbit":
		return ctor(func(seg *capnp.Segment) (capnp.Ptr, error) {
			l, err := capnp.NewBitList(seg, int32(a[2]))
			return l.ToPtr(), err
		})
	case "newplist":
		return ctor(func(seg *capnp.Segment) (capnp.Ptr, error) {
			l, err := capnp.NewPointerList(seg, int32(a[2]))
			return l.ToPtr(), err
		})
	case "newcomp":
		return ctor(func(seg *capnp.Segment) (capnp.Ptr, error) {
			l, err := capnp.NewCompositeList(seg, capnp.ObjectSize{DataSize: capnp.Size(a[2]), PointerCount: uint16(a[3])}, int32(a[4]))
			return l.ToPtr(), err
		})
	case "newvoid":
		r, _ := ctor(func(seg *capnp.Segment) (capnp.Ptr, error) {
			return capnp.NewVoidList(seg, int32(a[2])).ToPtr(), nil
		})
		return r, false
	case "newtext":
		return ctor(func(seg *capnp.Segment) (capnp.Ptr, error) {
			b := Unhx(f[2])
			if b == nil {
				b = []byte{}
			}
			l, err := capnp.NewTextFromBytes(seg, b)
			return l.ToPtr(), err
		})
	case "newdata":
		return ctor(func(seg *capnp.Segment) (capnp.Ptr, error) {
			l, err := capnp.NewData(seg, Unhx(f[2]))
			return l.ToPtr(), err
		})
	case "newcap":
		r, _ := ctor(func(seg *capnp.Segment) (capnp.Ptr, error) {
			return capnp.NewInterface(seg, capnp.CapabilityID(u[2])).ToPtr(), nil
		})
		return r, false
	case "addcap":
		id := s.Dst.AddCap(capnp.NewClient(hook{id: -(int(a[1]) + 2)}))
		return "N" + strconv.Itoa(int(id)), false
	// data setters
	case "setuint":
		st := s.h(int(a[1])).Struct()
		off := capnp.DataOffset(a[2])
		return unit(func() error {
			switch a[3] {
			case 1:
				st.SetUint8(off, uint8(u[4]))
			case 2:
				st.SetUint16(off, uint16(u[4]))
			case 4:
				st.SetUint32(off, uint32(u[4]))
			default:
				st.SetUint64(off, u[4])
			}
			return nil
		}), false
	case "setbit":
		st := s.h(int(a[1])).Struct()
		return unit(func() error { st.SetBit(capnp.BitOffset(a[2]), a[3] == 1); return nil }), false
	case "lsetuint":
		l := s.h(int(a[1])).List()
		i := int(a[2])
		return unit(func() error {
			switch a[3] {
			case 1:
				capnp.UInt8List{List: l}.Set(i, uint8(u[4]))
			case 2:
				capnp.UInt16List{List: l}.Set(i, uint16(u[4]))
			case 4:
				capnp.UInt32List{List: l}.Set(i, uint32(u[4]))
			default:
				capnp.UInt64List{List: l}.Set(i, u[4])
			}
			return nil
		}), false
	case "bitset":
		l := capnp.BitList{List: s.h(int(a[1])).List()}
		return unit(func() error { l.Set(int(a[2]), a[3] == 1); return nil }), false
	// pointer setters
	case "setptr":
		if s.loc(int(a[1])) == 's' {
			return "panic", true
		}
		st := s.h(int(a[1])).Struct()
		r := unit(func() error { return st.SetPtr(uint16(a[2]), s.h(int(a[3]))) })
		return r, failed(r)
	case "plset":
		if s.loc(int(a[1])) == 's' {
			return "panic", true
		}
		l := capnp.PointerList{List: s.h(int(a[1])).List()}
		r := unit(func() error { return l.Set(int(a[2]), s.h(int(a[3]))) })
		return r, failed(r)
	case "setstruct":
		if s.loc(int(a[1])) == 's' {
			return "panic", true
		}
		l := s.h(int(a[1])).List()
		r := unit(func() error { return l.SetStruct(int(a[2]), s.h(int(a[3])).Struct()) })
		return r, failed(r)
	case "copyfrom":
		if s.loc(int(a[1])) == 's' {
			return "panic", true
		}
		st := s.h(int(a[1])).Struct()
		r := unit(func() error { return st.CopyFrom(s.h(int(a[2])).Struct()) })
		return r, failed(r)
	case "setroot":
		r := unit(func() error { return s.Dst.SetRoot(s.h(int(a[1]))) })
		return r, failed(r)
	case "reopen":
		r := Safely(func() string { return s.reopen(f[1]) })
		return r, r != "ok"
	case "rt":
		return s.roundTrip(int(a[1]), int(a[2]), int(a[3])), false
	case "dump":
		return s.dump(f[1]), false
	case "root":
		m := s.msgOf(f[1])
		return s.push(f[1][0], func() (capnp.Ptr, error) { return m.Root() }), false
	case "rlimit":
		return "N" + strconv.FormatUint(s.msgOf(f[1]).VerifReadLimit(), 10), false
	}
	// the read ops of rd.Session on the message the handle lives in
	if len(f) >= 2 {
		hnd := int(a[1])
		l := s.loc(hnd)
		rs := &rd.Session{M: s.msgOf(string(l)), Handles: s.Handles}
		n := len(rs.Handles)
		obs = rs.Do(op)
		for len(s.Handles) < len(rs.Handles) {
			s.Handles = append(s.Handles, rs.Handles[len(s.Handles)])
			s.Loc = append(s.Loc, l)
		}
		_ = n
		return obs, false
	}
	return "badop", false
}

// reopen: serialise the message, decode it (Unmarshal or Decoder.Decode) and continue building
// in the decoded message; handles into the old message are dropped.
func (s *Session) reopen(path string) string {
	b, err := s.Dst.Marshal()
	if err != nil {
		return "err"
	}
	var m *capnp.Message
	if path == "d" {
		m, err = capnp.NewDecoder(bytes.NewReader(b)).Decode()
	} else {
		m, err = capnp.Unmarshal(b)
	}
	if err != nil {
		return "err"
	}
	m.TraverseLimit = s.Dst.TraverseLimit
	m.DepthLimit = s.Dst.DepthLimit
	old := s.Dst
	s.Dst = m
	old.Reset(capnp.SingleSegment(nil)) // the discarded message gives up its capability references
	for i := range s.Handles {
		if s.Loc[i] == 'd' {
			s.Handles[i] = capnp.Ptr{}
		}
	}
	return "ok"
}

func (s *Session) segments(m *capnp.Message) [][]byte {
	var res [][]byte
	n := m.NumSegments()
	for i := int64(0); i < n; i++ {
		seg, err := m.Segment(capnp.SegmentID(i))
		if err != nil {
			res = append(res, nil)
			continue
		}
		res = append(res, seg.Data())
	}
	return res
}

func ints(xs []int) string {
	if len(xs) == 0 {
		return "-"
	}
	return Ints(xs)
}

func (s *Session) dump(l string) string {
	m := s.msgOf(l)
	var parts []string
	for _, d := range s.segments(m) {
		parts = append(parts, fmt.Sprintf("%s/%d", Hx(d), cap(d)))
	}
	var caps, refs []int
	if l == "d" {
		for _, c := range m.CapTable {
			caps = append(caps, clientID(c))
		}
		for _, c := range s.SrcClients {
			refs = append(refs, c.VerifRefs())
		}
	}
	return fmt.Sprintf("D%s|C%s|R%s|%d", strings.Join(parts, ","), ints(caps), ints(refs), m.VerifReadLimit())
}

// expected stream framing of the segments, written from the encoding spec
func frameOf(segs [][]byte) []byte {
	n := len(segs)
	hdr := make([]byte, 0, 8+4*n)
	var w [4]byte
	binary.LittleEndian.PutUint32(w[:], uint32(n-1))
	hdr = append(hdr, w[:]...)
	for _, s := range segs {
		binary.LittleEndian.PutUint32(w[:], uint32(len(s)/8))
		hdr = append(hdr, w[:]...)
	}
	if len(hdr)%8 != 0 {
		hdr = append(hdr, 0, 0, 0, 0)
	}
	for _, s := range segs {
		hdr = append(hdr, s...)
	}
	return hdr
}

// roundTrip: the root's tree after every serialisation path; all must agree.
func (s *Session) roundTrip(dcap, pcap, fuel int) string {
	return Safely(func() string {
		walkRoot := func(m *capnp.Message) string {
			var sb strings.Builder
			p, err := m.Root()
			rd.Walk(&sb, p, err, dcap, pcap, fuel)
			return sb.String()
		}
		var trees []string
		b, err := s.Dst.Marshal()
		if err != nil {
			return "RTERR-marshal"
		}
		if !bytes.Equal(b, frameOf(s.segments(s.Dst))) {
			return "RTFRAME"
		}
		m1, err := capnp.Unmarshal(b)
		if err != nil {
			return "RTERR-unmarshal"
		}
		trees = append(trees, walkRoot(m1))
		pb, err := s.Dst.MarshalPacked()
		if err != nil {
			return "RTERR-marshalpacked"
		}
		m2, err := capnp.UnmarshalPacked(pb)
		if err != nil {
			return "RTERR-unmarshalpacked"
		}
		trees = append(trees, walkRoot(m2))
		var buf bytes.Buffer
		if err := capnp.NewEncoder(&buf).Encode(s.Dst); err != nil {
			return "RTERR-encode"
		}
		m3, err := capnp.NewDecoder(&buf).Decode()
		if err != nil {
			return "RTERR-decode"
		}
		trees = append(trees, walkRoot(m3))
		var pbuf bytes.Buffer
		if err := capnp.NewPackedEncoder(&pbuf).Encode(s.Dst); err != nil {
			return "RTERR-pencode"
		}
		m4, err := capnp.NewPackedDecoder(&pbuf).Decode()
		if err != nil {
			return "RTERR-pdecode"
		}
		trees = append(trees, walkRoot(m4))
		for _, t := range trees[1:] {
			if t != trees[0] {
				return "RTDIFF"
			}
		}
		return "T" + trees[0]
	})
}
