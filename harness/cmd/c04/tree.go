package main

import (
	"fmt"
	"strconv"
	"strings"

	. "verifh/hc"
)

// A value tree chosen first; the program that builds it through the API is derived from it
// (random construction order, junk values overwritten later, the same object set in two
// places, list elements set through standalone structs of a different size).  The expected
// tree is printed from the value, never read back from the message.

type val struct {
	kind    byte // '0' null, 'S' struct, 'L' pointer list, 'M' composite, 'V' primitive, 'B' bits, 'C' cap
	data    []byte
	ptrs    []*val
	dsz, pc int // composite element size
	w       int
	vals    []uint64
	bits    []bool
	idx     int
}

func (v *val) String() string {
	var sb strings.Builder
	v.print(&sb)
	return sb.String()
}

func (v *val) print(sb *strings.Builder) {
	list := func(vs []*val) {
		for i, c := range vs {
			if i > 0 {
				sb.WriteString(",")
			}
			c.print(sb)
		}
	}
	switch v.kind {
	case '0':
		sb.WriteString("0")
	case 'C':
		fmt.Fprintf(sb, "C%d", v.idx)
	case 'S':
		sb.WriteString("S(" + Hx(v.data) + "|")
		list(v.ptrs)
		sb.WriteString(")")
	case 'L':
		fmt.Fprintf(sb, "L%d[", len(v.ptrs))
		list(v.ptrs)
		sb.WriteString("]")
	case 'M':
		fmt.Fprintf(sb, "M%d:%d:%d[", len(v.ptrs), v.dsz, v.pc)
		list(v.ptrs)
		sb.WriteString("]")
	case 'V':
		fmt.Fprintf(sb, "V%d:%d[", v.w, len(v.vals))
		if v.w != 0 {
			for i, x := range v.vals {
				if i > 0 {
					sb.WriteString(",")
				}
				sb.WriteString(strconv.FormatUint(x, 10))
			}
		}
		sb.WriteString("]")
	case 'B':
		fmt.Fprintf(sb, "B%d[", len(v.bits))
		for _, b := range v.bits {
			if b {
				sb.WriteString("1")
			} else {
				sb.WriteString("0")
			}
		}
		sb.WriteString("]")
	}
}

var null = &val{kind: '0'}

func genStructVal(r *Rand, depth int, budget *int, dw, pc int) *val {
	v := &val{kind: 'S', data: make([]byte, 8*dw)}
	for i := range v.data {
		if r.Intn(3) != 0 {
			v.data[i] = byte(r.U64())
		}
	}
	for i := 0; i < pc; i++ {
		if i > 0 && r.Intn(6) == 0 {
			v.ptrs = append(v.ptrs, v.ptrs[r.Intn(i)]) // the same object in two places
			continue
		}
		v.ptrs = append(v.ptrs, genVal(r, depth-1, budget))
	}
	return v
}

func genVal(r *Rand, depth int, budget *int) *val {
	*budget--
	if depth <= 0 || *budget <= 0 {
		if r.Bool() {
			return null
		}
		return &val{kind: 'V', w: 1, vals: []uint64{120, 0}}
	}
	switch r.Pick(2, 6, 2, 3, 3, 2, 1, 1) {
	case 0:
		return null
	case 1:
		return genStructVal(r, depth, budget, r.Pick(2, 4, 2, 1), r.Pick(3, 4, 3, 1))
	case 2:
		n := r.Intn(4)
		v := &val{kind: 'L'}
		for i := 0; i < n; i++ {
			v.ptrs = append(v.ptrs, genVal(r, depth-1, budget))
		}
		return v
	case 3:
		v := &val{kind: 'M', dsz: 8 * r.Pick(2, 4, 2), pc: r.Pick(3, 3, 1)}
		n := r.Intn(4)
		for i := 0; i < n; i++ {
			v.ptrs = append(v.ptrs, genStructVal(r, depth, budget, v.dsz/8, v.pc))
		}
		return v
	case 4:
		v := &val{kind: 'V', w: []int{0, 1, 2, 4, 8}[r.Intn(5)]}
		n := r.Intn(9)
		for i := 0; i < n; i++ {
			x := r.U64()
			if v.w < 8 {
				x &= 1<<(8*uint(v.w)) - 1
			}
			v.vals = append(v.vals, x)
		}
		return v
	case 5:
		v := &val{kind: 'B'}
		n := r.Intn(20)
		for i := 0; i < n; i++ {
			v.bits = append(v.bits, r.Bool())
		}
		return v
	case 6:
		return &val{kind: 'C', idx: r.Intn(3)}
	default: // text
		n := r.Intn(10)
		v := &val{kind: 'V', w: 1}
		for i := 0; i < n; i++ {
			v.vals = append(v.vals, uint64(32+r.Intn(90)))
		}
		v.vals = append(v.vals, 0)
		return v
	}
}

// fillData writes the data section of struct handle h with random-width setters.
func (p *prog) fillData(h int, data []byte) {
	r := p.r
	for o := 0; o < len(data); {
		w := widths[r.Intn(4)]
		for o%w != 0 || o+w > len(data) {
			w /= 2
		}
		var x uint64
		for k := w - 1; k >= 0; k-- {
			x = x<<8 | uint64(data[o+k])
		}
		if x != 0 || r.Intn(4) == 0 {
			if w == 1 && r.Intn(4) == 0 {
				for b := 0; b < 8; b++ {
					if x>>uint(b)&1 == 1 {
						p.do(fmt.Sprintf("setbit:%d:%d:1", h, 8*o+b))
					}
				}
			} else {
				p.do(fmt.Sprintf("setuint:%d:%d:%d:%d", h, o, w, x))
			}
		}
		o += w
	}
}

func (p *prog) junk() int {
	p.do(fmt.Sprintf("newtext:%d:%s", p.pickSeg(), Hx([]byte("junk"))))
	return p.nh() - 1
}

// fillStruct fills struct handle h (data + pointers) from v, whose sizes may differ from the
// handle's (only the common prefix is written).
func (p *prog) fillStruct(h int, v *val) {
	order := p.r.Bool()
	if order {
		p.fillData(h, v.data)
	}
	for i, c := range v.ptrs {
		if p.r.Intn(6) == 0 {
			p.do(fmt.Sprintf("setptr:%d:%d:%d", h, i, p.junk())) // overwritten below
		}
		hc := p.build(c)
		p.do(fmt.Sprintf("setptr:%d:%d:%d", h, i, hc))
	}
	if !order {
		p.fillData(h, v.data)
	}
}

// build creates the object for v and returns a handle to it (a null handle for '0').
func (p *prog) build(v *val) int {
	if h, ok := p.built[v]; ok && v.kind != '0' && v.kind != 'C' {
		p.st.treeAlias++
		return h
	}
	h := p.build1(v)
	if p.built == nil {
		p.built = map[*val]int{}
	}
	p.built[v] = h
	return h
}

func (p *prog) build1(v *val) int {
	r := p.r
	sid := p.pickSeg()
	switch v.kind {
	case '0':
		p.do("newvoid:0:-1") // panics: pushes a null handle
		return p.nh() - 1
	case 'C':
		p.do(fmt.Sprintf("newcap:%d:%d", sid, v.idx))
		return p.nh() - 1
	case 'S':
		dsz := len(v.data)
		if dsz >= 8 && r.Intn(6) == 0 && v.data[dsz-1] == 0 {
			// an unaligned request: NewStruct pads it
			for k := 1 + r.Intn(7); k > 0 && v.data[dsz-1] == 0; k-- {
				dsz--
			}
		}
		p.do(fmt.Sprintf("newstruct:%d:%d:%d", sid, dsz, len(v.ptrs)))
		h := p.nh() - 1
		p.fillStruct(h, v)
		return h
	case 'L':
		p.do(fmt.Sprintf("newplist:%d:%d", sid, len(v.ptrs)))
		h := p.nh() - 1
		for i, c := range v.ptrs {
			if r.Intn(6) == 0 {
				p.do(fmt.Sprintf("plset:%d:%d:%d", h, i, p.junk()))
			}
			p.do(fmt.Sprintf("plset:%d:%d:%d", h, i, p.build(c)))
		}
		return h
	case 'M':
		p.do(fmt.Sprintf("newcomp:%d:%d:%d:%d", sid, v.dsz, v.pc, len(v.ptrs)))
		h := p.nh() - 1
		for i, e := range v.ptrs {
			if r.Intn(3) == 0 {
				// through a standalone struct of another size: List.SetStruct truncates / zero-extends
				dw, pc := v.dsz/8+r.Intn(3)-1, v.pc+r.Intn(3)-1
				if dw < 0 {
					dw = 0
				}
				if pc < 0 {
					pc = 0
				}
				budget := 6
				big := genStructVal(r, 2, &budget, dw, pc)
				for j := 0; j < len(big.data) && j < len(e.data); j++ {
					big.data[j] = e.data[j]
				}
				for j := len(big.data); j < len(e.data); j++ {
					e.data[j] = 0
				}
				for j := range e.ptrs {
					if j < len(big.ptrs) {
						big.ptrs[j] = e.ptrs[j]
					} else {
						e.ptrs[j] = null
					}
				}
				p.st.treeSkew++
				hb := p.build(big)
				if r.Intn(4) == 0 {
					// stale content in the element first
					p.do(fmt.Sprintf("lstruct:%d:%d", h, i))
					he := p.nh() - 1
					if v.dsz > 0 {
						p.do(fmt.Sprintf("setuint:%d:%d:1:255", he, v.dsz-1))
					}
					if v.pc > 0 {
						p.do(fmt.Sprintf("setptr:%d:%d:%d", he, v.pc-1, p.junk()))
					}
				}
				p.do(fmt.Sprintf("setstruct:%d:%d:%d", h, i, hb))
				continue
			}
			p.do(fmt.Sprintf("lstruct:%d:%d", h, i))
			p.fillStruct(p.nh()-1, e)
		}
		return h
	case 'V':
		if v.w == 0 {
			p.do(fmt.Sprintf("newvoid:%d:%d", sid, len(v.vals)))
			return p.nh() - 1
		}
		if v.w == 1 && len(v.vals) > 0 && v.vals[len(v.vals)-1] == 0 && r.Bool() {
			b := make([]byte, len(v.vals)-1)
			for i := range b {
				b[i] = byte(v.vals[i])
			}
			p.do(fmt.Sprintf("newtext:%d:%s", sid, Hx(b)))
			return p.nh() - 1
		}
		if v.w == 1 && r.Bool() {
			b := make([]byte, len(v.vals))
			for i := range b {
				b[i] = byte(v.vals[i])
			}
			p.do(fmt.Sprintf("newdata:%d:%s", sid, Hx(b)))
			return p.nh() - 1
		}
		p.do(fmt.Sprintf("newprim:%d:%d:%d", sid, v.w, len(v.vals)))
		h := p.nh() - 1
		for _, i := range perm(r, len(v.vals)) {
			if v.vals[i] != 0 || r.Intn(3) == 0 {
				p.do(fmt.Sprintf("lsetuint:%d:%d:%d:%d", h, i, v.w, v.vals[i]))
			}
		}
		return h
	case 'B':
		p.do(fmt.Sprintf("newbit:%d:%d", sid, len(v.bits)))
		h := p.nh() - 1
		for _, i := range perm(r, len(v.bits)) {
			flipped := r.Intn(5) == 0
			if flipped {
				p.do(fmt.Sprintf("bitset:%d:%d:%d", h, i, 1-b2i(v.bits[i])))
			}
			if v.bits[i] || flipped || r.Intn(3) == 0 {
				p.do(fmt.Sprintf("bitset:%d:%d:%d", h, i, b2i(v.bits[i])))
			}
		}
		return h
	}
	panic("kind")
}

func b2i(b bool) int {
	if b {
		return 1
	}
	return 0
}

func perm(r *Rand, n int) []int {
	p := make([]int, n)
	for i := range p {
		p[i] = i
	}
	for i := n - 1; i > 0; i-- {
		j := r.Intn(i + 1)
		p[i], p[j] = p[j], p[i]
	}
	return p
}

// genTree: a value tree built through the API; the final walk must print the value.
func genTree(r *Rand, st *genStats) *prog {
	h := &Header{Arena: genArena(r), T: []uint64{0, 0, 1 << 20, 1 << 24}[r.Intn(4)], D: []uint{0, 0, 64, 30}[r.Intn(4)], Fuel: 3000}
	p := &prog{r: r, h: h, st: st}
	setCur(p)
	s, ok := NewSession(h)
	if !ok {
		return p
	}
	p.s = s
	budget := 8 + r.Intn(40)
	root := genStructVal(r, 2+r.Intn(4), &budget, r.Pick(2, 4, 2, 1), 1+r.Pick(3, 4, 3))
	early := r.Bool()
	if early {
		// root first, filled afterwards
		p.do(fmt.Sprintf("newstruct:%d:%d:%d", 0, len(root.data), len(root.ptrs)))
		hr := p.nh() - 1
		p.do(fmt.Sprintf("setroot:%d", hr))
		p.fillStruct(hr, root)
	} else {
		hr := p.build(root)
		p.do(fmt.Sprintf("setroot:%d", hr))
	}
	if p.stopped {
		return p
	}
	p.do("dump:d")
	p.do("root:d")
	p.do(fmt.Sprintf("walk:%d:1000000:1000000:100", p.nh()-1))
	p.marks = append(p.marks, fmt.Sprintf("expect=%d", len(p.ops)-1))
	p.expect = root.String()
	p.do("rt:1000000:1000000:100")
	p.marks = append(p.marks, fmt.Sprintf("expectT=%d", len(p.ops)-1))
	return p
}
