package main

import (
	"fmt"
	"strings"
	"sync"

	. "verifh/hc"
	"verifh/rd"
)

// ---------------------------------------------------------------- handle bookkeeping

type pinfo struct {
	kind      int // -1 null, 0 struct, 1 list, 2 cap
	seg, off  int64
	n         int64
	dsz, pc   int
	comp, bit bool
	member    bool
	loc       byte
	readback  bool // obtained by reading the message (depth-limited), not from a constructor
	age       int  // creation index of the underlying object (list members: of their list)
}

func parseP(s string) pinfo {
	if !strings.HasPrefix(s, "P(") {
		return pinfo{kind: -1}
	}
	var seg, off, ln, dsz, pc int64
	var depth uint64
	var kind, comp, bit, mem int
	fmt.Sscanf(s, "P(%d,%d,%d,%d,%d,%d,%d,%d,%d,%d)", &seg, &off, &ln, &dsz, &pc, &depth, &kind, &comp, &bit, &mem)
	return pinfo{kind: kind, seg: seg, off: off, n: ln, dsz: int(dsz), pc: int(pc), comp: comp == 1, bit: bit == 1, member: mem == 1}
}

// prog is a program under generation: ops are executed against the real API as they are chosen.
type prog struct {
	r       *Rand
	h       *Header
	s       *Session
	ops     []string
	obs     []string
	infos   []pinfo
	stopped bool
	st      *genStats
	marks   []string // oracle annotations for the props file (same=i,j / rb=i,j / expect=i)
	expect  string   // tree mode: the value tree that was written
	built   map[*val]int
}

func (p *prog) do(op string) string {
	if p.stopped {
		return "stopped"
	}
	before := len(p.s.Handles)
	// the op is recorded before it runs: if it never returns the watchdog still has the case
	progMu.Lock()
	p.ops = append(p.ops, op)
	progMu.Unlock()
	res, stop := p.s.Do(op)
	progMu.Lock()
	p.obs = append(p.obs, res)
	progMu.Unlock()
	if len(p.s.Handles) > before {
		pi := parseP(res)
		pi.loc = p.s.Loc[before]
		pi.age = before
		name := op[:strings.IndexByte(op+":", ':')]
		switch name {
		case "root", "sptr", "plat":
			pi.readback = true
		case "lstruct":
			parent := p.infos[atoi(strings.Split(op, ":")[1])]
			pi.readback, pi.age = parent.readback, parent.age
		}
		p.infos = append(p.infos, pi)
	}
	if stop {
		p.stopped = true
	}
	return res
}

// the program being generated / executed, for the per-case watchdog
var (
	curProg *prog
	progMu  sync.Mutex
)

func setCur(p *prog) {
	progMu.Lock()
	curProg = p
	progMu.Unlock()
}

func atoi(s string) int { var x int; fmt.Sscan(s, &x); return x }

func (p *prog) nh() int { return len(p.infos) }

// pick a handle satisfying f (prefers recent ones); -1 if none
func (p *prog) pick(f func(pinfo) bool) int {
	var c []int
	for i, pi := range p.infos {
		if f(pi) {
			c = append(c, i)
		}
	}
	if len(c) == 0 {
		return -1
	}
	if p.r.Intn(3) != 0 {
		k := len(c) - 1 - p.r.Intn(min(len(c), 4))
		return c[k]
	}
	return c[p.r.Intn(len(c))]
}

func (p *prog) nsegs() int { return int(p.s.Dst.NumSegments()) }

func (p *prog) free(sid int) int {
	segs := p.s.segments(p.s.Dst)
	if sid < 0 || sid >= len(segs) {
		return 0
	}
	return cap(segs[sid]) - len(segs[sid])
}

func (p *prog) pickSeg() int {
	n := p.nsegs()
	if n <= 1 {
		return 0
	}
	// prefer segments that still have room, sometimes a full one (=> allocation moves on)
	if p.r.Intn(4) != 0 {
		var c []int
		for i := 0; i < n; i++ {
			if p.free(i) >= 8 {
				c = append(c, i)
			}
		}
		if len(c) > 0 {
			return c[p.r.Intn(len(c))]
		}
	}
	return p.r.Intn(n)
}

// target allocation size in bytes: around the exhaustion point of segment sid, or small
func (p *prog) allocBytes(sid int) int {
	fr := p.free(sid)
	switch p.r.Pick(5, 2, 2, 2, 1) {
	case 0:
		return 8 * (1 + p.r.Intn(5))
	case 1:
		if fr >= 8 && fr <= 4096 {
			return fr // fills the segment exactly
		}
	case 2:
		if fr >= 16 && fr <= 4096 {
			return fr - 8 // leaves exactly one word (room for one landing pad)
		}
	case 3:
		if fr <= 4096 {
			return fr + 8 // does not fit
		}
	default:
		return 8 * (1 + p.r.Intn(40))
	}
	return 8 * (1 + p.r.Intn(4))
}

func randBytes(r *Rand, n int) []byte {
	b := make([]byte, n)
	for i := range b {
		b[i] = byte(r.U64())
	}
	return b
}

var widths = []int{1, 2, 4, 8}

func randVal(r *Rand, w int) uint64 {
	v := r.U64()
	switch r.Intn(5) {
	case 0:
		v = 0
	case 1:
		v = ^uint64(0)
	case 2:
		v = 1
	}
	if w < 8 && r.Intn(4) != 0 {
		v &= 1<<(8*uint(w)) - 1 // mostly in range; sometimes wider (truncation by the Go conversion)
	}
	if w < 8 {
		v &= 1<<(8*uint(w)) - 1
	}
	return v
}

// ---------------------------------------------------------------- adaptive op choice

func (p *prog) newObject() {
	r := p.r
	sid := p.pickSeg()
	total := p.allocBytes(sid)
	switch r.Pick(6, 3, 2, 2, 3, 1, 2, 2, 1) {
	case 0: // struct of the given total size
		words := total / 8
		pc := r.Intn(words + 1)
		if pc > 6 && r.Intn(3) != 0 {
			pc = r.Intn(4)
		}
		dsz := 8 * (words - pc)
		if r.Intn(6) == 0 && dsz >= 8 {
			dsz -= r.Intn(8) // not word aligned: padded by NewStruct
		}
		if r.Intn(25) == 0 {
			dsz, pc = 0, 0
		}
		p.do(fmt.Sprintf("newstruct:%d:%d:%d", sid, dsz, pc))
	case 1:
		w := widths[r.Intn(4)]
		n := total / w
		if r.Intn(5) == 0 && n > 0 {
			n -= r.Intn(min(n, 8))
		}
		p.do(fmt.Sprintf("newprim:%d:%d:%d", sid, w, n))
	case 2:
		n := total * 8
		if r.Intn(2) == 0 {
			n -= r.Intn(64)
			if n < 0 {
				n = 0
			}
		}
		p.do(fmt.Sprintf("newbit:%d:%d", sid, n))
	case 3:
		p.do(fmt.Sprintf("newplist:%d:%d", sid, total/8))
	case 4: // composite: tag + n * words
		words := total/8 - 1
		if words < 0 {
			words = 0
		}
		ew := 1 + r.Intn(4)
		if r.Intn(12) == 0 {
			ew = 0
		}
		n := r.Intn(4)
		if ew > 0 {
			n = words / ew
		}
		pc := 0
		if ew > 0 {
			pc = r.Intn(ew + 1)
		}
		dsz := 8 * (ew - pc)
		if r.Intn(8) == 0 && dsz >= 8 {
			dsz -= 1 + r.Intn(7)
		}
		p.do(fmt.Sprintf("newcomp:%d:%d:%d:%d", sid, dsz, pc, n))
	case 5:
		p.do(fmt.Sprintf("newvoid:%d:%d", sid, r.Intn(9)))
	case 6:
		n := total - 1 - r.Intn(8)
		if n < 0 || n > 600 {
			n = r.Intn(12)
		}
		b := randBytes(r, n)
		for i := range b {
			b[i] = byte(32 + int(b[i])%90)
		}
		p.do(fmt.Sprintf("newtext:%d:%s", sid, Hx(b)))
	case 7:
		n := total - r.Intn(8)
		if n < 0 || n > 600 {
			n = r.Intn(12)
		}
		p.do(fmt.Sprintf("newdata:%d:%s", sid, Hx(randBytes(r, n))))
	default:
		p.do(fmt.Sprintf("newcap:%d:%d", sid, r.Intn(4)))
	}
}

func (p *prog) dataSet(loc byte) {
	r := p.r
	h := p.pick(func(pi pinfo) bool { return pi.loc == loc && (pi.kind == 0 || pi.kind == 1) })
	if h < 0 {
		return
	}
	pi := p.infos[h]
	if pi.kind == 0 {
		if r.Intn(5) == 0 {
			n := r.Intn(8*pi.dsz + 3)
			v := r.Intn(2)
			if p.do(fmt.Sprintf("setbit:%d:%d:%d", h, n, v)) == "ok" {
				p.st.setters++
				p.marks = append(p.marks, fmt.Sprintf("rb=%d,%d", len(p.ops)-1, len(p.ops)))
				p.do(fmt.Sprintf("bit:%d:%d", h, n))
			}
			return
		}
		w := widths[r.Intn(4)]
		off := r.Intn(pi.dsz + 2)
		if r.Intn(3) != 0 && pi.dsz >= w {
			off = w * r.Intn(pi.dsz/w)
		}
		if p.do(fmt.Sprintf("setuint:%d:%d:%d:%d", h, off, w, randVal(r, w))) == "ok" {
			p.st.setters++
			p.marks = append(p.marks, fmt.Sprintf("rb=%d,%d", len(p.ops)-1, len(p.ops)))
			p.do(fmt.Sprintf("uint:%d:%d:%d", h, off, w))
		}
		return
	}
	if pi.n <= 0 {
		return
	}
	i := r.Intn(int(min64(pi.n, 1<<20)))
	if r.Intn(4) == 0 {
		i = int(pi.n) - 1
	}
	if r.Intn(40) == 0 {
		i = int(pi.n) + r.Intn(2)
	}
	switch {
	case pi.bit:
		if p.do(fmt.Sprintf("bitset:%d:%d:%d", h, i, r.Intn(2))) == "ok" {
			p.st.setters++
			p.marks = append(p.marks, fmt.Sprintf("rb=%d,%d", len(p.ops)-1, len(p.ops)))
			p.do(fmt.Sprintf("bitat:%d:%d", h, i))
		}
	case pi.comp && r.Intn(3) != 0:
		p.do(fmt.Sprintf("lstruct:%d:%d", h, i))
	default:
		w := pi.dsz
		if pi.comp || pi.pc > 0 || w == 0 || r.Intn(20) == 0 {
			w = widths[r.Intn(4)]
		}
		if p.do(fmt.Sprintf("lsetuint:%d:%d:%d:%d", h, i, w, randVal(r, w))) == "ok" {
			p.st.setters++
			p.marks = append(p.marks, fmt.Sprintf("rb=%d,%d", len(p.ops)-1, len(p.ops)))
			p.do(fmt.Sprintf("uintat:%d:%d:%d", h, i, w))
		}
	}
}

// allowCycle: the destination's traversal limit is small enough to stop a runaway copy
func (p *prog) allowReadback() bool { return p.h.T != 0 && p.h.T <= 4096 }

func (p *prog) srcFilter(pi pinfo) bool {
	if pi.kind < 0 {
		return p.r.Intn(8) == 0
	}
	if pi.loc == 'd' && pi.readback && !p.allowReadback() {
		return false
	}
	return true
}

func (p *prog) ptrSet() {
	r := p.r
	hs := p.pick(p.srcFilter)
	if hs < 0 {
		return
	}
	src := p.infos[hs]
	dstOK := func(pi pinfo) bool {
		if pi.loc != 'd' {
			return false
		}
		if pi.readback && !p.allowReadback() {
			return false
		}
		// without a small traversal limit keep the object graph acyclic: containers are older
		return true
	}
	acyclic := func(h int) bool { return p.allowReadback() || p.infos[h].age < src.age || src.loc == 's' }
	switch r.Pick(6, 3, 2, 1, 1) {
	case 0:
		h := p.pick(func(pi pinfo) bool { return dstOK(pi) && pi.kind == 0 && pi.pc > 0 })
		if h < 0 || !acyclic(h) {
			return
		}
		i := r.Intn(p.infos[h].pc)
		if r.Intn(50) == 0 {
			i = p.infos[h].pc
		}
		p.noteCopy(src, p.infos[h])
		p.do(fmt.Sprintf("setptr:%d:%d:%d", h, i, hs))
	case 1:
		h := p.pick(func(pi pinfo) bool {
			return dstOK(pi) && pi.kind == 1 && pi.n > 0 && !pi.bit && (pi.pc > 0 || r.Intn(30) == 0)
		})
		if h < 0 || !acyclic(h) {
			return
		}
		p.noteCopy(src, p.infos[h])
		p.do(fmt.Sprintf("plset:%d:%d:%d", h, r.Intn(int(p.infos[h].n)), hs))
	case 2:
		if src.kind != 0 && r.Intn(10) != 0 {
			return
		}
		h := p.pick(func(pi pinfo) bool { return dstOK(pi) && pi.kind == 1 && pi.n > 0 && (pi.comp || r.Intn(6) == 0) })
		if h < 0 || !acyclic(h) {
			return
		}
		p.st.setstruct++
		p.noteSkew(src, p.infos[h])
		p.do(fmt.Sprintf("setstruct:%d:%d:%d", h, r.Intn(int(p.infos[h].n)), hs))
	case 3:
		if src.kind != 0 && r.Intn(10) != 0 {
			return
		}
		h := p.pick(func(pi pinfo) bool { return dstOK(pi) && pi.kind == 0 })
		if h < 0 || !acyclic(h) {
			return
		}
		p.st.copyfrom++
		p.noteSkew(src, p.infos[h])
		p.do(fmt.Sprintf("copyfrom:%d:%d", h, hs))
	default:
		if src.loc == 'd' && src.readback && !p.allowReadback() {
			return
		}
		p.noteCopy(src, pinfo{})
		p.do(fmt.Sprintf("setroot:%d", hs))
	}
}

func (p *prog) noteCopy(src, dst pinfo) {
	p.st.ptrsets++
	if src.loc == 's' && src.kind >= 0 {
		p.st.crossCopies++
	}
	if src.loc == 'd' && src.member {
		p.st.memberCopies++
	}
	if src.loc == 'd' && src.kind >= 0 && src.kind != 2 && src.seg != dst.seg {
		p.st.crossSeg++
	}
}

func (p *prog) noteSkew(src, dst pinfo) {
	if src.kind != 0 {
		return
	}
	switch {
	case src.dsz > dst.dsz || src.pc > dst.pc:
		p.st.skewSmaller++
	case src.dsz < dst.dsz || src.pc < dst.pc:
		p.st.skewLarger++
	default:
		p.st.skewSame++
	}
}

func (p *prog) navigate(loc byte) {
	r := p.r
	h := p.pick(func(pi pinfo) bool { return pi.loc == loc && (pi.kind == 0 || pi.kind == 1) })
	if h < 0 {
		p.do("root:" + string(loc))
		return
	}
	pi := p.infos[h]
	if pi.kind == 0 {
		switch r.Pick(5, 1, 1) {
		case 0:
			p.do(fmt.Sprintf("sptr:%d:%d", h, r.Intn(pi.pc+1)))
		case 1:
			p.do(fmt.Sprintf("hasptr:%d:%d", h, r.Intn(pi.pc+1)))
		default:
			p.do(fmt.Sprintf("uint:%d:%d:%d", h, r.Intn(pi.dsz+2), widths[r.Intn(4)]))
		}
		return
	}
	if pi.n <= 0 {
		p.do(fmt.Sprintf("info:%d", h))
		return
	}
	i := r.Intn(int(min64(pi.n, 1<<20)))
	switch {
	case pi.bit:
		p.do(fmt.Sprintf("bitat:%d:%d", h, i))
	case pi.comp || (pi.pc > 0 && r.Intn(3) == 0) || r.Intn(4) == 0:
		// List.Struct(i) also of primitive lists (element = struct with a 1/2/4/8-byte data
		// section, a list member) and of pointer lists: sources of copies
		if r.Intn(3) == 0 && (pi.comp || pi.pc > 0) {
			p.do(fmt.Sprintf("plat:%d:%d", h, i))
		} else {
			p.do(fmt.Sprintf("lstruct:%d:%d", h, i))
			if pi.dsz%8 != 0 {
				p.st.oddMembers++
			}
		}
	case pi.pc > 0:
		p.do(fmt.Sprintf("plat:%d:%d", h, i))
	default:
		switch r.Intn(4) {
		case 0:
			p.do(fmt.Sprintf("text:%d", h))
		case 1:
			p.do(fmt.Sprintf("data:%d", h))
		default:
			p.do(fmt.Sprintf("uintat:%d:%d:%d", h, i, widths[r.Intn(4)]))
		}
	}
}

func walkArgs(r *Rand) string {
	c := [][3]int{{64, 4, 6}, {4096, 16, 3}, {64, 2, 11}, {512, 8, 4}, {16, 3, 7}}[r.Intn(5)]
	return fmt.Sprintf("%d:%d:%d", c[0], c[1], c[2])
}

// ---------------------------------------------------------------- limits / arenas / sources

var limitsT = []uint64{0, 0, 64, 200, 1024, 4096, 1 << 16, 1 << 16, 1 << 20}
var limitsD = []uint{0, 0, 0, 1, 2, 3, 5, 8, 63, 64, 65}
var srcT = []uint64{0, 0, 0, 8, 16, 64, 200, 1024, 1 << 16, 1 << 20}
var srcD = []uint{0, 0, 0, 1, 2, 3, 4, 6, 8, 64}

func genArena(r *Rand) string {
	capOf := func() int {
		switch r.Intn(6) {
		case 0:
			return r.Intn(4) * 4 // 0,4,8,12: around the root word
		case 1:
			return 8 * (1 + r.Intn(4))
		case 2:
			return 8 * (1 + r.Intn(24))
		case 3:
			return 8*(1+r.Intn(24)) + r.Intn(8) // capacity not a multiple of the word size
		case 4:
			return 1016 + 8*r.Intn(4) // around the 1024-byte growth threshold of nextAlloc
		default:
			return 8 * (1 + r.Intn(80))
		}
	}
	switch r.Pick(3, 2, 2, 2, 8) {
	case 0:
		return fmt.Sprintf("S:%d", capOf())
	case 1:
		return "S:nil"
	case 2:
		return "M:nil"
	case 3:
		return fmt.Sprintf("M:%d", capOf())
	default:
		n := 1 + r.Intn(7)
		cs := make([]int, n)
		for i := range cs {
			cs[i] = 8 * (1 + r.Intn(14))
			if r.Intn(12) == 0 {
				cs[i] = r.Intn(3) * 4
			}
			if r.Intn(10) == 0 {
				cs[i] += r.Intn(8)
			}
		}
		if cs[0] < 8 && r.Intn(4) != 0 {
			cs[0] = 8 * (1 + r.Intn(6))
		}
		return "R:" + Ints(cs)
	}
}

func genSource(r *Rand, st *genStats) *rd.Msg {
	for try := 0; try < 5; try++ {
		var segs [][]byte
		kind := ""
		switch r.Pick(10, 6, 3, 2) {
		case 0:
			if s, ok := rd.GenBuilt(r, 2+r.Intn(5), 10+r.Intn(50)); ok {
				segs, kind = s, "built"
			}
		case 1:
			if s, ok := rd.GenBuilt(r, 2+r.Intn(4), 10+r.Intn(40)); ok {
				segs, kind = rd.Mutate(r, s), "mutated"
			}
		case 2:
			segs, kind = rd.GenCyclic(r), "cyclic"
		default:
			segs, kind = rd.GenRaw(r), "raw"
		}
		size := 0
		for _, s := range segs {
			size += len(s)
		}
		if segs == nil || size > 6000 {
			continue
		}
		st.srcKinds[kind]++
		return &rd.Msg{Segs: segs, T: srcT[r.Intn(len(srcT))], D: srcD[r.Intn(len(srcD))], Arena: "M"}
	}
	return &rd.Msg{Segs: [][]byte{rd.Words(0)}, Arena: "M"}
}

// genAdaptive generates one adaptive program. copyHeavy: C16 emphasis.
func genAdaptive(r *Rand, st *genStats, copyHeavy bool) *prog {
	h := &Header{Arena: genArena(r), T: limitsT[r.Intn(len(limitsT))], D: limitsD[r.Intn(len(limitsD))], Fuel: 3000}
	if copyHeavy || r.Intn(3) == 0 {
		h.Src = genSource(r, st)
		h.NCaps = r.Intn(4)
		if h.Src.T == 0 || h.Src.T > 1<<16 {
			// a default traversal limit is safe only with a depth limit (cyclic sources)
			if h.Src.D == 0 || h.Src.D > 16 {
				h.Src.D = uint(1 + r.Intn(12))
			}
		}
	}
	p := &prog{r: r, h: h, st: st}
	setCur(p)
	s, ok := NewSession(h)
	if !ok {
		return p
	}
	p.s = s
	nops := 6 + r.Intn(45)
	hasSrc := h.Src != nil
	if hasSrc {
		p.do("root:s")
	}
	for k := 0; k < nops && !p.stopped; k++ {
		wNew, wData, wPtr, wNavD, wNavS, wDataS, wMisc := 8, 6, 8, 3, 0, 0, 2
		if hasSrc {
			wNavS, wDataS = 5, 1
			if copyHeavy {
				wNew, wPtr, wNavS, wDataS = 5, 10, 7, 2
			}
		}
		switch r.Pick(wNew, wData, wPtr, wNavD, wNavS, wDataS, wMisc) {
		case 0:
			p.newObject()
		case 1:
			p.dataSet('d')
		case 2:
			p.ptrSet()
		case 3:
			p.navigate('d')
		case 4:
			p.navigate('s')
		case 5:
			p.dataSet('s')
		default:
			switch r.Intn(5) {
			case 0:
				p.do("dump:d")
			case 1:
				p.do("rlimit:d")
			case 2:
				p.do(fmt.Sprintf("addcap:%d", p.s.nAdded))
				p.s.nAdded++
			case 3:
				if hh := p.pick(func(pi pinfo) bool { return pi.kind >= 0 }); hh >= 0 {
					p.do(fmt.Sprintf("walk:%d:%s", hh, walkArgs(r)))
				}
			default:
				p.do("root:d")
			}
		}
		if r.Intn(60) == 0 {
			p.reopen()
		}
	}
	p.finish(hasSrc, copyHeavy)
	return p
}

// reopen: Marshal, decode, keep building in the decoded message (whose buffers have cap = len)
func (p *prog) reopen() {
	if p.do("reopen:"+[]string{"u", "d"}[p.r.Intn(2)]) != "ok" {
		return
	}
	p.st.reopens++
	for i := range p.infos {
		if p.infos[i].loc == 'd' {
			p.infos[i].kind = -1
		}
	}
	p.do("dump:d")
	p.do("root:d")
}

// finish: independence (mutate both sides, re-read both) and the final observations
func (p *prog) finish(hasSrc, copyHeavy bool) {
	r := p.r
	if p.stopped {
		return
	}
	wa := walkArgs(r)
	p.do("dump:d")
	p.do("root:d")
	rootH := p.nh() - 1
	if hasSrc && (copyHeavy || r.Bool()) {
		// walk the copy, mutate the source, walk the copy again: same tree
		p.do(fmt.Sprintf("walk:%d:%s", rootH, wa))
		i0 := len(p.ops) - 1
		for k := 0; k < 1+r.Intn(4) && !p.stopped; k++ {
			p.dataSet('s')
		}
		p.do(fmt.Sprintf("walk:%d:%s", rootH, wa))
		p.marks = append(p.marks, fmt.Sprintf("same=%d,%d", i0, len(p.ops)-1))
		// and the other way round
		p.do("root:s")
		sh := p.nh() - 1
		p.do(fmt.Sprintf("walk:%d:%s", sh, wa))
		j0 := len(p.ops) - 1
		for k := 0; k < 1+r.Intn(4) && !p.stopped; k++ {
			p.dataSet('d')
		}
		p.do(fmt.Sprintf("walk:%d:%s", sh, wa))
		p.marks = append(p.marks, fmt.Sprintf("same=%d,%d", j0, len(p.ops)-1))
		p.do("dump:s")
	}
	p.do(fmt.Sprintf("walk:%d:%s", rootH, wa))
	p.do("rt:" + wa)
	p.do("dump:d")
}

// lineLocked: case line and observations so far (progMu held by the caller)
func (p *prog) lineLocked() (string, string) {
	ops := strings.Join(p.ops, ";")
	if ops == "" {
		ops = "-"
	}
	if p.s == nil {
		return p.h.String() + " " + ops, "new:ok"
	}
	return p.h.String() + " " + ops, strings.Join(append([]string{"new:ok"}, p.obs...), ";")
}

func (p *prog) line() (string, string) {
	ops := strings.Join(p.ops, ";")
	if ops == "" {
		ops = "-"
	}
	line := p.h.String() + " " + ops
	if len(p.marks) > 0 {
		line += " marks=" + strings.Join(p.marks, "/")
	}
	if p.expect != "" {
		line += " expect=" + p.expect
	}
	if p.s == nil {
		return line, "new:err"
	}
	return line, strings.Join(append([]string{"new:ok"}, p.obs...), ";")
}

func min(a, b int) int {
	if a < b {
		return a
	}
	return b
}
func min64(a, b int64) int64 {
	if a < b {
		return a
	}
	return b
}
