// Command c04: builder-side correspondence shared by C04 (write/read-back), C05 (validity of
// the produced bytes) and C16 (deep copy): adaptive random builder programs and programs
// derived from value trees, run against the real builder API in arenas whose capacities are
// chosen around the exhaustion points; every op's result, byte-for-byte dumps (segments,
// lengths, capacities, capability table) and read-back trees are the observations.
package main

import (
	"encoding/binary"
	"flag"
	"fmt"
	"strconv"
	"strings"
	"time"

	capnp "capnproto.org/go/capnp/v3"
	. "verifh/hc"
	"verifh/rd"
)

var mode = flag.String("mode", "c04", "c04 | c05 | c16")

func main() { Main(run) }

type genStats struct {
	setters, ptrsets, crossCopies, memberCopies, crossSeg int
	setstruct, copyfrom                                   int
	skewSmaller, skewLarger, skewSame                     int
	treeSkew, treeAlias, reopens, oddMembers              int
	srcKinds                                              map[string]int
	ptrKinds                                              map[string]int
	arenas                                                map[string]int
	regrow, newSegs, stoppedErr, stoppedPanic             int
	progsWithFar, progsWithDfar                           int
}

// ---------------------------------------------------------------- pointer census of a dump

// census classifies every pointer word reachable from the root of the dumped segments.
func census(segs [][]byte, kinds map[string]int) (far, dfar int) {
	type key struct{ seg, off int }
	seen := map[key]bool{}
	word := func(seg, off int) (uint64, bool) {
		if seg < 0 || seg >= len(segs) || off < 0 || off+8 > len(segs[seg]) {
			return 0, false
		}
		return binary.LittleEndian.Uint64(segs[seg][off:]), true
	}
	var visit func(seg, off, depth int)
	var object func(seg, base int, w uint64, depth int)
	budget := 200000 // statistics only: bogus tags (huge counts) must not make the census run away
	visit = func(seg, off, depth int) {
		k := key{seg, off}
		budget--
		if budget < 0 || seen[k] || depth > 200 {
			return
		}
		seen[k] = true
		w, ok := word(seg, off)
		if !ok {
			return
		}
		switch {
		case w == 0:
			kinds["null"]++
		case w&3 == 2 && w&4 == 0: // far
			kinds["far"]++
			far++
			ts, to := int(w>>32), int(uint32(w)>>3)*8
			pw, ok := word(ts, to)
			if ok {
				object(ts, to+8, pw, depth)
			}
		case w&3 == 2: // double far
			kinds["double-far"]++
			dfar++
			ps, po := int(w>>32), int(uint32(w)>>3)*8
			f, ok1 := word(ps, po)
			tag, ok2 := word(ps, po+8)
			if ok1 && ok2 {
				object(int(f>>32), int(uint32(f)>>3)*8, tag, depth)
			}
		case w&3 == 3:
			kinds["cap"]++
		default:
			if w&3 == 0 {
				kinds["near-struct"]++
			} else {
				kinds["near-list"]++
			}
			object(seg, off+8, w, depth)
		}
	}
	object = func(seg, base int, w uint64, depth int) {
		addr := base + int(int32(uint32(w))>>2)*8
		switch w & 3 {
		case 0:
			dw, pc := int(w>>32&0xffff), int(w>>48)
			for i := 0; i < pc && budget >= 0; i++ {
				visit(seg, addr+8*dw+8*i, depth+1)
			}
		case 1:
			et, n := int(w>>32&7), int(w>>35)
			switch et {
			case 6:
				for i := 0; i < n && i < 1<<16 && budget >= 0; i++ {
					visit(seg, addr+8*i, depth+1)
				}
			case 7:
				tag, ok := word(seg, addr)
				if !ok {
					return
				}
				cnt, dw, pc := int(int32(uint32(tag))>>2), int(tag>>32&0xffff), int(tag>>48)
				for e := 0; e < cnt && e < 1<<16 && budget >= 0; e++ {
					for i := 0; i < pc && budget >= 0; i++ {
						visit(seg, addr+8+8*(e*(dw+pc)+dw+i), depth+1)
					}
				}
			}
		}
	}
	visit(0, 0, 0)
	return
}

func parseDump(obs string) [][]byte {
	if !strings.HasPrefix(obs, "D") {
		return nil
	}
	body := obs[1:strings.IndexByte(obs, '|')]
	var segs [][]byte
	if body == "" {
		return nil
	}
	for _, s := range strings.Split(body, ",") {
		segs = append(segs, Unhx(s[:strings.IndexByte(s, '/')]))
	}
	return segs
}

func classOf(p *prog) string {
	if p.s == nil {
		return "new-err"
	}
	if p.stopped {
		return "stopped-" + p.obs[len(p.obs)-1]
	}
	for _, o := range p.obs {
		if o == "panic" {
			return "some-panic"
		}
	}
	for _, o := range p.obs {
		if o == "err" {
			return "some-err"
		}
	}
	return "clean"
}

func (st *genStats) account(p *prog) {
	kind, _, _ := strings.Cut(p.h.Arena, ":")
	if strings.HasSuffix(p.h.Arena, ":nil") {
		kind += "nil"
	}
	st.arenas[kind]++
	if p.s == nil {
		return
	}
	if p.stopped {
		if p.obs[len(p.obs)-1] == "panic" {
			st.stoppedPanic++
		} else {
			st.stoppedErr++
		}
	}
	// last dump of the destination
	var first, last string
	for i, o := range p.obs {
		if strings.HasPrefix(p.ops[i], "dump:d") {
			if first == "" {
				first = o
			}
			last = o
		}
	}
	if last == "" {
		last = p.s.dump("d")
	}
	segs := parseDump(last)
	far, dfar := census(segs, st.ptrKinds)
	if far > 0 {
		st.progsWithFar++
	}
	if dfar > 0 {
		st.progsWithDfar++
	}
	if kind == "S" || kind == "Snil" {
		if len(segs) == 1 && len(segs[0]) > 8 {
			// regrowth: the single segment now exceeds its initial capacity
			c := 0
			fmt.Sscan(strings.TrimPrefix(p.h.Arena, "S:"), &c)
			if len(segs[0]) > c {
				st.regrow++
			}
		}
	} else {
		n0 := 1
		if kind == "R" {
			n0 = len(strings.Split(p.h.Arena, ","))
		}
		if len(segs) > n0 {
			st.newSegs++
		}
	}
}

// validCase: the bytes Message.Marshal produces, split into segments by a frame parser
// written from the encoding document, and the tree the library itself reads from them.
func validLine(s *Session) string {
	b, err := s.Dst.Marshal()
	if err != nil {
		return "V _ 20"
	}
	segs, ok := splitFrame(b)
	if !ok {
		return "V _ 20"
	}
	hs := make([]string, len(segs))
	for i, sg := range segs {
		hs[i] = Hx(sg)
	}
	// the walk unfolds shared and cyclic structure: pick the deepest fuel whose unfolding is small
	fuel := 1
	for _, f := range []int{20, 8, 4, 2} {
		if unfoldSize(segs, f, 30000) <= 30000 {
			fuel = f
			break
		}
	}
	return fmt.Sprintf("V %s %d", strings.Join(hs, ","), fuel)
}

// validObsLine: the library's own reading of the bytes in a validity case line
func validObsLine(line string) string {
	f := strings.Fields(line)
	var segs [][]byte
	if f[1] == "_" {
		return "marshal-err"
	}
	for _, x := range strings.Split(f[1], ",") {
		segs = append(segs, Unhx(x))
	}
	fuel, _ := strconv.Atoi(f[2])
	return validObs(segs, fuel)
}

// unfoldSize: number of pointer visits of a walk of the root with the given depth fuel
// (memoised on (pointer position, fuel); saturates above limit).
func unfoldSize(segs [][]byte, fuel, limit int) int {
	type key struct{ seg, off, fuel int }
	memo := map[key]int{}
	word := func(seg, off int) (uint64, bool) {
		if seg < 0 || seg >= len(segs) || off < 0 || off+8 > len(segs[seg]) {
			return 0, false
		}
		return binary.LittleEndian.Uint64(segs[seg][off:]), true
	}
	var visit func(seg, off, fuel int) int
	sat := func(a, b int) int {
		if a+b > limit {
			return limit + 1
		}
		return a + b
	}
	visit = func(seg, off, fuel int) int {
		if fuel <= 0 {
			return 1
		}
		k := key{seg, off, fuel}
		if v, ok := memo[k]; ok {
			return v
		}
		memo[k] = limit + 1
		n := 1
		w, ok := word(seg, off)
		if ok && w != 0 {
			tseg, base := seg, off+8
			switch {
			case w&3 == 2 && w&4 == 0:
				tseg, base = int(w>>32), int(uint32(w)>>3)*8+8
				w, ok = word(tseg, base-8)
			case w&3 == 2:
				ps, po := int(w>>32), int(uint32(w)>>3)*8
				f, ok1 := word(ps, po)
				tag, ok2 := word(ps, po+8)
				ok = ok1 && ok2
				tseg, base, w = int(f>>32), int(uint32(f)>>3)*8, tag
			}
			if ok && w&3 < 2 {
				addr := base + int(int32(uint32(w))>>2)*8
				if w&3 == 0 {
					dw, pc := int(w>>32&0xffff), int(w>>48)
					for i := 0; i < pc && n <= limit; i++ {
						n = sat(n, visit(tseg, addr+8*dw+8*i, fuel-1))
					}
				} else {
					et, cnt := int(w>>32&7), int(w>>35)
					switch et {
					case 6:
						for i := 0; i < cnt && n <= limit; i++ {
							n = sat(n, visit(tseg, addr+8*i, fuel-1))
						}
					case 7:
						if tag, ok := word(tseg, addr); ok {
							c, dw, pc := int(int32(uint32(tag))>>2), int(tag>>32&0xffff), int(tag>>48)
							for e := 0; e < c && n <= limit; e++ {
								n = sat(n, 1)
								for i := 0; i < pc && n <= limit; i++ {
									n = sat(n, visit(tseg, addr+8+8*(e*(dw+pc)+dw+i), fuel-2))
								}
							}
						}
					default:
						n = sat(n, cnt/64)
					}
				}
			}
		}
		memo[k] = n
		return n
	}
	return visit(0, 0, fuel)
}

func validObs(segs [][]byte, fuel int) string {
	return Safely(func() string {
		m, err := capnp.Unmarshal(frameOf(segs))
		if err != nil {
			return "unmarshal-err"
		}
		m.TraverseLimit = 1 << 40
		var sb strings.Builder
		p, err := m.Root()
		rd.Walk(&sb, p, err, 1000000, 1000000, fuel)
		return "valid;T" + sb.String()
	})
}

func splitFrame(b []byte) ([][]byte, bool) {
	if len(b) < 8 {
		return nil, false
	}
	n := int(binary.LittleEndian.Uint32(b)) + 1
	hdr := 4 + 4*n
	if hdr%8 != 0 {
		hdr += 4
	}
	if len(b) < hdr {
		return nil, false
	}
	var segs [][]byte
	pos := hdr
	for i := 0; i < n; i++ {
		sz := 8 * int(binary.LittleEndian.Uint32(b[4+4*i:]))
		if pos+sz > len(b) {
			return nil, false
		}
		segs = append(segs, b[pos:pos+sz])
		pos += sz
	}
	return segs, pos == len(b)
}

var caseTimeout = flag.Duration("casetimeout", 20*time.Second, "watchdog per case")

// withWatchdog runs f; false = f did not finish within the per-case timeout (f keeps running
// in its goroutine: the caller must stop using what f touches).
func withWatchdog(f func()) bool {
	done := make(chan struct{})
	go func() {
		defer close(done)
		f()
	}()
	select {
	case <-done:
		return true
	case <-time.After(*caseTimeout):
		return false
	}
}

var replayObs []string

func setReplayObs(r []string) {
	progMu.Lock()
	replayObs = append([]string{}, r...)
	progMu.Unlock()
}

func replayCase(line string) (string, string) {
	f := strings.Fields(line)
	if len(f) >= 3 && f[0] == "V" {
		var segs [][]byte
		if f[1] != "_" {
			for _, x := range strings.Split(f[1], ",") {
				segs = append(segs, Unhx(x))
			}
		}
		fuel, _ := strconv.Atoi(f[2])
		return "valid", validObs(segs, fuel)
	}
	if len(f) < 8 {
		return "bad", "bad-case"
	}
	h := ParseCase(f)
	s, ok := NewSession(h)
	if !ok {
		return f[0], "new:err"
	}
	res := []string{"new:ok"}
	setReplayObs(res)
	if len(f) > 8 && f[8] != "-" {
		for _, op := range strings.Split(f[8], ";") {
			o, stop := s.Do(op)
			res = append(res, o)
			setReplayObs(res)
			if stop {
				break
			}
		}
	}
	return f[0], strings.Join(res, ";")
}

func run(out *Out, r *Rand, tier string, replay []string) {
	if replay != nil {
		for _, l := range replay {
			var k, obs string
			l := l
			if !withWatchdog(func() { k, obs = replayCase(l) }) {
				progMu.Lock()
				k, obs = "hang", strings.Join(append(append([]string{}, replayObs...), "hang"), ";")
				progMu.Unlock()
				out.Case(k, l, obs, "hang", true)
				break
			}
			out.Case(k, l, obs, Cls(obs), true)
		}
		out.Close("replay")
		return
	}
	n := map[string]int{"c04": 1500, "c05": 1000, "c16": 1200}[*mode]
	if tier == "thorough" {
		n *= 20
	}
	st := &genStats{srcKinds: map[string]int{}, ptrKinds: map[string]int{}, arenas: map[string]int{}}
	skipped := 0
	hung := 0
	for i := 0; i < n && hung == 0; i++ {
		var vl, vo, kind, line, obs string
		var p *prog
		emitted := false
		stage := "program"
		ok := withWatchdog(func() {
			switch *mode {
			case "c16":
				if r.Intn(8) == 0 {
					p, kind = genTree(r, st), "tree"
				} else {
					p, kind = genAdaptive(r, st, true), "copy"
				}
			case "c05":
				if r.Intn(2) == 0 {
					p, kind = genTree(r, st), "tree"
				} else {
					p, kind = genAdaptive(r, st, false), "adaptive"
				}
			default:
				if r.Intn(3) == 0 {
					p, kind = genTree(r, st), "tree"
				} else {
					p, kind = genAdaptive(r, st, false), "adaptive"
				}
			}
			line, obs = p.line()
			if len(line) > 400000 || len(obs) > 800000 {
				skipped++
				return
			}
			st.account(p)
			out.Case(kind, line, obs, classOf(p), p.s != nil && len(p.ops) >= 4)
			emitted = true
			// a message without a root word (hand-made arena whose first segment is smaller than
			// one word) cannot have a tree attached: outside C05
			if segs := p.s0(); *mode == "c05" && p.s != nil && len(segs) > 0 && len(segs[0]) >= 8 {
				stage = "valid"
				vl = validLine(p.s)
				if p.expect != "" && !p.stopped {
					vl += " expect=" + p.expect
				}
				vo = validObsLine(vl)
				out.Case("valid-"+kind, vl, vo, Cls(strings.Replace(vo, ";", " ", 1)), true)
			}
		})
		if !ok {
			// the case did not finish in time: it becomes an observation ("hang") with a replay;
			// the stuck goroutine cannot be stopped, so generation ends here
			hung++
			progMu.Lock()
			cp := curProg
			if stage == "valid" && vl != "" {
				out.Case("valid-hang", vl, "hang", "hang", true)
			} else if cp != nil && !emitted {
				hl, ho := cp.lineLocked()
				out.Case("hang", hl, ho+";hang", "hang", true)
			} else {
				out.Case("hang", "harness-internal-hang", "hang", "hang", true)
			}
			progMu.Unlock()
		}
	}
	out.Extra["x_hung_cases"] = hung
	out.Extra["x_pointer_census"] = st.ptrKinds
	out.Extra["x_arenas"] = st.arenas
	out.Extra["x_source_kinds"] = st.srcKinds
	out.Extra["x_counts"] = map[string]int{
		"data_setters_with_readback": st.setters, "pointer_sets": st.ptrsets,
		"cross_message_copies": st.crossCopies, "list_member_copies": st.memberCopies,
		"cross_segment_targets": st.crossSeg, "setstruct": st.setstruct, "copyfrom": st.copyfrom,
		"skew_dst_smaller": st.skewSmaller, "skew_dst_larger": st.skewLarger, "skew_same": st.skewSame,
		"reopened_after_decode": st.reopens, "list_struct_of_sub_word_lists": st.oddMembers, "tree_setstruct_skew": st.treeSkew, "tree_aliased_targets": st.treeAlias,
		"single_segment_regrowth": st.regrow, "multi_new_segments": st.newSegs,
		"stopped_at_err": st.stoppedErr, "stopped_at_panic": st.stoppedPanic,
		"programs_with_far": st.progsWithFar, "programs_with_double_far": st.progsWithDfar,
		"skipped_oversized": skipped,
	}
	out.Close("builder programs: (adaptive) ops chosen over the live handle pool - constructors of every list kind, text, data, capabilities with sizes around the exhaustion point of the preferred segment, data setters with immediate read-back, SetPtr/PointerList.Set/SetStruct/CopyFrom/SetRoot from handles of the same message (aliasing, list members => copies, overwrites) and of a second message (library-built / mutated / cyclic / raw sources with small limits), mutations on both sides and re-walks; (tree) a random value tree built in random order with junk overwritten, shared targets and SetStruct version skew, expected tree printed from the value; arenas Single(nil|cap c), Multi(nil|[cap c]), raw multi [c1..ck]. non-trivial = message created and at least 4 ops")
}

func (p *prog) s0() [][]byte {
	if p.s == nil {
		return nil
	}
	return p.s.segments(p.s.Dst)
}
