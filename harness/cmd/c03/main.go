// Command c03: the values read through the public accessors versus the independent
// specification-level decoder (coq/Spec, extracted): messages produced by a
// layout-randomising encoder written for this check (enc.go), messages built by the library,
// mutated and raw ones; each exercised by an adaptively generated accessor op list, field
// sweeps on every struct met, and a whole-tree walk.  Limits are generous (the specification
// has none): T = 2^62, D = 1000.
package main

import (
	"fmt"
	"strconv"
	"strings"

	capnp "capnproto.org/go/capnp/v3"
	. "verifh/hc"
	"verifh/rd"
)

func main() { Main(run) }

const bigT = uint64(1) << 62
const bigD = uint(1000)

type pinfo struct {
	kind      int // -1 null/err, 0 struct, 1 list, 2 cap
	n         int64
	dsz, pc   int
	comp, bit bool
}

// canon projects rd's pointer observation P(seg,off,len,dsz,pc,depth,kind,comp,bit,member)
// to what the specification determines: no depth limit, no list-member flag.
func canon(s string) (string, pinfo) {
	if !strings.HasPrefix(s, "P(") {
		return s, pinfo{kind: -1}
	}
	var seg, off, ln, dsz, pc int64
	var depth uint64
	var kind, comp, bit, mem int
	fmt.Sscanf(s, "P(%d,%d,%d,%d,%d,%d,%d,%d,%d,%d)", &seg, &off, &ln, &dsz, &pc, &depth, &kind, &comp, &bit, &mem)
	pi := pinfo{kind: kind, n: ln, dsz: int(dsz), pc: int(pc), comp: comp == 1, bit: bit == 1}
	switch kind {
	case 2:
		return fmt.Sprintf("K%d", uint32(ln)), pi
	case 0:
		return fmt.Sprintf("S(%d,%d,%d,%d)", seg, off, dsz, pc), pi
	default:
		return fmt.Sprintf("L(%d,%d,%d,%d,%d,%d,%d)", seg, off, ln, dsz, pc, comp, bit), pi
	}
}

type session struct {
	s     *rd.Session
	infos []pinfo
}

func isPtrOp(name string) bool {
	switch name {
	case "root", "sptr", "lstruct", "plat":
		return true
	}
	return false
}

// do executes one op against the implementation and returns the canonical observation.
func (c *session) do(op string) string {
	f := strings.Split(op, ":")
	arg := func(i int) int64 { v, _ := strconv.ParseInt(f[i], 10, 64); return v }
	hnd := func(i int) capnp.Ptr {
		h := int(arg(i))
		if h < 0 || h >= len(c.s.Handles) {
			return capnp.Ptr{}
		}
		return c.s.Handles[h]
	}
	switch f[0] {
	case "usweep":
		st := hnd(1).Struct()
		w := arg(2)
		return Safely(func() string {
			n := int(st.Size().DataSize) + 9
			vs := make([]string, n)
			for o := 0; o < n; o++ {
				off := capnp.DataOffset(o)
				var v uint64
				switch w {
				case 1:
					v = uint64(st.Uint8(off))
				case 2:
					v = uint64(st.Uint16(off))
				case 4:
					v = uint64(st.Uint32(off))
				default:
					v = st.Uint64(off)
				}
				vs[o] = strconv.FormatUint(v, 10)
			}
			return "U" + strings.Join(vs, ",")
		})
	case "bsweep":
		st := hnd(1).Struct()
		return Safely(func() string {
			n := 8*int(st.Size().DataSize) + 9
			var sb strings.Builder
			sb.WriteString("Y")
			for b := 0; b < n; b++ {
				if st.Bit(capnp.BitOffset(b)) {
					sb.WriteString("1")
				} else {
					sb.WriteString("0")
				}
			}
			return sb.String()
		})
	case "walk":
		res := c.s.Do(op)
		if i := strings.LastIndexByte(res, '@'); i >= 0 {
			res = res[:i]
		}
		return "T" + res
	case "info":
		res, _ := canon(c.s.Do(op))
		return res
	}
	res := c.s.Do(op)
	if isPtrOp(f[0]) {
		r, pi := canon(res)
		c.infos = append(c.infos, pi)
		return r
	}
	return res
}

// genOps: adaptive accessor op list (structs are swept, lists are read with every accessor
// family incl. the upgrade reads), then a whole-tree walk from the root.
func genOps(r *Rand, m *rd.Msg, nops int) (string, string) {
	c := &session{s: &rd.Session{M: m.Build()}}
	var ops, obs []string
	do := func(op string) string {
		res := c.do(op)
		ops = append(ops, op)
		obs = append(obs, res)
		return res
	}
	do("root")
	swept := map[int]bool{}
	for k := 0; k < nops; k++ {
		h := r.Intn(len(c.infos))
		if r.Intn(3) != 0 {
			h = len(c.infos) - 1 - r.Intn(min(len(c.infos), 4))
		}
		pi := c.infos[h]
		switch pi.kind {
		case 0:
			if !swept[h] && pi.dsz <= 64 && r.Intn(3) != 0 {
				swept[h] = true
				do(fmt.Sprintf("usweep:%d:%d", h, []int{1, 2, 4, 8}[r.Intn(4)]))
				if r.Bool() {
					do(fmt.Sprintf("bsweep:%d", h))
				}
				for i := 0; i <= pi.pc; i++ {
					do(fmt.Sprintf("hasptr:%d:%d", h, i))
				}
				continue
			}
			switch r.Pick(6, 1, 2, 1) {
			case 0:
				do(fmt.Sprintf("sptr:%d:%d", h, r.Intn(pi.pc+2)))
			case 1:
				do(fmt.Sprintf("hasptr:%d:%d", h, r.Intn(pi.pc+2)))
			case 2:
				do(fmt.Sprintf("uint:%d:%d:%d", h, r.Intn(pi.dsz+9), []int{1, 2, 4, 8}[r.Intn(4)]))
			default:
				do(fmt.Sprintf("bit:%d:%d", h, r.Intn(8*pi.dsz+9)))
			}
		case 1:
			if pi.n <= 0 {
				do(fmt.Sprintf("text:%d", h))
				do(fmt.Sprintf("data:%d", h))
				continue
			}
			i := int64(r.Intn(int(min64(pi.n, 1<<30))))
			if r.Intn(3) == 0 {
				i = pi.n - 1
			}
			switch r.Pick(4, 4, 4, 2, 1, 1) {
			case 0:
				do(fmt.Sprintf("lstruct:%d:%d", h, i))
			case 1:
				do(fmt.Sprintf("plat:%d:%d", h, i))
			case 2:
				do(fmt.Sprintf("uintat:%d:%d:%d", h, i, []int{1, 2, 4, 8}[r.Intn(4)]))
			case 3:
				do(fmt.Sprintf("bitat:%d:%d", h, i))
			case 4:
				do(fmt.Sprintf("text:%d", h))
			default:
				do(fmt.Sprintf("data:%d", h))
			}
		default:
			switch r.Intn(3) {
			case 0:
				do(fmt.Sprintf("text:%d", h))
			case 1:
				do(fmt.Sprintf("sptr:%d:0", h))
			default:
				do(fmt.Sprintf("info:%d", h))
			}
		}
	}
	cp := walkCaps(r)
	do(fmt.Sprintf("walk:0:%d:%d:%d", cp[0], cp[1], cp[2]))
	return strings.Join(ops, ";"), strings.Join(obs, ";")
}

// walkCaps: caps whose product bounds the output (pcap^fuel nodes)
func walkCaps(r *Rand) [3]int {
	return [][3]int{{64, 2, 11}, {4096, 16, 3}, {64, 4, 6}, {16, 1, 40}, {8, 3, 7}, {512, 8, 4}, {1 << 20, 64, 2}}[r.Intn(7)]
}

func min(a, b int) int {
	if a < b {
		return a
	}
	return b
}
func min64(a, b int64) int64 {
	if a < b {
		return a
	}
	return b
}

func classOf(obs string) string {
	switch {
	case strings.Contains(obs, "panic") || strings.Contains(obs, "!"):
		return "panic"
	case strings.HasPrefix(obs, "err"):
		return "root-err"
	case strings.Contains(obs, "err") || strings.Contains(obs, "E"):
		return "some-err"
	}
	return "clean"
}

// runCase replays "ARENA T D segs ops [d:p:f=tree]".
func runCase(line string) string {
	f := strings.Fields(line)
	m := rd.ParseHeader(f)
	c := &session{s: &rd.Session{M: m.Build()}}
	var res []string
	if len(f) > 4 && f[4] != "_" {
		for _, op := range strings.Split(f[4], ";") {
			res = append(res, c.do(op))
		}
	}
	if len(f) > 5 {
		if i := strings.IndexByte(f[5], '='); i >= 0 {
			res = append(res, "X"+f[5][i+1:])
		}
	}
	return strings.Join(res, ";")
}

func run(out *Out, r *Rand, tier string, replay []string) {
	if replay != nil {
		for _, l := range replay {
			f := strings.Fields(l)
			obs := runCase(l)
			out.Case(f[0], l, obs, classOf(obs), true)
		}
		out.Close("replay")
		return
	}
	n := 6000
	if tier == "thorough" {
		n = 150000
	}
	skipped := 0
	emit := func(kind string, segs [][]byte, expect string) {
		m := &rd.Msg{Segs: segs, T: bigT, D: bigD, Arena: "M"}
		if len(segs) == 1 && r.Bool() {
			m.Arena = "S"
		}
		ops, obs := genOps(r, m, 6+r.Intn(40))
		line := m.Header() + " " + ops
		if expect != "" {
			line += " " + expect
			obs += ";X" + expect[strings.IndexByte(expect, '=')+1:]
		}
		if len(obs) > 200000 || len(line) > 300000 {
			skipped++
			return
		}
		out.Case(kind, line, obs, classOf(obs), strings.Count(obs, "S(")+strings.Count(obs, "L(") >= 2)
	}
	for i := 0; i < n; i++ {
		switch r.Pick(12, 5, 2, 5, 1) {
		case 0:
			segs, expect := GenEncoded(r)
			emit("encoded", segs, expect)
		case 1:
			if segs, ok := rd.GenBuilt(r, 2+r.Intn(5), 10+r.Intn(60)); ok {
				emit("built", segs, "")
			}
		case 2:
			emit("raw", rd.GenRaw(r), "")
		case 3:
			if r.Bool() {
				segs, _ := GenEncoded(r)
				emit("mutated", rd.Mutate(r, segs), "")
			} else if segs, ok := rd.GenBuilt(r, 2+r.Intn(4), 10+r.Intn(40)); ok {
				emit("mutated", rd.Mutate(r, segs), "")
			}
		default:
			segs := rd.GenCyclic(r)
			if len(segs[0]) > 1<<16 {
				continue // the multi-megabyte bit list belongs to C01
			}
			emit("cyclic", segs, "")
		}
	}
	// large List(Bool): the elements around index 1<<22 (byte offset 1<<19) and the last ones
	for _, n := range []uint32{1<<22 - 1, 1 << 22, 1<<22 + 1, 1<<22 + 777} {
		seg := make([]byte, 8+(n+7)/8)
		copy(seg, rd.Words(rd.ListPtr(0, 1, n)))
		for k := 0; k < 256; k++ {
			seg[8+r.Intn(len(seg)-8)] = byte(r.U64())
		}
		seg[8+(1<<19)-1] |= 0x80
		if len(seg) > 8+(1<<19) {
			seg[8+(1<<19)] |= 0x01
		}
		seg[len(seg)-1] = 0xff
		for len(seg)%8 != 0 {
			seg = append(seg, 0)
		}
		m := &rd.Msg{Segs: [][]byte{seg}, T: bigT, D: bigD, Arena: "S"}
		c := &session{s: &rd.Session{M: m.Build()}}
		ops := []string{"root"}
		for _, i := range []int64{0, 1, 1<<22 - 2, 1<<22 - 1, 1 << 22, 1<<22 + 1, 1<<22 + 8, int64(n) - 2, int64(n) - 1, int64(r.Intn(int(n)))} {
			if i >= 0 && i < int64(n) {
				ops = append(ops, fmt.Sprintf("bitat:0:%d", i))
			}
		}
		ops = append(ops, "info:0")
		var obs []string
		for _, op := range ops {
			obs = append(obs, c.do(op))
		}
		o := strings.Join(obs, ";")
		out.Case("bigbits", m.Header()+" "+strings.Join(ops, ";")+" valid", o, classOf(o), true) // "valid": spec-valid by construction
	}
	out.Extra["x_skipped_oversized"] = skipped
	out.Close("messages: layout-randomised encodings of random value trees (1..5 segments, near/far/double-far per edge, section sizes shorter/longer than the value, list upgrades, padding garbage), messages built by the library, mutations of both, raw pointer-shaped words, cyclic templates; T=2^62, D=1000; ops chosen adaptively + field sweeps 0..DataSize+8 + whole-tree walk; encoded messages also carry the tree the encoder started from. non-trivial = at least two struct/list pointers were obtained")
}
