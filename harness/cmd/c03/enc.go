package main

import (
	. "verifh/hc"
	"verifh/rd"
)

// GenEncoded (stub)
func GenEncoded(r *Rand) ([][]byte, string) {
	for {
		if segs, ok := rd.GenBuilt(r, 3, 20); ok {
			return segs, ""
		}
	}
}
