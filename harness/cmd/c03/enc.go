package main

// An encoder written for this check only (it shares no code with the library under test):
// random value trees are laid out into 1..5 segments with random placement order, garbage
// words between objects, and for every edge a random choice between a near pointer, a far
// pointer (landing pad in the target segment) and a double-far pointer (pad anywhere).
// Together with the segments it returns the tree it started from, printed in the format of
// rd.Walk under the given caps.

import (
	"encoding/binary"
	"fmt"
	"strconv"
	"strings"

	. "verifh/hc"
	"verifh/rd"
)

const (
	vNull = iota
	vCap
	vStruct
	vList
)

type val struct {
	kind int
	cap  uint32
	// struct (also the elements of a composite list)
	data []byte // data section as encoded (multiple of 8 bytes)
	ptrs []*val
	// list
	lk    int // size code 0..7
	n     int
	prims []uint64
	bits  []bool
	elems []*val // code 6: any values; code 7: structs of identical section sizes
	dw    int    // code 7: per-element data words
	pc    int    // code 7: per-element pointers
	// layout
	seg, addr int // word address of the content (tag word for code 7)
	zaddr     bool // zero-sized struct placed at an arbitrary in-bounds address
}

type gen struct {
	r      *Rand
	budget int
	objs   []*val
}

func (g *gen) randBytes(n int) []byte {
	b := make([]byte, n)
	for i := range b {
		switch g.r.Intn(4) {
		case 0:
			b[i] = 0
		default:
			b[i] = byte(g.r.U64())
		}
	}
	return b
}

func (g *gen) structVal(depth int) *val {
	r := g.r
	v := &val{kind: vStruct}
	dw := r.Pick(3, 4, 3, 2, 1)
	if r.Intn(25) == 0 {
		dw = 5 + r.Intn(8)
	}
	pc := r.Pick(3, 4, 3, 2, 1)
	if r.Intn(30) == 0 {
		pc = 5 + r.Intn(6)
	}
	v.data = g.randBytes(8 * dw)
	if dw > 0 && r.Intn(4) == 0 { // trailing words zero: what a writer of an older schema leaves
		k := r.Intn(dw + 1)
		for i := 8 * k; i < len(v.data); i++ {
			v.data[i] = 0
		}
	}
	for i := 0; i < pc; i++ {
		v.ptrs = append(v.ptrs, g.value(depth-1))
	}
	g.objs = append(g.objs, v)
	return v
}

func (g *gen) value(depth int) *val {
	r := g.r
	g.budget--
	if depth <= 0 || g.budget <= 0 {
		switch r.Intn(4) {
		case 0:
			return &val{kind: vCap, cap: uint32(r.Intn(5))}
		case 1:
			return g.primList(2, r.Intn(5), true)
		default:
			return &val{kind: vNull}
		}
	}
	switch r.Pick(3, 8, 2, 2, 4, 1, 2, 4, 3, 2, 2) {
	case 0:
		return &val{kind: vNull}
	case 1:
		return g.structVal(depth)
	case 2: // text
		return g.primList(2, 1+r.Intn(12), true)
	case 3: // data
		return g.primList(2, r.Intn(14), false)
	case 4:
		return g.primList(2+r.Intn(4), r.Intn(7), false)
	case 5: // void
		v := &val{kind: vList, lk: 0, n: r.Intn(9)}
		if r.Intn(6) == 0 {
			v.n = 1<<29 - 1 - r.Intn(3)
		}
		g.objs = append(g.objs, v)
		return v
	case 6: // bits
		v := &val{kind: vList, lk: 1, n: r.Intn(40)}
		for i := 0; i < v.n; i++ {
			v.bits = append(v.bits, r.Bool())
		}
		g.objs = append(g.objs, v)
		return v
	case 7: // composite
		return g.composite(depth, -1, nil)
	case 8: // pointer list
		v := &val{kind: vList, lk: 6, n: r.Intn(5)}
		for i := 0; i < v.n; i++ {
			v.elems = append(v.elems, g.value(depth-1))
		}
		g.objs = append(g.objs, v)
		return v
	case 9: // primitive list encoded as a struct list (upgrade)
		w := []int{1, 2, 4, 8}[r.Intn(4)]
		n := r.Intn(5)
		first := make([]uint64, n)
		for i := range first {
			first[i] = r.U64()
		}
		return g.composite(depth, w, first)
	default:
		return &val{kind: vCap, cap: uint32(r.U64() >> uint(32+r.Intn(32)))}
	}
}

func (g *gen) primList(code, n int, text bool) *val {
	v := &val{kind: vList, lk: code, n: n}
	w := []int{0, 0, 1, 2, 4, 8}[code]
	for i := 0; i < n; i++ {
		x := g.r.U64()
		if w < 8 {
			x &= 1<<(8*uint(w)) - 1
		}
		if text {
			x = uint64(32 + g.r.Intn(90))
		}
		v.prims = append(v.prims, x)
	}
	if text && n > 0 {
		v.prims[n-1] = 0
		if g.r.Intn(12) == 0 {
			v.prims[n-1] = 'x' // not NUL-terminated: Text is rejected, Data is fine
		}
	}
	g.objs = append(g.objs, v)
	return v
}

// composite list; w > 0: the upgraded form of a list of w-byte primitives (first data field)
func (g *gen) composite(depth int, w int, first []uint64) *val {
	r := g.r
	v := &val{kind: vList, lk: 7}
	v.dw = r.Pick(3, 5, 2, 1)
	v.pc = r.Pick(4, 4, 2, 1)
	v.n = r.Intn(5)
	if w > 0 {
		v.n = len(first)
		if v.dw == 0 {
			v.dw = 1
		}
	}
	for i := 0; i < v.n; i++ {
		e := &val{kind: vStruct, data: g.randBytes(8 * v.dw)}
		if w > 0 {
			x := first[i]
			for k := 0; k < w; k++ {
				e.data[k] = byte(x >> (8 * uint(k)))
			}
		}
		for j := 0; j < v.pc; j++ {
			e.ptrs = append(e.ptrs, g.value(depth-1))
		}
		v.elems = append(v.elems, e)
	}
	g.objs = append(g.objs, v)
	return v
}

// content size in words
func (v *val) words() int {
	if v.kind == vStruct {
		return len(v.data)/8 + len(v.ptrs)
	}
	switch v.lk {
	case 0:
		return 0
	case 1:
		return (v.n + 63) / 64
	case 2, 3, 4, 5:
		w := []int{0, 0, 1, 2, 4, 8}[v.lk]
		return (v.n*w + 7) / 8
	case 6:
		return v.n
	default:
		return 1 + v.n*(v.dw+v.pc)
	}
}

type layout struct {
	r    *Rand
	segs [][]uint64
}

func (l *layout) garbage(seg int) {
	r := l.r
	for k := r.Pick(5, 2, 1); k > 0; k-- {
		var w uint64
		switch r.Intn(3) {
		case 0:
			w = r.U64()
		case 1:
			w = rd.RandPtrWord(r, len(l.segs), len(l.segs[seg]))
		default:
			w = 0xffffffffffffffff
		}
		l.segs[seg] = append(l.segs[seg], w)
	}
}

func (l *layout) alloc(seg, n int) int {
	l.garbage(seg)
	a := len(l.segs[seg])
	l.segs[seg] = append(l.segs[seg], make([]uint64, n)...)
	return a
}

// the pointer word for v relative to a base word address (offset = addr - base), or the tag
// of a double-far pad (rel = false: offset 0)
func (v *val) ptrWord(off int32) uint64 {
	if v.kind == vStruct {
		return rd.StructPtr(off, uint16(len(v.data)/8), uint16(len(v.ptrs)))
	}
	n := v.n
	if v.lk == 7 {
		n = v.n * (v.dw + v.pc)
	}
	return rd.ListPtr(off, uint8(v.lk), uint32(n))
}

// writeEdge stores a pointer to v into word (seg, slot).
func (l *layout) writeEdge(seg, slot int, v *val, mode *[3]int) {
	r := l.r
	switch v.kind {
	case vNull:
		l.segs[seg][slot] = 0
		return
	case vCap:
		l.segs[seg][slot] = rd.CapPtr(v.cap)
		return
	}
	// 0 near, 1 far, 2 double-far
	m := r.Pick(2, 2, 1)
	if v.seg == seg {
		m = r.Pick(6, 1, 1)
	}
	if v.seg != seg && m == 0 {
		m = 1
	}
	mode[m]++
	zero := v.kind == vStruct && v.words() == 0
	switch m {
	case 0:
		if zero && v.addr == slot+1 {
			v.addr = slot // offset 0 with zero sizes would be the null pointer: use offset -1
		}
		l.segs[seg][slot] = v.ptrWord(int32(v.addr - slot - 1))
	case 1:
		pad := l.alloc(v.seg, 1)
		if zero && v.addr == pad+1 {
			v.addr = pad
		}
		l.segs[v.seg][pad] = v.ptrWord(int32(v.addr - pad - 1))
		l.segs[seg][slot] = rd.FarPtr(uint32(v.seg), uint32(pad), false)
	default:
		ps := r.Intn(len(l.segs))
		pad := l.alloc(ps, 2)
		l.segs[ps][pad] = rd.FarPtr(uint32(v.seg), uint32(v.addr), false)
		l.segs[ps][pad+1] = v.ptrWord(0)
		l.segs[seg][slot] = rd.FarPtr(uint32(ps), uint32(pad), true)
	}
}

func putBytes(ws []uint64, at int, b []byte) {
	for i, x := range b {
		ws[at+i/8] |= uint64(x) << (8 * uint(i%8))
	}
}

// GenEncoded returns the segments of a random message and "dcap:pcap:fuel=<tree>".
func GenEncoded(r *Rand) ([][]byte, string) {
	g := &gen{r: r, budget: 8 + r.Intn(40)}
	root := g.value(2 + r.Intn(4))
	if r.Intn(8) != 0 && root.kind != vStruct {
		root = g.structVal(2 + r.Intn(3))
	}
	l := &layout{r: r, segs: make([][]uint64, 1+r.Pick(3, 3, 2, 1, 1))}
	l.segs[0] = []uint64{0} // root pointer
	// placement: every object in a random segment, in random order
	objs := g.objs
	for i := len(objs) - 1; i > 0; i-- {
		j := r.Intn(i + 1)
		objs[i], objs[j] = objs[j], objs[i]
	}
	for _, v := range objs {
		v.seg = r.Intn(len(l.segs))
		v.addr = l.alloc(v.seg, v.words())
	}
	// a zero-sized struct may be anywhere inside its segment (also at its very end / start)
	for _, v := range objs {
		if v.kind == vStruct && v.words() == 0 && r.Intn(3) == 0 {
			v.addr = r.Intn(len(l.segs[v.seg]) + 1)
			if r.Intn(4) == 0 {
				v.addr = 0
			}
		}
	}
	// contents
	var mode [3]int
	var emitStruct func(v *val, seg, addr int)
	emitStruct = func(v *val, seg, addr int) {
		putBytes(l.segs[seg], addr, v.data)
		for i, p := range v.ptrs {
			l.writeEdge(seg, addr+len(v.data)/8+i, p, &mode)
		}
	}
	for _, v := range objs {
		ws := l.segs[v.seg]
		if v.kind == vStruct {
			emitStruct(v, v.seg, v.addr)
			continue
		}
		switch v.lk {
		case 1:
			for i, b := range v.bits {
				if b {
					ws[v.addr+i/64] |= 1 << uint(i%64)
				}
			}
			if v.n%64 != 0 && r.Bool() { // garbage in the padding bits
				ws[v.addr+v.n/64] |= r.U64() << uint(v.n%64)
			}
		case 2, 3, 4, 5:
			w := []int{0, 0, 1, 2, 4, 8}[v.lk]
			b := make([]byte, 8*v.words())
			for i, x := range v.prims {
				for k := 0; k < w; k++ {
					b[i*w+k] = byte(x >> (8 * uint(k)))
				}
			}
			for i := v.n * w; i < len(b); i++ { // padding bytes
				if r.Bool() {
					b[i] = byte(r.U64())
				}
			}
			putBytes(ws, v.addr, b)
		case 6:
			for i, p := range v.elems {
				l.writeEdge(v.seg, v.addr+i, p, &mode)
			}
		case 7:
			ws[v.addr] = rd.StructPtr(int32(v.n), uint16(v.dw), uint16(v.pc))
			for i, e := range v.elems {
				emitStruct(e, v.seg, v.addr+1+i*(v.dw+v.pc))
			}
		}
	}
	l.writeEdge(0, 0, root, &mode)
	for s := range l.segs { // trailing garbage
		if r.Intn(3) == 0 {
			l.garbage(s)
		}
	}
	segs := make([][]byte, len(l.segs))
	for i, ws := range l.segs {
		segs[i] = make([]byte, 8*len(ws))
		for j, w := range ws {
			binary.LittleEndian.PutUint64(segs[i][8*j:], w)
		}
	}
	cp := walkCaps(r)
	var sb strings.Builder
	root.tree(&sb, cp[0], cp[1], cp[2])
	return segs, fmt.Sprintf("%d:%d:%d=%s", cp[0], cp[1], cp[2], sb.String())
}

func capN(n, c int) int {
	if n > c {
		return c
	}
	return n
}

// tree prints the value in the format of rd.Walk under the caps.
func (v *val) tree(sb *strings.Builder, dcap, pcap, fuel int) {
	switch v.kind {
	case vNull:
		sb.WriteString("0")
		return
	}
	if fuel == 0 {
		sb.WriteString("F")
		return
	}
	switch v.kind {
	case vCap:
		fmt.Fprintf(sb, "C%d", v.cap)
	case vStruct:
		sb.WriteString("S(" + Hx(v.data[:capN(len(v.data), dcap)]) + "|")
		for i := 0; i < capN(len(v.ptrs), pcap); i++ {
			if i > 0 {
				sb.WriteString(",")
			}
			v.ptrs[i].tree(sb, dcap, pcap, fuel-1)
		}
		sb.WriteString(")")
	case vList:
		k := capN(v.n, pcap)
		switch v.lk {
		case 0:
			fmt.Fprintf(sb, "V0:%d[]", v.n)
		case 1:
			fmt.Fprintf(sb, "B%d[", v.n)
			for i := 0; i < k; i++ {
				if v.bits[i] {
					sb.WriteString("1")
				} else {
					sb.WriteString("0")
				}
			}
			sb.WriteString("]")
		case 2, 3, 4, 5:
			fmt.Fprintf(sb, "V%d:%d[", []int{0, 0, 1, 2, 4, 8}[v.lk], v.n)
			for i := 0; i < k; i++ {
				if i > 0 {
					sb.WriteString(",")
				}
				sb.WriteString(strconv.FormatUint(v.prims[i], 10))
			}
			sb.WriteString("]")
		case 6:
			fmt.Fprintf(sb, "L%d[", v.n)
			for i := 0; i < k; i++ {
				if i > 0 {
					sb.WriteString(",")
				}
				v.elems[i].tree(sb, dcap, pcap, fuel-1)
			}
			sb.WriteString("]")
		default:
			fmt.Fprintf(sb, "M%d:%d:%d[", v.n, 8*v.dw, v.pc)
			for i := 0; i < k; i++ {
				if i > 0 {
					sb.WriteString(",")
				}
				v.elems[i].tree(sb, dcap, pcap, fuel-1)
			}
			sb.WriteString("]")
		}
	}
}
