// Command c05s: "an independent decoder reconstructs exactly the tree that was written".
// Random value trees are written into messages through the public builder API only (structs,
// all list kinds, text, data, capabilities, null; arenas Single / Multi(nil) / pre-sized raw
// multi-segment arenas with capacities around the exhaustion points so that near, far and
// double-far pointers all occur; decoy values that are overwritten; bottom-up and top-down
// pointer setting; List.SetStruct (forced deep copy); subtrees built in ANOTHER message and
// attached with SetPtr / SetRoot (cross-message deep copy)).  For each message the harness
// emits the Message.Marshal bytes and the tree it believes it wrote -- from its own abstract
// record, never by reading back.  The extracted specification decoder (coq/Spec, STRICT mode)
// decodes the bytes and evaluates strict_valid_message; tree and verdict must match.
package main

import (
	"encoding/binary"
	"fmt"
	"strconv"
	"strings"

	capnp "capnproto.org/go/capnp/v3"
	. "verifh/hc"
)

func main() { Main(run) }

const (
	vNull = iota
	vCap
	vStruct
	vList
)

// val: the abstract record of one written value
type val struct {
	kind  int
	cap   uint32
	data  []byte // struct / composite element: the data section
	ptrs  []*val
	lk    int // list size code 0..7
	n     int
	prims []uint64
	bits  []bool
	elems []*val
	dw    int
	pc    int
}

type gen struct {
	r      *Rand
	budget int
	nocaps bool
}

func (g *gen) bytes(n int) []byte {
	b := make([]byte, n)
	for i := range b {
		if g.r.Intn(4) != 0 {
			b[i] = byte(g.r.U64())
		}
	}
	return b
}

func (g *gen) structVal(depth, dw, pc int) *val {
	v := &val{kind: vStruct, data: g.bytes(8 * dw)}
	for i := 0; i < pc; i++ {
		v.ptrs = append(v.ptrs, g.value(depth-1))
	}
	return v
}

func (g *gen) value(depth int) *val {
	r := g.r
	g.budget--
	if depth <= 0 || g.budget <= 0 {
		switch r.Intn(5) {
		case 0:
			if !g.nocaps {
				return &val{kind: vCap, cap: uint32(r.Intn(4))}
			}
			return &val{kind: vNull}
		case 1:
			return g.prim(2, r.Intn(6), true)
		case 2:
			return g.structVal(0, r.Intn(3), 0)
		default:
			return &val{kind: vNull}
		}
	}
	switch r.Pick(2, 8, 3, 2, 4, 1, 2, 5, 3, 1) {
	case 0:
		return &val{kind: vNull}
	case 1:
		return g.structVal(depth, r.Pick(3, 4, 3, 1), r.Pick(3, 4, 3, 1))
	case 2:
		return g.prim(2, r.Intn(12), true)
	case 3:
		return g.prim(2, r.Intn(14), false)
	case 4:
		return g.prim(2+r.Intn(4), r.Intn(7), false)
	case 5:
		return &val{kind: vList, lk: 0, n: r.Intn(9)}
	case 6:
		v := &val{kind: vList, lk: 1, n: r.Intn(70)}
		for i := 0; i < v.n; i++ {
			v.bits = append(v.bits, r.Bool())
		}
		return v
	case 7:
		v := &val{kind: vList, lk: 7, dw: r.Pick(3, 5, 2, 1), pc: r.Pick(4, 4, 2)}
		v.n = r.Pick(3, 3, 3, 2, 1)
		for i := 0; i < v.n; i++ {
			v.elems = append(v.elems, g.structVal(depth, v.dw, v.pc))
		}
		return v
	case 8:
		v := &val{kind: vList, lk: 6, n: r.Pick(2, 3, 3, 2)}
		for i := 0; i < v.n; i++ {
			v.elems = append(v.elems, g.value(depth-1))
		}
		return v
	default:
		if g.nocaps {
			return &val{kind: vNull}
		}
		return &val{kind: vCap, cap: uint32(r.U64() >> uint(32+r.Intn(32)))}
	}
}

// prim: byte/2/4/8-byte list; text = byte list ending in NUL (as NewTextFromBytes writes it)
func (g *gen) prim(code, n int, text bool) *val {
	v := &val{kind: vList, lk: code, n: n}
	w := []int{0, 0, 1, 2, 4, 8}[code]
	for i := 0; i < n; i++ {
		x := g.r.U64()
		if w < 8 {
			x &= 1<<(8*uint(w)) - 1
		}
		if text {
			x = uint64(32 + g.r.Intn(90))
		}
		v.prims = append(v.prims, x)
	}
	if text {
		v.prims = append(v.prims, 0)
		v.n++
	}
	return v
}

// ---------------------------------------------------------------- writing through the API

type failure struct{ err error }

func chk(err error) {
	if err != nil {
		panic(failure{err})
	}
}

type writer struct {
	r     *Rand
	msg   *capnp.Message
	first *capnp.Segment
	stats *stats
	depth int // nesting of cross-message sources
}

type stats struct {
	cross, forced, decoy, topdown int
}

func (w *writer) seg() *capnp.Segment {
	n := w.msg.NumSegments()
	if n > 1 && w.r.Intn(3) != 0 {
		if s, err := w.msg.Segment(capnp.SegmentID(w.r.Intn(int(n)))); err == nil {
			return s
		}
	}
	return w.first
}

func osize(dw, pc int) capnp.ObjectSize {
	return capnp.ObjectSize{DataSize: capnp.Size(8 * dw), PointerCount: uint16(pc)}
}

// setData writes the data section with a random mix of accessor widths; optionally writes
// decoy bytes first.
func (w *writer) setData(st capnp.Struct, data []byte) {
	r := w.r
	if len(data) > 0 && r.Intn(5) == 0 {
		w.stats.decoy++
		for o := 0; o < len(data); o++ {
			st.SetUint8(capnp.DataOffset(o), byte(r.U64()))
		}
	}
	for o := 0; o < len(data); {
		wd := []int{1, 2, 4, 8}[r.Intn(4)]
		for o%wd != 0 || o+wd > len(data) {
			wd /= 2
		}
		off := capnp.DataOffset(o)
		switch wd {
		case 1:
			if r.Intn(4) == 0 {
				for b := 0; b < 8; b++ {
					st.SetBit(capnp.BitOffset(8*o+b), data[o]>>uint(b)&1 == 1)
				}
			} else {
				st.SetUint8(off, data[o])
			}
		case 2:
			st.SetUint16(off, binary.LittleEndian.Uint16(data[o:]))
		case 4:
			st.SetUint32(off, binary.LittleEndian.Uint32(data[o:]))
		default:
			st.SetUint64(off, binary.LittleEndian.Uint64(data[o:]))
		}
		o += wd
	}
}

// fillStruct writes data and pointers of v into st.
func (w *writer) fillStruct(st capnp.Struct, v *val) {
	w.setData(st, v.data)
	order := w.r.Intn(2)
	for k := range v.ptrs {
		i := k
		if order == 1 {
			i = len(v.ptrs) - 1 - k
		}
		w.setSlot(func(p capnp.Ptr) error { return st.SetPtr(uint16(i), p) }, v.ptrs[i])
	}
}

// setSlot stores value v into a pointer slot: optionally a decoy first (overwritten), then
// the value, attached bottom-up, top-down, or built in another message and copied.
func (w *writer) setSlot(set func(capnp.Ptr) error, v *val) {
	r := w.r
	if r.Intn(8) == 0 {
		w.stats.decoy++
		g := &gen{r: r, budget: 4, nocaps: true}
		chk(set(w.build(g.value(1))))
	}
	if (v.kind == vStruct || v.kind == vList) && !hasCap(v) && w.depth < 2 && r.Intn(5) == 0 {
		// build in another message, then attach: cross-message deep copy
		w.stats.cross++
		src := newWriter(r, w.stats, w.depth+1)
		chk(set(src.build(v)))
		return
	}
	if (v.kind == vStruct || (v.kind == vList && v.lk >= 6)) && r.Intn(3) == 0 {
		// top-down: attach the empty object first, fill afterwards
		w.stats.topdown++
		p := w.create(v)
		chk(set(p))
		w.fill(p, v)
		return
	}
	chk(set(w.build(v)))
}

func hasCap(v *val) bool {
	if v.kind == vCap {
		return true
	}
	for _, p := range v.ptrs {
		if hasCap(p) {
			return true
		}
	}
	for _, e := range v.elems {
		if hasCap(e) {
			return true
		}
	}
	return false
}

func (w *writer) build(v *val) capnp.Ptr {
	p := w.create(v)
	w.fill(p, v)
	return p
}

// create allocates the object for v; everything except struct / composite / pointer-list
// contents is written here.
func (w *writer) create(v *val) capnp.Ptr {
	s := w.seg()
	switch v.kind {
	case vNull:
		return capnp.Ptr{}
	case vCap:
		return capnp.NewInterface(s, capnp.CapabilityID(v.cap)).ToPtr()
	case vStruct:
		st, err := capnp.NewStruct(s, osize(len(v.data)/8, len(v.ptrs)))
		chk(err)
		return st.ToPtr()
	}
	switch v.lk {
	case 0:
		return capnp.NewVoidList(s, int32(v.n)).ToPtr()
	case 1:
		l, err := capnp.NewBitList(s, int32(v.n))
		chk(err)
		for i, b := range v.bits {
			l.Set(i, b)
		}
		return l.ToPtr()
	case 2:
		b := make([]byte, v.n)
		for i, x := range v.prims {
			b[i] = byte(x)
		}
		if v.n > 0 && b[v.n-1] == 0 && w.r.Bool() {
			l, err := capnp.NewTextFromBytes(s, b[:v.n-1])
			chk(err)
			return l.ToPtr()
		}
		if w.r.Bool() {
			l, err := capnp.NewData(s, b)
			chk(err)
			return l.ToPtr()
		}
		l, err := capnp.NewUInt8List(s, int32(v.n))
		chk(err)
		for i := range b {
			l.Set(i, b[i])
		}
		return l.ToPtr()
	case 3:
		l, err := capnp.NewUInt16List(s, int32(v.n))
		chk(err)
		for i, x := range v.prims {
			l.Set(i, uint16(x))
		}
		return l.ToPtr()
	case 4:
		l, err := capnp.NewUInt32List(s, int32(v.n))
		chk(err)
		for i, x := range v.prims {
			l.Set(i, uint32(x))
		}
		return l.ToPtr()
	case 5:
		l, err := capnp.NewUInt64List(s, int32(v.n))
		chk(err)
		for i, x := range v.prims {
			l.Set(i, x)
		}
		return l.ToPtr()
	case 6:
		l, err := capnp.NewPointerList(s, int32(v.n))
		chk(err)
		return l.ToPtr()
	default:
		l, err := capnp.NewCompositeList(s, osize(v.dw, v.pc), int32(v.n))
		chk(err)
		return l.ToPtr()
	}
}

func (w *writer) fill(p capnp.Ptr, v *val) {
	switch {
	case v.kind == vStruct:
		w.fillStruct(p.Struct(), v)
	case v.kind == vList && v.lk == 6:
		l := capnp.PointerList{List: p.List()}
		for i, e := range v.elems {
			i := i
			w.setSlot(func(q capnp.Ptr) error { return l.Set(i, q) }, e)
		}
	case v.kind == vList && v.lk == 7:
		l := p.List()
		for i, e := range v.elems {
			if w.r.Intn(4) == 0 {
				// element built as a separate struct, then copied in (forced deep copy)
				w.stats.forced++
				st, err := capnp.NewStruct(w.seg(), osize(v.dw, v.pc))
				chk(err)
				w.fillStruct(st, e)
				chk(l.SetStruct(i, st))
			} else {
				w.fillStruct(l.Struct(i), e)
			}
		}
	}
}

// dirty returns an empty buffer of capacity c whose spare capacity holds garbage (a reused buffer)
func dirty(r *Rand, c int) []byte {
	b := make([]byte, c)
	if r.Bool() {
		for i := range b {
			b[i] = 0x5a
		}
	}
	return b[:0]
}

// newMsg creates an empty message in a random arena.
func newMsg(r *Rand) (*capnp.Message, *capnp.Segment, string) {
	switch r.Pick(2, 2, 2, 2, 8) {
	case 0:
		msg, seg, err := capnp.NewMessage(capnp.SingleSegment(nil))
		chk(err)
		return msg, seg, "single"
	case 1:
		msg, seg, err := capnp.NewMessage(capnp.SingleSegment(dirty(r, 8*(1+r.Intn(8)))))
		chk(err)
		return msg, seg, "single-presized"
	case 2:
		msg, seg, err := capnp.NewMessage(capnp.MultiSegment(nil))
		chk(err)
		return msg, seg, "multi"
	case 3:
		msg, seg, err := capnp.NewMessage(capnp.MultiSegment([][]byte{dirty(r, 8*(1+r.Intn(8)))}))
		chk(err)
		return msg, seg, "multi-presized1"
	default:
		// raw multi-segment arena with several pre-sized buffers: capacities around the
		// exhaustion points, so that landing pads do not fit next to their targets
		n := 2 + r.Intn(6)
		bufs := make([][]byte, n)
		for i := range bufs {
			bufs[i] = dirty(r, 8*(1+r.Intn(10)))
		}
		msg := &capnp.Message{Arena: capnp.MultiSegment(bufs)}
		seg, err := msg.Segment(0)
		chk(err)
		_, err = capnp.NewStruct(seg, capnp.ObjectSize{DataSize: 8}) // the root pointer word
		chk(err)
		return msg, seg, "raw-multi"
	}
}

func newWriter(r *Rand, st *stats, depth int) *writer {
	msg, seg, _ := newMsg(r)
	return &writer{r: r, msg: msg, first: seg, stats: st, depth: depth}
}

// ---------------------------------------------------------------- expected tree (rd.Walk syntax)

func capN(n, c int) int {
	if n > c {
		return c
	}
	return n
}

func (v *val) tree(sb *strings.Builder, fuel int) {
	if v.kind == vNull {
		sb.WriteString("0")
		return
	}
	if fuel == 0 {
		sb.WriteString("F")
		return
	}
	sep := func(i int) {
		if i > 0 {
			sb.WriteString(",")
		}
	}
	switch v.kind {
	case vCap:
		fmt.Fprintf(sb, "C%d", v.cap)
	case vStruct:
		sb.WriteString("S(" + Hx(v.data) + "|")
		for i, p := range v.ptrs {
			sep(i)
			p.tree(sb, fuel-1)
		}
		sb.WriteString(")")
	case vList:
		switch v.lk {
		case 0:
			fmt.Fprintf(sb, "V0:%d[]", v.n)
		case 1:
			fmt.Fprintf(sb, "B%d[", v.n)
			for _, b := range v.bits {
				if b {
					sb.WriteString("1")
				} else {
					sb.WriteString("0")
				}
			}
			sb.WriteString("]")
		case 2, 3, 4, 5:
			fmt.Fprintf(sb, "V%d:%d[", []int{0, 0, 1, 2, 4, 8}[v.lk], v.n)
			for i, x := range v.prims {
				sep(i)
				sb.WriteString(strconv.FormatUint(x, 10))
			}
			sb.WriteString("]")
		case 6:
			fmt.Fprintf(sb, "L%d[", v.n)
			for i, e := range v.elems {
				sep(i)
				e.tree(sb, fuel-1)
			}
			sb.WriteString("]")
		default:
			fmt.Fprintf(sb, "M%d:%d:%d[", v.n, 8*v.dw, v.pc)
			for i, e := range v.elems {
				sep(i)
				e.tree(sb, fuel-1)
			}
			sb.WriteString("]")
		}
	}
}

// census counts far / double-far shaped words among the segments (pointer-shaped data words
// are counted too: a distribution statistic only)
func census(b []byte) (far, dfar int) {
	for i := 0; i+8 <= len(b); i += 8 {
		switch binary.LittleEndian.Uint64(b[i:]) & 7 {
		case 2:
			far++
		case 6:
			dfar++
		}
	}
	return
}

const caps = "1048576:4096:64" // data bytes, pointers/elements, levels: far above what is generated

// genCase builds one message; ok=false when the library reported an error (counted).
var errs = map[string]int{}

func genCase(r *Rand, st *stats) (line, obs, kind string, nontrivial, ok bool) {
	defer func() {
		if e := recover(); e != nil {
			if f, isF := e.(failure); isF {
				ok = false
				if errs != nil {
					m := f.err.Error()
					if len(m) > 60 {
						m = m[:60]
					}
					errs[m]++
				}
				return
			}
			panic(e)
		}
	}()
	msg, seg, kind := newMsg(r)
	w := &writer{r: r, msg: msg, first: seg, stats: st}
	g := &gen{r: r, budget: 6 + r.Intn(40)}
	var root *val
	if r.Intn(10) == 0 {
		root = g.value(2 + r.Intn(3))
	} else {
		root = g.structVal(2+r.Intn(4), r.Pick(2, 4, 3, 1), r.Pick(1, 4, 4, 2))
	}
	switch {
	case root.kind == vStruct && r.Intn(3) == 0:
		// the usual way: root struct first, filled in place
		st0, err := capnp.NewRootStruct(seg, osize(len(root.data)/8, len(root.ptrs)))
		chk(err)
		w.fillStruct(st0, root)
	default:
		w.setSlot(func(p capnp.Ptr) error { return msg.SetRoot(p) }, root)
	}
	b, err := msg.Marshal()
	chk(err)
	var sb strings.Builder
	root.tree(&sb, 64)
	far, dfar := 0, 0
	if msg.NumSegments() > 1 {
		far, dfar = census(b)
	}
	if far > 0 {
		kind += "+far"
	}
	if dfar > 0 {
		kind += "+dfar"
	}
	line = "F " + Hx(b) + " " + caps + "=" + sb.String()
	obs = "T" + sb.String() + ";Vok"
	return line, obs, kind, msg.NumSegments() > 1 || strings.Count(sb.String(), "(")+strings.Count(sb.String(), "[") >= 3, true
}

func run(out *Out, r *Rand, tier string, replay []string) {
	if replay != nil {
		for _, l := range replay {
			f := strings.Fields(l)
			obs := "bad-case"
			if len(f) == 3 {
				if i := strings.IndexByte(f[2], '='); i >= 0 {
					obs = "T" + f[2][i+1:] + ";Vok"
				}
			}
			out.Case("replay", l, obs, "replay", true)
		}
		out.Close("replay: the expected tree travels in the case line")
		return
	}
	n := 4000
	if tier == "thorough" {
		n = 100000
	}
	st := &stats{}
	failed := 0
	for i := 0; i < n; i++ {
		line, obs, kind, nt, ok := genCase(r, st)
		if !ok {
			failed++
			continue
		}
		if len(line) > 300000 {
			continue
		}
		out.Case(kind, line, obs, "built", nt)
	}
	out.Extra["x_builder_errors"] = failed
	out.Extra["x_builder_error_kinds"] = errs
	out.Extra["x_cross_message_copies"] = st.cross
	out.Extra["x_forced_copies"] = st.forced
	out.Extra["x_decoys_overwritten"] = st.decoy
	out.Extra["x_topdown_attachments"] = st.topdown
	out.Close("random value trees written through the public builder API (arenas single / multi / pre-sized raw multi-segment with capacities 1..10 words, decoys overwritten, bottom-up and top-down attachment, List.SetStruct, cross-message SetPtr/SetRoot); compared: the written tree (abstract record) vs strict spec_decode of the Marshal bytes, and strict_valid_message = ok. kinds carry +far/+dfar when such words occur. non-trivial = several segments or at least 3 composite nodes")
}
