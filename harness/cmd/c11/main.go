// Command c11: correspondence harness for property C11 (promise pipelining).
//
// A history is a list of operations on one capnp.Promise (see ocaml/promise_driver.ml for the
// syntax).  Operation i is launched in its own goroutine inside a testing/synctest bubble and
// the bubble is run to quiescence (synctest.Wait) before the next one is launched, so an
// operation that blocks (Fulfill waiting for a pipelined call that is still inside the
// PipelineCaller, a pipelined call waiting for resolution, ...) stays blocked while later
// operations run.  The instrumented PipelineCaller and the result capabilities record every
// call they receive.  Observation = per phase the operations that completed and the calls that
// were delivered, then the operations still blocked and whether Promise.mu is free.
//
// A leaked mutex makes synctest.Wait spin forever, so histories run in a child process with a
// real-time watchdog: no progress for watchdogSecs => the child prints the partial observation
// with " HANG" and exits; the parent restarts a child for the remaining histories.
package main

import (
	"bufio"
	"context"
	"errors"
	"fmt"
	"os"
	"os/exec"
	"sort"
	"strconv"
	"strings"
	"sync"
	"sync/atomic"
	"testing"
	"testing/synctest"
	"time"

	capnp "capnproto.org/go/capnp/v3"
	. "verifh/hc"
)

const watchdogSecs = 4

// after this many hanging histories the run stops (every hang costs watchdogSecs of real time)
const maxHangs = 12

func main() {
	if len(os.Args) > 1 && os.Args[1] == "-child" {
		child()
		return
	}
	Main(runC11)
}

// ---------------------------------------------------------------- instrumentation

var errRejected = errors.New("c11-rejected")
var errFromCaller = errors.New("c11-answer-from-pipeline-caller")
var errFromCap = errors.New("c11-answer-from-capability")

type world struct {
	mu         sync.Mutex
	delivered  map[int][]string // call index -> where it was received
	completed  []completion
	gates      map[int]chan struct{}
	gated      map[int]bool
	paths      map[int]string // expected transform of a call, for the PipelineCaller
	resultMsgs []*capnp.Message
}

type completion struct {
	idx int
	out string
}

func (w *world) deliver(idx int, where string) {
	w.mu.Lock()
	w.delivered[idx] = append(w.delivered[idx], where)
	w.mu.Unlock()
}

func (w *world) complete(idx int, out string) {
	w.mu.Lock()
	w.completed = append(w.completed, completion{idx, out})
	w.mu.Unlock()
}

func (w *world) waitGate(idx int) {
	w.mu.Lock()
	g := w.gates[idx]
	w.mu.Unlock()
	if g != nil {
		<-g
	}
}

func transformString(t []capnp.PipelineOp) string {
	if len(t) == 0 {
		return "e"
	}
	s := make([]string, len(t))
	for i, op := range t {
		s[i] = strconv.Itoa(int(op.Field))
	}
	return strings.Join(s, ".")
}

type pcaller struct{ w *world }

func (pc pcaller) where(idx int, t []capnp.PipelineOp) string {
	pc.w.mu.Lock()
	want, ok := pc.w.paths[idx]
	pc.w.mu.Unlock()
	if ok && want != transformString(t) {
		return "caller!transform=" + transformString(t)
	}
	return "caller"
}

func (pc pcaller) PipelineSend(ctx context.Context, t []capnp.PipelineOp, s capnp.Send) (*capnp.Answer, capnp.ReleaseFunc) {
	idx := int(s.Method.MethodID)
	pc.w.deliver(idx, pc.where(idx, t))
	pc.w.waitGate(idx)
	return capnp.ErrorAnswer(s.Method, errFromCaller), func() {}
}

func (pc pcaller) PipelineRecv(ctx context.Context, t []capnp.PipelineOp, r capnp.Recv) capnp.PipelineCaller {
	idx := int(r.Method.MethodID)
	pc.w.deliver(idx, pc.where(idx, t))
	pc.w.waitGate(idx)
	r.Reject(errFromCaller)
	return nil
}

type capHook struct {
	w *world
	k int
}

func (h capHook) Send(ctx context.Context, s capnp.Send) (*capnp.Answer, capnp.ReleaseFunc) {
	if s.Method.InterfaceID == 0xc11 {
		h.w.deliver(int(s.Method.MethodID), "cap"+strconv.Itoa(h.k))
	}
	return capnp.ErrorAnswer(s.Method, errFromCap), func() {}
}

func (h capHook) Recv(ctx context.Context, r capnp.Recv) capnp.PipelineCaller {
	if r.Method.InterfaceID == 0xc11 {
		h.w.deliver(int(r.Method.MethodID), "cap"+strconv.Itoa(h.k))
	}
	r.Reject(errFromCap)
	return nil
}

func (h capHook) Brand() capnp.Brand { return capnp.Brand{Value: h.k} }
func (h capHook) Shutdown()          {}

type returner struct {
	mu   sync.Mutex
	errs []error
	n    int
}

func (r *returner) AllocResults(sz capnp.ObjectSize) (capnp.Struct, error) {
	return capnp.Struct{}, errors.New("no results")
}

func (r *returner) Return(e error) {
	r.mu.Lock()
	r.n++
	r.errs = append(r.errs, e)
	r.mu.Unlock()
}

func errClass(err error) string {
	switch {
	case err == nil:
		return "noerr"
	case strings.Contains(err.Error(), "c11-rejected"):
		return "rej"
	case strings.Contains(err.Error(), "c11-answer-from"):
		return "answered"
	default:
		return "fail"
	}
}

// ---------------------------------------------------------------- history syntax

type step struct {
	prom   int // promise index (after '@')
	parent int // Join: the promise joined onto
	kind   byte
	path   []int
	caps   map[string]int // path string -> cap
	capsL  []string       // in order
	slot   int
	gated  bool
	n      int
	text   string
}

func parsePath(s string) []int {
	if s == "e" {
		return nil
	}
	var p []int
	for _, f := range strings.Split(s, ".") {
		x, err := strconv.Atoi(f)
		if err != nil {
			panic("bad path " + s)
		}
		p = append(p, x)
	}
	return p
}

func pathString(p []int) string {
	if len(p) == 0 {
		return "e"
	}
	s := make([]string, len(p))
	for i, x := range p {
		s[i] = strconv.Itoa(x)
	}
	return strings.Join(s, ".")
}

func parseStep(s string) step {
	f := strings.Split(s, ":")
	st := step{kind: f[0][0], text: s}
	atoi := func(x string) int {
		v, err := strconv.Atoi(x)
		if err != nil {
			panic("bad step " + s)
		}
		return v
	}
	if i := strings.IndexByte(f[0], '@'); i >= 0 {
		st.prom = atoi(f[0][i+1:])
		f[0] = f[0][:i]
	}
	switch f[0] {
	case "J":
		st.parent = atoi(f[1])
	case "F":
		st.caps = map[string]int{}
		if f[1] != "-" {
			for _, kv := range strings.Split(f[1], ",") {
				p := strings.Split(kv, "=")
				st.caps[p[0]] = atoi(p[1])
				st.capsL = append(st.capsL, p[0])
			}
		}
	case "R", "L", "W", "Z":
	case "S", "V":
		st.path = parsePath(f[1])
		st.gated = f[2] == "1"
	case "C":
		st.path = parsePath(f[1])
		st.slot = atoi(f[2])
	case "K", "Q":
		st.slot = atoi(f[1])
		st.gated = f[2] == "1"
	case "U":
		st.n = atoi(f[1])
	default:
		panic("bad step " + s)
	}
	return st
}

// ---------------------------------------------------------------- running one history

type hist struct {
	mu   sync.Mutex
	obs  strings.Builder // observation so far (read by the watchdog)
	prog int64
}

var current atomic.Pointer[hist]
var progress atomic.Int64

func (h *hist) add(s string) {
	h.mu.Lock()
	h.obs.WriteString(s)
	h.mu.Unlock()
	progress.Add(1)
}

func (h *hist) get() string {
	h.mu.Lock()
	defer h.mu.Unlock()
	return h.obs.String()
}

// buildResult makes the Ptr passed to Fulfill: a struct tree with capability k at each path.
func buildResult(w *world, caps map[string]int, order []string, capClients map[int]*capnp.Client) capnp.Ptr {
	if len(caps) == 0 {
		return capnp.Ptr{}
	}
	msg, seg, err := capnp.NewMessage(capnp.SingleSegment(nil))
	if err != nil {
		panic(err)
	}
	w.mu.Lock()
	w.resultMsgs = append(w.resultMsgs, msg)
	w.mu.Unlock()
	clientFor := func(k int) *capnp.Client {
		if c, ok := capClients[k]; ok {
			return c
		}
		c := capnp.NewClient(capHook{w, k})
		capClients[k] = c
		return c
	}
	if k, ok := caps["e"]; ok {
		id := msg.AddCap(clientFor(k))
		return capnp.NewInterface(seg, id).ToPtr()
	}
	const nptr = 260
	root, err := capnp.NewRootStruct(seg, capnp.ObjectSize{PointerCount: nptr})
	if err != nil {
		panic(err)
	}
	for _, ps := range order {
		p := parsePath(ps)
		s := root
		for _, f := range p[:len(p)-1] {
			sub, err := s.Ptr(uint16(f))
			if err != nil {
				panic(err)
			}
			if !sub.IsValid() {
				ns, err := capnp.NewStruct(seg, capnp.ObjectSize{PointerCount: nptr})
				if err != nil {
					panic(err)
				}
				if err := s.SetPtr(uint16(f), ns.ToPtr()); err != nil {
					panic(err)
				}
				s = ns
			} else {
				s = sub.Struct()
			}
		}
		id := msg.AddCap(clientFor(caps[ps]))
		if err := s.SetPtr(uint16(p[len(p)-1]), capnp.NewInterface(seg, id).ToPtr()); err != nil {
			panic(err)
		}
	}
	return root.ToPtr()
}

func runHistory(t *testing.T, line string) string {
	h := &hist{}
	current.Store(h)
	f := strings.Fields(line)
	if len(f) == 0 || (f[0] != "seq" && f[0] != "join" && f[0] != "par") {
		return "bad-case"
	}
	np := 1
	if f[0] == "join" || f[0] == "par" {
		np, _ = strconv.Atoi(f[1])
		f = f[1:]
	}
	steps := make([]step, 0, len(f)-1)
	g0, g1 := -1, -1
	for _, s := range f[1:] {
		switch {
		case s == "{":
			g0 = len(steps)
		case s == "}":
			g1 = len(steps)
		case strings.HasPrefix(s, "!"):
			// the observation recorded by an earlier run (replay files): ignored
		default:
			steps = append(steps, parseStep(s))
		}
	}
	done := make(chan struct{})
	go func() {
		defer close(done)
		defer func() {
			if e := recover(); e != nil {
				h.add(" LEAK")
			}
		}()
		synctest.Test(t, func(t *testing.T) { runSeq(h, steps, np, g0, g1) })
	}()
	<-done
	return h.get()
}

func runSeq(h *hist, steps []step, np int, g0, g1 int) {
	w := &world{delivered: map[int][]string{}, gates: map[int]chan struct{}{}, gated: map[int]bool{}, paths: map[int]string{}}
	ps := make([]*capnp.Promise, np)
	for k := range ps {
		ps[k] = capnp.NewPromise(capnp.Method{InterfaceID: 0xc11, MethodID: uint16(9000 + k)}, pcaller{w})
	}
	ctx, cancel := context.WithCancel(context.Background())
	capClients := map[int]*capnp.Client{}
	var slotMu sync.Mutex
	slots := map[int]*capnp.Client{}
	slotSet := map[int]bool{}
	proxyIDs := map[*capnp.Client]int{}
	type pendingHandle struct {
		idx  int
		slot int
		c    *capnp.Client
	}
	var handles []pendingHandle // Client() results of the current phase, named after quiescence
	future := func(p *capnp.Promise, path []int) *capnp.Future {
		f := p.Answer().Future()
		for _, x := range path {
			f = f.Field(uint16(x), nil)
		}
		return f
	}
	transform := func(path []int) []capnp.PipelineOp {
		t := make([]capnp.PipelineOp, len(path))
		for i, x := range path {
			t[i].Field = uint16(x)
		}
		return t
	}
	// outcome of a call op: where the instrumentation saw it, else the class of its error
	callOutcome := func(idx int, err error) {
		w.mu.Lock()
		n := len(w.delivered[idx])
		w.mu.Unlock()
		if n == 0 {
			w.deliver(idx, errClass(err))
		}
	}
	for i := range steps {
		if steps[i].gated {
			w.gates[i] = make(chan struct{})
			w.gated[i] = true
		}
	}
	completedSeen, nameHandles := 0, func() {}
	deliveredSeen := map[int]int{}
	launch := func(i int) {
		st := steps[i]
		method := capnp.Method{InterfaceID: 0xc11, MethodID: uint16(i)}
		if st.prom >= np || st.parent >= np {
			panic("promise index out of range: " + st.text)
		}
		p := ps[st.prom]
		switch st.kind {
		case 'J':
			parent := ps[st.parent]
			go func() { w.complete(i, Safely(func() string { p.Join(parent.Answer()); return "ret" })) }()
		case 'F':
			go func() {
				res := buildResult(w, st.caps, st.capsL, capClients)
				w.complete(i, Safely(func() string { p.Fulfill(res); return "ret" }))
			}()
		case 'R':
			go func() { w.complete(i, Safely(func() string { p.Reject(errRejected); return "ret" })) }()
		case 'S':
			w.paths[i] = pathString(st.path)
			go func() {
				ans, rel := p.Answer().PipelineSend(ctx, transform(st.path), capnp.Send{Method: method})
				_, err := ans.Struct()
				rel()
				callOutcome(i, err)
				w.complete(i, "ret")
			}()
		case 'V':
			w.paths[i] = pathString(st.path)
			go func() {
				rt := &returner{}
				p.Answer().PipelineRecv(ctx, transform(st.path), capnp.Recv{Method: method, ReleaseArgs: func() {}, Returner: rt})
				var err error
				rt.mu.Lock()
				if rt.n == 1 {
					err = rt.errs[0]
				} else {
					err = fmt.Errorf("returner called %d times", rt.n)
				}
				rt.mu.Unlock()
				callOutcome(i, err)
				w.complete(i, "ret")
			}()
		case 'C':
			go func() {
				c := future(p, st.path).Client()
				// the slot is written after quiescence, in operation order (several Client() calls
				// can be released by the same resolution)
				slotMu.Lock()
				handles = append(handles, pendingHandle{i, st.slot, c})
				slotMu.Unlock()
			}()
		case 'K', 'Q':
			go func() {
				slotMu.Lock()
				c, ok := slots[st.slot], slotSet[st.slot]
				slotMu.Unlock()
				if !ok {
					w.complete(i, "noslot")
					return
				}
				w.mu.Lock()
				delete(w.paths, i) // the transform is the proxy's path; checked through the delivery class only
				w.mu.Unlock()
				if st.kind == 'K' {
					ans, rel := c.SendCall(ctx, capnp.Send{Method: method})
					_, err := ans.Struct()
					rel()
					callOutcome(i, err)
				} else {
					rt := &returner{}
					c.RecvCall(ctx, capnp.Recv{Method: method, ReleaseArgs: func() {}, Returner: rt})
					var err error
					rt.mu.Lock()
					if rt.n == 1 {
						err = rt.errs[0]
					} else {
						err = fmt.Errorf("returner called %d times", rt.n)
					}
					rt.mu.Unlock()
					callOutcome(i, err)
				}
				w.complete(i, "ret")
			}()
		case 'L':
			go func() { p.ReleaseClients(); w.complete(i, "ret") }()
		case 'W':
			go func() {
				_, err := p.Answer().Struct()
				if err != nil {
					w.complete(i, "rej")
				} else {
					w.complete(i, "ok")
				}
			}()
		case 'Z':
			// the owner of the result: waits for Done, then releases the result message(s)
			go func() {
				<-ps[0].Answer().Done()
				w.mu.Lock()
				ms := w.resultMsgs
				w.resultMsgs = nil
				w.mu.Unlock()
				for _, m := range ms {
					m.Reset(nil)
				}
				w.complete(i, "ret")
			}()
		case 'U':
			go func() {
				w.mu.Lock()
				if g := w.gates[st.n]; g != nil {
					close(g)
					delete(w.gates, st.n)
				}
				w.mu.Unlock()
				w.complete(i, "ret")
			}()
		}
	}
	for i := 0; i < len(steps); {
		lo, hi := i, i+1
		if i == g0 && g1 > g0 {
			hi = g1 // the launch group: all its operations are started before the bubble runs
		}
		for j := lo; j < hi; j++ {
			launch(j)
		}
		i = hi
		synctest.Wait()
		// name the clients returned in this phase
		nameHandles = func() {
			slotMu.Lock()
			hs := handles
			handles = nil
			slotMu.Unlock()
			sort.Slice(hs, func(a, b int) bool { return hs[a].idx < hs[b].idx })
			for _, ph := range hs {
				slotMu.Lock()
				slots[ph.slot] = ph.c
				slotSet[ph.slot] = true
				slotMu.Unlock()
				name := ""
				switch {
				case ph.c == nil:
					name = "fail"
				default:
					for k, cc := range capClients {
						if cc == ph.c {
							name = "cap" + strconv.Itoa(k)
						}
					}
					if name == "" {
						if id, ok := proxyIDs[ph.c]; ok {
							name = "p" + strconv.Itoa(id)
						} else if ph.c.State().IsPromise {
							id := len(proxyIDs)
							proxyIDs[ph.c] = id
							name = "p" + strconv.Itoa(id)
						} else {
							// an error client: which error?
							ans, rel := ph.c.SendCall(context.Background(), capnp.Send{Method: capnp.Method{InterfaceID: 0xdead}})
							_, err := ans.Struct()
							rel()
							name = errClass(err)
						}
					}
				}
				w.complete(ph.idx, name)
			}
		}
		nameHandles()
		// collect what happened in this phase
		var items []string
		type item struct {
			idx, kind int
			s         string
		}
		var its []item
		w.mu.Lock()
		for _, c := range w.completed[completedSeen:] {
			its = append(its, item{c.idx, 0, fmt.Sprintf("c%d=%s", c.idx, c.out)})
		}
		completedSeen = len(w.completed)
		for idx, ds := range w.delivered {
			if len(ds) > deliveredSeen[idx] {
				its = append(its, item{idx, 1, fmt.Sprintf("d%d=%s", idx, strings.Join(ds[deliveredSeen[idx]:], "+"))})
				deliveredSeen[idx] = len(ds)
			}
		}
		w.mu.Unlock()
		sort.Slice(its, func(a, b int) bool {
			if its[a].idx != its[b].idx {
				return its[a].idx < its[b].idx
			}
			return its[a].kind < its[b].kind
		})
		for _, it := range its {
			items = append(items, it.s)
		}
		sep := ""
		if lo > 0 {
			sep = "|"
		}
		h.add(fmt.Sprintf("%s%d:%s", sep, lo, strings.Join(items, ",")))
	}
	// final: who is still blocked, is mu free
	doneSet := map[int]bool{}
	w.mu.Lock()
	for _, c := range w.completed {
		doneSet[c.idx] = true
	}
	w.mu.Unlock()
	var stuck []string
	for i := range steps {
		if !doneSet[i] {
			stuck = append(stuck, strconv.Itoa(i))
		}
	}
	s := "-"
	if len(stuck) > 0 {
		s = strings.Join(stuck, ",")
	}
	muS := "free"
	for _, p := range ps {
		if !p.VerifMuFree() {
			muS = "held"
		}
	}
	h.add(fmt.Sprintf(" stuck=%s mu=%s", s, muS))
	// let the bubble end: cancel contexts, open all gates
	cancel()
	w.mu.Lock()
	for k, g := range w.gates {
		close(g)
		delete(w.gates, k)
	}
	w.mu.Unlock()
	synctest.Wait()
}

// ---------------------------------------------------------------- child process

func child() {
	var lines []string
	sc := bufio.NewScanner(os.Stdin)
	sc.Buffer(make([]byte, 1<<20), 1<<26)
	for sc.Scan() {
		lines = append(lines, sc.Text())
	}
	outw := bufio.NewWriter(os.Stdout)
	var outMu sync.Mutex
	// watchdog (outside any bubble, real time)
	go func() {
		last := progress.Load()
		idle := 0
		for {
			time.Sleep(250 * time.Millisecond)
			now := progress.Load()
			if now != last {
				last = now
				idle = 0
				continue
			}
			idle++
			if idle >= watchdogSecs*4 {
				outMu.Lock()
				if h := current.Load(); h != nil {
					fmt.Fprintln(outw, h.get()+" HANG")
				}
				outw.Flush()
				os.Exit(3)
			}
		}
	}()
	testing.Init()
	tests := []testing.InternalTest{{Name: "C11", F: func(t *testing.T) {
		for _, l := range lines {
			obs := runHistory(t, l)
			outMu.Lock()
			fmt.Fprintln(outw, obs)
			outw.Flush()
			outMu.Unlock()
			current.Store(nil)
			progress.Add(1)
		}
	}}}
	os.Args = []string{os.Args[0]}
	testing.Main(func(pat, str string) (bool, error) { return true, nil }, tests, nil, nil)
}

// runChildren runs the histories through child processes; returns one observation per history.
func runChildren(lines []string) []string {
	res := make([]string, 0, len(lines))
	hangs := 0
	for len(res) < len(lines) && hangs < maxHangs {
		rest := lines[len(res):]
		cmd := exec.Command(os.Args[0], "-child")
		cmd.Stdin = strings.NewReader(strings.Join(rest, "\n") + "\n")
		cmd.Stderr = os.Stderr
		outp, err := cmd.StdoutPipe()
		if err != nil {
			panic(err)
		}
		if err := cmd.Start(); err != nil {
			panic(err)
		}
		sc := bufio.NewScanner(outp)
		sc.Buffer(make([]byte, 1<<20), 1<<26)
		got := 0
		for sc.Scan() {
			l := sc.Text()
			if strings.HasPrefix(l, "PASS") || strings.HasPrefix(l, "FAIL") || strings.HasPrefix(l, "ok ") || strings.HasPrefix(l, "---") || strings.HasPrefix(l, "===") || strings.HasPrefix(l, "    ") {
				continue
			}
			if got < len(rest) {
				res = append(res, l)
				got++
			}
		}
		cmd.Wait()
		if got > 0 && strings.Contains(res[len(res)-1], "HANG") {
			hangs++
		}
		if got == 0 {
			// the child died without reporting anything for the first remaining history
			res = append(res, "CRASH")
		}
	}
	return res
}

// ---------------------------------------------------------------- generation

var pathSets = [][]string{
	{"0", "1", "2.0", "256"},
	{"0.1", "0.2", "1", "3.0"},
	{"e"},
	{"0", "1.256", "257"},
}

// genBusy: proxy clients with calls still inside the PipelineCaller when the resolution is
// requested, then calls through the same and the other proxies while the resolution is pending.
func genBusy(r *Rand) string {
	set := pathSets[[]int{0, 1, 3}[r.Intn(3)]]
	np := 1 + r.Intn(3)
	var steps []string
	for i := 0; i < np; i++ {
		steps = append(steps, fmt.Sprintf("C:%s:%d", set[i], i))
	}
	var gated []int
	for i := 0; i < np; i++ {
		if r.Intn(3) != 0 {
			gated = append(gated, len(steps))
			steps = append(steps, fmt.Sprintf("%s:%d:1", []string{"K", "Q"}[r.Intn(2)], i))
		}
	}
	if r.Intn(3) == 0 {
		gated = append(gated, len(steps))
		steps = append(steps, fmt.Sprintf("S:%s:1", set[r.Intn(len(set))]))
	}
	var cs []string
	for i, p := range set {
		if r.Intn(5) != 0 {
			cs = append(cs, fmt.Sprintf("%s=%d", p, i+1))
		}
	}
	caps := "-"
	if len(cs) > 0 {
		caps = strings.Join(cs, ",")
	}
	if r.Intn(4) == 0 {
		steps = append(steps, "R:-")
	} else {
		steps = append(steps, "F:"+caps+":-")
	}
	// while the resolution is pending
	for k := 0; k < 1+r.Intn(4); k++ {
		switch r.Intn(5) {
		case 0:
			steps = append(steps, fmt.Sprintf("S:%s:0", set[r.Intn(len(set))]))
		case 1:
			steps = append(steps, fmt.Sprintf("C:%s:%d", set[r.Intn(len(set))], 10+len(steps)))
		case 2:
			steps = append(steps, "W")
		default:
			steps = append(steps, fmt.Sprintf("K:%d:0", r.Intn(np)))
		}
	}
	// let the calls go in random order, interleaved with more calls
	for len(gated) > 0 {
		k := r.Intn(len(gated))
		steps = append(steps, fmt.Sprintf("U:%d", gated[k]))
		gated = append(gated[:k], gated[k+1:]...)
		if r.Intn(2) == 0 {
			steps = append(steps, fmt.Sprintf("K:%d:0", r.Intn(np)))
		}
	}
	steps = append(steps, "W", "K:0:0", "L", "K:0:0", "L", "R:-")
	if r.Intn(3) == 0 {
		steps = append(steps, "Z")
	}
	return "seq " + strings.Join(steps, " ")
}

// genJoin: histories over 2..3 promises with Join (promise k joins a lower one, so no cycles).
func genJoin(r *Rand, maxOps int) string {
	np := 2 + r.Intn(2)
	set := pathSets[[]int{0, 1, 3}[r.Intn(3)]]
	pickPath := func() string {
		if r.Intn(3) == 0 {
			return set[r.Intn(len(set))]
		}
		return set[0]
	}
	caps := func() string {
		var cs []string
		for i, p := range set {
			if r.Intn(4) != 0 {
				cs = append(cs, fmt.Sprintf("%s=%d", p, i+1))
			}
		}
		if len(cs) == 0 {
			return "-"
		}
		return strings.Join(cs, ",")
	}
	var steps []string
	var gated []int
	cslots := []int{0, 1, 2}
	pickSlot := func() int { return cslots[r.Intn(len(cslots))] }
	add := func(s string) { steps = append(steps, s) }
	pk := func() int { return r.Intn(np) }
	switch r.Intn(4) {
	case 0:
		// Join started while the other promise is pending resolution (a call is still inside its
		// PipelineCaller), the joining promise idle or busy
		gated = append(gated, len(steps))
		add(fmt.Sprintf("S@0:%s:1", pickPath()))
		if r.Bool() {
			add(fmt.Sprintf("C@1:%s:0", pickPath()))
		}
		if r.Intn(3) == 0 {
			gated = append(gated, len(steps))
			add(fmt.Sprintf("S@1:%s:1", pickPath()))
		}
		if r.Intn(4) == 0 {
			add("R@0:-")
		} else {
			add("F@0:" + caps() + ":-")
		}
		add("J@1:0")
		if np == 3 && r.Bool() {
			add("J@2:1")
		}
	case 1:
		// Join started while the other promise is pending join
		gated = append(gated, len(steps))
		add(fmt.Sprintf("S@1:%s:1", pickPath()))
		if r.Bool() {
			add(fmt.Sprintf("C@1:%s:1", pickPath()))
		}
		add("J@1:0")
		if np == 3 {
			if r.Bool() {
				add(fmt.Sprintf("C@2:%s:2", pickPath()))
			}
			add("J@2:1")
		}
	default:
	}
	n := 2 + r.Intn(maxOps)
	for i := 0; i < n; i++ {
		g := 0
		if r.Intn(3) == 0 {
			g = 1
		}
		switch r.Pick(4, 2, 5, 4, 1, 1, 1, 1, 1, 2, 3) {
		case 0:
			add(fmt.Sprintf("S@%d:%s:%d", pk(), pickPath(), g))
		case 1:
			add(fmt.Sprintf("V@%d:%s:%d", pk(), pickPath(), g))
		case 2:
			// every Client() op has its own slot: two of them woken by the same resolution must not
			// race for one slot in the harness
			cslots = append(cslots, 10+len(steps))
			add(fmt.Sprintf("C@%d:%s:%d", pk(), pickPath(), 10+len(steps)))
			g = 0
		case 3:
			add(fmt.Sprintf("K:%d:%d", pickSlot(), g))
		case 4:
			add(fmt.Sprintf("Q:%d:%d", pickSlot(), g))
		case 5:
			add(fmt.Sprintf("F@%d:%s:-", pk(), caps()))
			g = 0
		case 6:
			add(fmt.Sprintf("R@%d:-", pk()))
			g = 0
		case 7:
			add(fmt.Sprintf("L@%d", pk()))
			g = 0
		case 8:
			add(fmt.Sprintf("W@%d", pk()))
			g = 0
		case 9:
			g = 0
			if len(gated) > 0 {
				k := r.Intn(len(gated))
				add(fmt.Sprintf("U:%d", gated[k]))
				gated = append(gated[:k], gated[k+1:]...)
			} else {
				add(fmt.Sprintf("U:%d", r.Intn(n)))
			}
		case 10:
			g = 0
			k := 1 + r.Intn(np-1)
			add(fmt.Sprintf("J@%d:%d", k, r.Intn(k)))
		}
		if g == 1 {
			gated = append(gated, len(steps)-1)
		}
	}
	// close the history: let every call go, resolve every promise (again), release, wait, use
	for _, g := range gated {
		add(fmt.Sprintf("U:%d", g))
	}
	for k := 0; k < np; k++ {
		if r.Bool() {
			add(fmt.Sprintf("F@%d:%s:-", k, caps()))
		} else {
			add(fmt.Sprintf("R@%d:-", k))
		}
	}
	for k := np - 1; k >= 0; k-- {
		add(fmt.Sprintf("S@%d:%s:0", k, pickPath()))
		add(fmt.Sprintf("C@%d:%s:%d", k, pickPath(), k))
		add(fmt.Sprintf("W@%d", k))
	}
	add("K:0:0")
	add("K:1:0")
	for k := 0; k < np; k++ {
		add(fmt.Sprintf("L@%d", k))
	}
	add("K:0:0")
	add("K:2:0")
	return fmt.Sprintf("join %d %s", np, strings.Join(steps, " "))
}

// genPar: a prefix of sequenced operations, a group of 2..3 operations launched together, a closing suffix.
// No Future.Client inside the group (slot writes would race in the harness itself).
func genPar(r *Rand) string {
	np := 1 + r.Intn(2)
	set := pathSets[[]int{0, 1, 3}[r.Intn(3)]]
	path := func() string { return set[r.Intn(2)%len(set)] }
	caps := fmt.Sprintf("%s=1", set[0])
	pk := func() int { return r.Intn(np) }
	var pre, grp, suf []string
	var gated []int
	idx := 0
	add := func(dst *[]string, s string) { *dst = append(*dst, s); idx++ }
	if r.Bool() {
		add(&pre, fmt.Sprintf("C@%d:%s:0", pk(), path()))
	}
	for k := 0; k < r.Intn(3); k++ {
		switch r.Intn(3) {
		case 0:
			gated = append(gated, idx)
			add(&pre, fmt.Sprintf("S@%d:%s:1", pk(), path()))
		case 1:
			gated = append(gated, idx)
			add(&pre, "K:0:1")
		case 2:
			add(&pre, fmt.Sprintf("W@%d", pk()))
		}
	}
	ng := 2 + r.Intn(2)
	for k := 0; k < ng; k++ {
		switch r.Pick(3, 3, 2, 2, 2, 1, 1) {
		case 0:
			add(&grp, fmt.Sprintf("F@%d:%s:-", pk(), caps))
		case 1:
			if np > 1 {
				add(&grp, "J@1:0")
			} else {
				add(&grp, "R@0:-")
			}
		case 2:
			add(&grp, fmt.Sprintf("S@%d:%s:0", pk(), path()))
		case 3:
			add(&grp, "K:0:0")
		case 4:
			if len(gated) > 0 {
				add(&grp, fmt.Sprintf("U:%d", gated[0]))
				gated = gated[1:]
			} else {
				add(&grp, fmt.Sprintf("W@%d", pk()))
			}
		case 5:
			add(&grp, fmt.Sprintf("L@%d", pk()))
		case 6:
			add(&grp, fmt.Sprintf("V@%d:%s:0", pk(), path()))
		}
	}
	for _, g := range gated {
		add(&suf, fmt.Sprintf("U:%d", g))
	}
	for k := 0; k < np; k++ {
		add(&suf, fmt.Sprintf("R@%d:-", k))
	}
	for k := 0; k < np; k++ {
		add(&suf, fmt.Sprintf("S@%d:%s:0", k, path()))
		add(&suf, fmt.Sprintf("W@%d", k))
	}
	add(&suf, "K:0:0")
	for k := 0; k < np; k++ {
		add(&suf, fmt.Sprintf("L@%d", k))
	}
	all := append(append(append(append([]string{}, pre...), "{"), grp...), "}")
	all = append(all, suf...)
	return fmt.Sprintf("par %d %s", np, strings.Join(all, " "))
}

// genChain: chains of 3..4 promises; the join edges k -> k-1 are requested in a random order (child first,
// parent first, mixed), pipelined clients are requested on the deepest and on other promises before and
// between the joins, the leaf is resolved, then ReleaseClients is called on the promises in a random order
// with a call through every client after each of them (the table is reference counted: one reference per
// promise of the chain; the clients must survive until the last ReleaseClients).
func genChain(r *Rand) string {
	np := 3 + r.Intn(2)
	set := pathSets[[]int{0, 1, 3}[r.Intn(3)]]
	var steps []string
	var slots []int
	add := func(s string) { steps = append(steps, s) }
	client := func(k int) {
		sl := 10 + len(steps)
		slots = append(slots, sl)
		add(fmt.Sprintf("C@%d:%s:%d", k, set[r.Intn(2)%len(set)], sl))
	}
	client(np - 1)
	if r.Bool() {
		client(r.Intn(np))
	}
	// the join edges in a random order
	edges := make([]int, 0, np-1)
	for k := 1; k < np; k++ {
		edges = append(edges, k)
	}
	switch r.Intn(3) {
	case 0: // child first
		for i, j := 0, len(edges)-1; i < j; i, j = i+1, j-1 {
			edges[i], edges[j] = edges[j], edges[i]
		}
	case 1: // parent first
	default:
		for i := len(edges) - 1; i > 0; i-- {
			j := r.Intn(i + 1)
			edges[i], edges[j] = edges[j], edges[i]
		}
	}
	for _, k := range edges {
		add(fmt.Sprintf("J@%d:%d", k, k-1))
		if r.Intn(3) == 0 {
			client(r.Intn(np))
		}
		if r.Intn(4) == 0 {
			add(fmt.Sprintf("K:%d:0", slots[r.Intn(len(slots))]))
		}
	}
	var cs []string
	for i, p := range set {
		cs = append(cs, fmt.Sprintf("%s=%d", p, i+1))
	}
	if r.Intn(5) == 0 {
		add("R@0:-")
	} else {
		add("F@0:" + strings.Join(cs, ",") + ":-")
	}
	order := make([]int, np)
	for k := range order {
		order[k] = k
	}
	for i := np - 1; i > 0; i-- {
		j := r.Intn(i + 1)
		order[i], order[j] = order[j], order[i]
	}
	for _, sl := range slots {
		add(fmt.Sprintf("K:%d:0", sl))
	}
	for _, k := range order {
		add(fmt.Sprintf("L@%d", k))
		for _, sl := range slots {
			add(fmt.Sprintf("K:%d:0", sl))
		}
		if r.Intn(3) == 0 {
			add(fmt.Sprintf("L@%d", k)) // a second ReleaseClients on the same promise does nothing
		}
	}
	for k := 0; k < np; k++ {
		add(fmt.Sprintf("W@%d", k))
	}
	return fmt.Sprintf("join %d %s", np, strings.Join(steps, " "))
}

func genHistory(r *Rand, maxOps int) string {
	if r.Intn(10) == 0 {
		return genChain(r)
	}
	if r.Intn(8) == 0 {
		return genPar(r)
	}
	if r.Intn(3) == 0 {
		return genJoin(r, maxOps)
	}
	if r.Intn(4) == 0 {
		return genBusy(r)
	}
	set := pathSets[r.Pick(4, 3, 1, 2)]
	extra := []string{"e", "5", "0.7", "1"}
	pickPath := func() string {
		if r.Intn(6) == 0 {
			return extra[r.Intn(len(extra))]
		}
		// favour the first two paths so that the same path is asked for repeatedly
		if r.Intn(2) == 0 {
			return set[0]
		}
		return set[r.Intn(len(set))]
	}
	genCaps := func() string {
		var cs []string
		for _, p := range set {
			if r.Intn(4) != 0 {
				cs = append(cs, fmt.Sprintf("%s=%d", p, 1+r.Intn(3)))
			}
		}
		if len(cs) == 0 {
			return "-"
		}
		return strings.Join(cs, ",")
	}
	n := 3 + r.Intn(maxOps)
	var steps []string
	var gated []int
	cslots := []int{0, 1, 2}
	usedLow := map[int]bool{}
	resolvedAt := -1
	for i := 0; i < n; i++ {
		g := 0
		if r.Intn(3) == 0 && resolvedAt < 0 {
			g = 1
		}
		wRes := 1
		if i < 2 {
			wRes = 0
		}
		switch r.Pick(4, 2, 6, 5, 1, wRes, wRes, 1, 1, 2) {
		case 0:
			steps = append(steps, fmt.Sprintf("S:%s:%d", pickPath(), g))
		case 1:
			steps = append(steps, fmt.Sprintf("V:%s:%d", pickPath(), g))
		case 2:
			sl := r.Intn(3)
			if resolvedAt >= 0 || r.Bool() {
				sl = 10 + len(steps) // own slot (see genJoin)
			}
			if sl < 3 && usedLow[sl] && resolvedAt < 0 {
				sl = 10 + len(steps)
			}
			if sl < 3 {
				usedLow[sl] = true
			}
			cslots = append(cslots, sl)
			steps = append(steps, fmt.Sprintf("C:%s:%d", pickPath(), sl))
		case 3:
			steps = append(steps, fmt.Sprintf("K:%d:%d", cslots[r.Intn(len(cslots))], g))
		case 4:
			steps = append(steps, fmt.Sprintf("Q:%d:%d", cslots[r.Intn(len(cslots))], g))
		case 5:
			steps = append(steps, "F:"+genCaps()+":-")
			if resolvedAt < 0 {
				resolvedAt = i
			}
			g = 0
		case 6:
			steps = append(steps, "R:-")
			if resolvedAt < 0 {
				resolvedAt = i
			}
			g = 0
		case 7:
			steps = append(steps, "L")
			g = 0
		case 8:
			steps = append(steps, "W")
			g = 0
		case 9:
			if len(gated) > 0 && r.Intn(4) != 0 {
				k := r.Intn(len(gated))
				steps = append(steps, fmt.Sprintf("U:%d", gated[k]))
				gated = append(gated[:k], gated[k+1:]...)
			} else {
				steps = append(steps, fmt.Sprintf("U:%d", r.Intn(n)))
			}
			g = 0
		}
		if g == 1 && strings.HasSuffix(steps[len(steps)-1], ":1") {
			gated = append(gated, i)
		}
	}
	// close the history: resolve (again), let every call go, release, wait
	tail := []string{}
	if r.Bool() {
		tail = append(tail, "F:"+genCaps()+":-")
	} else {
		tail = append(tail, "R:-")
	}
	for _, gidx := range gated {
		tail = append(tail, fmt.Sprintf("U:%d", gidx))
	}
	// sometimes the calls are let go before the resolution is requested
	if r.Bool() {
		tail = append(tail[1:], tail[0])
	}
	tail = append(tail, "L", "W", "K:0:0", "C:"+set[0]+":1", "K:1:0", "L")
	if r.Intn(3) == 0 {
		tail = append(tail, "Z") // nothing reads the result afterwards
	}
	return "seq " + strings.Join(append(steps, tail...), " ")
}

func runC11(out *Out, r *Rand, tier string, replay []string) {
	var lines []string
	if replay != nil {
		lines = replay
	} else {
		n, maxOps := 4000, 10
		if tier == "thorough" {
			n, maxOps = 150000, 18
		}
		for i := 0; i < n; i++ {
			lines = append(lines, genHistory(r, maxOps))
		}
	}
	obs := runChildren(lines)
	lines = lines[:len(obs)] // the run stops early after maxHangs hanging histories
	hangs := 0
	for i, l := range lines {
		o := obs[i]
		class := "complete"
		switch {
		case strings.Contains(o, "HANG"):
			class = "hang"
			hangs++
		case !strings.Contains(o, "stuck=- "):
			class = "blocked"
		}
		kind := "seq"
		if strings.HasPrefix(l, "join ") {
			kind = "join"
		}
		if strings.HasPrefix(l, "par ") || strings.HasPrefix(l, "join ") {
			// the model allows a set of outcomes (a launch group, or several goroutines woken by one
			// close): the driver is told what was observed
			if strings.HasPrefix(l, "par ") {
				kind = "par"
			}
			var keep []string
			for _, tok := range strings.Fields(l) {
				if !strings.HasPrefix(tok, "!") {
					keep = append(keep, tok)
				}
			}
			l = strings.Join(keep, " ") + " !" + strings.ReplaceAll(o, " ", "~")
		}
		// non-trivial: the history has a pipelined call or a proxy client and a resolution
		nontrivial := (strings.Contains(l, " S") || strings.Contains(l, " V") || strings.Contains(l, " C")) &&
			(strings.Contains(l, " F") || strings.Contains(l, " R"))
		out.Case(kind, l, o, class, nontrivial)
	}
	out.Extra["x_hangs"] = hangs
	out.Close("histories of 3..N random operations (PipelineSend/Recv with gated or free PipelineCaller, Future.Client on repeated and " +
		"different paths, calls on the returned clients, Fulfill/Reject, ReleaseClients, Struct, gate releases) closed by a resolution, " +
		"release of all gates, ReleaseClients and calls on old and new clients; distinct = distinct history; non-trivial = has a " +
		"pipelined call or proxy client and a resolution")
}
